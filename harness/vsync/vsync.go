// Package vsync is a drop-in for the parts of package sync that DVID uses, plus a cooperative scheduler.
// Instrumented builds (bin/vcheck-sched) rewrite `import "sync"` to this package and `go f(x)` to vsync.Go in the DVID
// packages under test. Outside an exploration, and for goroutines the scheduler does not control, every operation
// falls straight through to the real sync primitive.
package vsync

import (
	"bytes"
	"fmt"
	"runtime"
	"strconv"
	"strings"
	"sync"
	"sync/atomic"
	"time"
	"unsafe"
)

// Types that are not modelled.
type (
	Once   = sync.Once
	Pool   = sync.Pool
	Map    = sync.Map
	Cond   = sync.Cond
	Locker = sync.Locker
)

func NewCond(l Locker) *Cond { return sync.NewCond(l) }

func OnceFunc(f func()) func() { return sync.OnceFunc(f) }

// ---------------------------------------------------------------- scheduler

type opKind int

const (
	opStart opKind = iota
	opLock
	opRLock
	opWLockAnnounce
	opWLockAcquire
	opWait
	opStore
	opSpawn
	opYield
)

func (k opKind) String() string {
	return [...]string{"start", "Lock", "RLock", "Lock(announce)", "Lock(acquire)", "Wait", "store", "spawn", "yield"}[k]
}

type thread struct {
	id      int
	gid     int64
	wake    chan struct{}
	kind    opKind
	obj     unsafe.Pointer
	note    string
	pending bool // parked at a point
	done    bool
	fresh   bool // just passed StorePoint: the first engine transaction that follows does not yield again (TxnPoint)
	ext     bool // believed to be blocked on something the scheduler does not model (channel, uncontrolled goroutine)
	name    string
}

type msg struct {
	t    *thread
	done bool
}

type rwState struct {
	writer  int
	readers map[int]int
	waiting int
}

// Point describes one scheduling decision of an execution.
type PointRec struct {
	Enabled             []int  // thread ids in canonical order (running first if enabled, then ascending)
	Choice              int    // index into Enabled
	RunningStillEnabled bool   // the previously running thread could have continued
	Op                  string // what the chosen thread does next
}

// Execution is the record of one complete run.
type Execution struct {
	Points    []PointRec
	Deadlock  string // non-empty: description of the threads that could not proceed
	ExtBlocks int    // times a thread was found blocked outside the model
	Diverged  string // replay prefix could not be followed
}

var (
	mu       sync.Mutex // protects everything below
	active   int32
	threads  []*thread
	byGID    map[int64]*thread
	arrive   chan msg
	mutexOwn map[unsafe.Pointer]int
	rw       map[unsafe.Pointer]*rwState
	wgCount  map[unsafe.Pointer]int
	version  int64 // bumped on every model change made outside a scheduling decision
)

func gid() int64 {
	var buf [64]byte
	n := runtime.Stack(buf[:], false)
	// "goroutine 123 ["
	b := buf[10:n]
	i := bytes.IndexByte(b, ' ')
	if i < 0 {
		return -1
	}
	v, _ := strconv.ParseInt(string(b[:i]), 10, 64)
	return v
}

func self() *thread {
	if atomic.LoadInt32(&active) == 0 {
		return nil
	}
	g := gid()
	mu.Lock()
	t := byGID[g]
	mu.Unlock()
	return t
}

// point parks the calling controlled thread until the scheduler selects it.
func point(t *thread, k opKind, obj unsafe.Pointer, note string) {
	mu.Lock()
	t.kind, t.obj, t.note, t.pending = k, obj, note, true
	mu.Unlock()
	arrive <- msg{t: t}
	<-t.wake
}

// Yield is a scheduling point with no effect (for store operations and explicit yields in spin loops).
func Yield(note string) {
	if t := self(); t != nil {
		point(t, opStore, nil, note)
	}
}

// StorePoint is the scheduling point the store wrapper takes before a store operation.
func StorePoint(note string) {
	if t := self(); t != nil {
		point(t, opStore, nil, note)
		t.fresh = true
	}
}

// TxnPoint is a scheduling point before an engine transaction inside a store operation (inserted into storage/badger by
// vinstr). The first transaction after StorePoint belongs to the point already taken; every further one yields, so an
// operation that is not a single transaction can be interleaved between its transactions.
func TxnPoint() {
	if t := self(); t != nil {
		if t.fresh {
			t.fresh = false
			return
		}
		point(t, opStore, nil, "txn")
	}
}

// TxnHook, if set, is called before every engine transaction of the instrumented storage/badger (kind = Update, View,
// Flush or Commit), whether or not the scheduler is active. C04 uses it to kill a worker between the engine transactions of
// one store operation.
var TxnHook func(kind string)

// TxnPointKind is what vinstr inserts: the hook, then the scheduling point.
func TxnPointKind(kind string) {
	if TxnHook != nil {
		TxnHook(kind)
	}
	TxnPoint()
}

// Go starts f in a new goroutine; if the caller is controlled, the new goroutine is controlled as well.
func Go(f func()) {
	parent := self()
	if parent == nil {
		go f()
		return
	}
	mu.Lock()
	t := &thread{id: len(threads) + 1, wake: make(chan struct{}, 1), kind: opStart, pending: true, name: fmt.Sprintf("spawned-by-%d", parent.id)}
	threads = append(threads, t)
	mu.Unlock()
	ready := make(chan struct{})
	go func() {
		g := gid()
		mu.Lock()
		t.gid = g
		byGID[g] = t
		mu.Unlock()
		close(ready)
		<-t.wake
		defer func() {
			mu.Lock()
			t.done, t.pending = true, false
			mu.Unlock()
			arrive <- msg{t: t, done: true}
		}()
		f()
	}()
	<-ready
	point(parent, opSpawn, nil, "go")
}

func enabled(t *thread) bool {
	switch t.kind {
	case opLock:
		return mutexOwn[t.obj] == 0
	case opRLock:
		s := rw[t.obj]
		return s == nil || (s.writer == 0 && s.waiting == 0)
	case opWLockAcquire:
		s := rw[t.obj]
		if s == nil {
			return true
		}
		n := 0
		for _, c := range s.readers {
			n += c
		}
		return s.writer == 0 && n == 0
	case opWait:
		return wgCount[t.obj] <= 0
	}
	return true
}

func rwOf(p unsafe.Pointer) *rwState {
	s := rw[p]
	if s == nil {
		s = &rwState{readers: map[int]int{}}
		rw[p] = s
	}
	return s
}

// apply performs the model transition of t's pending operation; it returns false if t stays parked (two-phase write lock).
func apply(t *thread) bool {
	switch t.kind {
	case opLock:
		mutexOwn[t.obj] = t.id
	case opRLock:
		rwOf(t.obj).readers[t.id]++
	case opWLockAnnounce:
		rwOf(t.obj).waiting++
		t.kind = opWLockAcquire
		return false
	case opWLockAcquire:
		s := rwOf(t.obj)
		s.waiting--
		s.writer = t.id
	}
	return true
}

// Quiet, when set, reports that no goroutine outside the scheduler can run (all are parked or finished). It makes the
// treatment of threads parked on channels a state observation instead of a timeout, and serialises uncontrolled
// goroutines with the controlled steps. Set per scenario by the harness.
var Quiet func() bool

// NewestFirst reverses the canonical order of the threads other than the running one: descending ids, so that the default
// schedule prefers the goroutines spawned last (the workers of the youngest request) over older request threads. With a
// deviation bound, the two default orders reach different neighbourhoods of the schedule space.
var NewestFirst bool

func waitStep() time.Duration {
	if Quiet != nil {
		return time.Millisecond
	}
	return 20 * time.Millisecond
}

// Run executes one schedule: bodies are the request threads; prefix is the list of choices to replay (then choice 0).
func Run(bodies []func(), prefix []int) *Execution {
	mu.Lock()
	threads = nil
	byGID = map[int64]*thread{}
	arrive = make(chan msg, 1024)
	mutexOwn = map[unsafe.Pointer]int{}
	rw = map[unsafe.Pointer]*rwState{}
	wgCount = map[unsafe.Pointer]int{}
	mu.Unlock()
	atomic.StoreInt32(&active, 1)
	defer atomic.StoreInt32(&active, 0)
	ex := &Execution{}
	for i, b := range bodies {
		t := &thread{id: i + 1, wake: make(chan struct{}, 1), kind: opStart, pending: true, name: fmt.Sprintf("request-%d", i+1)}
		mu.Lock()
		threads = append(threads, t)
		mu.Unlock()
		ready := make(chan struct{})
		body := b
		go func() {
			g := gid()
			mu.Lock()
			t.gid = g
			byGID[g] = t
			mu.Unlock()
			close(ready)
			<-t.wake
			defer func() {
				mu.Lock()
				t.done, t.pending = true, false
				mu.Unlock()
				arrive <- msg{t: t, done: true}
			}()
			body()
		}()
		<-ready
	}
	running := 0 // id of the thread that ran last
	var current *thread
	for step := 0; ; step++ {
		// wait for the current thread to park, finish, or be found blocked outside the model
		if current != nil {
			waited := 0
			for {
				settled := false
				select {
				case m := <-arrive:
					if m.t == current {
						settled = true
					} else {
						m.t.ext = false // a thread that was blocked outside the model came back
					}
				case <-time.After(waitStep()):
					waited++
					if Quiet != nil {
						// state-based: the thread is parked on something the model does not know (a channel) and no
						// uncontrolled goroutine can run any more, so only another controlled thread can release it
						if blockedOutside(goroutineState(current.gid)) && Quiet() && Quiet() {
							mu.Lock()
							current.ext = true
							mu.Unlock()
							ex.ExtBlocks++
							settled = true
						}
						if waited > 60000 {
							ex.Deadlock = fmt.Sprintf("thread %d (%s) neither reached a scheduling point nor finished within the watchdog: %s", current.id, current.name, goroutineState(current.gid))
							return ex
						}
						break
					}
					if st := goroutineState(current.gid); waited >= 2 && blockedOutside(st) {
						mu.Lock()
						current.ext = true
						mu.Unlock()
						ex.ExtBlocks++
						settled = true
					}
					if waited > 3000 { // one minute
						ex.Deadlock = fmt.Sprintf("thread %d (%s) neither reached a scheduling point nor finished within 60 s: %s", current.id, current.name, goroutineState(current.gid))
						return ex
					}
				}
				if settled {
					break
				}
			}
		}
		// with the quiet gate, uncontrolled goroutines (worker pools started before the run) finish what the last step
		// handed them before the next thread is chosen, so that their work never overlaps a controlled step
		if Quiet != nil {
			for i := 0; i < 20000 && !(Quiet() && Quiet()); i++ {
				time.Sleep(100 * time.Microsecond)
			}
		}
		// drain arrivals from threads that woke up on their own
		for drained := false; !drained; {
			select {
			case m := <-arrive:
				m.t.ext = false
			default:
				drained = true
			}
		}
		mu.Lock()
		var en []*thread
		unfinished := 0
		extOnly := true
		for _, t := range threads {
			if t.done {
				continue
			}
			unfinished++
			if t.ext && !t.pending {
				continue
			}
			extOnly = false
			if t.pending && enabled(t) {
				en = append(en, t)
			}
		}
		if unfinished == 0 {
			mu.Unlock()
			return ex
		}
		if len(en) == 0 {
			v0 := version
			mu.Unlock()
			// nothing the model can run: either uncontrolled goroutines still have to act, or this is a deadlock
			changed := false
			for i := 0; i < 250 && !changed; i++ {
				select {
				case m := <-arrive:
					m.t.ext = false
					changed = true
				case <-time.After(2 * time.Millisecond):
					mu.Lock()
					changed = version != v0
					mu.Unlock()
				}
			}
			if changed {
				current = nil
				continue
			}
			ex.Deadlock = describeStuck(extOnly)
			return ex
		}
		// canonical order: the thread that ran last first (if enabled), then ascending ids
		ordered := make([]*thread, 0, len(en))
		stillEnabled := false
		for _, t := range en {
			if t.id == running {
				ordered = append(ordered, t)
				stillEnabled = true
			}
		}
		if NewestFirst {
			for i := len(en) - 1; i >= 0; i-- {
				if en[i].id != running {
					ordered = append(ordered, en[i])
				}
			}
		} else {
			for _, t := range en {
				if t.id != running {
					ordered = append(ordered, t)
				}
			}
		}
		choice := 0
		if step < len(prefix) {
			choice = prefix[step]
			if choice >= len(ordered) {
				mu.Unlock()
				ex.Diverged = fmt.Sprintf("step %d: replay asks for choice %d but only %d threads are enabled", step, choice, len(ordered))
				releaseAll()
				return ex
			}
		}
		t := ordered[choice]
		ids := make([]int, len(ordered))
		for i, o := range ordered {
			ids[i] = o.id
		}
		ex.Points = append(ex.Points, PointRec{Enabled: ids, Choice: choice, RunningStillEnabled: stillEnabled && running != 0, Op: fmt.Sprintf("T%d:%s %s", t.id, t.kind, t.note)})
		if apply(t) {
			t.pending = false
			running = t.id
			current = t
			mu.Unlock()
			t.wake <- struct{}{}
		} else {
			// two-phase write lock: announced, stays parked
			running = t.id
			current = nil
			mu.Unlock()
		}
		if len(ex.Points) > 20000 {
			ex.Deadlock = "execution exceeded 20000 scheduling points (livelock?)"
			releaseAll()
			return ex
		}
	}
}

// releaseAll lets every parked thread run free (used when an execution is abandoned).
func releaseAll() {
	atomic.StoreInt32(&active, 0)
	mu.Lock()
	ts := append([]*thread{}, threads...)
	mu.Unlock()
	for _, t := range ts {
		select {
		case t.wake <- struct{}{}:
		default:
		}
	}
}

func describeStuck(extOnly bool) string {
	mu.Lock()
	defer mu.Unlock()
	var sb strings.Builder
	for _, t := range threads {
		if t.done {
			continue
		}
		switch {
		case t.pending:
			fmt.Fprintf(&sb, "T%d (%s) waits at %s %s (obj %p); ", t.id, t.name, t.kind, t.note, t.obj)
		case t.ext:
			fmt.Fprintf(&sb, "T%d (%s) is blocked outside the model: %s; ", t.id, t.name, firstLines(goroutineState(t.gid), 6))
		}
	}
	for p, s := range rw {
		if s.writer != 0 || s.waiting != 0 || len(s.readers) > 0 {
			rd := []string{}
			for id, c := range s.readers {
				if c > 0 {
					rd = append(rd, fmt.Sprintf("T%d x%d", id, c))
				}
			}
			fmt.Fprintf(&sb, "rwmutex %p: writer T%d, %d writer(s) waiting, readers %v; ", p, s.writer, s.waiting, rd)
		}
	}
	for p, o := range mutexOwn {
		if o != 0 {
			fmt.Fprintf(&sb, "mutex %p held by T%d; ", p, o)
		}
	}
	return sb.String()
}

func firstLines(s string, n int) string {
	l := strings.Split(s, "\n")
	if len(l) > n {
		l = l[:n]
	}
	return strings.Join(l, " | ")
}

var stackBuf = make([]byte, 1<<20)

// goroutineState returns the stack dump section of goroutine g.
func goroutineState(g int64) string {
	n := runtime.Stack(stackBuf, true)
	hdr := fmt.Sprintf("goroutine %d [", g)
	for _, sec := range strings.Split(string(stackBuf[:n]), "\n\n") {
		if strings.HasPrefix(sec, hdr) {
			return sec
		}
	}
	return ""
}

// blockedOutside: the goroutine is parked on a channel / select / semaphore / condition, i.e. waits for another goroutine.
func blockedOutside(sec string) bool {
	if sec == "" {
		return false
	}
	h := sec[:strings.IndexByte(sec+"\n", '\n')]
	for _, s := range []string{"[chan receive", "[chan send", "[select", "[semacquire", "[sync.Cond.Wait", "[sync.WaitGroup.Wait", "[sync.Mutex.Lock", "[sync.RWMutex"} {
		if strings.Contains(h, s) {
			return true
		}
	}
	return false
}

// ---------------------------------------------------------------- sync types

type Mutex struct{ m sync.Mutex }

func (m *Mutex) Lock() {
	if t := self(); t != nil {
		point(t, opLock, unsafe.Pointer(m), "mutex")
	}
	m.m.Lock()
}

func (m *Mutex) TryLock() bool { return m.m.TryLock() }

func (m *Mutex) Unlock() {
	if atomic.LoadInt32(&active) != 0 {
		mu.Lock()
		if mutexOwn[unsafe.Pointer(m)] != 0 {
			mutexOwn[unsafe.Pointer(m)] = 0
			version++
		}
		mu.Unlock()
	}
	m.m.Unlock()
}

type RWMutex struct{ m sync.RWMutex }

func (m *RWMutex) Lock() {
	if t := self(); t != nil {
		point(t, opWLockAnnounce, unsafe.Pointer(m), "rwmutex")
	}
	m.m.Lock()
}

func (m *RWMutex) Unlock() {
	if atomic.LoadInt32(&active) != 0 {
		mu.Lock()
		if s := rw[unsafe.Pointer(m)]; s != nil && s.writer != 0 {
			s.writer = 0
			version++
		}
		mu.Unlock()
	}
	m.m.Unlock()
}

func (m *RWMutex) RLock() {
	if t := self(); t != nil {
		point(t, opRLock, unsafe.Pointer(m), "rwmutex")
	}
	m.m.RLock()
}

func (m *RWMutex) RUnlock() {
	if t := self(); t != nil {
		mu.Lock()
		if s := rw[unsafe.Pointer(m)]; s != nil && s.readers[t.id] > 0 {
			s.readers[t.id]--
			version++
		}
		mu.Unlock()
	}
	m.m.RUnlock()
}

func (m *RWMutex) TryLock() bool  { return m.m.TryLock() }
func (m *RWMutex) TryRLock() bool { return m.m.TryRLock() }
func (m *RWMutex) RLocker() Locker { return (*rlocker)(m) }

type rlocker RWMutex

func (r *rlocker) Lock()   { (*RWMutex)(r).RLock() }
func (r *rlocker) Unlock() { (*RWMutex)(r).RUnlock() }

type WaitGroup struct{ w sync.WaitGroup }

func (w *WaitGroup) Add(n int) {
	if atomic.LoadInt32(&active) != 0 {
		mu.Lock()
		wgCount[unsafe.Pointer(w)] += n
		version++
		mu.Unlock()
	}
	w.w.Add(n)
}

func (w *WaitGroup) Done() { w.Add(-1) }

func (w *WaitGroup) Wait() {
	if t := self(); t != nil {
		point(t, opWait, unsafe.Pointer(w), "waitgroup")
	}
	w.w.Wait()
}
