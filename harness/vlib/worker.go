package vlib

import (
	"bufio"
	"bytes"
	"fmt"
	"io"
	"os"
	"os/exec"
	"strings"
	"sync/atomic"
	"time"
)

// Workers are sub-process entry points: vcheck worker <name> args...
var Workers = map[string]func(args []string) int{}

// WorkerExe names, per worker name, another binary of this harness to run that worker of (default: this executable).
var WorkerExe = map[string]string{}

// WorkerResult is what a child process left behind.
type WorkerResult struct {
	Lines    []string // stdout lines
	Stderr   string   // tail of stderr
	ExitCode int
	Err      error
	// ExternalKill: the process was ended by a SIGKILL that neither the harness nor the worker's own runtime sent
	ExternalKill bool
}

// RunWorker re-executes this binary as a worker and collects its stdout lines.
// stdin, if non-nil, is fed to the child. env entries are appended to the environment.
func RunWorker(name string, args []string, stdin io.Reader, env ...string) WorkerResult {
	var in []byte
	if stdin != nil {
		in, _ = io.ReadAll(stdin)
	}
	res, ext := runWorkerOnce(name, args, in, stdin != nil, env)
	if ext {
		// killed from outside (host out-of-memory killer). Not retried here - a worker may own a directory that a second run
		// would find half written - but marked, so that the caller's report becomes a cap (Ctx.Violate) and not a verdict.
		res.ExternalKill = true
		res.Stderr += "\n" + ExternalKillMarker
	}
	return res
}

func runWorkerOnce(name string, args []string, in []byte, hasIn bool, env []string) (WorkerResult, bool) {
	self, err := os.Executable()
	if err != nil {
		return WorkerResult{Err: err, ExitCode: -1}, false
	}
	if exe := WorkerExe[name]; exe != "" {
		self = exe
	}
	cmd := exec.Command(self, append([]string{"worker", name}, args...)...)
	cmd.Env = append(os.Environ(), env...)
	if hasIn {
		cmd.Stdin = bytes.NewReader(in)
	}
	var out bytes.Buffer
	var errb tailBuf
	cmd.Stdout = &out
	cmd.Stderr = &errb
	// watchdog (not an oracle): a worker that is still running after 15 minutes is killed; its callers see a worker
	// that died without its final line
	var watchdog int32
	err = cmd.Start()
	if err == nil {
		done := make(chan struct{})
		go func() {
			select {
			case <-done:
			case <-time.After(15 * time.Minute):
				atomic.StoreInt32(&watchdog, 1)
				cmd.Process.Kill()
			}
		}()
		err = cmd.Wait()
		close(done)
	}
	res := WorkerResult{Err: err}
	if cmd.ProcessState != nil {
		res.ExitCode = cmd.ProcessState.ExitCode()
	} else {
		res.ExitCode = -1
	}
	sc := bufio.NewScanner(&out)
	sc.Buffer(make([]byte, 1<<20), 1<<28)
	for sc.Scan() {
		res.Lines = append(res.Lines, sc.Text())
	}
	res.Stderr = errb.String()
	return res, ExternallyKilled(cmd.ProcessState, atomic.LoadInt32(&watchdog) == 1, res.Stderr)
}

// tailBuf keeps the first 4 KiB and last 16 KiB written to it.
type tailBuf struct {
	head []byte
	tail []byte
}

func (t *tailBuf) Write(p []byte) (int, error) {
	n := len(p)
	if len(t.head) < 4096 {
		k := 4096 - len(t.head)
		if k > len(p) {
			k = len(p)
		}
		t.head = append(t.head, p[:k]...)
		p = p[k:]
	}
	t.tail = append(t.tail, p...)
	if len(t.tail) > 16384 {
		t.tail = t.tail[len(t.tail)-16384:]
	}
	return n, nil
}

func (t *tailBuf) String() string {
	if len(t.tail) == 0 {
		return string(t.head)
	}
	return string(t.head) + "\n...\n" + string(t.tail)
}

// LastLineWith returns the last stdout line with the given prefix ("" if none).
func (r WorkerResult) LastLineWith(prefix string) string {
	for i := len(r.Lines) - 1; i >= 0; i-- {
		if strings.HasPrefix(r.Lines[i], prefix) {
			return r.Lines[i]
		}
	}
	return ""
}

func (r WorkerResult) String() string {
	return fmt.Sprintf("exit=%d err=%v stderr=%q", r.ExitCode, r.Err, r.Stderr)
}
