// Package vlib holds what every check shares: the run context (tier, evidence, violations,
// known findings, replay files) and small helpers for exhaustive enumeration in parallel.
package vlib

import (
	"bufio"
	"crypto/sha1"
	"encoding/hex"
	"encoding/json"
	"fmt"
	"os"
	"path/filepath"
	"sort"
	"strconv"
	"strings"
	"sync"
	"sync/atomic"
	"time"
)

// VerifDir is the root of the verification tree (evidence, replays, known findings).
var VerifDir = func() string {
	if d := os.Getenv("VERIF_DIR"); d != "" {
		return d
	}
	return "/verif"
}()

// Violation is one failing case.
type Violation struct {
	Key    string      `json:"key"`    // specific identity (input class / call site / history) used for known findings
	What   string      `json:"what"`   // human explanation
	Replay interface{} `json:"replay"` // the case, replayable
}

// Ctx is the per-run context handed to each check.
type Ctx struct {
	ID    string
	Tier  string // quick | thorough
	Seed  int64
	Level string
	Start time.Time

	mu          sync.Mutex
	cov         map[string]interface{}
	samples     []interface{}
	assumptions []string
	violations  []Violation
	seenKeys    map[string]bool
	known       map[string]string // key -> what
	knownHit    map[string]bool
	nontriv     map[string]struct{}
	outcomes    map[string]struct{}
	evals       int64
	nontrivN    int64
	Exhaustive  bool
	caps        []string
	Deadline    time.Time // soft budget; zero = none
	ReplayFile  string
	// ReplayKey: set by LoadReplayKey for checks without a dedicated replay path - the enumeration is re-run and only the
	// recorded violation class is reported
	ReplayKey   string
	replayOther int
}

// LoadReplayKey reads the "key" of a replay artefact written by Finish.
func (c *Ctx) LoadReplayKey() error {
	b, err := os.ReadFile(c.ReplayFile)
	if err != nil {
		return err
	}
	var rf struct{ Key string }
	if err := json.Unmarshal(b, &rf); err != nil || rf.Key == "" {
		return fmt.Errorf("%s holds no violation key (%v)", c.ReplayFile, err)
	}
	c.ReplayKey = rf.Key
	return nil
}

func NewCtx(id, tier, level string) *Ctx {
	seed, _ := strconv.ParseInt(os.Getenv("VERIF_SEED"), 10, 64)
	c := &Ctx{ID: id, Tier: tier, Seed: seed, Level: level, Start: time.Now(),
		cov: map[string]interface{}{}, seenKeys: map[string]bool{}, known: map[string]string{},
		knownHit: map[string]bool{}, nontriv: map[string]struct{}{}, outcomes: map[string]struct{}{}, Exhaustive: true}
	c.loadKnown()
	return c
}

func (c *Ctx) Thorough() bool { return c.Tier == "thorough" }

func (c *Ctx) loadKnown() {
	f, err := os.Open(filepath.Join(VerifDir, "known_findings.jsonl"))
	if err != nil {
		return
	}
	defer f.Close()
	sc := bufio.NewScanner(f)
	sc.Buffer(make([]byte, 1<<20), 1<<20)
	for sc.Scan() {
		line := strings.TrimSpace(sc.Text())
		if line == "" || strings.HasPrefix(line, "#") || strings.HasPrefix(line, "fixed:") {
			continue
		}
		var e struct {
			Property string `json:"property"`
			Key      string `json:"key"`
			What     string `json:"what"`
			Status   string `json:"status"`
		}
		if json.Unmarshal([]byte(line), &e) != nil {
			continue
		}
		if e.Property == c.ID && e.Status != "fixed" {
			c.known[e.Key] = e.What
		}
	}
}

// Eval counts evaluations.
func (c *Ctx) Eval(n int64) { atomic.AddInt64(&c.evals, n) }

// Nontrivial records a distinct non-trivial case signature.
func (c *Ctx) Nontrivial(sig string) {
	c.mu.Lock()
	c.nontriv[sig] = struct{}{}
	c.mu.Unlock()
}

// NontrivialDistinct adds n cases that are non-trivial and pairwise distinct by construction of the enumeration
// (used where storing one signature per case would need gigabytes).
func (c *Ctx) NontrivialDistinct(n int64) { atomic.AddInt64(&c.nontrivN, n) }

// Outcome records a distinct observed outcome signature.
func (c *Ctx) Outcome(sig string) {
	c.mu.Lock()
	c.outcomes[sig] = struct{}{}
	c.mu.Unlock()
}

// Sample records one written-out case (at most 8 kept).
func (c *Ctx) Sample(s interface{}) {
	c.mu.Lock()
	if len(c.samples) < 8 {
		c.samples = append(c.samples, s)
	}
	c.mu.Unlock()
}

func (c *Ctx) Set(k string, v interface{}) {
	c.mu.Lock()
	c.cov[k] = v
	c.mu.Unlock()
}

func (c *Ctx) Add(k string, n int64) {
	c.mu.Lock()
	if v, ok := c.cov[k].(int64); ok {
		c.cov[k] = v + n
	} else {
		c.cov[k] = n
	}
	c.mu.Unlock()
}

func (c *Ctx) Assume(s string) {
	c.mu.Lock()
	c.assumptions = append(c.assumptions, s)
	c.mu.Unlock()
}

// Cap notes that a cap was hit: the run is not exhaustive above it.
func (c *Ctx) Cap(s string) {
	c.mu.Lock()
	c.caps = append(c.caps, s)
	c.Exhaustive = false
	c.mu.Unlock()
}

// OverBudget reports whether the soft deadline has passed.
func (c *Ctx) OverBudget() bool { return !c.Deadline.IsZero() && time.Now().After(c.Deadline) }

// Violate records a violation. Violations with an identical key are recorded once.
func (c *Ctx) Violate(key, what string, replay interface{}) {
	c.mu.Lock()
	defer c.mu.Unlock()
	if strings.Contains(what, ExternalKillMarker) {
		// a worker the host killed (three times in a row): a cap of this run, never a verdict about the code under test
		c.caps = append(c.caps, "worker killed from outside the harness ("+key+"): that part of the enumeration was not completed")
		c.Exhaustive = false
		return
	}
	if c.seenKeys[key] {
		return
	}
	c.seenKeys[key] = true
	if c.ReplayKey != "" && key != c.ReplayKey {
		c.replayOther++ // replay of one recorded class by re-running the enumeration: other classes are not this run's business
		return
	}
	if _, ok := c.known[key]; ok {
		c.knownHit[key] = true
		return
	}
	c.violations = append(c.violations, Violation{Key: key, What: what, Replay: replay})
}

// NViolations returns the number of unknown violations recorded so far.
func (c *Ctx) NViolations() int {
	c.mu.Lock()
	defer c.mu.Unlock()
	return len(c.violations)
}

// Finish writes the evidence file, prints KNOWN-FINDING / VIOLATION lines and returns the exit code.
func (c *Ctx) Finish() int {
	c.mu.Lock()
	defer c.mu.Unlock()
	wall := time.Since(c.Start).Seconds()
	cov := c.cov
	cov["evaluations"] = c.evals
	cov["distinct_nontrivial"] = int64(len(c.nontriv)) + c.nontrivN
	cov["distinct_outcomes"] = len(c.outcomes)
	if len(c.samples) > 0 {
		cov["samples"] = c.samples
	}
	cov["exhaustive"] = c.Exhaustive
	if len(c.caps) > 0 {
		cov["caps_hit"] = c.caps
	}
	var kn []string
	for k := range c.knownHit {
		kn = append(kn, k)
	}
	sort.Strings(kn)
	if len(kn) > 0 {
		cov["known_findings_reproduced"] = kn
	}
	ev := map[string]interface{}{
		"property_id": c.ID, "tier": c.Tier, "seed": c.Seed, "level": c.Level,
		"coverage": cov, "assumptions": c.assumptions, "wall_s": wall, "violations": len(c.violations),
	}
	if c.assumptions == nil {
		ev["assumptions"] = []string{}
	}
	os.MkdirAll(filepath.Join(VerifDir, "evidence"), 0755)
	b, _ := json.MarshalIndent(ev, "", " ")
	evPath := filepath.Join(VerifDir, "evidence", c.ID+".json")
	if c.ReplayFile != "" {
		evPath = filepath.Join(VerifDir, "evidence", c.ID+".replay.json") // a replay never overwrites the check's evidence
		if c.ReplayKey != "" {
			fmt.Printf("REPLAY property=%s key=%q reproduced=%v (by re-running the %s enumeration; %d other classes ignored)\n", c.ID, c.ReplayKey, len(c.violations) > 0 || c.knownHit[c.ReplayKey], c.Tier, c.replayOther)
		}
	}
	if err := os.WriteFile(evPath, append(b, '\n'), 0644); err != nil {
		fmt.Fprintf(os.Stderr, "cannot write evidence: %v\n", err)
		return 2
	}
	for _, k := range kn {
		fmt.Printf("KNOWN-FINDING: property=%s %s -- %s\n", c.ID, k, c.known[k])
	}
	fmt.Printf("%s tier=%s evaluations=%d distinct_nontrivial=%d outcomes=%d exhaustive=%v wall=%.1fs\n",
		c.ID, c.Tier, c.evals, int64(len(c.nontriv))+c.nontrivN, len(c.outcomes), c.Exhaustive, wall)
	if len(c.violations) == 0 {
		return 0
	}
	dir := filepath.Join(VerifDir, "replays", c.ID)
	os.MkdirAll(dir, 0755)
	for i, v := range c.violations {
		if i == 40 {
			fmt.Printf("... %d more violations (all are counted in the evidence file; replay files are written for the first 40)\n", len(c.violations)-40)
			break
		}
		h := sha1.Sum([]byte(v.Key))
		p := filepath.Join(dir, hex.EncodeToString(h[:6])+".json")
		b, _ := json.MarshalIndent(v, "", " ")
		os.WriteFile(p, append(b, '\n'), 0644)
		fmt.Printf("VIOLATION property=%s replay=%s key=%q %s\n", c.ID, p, v.Key, oneLine(v.What))
	}
	return 1
}

func oneLine(s string) string {
	s = strings.ReplaceAll(s, "\n", " | ")
	if len(s) > 400 {
		s = s[:400] + "..."
	}
	return s
}

// Par runs f(i) for i in [0,n) on w goroutines (w<=0: NumCPU).
func Par(n, w int, f func(i int)) {
	if w <= 0 {
		w = 16
	}
	if w > n {
		w = n
	}
	if w <= 1 {
		for i := 0; i < n; i++ {
			f(i)
		}
		return
	}
	var next int64 = -1
	var wg sync.WaitGroup
	for k := 0; k < w; k++ {
		wg.Add(1)
		go func() {
			defer wg.Done()
			for {
				i := int(atomic.AddInt64(&next, 1))
				if i >= n {
					return
				}
				f(i)
			}
		}()
	}
	wg.Wait()
}

// Safely runs f and returns the recovered panic (nil if none).
func Safely(f func()) (p interface{}) {
	defer func() {
		if r := recover(); r != nil {
			p = r
		}
	}()
	f()
	return nil
}

// Check is a registered property check.
type Check struct {
	ID    string
	Level string
	Run   func(c *Ctx)
}

var Registry = map[string]*Check{}

func Register(id, level string, run func(c *Ctx)) { Registry[id] = &Check{id, level, run} }
