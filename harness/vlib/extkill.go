package vlib

import (
	"os"
	"strings"
	"syscall"
)

// ExternalKillMarker is appended to the stderr tail of a worker that was killed by a SIGKILL this harness did not send
// (in practice the host's out-of-memory killer) and was killed again on every retry. Ctx.Violate turns a report that
// carries it into a cap: the death says nothing about the code under test, and a check must never raise an alarm over it.
const ExternalKillMarker = "[vlib: worker killed by a SIGKILL that the harness did not send; retried and killed again - host memory pressure, not a verdict]"

// ExternallyKilled reports whether a worker process ended by SIGKILL although neither the harness watchdog (ours) nor the Go
// runtime of the worker (which announces a crash on stderr and exits with status 2) ended it.
func ExternallyKilled(ps *os.ProcessState, ours bool, stderr string) bool {
	if ps == nil || ours {
		return false
	}
	ws, ok := ps.Sys().(syscall.WaitStatus)
	if !ok || !ws.Signaled() || ws.Signal() != syscall.SIGKILL {
		return false
	}
	if strings.Contains(stderr, "fatal error:") || strings.Contains(stderr, "panic:") {
		return false
	}
	return true
}
