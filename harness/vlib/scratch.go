package vlib

import (
	"fmt"
	"os"
	"os/signal"
	"sync"
	"syscall"
)

var (
	scratchMu   sync.Mutex
	scratchDirs []string
)

// CleanupOnSignal makes the driver remove its scratch directories when it is asked to stop (SIGTERM, SIGINT, SIGHUP) instead of
// leaving gigabytes behind on tmpfs. Directories of workers that outlive it are swept by the next bin/vcheck.
func CleanupOnSignal() {
	ch := make(chan os.Signal, 1)
	signal.Notify(ch, syscall.SIGTERM, syscall.SIGINT, syscall.SIGHUP)
	go func() {
		<-ch
		scratchMu.Lock()
		for _, d := range scratchDirs {
			os.RemoveAll(d)
		}
		os.Exit(143)
	}()
}

// ScratchBase picks where scratch directories go: $VERIF_SCRATCH_BASE if set; tmpfs (/dev/shm) for the quick tier when it has
// at least 24 GiB free (tmpfs pages are RAM: sixteen thorough-tier workers with a few GiB of Badger files each once filled
// it and the host killed processes at random); otherwise the system temp directory on disk.
func ScratchBase() string {
	if b := os.Getenv("VERIF_SCRATCH_BASE"); b != "" {
		return b
	}
	if os.Getenv("VERIF_TIER_RUNNING") != "thorough" {
		var st syscall.Statfs_t
		if syscall.Statfs("/dev/shm", &st) == nil && int64(st.Bavail)*st.Bsize >= 24<<30 {
			return "/dev/shm"
		}
	}
	return os.TempDir()
}

// MkScratch makes a scratch directory named verif-<prefix>-p<pid>-<random>. The pid lets bin/vcheck remove directories
// whose owner is dead (a killed driver or worker cannot clean up after itself).
func MkScratch(prefix string) (string, error) {
	pat := fmt.Sprintf("verif-%s-p%d-", prefix, os.Getpid())
	d, err := os.MkdirTemp(ScratchBase(), pat)
	if err != nil {
		d, err = os.MkdirTemp("", pat)
	}
	if err == nil {
		scratchMu.Lock()
		scratchDirs = append(scratchDirs, d)
		scratchMu.Unlock()
	}
	return d, err
}
