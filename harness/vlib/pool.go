package vlib

import (
	"bufio"
	"fmt"
	"io"
	"os"
	"os/exec"
	"strings"
	"sync"
	"sync/atomic"
	"syscall"
	"time"
)

// PoolResult is the answer to one job.
type PoolResult struct {
	Job      string
	Out      string // one line
	Died     bool   // the worker process died while working on this job
	TimedOut bool   // ... because the watchdog killed it (JobTimeout exceeded)
	Stderr   string
}

// AnswerPrefix marks a worker's answer line; other stdout lines are ignored.
const AnswerPrefix = "@@ANSWER "

// JobTimeout is the per-job watchdog of Pool. A job that exceeds it gets its worker killed with SIGQUIT (so the
// goroutine dump lands in Stderr) and is reported with Died and TimedOut set.
var JobTimeout = 300 * time.Second

// PoolExe names, per worker name, another binary of this harness to run the workers of (default: this executable). Used
// by checks of the plain build whose workers need the scheduler-instrumented build.
var PoolExe = map[string]string{}

// Pool runs jobs on n long-lived worker processes (vcheck worker <name> args...). Protocol: one job per stdin line, exactly
// one answer line per job on stdout, marked with AnswerPrefix (other lines are ignored). A worker that dies is restarted for the
// remaining jobs; the job it died on is reported with Died=true.
func Pool(name string, args []string, n int, jobs []string, env ...string) []PoolResult {
	res := make([]PoolResult, len(jobs))
	var next int
	var mu sync.Mutex
	take := func() int {
		mu.Lock()
		defer mu.Unlock()
		if next >= len(jobs) {
			return -1
		}
		i := next
		next++
		return i
	}
	self, _ := os.Executable()
	if exe := PoolExe[name]; exe != "" {
		self = exe
	}
	var wg sync.WaitGroup
	if n > len(jobs) {
		n = len(jobs)
	}
	for w := 0; w < n; w++ {
		wg.Add(1)
		go func(w int) {
			defer wg.Done()
			pending, attempts := -1, 0
			for {
				i := pending
				pending = -1
				if i < 0 {
					i = take()
					attempts = 0
				}
				if i < 0 {
					return
				}
				// (re)start a worker and feed it jobs until it dies or jobs run out
				cmd := exec.Command(self, append([]string{"worker", name}, args...)...)
				cmd.Env = append(append(os.Environ(), fmt.Sprintf("VERIF_WORKER_ID=%d", w)), env...)
				stdin, _ := cmd.StdinPipe()
				stdout, _ := cmd.StdoutPipe()
				var errb tailBuf
				cmd.Stderr = &errb
				if err := cmd.Start(); err != nil {
					res[i] = PoolResult{Job: jobs[i], Died: true, Stderr: err.Error()}
					continue
				}
				rd := bufio.NewReaderSize(stdout, 1<<20)
				for i >= 0 {
					io.WriteString(stdin, jobs[i]+"\n")
					var line string
					var err error
					var timedOut int32
					wd := time.AfterFunc(JobTimeout, func() {
						atomic.StoreInt32(&timedOut, 1)
						cmd.Process.Signal(syscall.SIGQUIT)
						time.AfterFunc(5*time.Second, func() { cmd.Process.Kill() })
					})
					for {
						line, err = rd.ReadString('\n')
						if err != nil || strings.HasPrefix(line, AnswerPrefix) {
							line = strings.TrimPrefix(line, AnswerPrefix)
							break
						}
						// anything else on stdout (the code under test prints there occasionally) is ignored
					}
					wd.Stop()
					if err != nil {
						cmd.Wait()
						to := atomic.LoadInt32(&timedOut) == 1
						stderr := errb.String()
						if ExternallyKilled(cmd.ProcessState, to, stderr) {
							// not this job's doing (the host's out-of-memory killer, an operator): run the job again on a fresh worker
							if attempts < 2 {
								attempts++
								pending = i
								time.Sleep(3 * time.Second)
								break
							}
							stderr += "\n" + ExternalKillMarker
						}
						res[i] = PoolResult{Job: jobs[i], Died: true, TimedOut: to, Stderr: stderr}
						break
					}
					res[i] = PoolResult{Job: jobs[i], Out: strings.TrimRight(line, "\n")}
					i = take()
					attempts = 0
				}
				stdin.Close()
				if i < 0 && pending < 0 {
					cmd.Wait()
					return
				}
			}
		}(w)
	}
	wg.Wait()
	return res
}

// ServeJobs is the worker side of Pool: calls f for every stdin line and prints its single-line answer.
func ServeJobs(f func(job string) string) int {
	rd := bufio.NewReaderSize(os.Stdin, 1<<20)
	w := bufio.NewWriterSize(os.Stdout, 1<<20)
	for {
		line, err := rd.ReadString('\n')
		if line = strings.TrimRight(line, "\n"); line != "" {
			out := strings.ReplaceAll(f(line), "\n", " ")
			w.WriteString(AnswerPrefix + out + "\n")
			w.Flush()
		}
		if err != nil {
			return 0
		}
	}
}
