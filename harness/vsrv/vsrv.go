// Package vsrv boots the real DVID server stack in-process (same initialisation sequence as cmd/dvid serve:
// server.LoadConfig -> server.Initialize -> server.InitBackend -> storage.Initialize -> datastore.Initialize)
// on a Badger store + file log in a caller-chosen directory, and drives it through server.ServeSingleHTTP.
package vsrv

import (
	"bytes"
	"encoding/json"
	"fmt"
	"io"
	"log"
	"net/http"
	"net/http/httptest"
	"os"
	"path/filepath"
	"strings"
	"time"

	"github.com/janelia-flyem/dvid/datastore"
	"github.com/janelia-flyem/dvid/dvid"
	"github.com/janelia-flyem/dvid/server"
	"github.com/janelia-flyem/dvid/storage"

	// the data types cmd/dvid compiles in (googlevoxels needs network credentials and is left out)
	_ "github.com/janelia-flyem/dvid/datatype/annotation"
	_ "github.com/janelia-flyem/dvid/datatype/imageblk"
	_ "github.com/janelia-flyem/dvid/datatype/imagetile"
	_ "github.com/janelia-flyem/dvid/datatype/keyvalue"
	_ "github.com/janelia-flyem/dvid/datatype/labelarray"
	_ "github.com/janelia-flyem/dvid/datatype/labelblk"
	_ "github.com/janelia-flyem/dvid/datatype/labelmap"
	_ "github.com/janelia-flyem/dvid/datatype/labelsz"
	_ "github.com/janelia-flyem/dvid/datatype/labelvol"
	_ "github.com/janelia-flyem/dvid/datatype/multichan16"
	_ "github.com/janelia-flyem/dvid/datatype/neuronjson"
	_ "github.com/janelia-flyem/dvid/datatype/roi"
	_ "github.com/janelia-flyem/dvid/datatype/tarsupervoxels"
)

// Options configure one boot.
type Options struct {
	RWMode             string // "", "readonly", "fullwrite"
	AllowLabelmapSplit bool
	IIDStart           uint32
	ExtraStores        []string // additional badger store aliases (directories dir/<alias>)
	KVEngine           string   // engine name for the default store ("badger" unless a wrapper engine is registered)
	LogEngine          string   // engine name for the log store ("filelog")
}

// API is the web API prefix.
const API = "/api/"

func init() {
	if os.Getenv("VERIF_LOG") == "" {
		dvid.SetLogMode(dvid.SilentMode)
		log.SetOutput(io.Discard)
	}
}

// Boot starts the stack on dir (created if needed). If the directory already holds a store, the metadata is loaded
// exactly as a restarted server would.
func Boot(dir string, o Options) error {
	if err := os.MkdirAll(dir, 0755); err != nil {
		return err
	}
	kv := o.KVEngine
	if kv == "" {
		kv = "badger"
	}
	lg := o.LogEngine
	if lg == "" {
		lg = "filelog"
	}
	var b strings.Builder
	fmt.Fprintf(&b, "[server]\nhost = \"verif\"\nhttpAddress = \":0\"\nrpcAddress = \":0\"\nshutdownDelay = 0\n")
	if o.RWMode != "" {
		fmt.Fprintf(&b, "rwmode = %q\n", o.RWMode)
	}
	if o.AllowLabelmapSplit {
		fmt.Fprintf(&b, "allowLabelmapSplit = true\n")
	}
	if o.IIDStart > 0 {
		fmt.Fprintf(&b, "instance_id_start = %d\n", o.IIDStart)
	}
	fmt.Fprintf(&b, "[mutations]\njsonstore = %q\n", filepath.Join(dir, "mutlog-json"))
	fmt.Fprintf(&b, "[backend]\n  [backend.default]\n  store = \"main\"\n  log = \"mutlog\"\n")
	fmt.Fprintf(&b, "[store]\n  [store.main]\n  engine = %q\n  path = %q\n", kv, filepath.Join(dir, "db"))
	fmt.Fprintf(&b, "  [store.mutlog]\n  engine = %q\n  path = %q\n", lg, filepath.Join(dir, "log"))
	for _, a := range o.ExtraStores {
		fmt.Fprintf(&b, "  [store.%s]\n  engine = \"badger\"\n  path = %q\n", a, filepath.Join(dir, a))
	}
	cfg := filepath.Join(dir, "config.toml")
	if err := os.WriteFile(cfg, []byte(b.String()), 0644); err != nil {
		return err
	}
	if err := server.LoadConfig(cfg); err != nil {
		return err
	}
	if err := server.Initialize(); err != nil {
		return err
	}
	backend, err := server.InitBackend()
	if err != nil {
		return err
	}
	datatypes := make(map[dvid.TypeString]struct{})
	for _, t := range datastore.Compiled {
		datatypes[t.GetTypeName()] = struct{}{}
	}
	initMetadata, err := storage.Initialize(dvid.Config{}, backend, datatypes)
	if err != nil {
		return fmt.Errorf("storage.Initialize: %v", err)
	}
	if err := datastore.Initialize(initMetadata, server.DatastoreConfig()); err != nil {
		return fmt.Errorf("datastore.Initialize: %v", err)
	}
	return nil
}

// Shutdown closes the datastore and the stores (the clean-stop path of server.Shutdown without its process-level parts).
func Shutdown() {
	datastore.Shutdown()
	dvid.BlockOnActiveCgo()
	storage.Shutdown()
}

// Resp is a recorded response.
type Resp struct {
	Code int
	Body []byte
	Hdr  http.Header
}

func (r Resp) OK() bool { return r.Code >= 200 && r.Code < 300 }

func (r Resp) String() string {
	b := r.Body
	if len(b) > 200 {
		b = b[:200]
	}
	return fmt.Sprintf("%d %q", r.Code, b)
}

// Panicked reports whether the response is DVID's recovered-panic 500.
func (r Resp) Panicked() bool {
	return r.Code >= 500 && bytes.Contains(r.Body, []byte("anic"))
}

// SingleThreaded is set by worker processes that drive the server from one goroutine only; Settle then also waits for
// runtime-level quiescence (see Quiesce).
var SingleThreaded bool

// OnResponse, if set, is called for every request made through Do (used by the C20 monitor).
var OnResponse func(method, url string, body []byte, r Resp)

// Do performs one request against the real router. url is the path after /api/ or a full path starting with "/".
func Do(method, url string, body []byte) Resp {
	if !strings.HasPrefix(url, "/") {
		url = API + url
	}
	// A real HTTP server never hands a handler a nil Body (an empty one is http.NoBody), so neither does the harness.
	var rd io.Reader = http.NoBody
	if body != nil {
		rd = bytes.NewReader(body)
	}
	req, err := http.NewRequest(method, url, rd)
	if err != nil {
		return Resp{Code: -1, Body: []byte(err.Error())}
	}
	w := httptest.NewRecorder()
	server.ServeSingleHTTP(w, req)
	r := Resp{Code: w.Code, Body: w.Body.Bytes(), Hdr: w.Header()}
	if OnResponse != nil {
		OnResponse(method, url, body, r)
	}
	return r
}

func Get(url string) Resp               { return Do("GET", url, nil) }
func Post(url string, body []byte) Resp { return Do("POST", url, body) }
func PostS(url, body string) Resp       { return Do("POST", url, []byte(body)) }
func Delete(url string) Resp            { return Do("DELETE", url, nil) }

// NewRepo creates a repo over HTTP and returns its root uuid.
func NewRepo() (string, error) {
	r := PostS("repos", `{"alias":"verif","description":"verif repo"}`)
	if !r.OK() {
		return "", fmt.Errorf("POST repos: %s", r)
	}
	var m struct{ Root string }
	if err := json.Unmarshal(r.Body, &m); err != nil {
		return "", err
	}
	return m.Root, nil
}

// NewInstance creates a data instance.
func NewInstance(uuid, typename, name string, extra map[string]string) error {
	m := map[string]string{"typename": typename, "dataname": name}
	for k, v := range extra {
		m[k] = v
	}
	b, _ := json.Marshal(m)
	r := Post("repo/"+uuid+"/instance", b)
	if !r.OK() {
		return fmt.Errorf("POST instance %s/%s: %s", typename, name, r)
	}
	return nil
}

// Commit commits a node.
func Commit(uuid string) error {
	r := PostS("node/"+uuid+"/commit", `{"note":"c"}`)
	if !r.OK() {
		return fmt.Errorf("commit %s: %s", uuid, r)
	}
	return nil
}

// NewVersion creates a child of a committed node and returns its uuid.
func NewVersion(parent string) (string, error) {
	r := PostS("node/"+parent+"/newversion", `{"note":"v"}`)
	if !r.OK() {
		return "", fmt.Errorf("newversion %s: %s", parent, r)
	}
	var m struct{ Child string }
	json.Unmarshal(r.Body, &m)
	return m.Child, nil
}

// Branch creates a child of a committed node on a new branch.
func Branch(parent, name string) (string, error) {
	r := PostS("node/"+parent+"/branch", fmt.Sprintf(`{"branch":%q,"note":"b"}`, name))
	if !r.OK() {
		return "", fmt.Errorf("branch %s: %s", parent, r)
	}
	var m struct{ Child string }
	json.Unmarshal(r.Body, &m)
	return m.Child, nil
}

// Merge merges committed parents and returns the child uuid.
func Merge(parents ...string) (string, error) {
	b, _ := json.Marshal(map[string]interface{}{"mergeType": "conflict-free", "parents": parents, "note": "m"})
	r := Post("repo/"+parents[0]+"/merge", b)
	if !r.OK() {
		return "", fmt.Errorf("merge %v: %s", parents, r)
	}
	var m struct{ Child string }
	json.Unmarshal(r.Body, &m)
	return m.Child, nil
}

// Settle waits until the named instances report no pending sync and no update, using DVID's own idle predicates.
// It polls without a fixed initial sleep and requires the predicate to hold on several consecutive polls.
func Settle(uuid string, names ...string) {
	if SingleThreaded {
		Quiesce()
	}
	stable := 0
	deadline := time.Now().Add(60 * time.Second)
	for stable < 4 && time.Now().Before(deadline) {
		busy := false
		for _, n := range names {
			d, err := datastore.GetDataByUUIDName(dvid.UUID(uuid), dvid.InstanceName(n))
			if err != nil {
				continue
			}
			if s, ok := d.(datastore.Syncer); ok && s.SyncPending() {
				busy = true
			}
			if u, ok := d.(interface{ Updating() bool }); ok && u.Updating() {
				busy = true
			}
		}
		if busy {
			stable = 0
		} else {
			stable++
		}
		time.Sleep(500 * time.Microsecond)
	}
}
