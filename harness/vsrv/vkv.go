package vsrv

// vkv / vlog: storage engines that wrap the real Badger store and the real file log. They are ordinary storage.Engines
// registered by the harness (no change to /repo): every read and write executes the real engine code; the wrappers only
// count the atomic write units (Put, Delete, RawPut, RawDelete, PutRange, DeleteRange, DeleteAll, batch Commit, log
// Append) and can terminate the process immediately before or after the N-th one.

import (
	"fmt"
	"os"
	"strconv"
	"sync/atomic"

	"github.com/blang/semver"

	"github.com/janelia-flyem/dvid/dvid"
	"github.com/janelia-flyem/dvid/storage"
	"github.com/janelia-flyem/dvid/storage/badger"
)

var (
	// WriteCount is the number of write units issued so far in this process.
	WriteCount int64
	// crashAt: terminate at this write unit (1-based); 0 = never.
	crashAt   int64
	crashWhen = "before"
	// WriteTrace, if set, is called for every write unit (kind, detail).
	WriteTrace func(n int64, kind string)
)

func init() {
	if s := os.Getenv("VERIF_CRASH_AT"); s != "" {
		crashAt, _ = strconv.ParseInt(s, 10, 64)
	}
	if s := os.Getenv("VERIF_CRASH_WHEN"); s != "" {
		crashWhen = s
	}
	ver, _ := semver.Make("0.1.0")
	storage.RegisterEngine(vkvEngine{ver})
	storage.RegisterEngine(vlogEngine{ver})
}

// SetCrashPoint arms the fault: the process exits with status 137 at the n-th write unit from now on counted from process start.
func SetCrashPoint(n int64, when string) { crashAt, crashWhen = n, when }

// SchedPoint, if set, is called before every store operation (the controlled scheduler's yield).
var SchedPoint func(kind string)

// write brackets one atomic write unit.
func write(kind string, f func() error) error {
	if SchedPoint != nil {
		SchedPoint(kind)
	}
	n := atomic.AddInt64(&WriteCount, 1)
	if WriteTrace != nil {
		WriteTrace(n, kind)
	}
	if n == crashAt && crashWhen == "before" {
		os.Stdout.Sync()
		os.Exit(137)
	}
	err := f()
	if n == crashAt && crashWhen == "after" {
		os.Stdout.Sync()
		os.Exit(137)
	}
	return err
}

// ---- key-value engine ----

type vkvEngine struct{ ver semver.Version }

func (e vkvEngine) GetName() string            { return "vkv" }
func (e vkvEngine) GetDescription() string     { return "verification wrapper around badger" }
func (e vkvEngine) IsDistributed() bool        { return false }
func (e vkvEngine) GetSemVer() semver.Version  { return e.ver }
func (e vkvEngine) String() string             { return "vkv" }
func (e vkvEngine) NewStore(c dvid.StoreConfig) (dvid.Store, bool, error) {
	real := storage.GetEngine("badger")
	if real == nil {
		return nil, false, fmt.Errorf("badger engine not compiled in")
	}
	inner := c
	inner.Engine = "badger"
	st, created, err := real.NewStore(inner)
	if err != nil {
		return nil, false, err
	}
	db, ok := st.(*badger.BadgerDB)
	if !ok {
		return nil, false, fmt.Errorf("badger engine returned %T", st)
	}
	return &VKV{BadgerDB: db, cfg: c}, created, nil
}

// VKV embeds the real store: every method not overridden below is the real one.
type VKV struct {
	*badger.BadgerDB
	cfg dvid.StoreConfig
}

func (db *VKV) String() string                      { return "vkv over " + db.BadgerDB.String() }
func (db *VKV) GetStoreConfig() dvid.StoreConfig    { return db.cfg }
func (db *VKV) Equal(c dvid.StoreConfig) bool {
	inner := c
	inner.Engine = "badger"
	return db.BadgerDB.Equal(inner)
}

func (db *VKV) Get(ctx storage.Context, tk storage.TKey) ([]byte, error) {
	if SchedPoint != nil {
		SchedPoint("Get")
	}
	return db.BadgerDB.Get(ctx, tk)
}
func (db *VKV) GetRange(ctx storage.Context, a, b storage.TKey) ([]*storage.TKeyValue, error) {
	if SchedPoint != nil {
		SchedPoint("GetRange")
	}
	return db.BadgerDB.GetRange(ctx, a, b)
}
func (db *VKV) KeysInRange(ctx storage.Context, a, b storage.TKey) ([]storage.TKey, error) {
	if SchedPoint != nil {
		SchedPoint("KeysInRange")
	}
	return db.BadgerDB.KeysInRange(ctx, a, b)
}
func (db *VKV) ProcessRange(ctx storage.Context, a, b storage.TKey, op *storage.ChunkOp, f storage.ChunkFunc) error {
	if SchedPoint != nil {
		SchedPoint("ProcessRange")
	}
	return db.BadgerDB.ProcessRange(ctx, a, b, op, f)
}
func (db *VKV) Put(ctx storage.Context, tk storage.TKey, v []byte) error {
	return write("Put", func() error { return db.BadgerDB.Put(ctx, tk, v) })
}
func (db *VKV) Delete(ctx storage.Context, tk storage.TKey) error {
	return write("Delete", func() error { return db.BadgerDB.Delete(ctx, tk) })
}
func (db *VKV) RawPut(k storage.Key, v []byte) error {
	return write("RawPut", func() error { return db.BadgerDB.RawPut(k, v) })
}
func (db *VKV) RawDelete(k storage.Key) error {
	return write("RawDelete", func() error { return db.BadgerDB.RawDelete(k) })
}
func (db *VKV) PutRange(ctx storage.Context, kvs []storage.TKeyValue) error {
	return write("PutRange", func() error { return db.BadgerDB.PutRange(ctx, kvs) })
}
func (db *VKV) DeleteRange(ctx storage.Context, a, b storage.TKey) error {
	return write("DeleteRange", func() error { return db.BadgerDB.DeleteRange(ctx, a, b) })
}
func (db *VKV) DeleteAll(ctx storage.Context) error {
	return write("DeleteAll", func() error { return db.BadgerDB.DeleteAll(ctx) })
}
func (db *VKV) PutBlob(v []byte) (ref string, err error) {
	err = write("PutBlob", func() error { var e error; ref, e = db.BadgerDB.PutBlob(v); return e })
	return
}

type vbatch struct{ storage.Batch }

func (b vbatch) Commit() error { return write("BatchCommit", b.Batch.Commit) }

func (db *VKV) NewBatch(ctx storage.Context) storage.Batch {
	inner := db.BadgerDB.NewBatch(ctx)
	if inner == nil {
		return nil
	}
	return vbatch{inner}
}

// ---- log engine ----

type vlogEngine struct{ ver semver.Version }

func (e vlogEngine) GetName() string           { return "vlog" }
func (e vlogEngine) GetDescription() string    { return "verification wrapper around filelog" }
func (e vlogEngine) IsDistributed() bool       { return false }
func (e vlogEngine) GetSemVer() semver.Version { return e.ver }
func (e vlogEngine) String() string            { return "vlog" }
func (e vlogEngine) NewStore(c dvid.StoreConfig) (dvid.Store, bool, error) {
	real := storage.GetEngine("filelog")
	if real == nil {
		return nil, false, fmt.Errorf("filelog engine not compiled in")
	}
	inner := c
	inner.Engine = "filelog"
	st, created, err := real.NewStore(inner)
	if err != nil {
		return nil, false, err
	}
	w, ok1 := st.(storage.WriteLog)
	r, ok2 := st.(storage.ReadLog)
	if !ok1 || !ok2 {
		return nil, false, fmt.Errorf("filelog store %T is not a read/write log", st)
	}
	return &VLog{Store: st, w: w, r: r, cfg: c}, created, nil
}

// VLog delegates to the real file log.
type VLog struct {
	dvid.Store
	w   storage.WriteLog
	r   storage.ReadLog
	cfg dvid.StoreConfig
}

func (l *VLog) String() string                   { return "vlog over " + l.Store.String() }
func (l *VLog) GetStoreConfig() dvid.StoreConfig { return l.cfg }
func (l *VLog) Equal(c dvid.StoreConfig) bool {
	inner := c
	inner.Engine = "filelog"
	return l.Store.Equal(inner)
}
func (l *VLog) Append(dataID, version dvid.UUID, msg storage.LogMessage) error {
	return write("LogAppend", func() error { return l.w.Append(dataID, version, msg) })
}
func (l *VLog) TopicAppend(topic string, msg storage.LogMessage) error {
	return write("TopicAppend", func() error { return l.w.TopicAppend(topic, msg) })
}
func (l *VLog) CloseLog(dataID, version dvid.UUID) error { return l.w.CloseLog(dataID, version) }
func (l *VLog) TopicClose(topic string) error            { return l.w.TopicClose(topic) }
func (l *VLog) ReadBinary(dataID, version dvid.UUID) ([]byte, error) {
	return l.r.ReadBinary(dataID, version)
}
func (l *VLog) ReadAll(dataID, version dvid.UUID) ([]storage.LogMessage, error) {
	return l.r.ReadAll(dataID, version)
}
func (l *VLog) StreamAll(dataID, version dvid.UUID, ch chan storage.LogMessage) error {
	return l.r.StreamAll(dataID, version, ch)
}
