package vsrv

import (
	"bytes"
	"runtime"
	"strings"
	"sync"
	"time"
)

// Quiesce waits until the process is idle at the Go-runtime level: every goroutine other than the caller is parked in a
// receive / select / condition wait / network wait (or sleeping outside DVID's data-type and datastore code). DVID
// acknowledges several requests before their background work (index aggregation, max-label updates, sync handlers,
// down-sampling, asynchronous deletions) has finished and exposes no complete idle predicate, so the harness looks at
// the goroutines themselves. Only meaningful in a single-threaded harness process. Returns false on timeout.
func Quiesce() bool {
	quiesceOnce.Do(func() {
		// dumping all stacks stops the world; with one driving goroutine a small GOMAXPROCS keeps that cheap
		if SingleThreaded && runtime.GOMAXPROCS(0) > 4 {
			runtime.GOMAXPROCS(4)
		}
	})
	deadline := time.Now().Add(120 * time.Second)
	stable := 0
	for time.Now().Before(deadline) {
		if n, _ := BusyGoroutines(); n == 0 {
			stable++
			if stable >= 3 {
				return true
			}
		} else {
			stable = 0
		}
		runtime.Gosched()
		time.Sleep(150 * time.Microsecond)
	}
	QuiesceTimeouts++
	if QuiesceTimeouts == 1 {
		_, first := BusyGoroutines()
		println("vsrv.Quiesce: the process did not become idle within the watchdog; first busy goroutine:\n" + first)
	}
	return false
}

// QuiesceTimeouts counts Quiesce calls that gave up (watchdog, not an oracle).
var QuiesceTimeouts int

// AbandonedRangeProducers is the number of leaked badger range-producer goroutines seen by the last classification.
var AbandonedRangeProducers int

var quiesceBuf = make([]byte, 1<<20)
var quiesceOnce sync.Once

// BusyGoroutines returns the number of goroutines (other than the caller) that are running, runnable, or blocked on
// something only another busy goroutine can release, plus a description of the first one.
func BusyGoroutines() (int, string) {
	for {
		n := runtime.Stack(quiesceBuf, true)
		if n < len(quiesceBuf) {
			quiesceBuf = quiesceBuf[:cap(quiesceBuf)]
			return classify(quiesceBuf[:n])
		}
		quiesceBuf = make([]byte, 2*len(quiesceBuf))
	}
}

func classify(dump []byte) (int, string) {
	busy := 0
	first := ""
	abandoned := 0
	defer func() { AbandonedRangeProducers = abandoned }()
	for i, g := range bytes.Split(dump, []byte("\n\n")) {
		if i == 0 || len(g) == 0 {
			continue // the caller itself
		}
		hdrEnd := bytes.IndexByte(g, '\n')
		if hdrEnd < 0 {
			hdrEnd = len(g)
		}
		hdr := string(g[:hdrEnd])
		lb, rb := strings.IndexByte(hdr, '['), strings.LastIndexByte(hdr, ']')
		if lb < 0 || rb < lb {
			continue
		}
		state := hdr[lb+1 : rb]
		if c := strings.IndexByte(state, ','); c >= 0 {
			state = state[:c]
		}
		body := string(g[hdrEnd:])
		idle := false
		switch {
		case strings.HasPrefix(state, "chan receive"), strings.HasPrefix(state, "select"), state == "IO wait", state == "sync.Cond.Wait",
			state == "finalizer wait", strings.HasPrefix(state, "GC "), strings.HasPrefix(state, "force gc"), state == "debug call":
			idle = true
		case strings.HasPrefix(state, "chan send"):
			// badger.ProcessRange hands key-values from a producer goroutine to its consumer over an unbuffered channel; when the
			// consumer stops early (labelsz top/N, a handler error) the producer stays blocked on its next send for ever
			// (a goroutine leak in /repo, see DESIGN.md 9.4). Its consumer can only be gone or itself counted busy.
			idle = strings.Contains(body, "storage/badger.(*BadgerDB).ProcessRange") &&
				(strings.Contains(body, "badger.(*BadgerDB).versionedRange") || strings.Contains(body, "badger.(*BadgerDB).unversionedRange") || strings.Contains(body, "badger.sendKV"))
			if idle {
				abandoned++
			}
		case state == "sleep":
			// periodic housekeeping (badger, server load monitor) sleeps forever; a sleep inside DVID's data code is a pending poll
			idle = !strings.Contains(body, "dvid/datatype/") && !strings.Contains(body, "dvid/datastore.")
		case state == "syscall":
			idle = strings.Contains(body, "os/signal") || strings.Contains(body, "runtime.notetsleepg")
		case state == "semacquire":
			// a harness goroutine waiting for its own workers is not server work
			idle = strings.Contains(body, "verif/vlib.") && !strings.Contains(body, "janelia-flyem/dvid/")
		}
		if !idle {
			busy++
			if first == "" {
				first = hdr + trimTo(body, 600)
			}
		}
	}
	return busy, first
}

func trimTo(s string, n int) string {
	if len(s) > n {
		return s[:n]
	}
	return s
}

// RunnableGoroutines returns the number of goroutines (other than the caller) that can make progress on their own:
// running, runnable, in a system call, or sleeping inside DVID code. Goroutines parked on a channel, select, lock,
// wait group or condition are not counted: only another goroutine can release them.
func RunnableGoroutines() int {
	var dump []byte
	for {
		n := runtime.Stack(quiesceBuf, true)
		if n < len(quiesceBuf) {
			dump = quiesceBuf[:n]
			break
		}
		quiesceBuf = make([]byte, 2*len(quiesceBuf))
	}
	busy := 0
	for i, g := range bytes.Split(dump, []byte("\n\n")) {
		if i == 0 || len(g) == 0 {
			continue
		}
		hdrEnd := bytes.IndexByte(g, '\n')
		if hdrEnd < 0 {
			hdrEnd = len(g)
		}
		hdr := string(g[:hdrEnd])
		lb, rb := strings.IndexByte(hdr, '['), strings.LastIndexByte(hdr, ']')
		if lb < 0 || rb < lb {
			continue
		}
		state := hdr[lb+1 : rb]
		if c := strings.IndexByte(state, ','); c >= 0 {
			state = state[:c]
		}
		body := string(g[hdrEnd:])
		switch {
		case state == "running", state == "runnable":
			busy++
		case state == "syscall":
			if !(strings.Contains(body, "os/signal") || strings.Contains(body, "runtime.notetsleepg")) {
				busy++
			}
		case state == "sleep":
			if strings.Contains(body, "dvid/datatype/") || strings.Contains(body, "dvid/datastore.") {
				busy++
			}
		}
	}
	return busy
}
