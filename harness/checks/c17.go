package checks

// C17 Image volumes return exactly the voxels that were written.
//
// Bounded-exhaustive enumeration on the real imageblk code, driven through the in-process HTTP API:
//   seq   every sequence of <= 2 block-aligned writes (POST raw, POST raw?mutate=true, POST blocks, POST blocks?mutate=true;
//         second write in the same version or in a child version) over a complete product of block boxes, followed by a
//         fixed cover of reads (block streams, whole-region 3-D reads, extents);
//   geom  on a small menu of written worlds the COMPLETE product of read geometries: every 3-D box, every 2-D slice
//         (3 planes x every slice position x every in-plane rectangle), every block span of the three block-stream endpoints;
//   roi   a write restricted by roi=<name> for every subset of the 8 blocks of a 2x2x2 block region (256 ROIs).
// The reference model is a dense array "voxel -> set of acceptable write numbers"; the voxel value is an injective code of
// (x, y, z, write#) (16 bits; 8-bit voxels get it modulo a prime), so any misplaced voxel or byte is visible.
//
// Oracle (weakest reading of the statement): every answer of a lossless read endpoint equals the model (the last accepted
// write wins along the ancestry, never-written voxels read as Background); after every accepted write each advertised form
// of the extents (info Extents/Extended, metadata Properties/Axes, block index range) covers the bounding box of the written
// voxels (a superset is fine); after an accepted ROI-restricted write the blocks outside the ROI hold what they held before
// and the blocks inside hold the new voxels. A refused write is not a violation: its voxels become "old or new".
//
// Violation keys are structural: <endpoint family>:<symptom>, for block-level reads extended by w=<family of the write that
// produced the voxel> and the voxel width class (b1 = one byte, bN = wider); extents:<symptom>:w=<family>;
// roi-write:<outside-block-changed|inside-block-not-written>; crash:<request family> when a request kills the server process
// (workers are separate processes; a dead job is re-run once in trace mode to name the fatal request).
// A world stops at its first content violation (later reads would repeat it, and a raw read over a block of the wrong length
// would kill the process); extents violations do not stop the world.
// See DESIGN.md section 6, C17.

import (
	"bytes"
	"encoding/binary"
	"encoding/json"
	"fmt"
	"image"
	"image/png"
	"os"
	"sort"
	"strconv"
	"strings"
	"time"

	"verif/vlib"
	"verif/vsrv"
)

func init() {
	vlib.Register("C17", "exploration", runC17)
	vlib.Workers["c17"] = c17Worker
}

// c17R: the modelled region is the cube of blocks -c17R..c17R per axis; every request of the check stays inside it.
const c17R = 2

type c17TypeT struct {
	Name string
	Bpv  int
	Img  string // Go image kind DVID uses for 2-D slices of this type
}

// simplest first
var c17Types = []c17TypeT{
	{"uint8blk", 1, "gray8"}, {"uint16blk", 2, "gray16"}, {"uint32blk", 4, "nrgba"},
	{"uint64blk", 8, "nrgba64"}, {"float32blk", 4, "nrgba"}, {"rgba8blk", 4, "nrgba"},
}

func c17TypeOf(name string) c17TypeT {
	for _, t := range c17Types {
		if t.Name == name {
			return t
		}
	}
	return c17TypeT{}
}

// c17Write is one block-aligned write request.
type c17Write struct {
	Kind  string `json:"k"`           // raw | rawmut | blocks | blocksmut
	Org   [3]int `json:"o"`           // block coordinate of the first block
	Ext   [3]int `json:"e"`           // extent in blocks (blocks kinds: span along X, 1 in Y and Z)
	Child bool   `json:"c,omitempty"` // issued in a child version (root is committed first)
	Sib   bool   `json:"s,omitempty"` // issued in a second child of the root, on a branch of its own (a sibling of the child version)
	ROI   bool   `json:"r,omitempty"` // restricted with ?roi=r (raw kinds only)
	Erase bool   `json:"z,omitempty"` // the payload is all background (what "unwritten" reads as): erases earlier content
}

func (w c17Write) String() string {
	s := fmt.Sprintf("%s@%v+%v", w.Kind, w.Org, w.Ext)
	if w.Child {
		s += "/child"
	}
	if w.Sib {
		s += "/sibling"
	}
	if w.ROI {
		s += "/roi"
	}
	if w.Erase {
		s += "/erase"
	}
	return s
}

func (w c17Write) family() string {
	f := "raw"
	if strings.HasPrefix(w.Kind, "blocks") {
		f = "blocks"
	}
	if w.ROI {
		f += "+roi"
	}
	return f
}

// c17World is one world: an instance and its write sequence.
type c17World struct {
	Type   string     `json:"t"`
	BS     [3]int     `json:"bs"`
	Bg     int        `json:"bg,omitempty"`
	Writes []c17Write `json:"w"`
	HasROI bool       `json:"hasroi,omitempty"`
	ROI    [][3]int   `json:"roi,omitempty"` // blocks of ROI instance "r"
}

// ---------------------------------------------------------------------------------------------------------------------
// reference model

type c17Model struct {
	bs  [3]int
	bpv int
	bg  byte
	lo  [3]int  // voxel coordinate of the region origin
	dim [3]int  // region size in voxels
	acc []uint8 // per voxel: bit n set = "holds the value of write n" is acceptable; bit 0 = unwritten
	exp []byte  // expected bytes of the lowest acceptable write per voxel (dense, X fastest)
	amb bool    // some voxel has more than one acceptable write
	nwr int     // number of certainly written voxels
}

func c17NewModel(bs [3]int, bpv int, bg byte) *c17Model {
	m := &c17Model{bs: bs, bpv: bpv, bg: bg}
	n := 1
	for a := 0; a < 3; a++ {
		m.lo[a] = -c17R * bs[a]
		m.dim[a] = (2*c17R + 1) * bs[a]
		n *= m.dim[a]
	}
	m.acc = make([]uint8, n)
	for i := range m.acc {
		m.acc[i] = 1
	}
	m.exp = make([]byte, n*bpv)
	m.rebuild()
	return m
}

func (m *c17Model) clone() *c17Model {
	c := *m
	c.acc = append([]uint8(nil), m.acc...)
	c.exp = append([]byte(nil), m.exp...)
	return &c
}

func (m *c17Model) inside(x, y, z int) bool {
	return x >= m.lo[0] && x < m.lo[0]+m.dim[0] && y >= m.lo[1] && y < m.lo[1]+m.dim[1] && z >= m.lo[2] && z < m.lo[2]+m.dim[2]
}

func (m *c17Model) idx(x, y, z int) int {
	return ((z-m.lo[2])*m.dim[1]+(y-m.lo[1]))*m.dim[0] + (x - m.lo[0])
}

// c17Voxel writes the bytes a voxel at (x,y,z) holds after write wn (wn=0: unwritten = background).
func (m *c17Model) voxel(dst []byte, x, y, z int, wn int) {
	if wn == 0 {
		for i := range dst {
			dst[i] = 0
		}
		if m.bpv == 1 {
			dst[0] = m.bg
		}
		return
	}
	cx, cy, cz := x-m.lo[0], y-m.lo[1], z-m.lo[2] // 0..19 each (blocks -2..2, block edge <= 4)
	if m.bpv == 1 {
		dst[0] = byte(1 + (cx+16*cy+53*cz+101*wn)%251)
		return
	}
	code := 1 + cx + 20*cy + 400*cz + 8000*wn // injective, < 65536 for wn <= 7
	dst[0], dst[1] = byte(code), byte(code>>8)
	for i := 2; i < m.bpv; i++ {
		dst[i] = dst[i%2] ^ byte(0x35*i+0x11)
	}
}

func (m *c17Model) rebuild() {
	m.amb = false
	m.nwr = 0
	for z := m.lo[2]; z < m.lo[2]+m.dim[2]; z++ {
		for y := m.lo[1]; y < m.lo[1]+m.dim[1]; y++ {
			for x := m.lo[0]; x < m.lo[0]+m.dim[0]; x++ {
				i := m.idx(x, y, z)
				a := m.acc[i]
				if a&(a-1) != 0 {
					m.amb = true
				}
				if a&1 == 0 {
					m.nwr++
				}
				wn := 0
				for a&1 == 0 {
					a >>= 1
					wn++
				}
				m.voxel(m.exp[i*m.bpv:(i+1)*m.bpv], x, y, z, wn)
			}
		}
	}
}

// apply records write wn over the blocks of the box; uncertain = the request was refused, so each voxel may hold the old
// or the new value.
func (m *c17Model) apply(org, ext [3]int, wn int, in func(b [3]int) bool, uncertain bool) {
	for bz := org[2]; bz < org[2]+ext[2]; bz++ {
		for by := org[1]; by < org[1]+ext[1]; by++ {
			for bx := org[0]; bx < org[0]+ext[0]; bx++ {
				if in != nil && !in([3]int{bx, by, bz}) {
					continue
				}
				for z := bz * m.bs[2]; z < (bz+1)*m.bs[2]; z++ {
					for y := by * m.bs[1]; y < (by+1)*m.bs[1]; y++ {
						for x := bx * m.bs[0]; x < (bx+1)*m.bs[0]; x++ {
							i := m.idx(x, y, z)
							if uncertain {
								m.acc[i] |= 1 << uint(wn)
							} else {
								m.acc[i] = 1 << uint(wn)
							}
						}
					}
				}
			}
		}
	}
	m.rebuild()
}

// bbox returns the bounding box of the certainly written voxels.
func (m *c17Model) bbox() (min, max [3]int, any bool) {
	for z := m.lo[2]; z < m.lo[2]+m.dim[2]; z++ {
		for y := m.lo[1]; y < m.lo[1]+m.dim[1]; y++ {
			for x := m.lo[0]; x < m.lo[0]+m.dim[0]; x++ {
				if m.acc[m.idx(x, y, z)]&1 != 0 {
					continue
				}
				p := [3]int{x, y, z}
				if !any {
					min, max, any = p, p, true
					continue
				}
				for a := 0; a < 3; a++ {
					if p[a] < min[a] {
						min[a] = p[a]
					}
					if p[a] > max[a] {
						max[a] = p[a]
					}
				}
			}
		}
	}
	return
}

// c17Diff describes the first voxel of a box read that is not acceptable.
type c17Diff struct {
	Wn      int // write number the model expects at the voxel (0 = unwritten)
	At      [3]int
	Want    string
	Got     string
	Symptom string // written-reads-background | unwritten-not-background[:nonzero-background] | wrong-value
}

// compare checks the bytes of a box read (X fastest, then Y, then Z) against the model. nil = acceptable.
func (m *c17Model) compare(got []byte, off, size [3]int) *c17Diff {
	bpv := m.bpv
	row := size[0] * bpv
	fast := !m.amb && off[0] >= m.lo[0] && off[0]+size[0] <= m.lo[0]+m.dim[0]
	tmp := make([]byte, bpv)
	p := 0
	for z := off[2]; z < off[2]+size[2]; z++ {
		for y := off[1]; y < off[1]+size[1]; y++ {
			if fast && m.inside(off[0], y, z) {
				i := m.idx(off[0], y, z) * bpv
				if bytes.Equal(got[p:p+row], m.exp[i:i+row]) {
					p += row
					continue
				}
			}
			for x := off[0]; x < off[0]+size[0]; x++ {
				g := got[p : p+bpv]
				p += bpv
				a := uint8(1)
				if m.inside(x, y, z) {
					a = m.acc[m.idx(x, y, z)]
				}
				ok := false
				first := -1
				for wn := 0; wn < 8; wn++ {
					if a&(1<<uint(wn)) == 0 {
						continue
					}
					if first < 0 {
						first = wn
					}
					m.voxel(tmp, x, y, z, wn)
					if bytes.Equal(tmp, g) {
						ok = true
						break
					}
				}
				if ok {
					continue
				}
				m.voxel(tmp, x, y, z, first)
				d := &c17Diff{Wn: first, At: [3]int{x, y, z}, Want: fmt.Sprintf("%x (write %d)", tmp, first), Got: fmt.Sprintf("%x", g)}
				m.voxel(tmp, x, y, z, 0)
				switch {
				case first != 0 && bytes.Equal(tmp, g):
					d.Symptom = "written-reads-background"
				case first == 0:
					d.Symptom = "unwritten-not-background"
					if m.bg != 0 {
						d.Symptom += ":nonzero-background"
					}
				default:
					d.Symptom = "wrong-value"
					if src := m.whose(g); src != "" {
						d.Got += " = value of " + src
					}
				}
				return d
			}
		}
	}
	return nil
}

// whose finds a written voxel whose expected value equals g (diagnostics only).
func (m *c17Model) whose(g []byte) string {
	if m.bpv == 1 {
		return ""
	}
	for i := 0; i < len(m.acc); i++ {
		if m.acc[i]&1 == 0 && bytes.Equal(m.exp[i*m.bpv:(i+1)*m.bpv], g) {
			x := i % m.dim[0]
			y := (i / m.dim[0]) % m.dim[1]
			z := i / (m.dim[0] * m.dim[1])
			return fmt.Sprintf("voxel (%d,%d,%d)", x+m.lo[0], y+m.lo[1], z+m.lo[2])
		}
	}
	return ""
}

// expected returns the expected bytes of a box (lowest acceptable write per voxel).
func (m *c17Model) expected(off, size [3]int) []byte {
	out := make([]byte, 0, size[0]*size[1]*size[2]*m.bpv)
	tmp := make([]byte, m.bpv)
	for z := off[2]; z < off[2]+size[2]; z++ {
		for y := off[1]; y < off[1]+size[1]; y++ {
			for x := off[0]; x < off[0]+size[0]; x++ {
				if m.inside(x, y, z) {
					i := m.idx(x, y, z) * m.bpv
					out = append(out, m.exp[i:i+m.bpv]...)
				} else {
					m.voxel(tmp, x, y, z, 0)
					out = append(out, tmp...)
				}
			}
		}
	}
	return out
}

// blockState: 0 = no voxel of the block certainly written, 1 = all voxels certainly written, 2 = mixed/uncertain.
func (m *c17Model) blockState(b [3]int) int {
	w, u := 0, 0
	for z := b[2] * m.bs[2]; z < (b[2]+1)*m.bs[2]; z++ {
		for y := b[1] * m.bs[1]; y < (b[1]+1)*m.bs[1]; y++ {
			for x := b[0] * m.bs[0]; x < (b[0]+1)*m.bs[0]; x++ {
				a := uint8(1)
				if m.inside(x, y, z) {
					a = m.acc[m.idx(x, y, z)]
				}
				if a&1 == 0 {
					w++
				} else if a == 1 {
					u++
				} else {
					return 2
				}
			}
		}
	}
	if w == 0 {
		return 0
	}
	if u == 0 {
		return 1
	}
	return 2
}

// boxClass summarises a read box for the non-triviality rule and the outcome signature.
func (m *c17Model) boxClass(off, size [3]int) (nblocks int, content string) {
	nblocks = 1
	for a := 0; a < 3; a++ {
		nblocks *= c17FloorDiv(off[a]+size[a]-1, m.bs[a]) - c17FloorDiv(off[a], m.bs[a]) + 1
	}
	w, u := 0, 0
	for z := off[2]; z < off[2]+size[2]; z++ {
		for y := off[1]; y < off[1]+size[1]; y++ {
			for x := off[0]; x < off[0]+size[0]; x++ {
				if m.inside(x, y, z) && m.acc[m.idx(x, y, z)]&1 == 0 {
					w++
				} else {
					u++
				}
			}
		}
	}
	switch {
	case w == 0:
		content = "unwritten"
	case u == 0:
		content = "written"
	default:
		content = "mixed"
	}
	return
}

func c17FloorDiv(a, b int) int {
	q := a / b
	if a%b != 0 && (a < 0) != (b < 0) {
		q--
	}
	return q
}

// ---------------------------------------------------------------------------------------------------------------------
// worker side: a live world

type c17Viol struct {
	Key   string   `json:"key"`
	What  string   `json:"what"`
	World c17World `json:"world"`
	Req   string   `json:"req,omitempty"`
	Ver   int      `json:"ver"` // 0: the request addressed the root version, 1: the child version
}

type c17Res struct {
	Evals    int64          `json:"evals"`
	Nontriv  int64          `json:"nontriv"`
	Worlds   int64          `json:"worlds"`
	Reqs     int64          `json:"reqs"`
	Refused  int64          `json:"refused"`
	Outcomes map[string]int `json:"outcomes"`
	Viol     []c17Viol      `json:"viol,omitempty"`
	Sample   string         `json:"sample,omitempty"`
	Err      string         `json:"err,omitempty"`
}

type c17Live struct {
	spec   c17World
	typ    c17TypeT
	root   string
	child  string
	sib    string
	models [3]*c17Model // 0 root, 1 child, 2 sibling of the child
	last   string       // family of the last write
	res    *c17Res
	trace  string // file that receives the world and the request about to be executed (crash attribution)
	failed bool   // a violation was reported for this world: later (probably consequential) checks are skipped
	lastRq string
	extBad bool      // an extents violation was reported for this world
	prevEx [3]string // advertised extents last seen per version
}

// blockWriter names the family of the write whose voxels the model expects in block b.
func (l *c17Live) blockWriter(ver int, b [3]int) string {
	m := l.models[ver]
	x, y, z := b[0]*m.bs[0], b[1]*m.bs[1], b[2]*m.bs[2]
	if !m.inside(x, y, z) {
		return l.last
	}
	a, wn := m.acc[m.idx(x, y, z)], 0
	for a&1 == 0 && a != 0 {
		a >>= 1
		wn++
	}
	return l.writer(&c17Diff{Wn: wn})
}

// writer names the family of the write that produced the voxel a diff is about (the last write for an unwritten voxel).
func (l *c17Live) writer(d *c17Diff) string {
	if d.Wn >= 1 && d.Wn <= len(l.spec.Writes) {
		return l.spec.Writes[d.Wn-1].family()
	}
	return l.last
}

func (l *c17Live) width() string {
	if l.typ.Bpv == 1 {
		return "b1"
	}
	return "bN"
}

func (l *c17Live) violate(key, what string) { l.report(key, what, true) }

// report records a violation; stop = later checks of this world would only repeat it (or are unsafe), skip them.
func (l *c17Live) report(key, what string, stop bool) {
	if stop {
		l.failed = true
	}
	if len(l.res.Viol) < 12 {
		ver := 0
		if l.child != "" && strings.Contains(l.lastRq, l.child) {
			ver = 1
		}
		if l.sib != "" && strings.Contains(l.lastRq, l.sib) {
			ver = 2
		}
		l.res.Viol = append(l.res.Viol, c17Viol{Key: key, What: what, World: l.spec, Req: l.lastRq, Ver: ver})
	}
}

func (l *c17Live) do(method, url string, body []byte) vsrv.Resp {
	l.lastRq = method + " " + url
	if l.trace != "" {
		wj, _ := json.Marshal(l.spec)
		os.WriteFile(l.trace, []byte(fmt.Sprintf("%s %s\n%s\n", method, url, wj)), 0644)
	}
	l.res.Reqs++
	return vsrv.Do(method, url, body)
}

func (l *c17Live) uuid(ver int) string {
	if ver == 1 {
		return l.child
	}
	if ver == 2 {
		return l.sib
	}
	return l.root
}

func c17P3(p [3]int) string { return fmt.Sprintf("%d_%d_%d", p[0], p[1], p[2]) }

func c17Build(spec c17World, res *c17Res, trace string) (*c17Live, error) {
	l := &c17Live{spec: spec, typ: c17TypeOf(spec.Type), res: res, trace: trace}
	if l.typ.Name == "" {
		return nil, fmt.Errorf("unknown type %q", spec.Type)
	}
	root, err := vsrv.NewRepo()
	if err != nil {
		return nil, err
	}
	l.root = root
	bsStr := fmt.Sprintf("%d,%d,%d", spec.BS[0], spec.BS[1], spec.BS[2])
	cfg := map[string]string{"BlockSize": bsStr}
	if spec.Bg != 0 {
		cfg["Background"] = strconv.Itoa(spec.Bg)
	}
	if err := vsrv.NewInstance(root, spec.Type, "img", cfg); err != nil {
		return nil, err
	}
	if spec.HasROI {
		if err := vsrv.NewInstance(root, "roi", "r", map[string]string{"BlockSize": bsStr}); err != nil {
			return nil, err
		}
		if r := l.do("POST", "node/"+root+"/r/roi", c17ROISpans(spec.ROI)); !r.OK() {
			return nil, fmt.Errorf("POST roi: %s", r)
		}
	}
	l.models[0] = c17NewModel(spec.BS, l.typ.Bpv, byte(spec.Bg))
	if f, _, _, bad := l.advertised(0); bad == "" {
		l.prevEx[0] = fmt.Sprint(f)
	}
	res.Worlds++
	for i, w := range spec.Writes {
		if err := l.write(i+1, w); err != nil {
			return nil, err
		}
		if l.failed {
			break
		}
	}
	return l, nil
}

// c17ROISpans renders a set of blocks as DVID ROI spans [z, y, x0, x1], sorted.
func c17ROISpans(blocks [][3]int) []byte {
	bl := append([][3]int(nil), blocks...)
	sort.Slice(bl, func(i, j int) bool {
		a, b := bl[i], bl[j]
		if a[2] != b[2] {
			return a[2] < b[2]
		}
		if a[1] != b[1] {
			return a[1] < b[1]
		}
		return a[0] < b[0]
	})
	spans := [][4]int{}
	for _, b := range bl {
		if n := len(spans); n > 0 && spans[n-1][0] == b[2] && spans[n-1][1] == b[1] && spans[n-1][3]+1 == b[0] {
			spans[n-1][3] = b[0]
			continue
		}
		spans = append(spans, [4]int{b[2], b[1], b[0], b[0]})
	}
	out, _ := json.Marshal(spans)
	return out
}

func (l *c17Live) write(wn int, w c17Write) error {
	ver := 0
	if w.Sib {
		ver = 2
		if l.sib == "" {
			if l.child == "" {
				if err := vsrv.Commit(l.root); err != nil {
					return err
				}
			}
			sb, err := vsrv.Branch(l.root, "sib")
			if err != nil {
				return err
			}
			l.sib = sb
			l.models[2] = l.models[0].clone()
			l.prevEx[2] = l.prevEx[0]
		}
	} else if w.Child {
		ver = 1
		if l.sib != "" {
			return fmt.Errorf("child write after a sibling write")
		}
		if l.child == "" {
			if err := vsrv.Commit(l.root); err != nil {
				return err
			}
			ch, err := vsrv.NewVersion(l.root)
			if err != nil {
				return err
			}
			l.child = ch
			l.models[1] = l.models[0].clone()
			l.prevEx[1] = l.prevEx[0]
		}
	} else if l.child != "" || l.sib != "" {
		return fmt.Errorf("root write after a child write")
	}
	m := l.models[ver]
	bs := l.spec.BS
	var url string
	var body []byte
	tmp := make([]byte, m.bpv)
	if w.Erase {
		wn = 0 // the value of "unwritten": background bytes in the payload, background expected afterwards
	}
	switch w.Kind {
	case "raw", "rawmut":
		off := [3]int{w.Org[0] * bs[0], w.Org[1] * bs[1], w.Org[2] * bs[2]}
		size := [3]int{w.Ext[0] * bs[0], w.Ext[1] * bs[1], w.Ext[2] * bs[2]}
		for z := off[2]; z < off[2]+size[2]; z++ {
			for y := off[1]; y < off[1]+size[1]; y++ {
				for x := off[0]; x < off[0]+size[0]; x++ {
					m.voxel(tmp, x, y, z, wn)
					body = append(body, tmp...)
				}
			}
		}
		url = fmt.Sprintf("node/%s/img/raw/0_1_2/%s/%s", l.uuid(ver), c17P3(size), c17P3(off))
		q := []string{}
		if w.Kind == "rawmut" {
			q = append(q, "mutate=true")
		}
		if w.ROI {
			q = append(q, "roi=r")
		}
		if len(q) > 0 {
			url += "?" + strings.Join(q, "&")
		}
	case "blocks", "blocksmut":
		if w.Ext[1] != 1 || w.Ext[2] != 1 || w.ROI {
			return fmt.Errorf("bad blocks write %v", w)
		}
		for bx := w.Org[0]; bx < w.Org[0]+w.Ext[0]; bx++ {
			for z := w.Org[2] * bs[2]; z < (w.Org[2]+1)*bs[2]; z++ {
				for y := w.Org[1] * bs[1]; y < (w.Org[1]+1)*bs[1]; y++ {
					for x := bx * bs[0]; x < (bx+1)*bs[0]; x++ {
						m.voxel(tmp, x, y, z, wn)
						body = append(body, tmp...)
					}
				}
			}
		}
		url = fmt.Sprintf("node/%s/img/blocks/%s/%d", l.uuid(ver), c17P3(w.Org), w.Ext[0])
		if w.Kind == "blocksmut" {
			url += "?mutate=true"
		}
	default:
		return fmt.Errorf("bad write kind %q", w.Kind)
	}
	r := l.do("POST", url, body)
	l.res.Evals++
	l.last = w.family()
	var in func(b [3]int) bool
	if w.ROI {
		set := map[[3]int]bool{}
		for _, b := range l.spec.ROI {
			set[b] = true
		}
		in = func(b [3]int) bool { return set[b] }
	}
	l.res.Outcomes[fmt.Sprintf("post:%s:%d", w.Kind, r.Code)]++
	if r.Panicked() {
		l.violate("post:"+w.family()+":panic", fmt.Sprintf("%s answered a recovered panic: %s", l.lastRq, r))
		return nil
	}
	m.apply(w.Org, w.Ext, wn, in, !r.OK())
	if !r.OK() {
		// A refused write is not a violation of this property (nothing was "written"); its voxels become "old or new".
		l.res.Refused++
		return nil
	}
	l.checkExtents(ver, w)
	return nil
}

type c17Info struct {
	Extended struct {
		MinPoint, MaxPoint []int
		MinIndex, MaxIndex []int
	}
	Extents struct{ MinPoint, MaxPoint []int }
}

type c17Meta struct {
	Axes []struct {
		Label        string
		Size, Offset int
	}
	Properties struct{ MinPoint, MaxPoint []int }
}

type c17Form struct {
	name     string
	min, max []int
}

// advertised fetches every form in which the instance advertises its extents at a version.
func (l *c17Live) advertised(ver int) (forms []c17Form, minIdx, maxIdx []int, bad string) {
	ri := l.do("GET", "node/"+l.uuid(ver)+"/img/info", nil)
	var info c17Info
	if !ri.OK() || json.Unmarshal(ri.Body, &info) != nil {
		return nil, nil, nil, fmt.Sprintf("GET info -> %s", ri)
	}
	rm := l.do("GET", "node/"+l.uuid(ver)+"/img/metadata", nil)
	var meta c17Meta
	if !rm.OK() || json.Unmarshal(rm.Body, &meta) != nil || len(meta.Axes) != 3 {
		return nil, nil, nil, fmt.Sprintf("GET metadata -> %s", rm)
	}
	forms = []c17Form{
		{"info.Extents", info.Extents.MinPoint, info.Extents.MaxPoint},
		{"info.Extended", info.Extended.MinPoint, info.Extended.MaxPoint},
		{"metadata.Properties", meta.Properties.MinPoint, meta.Properties.MaxPoint},
	}
	if len(info.Extents.MinPoint) == 3 { // with no extents the Axes entries are all zero, which is not a claim about voxels
		axMin := []int{meta.Axes[0].Offset, meta.Axes[1].Offset, meta.Axes[2].Offset}
		axMax := []int{meta.Axes[0].Offset + meta.Axes[0].Size - 1, meta.Axes[1].Offset + meta.Axes[1].Size - 1, meta.Axes[2].Offset + meta.Axes[2].Size - 1}
		forms = append(forms, c17Form{"metadata.Axes", axMin, axMax})
	}
	return forms, info.Extended.MinIndex, info.Extended.MaxIndex, ""
}

// checkExtents: every advertised form of the extents must cover the bounding box of the voxels written so far.
func (l *c17Live) checkExtents(ver int, w c17Write) {
	m := l.models[ver]
	min, max, any := m.bbox()
	if !any || l.extBad {
		return
	}
	fam := "raw"
	if strings.HasPrefix(w.Kind, "blocks") {
		fam = "blocks"
	}
	l.res.Evals++
	forms, minIdx, maxIdx, errs := l.advertised(ver)
	if errs != "" {
		l.extBad = true
		l.report("extents:unreadable:w="+fam, fmt.Sprintf("after %v: %s", w, errs), false)
		return
	}
	sig := "extents:ok"
	now := fmt.Sprint(forms)
	unchanged := now == l.prevEx[ver]
	l.prevEx[ver] = now
	bad := func(symptom, what string) {
		// "not-updated": the accepted write had to extend the advertised extents and they are exactly what they were before
		if unchanged {
			symptom = "not-updated"
		}
		l.extBad = true
		l.report("extents:"+symptom+":w="+fam, what, false)
	}
	for _, f := range forms {
		if len(f.min) != 3 || len(f.max) != 3 {
			bad("absent", fmt.Sprintf("after %v (accepted, voxels %v..%v written so far) %s advertises no extents (MinPoint=%v MaxPoint=%v) [writes %v]", w, min, max, f.name, f.min, f.max, l.spec.Writes))
			return
		}
		for a := 0; a < 3; a++ {
			if f.min[a] > min[a] {
				bad("min-not-covered", fmt.Sprintf("after %v (accepted) written voxel %v lies below the advertised %s.MinPoint %v (MaxPoint %v); written bounding box %v..%v [writes %v]", w, min, f.name, f.min, f.max, min, max, l.spec.Writes))
				return
			}
			if f.max[a] < max[a] {
				bad("max-not-covered", fmt.Sprintf("after %v (accepted) written voxel %v lies above the advertised %s.MaxPoint %v (MinPoint %v); written bounding box %v..%v [writes %v]", w, max, f.name, f.max, f.min, min, max, l.spec.Writes))
				return
			}
			if f.min[a] < min[a] || f.max[a] > max[a] {
				sig = "extents:superset"
			}
		}
	}
	// block-index form, when present
	if len(minIdx) == 3 && len(maxIdx) == 3 {
		for a := 0; a < 3; a++ {
			if minIdx[a] > c17FloorDiv(min[a], m.bs[a]) || maxIdx[a] < c17FloorDiv(max[a], m.bs[a]) {
				bad("index-not-covered", fmt.Sprintf("after %v (accepted) the advertised block index range %v..%v does not cover written voxels %v..%v", w, minIdx, maxIdx, min, max))
				return
			}
		}
	}
	l.res.Outcomes[sig]++
}

// ---- reads ----

func (l *c17Live) note(fam string, ver int, off, size [3]int) {
	m := l.models[ver]
	nb, content := m.boxClass(off, size)
	l.res.Evals++
	if nb >= 2 && content != "unwritten" {
		l.res.Nontriv++
	}
	nbc := "1"
	if nb >= 2 {
		nbc = "2+"
	}
	if nb >= 8 {
		nbc = "8+"
	}
	l.res.Outcomes[fmt.Sprintf("%s:blocks=%s:%s", fam, nbc, content)]++
}

func (l *c17Live) sample(s string) {
	if l.res.Sample == "" {
		l.res.Sample = s
	}
}

// read3d: GET raw/0_1_2/<size>/<offset>.
func (l *c17Live) read3d(ver int, off, size [3]int, roi bool) bool {
	m := l.models[ver]
	url := fmt.Sprintf("node/%s/img/raw/0_1_2/%s/%s", l.uuid(ver), c17P3(size), c17P3(off))
	fam := "raw3d"
	if roi {
		url += "?roi=r"
		fam = "raw3d+roi"
	}
	r := l.do("GET", url, nil)
	l.note(fam, ver, off, size)
	if !r.OK() {
		l.violate(fam+":status", fmt.Sprintf("%s -> %s (%d-byte voxels)", l.lastRq, r, m.bpv))
		return false
	}
	if len(r.Body) != size[0]*size[1]*size[2]*m.bpv {
		l.violate(fam+":length", fmt.Sprintf("%s returned %d bytes, expected %d", l.lastRq, len(r.Body), size[0]*size[1]*size[2]*m.bpv))
		return false
	}
	if roi {
		return l.compareROIRead(fam, r.Body, ver, off, size)
	}
	if d := m.compare(r.Body, off, size); d != nil {
		l.violate(fam+":"+d.Symptom, fmt.Sprintf("%s: voxel %v reads %s, expected %s [block size %v, writes %v]", l.lastRq, d.At, d.Got, d.Want, m.bs, l.spec.Writes))
		return false
	}
	return true
}

// compareROIRead: a read masked with roi=r must return the written value for every voxel in a block inside the ROI
// (what is returned outside the ROI is not part of the property).
func (l *c17Live) compareROIRead(fam string, got []byte, ver int, off, size [3]int) bool {
	m := l.models[ver]
	set := map[[3]int]bool{}
	for _, b := range l.spec.ROI {
		set[b] = true
	}
	exp := m.expected(off, size)
	p := 0
	for z := off[2]; z < off[2]+size[2]; z++ {
		for y := off[1]; y < off[1]+size[1]; y++ {
			for x := off[0]; x < off[0]+size[0]; x++ {
				b := [3]int{c17FloorDiv(x, m.bs[0]), c17FloorDiv(y, m.bs[1]), c17FloorDiv(z, m.bs[2])}
				if set[b] && m.acc[m.idx(x, y, z)]&(m.acc[m.idx(x, y, z)]-1) == 0 && !bytes.Equal(got[p:p+m.bpv], exp[p:p+m.bpv]) {
					l.violate(fam+":inside-roi-mismatch", fmt.Sprintf("%s: voxel (%d,%d,%d) in ROI block %v reads %x, expected %x", l.lastRq, x, y, z, b, got[p:p+m.bpv], exp[p:p+m.bpv]))
					return false
				}
				p += m.bpv
			}
		}
	}
	return true
}

var c17PlaneName = [3]string{"1_2", "0_2", "0_1"} // by normal axis: x -> YZ, y -> XZ, z -> XY

// read2d: GET raw/<plane>/<w_h>/<offset> (PNG). normal = axis perpendicular to the slice.
func (l *c17Live) read2d(ver int, normal int, off, size [3]int) bool {
	m := l.models[ver]
	var wh []int
	for a := 0; a < 3; a++ {
		if a != normal {
			wh = append(wh, size[a])
		}
	}
	fam := "raw2d:" + c17PlaneName[normal]
	url := fmt.Sprintf("node/%s/img/raw/%s/%d_%d/%s", l.uuid(ver), c17PlaneName[normal], wh[0], wh[1], c17P3(off))
	r := l.do("GET", url, nil)
	l.note("raw2d:"+c17PlaneName[normal], ver, off, size)
	if !r.OK() {
		l.violate(fam+":status", fmt.Sprintf("%s -> %s", l.lastRq, r))
		return false
	}
	img, err := png.Decode(bytes.NewReader(r.Body))
	if err != nil {
		l.violate(fam+":undecodable:"+l.typ.Img, fmt.Sprintf("%s: PNG does not decode: %v", l.lastRq, err))
		return false
	}
	pix, kind, err := c17Pixels(img, m.bpv, wh[0], wh[1])
	if err != nil {
		l.violate(fam+":image-format:"+l.typ.Img, fmt.Sprintf("%s: %v (decoded %s)", l.lastRq, err, kind))
		return false
	}
	if d := m.compare(pix, off, size); d != nil {
		l.violate(fam+":"+d.Symptom, fmt.Sprintf("%s: pixel for voxel %v reads %s, expected %s [block size %v, image %s, writes %v]", l.lastRq, d.At, d.Got, d.Want, m.bs, kind, l.spec.Writes))
		return false
	}
	return true
}

// c17Pixels returns the voxel bytes (little endian per value, as in the 3-D API) carried by a decoded PNG.
func c17Pixels(img image.Image, bpv, w, h int) ([]byte, string, error) {
	b := img.Bounds()
	kind := fmt.Sprintf("%T", img)
	if b.Dx() != w || b.Dy() != h {
		return nil, kind, fmt.Errorf("image is %dx%d, requested %dx%d", b.Dx(), b.Dy(), w, h)
	}
	var pix []byte
	var stride, bpp int
	swap := false
	switch t := img.(type) {
	case *image.Gray:
		pix, stride, bpp = t.Pix, t.Stride, 1
	case *image.Gray16:
		pix, stride, bpp, swap = t.Pix, t.Stride, 2, true // PNG carries the 16-bit value big endian
	case *image.NRGBA:
		pix, stride, bpp = t.Pix, t.Stride, 4
	case *image.RGBA: // decoder's type for fully opaque 8-bit colour: premultiplied == straight
		pix, stride, bpp = t.Pix, t.Stride, 4
	case *image.NRGBA64:
		pix, stride, bpp = t.Pix, t.Stride, 8
	case *image.RGBA64: // fully opaque 16-bit colour
		pix, stride, bpp = t.Pix, t.Stride, 8
	default:
		return nil, kind, fmt.Errorf("unexpected image type")
	}
	if bpp != bpv {
		return nil, kind, fmt.Errorf("image has %d bytes/pixel, voxels have %d", bpp, bpv)
	}
	out := make([]byte, 0, w*h*bpv)
	for y := 0; y < h; y++ {
		out = append(out, pix[y*stride:y*stride+w*bpp]...)
	}
	if swap {
		for i := 0; i+1 < len(out); i += 2 {
			out[i], out[i+1] = out[i+1], out[i]
		}
	}
	return out, kind, nil
}

// readBlocks: GET blocks/<coord>/<span>: span uncompressed blocks along X, unwritten blocks filled with background
// (for voxels wider than one byte only Background=0 is used, see the assumptions).
func (l *c17Live) readBlocks(ver int, b [3]int, span int) bool {
	m := l.models[ver]
	fam := "getblocks"
	r := l.do("GET", fmt.Sprintf("node/%s/img/blocks/%s/%d", l.uuid(ver), c17P3(b), span), nil)
	off := [3]int{b[0] * m.bs[0], b[1] * m.bs[1], b[2] * m.bs[2]}
	l.note(fam, ver, off, [3]int{span * m.bs[0], m.bs[1], m.bs[2]})
	if !r.OK() {
		l.violate(fam+":status", fmt.Sprintf("%s -> %s", l.lastRq, r))
		return false
	}
	bb := m.bs[0] * m.bs[1] * m.bs[2] * m.bpv
	if len(r.Body) != span*bb {
		l.violate(fam+":length", fmt.Sprintf("%s returned %d bytes, expected %d", l.lastRq, len(r.Body), span*bb))
		return false
	}
	for i := 0; i < span; i++ {
		bo := [3]int{off[0] + i*m.bs[0], off[1], off[2]}
		if d := m.compare(r.Body[i*bb:(i+1)*bb], bo, m.bs); d != nil {
			l.violate(fmt.Sprintf("%s:%s:w=%s:%s", fam, d.Symptom, l.writer(d), l.width()), fmt.Sprintf("%s: block %d of the answer, voxel %v reads %s, expected %s [block size %v, %d-byte voxels, writes %v]", l.lastRq, i, d.At, d.Got, d.Want, m.bs, m.bpv, l.spec.Writes))
			return false
		}
	}
	return true
}

// c17ParseStream parses the (x,y,z,n,bytes)* stream of subvolblocks / specificblocks.
func c17ParseStream(b []byte) (coords [][3]int, data [][]byte, err error) {
	for len(b) > 0 {
		if len(b) < 16 {
			return coords, data, fmt.Errorf("truncated block header (%d bytes left)", len(b))
		}
		var c [3]int
		for a := 0; a < 3; a++ {
			c[a] = int(int32(binary.LittleEndian.Uint32(b[4*a:])))
		}
		n := int(int32(binary.LittleEndian.Uint32(b[12:])))
		b = b[16:]
		if n < 0 || n > len(b) {
			return coords, data, fmt.Errorf("block %v announces %d bytes, %d left", c, n, len(b))
		}
		coords = append(coords, c)
		data = append(data, b[:n])
		b = b[n:]
	}
	return
}

// checkStream: every returned block lies among the requested ones and has the model's content; every requested block
// that was certainly written is returned. (An unwritten block returned with background content would be acceptable.)
func (l *c17Live) checkStream(fam string, ver int, r vsrv.Resp, want [][3]int) bool {
	m := l.models[ver]
	if !r.OK() {
		l.violate(fam+":status", fmt.Sprintf("%s -> %s", l.lastRq, r))
		return false
	}
	coords, data, err := c17ParseStream(r.Body)
	if err != nil {
		l.violate(fam+":malformed", fmt.Sprintf("%s: %v", l.lastRq, err))
		return false
	}
	wanted := map[[3]int]bool{}
	for _, b := range want {
		wanted[b] = true
	}
	seen := map[[3]int]bool{}
	bb := m.bs[0] * m.bs[1] * m.bs[2] * m.bpv
	for i, c := range coords {
		if !wanted[c] {
			l.violate(fam+":unrequested-block", fmt.Sprintf("%s returned block %v which was not requested", l.lastRq, c))
			return false
		}
		seen[c] = true
		if len(data[i]) != bb {
			l.violate(fmt.Sprintf("%s:block-length:w=%s:%s", fam, l.blockWriter(ver, c), l.width()), fmt.Sprintf("%s: block %v carries %d bytes, a block of %v %d-byte voxels has %d [writes %v]", l.lastRq, c, len(data[i]), m.bs, m.bpv, bb, l.spec.Writes))
			return false
		}
		if d := m.compare(data[i], [3]int{c[0] * m.bs[0], c[1] * m.bs[1], c[2] * m.bs[2]}, m.bs); d != nil {
			l.violate(fmt.Sprintf("%s:%s:w=%s:%s", fam, d.Symptom, l.writer(d), l.width()), fmt.Sprintf("%s: block %v voxel %v reads %s, expected %s [writes %v]", l.lastRq, c, d.At, d.Got, d.Want, l.spec.Writes))
			return false
		}
	}
	for _, b := range want {
		if m.blockState(b) == 1 && !seen[b] {
			l.violate(fmt.Sprintf("%s:written-block-missing:w=%s:%s", fam, l.blockWriter(ver, b), l.width()), fmt.Sprintf("%s: written block %v is not in the answer (%d blocks returned) [writes %v]", l.lastRq, b, len(coords), l.spec.Writes))
			return false
		}
	}
	return true
}

func c17BlockList(org, ext [3]int) [][3]int {
	var out [][3]int
	for z := org[2]; z < org[2]+ext[2]; z++ {
		for y := org[1]; y < org[1]+ext[1]; y++ {
			for x := org[0]; x < org[0]+ext[0]; x++ {
				out = append(out, [3]int{x, y, z})
			}
		}
	}
	return out
}

func (l *c17Live) readSubvol(ver int, org, ext [3]int) bool {
	m := l.models[ver]
	off := [3]int{org[0] * m.bs[0], org[1] * m.bs[1], org[2] * m.bs[2]}
	size := [3]int{ext[0] * m.bs[0], ext[1] * m.bs[1], ext[2] * m.bs[2]}
	r := l.do("GET", fmt.Sprintf("node/%s/img/subvolblocks/%s/%s?compression=uncompressed", l.uuid(ver), c17P3(size), c17P3(off)), nil)
	l.note("subvolblocks", ver, off, size)
	return l.checkStream("subvolblocks", ver, r, c17BlockList(org, ext))
}

func (l *c17Live) readSpecific(ver int, list [][3]int) bool {
	m := l.models[ver]
	var s []string
	for _, b := range list {
		s = append(s, fmt.Sprintf("%d,%d,%d", b[0], b[1], b[2]))
	}
	r := l.do("GET", fmt.Sprintf("node/%s/img/specificblocks?compression=uncompressed&blocks=%s", l.uuid(ver), strings.Join(s, ",")), nil)
	l.res.Evals++
	nw := 0
	for _, b := range list {
		if m.blockState(b) == 1 {
			nw++
		}
	}
	if len(list) >= 2 && nw >= 1 {
		l.res.Nontriv++
	}
	l.res.Outcomes[fmt.Sprintf("specificblocks:n=%d:written=%d", c17Min(len(list), 3), c17Min(nw, 3))]++
	return l.checkStream("specificblocks", ver, r, list)
}

func c17Min(a, b int) int {
	if a < b {
		return a
	}
	return b
}

// roiWriteCheck: after an accepted ROI-restricted last write, every block of its box is read back on its own: a block
// outside the ROI must hold what it held before, a block inside the ROI the new voxels.
func (l *c17Live) roiWriteCheck(ver int) bool {
	n := len(l.spec.Writes)
	if n == 0 || !l.spec.Writes[n-1].ROI {
		return true
	}
	w := l.spec.Writes[n-1]
	if (ver == 1) != w.Child || w.Sib {
		return true
	}
	m := l.models[ver]
	set := map[[3]int]bool{}
	for _, b := range l.spec.ROI {
		set[b] = true
	}
	bb := m.bs[0] * m.bs[1] * m.bs[2] * m.bpv
	for _, b := range c17BlockList(w.Org, w.Ext) {
		r := l.do("GET", fmt.Sprintf("node/%s/img/blocks/%s/1", l.uuid(ver), c17P3(b)), nil)
		l.res.Evals++
		l.res.Nontriv++
		if !r.OK() || len(r.Body) != bb {
			l.violate("getblocks:status", fmt.Sprintf("%s -> %s", l.lastRq, r))
			return false
		}
		if d := m.compare(r.Body, [3]int{b[0] * m.bs[0], b[1] * m.bs[1], b[2] * m.bs[2]}, m.bs); d != nil {
			if set[b] {
				l.violate("roi-write:inside-block-not-written", fmt.Sprintf("%v was accepted and block %v is inside the ROI %v, but voxel %v reads %s, expected %s [writes %v]", w, b, l.spec.ROI, d.At, d.Got, d.Want, l.spec.Writes))
			} else {
				l.violate("roi-write:outside-block-changed", fmt.Sprintf("%v is restricted to the ROI %v; block %v is outside it, but voxel %v reads %s, expected the previous content %s [writes %v]", w, l.spec.ROI, b, d.At, d.Got, d.Want, l.spec.Writes))
			}
			return false
		}
		if set[b] {
			l.res.Outcomes["roi-write:inside-block-written"]++
		} else {
			l.res.Outcomes["roi-write:outside-block-kept"]++
		}
	}
	return true
}

// seqReads: the fixed read cover applied to every world of the write-sequence and ROI phases, for each version.
// Order: block-level reads first (they exonerate or blame the write path and never dereference a short block), then
// whole-region 3-D reads, aligned and unaligned, then one slice per plane.
func (l *c17Live) seqReads() {
	bs := l.spec.BS
	for ver := 0; ver < 3 && !l.failed; ver++ {
		if l.uuid(ver) == "" {
			continue
		}
		m := l.models[ver]
		if !l.roiWriteCheck(ver) {
			return
		}
		all := c17BlockList([3]int{-c17R, -c17R, -c17R}, [3]int{2*c17R + 1, 2*c17R + 1, 2*c17R + 1})
		// block rows that hold a written block, as GET blocks spans over the whole row
		rows := map[[2]int]bool{}
		var some [][3]int // specificblocks list: every touched block and its X neighbours
		for _, b := range all {
			if m.blockState(b) != 0 {
				rows[[2]int{b[1], b[2]}] = true
			}
		}
		for _, b := range all {
			if rows[[2]int{b[1], b[2]}] {
				some = append(some, b)
			}
		}
		rows[[2]int{c17R, c17R}] = true // one row that is certainly unwritten
		some = append(some, [3]int{c17R, c17R, c17R})
		var rl [][2]int
		for r := range rows {
			rl = append(rl, r)
		}
		sort.Slice(rl, func(i, j int) bool { return rl[i][1] < rl[j][1] || (rl[i][1] == rl[j][1] && rl[i][0] < rl[j][0]) })
		for _, r := range rl {
			if !l.readBlocks(ver, [3]int{-c17R, r[0], r[1]}, 2*c17R+1) {
				return
			}
		}
		if !l.readSubvol(ver, [3]int{-c17R, -c17R, -c17R}, [3]int{2*c17R + 1, 2*c17R + 1, 2*c17R + 1}) {
			return
		}
		if !l.readSpecific(ver, some) {
			return
		}
		lo := [3]int{-c17R * bs[0], -c17R * bs[1], -c17R * bs[2]}
		full := [3]int{(2*c17R + 1) * bs[0], (2*c17R + 1) * bs[1], (2*c17R + 1) * bs[2]}
		if !l.read3d(ver, lo, full, false) {
			return
		}
		// unaligned: one voxel into block -2 up to the first voxel of block 2
		uo := [3]int{-bs[0] - 1, -bs[1] - 1, -bs[2] - 1}
		us := [3]int{3*bs[0] + 2, 3*bs[1] + 2, 3*bs[2] + 2}
		if !l.read3d(ver, uo, us, false) {
			return
		}
		if len(l.spec.Writes) == 1 { // slices are swept completely in the geometry phase; here one per plane
			for normal := 0; normal < 3; normal++ {
				o, s := uo, us
				o[normal], s[normal] = -1, 1
				if !l.read2d(ver, normal, o, s) {
					return
				}
			}
		}
		if l.spec.HasROI {
			if !l.read3d(ver, uo, us, true) {
				return
			}
		}
	}
	if l.spec.HasROI {
		l.sample(fmt.Sprintf("type %s block %v ROI blocks %v writes %v: POSTs accepted; every block of the ROI-restricted write's box read back on its own: inside the ROI = new voxels, outside = previous content; then the read cover of the sequence phase and one roi-masked 3-D read: all equal to the model", l.spec.Type, bs, l.spec.ROI, l.spec.Writes))
	}
	l.sample(fmt.Sprintf("type %s block %v writes %v: POSTs accepted, extents checked after each, then GET blocks rows, subvolblocks of the 125-block region, specificblocks of the touched rows, raw/0_1_2 of the whole region aligned and unaligned (offset %v), one slice per plane for single-write worlds: all equal to the model", l.spec.Type, bs, l.spec.Writes, [3]int{-bs[0] - 1, -bs[1] - 1, -bs[2] - 1}))
}

// ---- complete read-geometry products ----

// c17Intervals: every [a,b] with -B-1 <= a <= b <= hi, where hi = 2B (wide) or B (narrow); shortest first.
func c17Intervals(B int, wide bool) [][2]int {
	hi := B
	if wide {
		hi = 2 * B
	}
	var out [][2]int
	for n := 1; n <= hi+B+2; n++ {
		for a := -B - 1; a+n-1 <= hi; a++ {
			out = append(out, [2]int{a, a + n - 1})
		}
	}
	return out
}

// c17Menu: three intervals for the axes that are not being swept: one voxel; across the border of blocks -1|0 into
// block 1; across the border of blocks -2|-1.
func c17Menu(B int) [][2]int {
	return [][2]int{{0, 0}, {-1, B}, {-B - 1, -B + 1}}
}

type c17Read struct {
	K    byte // '3' box, 'x','y','z' slice with that normal, 'b' GET blocks, 's' subvolblocks, 'p' specificblocks
	Off  [3]int
	Size [3]int
	List [][3]int
}

// c17GeomReads enumerates the read product of one world. mode "full": complete product over all three axes;
// mode "axis": one axis swept completely, the other two from the 3-element menu.
func c17GeomReads(bs [3]int, mode string, wide bool, visit func(rd c17Read)) {
	var iv, menu [3][][2]int
	for a := 0; a < 3; a++ {
		iv[a] = c17Intervals(bs[a], wide)
		menu[a] = c17Menu(bs[a])
	}
	box := func(k byte, x, y, z [2]int) {
		visit(c17Read{K: k, Off: [3]int{x[0], y[0], z[0]}, Size: [3]int{x[1] - x[0] + 1, y[1] - y[0] + 1, z[1] - z[0] + 1}})
	}
	if mode == "full" {
		for _, z := range iv[2] {
			for _, y := range iv[1] {
				for _, x := range iv[0] {
					box('3', x, y, z)
				}
			}
		}
	} else {
		for sweep := 0; sweep < 3; sweep++ {
			sets := menu
			sets[sweep] = iv[sweep]
			for _, z := range sets[2] {
				for _, y := range sets[1] {
					for _, x := range sets[0] {
						box('3', x, y, z)
					}
				}
			}
		}
	}
	// slices: every position along the normal, in-plane rectangles as above
	for normal := 0; normal < 3; normal++ {
		B := bs[normal]
		hi := B
		if wide {
			hi = 2 * B
		}
		var pos [][2]int
		if mode == "full" {
			for p := -B - 1; p <= hi; p++ {
				pos = append(pos, [2]int{p, p})
			}
		} else {
			for _, p := range []int{0, -1, -B - 1, B} {
				pos = append(pos, [2]int{p, p})
			}
		}
		k := byte("xyz"[normal])
		if mode == "full" {
			sets := iv
			sets[normal] = pos
			for _, z := range sets[2] {
				for _, y := range sets[1] {
					for _, x := range sets[0] {
						box(k, x, y, z)
					}
				}
			}
		} else {
			for sweep := 0; sweep < 3; sweep++ {
				if sweep == normal {
					continue
				}
				sets := menu
				sets[sweep] = iv[sweep]
				sets[normal] = pos
				for _, z := range sets[2] {
					for _, y := range sets[1] {
						for _, x := range sets[0] {
							box(k, x, y, z)
						}
					}
				}
			}
		}
	}
	// block streams: every span of GET blocks, every block box of subvolblocks, specificblocks singles and ordered pairs
	n := 2*c17R + 1
	for bz := -c17R; bz <= c17R; bz++ {
		for by := -c17R; by <= c17R; by++ {
			for bx := -c17R; bx <= c17R; bx++ {
				for span := 1; bx+span-1 <= c17R; span++ {
					visit(c17Read{K: 'b', Off: [3]int{bx, by, bz}, Size: [3]int{span, 1, 1}})
				}
			}
		}
	}
	var biv [][2]int
	for ln := 1; ln <= n; ln++ {
		for a := -c17R; a+ln-1 <= c17R; a++ {
			biv = append(biv, [2]int{a, a + ln - 1})
		}
	}
	for _, z := range biv {
		for _, y := range biv {
			for _, x := range biv {
				box('s', x, y, z)
			}
		}
	}
	all := c17BlockList([3]int{-c17R, -c17R, -c17R}, [3]int{n, n, n})
	for _, b := range all {
		visit(c17Read{K: 'p', List: [][3]int{b}})
	}
	inner := c17BlockList([3]int{-1, -1, -1}, [3]int{3, 3, 3})
	for _, a := range inner {
		for _, b := range inner {
			if a != b {
				visit(c17Read{K: 'p', List: [][3]int{a, b}})
			}
		}
	}
	visit(c17Read{K: 'p', List: all})
}

func (l *c17Live) geomReads(mode string, wide bool, part, of int) {
	i := -1
	vers := 1
	if l.child != "" {
		vers = 2
	}
	c17GeomReads(l.spec.BS, mode, wide, func(rd c17Read) {
		i++
		if i%of != part || l.failed {
			return
		}
		for ver := 0; ver < vers && !l.failed; ver++ {
			switch rd.K {
			case '3':
				l.read3d(ver, rd.Off, rd.Size, false)
			case 'x':
				l.read2d(ver, 0, rd.Off, rd.Size)
			case 'y':
				l.read2d(ver, 1, rd.Off, rd.Size)
			case 'z':
				l.read2d(ver, 2, rd.Off, rd.Size)
			case 'b':
				l.readBlocks(ver, rd.Off, rd.Size[0])
			case 's':
				l.readSubvol(ver, rd.Off, rd.Size)
			case 'p':
				l.readSpecific(ver, rd.List)
			}
		}
	})
	if !l.failed && part == 0 {
		l.sample(fmt.Sprintf("type %s block %v writes %v: complete read product (%s, wide=%v): e.g. GET raw/0_1_2/%s/%s, raw/0_2/%d_%d/%s, blocks/-2_-1_0/5, subvolblocks, specificblocks: every answer equal to the model", l.spec.Type, l.spec.BS, l.spec.Writes, mode, wide,
			c17P3([3]int{l.spec.BS[0] + 2, l.spec.BS[1] + 2, l.spec.BS[2] + 2}), c17P3([3]int{-1, -1, -1}), l.spec.BS[0]+2, l.spec.BS[2]+2, c17P3([3]int{-1, 0, -1})))
	}
}

// replay re-issues one recorded read request against the rebuilt world (write and extents failures are already
// re-checked by rebuilding the world).
func (l *c17Live) replay(req string, ver int) {
	f := strings.Fields(req)
	if len(f) != 2 || f[0] != "GET" || (ver >= 1 && l.uuid(ver) == "") {
		return
	}
	u, q := f[1], ""
	if i := strings.Index(u, "?"); i >= 0 {
		u, q = u[:i], u[i+1:]
	}
	p := strings.Split(u, "/") // node, uuid, img, endpoint, ...
	p3 := func(s string) (o [3]int) {
		for i, e := range strings.Split(s, "_") {
			if i < 3 {
				o[i], _ = strconv.Atoi(e)
			}
		}
		return
	}
	bs := l.spec.BS
	switch {
	case len(p) >= 7 && p[3] == "raw" && p[4] == "0_1_2":
		l.read3d(ver, p3(p[6]), p3(p[5]), strings.Contains(q, "roi="))
	case len(p) >= 7 && p[3] == "raw":
		for normal, name := range c17PlaneName {
			if name == p[4] {
				wh := p3(p[5])
				size := [3]int{1, 1, 1}
				k := 0
				for a := 0; a < 3; a++ {
					if a != normal {
						size[a] = wh[k]
						k++
					}
				}
				l.read2d(ver, normal, p3(p[6]), size)
			}
		}
	case len(p) >= 6 && p[3] == "blocks":
		span, _ := strconv.Atoi(p[5])
		l.readBlocks(ver, p3(p[4]), span)
	case len(p) >= 6 && p[3] == "subvolblocks":
		size, off := p3(p[4]), p3(p[5])
		l.readSubvol(ver, [3]int{off[0] / bs[0], off[1] / bs[1], off[2] / bs[2]}, [3]int{size[0] / bs[0], size[1] / bs[1], size[2] / bs[2]})
	case len(p) >= 4 && p[3] == "specificblocks":
		for _, kv := range strings.Split(q, "&") {
			if strings.HasPrefix(kv, "blocks=") {
				var list [][3]int
				e := strings.Split(strings.TrimPrefix(kv, "blocks="), ",")
				for i := 0; i+2 < len(e); i += 3 {
					var b [3]int
					for a := 0; a < 3; a++ {
						b[a], _ = strconv.Atoi(e[i+a])
					}
					list = append(list, b)
				}
				l.readSpecific(ver, list)
			}
		}
	}
}

// ---------------------------------------------------------------------------------------------------------------------
// jobs

type c17Job struct {
	Phase  string     `json:"phase"` // seq | geom | replay
	Req    string     `json:"req,omitempty"`
	Ver    int        `json:"ver,omitempty"`
	Worlds []c17World `json:"worlds,omitempty"`
	Mode   string     `json:"mode,omitempty"`
	Wide   bool       `json:"wide,omitempty"`
	Part   int        `json:"part,omitempty"`
	Of     int        `json:"of,omitempty"`
}

func c17RunJob(j c17Job, trace string) c17Res {
	res := c17Res{Outcomes: map[string]int{}}
	for _, w := range j.Worlds {
		l, err := c17Build(w, &res, trace)
		if err != nil {
			res.Err = err.Error()
			return res
		}
		if l.failed {
			continue
		}
		switch j.Phase {
		case "seq":
			l.seqReads()
		case "geom":
			l.geomReads(j.Mode, j.Wide, j.Part, j.Of)
		case "replay":
			l.replay(j.Req, j.Ver)
		}
	}
	return res
}

func c17Worker(args []string) int {
	var dir string
	var err error
	if sc := getenv("C17_SCRATCH"); sc != "" {
		dir, err = os.MkdirTemp(sc, "w-") // inside the driver's scratch directory, which the driver removes (a crashed worker cannot)
	} else {
		dir, err = mkTemp("c17w")
	}
	if err != nil {
		fmt.Println(`{"err":"tmpdir"}`)
		return 1
	}
	defer rmAll(dir)
	if err := vsrv.Boot(dir, vsrv.Options{}); err != nil {
		fmt.Printf("{\"err\":%q}\n", err.Error())
		return 1
	}
	trace := getenv("C17_TRACE")
	return vlib.ServeJobs(func(job string) string {
		var j c17Job
		if err := json.Unmarshal([]byte(job), &j); err != nil {
			return fmt.Sprintf("{\"err\":%q}", err.Error())
		}
		res := c17RunJob(j, trace)
		b, _ := json.Marshal(res)
		return string(b)
	})
}

// ---------------------------------------------------------------------------------------------------------------------
// driver

// c17Boxes: complete product of per-axis (origin, extent) choices.
func c17Boxes(axis [][2]int) (out [][2][3]int) {
	for _, z := range axis {
		for _, y := range axis {
			for _, x := range axis {
				out = append(out, [2][3]int{{x[0], y[0], z[0]}, {x[1], y[1], z[1]}})
			}
		}
	}
	return
}

// c17WriteAlphabet: every write request over the per-axis (origin, extent) alphabet, simplest first.
func c17WriteAlphabet(axis [][2]int, kinds []string) []c17Write {
	var out []c17Write
	for _, k := range kinds {
		for _, b := range c17Boxes(axis) {
			if strings.HasPrefix(k, "blocks") && (b[1][1] != 1 || b[1][2] != 1) {
				continue // the blocks endpoint writes one row of blocks along X
			}
			out = append(out, c17Write{Kind: k, Org: b[0], Ext: b[1]})
		}
	}
	return out
}

type c17Plan struct {
	jobs   []string
	descr  []string
	worlds []int
}

func (p *c17Plan) add(j c17Job, d string) {
	b, _ := json.Marshal(j)
	p.jobs = append(p.jobs, string(b))
	p.descr = append(p.descr, d)
	p.worlds = append(p.worlds, len(j.Worlds))
}

// c17RunPlan runs the jobs on 16 worker processes, in rounds: creating a repo or a version rewrites DVID's whole
// repo/version id maps, so the cost of a world grows with the number of repos its process has created; every round
// starts fresh processes on fresh stores and is cut off at about 1000 worlds per process.
func c17RunPlan(p *c17Plan, scratch string) []vlib.PoolResult {
	var out []vlib.PoolResult
	for i := 0; i < len(p.jobs); {
		j, n := i, 0
		for j < len(p.jobs) && (n == 0 || n+p.worlds[j] <= 16*1000) {
			n += p.worlds[j]
			j++
		}
		out = append(out, vlib.Pool("c17", nil, 16, p.jobs[i:j], "C17_SCRATCH="+scratch)...)
		i = j
	}
	return out
}

func (p *c17Plan) addWorlds(phase string, ws []c17World, per int, d string) {
	for i := 0; i < len(ws); i += per {
		e := i + per
		if e > len(ws) {
			e = len(ws)
		}
		p.add(c17Job{Phase: phase, Worlds: ws[i:e]}, d)
	}
}

func runC17(c *vlib.Ctx) {
	if c.ReplayFile != "" {
		c17Replay(c)
		return
	}
	thorough := c.Thorough()
	vlib.JobTimeout = 120 * time.Second // a job is a few seconds of work; this is only the watchdog for a wedged server
	small := [3]int{2, 3, 4}
	cube := [3]int{4, 4, 4}
	var plan c17Plan
	cov := map[string]int64{}

	// ---- phase seq: all write sequences of length <= 2 ----
	axisQ := [][2]int{{0, 1}, {-1, 1}, {-1, 2}}                 // (origin, extent) per axis, quick
	axisM := [][2]int{{0, 1}, {-1, 1}, {0, 2}, {-1, 2}}         // origins -1,0 x extents 1,2
	axisT := [][2]int{{0, 1}, {-1, 1}, {1, 1}, {0, 2}, {-1, 2}} // thorough: origins -1,0,1 (blocks -1..1)
	kinds := []string{"raw", "rawmut", "blocks", "blocksmut"}
	type seqCfg struct {
		typ  string
		bs   [3]int
		axis [][2]int
		bg   int
		len2 bool
	}
	var seqs []seqCfg
	if !thorough {
		seqs = []seqCfg{{"uint8blk", small, axisQ, 0, true}, {"uint16blk", small, axisM, 0, false}, {"uint8blk", cube, axisM, 0, false}, {"uint8blk", small, axisM, 3, false}}
	} else {
		seqs = []seqCfg{{"uint8blk", small, axisT, 0, true}, {"uint16blk", small, axisM, 0, true}, {"uint8blk", cube, axisQ, 0, true}, {"uint8blk", small, axisQ, 3, true}}
		for _, t := range c17Types[2:] {
			seqs = append(seqs, seqCfg{t.Name, small, axisT, 0, false})
		}
	}
	for _, sc := range seqs {
		alpha := c17WriteAlphabet(sc.axis, kinds)
		var ws []c17World
		for _, w1 := range alpha {
			ws = append(ws, c17World{Type: sc.typ, BS: sc.bs, Bg: sc.bg, Writes: []c17Write{w1}})
		}
		if sc.len2 {
			for _, w1 := range alpha {
				for _, w2 := range alpha {
					ws = append(ws, c17World{Type: sc.typ, BS: sc.bs, Bg: sc.bg, Writes: []c17Write{w1, w2}})
					w2c := w2
					w2c.Child = true
					ws = append(ws, c17World{Type: sc.typ, BS: sc.bs, Bg: sc.bg, Writes: []c17Write{w1, w2c}})
					// the second write carries background only: it must erase what the first one stored
					// the first write in the child, the second in a sibling of the child (a second open version that inherits nothing
					// from the first write: what it advertises and returns must come from its own ancestry only)
					w1c, w2s := w1, w2
					w1c.Child, w2s.Sib = true, true
					// the root holds one block of its own (so the sibling inherits content and advertised extents that do not
					// cover its write); thorough also with an empty root
					w0 := c17Write{Kind: "raw", Org: [3]int{0, 0, 0}, Ext: [3]int{1, 1, 1}}
					ws = append(ws, c17World{Type: sc.typ, BS: sc.bs, Bg: sc.bg, Writes: []c17Write{w0, w1c, w2s}})
					if thorough {
						ws = append(ws, c17World{Type: sc.typ, BS: sc.bs, Bg: sc.bg, Writes: []c17Write{w1c, w2s}})
					}
					w2e, w2ce := w2, w2c
					w2e.Erase, w2ce.Erase = true, true
					ws = append(ws, c17World{Type: sc.typ, BS: sc.bs, Bg: sc.bg, Writes: []c17Write{w1, w2e}}, c17World{Type: sc.typ, BS: sc.bs, Bg: sc.bg, Writes: []c17Write{w1, w2ce}})
				}
			}
		}
		cov["seq_worlds"] += int64(len(ws))
		plan.addWorlds("seq", ws, 64, "seq:"+sc.typ)
	}

	// ---- phase roi: every subset of the 8 blocks of the region {-1,0}^3 ----
	region := c17BlockList([3]int{-1, -1, -1}, [3]int{2, 2, 2})
	roiTypes := []string{"uint8blk"}
	roiAxis := [][2]int{{-1, 2}, {0, 1}}
	if thorough {
		roiTypes = []string{"uint8blk", "uint64blk"}
		roiAxis = axisM
	}
	for _, t := range roiTypes {
		var ws []c17World
		for mask := 0; mask < 256; mask++ {
			var roi [][3]int
			for i, b := range region {
				if mask&(1<<uint(i)) != 0 {
					roi = append(roi, b)
				}
			}
			for _, box := range c17Boxes(roiAxis) {
				for _, k := range []string{"raw", "rawmut"} {
					for _, prefill := range []bool{false, true} {
						w := c17World{Type: t, BS: small, HasROI: true, ROI: roi}
						if prefill {
							w.Writes = append(w.Writes, c17Write{Kind: "raw", Org: [3]int{-1, -1, -1}, Ext: [3]int{2, 2, 2}})
						}
						w.Writes = append(w.Writes, c17Write{Kind: k, Org: box[0], Ext: box[1], ROI: true})
						ws = append(ws, w)
					}
				}
			}
		}
		cov["roi_worlds"] += int64(len(ws))
		plan.addWorlds("seq", ws, 64, "roi:"+t)
	}

	// ---- phase geom: complete read products on a menu of worlds ----
	g1 := []c17Write{{Kind: "raw", Org: [3]int{-1, -1, -1}, Ext: [3]int{2, 2, 2}}}
	g2 := []c17Write{{Kind: "raw", Org: [3]int{-1, -1, -1}, Ext: [3]int{2, 2, 2}}, {Kind: "rawmut", Org: [3]int{0, -1, 0}, Ext: [3]int{2, 1, 1}, Child: true}}
	g3 := []c17Write{{Kind: "raw", Org: [3]int{-1, 0, 0}, Ext: [3]int{2, 1, 1}}, {Kind: "raw", Org: [3]int{0, -1, -1}, Ext: [3]int{1, 2, 2}}}
	type geomCfg struct {
		typ    string
		bs     [3]int
		writes []c17Write
		mode   string
		wide   bool
		bg     int
	}
	var geoms []geomCfg
	products := map[string]int{} // size of the read product per world
	for _, t := range c17Types {
		// 4x4x4: one axis at a time, all types, both tiers
		geoms = append(geoms, geomCfg{t.Name, cube, g1, "axis", true, 0}, geomCfg{t.Name, cube, g2, "axis", true, 0})
	}
	geoms = append(geoms, geomCfg{"uint8blk", cube, g3, "axis", true, 5})
	if !thorough {
		for _, t := range []string{"uint8blk", "uint64blk", "rgba8blk"} {
			geoms = append(geoms, geomCfg{t, small, g1, "full", false, 0}, geomCfg{t, small, g3, "full", false, 0})
		}
	} else {
		for _, t := range c17Types {
			geoms = append(geoms, geomCfg{t.Name, small, g1, "full", true, 0}, geomCfg{t.Name, small, g3, "full", true, 0}, geomCfg{t.Name, small, g2, "full", false, 0})
		}
	}
	for _, g := range geoms {
		n := 0
		c17GeomReads(g.bs, g.mode, g.wide, func(c17Read) { n++ })
		vers := 1
		for _, w := range g.writes {
			if w.Child {
				vers = 2
			}
		}
		cov["geom_reads"] += int64(n * vers)
		products[fmt.Sprintf("block %v %s wide=%v", g.bs, g.mode, g.wide)] = n
		of := 1 + n*vers/6000
		for part := 0; part < of; part++ {
			plan.add(c17Job{Phase: "geom", Worlds: []c17World{{Type: g.typ, BS: g.bs, Bg: g.bg, Writes: g.writes}}, Mode: g.mode, Wide: g.wide, Part: part, Of: of}, "geom:"+g.typ+":"+g.mode)
		}
	}

	// ---- run ----
	if f := getenv("C17_ONLY"); f != "" { // development aid: run only the jobs whose description starts with f
		var q c17Plan
		for i, d := range plan.descr {
			if strings.HasPrefix(d, f) {
				q.jobs, q.descr, q.worlds = append(q.jobs, plan.jobs[i]), append(q.descr, d), append(q.worlds, plan.worlds[i])
			}
		}
		plan = q
		c.Cap("C17_ONLY=" + f + ": partial run")
	}
	scratch, err := mkTemp("c17run")
	if err != nil {
		c.Violate("harness:tmpdir", err.Error(), nil)
		return
	}
	defer rmAll(scratch)
	results := c17RunPlan(&plan, scratch)
	total := c17Res{Outcomes: map[string]int{}}
	deaths := map[string]int{}
	sampled := map[string]int{}
	for i, r := range results {
		if r.Died {
			// every dead job is counted; the first two of each job class are re-run in trace mode to name the fatal request
			deaths[plan.descr[i]]++
			c.Add("worker_deaths", 1)
			if deaths[plan.descr[i]] <= 2 {
				c17Died(c, plan.jobs[i], plan.descr[i], r, scratch)
			}
			continue
		}
		var res c17Res
		if err := json.Unmarshal([]byte(r.Out), &res); err != nil {
			c.Violate("harness:result", fmt.Sprintf("bad worker answer for %s: %v %q", plan.descr[i], err, tail(r.Out, 200)), nil)
			continue
		}
		if res.Err != "" {
			c.Violate("harness:world", fmt.Sprintf("%s: cannot build world: %s", plan.descr[i], res.Err), nil)
		}
		c.Eval(res.Evals)
		c.NontrivialDistinct(res.Nontriv)
		total.Worlds += res.Worlds
		total.Reqs += res.Reqs
		total.Refused += res.Refused
		for k, n := range res.Outcomes {
			total.Outcomes[k] += n
		}
		for _, v := range res.Viol {
			c.Violate(v.Key, v.What, map[string]interface{}{"world": v.World, "request": v.Req, "ver": v.Ver})
		}
		if res.Sample != "" && sampled[plan.descr[i]] == 0 && len(sampled) < 8 {
			sampled[plan.descr[i]]++ // one written-out case per job class
			c.Sample(res.Sample)
		}
	}
	for k := range total.Outcomes {
		c.Outcome(k)
	}
	c.Set("outcome_counts", total.Outcomes)
	c.Set("worlds", total.Worlds)
	c.Set("requests", total.Reqs)
	c.Set("refused_writes", total.Refused)
	for k, v := range cov {
		c.Set(k, v)
	}
	c.Set("read_product_per_world", products)
	c.Set("traces_validated_against_impl", total.Worlds)
	c.Set("bound", fmt.Sprintf("writes: all sequences of <= 2 of {raw, raw?mutate, blocks, blocks?mutate} x boxes (per-axis (origin,extent) alphabets %v quick, %v medium, %v thorough), 2nd write in the same or a child version; reads: complete products of intervals [a,b], -B-1 <= a <= b <= B (narrow) or 2B (wide) per axis, every slice position, every block span in blocks -2..2; ROI: all 256 subsets of a 2x2x2 block region", axisQ, axisM, axisT))
	c.Set("rule", "a read is non-trivial if its box touches >= 2 blocks and contains >= 1 written voxel (specificblocks: >= 2 blocks listed, >= 1 written); reads are pairwise distinct by construction of the enumeration; evaluations = write requests + extents checks + compared read answers")
	c.Assume("block sizes 2x3x4 and 4x4x4 stand for all block sizes (the code is parametric in the block size); block coordinates -2..2")
	c.Assume("2-D slices are compared through their PNG encoding (lossless): Gray/Gray16 value or NRGBA/NRGBA64 bytes == voxel bytes; jpg is lossy and not compared")
	c.Assume("a non-zero Background is only exercised for 1-byte voxels (Background is a single byte; its meaning for wider voxels is not defined by the API)")
	c.Assume("a refused (non-2xx) write makes its voxels 'old or new'; the number of refused writes is reported (0 expected)")
	c.Assume("each worker process owns its store and executes its requests sequentially, one fresh repo per world")
}

// c17Replay re-executes the case of a replay file (vcheck C17 --replay <file>) in a fresh worker process: the world is
// rebuilt (every write and extents check included) and the recorded read request is issued again.
func c17Replay(c *vlib.Ctx) {
	b, err := os.ReadFile(c.ReplayFile)
	var v struct {
		Key    string
		Replay struct {
			World   c17World
			Request string
			Ver     int
		}
	}
	if err == nil {
		err = json.Unmarshal(b, &v)
	}
	if err != nil || v.Replay.World.Type == "" {
		c.Violate("harness:replay-file", fmt.Sprintf("cannot use replay file %s: %v", c.ReplayFile, err), nil)
		return
	}
	scratch, err := mkTemp("c17run")
	if err != nil {
		c.Violate("harness:tmpdir", err.Error(), nil)
		return
	}
	defer rmAll(scratch)
	phase := "replay"
	if !strings.HasPrefix(v.Replay.Request, "GET") || strings.HasSuffix(v.Replay.Request, "/info") || strings.HasSuffix(v.Replay.Request, "/metadata") || v.Replay.World.HasROI {
		phase = "seq"
	}
	jb, _ := json.Marshal(c17Job{Phase: phase, Worlds: []c17World{v.Replay.World}, Req: v.Replay.Request, Ver: v.Replay.Ver})
	rr := vlib.RunWorker("c17", nil, strings.NewReader(string(jb)+"\n"), "C17_SCRATCH="+scratch)
	c.Cap("replay of one case")
	var res c17Res
	if len(rr.Lines) == 0 || json.Unmarshal([]byte(rr.Lines[len(rr.Lines)-1]), &res) != nil {
		c.Violate("crash:replay", fmt.Sprintf("the worker died while replaying %s: %s", c.ReplayFile, tail(rr.Stderr, 1200)), v.Replay)
		return
	}
	c.Eval(res.Evals)
	for _, x := range res.Viol {
		c.Violate(x.Key, x.What, map[string]interface{}{"world": x.World, "request": x.Req, "ver": x.Ver})
	}
	fmt.Printf("replayed %s (recorded key %q): %d violation(s) reproduced\n", c.ReplayFile, v.Key, len(res.Viol))
}

// c17Died handles a dead worker: the job is re-run once in trace mode to identify the request that kills the process.
func c17Died(c *vlib.Ctx, job, descr string, r vlib.PoolResult, scratch string) {
	if r.TimedOut {
		c.Cap(fmt.Sprintf("watchdog: job %s exceeded %v: %s", descr, vlib.JobTimeout, tail(r.Stderr, 1200)))
		return
	}
	tf, err := os.CreateTemp(scratch, "trace-")
	if err != nil {
		c.Violate("harness:tmpfile", err.Error(), nil)
		return
	}
	tf.Close()
	rr := vlib.RunWorker("c17", nil, strings.NewReader(job+"\n"), "C17_TRACE="+tf.Name(), "C17_SCRATCH="+scratch)
	lastReq, lastWorld := "", ""
	if b, err := os.ReadFile(tf.Name()); err == nil {
		if ls := strings.SplitN(string(b), "\n", 3); len(ls) >= 2 {
			lastReq, lastWorld = ls[0], ls[1]
		}
	}
	if rr.ExitCode == 0 && rr.Err == nil {
		c.Cap(fmt.Sprintf("worker died once on job %s but not when re-run (not reproducible): %s", descr, tail(r.Stderr, 600)))
		return
	}
	fam := "unknown"
	f := strings.Fields(lastReq)
	if len(f) == 2 {
		p := strings.Split(strings.SplitN(f[1], "?", 2)[0], "/")
		if len(p) >= 4 {
			fam = strings.ToLower(f[0]) + "-" + p[3]
			if p[3] == "raw" && len(p) >= 5 {
				fam += "-" + p[4]
			}
		}
	}
	pan := ""
	for _, ln := range strings.Split(rr.Stderr, "\n") {
		if strings.HasPrefix(ln, "panic:") || strings.HasPrefix(ln, "fatal error:") {
			pan = ln
			break
		}
	}
	var w interface{}
	json.Unmarshal([]byte(lastWorld), &w)
	c.Violate("crash:"+fam, fmt.Sprintf("the server process dies on %s (%s) in world %s; stderr: %s", lastReq, pan, lastWorld, tail(rr.Stderr, 900)), map[string]interface{}{"world": w, "request": lastReq})
}
