package checks

// C20 labelmap world and endpoints.

import (
	"fmt"

	"verif/vsrv"
)

const c20LMBlock = 16

func c20LMBase() *lmVol {
	v := newLMVol([3]int{0, 0, 0}, [3]int{32, 32, 16})
	v.fill([3]int{0, 0, 0}, [3]int{16, 32, 16}, 1)
	v.fill([3]int{16, 0, 0}, [3]int{32, 16, 16}, 2)
	v.fill([3]int{16, 16, 0}, [3]int{32, 32, 16}, 3)
	v.fill([3]int{4, 4, 4}, [3]int{8, 8, 8}, 4)
	return v
}

func c20BlockOff(b [3]int, S int) [3]int { return [3]int{b[0] * S, b[1] * S, b[2] * S} }

func c20SentVol() *lmVol {
	o := c20BlockOff(c20SentBlock, c20LMBlock)
	v := newLMVol(o, [3]int{16, 16, 16})
	v.fill(o, [3]int{o[0] + 8, o[1] + 16, o[2] + 16}, c20SentSV)
	v.fill([3]int{o[0] + 8, o[1], o[2]}, [3]int{o[0] + 16, o[1] + 16, o[2] + 16}, c20SentSV2)
	return v
}

func c20ProbeVol() *lmVol {
	o := [3]int{45 * 16, 45 * 16, 45 * 16}
	v := newLMVol(o, [3]int{16, 16, 16})
	v.fill(o, [3]int{o[0] + 16, o[1] + 16, o[2] + 16}, c20ProbeLbl)
	return v
}

func c20LabelmapWorld() *c20World {
	so := c20BlockOff(c20SentBlock, c20LMBlock)
	sraw := fmt.Sprintf("raw/0_1_2/16_16_16/%d_%d_%d", so[0], so[1], so[2])
	sentElem := fmt.Sprintf(`[{"Pos":[%d,%d,%d],"Kind":"Note","Tags":["s9"],"Prop":{"k":"v"},"Rels":[]}]`, so[0]+3, so[1]+3, so[2]+3)
	pv := c20ProbeVol()
	w := &c20World{Name: "labelmap"}
	w.Build = func(u string) error {
		for _, n := range []string{"lm", "lm2"} {
			if err := vsrv.NewInstance(u, "labelmap", n, map[string]string{"BlockSize": "16,16,16", "MaxDownresLevel": "2"}); err != nil {
				return err
			}
		}
		if err := vsrv.NewInstance(u, "annotation", "syn", nil); err != nil {
			return err
		}
		if err := c20MustOK(vsrv.PostS("node/"+u+"/syn/sync", `{"sync":"lm"}`), "sync syn->lm"); err != nil {
			return err
		}
		if err := c20MustOK(lmPostRaw(u, "lm", c20LMBase(), false), "POST raw base"); err != nil {
			return err
		}
		for _, n := range []string{"lm", "lm2"} {
			if err := c20MustOK(lmPostRaw(u, n, c20SentVol(), false), "POST raw sentinel"); err != nil {
				return err
			}
		}
		vsrv.Quiesce()
		if err := c20MustOK(lmMerge(u, "lm", 1, 4), "merge 1<-4"); err != nil {
			return err
		}
		for _, n := range []string{"lm", "lm2"} {
			if err := c20MustOK(lmMerge(u, n, c20SentSV, c20SentSV2), "merge sentinel"); err != nil {
				return err
			}
		}
		vsrv.Quiesce()
		if err := c20MustOK(vsrv.PostS("node/"+u+"/syn/elements", `[{"Pos":[5,5,5],"Kind":"PreSyn","Tags":["t1"],"Prop":{},"Rels":[{"Rel":"PreSynTo","To":[20,4,4]}]},{"Pos":[20,4,4],"Kind":"PostSyn","Tags":["t1"],"Prop":{},"Rels":[{"Rel":"PostSynTo","To":[5,5,5]}]},{"Pos":[20,20,4],"Kind":"Note","Tags":[],"Prop":{},"Rels":[]}]`), "POST syn elements"); err != nil {
			return err
		}
		if err := c20MustOK(vsrv.PostS("node/"+u+"/syn/elements", sentElem), "POST syn sentinel"); err != nil {
			return err
		}
		return nil
	}
	lmN := func(path string) c20Read { return c20Read{Method: "GET", Path: "lm/" + path, Norm: c20LMNorm(path)} }
	w.Sentinel = []c20Read{
		{Method: "GET", Path: "lm/" + sraw},
		{Method: "GET", Path: "lm/" + sraw + "?supervoxels=true"},
		lmN(fmt.Sprintf("sparsevol/%d", c20SentSV)),
		lmN(fmt.Sprintf("sparsevol-coarse/%d", c20SentSV)),
		lmN(fmt.Sprintf("size/%d", c20SentSV)),
		lmN(fmt.Sprintf("supervoxels/%d", c20SentSV)),
		lmN(fmt.Sprintf("index/%d", c20SentSV)),
		{Method: "GET", Path: "lm/mapping", Body: []byte(fmt.Sprintf("[%d,%d]", c20SentSV, c20SentSV2))},
		{Method: "GET", Path: fmt.Sprintf("lm/label/%d_%d_%d", so[0]+9, so[1]+1, so[2]+1)},
		{Method: "GET", Path: "syn/tag/s9", Norm: annNormalize},
		{Method: "GET", Path: fmt.Sprintf("syn/label/%d", c20SentSV), Norm: annNormalize},
		{Method: "GET", Path: "lm2/" + sraw, Neighbour: true},
		{Method: "GET", Path: fmt.Sprintf("lm2/sparsevol/%d", c20SentSV), Norm: c20LMNorm("sparsevol/x"), Neighbour: true},
		{Method: "GET", Path: "lm2/mapping", Body: []byte(fmt.Sprintf("[%d,%d]", c20SentSV, c20SentSV2)), Neighbour: true},
		{Method: "GET", Path: "lm2/maxlabel", Neighbour: true},
	}
	w.Target = []c20Read{
		{Method: "GET", Path: "lm/raw/0_1_2/32_32_16/0_0_0"},
		{Method: "GET", Path: "lm/raw/0_1_2/32_32_16/0_0_0?supervoxels=true"},
		{Method: "GET", Path: "lm/raw/0_1_2/16_16_16/0_0_0?scale=1"},
		lmN("index/1"), lmN("index/2"), lmN("index/3"), lmN("index/4"),
		{Method: "GET", Path: "lm/mapping", Body: []byte("[1,2,3,4,5,6,7,8,9,10,100]")},
		{Method: "GET", Path: "lm/maxlabel"},
		{Method: "GET", Path: "lm/nextlabel"},
		{Method: "GET", Path: "lm/supervoxel-splits"},
		{Method: "GET", Path: "lm/info"},
		{Method: "GET", Path: "lm/tags"},
		{Method: "GET", Path: "syn/all-elements", Norm: annNormalize},
		{Method: "GET", Path: "syn/label/1", Norm: annNormalize},
		{Method: "GET", Path: "syn/label/2", Norm: annNormalize},
		{Method: "GET", Path: "syn/label/3", Norm: annNormalize},
	}
	w.Probe = c20Case{Method: "POST", Path: "lm/raw/0_1_2/" + lmDims(pv.size, pv.off) + "?mutate=true", Body: pv.bytes()}
	return w
}

func c20Cube(S int, f func(x, y, z int) uint64) []uint64 {
	v := make([]uint64, S*S*S)
	for z := 0; z < S; z++ {
		for y := 0; y < S; y++ {
			for x := 0; x < S; x++ {
				v[(z*S+y)*S+x] = f(x, y, z)
			}
		}
	}
	return v
}

func c20LMSeedBlocks() []c20Blk {
	return []c20Blk{
		{Coord: [3]int32{0, 0, 0}, Vox: c20Cube(16, func(x, y, z int) uint64 {
			if x >= 4 && x < 8 && y >= 4 && y < 8 && z >= 4 && z < 8 {
				return 4
			}
			if x < 2 && y < 2 && z < 2 {
				return 9 // the first sub-block holds 3 labels: 2 bits per voxel, packed value 3 names no label
			}
			if x < 10 {
				return 1
			}
			return 9
		})},
		{Coord: [3]int32{1, 0, 0}, Vox: c20Cube(16, func(x, y, z int) uint64 { return 2 })},
		{Coord: [3]int32{1, 1, 0}, Vox: c20Cube(16, func(x, y, z int) uint64 {
			if z < 5 {
				return 8
			}
			return 3
		})},
	}
}

func c20LabelmapEPs(thorough bool) []*c20EP {
	var eps []*c20EP
	add := func(ep *c20EP) { ep.World, ep.DT = "labelmap", "labelmap"; eps = append(eps, ep) }
	bin := func(name, method, path string, layers ...c20Layer) {
		add(&c20EP{Name: name, Method: method, Path: path, Body: layers[0].Data, Layers: layers})
	}
	js := func(name, method, path, body string) {
		add(&c20EP{Name: name, Method: method, Path: path, Body: []byte(body), JSON: body})
	}
	blocks := c20LMSeedBlocks()
	for _, b := range blocks {
		if err := c20CheckBlock(b.Vox, 16); err != nil {
			panic("c20: block encoder self-test: " + err.Error())
		}
	}
	outer, inner := c20BlockStream(blocks, 16)
	in := []c20Layer{inner[0], inner[1]} // multi-label block and solid block (a bare 24-byte header)
	if thorough {
		in = inner
	}
	bin("post-blocks", "POST", "lm/blocks", append([]c20Layer{outer}, in...)...)
	bin("post-blocks-downres", "POST", "lm/blocks?downres=true", append([]c20Layer{outer}, inner[2])...)
	bin("ingest-supervoxels", "POST", "lm/ingest-supervoxels", append([]c20Layer{outer}, in...)...)
	if thorough {
		// a block whose sub-blocks hold 5 and 3 labels (3 and 2 bits per voxel, values padded to whole bytes per sub-block)
		dense := []c20Blk{{Coord: [3]int32{0, 1, 0}, Vox: c20Cube(16, func(x, y, z int) uint64 {
			if x < 8 && y < 8 && z < 8 {
				return uint64(20 + (x+y+z)%5)
			}
			if x >= 8 && y >= 8 {
				return uint64(30 + (x*y+z)%3)
			}
			return 1
		})}}
		if err := c20CheckBlock(dense[0].Vox, 16); err != nil {
			panic("c20: block encoder self-test: " + err.Error())
		}
		dOuter, dInner := c20BlockStream(dense, 16)
		bin("post-blocks-dense", "POST", "lm/blocks", dOuter, dInner[0])
		bin("ingest-supervoxels-dense", "POST", "lm/ingest-supervoxels", dOuter, dInner[0])
		bin("post-blocks-scale1", "POST", "lm/blocks?scale=1", outer, inner[0])
		bin("post-blocks-noindexing", "POST", "lm/blocks?noindexing=true", outer, inner[0])
		bin("ingest-supervoxels-scale1", "POST", "lm/ingest-supervoxels?scale=1", outer, inner[0])
	}

	// raw volumes: one block of 16^3 voxels, 8 bytes per voxel
	rawVox := c20U64Bytes(blocks[0].Vox)
	raw := c20Layer{Data: rawVox, Bounds: []int{8 * 16, 8 * 16 * 16}, Headerless: true}
	bin("post-raw", "POST", "lm/raw/0_1_2/16_16_16/0_0_0", raw)
	bin("post-raw-mutate", "POST", "lm/raw/0_1_2/16_16_16/0_0_0?mutate=true", raw)
	gz := c20Gzip(rawVox)
	bin("post-raw-gzip", "POST", "lm/raw/0_1_2/16_16_16/0_0_0?compression=gzip", c20Layer{Data: gz},
		c20Layer{Name: "inner", Data: rawVox[:2048], Headerless: true, Wrap: func(m []byte) []byte { return c20Gzip(append(append([]byte{}, m...), rawVox[2048:]...)) }})
	lz := c20LZ4(rawVox)
	bin("post-raw-lz4", "POST", "lm/raw/0_1_2/16_16_16/0_0_0?compression=lz4", c20Layer{Data: lz},
		c20Layer{Name: "inner", Data: rawVox[len(rawVox)-512:], Headerless: true, Wrap: func(m []byte) []byte { return c20LZ4(append(append([]byte{}, rawVox[:len(rawVox)-512]...), m...)) }})

	// sparse volumes
	bin("split-supervoxel", "POST", "lm/split-supervoxel/2", c20RLE([]lmRun{{16, 0, 0, 8}, {16, 1, 0, 8}, {18, 2, 1, 3}}))
	bin("split", "POST", "lm/split/3", c20RLE([]lmRun{{16, 16, 0, 8}, {16, 17, 0, 8}}))

	// protobuf
	idx2 := c20LabelIndex(2, []c20IdxBlock{{1, 0, 0, [][2]uint64{{2, 4096}}}})
	bin("post-index", "POST", "lm/index/2", idx2.layer())
	idx1 := c20LabelIndex(1, []c20IdxBlock{{0, 0, 0, [][2]uint64{{1, 4032}, {4, 64}}}, {0, 1, 0, [][2]uint64{{1, 4096}}}})
	bin("post-indices", "POST", "lm/indices", c20LabelIndices(idx1, c20LabelIndex(2, []c20IdxBlock{{1, 0, 0, [][2]uint64{{2, 4096}}}})).layer())
	bin("post-mappings", "POST", "lm/mappings", c20MappingOps([][]uint64{{7, 1, 3}, {8, 2, 300, 301}}).layer())

	// JSON
	js("merge", "POST", "lm/merge", "[2,3]")
	js("cleave", "POST", "lm/cleave/1", "[4]")
	js("renumber", "POST", "lm/renumber", "[100,3]")
	js("post-extents", "POST", "lm/extents", `{"MinPoint":[0,0,0],"MaxPoint":[63,63,63]}`)
	js("post-resolution", "POST", "lm/resolution", `[4.0,4.0,8.0]`)
	js("post-tags", "POST", "lm/tags", `{"a":"b"}`)
	js("get-labels", "GET", "lm/labels", `[[1,1,1],[20,4,4]]`)
	js("get-mapping", "GET", "lm/mapping", `[1,4,77]`)
	js("get-sizes", "GET", "lm/sizes", `[1,2,77]`)
	js("get-indices", "GET", "lm/indices", `[1,2,77]`)
	if thorough {
		js("post-info", "POST", "lm/info", `{"VoxelSize":"8,8,8","VoxelUnits":"nanometers","MaxDownresLevel":"2"}`)
		js("get-indices-compressed", "GET", "lm/indices-compressed", `[1,2,77]`)
	}

	// hostile URLs
	url := func(name, method, tmpl string, body []byte) {
		ps := c20ParseTemplate(tmpl)
		add(&c20EP{Name: name, Method: method, Path: c20Instantiate(tmpl, ps, -1, ""), Body: body, URL: tmpl, NoSeedCheck: true})
	}
	url("get-raw", "GET", "lm/raw/0_1_2/{size:16_16_16}/{offset:0_0_0}?scale={scale:0}", nil)
	url("get-raw-2d", "GET", "lm/raw/{dims:0_1}/{size:16_16}/{offset:0_0_2}", nil)
	url("get-isotropic-2d", "GET", "lm/isotropic/0_1/{size:16_16}/{offset:0_0_2}", nil)
	url("get-pseudocolor", "GET", "lm/pseudocolor/0_1/{size:16_16}/{offset:0_0_2}", nil)
	url("url-post-raw", "POST", "lm/raw/0_1_2/{size:16_16_16}/{offset:0_0_0}", rawVox)
	url("url-post-raw-lz4", "POST", "lm/raw/0_1_2/{size:16_16_16}/{offset:0_0_0}?compression=lz4", lz)
	url("get-blocks", "GET", "lm/blocks/{size:16_16_16}/{offset:0_0_0}?scale={scale:0}", nil)
	url("get-blocks-uncompressed", "GET", "lm/blocks/{size:16_16_16}/{offset:0_0_0}?compression=uncompressed&supervoxels=true", nil)
	url("get-specificblocks", "GET", "lm/specificblocks?blocks={blocks:0,0,0,1,0,0}&scale={scale:0}", nil)
	url("get-label", "GET", "lm/label/{coord:1_1_1}?scale={scale:0}", nil)
	url("get-sparsevol", "GET", "lm/sparsevol/{label:1}?minx={minx:0}&maxx={maxx:20}&minz={minz:0}&scale={scale:0}", nil)
	url("get-sparsevol-format", "GET", "lm/sparsevol/{label:1}?format={format:blocks}&compression={compression:lz4}", nil)
	url("head-sparsevol", "HEAD", "lm/sparsevol/{label:1}", nil)
	url("get-sparsevol-size", "GET", "lm/sparsevol-size/{label:1}", nil)
	url("get-sparsevol-coarse", "GET", "lm/sparsevol-coarse/{label:1}?minx={minx:0}", nil)
	url("get-sparsevols-coarse", "GET", "lm/sparsevols-coarse/{start:1}/{end:3}", nil)
	url("get-sparsevol-by-point", "GET", "lm/sparsevol-by-point/{coord:1_1_1}", nil)
	url("get-supervoxels", "GET", "lm/supervoxels/{label:1}", nil)
	url("get-supervoxel-sizes", "GET", "lm/supervoxel-sizes/{label:1}", nil)
	url("get-size", "GET", "lm/size/{label:1}?supervoxels={sv:false}", nil)
	url("get-lastmod", "GET", "lm/lastmod/{label:1}", nil)
	url("get-index", "GET", "lm/index/{label:1}?mutid={mutid:0}", nil)
	url("get-index-metadata", "GET", "lm/index/{label:1}?metadata-only=true", nil)
	url("get-proximity", "GET", "lm/proximity/{a:1},{b:2}", nil)
	url("get-mutations-range", "GET", "lm/mutations-range/{beg:UUID0}/{end:UUID0}", nil)
	url("get-history", "GET", "lm/history/{label:1}/{from:UUID0}/{to:UUID0}", nil)
	url("get-listlabels", "GET", "lm/listlabels?start={start:0}&number={number:10}&sizes={sizes:false}", nil)
	url("get-mappings", "GET", "lm/mappings?format={format:binary}", nil)
	url("post-maxlabel", "POST", "lm/maxlabel/{n:6000000}", nil)
	url("post-nextlabel", "POST", "lm/nextlabel/{n:2}", nil)
	url("post-set-nextlabel", "POST", "lm/set-nextlabel/{n:7000000}", nil)
	url("url-cleave", "POST", "lm/cleave/{label:1}", []byte("[4]"))
	url("url-split-supervoxel", "POST", "lm/split-supervoxel/{sv:2}?split={split:600}&remain={remain:601}", c20RLE([]lmRun{{16, 0, 0, 8}}).Data)
	url("url-split", "POST", "lm/split/{label:3}", c20RLE([]lmRun{{16, 16, 0, 8}}).Data)
	url("url-post-index", "POST", "lm/index/{label:2}", idx2.layer().Data)
	url("url-post-blocks", "POST", "lm/blocks?scale={scale:0}&downres={downres:false}", outer.Data)
	if thorough {
		url("get-raw-options", "GET", "lm/raw/0_1_2/16_16_16/0_0_0?compression={compression:lz4}&roi={roi:nosuchroi}&supervoxels={sv:true}&throttle={throttle:true}", nil)
		url("get-raw-2d-format", "GET", "lm/raw/0_1/16_16/0_0_2/{format:jpg:80}?scale={scale:1}", nil)
		url("get-sparsevol-bounds", "GET", "lm/sparsevol/1?miny={miny:0}&maxy={maxy:20}&maxz={maxz:8}&exact={exact:false}&supervoxels={sv:true}", nil)
		url("get-sparsevol-coarse-bounds", "GET", "lm/sparsevol-coarse/1?maxx={maxx:20}&miny={miny:0}&supervoxels={sv:true}", nil)
		url("get-mutations", "GET", "lm/mutations?userid={userid:x}", nil)
		url("url-ingest-supervoxels", "POST", "lm/ingest-supervoxels?scale={scale:0}", outer.Data)
		url("url-post-raw-roi", "POST", "lm/raw/0_1_2/16_16_16/0_0_0?roi={roi:nosuchroi}&mutate={mutate:true}&throttle={throttle:true}", rawVox)
		url("url-merge-cleave-ids", "POST", "lm/cleave/1?cleavelabel={cl:8000000}", []byte("[4]"))
	}
	return eps
}
