package checks

// C20 No request can crash the server; malformed ones are rejected harmlessly.
//
// Model checking by exhaustive enumeration of explicitly defined, finite request spaces against the real server stack
// (router, middleware, datatype handlers, Badger store), in worker subprocesses with an address-space limit:
//   binary   for every ingestion endpoint with a binary body a valid seed payload built by an encoder that knows the offset of
//            every header / count / length / index field; the grammar (c20mut.go) applies every truncation length of the
//            stated set, every single-bit flip of the first 64 bytes and of every known field, byte := 00/FF/7F/80 at every
//            byte of a known field, every count / length field := {0,1,n-1,n+1,2n,2^16,2^31-1,2^31,2^32-1[,2^32,2^63-1,2^63,
//            2^64-1]}, every index field := {table size, +1, 2^32-1}; compressed payloads are mutated both outside and inside
//            (inner bytes mutated, then re-compressed and re-framed);
//   json     for every endpoint with a JSON body: every node of the seed document replaced by each of 25 literals (wrong type,
//            boundary numbers, degenerate containers), deleted, given twice; strings and arrays get extra variants; body-level
//            mutations (empty, trailing garbage, BOM, wrapped, nesting 5000 / 10001 deep) and every truncation;
//   url      for every endpoint with numeric / coordinate / label / key parameters in path or query: each parameter := each
//            value of the hostile list (whole value, and for a_b_c coordinates also first / last / all components);
//   method   every endpoint's seed request under each of the other methods of {GET, POST, PUT, DELETE, HEAD, PATCH, OPTIONS};
//   wellformed  fixed request lists re-issued from the workloads of the other properties.
// After every request: goroutine-level quiescence, then the probe set (sentinel reads in the same and in a neighbouring
// instance must answer exactly as before, one valid write must be accepted). A world whose target data changed is rebuilt
// before the next case, so every case runs against the pristine world.
//
// Oracle: (1) the worker process must not die (a panic outside the HTTP recovery middleware, a fatal runtime error, or an
// allocation beyond the 8 GiB address-space limit); (2) the request and every later request must return: "wedged" means that
// a request has not returned while no goroutine of the process is running, runnable, in a system call or sleeping in DVID
// code, for 400 consecutive identical snapshots - never a timeout (a request that is merely slow is given up and capped);
// (3) no answer is the recovery middleware's "Panic detected on request" 500 - for well-formed and for malformed requests
// alike (a malformed request must be answered with a client error); (4) sentinel data reads back as before.
// Accepted: 2xx on a mutated payload (the mutation may be another valid payload), any 4xx, 503, and a 5xx that is not a
// recovered panic (counted in the evidence).
//
// Violation keys: <datatype>:<endpoint>:<mutation class>:<failure kind>, failure kind one of terminates-server,
// exhausts-memory, wedges-server, panic-500, later-request-fails, later-request-panics, other-data-changed,
// neighbour-data-changed. Every reported key was reproduced 3 times out of 3 in fresh server processes by the single request
// named in the replay.

import (
	"encoding/base64"
	"encoding/json"
	"fmt"
	"os"
	"path/filepath"
	"sort"
	"strings"
	"time"

	"verif/vlib"
)

func init() {
	vlib.Register("C20", "model_checking", runC20)
	vlib.Workers["c20"] = c20WorkerMain
}

const c20JobSize = 80

type c20Cand struct {
	suite  *c20Suite
	idx    int
	kind   string
	detail string
	from   int // start of the job in which it was seen (for prefix replays)
	count  int
}

func c20ReadMark(scratch string, id int) (c20Mark, bool) {
	var m c20Mark
	b, err := os.ReadFile(filepath.Join(scratch, fmt.Sprintf("job-%d.mark", id)))
	if err != nil || json.Unmarshal(b, &m) != nil {
		return m, false
	}
	return m, true
}

// c20DeathKind classifies the stderr of a worker that died on its own.
func c20DeathKind(stderr string) (kind, line string) {
	for _, ln := range strings.Split(stderr, "\n") {
		if strings.HasPrefix(ln, "fatal error:") || strings.HasPrefix(ln, "panic:") || strings.HasPrefix(ln, "runtime: out of memory") || strings.Contains(ln, "cannot allocate memory") {
			if strings.Contains(ln, "out of memory") || strings.Contains(ln, "cannot allocate memory") {
				return "exhausts-memory", ln
			}
			if line == "" {
				line = ln
			}
		}
	}
	if line == "" {
		line = c20Trim(stderr, 200)
	}
	return "terminates-server", line
}

func c20ReplayOf(s *c20Suite, idx int) map[string]interface{} {
	cs := s.cases()[idx]
	r := map[string]interface{}{"suite": s.Name(), "idx": idx, "method": cs.Method, "path": "node/<uuid>/" + cs.Path, "mutation": cs.Desc, "world": s.World}
	if len(cs.Body) <= 4096 {
		r["body_base64"] = base64.StdEncoding.EncodeToString(cs.Body)
		if len(cs.Body) <= 300 {
			r["body"] = fmt.Sprintf("%q", cs.Body)
		}
	} else {
		r["body_bytes"] = len(cs.Body)
	}
	return r
}

// c20Single runs the cases [from,to) of a suite in one fresh worker process; returns the answer (if the worker survived),
// or the marker and stderr (if it did not).
func c20Single(scratch string, id int, s *c20Suite, from, to int, tier string) (ans *c20Answer, mark c20Mark, died bool, stderr string) {
	os.Remove(filepath.Join(scratch, fmt.Sprintf("job-%d.mark", id)))
	jb, _ := json.Marshal(c20Job{ID: id, Suite: s.Name(), From: from, To: to, Tier: tier})
	rr := vlib.RunWorker("c20", nil, strings.NewReader(string(jb)+"\n"), "C20_SCRATCH="+scratch)
	if ln := rr.LastLineWith(vlib.AnswerPrefix); ln != "" {
		var a c20Answer
		if json.Unmarshal([]byte(strings.TrimPrefix(ln, vlib.AnswerPrefix)), &a) == nil {
			return &a, mark, false, rr.Stderr
		}
	}
	mark, _ = c20ReadMark(scratch, id)
	return nil, mark, true, rr.Stderr
}

func runC20(c *vlib.Ctx) {
	tier := c.Tier
	cat := c20GetCatalogue(c.Thorough())
	scratch, err := mkTemp("c20")
	if err != nil {
		c.Violate("harness:tmpdir", err.Error(), nil)
		return
	}
	defer rmAll(scratch)
	vlib.JobTimeout = 240 * time.Second
	if c.Thorough() {
		c20SlowLimit = 30 * time.Second
		vlib.JobTimeout = 600 * time.Second
	}

	if c.ReplayFile != "" {
		c20Replay(c, cat, scratch)
		return
	}
	only := getenv("C20_ONLY") // development aid: substring filter on suite names
	if rg := getenv("C20_RANGE"); rg != "" && only != "" {
		// development aid: run cases [from,to) of one suite in one fresh worker and print what happened
		var from, to int
		fmt.Sscanf(rg, "%d:%d", &from, &to)
		s := cat.suite(only)
		if s == nil {
			fmt.Println("no such suite")
			return
		}
		for i := from; i < to && i < len(s.cases()); i++ {
			cs := s.cases()[i]
			fmt.Printf("case %d: %s %s (%s) body %s\n", i, cs.Method, c20Trim(cs.Path, 200), cs.Desc, c20Short(cs.Body, 80))
		}
		ans, mark, died, stderr := c20Single(scratch, 1, s, from, to, tier)
		if died {
			fmt.Printf("DIED mark=%+v\nstderr: %s\n", mark, tail(stderr, 6000))
		} else {
			b, _ := json.MarshalIndent(ans, "", " ")
			fmt.Printf("%s\n", b)
			for _, ln := range strings.Split(stderr, "\n") {
				if strings.HasPrefix(ln, "PROF") {
					fmt.Println(ln)
				}
			}
			if i := strings.Index(stderr, "Stack trace"); i >= 0 {
				fmt.Printf("stderr: %s\n", c20Trim(stderr[i:], 5000))
			}
		}
		return
	}

	type jobInfo struct {
		job c20Job
		s   *c20Suite
	}
	var jobs []jobInfo
	id := 0
	total := 0
	suites := cat.all()
	for _, s := range suites {
		if only != "" && !strings.Contains(s.Name(), only) {
			continue
		}
		n := len(s.cases())
		total += n
		for from := 0; from < n; from += c20JobSize {
			to := from + c20JobSize
			if to > n {
				to = n
			}
			jobs = append(jobs, jobInfo{c20Job{ID: id, Suite: s.Name(), From: from, To: to, Tier: tier}, s})
			id++
		}
	}
	// long jobs first, so that the pool ends evenly
	// hostile-URL jobs first (they hold the requests that run into the slow limit), then long jobs
	sort.SliceStable(jobs, func(i, j int) bool {
		ui, uj := strings.HasPrefix(jobs[i].s.Class, "url-"), strings.HasPrefix(jobs[j].s.Class, "url-")
		if ui != uj {
			return ui
		}
		return jobs[i].job.To-jobs[i].job.From > jobs[j].job.To-jobs[j].job.From
	})

	perEndpoint := map[string]int{}
	perClass := map[string]int{}
	codes := map[string]int{}
	plain500 := map[string]int{}
	var cands []*c20Cand
	candBy := map[string]*c20Cand{}
	addCand := func(s *c20Suite, idx int, kind, detail string, from, count int) {
		k := s.Name() + ":" + kind
		if cd, ok := candBy[k]; ok {
			cd.count += count
			if idx < cd.idx {
				cd.idx, cd.detail, cd.from = idx, detail, from
			}
			return
		}
		cd := &c20Cand{suite: s, idx: idx, kind: kind, detail: detail, from: from, count: count}
		candBy[k] = cd
		cands = append(cands, cd)
	}
	deaths := map[string]int{}
	millis := map[string]int64{}
	requests, rebuilds, executed := 0, 0, 0
	classFamily := func(cl string) string {
		if i := strings.IndexAny(cl, "-"); i > 0 && (strings.HasPrefix(cl, "set-") || strings.HasPrefix(cl, "index-") || strings.HasPrefix(cl, "url-") || strings.HasPrefix(cl, "inner-")) {
			if strings.HasPrefix(cl, "inner-") {
				return "inner-" + strings.SplitN(cl[6:], "-", 2)[0]
			}
			return cl[:i]
		}
		return cl
	}

	jobBy := map[int]jobInfo{}
	lines := make([]string, len(jobs))
	for i, j := range jobs {
		b, _ := json.Marshal(j.job)
		lines[i] = string(b)
		jobBy[j.job.ID] = j
	}
	c20RunPool(16, lines, []string{"C20_SCRATCH=" + scratch}, func(line string, r vlib.PoolResult) (next []string) {
		var jj c20Job
		json.Unmarshal([]byte(line), &jj)
		j := jobBy[jj.ID]
		func() {
			s := j.s
			if !r.Died {
				var a c20Answer
				if err := json.Unmarshal([]byte(r.Out), &a); err != nil || a.Err != "" {
					c.Violate("harness:job:"+s.Name(), fmt.Sprintf("job %+v: %v %s %s", j.job, err, a.Err, c20Trim(r.Out, 300)), nil)
					return
				}
				millis[s.Name()] += a.Millis
				executed += a.N
				requests += a.Requests
				rebuilds += a.Rebuilds
				perEndpoint[s.DT+":"+s.Endpoint] += a.N
				perClass[classFamily(s.Class)] += a.N
				for k, v := range a.Codes {
					codes[k] += v
					c.Outcome(s.DT + ":" + s.Endpoint + ":" + classFamily(s.Class) + ":" + k)
				}
				if len(a.Plain500) > 0 {
					plain500[s.Name()] += len(a.Plain500)
					for _, smp := range a.Samples {
						c.Sample("non-panic 5xx: " + smp)
					}
				}
				for _, f := range a.Findings {
					addCand(s, f.Idx, f.Kind, f.Detail, j.job.From, f.Count)
				}
				return
			}
			// the worker process ended while working on this job
			mark, ok := c20ReadMark(scratch, j.job.ID)
			if r.TimedOut {
				c.Cap(fmt.Sprintf("watchdog: job %+v exceeded %v (case %d, phase %s); the rest of the job was not run", j.job, vlib.JobTimeout, mark.Idx, mark.Phase))
				return
			}
			if !ok {
				c.Violate("harness:worker-died-before-first-case", fmt.Sprintf("job %+v: %s", j.job, tail(r.Stderr, 1500)), nil)
				return
			}
			ran := mark.Idx - j.job.From + 1
			if mark.Phase == "build" {
				ran--
			}
			executed += ran
			perEndpoint[s.DT+":"+s.Endpoint] += ran
			perClass[classFamily(s.Class)] += ran
			switch mark.Kind {
			case "slow":
				cs := s.cases()[mark.Idx]
				c.Cap(fmt.Sprintf("%s case %d (%s %s; %s) was still running after %v in phase %s and was given up (not a verdict): %s", s.Name(), mark.Idx, cs.Method, c20Trim(cs.Path, 120), cs.Desc, c20SlowLimit, mark.Phase, c20Trim(mark.Detail, 500)))
			case "wedged":
				addCand(s, mark.Idx, "wedges-server", fmt.Sprintf("phase %s: %s", mark.Phase, c20Trim(mark.Detail, 1500)), j.job.From, 1)
			case "stuck-background":
				addCand(s, mark.Idx, "leaves-blocked-goroutines", fmt.Sprintf("phase %s: %s", mark.Phase, c20Trim(mark.Detail, 1500)), j.job.From, 1)
			default:
				kind, line := c20DeathKind(r.Stderr)
				if mark.Phase == "build" && mark.Idx > j.job.From {
					// the world was being rebuilt after case Idx-1: background work of that case may have outlived the
					// quiescence check; the confirmation step decides whether that single request kills a fresh server
					addCand(s, mark.Idx-1, kind, fmt.Sprintf("while the next world was being built: %s | %s", line, tail(r.Stderr, 1200)), j.job.From, 1)
					mark.Idx--
				} else if mark.Phase == "build" {
					c.Violate("harness:dies-while-building-world:"+s.World, fmt.Sprintf("job %+v case %d: %s | %s", j.job, mark.Idx, line, tail(r.Stderr, 1500)), nil)
					return
				}
				if mark.Phase != "build" {
					addCand(s, mark.Idx, kind, fmt.Sprintf("phase %s: %s | %s", mark.Phase, line, tail(r.Stderr, 1200)), j.job.From, 1)
				}
			}
			deaths[s.Name()]++
			if mark.Idx+1 < j.job.To {
				if deaths[s.Name()] >= 40 {
					c.Cap(fmt.Sprintf("%s: the server process was lost %d times; cases %d..%d of this job were not run", s.Name(), deaths[s.Name()], mark.Idx+1, j.job.To-1))
					return
				}
				nj := j
				nj.job.From = mark.Idx + 1
				nj.job.ID = id
				id++
				jobBy[nj.job.ID] = nj
				b, _ := json.Marshal(nj.job)
				next = append(next, string(b))
			}
		}()
		return next
	})

	// confirmation: every candidate class must reproduce 3/3 from a fresh server by its single request
	sort.SliceStable(cands, func(i, j int) bool { return cands[i].suite.Name()+cands[i].kind < cands[j].suite.Name()+cands[j].kind })
	confirmed := make([]int, len(cands))
	how := make([]string, len(cands))
	vlib.Par(len(cands), 8, func(i int) {
		cd := cands[i]
		if cd.kind == "seed-refused" {
			confirmed[i] = 3
			return
		}
		try := func(from int) int {
			okN := 0
			for k := 0; k < 3; k++ {
				ans, mark, died, stderr := c20Single(scratch, 1000000+i*10+k, cd.suite, from, cd.idx+1, tier)
				got := ""
				if died {
					switch mark.Kind {
					case "wedged":
						got = "wedges-server"
					case "stuck-background":
						got = "leaves-blocked-goroutines"
					case "slow":
						got = "slow"
					default:
						if mark.Idx == cd.idx && mark.Phase != "build" {
							got, _ = c20DeathKind(stderr)
						}
					}
				} else if ans != nil {
					for _, f := range ans.Findings {
						if f.Kind == cd.kind && f.Idx == cd.idx {
							got = f.Kind
						}
					}
				}
				if got == cd.kind {
					okN++
				} else {
					break
				}
			}
			return okN
		}
		confirmed[i] = try(cd.idx)
		how[i] = "the single request on a fresh server"
		// memory exhaustion must be the doing of the single request (earlier requests' garbage is not the server's fault)
		if confirmed[i] < 3 && cd.from < cd.idx && cd.kind != "exhausts-memory" {
			confirmed[i] = try(cd.from)
			how[i] = fmt.Sprintf("the requests %d..%d of the suite on a fresh server", cd.from, cd.idx)
		}
	})
	var allKeys []string
	for i, cd := range cands {
		s := cd.suite
		key := s.Name() + ":" + cd.kind
		if cd.kind == "seed-refused" {
			c.Violate("harness:seed-refused:"+s.DT+":"+s.Endpoint, "the valid seed request is refused on the pristine world: "+cd.detail, c20ReplayOf(s, cd.idx))
			continue
		}
		if confirmed[i] < 3 {
			c.Cap(fmt.Sprintf("%s seen %d time(s) (first at case %d) but reproduced only %d/3 from a fresh server; not reported: %s", key, cd.count, cd.idx, confirmed[i], c20Trim(cd.detail, 300)))
			continue
		}
		if cd.kind == "leaves-blocked-goroutines" {
			// goroutines blocked for ever after the request returned; later requests were still served: recorded, not a violation
			c.Sample(fmt.Sprintf("%s: background goroutines stay blocked for ever: %s", key, c20Trim(cd.detail, 400)))
			c.Add("blocked_goroutine_leaks", 1)
			continue
		}
		cs := s.cases()[cd.idx]
		wf := "malformed"
		if s.WellFormed {
			wf = "well-formed"
		}
		what := fmt.Sprintf("%s request %s %s (%s): %s; %d case(s) of this class; reproduced 3/3 by %s. %s", wf, cs.Method, c20Trim(cs.Path, 160), cs.Desc, cd.kind, cd.count, how[i], cd.detail)
		rp := c20ReplayOf(s, cd.idx)
		rp["reproduce"] = how[i]
		c.Violate(key, what, rp)
		allKeys = append(allKeys, key+" | "+c20Trim(fmt.Sprintf("%s %s (%s) | %s", cs.Method, c20Trim(cs.Path, 100), cs.Desc, cd.detail), 420))
	}
	if len(allKeys) > 0 {
		c.Set("violation_keys_this_run", allKeys)
	}

	c.Eval(int64(executed))
	c.NontrivialDistinct(int64(executed))
	c.Set("rule", "binary: truncation lengths {all if len<=256; else 0..63, every 16th, +-1 around every structural boundary and field edge, len-1, len-2}; single-bit flips of bytes 0..63 and of every known field; byte:=00/FF/7F/80 at every byte of a known field; count/len fields := {0,1,n-1,n+1,2n,2^16,2^31-1,2^31,2^32-1 (+2^32,2^63-1,2^63,2^64-1 for 64-bit/varint)}; index fields := {size,size+1,2^32-1,max}; compressed payloads mutated outside and inside; quick tier only: layers that are plain voxel arrays without any header or count (raw volumes, raw blocks) get bit flips of bytes 0..7 and truncation at every 256th byte instead of bytes 0..63 / every 16th. json: every node := each of "+fmt.Sprint(len(c20JSONReplacements))+" literals, deleted, duplicated; string/array variants; body-level list; every truncation. url: every parameter := each of "+fmt.Sprint(len(c20HostileScalars))+" hostile scalars (coordinates: whole/first/last/all components + 6 shapes; keys, version and instance names: +"+fmt.Sprint(len(c20HostileKeys))+" strings). method: each endpoint seed under the 6 other HTTP methods. Each case runs on a pristine world and is followed by quiescence and the probe set.")
	c.Set("suites", len(suites))
	c.Set("cases_total", total)
	c.Set("states", rebuilds)
	c.Set("transitions", requests)
	c.Set("requests_per_endpoint", perEndpoint)
	c.Set("requests_per_mutation_class", perClass)
	c.Set("response_codes", codes)
	{
		var names []string
		for n := range millis {
			names = append(names, n)
		}
		sort.Slice(names, func(i, j int) bool { return millis[names[i]] > millis[names[j]] })
		var top []string
		for i := 0; i < len(names) && i < 25; i++ {
			top = append(top, fmt.Sprintf("%s %dms/%d cases", names[i], millis[names[i]], len(cat.suite(names[i]).cases())))
		}
		c.Set("slowest_suites", top)
	}
	if len(plain500) > 0 {
		c.Set("non_panic_5xx_per_suite", plain500)
	}
	c.Set("worker_address_space_limit_bytes", int64(c20AddressSpace))
	c.Assume("a worker's 8 GiB address-space limit stands for a finite machine: a request that makes the server ask for more memory than that ends the process and is counted as terminating the server (server.MaxDataRequest is 3 GB, so no accepted request legitimately needs more)")
	c.Assume("a 5xx answer that is not the recovery middleware's 'Panic detected on request' body is accepted for malformed requests (the statement's 'client error' is read as 'rejected without a panic'); such answers are counted under non_panic_5xx_per_suite")
	c.Assume("a 2xx answer to a mutated payload is accepted: the mutation may be another valid payload")
	c.Assume("wedged = a request has not returned while every goroutine of the process is parked on a lock or channel (none running, runnable, in a system call, or sleeping in DVID code) in 400 consecutive identical snapshots; DVID's request paths contain no timer-based wake-ups (time.After / timers occur only in housekeeping loops)")
	c.Assume("sentinel coordinates (block 37,41,43), labels (0x5A5A5A, 0x5A5A5B, 0x3C3C3C) and keys are chosen so that no value of the grammar names them; ROI POST replaces the whole ROI, so ROI sentinels live only in the neighbouring instance")
	if executed != total && only == "" {
		c.Cap(fmt.Sprintf("%d of %d cases executed", executed, total))
	}
}

func c20Replay(c *vlib.Ctx, cat *c20Catalogue, scratch string) {
	b, err := os.ReadFile(c.ReplayFile)
	if err != nil {
		c.Violate("harness:replay", err.Error(), nil)
		return
	}
	var v struct {
		Key    string `json:"key"`
		Replay struct {
			Suite string `json:"suite"`
			Idx   int    `json:"idx"`
		} `json:"replay"`
	}
	if err := json.Unmarshal(b, &v); err != nil {
		c.Violate("harness:replay", err.Error(), nil)
		return
	}
	s := cat.suite(v.Replay.Suite)
	if s == nil || v.Replay.Idx >= len(s.cases()) {
		c.Violate("harness:replay", "unknown suite or case "+v.Replay.Suite, nil)
		return
	}
	ans, mark, died, stderr := c20Single(scratch, 1, s, v.Replay.Idx, v.Replay.Idx+1, c.Tier)
	c.Eval(1)
	if died {
		kind, line := c20DeathKind(stderr)
		if mark.Kind == "wedged" {
			kind, line = "wedges-server", mark.Detail
		}
		if mark.Kind == "slow" {
			c.Cap("replayed request was given up as slow")
			return
		}
		c.Violate(s.Name()+":"+kind, fmt.Sprintf("phase %s: %s", mark.Phase, c20Trim(line, 1200)), c20ReplayOf(s, v.Replay.Idx))
		return
	}
	for _, f := range ans.Findings {
		c.Violate(s.Name()+":"+f.Kind, f.Detail, c20ReplayOf(s, v.Replay.Idx))
	}
	fmt.Printf("replay %s case %d: codes %v\n", s.Name(), v.Replay.Idx, ans.Codes)
}
