package checks

import (
	"os"

	"verif/vlib"
	"verif/vsrv"
)

// bootTemp boots the in-process server on a scratch directory (tmpfs when available). The returned cleanup removes
// the directory; the stores are deliberately not closed (asynchronous instance deletions started by repo deletion
// may still be running, and the process is about to exit anyway).
func bootTemp(c *vlib.Ctx, o vsrv.Options) (cleanup func(), ok bool) {
	dir, err := vlib.MkScratch(c.ID)
	if err != nil {
		c.Violate("harness:tmpdir", err.Error(), nil)
		return func() {}, false
	}
	if err := vsrv.Boot(dir, o); err != nil {
		os.RemoveAll(dir)
		c.Violate("harness:boot", err.Error(), nil)
		return func() {}, false
	}
	return func() { os.RemoveAll(dir) }, true
}
