package checks

// C03 A restart changes nothing observable.
// For every workload and every position between two acknowledged operations, the server process is stopped (cleanly, or
// by abrupt exit while idle) and a new process opens the same directories; its snapshot, and all later snapshots of the
// continued workload, must equal those of the run that never restarted. Thorough: every pair of restart positions.

import (
	"encoding/json"
	"fmt"
	"os"
	"sort"
	"strings"
	"sync/atomic"
	"time"

	"verif/vlib"
)

func init() { vlib.Register("C03", "model_checking", runC03) }

func wlReadSnap(dir, prefix string, i int) map[string]string {
	b, err := os.ReadFile(fmt.Sprintf("%s/%s-%d.json", dir, prefix, i))
	if err != nil {
		return nil
	}
	m := map[string]string{}
	json.Unmarshal(b, &m)
	return m
}

// wlCompClass maps a snapshot component to a structural class (for violation keys).
func wlCompClass(k string) string {
	if strings.HasPrefix(k, "data:") {
		p := strings.SplitN(k, ":", 3)
		inst := strings.SplitN(p[1], "@", 2)[0]
		ep := strings.SplitN(strings.SplitN(p[2], "?", 2)[0], "/", 2)[0]
		return "data:" + inst + ":" + ep
	}
	if strings.HasPrefix(k, "repo:") {
		return "repo-metadata"
	}
	return k
}

func wlDiff(a, b map[string]string) []string {
	var out []string
	keys := map[string]bool{}
	for k := range a {
		keys[k] = true
	}
	for k := range b {
		keys[k] = true
	}
	for k := range keys {
		if a[k] != b[k] {
			out = append(out, k)
		}
	}
	sort.Strings(out)
	return out
}

// wlMetaDiff pinpoints where two repo-metadata JSON strings differ.
func wlShortDiff(a, b string) string {
	i := 0
	for i < len(a) && i < len(b) && a[i] == b[i] {
		i++
	}
	lo := i - 60
	if lo < 0 {
		lo = 0
	}
	return fmt.Sprintf("...%s  ->  ...%s", trunc(a[lo:], 200), trunc(b[lo:], 200))
}

func runC03(c *vlib.Ctx) {
	names := []string{"repo", "kv", "labelmap", "annotation", "neuronjson", "delete", "roi", "imageblk", "sync", "tworepos"}
	ws := wlWorkloads()
	type job struct {
		w     string
		cuts  []int
		modes []string
	}
	var jobs []job
	for _, n := range names {
		nops := len(ws[n].Ops)
		for i := 1; i <= nops; i++ {
			for _, m := range []string{"clean", "abrupt"} {
				jobs = append(jobs, job{n, []int{i}, []string{m}})
			}
		}
		if c.Thorough() {
			for i := 1; i <= nops; i++ {
				for j := i + 1; j <= nops; j++ {
					jobs = append(jobs, job{n, []int{i, j}, []string{"abrupt", "clean"}})
				}
			}
		}
	}
	// reference runs
	ref := map[string]string{}
	for _, n := range names {
		d, _ := mkTemp("c03ref")
		ref[n] = d
		defer rmAll(d)
	}
	vlib.Par(len(names), 8, func(i int) {
		n := names[i]
		res := vlib.RunWorker("wlrun", []string{ref[n], n, "0", "9999", "clean", "L"}, nil)
		if res.LastLineWith("DONE") == "" {
			c.Violate("harness:reference-run:"+n, fmt.Sprintf("reference run of workload %s failed: %v %s", n, res.Lines, tail(res.Stderr, 600)), nil)
		}
	})
	var states, transitions int64
	vlib.Par(len(jobs), 16, func(ji int) {
		j := jobs[ji]
		w := ws[j.w]
		nops := len(w.Ops)
		dir, err := mkTemp("c03")
		if err != nil {
			return
		}
		defer rmAll(dir)
		from := 0
		bounds := append(append([]int{}, j.cuts...), nops)
		for seg, to := range bounds {
			exit := "clean"
			if seg < len(j.cuts) {
				exit = j.modes[seg]
			}
			prefix := "nosnap"
			if seg > 0 {
				prefix = fmt.Sprintf("R%d", seg)
			}
			res := vlib.RunWorker("wlrun", []string{dir, j.w, fmt.Sprint(from), fmt.Sprint(to), exit, prefix}, nil)
			rep := map[string]interface{}{"workload": j.w, "restart_after_ops": j.cuts, "modes": j.modes}
			opname := func(i int) string {
				if i <= 0 || i > nops {
					return "start"
				}
				return w.Ops[i-1].Name
			}
			if res.LastLineWith("BOOTFAIL") != "" || res.LastLineWith("BOOTED") == "" {
				c.Violate(fmt.Sprintf("restart:%s:boot-fails:after-%s", j.w, opname(from)), fmt.Sprintf("workload %s: after a %s stop following op #%d (%s) the new process does not start: %s %s", j.w, j.modes[max(seg-1, 0)], from, opname(from), res.LastLineWith("BOOTFAIL"), tail(res.Stderr, 800)), rep)
				return
			}
			if res.LastLineWith("DONE") == "" {
				c.Violate(fmt.Sprintf("restart:%s:run-dies:after-%s", j.w, opname(from)), fmt.Sprintf("workload %s: process running ops [%d,%d) died: %s", j.w, from, to, tail(res.Stderr, 800)), rep)
				return
			}
			atomic.AddInt64(&transitions, int64(to-from))
			if seg > 0 {
				mode := j.modes[seg-1]
				for k := from; k <= to; k++ {
					L := wlReadSnap(ref[j.w], "L", k)
					R := wlReadSnap(dir, prefix, k)
					if L == nil || R == nil {
						continue
					}
					atomic.AddInt64(&states, 1)
					c.Eval(int64(len(L)))
					if d := wlDiff(L, R); len(d) > 0 {
						when := "immediately after the restart"
						if k > from {
							when = fmt.Sprintf("after continuing with %d more ops (last: %s)", k-from, opname(k))
						}
						for _, comp := range d {
							cls := wlCompClass(comp)
							if cls == "repo-metadata" {
								cls += ":" + strings.Join(jsonDiffFields(L[comp], R[comp]), "+")
							}
							c.Violate(fmt.Sprintf("restart:%s:%s:after-%s:%s", j.w, mode, opname(from), cls),
								fmt.Sprintf("workload %s, %s restart after op #%d (%s): %s, %s differs from the run without restart: %s", j.w, mode, from, opname(from), when, comp, wlShortDiff(L[comp], R[comp])), rep)
						}
						// a run that has diverged is not followed further: later differences are consequences of this one
						c.Nontrivial(fmt.Sprintf("%s|%v|%v", j.w, j.cuts, j.modes))
						return
					}
					c.Outcome("same")
				}
			}
			from = to
		}
		c.Nontrivial(fmt.Sprintf("%s|%v|%v", j.w, j.cuts, j.modes))
	})
	// Second enumeration: every repo-level state reachable by the C07 request alphabet (BFS with canonical-state
	// dedupe); after every state-changing request the stored metadata is loaded by the start-up path into a second,
	// read-only manager, which must equal the live one (DAG, flags, notes, logs, instances, branch heads, id maps, id counters).
	rdepth := 5
	if c.Thorough() {
		// depth 6 holds about a million states: expanded in the fixed stride order of c07BFS under a budget; the depth
		// completed and the part of the next level that was expanded are reported as a cap
		rdepth = 6
		c.Deadline = time.Now().Add(25 * time.Minute)
	}
	dstates, dtrans, _, dreloads := c07BFS(c, rdepth, 4, true)
	c.Set("dagreload_states", dstates)
	c.Set("dagreload_transitions", dtrans)
	c.Set("dagreload_reload_comparisons", dreloads)
	c.Set("dagreload_bound", fmt.Sprintf("BFS depth %d over the repo-level request alphabet of C07, states with more than 4 nodes or 2 repos not expanded", rdepth))
	states += dstates
	transitions += dtrans
	c.Set("states", states)
	c.Set("transitions", transitions)
	c.Set("traces_validated_against_impl", int64(len(jobs))+dreloads)
	c.Set("workloads", names)
	c.Sample(map[string]interface{}{"workload": "labelmap", "ops": "newrepo instance ingest merge commit newversion merge cleave split-supervoxel renumber nextlabel rawmutate", "restart": "abrupt exit after cleave, new process, continue", "compared": "repo metadata + every read endpoint of every version, at the restart and after each later op"})
	c.Set("rule", "history = workload prefix; a restart (clean shutdown / abrupt exit while idle) is placed after every operation (thorough: every pair of positions); state = uuid- and time-free snapshot of repo metadata and of every data read endpoint at every version; it must equal the snapshot of the never-restarted run at the restart and after every later operation")
	c.Assume("server statistics and mutation-id counters are excluded from snapshots (documented to differ)")
}

// jsonDiffFields returns the sorted names (last path element) of the leaves at which two JSON documents differ.
func jsonDiffFields(a, b string) []string {
	var x, y interface{}
	if json.Unmarshal([]byte(a), &x) != nil || json.Unmarshal([]byte(b), &y) != nil {
		return []string{"unparsable"}
	}
	set := map[string]bool{}
	var rec func(name string, p, q interface{})
	rec = func(name string, p, q interface{}) {
		pm, ok1 := p.(map[string]interface{})
		qm, ok2 := q.(map[string]interface{})
		if ok1 && ok2 {
			for k := range pm {
				rec(k, pm[k], qm[k])
			}
			for k := range qm {
				if _, ok := pm[k]; !ok {
					rec(k, nil, qm[k])
				}
			}
			return
		}
		pa, ok1 := p.([]interface{})
		qa, ok2 := q.([]interface{})
		if ok1 && ok2 && len(pa) == len(qa) {
			for i := range pa {
				rec(name, pa[i], qa[i])
			}
			return
		}
		pj, _ := json.Marshal(p)
		qj, _ := json.Marshal(q)
		if string(pj) != string(qj) {
			set[name] = true
		}
	}
	rec("root", x, y)
	var out []string
	for k := range set {
		out = append(out, k)
	}
	sort.Strings(out)
	if len(out) > 4 {
		out = append(out[:4], "...")
	}
	return out
}
