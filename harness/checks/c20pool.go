package checks

// C20 pool: vlib.Pool's worker protocol (one job per stdin line, one answer line per job, a watchdog per job) with a queue
// that can grow while the pool runs: when a worker process is lost on a job, the remainder of that job goes back to the
// queue immediately instead of waiting for a next round.

import (
	"bufio"
	"fmt"
	"io"
	"os"
	"os/exec"
	"strings"
	"sync"
	"sync/atomic"
	"syscall"
	"time"

	"verif/vlib"
)

// c20Tail keeps the first 8 KiB (a fatal error names itself before it lists every goroutine) and the last 32 KiB.
type c20Tail struct {
	mu   sync.Mutex
	head []byte
	buf  []byte
}

func (t *c20Tail) Write(p []byte) (int, error) {
	n := len(p)
	t.mu.Lock()
	if k := 8192 - len(t.head); k > 0 {
		if k > len(p) {
			k = len(p)
		}
		t.head = append(t.head, p[:k]...)
		p = p[k:]
	}
	t.buf = append(t.buf, p...)
	if len(t.buf) > 1<<16 {
		t.buf = append([]byte{}, t.buf[len(t.buf)-1<<15:]...)
	}
	t.mu.Unlock()
	return n, nil
}

func (t *c20Tail) String() string {
	t.mu.Lock()
	defer t.mu.Unlock()
	if len(t.buf) == 0 {
		return string(t.head)
	}
	return string(t.head) + "\n...\n" + string(t.buf)
}

// reset forgets what earlier jobs of the same process wrote.
func (t *c20Tail) reset() {
	t.mu.Lock()
	t.head, t.buf = t.head[:0], t.buf[:0]
	t.mu.Unlock()
}

// c20RunPool runs the jobs on n worker processes. handle is called (serialised) with every result and returns jobs to add.
func c20RunPool(n int, initial []string, env []string, handle func(job string, r vlib.PoolResult) []string) {
	var mu sync.Mutex
	cond := sync.NewCond(&mu)
	queue := append([]string{}, initial...)
	inflight := 0
	take := func() (string, bool) {
		mu.Lock()
		defer mu.Unlock()
		for len(queue) == 0 && inflight > 0 {
			cond.Wait()
		}
		if len(queue) == 0 {
			return "", false
		}
		j := queue[0]
		queue = queue[1:]
		inflight++
		return j, true
	}
	var hmu sync.Mutex
	done := func(job string, r vlib.PoolResult) {
		hmu.Lock()
		more := handle(job, r)
		hmu.Unlock()
		mu.Lock()
		queue = append(more, queue...) // remainders first: they belong to the oldest work
		inflight--
		cond.Broadcast()
		mu.Unlock()
	}
	self, _ := os.Executable()
	var extMu sync.Mutex
	extKills := map[string]int{}
	var wg sync.WaitGroup
	for w := 0; w < n; w++ {
		wg.Add(1)
		go func(w int) {
			defer wg.Done()
			for {
				job, ok := take()
				if !ok {
					return
				}
				cmd := exec.Command(self, "worker", "c20")
				cmd.Env = append(append(os.Environ(), fmt.Sprintf("VERIF_WORKER_ID=%d", w)), env...)
				stdin, _ := cmd.StdinPipe()
				stdout, _ := cmd.StdoutPipe()
				errb := &c20Tail{}
				cmd.Stderr = errb
				if err := cmd.Start(); err != nil {
					done(job, vlib.PoolResult{Job: job, Died: true, Stderr: err.Error()})
					continue
				}
				rd := bufio.NewReaderSize(stdout, 1<<20)
				for ok {
					errb.reset()
					io.WriteString(stdin, job+"\n")
					var line string
					var err error
					var timedOut int32
					wd := time.AfterFunc(vlib.JobTimeout, func() {
						atomic.StoreInt32(&timedOut, 1)
						cmd.Process.Signal(syscall.SIGQUIT)
						time.AfterFunc(5*time.Second, func() { cmd.Process.Kill() })
					})
					for {
						line, err = rd.ReadString('\n')
						if err != nil || strings.HasPrefix(line, vlib.AnswerPrefix) {
							line = strings.TrimPrefix(line, vlib.AnswerPrefix)
							break
						}
					}
					wd.Stop()
					if err != nil {
						cmd.Wait()
						to := atomic.LoadInt32(&timedOut) == 1
						stderr := errb.String()
						if vlib.ExternallyKilled(cmd.ProcessState, to, stderr) {
							// the host killed the worker (not a crash of the code under test): the job goes back to the queue, at most twice
							extMu.Lock()
							n := extKills[job]
							extKills[job] = n + 1
							extMu.Unlock()
							if n < 2 {
								time.Sleep(3 * time.Second)
								mu.Lock()
								queue = append([]string{job}, queue...)
								inflight--
								cond.Broadcast()
								mu.Unlock()
								break
							}
							stderr += "\n" + vlib.ExternalKillMarker
						}
						done(job, vlib.PoolResult{Job: job, Died: true, TimedOut: to, Stderr: stderr})
						break
					}
					done(job, vlib.PoolResult{Job: job, Out: strings.TrimRight(line, "\n")})
					job, ok = take()
				}
				stdin.Close()
				if !ok {
					cmd.Wait()
					return
				}
			}
		}(w)
	}
	wg.Wait()
}
