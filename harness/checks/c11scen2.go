package checks

// C11 scenarios, second set: every one uses the sequential-reference oracle (observe): the quiescent outcome of an explored
// interleaving must be an outcome that some sequential order of the same requests produces on the same code.

import (
	"encoding/json"
	"fmt"
	"os"
	"sort"
	"strings"

	pb "google.golang.org/protobuf/proto"

	"github.com/janelia-flyem/dvid/datastore"
	"github.com/janelia-flyem/dvid/datatype/common/proto"
	"github.com/janelia-flyem/dvid/dvid"

	"verif/vsrv"
)

// c11AssignedSeq numbers the caller-assigned uuids of S2k (fresh per execution).
var c11AssignedSeq uint64

func c11MoreScenarios() []c11Scenario {
	var sc []c11Scenario
	codes := func(w *c11World, n int) string {
		var cs []string
		for _, r := range w.resp[:n] {
			cs = append(cs, fmt.Sprint(r.Code))
		}
		return strings.Join(cs, ",")
	}
	body := func(r vsrv.Resp) string { return fmt.Sprintf("%d:%s", r.Code, strings.TrimSpace(string(r.Body))) }

	// S1c: a batch write of two keys against a delete of one of them, in a child version whose parent holds both keys
	sc = append(sc, c11Scenario{name: "S1c:kv:keyvalues-batch||delete", setup: func() (*c11World, error) {
		w, err := c11KVWorld()
		if err != nil {
			return nil, err
		}
		vsrv.PostS("node/"+w.root+"/kv/key/k", "old-k")
		vsrv.PostS("node/"+w.root+"/kv/key/j", "old-j")
		vsrv.Commit(w.root)
		w.nodes["c"], err = vsrv.NewVersion(w.root)
		return w, err
	},
		bodies: func(w *c11World) []func() {
			c := w.nodes["c"]
			batch, _ := pb.Marshal(&proto.KeyValues{Kvs: []*proto.KeyValue{{Key: "j", Value: []byte("new-j")}, {Key: "k", Value: []byte("new-k")}}})
			return []func(){
				func() { w.resp[0] = vsrv.Post("node/"+c+"/kv/keyvalues", batch) },
				func() { w.resp[1] = vsrv.Delete("node/" + c + "/kv/key/k") },
			}
		},
		verdict: func(w *c11World) (bad []string) { return nil },
		observe: func(w *c11World) string {
			c := w.nodes["c"]
			return fmt.Sprintf("codes=%s k=%s j=%s keys=%s root-k=%s", codes(w, 2), body(vsrv.Get("node/"+c+"/kv/key/k")), body(vsrv.Get("node/"+c+"/kv/key/j")),
				body(vsrv.Get("node/"+c+"/kv/keys")), body(vsrv.Get("node/"+w.root+"/kv/key/k")))
		}})

	// S1d: a single-key POST against a DELETE of that key in a child version whose parent holds the key: the child must end with
	// its own value or its own deletion, never with neither (which would let the parent's value show through)
	childWorld := func() (*c11World, error) {
		w, err := c11KVWorld()
		if err != nil {
			return nil, err
		}
		vsrv.PostS("node/"+w.root+"/kv/key/k", "old-k")
		vsrv.Commit(w.root)
		w.nodes["c"], err = vsrv.NewVersion(w.root)
		return w, err
	}
	sc = append(sc, c11Scenario{name: "S1d:kv:post||delete:child-version", setup: childWorld,
		bodies: func(w *c11World) []func() {
			c := w.nodes["c"]
			return []func(){
				func() { w.resp[0] = vsrv.PostS("node/"+c+"/kv/key/k", "new-k") },
				func() { w.resp[1] = vsrv.Delete("node/" + c + "/kv/key/k") },
			}
		},
		verdict: func(w *c11World) (bad []string) { return nil },
		observe: func(w *c11World) string {
			c := w.nodes["c"]
			return fmt.Sprintf("codes=%s k=%s keys=%s root-k=%s", codes(w, 2), body(vsrv.Get("node/"+c+"/kv/key/k")), body(vsrv.Get("node/"+c+"/kv/keys")), body(vsrv.Get("node/"+w.root+"/kv/key/k")))
		}})
	// S1e: the same with the key already deleted in the child (the POST has a tombstone to clear) and a second DELETE
	sc = append(sc, c11Scenario{name: "S1e:kv:post||delete||delete:child-version-with-tombstone", setup: func() (*c11World, error) {
		w, err := childWorld()
		if err == nil {
			vsrv.Delete("node/" + w.nodes["c"] + "/kv/key/k")
		}
		return w, err
	},
		bodies: func(w *c11World) []func() {
			c := w.nodes["c"]
			return []func(){
				func() { w.resp[0] = vsrv.PostS("node/"+c+"/kv/key/k", "new-k") },
				func() { w.resp[1] = vsrv.Delete("node/" + c + "/kv/key/k") },
				func() { w.resp[2] = vsrv.Delete("node/" + c + "/kv/key/k") },
			}
		},
		verdict: func(w *c11World) (bad []string) { return nil },
		observe: func(w *c11World) string {
			c := w.nodes["c"]
			return fmt.Sprintf("codes=%s k=%s keys=%s root-k=%s", codes(w, 3), body(vsrv.Get("node/"+c+"/kv/key/k")), body(vsrv.Get("node/"+c+"/kv/keys")), body(vsrv.Get("node/"+w.root+"/kv/key/k")))
		}})

	dagShape := func(w *c11World) string {
		dump := datastoreDump(w.root)
		var ns []string
		for _, nd := range dump {
			ns = append(ns, fmt.Sprintf("p%d/c%d/%s/locked=%v", nd.parents, nd.children, nd.branch, nd.locked))
		}
		sort.Strings(ns)
		return strings.Join(ns, " ")
	}
	invariants := func(w *c11World) (bad []string) {
		world := &c07World{roots: []string{w.root}}
		for _, iv := range c07Invariants(world.snapshot(), world) {
			bad = append(bad, "dag-"+iv[0]+"\t"+iv[1])
		}
		return
	}
	repoWorld := func() (*c11World, error) {
		root, err := vsrv.NewRepo()
		if err != nil {
			return nil, err
		}
		vsrv.NewInstance(root, "keyvalue", "kv", nil)
		vsrv.Commit(root)
		return &c11World{root: root, nodes: map[string]string{}, resp: make([]vsrv.Resp, 4)}, nil
	}
	// S2e: two commits of one open node
	sc = append(sc, c11Scenario{name: "S2e:repo:commit||commit", setup: func() (*c11World, error) {
		w, err := repoWorld()
		if err == nil {
			w.nodes["c"], err = vsrv.NewVersion(w.root)
		}
		return w, err
	},
		bodies: func(w *c11World) []func() {
			c := w.nodes["c"]
			return []func(){func() { w.resp[0] = vsrv.PostS("node/"+c+"/commit", `{"note":"first"}`) }, func() { w.resp[1] = vsrv.PostS("node/"+c+"/commit", `{"note":"second"}`) }}
		},
		verdict: invariants,
		observe: func(w *c11World) string {
			c := w.nodes["c"]
			cs := []string{fmt.Sprint(w.resp[0].Code), fmt.Sprint(w.resp[1].Code)}
			sort.Strings(cs)
			note := strings.TrimSpace(string(vsrv.Get("node/" + c + "/note").Body))
			// which of the two notes survives depends on the order; that a refused commit leaves its note behind does not
			kept := "none"
			for i, n := range []string{"first", "second"} {
				if strings.Contains(note, n) {
					kept = fmt.Sprintf("note-of-a-%d-request", w.resp[i].Code)
				}
			}
			// the statement speaks about the resulting state: a second commit answered 200 instead of 400 leaves the state
			// a sequential order produces, so the response codes are not part of the observation
			_ = cs
			return fmt.Sprintf("locked=%s note=%s shape=%s", strings.TrimSpace(string(vsrv.Get("node/"+c+"/commit").Body)), kept, dagShape(w))
		}})
	// S2f: merge of two committed branch heads against a new version on one of them
	sc = append(sc, c11Scenario{name: "S2f:repo:merge||newversion-on-parent", setup: func() (*c11World, error) {
		w, err := repoWorld()
		if err != nil {
			return nil, err
		}
		if w.nodes["a"], err = vsrv.NewVersion(w.root); err != nil {
			return nil, err
		}
		if w.nodes["b"], err = vsrv.Branch(w.root, "side"); err != nil {
			return nil, err
		}
		vsrv.Commit(w.nodes["a"])
		vsrv.Commit(w.nodes["b"])
		return w, nil
	},
		bodies: func(w *c11World) []func() {
			a, b := w.nodes["a"], w.nodes["b"]
			return []func(){
				func() {
					w.resp[0] = vsrv.PostS("repo/"+w.root+"/merge", fmt.Sprintf(`{"mergeType":"conflict-free","parents":[%q,%q],"note":"m"}`, a, b))
				},
				func() { w.resp[1] = vsrv.PostS("node/"+a+"/newversion", `{"note":"n"}`) }}
		},
		verdict: invariants,
		observe: func(w *c11World) string { return fmt.Sprintf("codes=%s shape=%s", codes(w, 2), dagShape(w)) }})
	// S2g: two instance creations with one name
	sc = append(sc, c11Scenario{name: "S2g:repo:newinstance||newinstance:same-name", setup: func() (*c11World, error) {
		root, err := vsrv.NewRepo()
		return &c11World{root: root, nodes: map[string]string{}, resp: make([]vsrv.Resp, 4)}, err
	},
		bodies: func(w *c11World) []func() {
			mk := func(i int, typ string) func() {
				return func() {
					w.resp[i] = vsrv.PostS("repo/"+w.root+"/instance", fmt.Sprintf(`{"typename":%q,"dataname":"dup"}`, typ))
				}
			}
			return []func(){mk(0, "keyvalue"), mk(1, "roi")}
		},
		verdict: func(w *c11World) (bad []string) {
			if acked(w.resp[0]) && acked(w.resp[1]) {
				bad = append(bad, "duplicate-name-accepted\ttwo concurrent creations of an instance named dup (keyvalue and roi) were both acknowledged")
			}
			return append(bad, c11PersistedIDs()...)
		},
		observe: func(w *c11World) string {
			// the surviving type must be the acknowledged one
			info := string(vsrv.Get("node/" + w.root + "/dup/info").Body)
			typ := "none"
			for _, t := range []string{"keyvalue", "roi"} {
				if strings.Contains(info, `"TypeName":"`+t+`"`) || strings.Contains(info, `"TypeName": "`+t+`"`) {
					typ = t
				}
			}
			return fmt.Sprintf("codes=%s type=%s", codes(w, 2), typ)
		}})

	// S2k: two new versions in two different repos, both asking for the same caller-assigned uuid. Sequentially the second
	// request is refused; an identifier must never name two nodes.
	sc = append(sc, c11Scenario{name: "S2k:repo:newversion-assigned-uuid||same-uuid-in-other-repo", setup: func() (*c11World, error) {
		w, err := repoWorld()
		if err != nil {
			return nil, err
		}
		r2, err := vsrv.NewRepo()
		if err != nil {
			return nil, err
		}
		vsrv.Commit(r2)
		w.nodes["root2"] = r2
		c11AssignedSeq++
		w.nodes["uuid"] = fmt.Sprintf("c11a%012x%016x", c11AssignedSeq, uint64(os.Getpid()))
		return w, nil
	},
		bodies: func(w *c11World) []func() {
			body := fmt.Sprintf(`{"note":"v","uuid":%q}`, w.nodes["uuid"])
			return []func(){
				func() { w.resp[0] = vsrv.PostS("node/"+w.root+"/newversion", body) },
				func() { w.resp[1] = vsrv.PostS("node/"+w.nodes["root2"]+"/newversion", body) },
			}
		},
		verdict: func(w *c11World) (bad []string) {
			world := &c07World{roots: []string{w.root, w.nodes["root2"]}}
			for _, iv := range c07Invariants(world.snapshot(), world) {
				bad = append(bad, "dag-"+iv[0]+"\t"+iv[1])
			}
			return append(bad, c11PersistedIDs()...)
		},
		observe: func(w *c11World) string {
			n := 0
			for _, r := range datastore.VerifDump(w.root, w.nodes["root2"]).Repos {
				for _, nd := range r.Nodes {
					if nd.UUID == w.nodes["uuid"] {
						n++
					}
				}
			}
			ok := 0
			for _, r := range w.resp[:2] {
				if acked(r) {
					ok++
				}
			}
			return fmt.Sprintf("acknowledged=%d nodes-with-the-uuid=%d", ok, n)
		}})

	// S2h / S2i: deleting a repo against an operation that saves the repo's metadata: the acknowledged deletion of one of
	// its instances (whose background goroutine saves the repo when the data are gone), and a node note. Every sequential
	// order ends with the repo gone, from the live manager and from the metadata a restarted server would load.
	apiResp := func(err error) vsrv.Resp {
		if err != nil {
			return vsrv.Resp{Code: 400, Body: []byte(err.Error())}
		}
		return vsrv.Resp{Code: 200}
	}
	// what a restarted server would find for the world's repo, read from the metadata store itself (a reload of the
	// whole store would also see what earlier worlds of this worker process left behind)
	repoID := func(root string) string {
		for _, r := range datastore.VerifDump(root).Repos {
			if r.Root == root {
				return fmt.Sprint(r.ID)
			}
		}
		return "0"
	}
	repoGone := func(w *c11World) string {
		live := "live-present"
		if vsrv.Get("repo/"+w.root+"/info").Code >= 400 {
			live = "live-gone"
		}
		var id uint32
		fmt.Sscan(w.nodes["repoid"], &id)
		blob, inMap, rootKnown, err := datastore.VerifStoredRepo(id, w.root)
		if err != nil {
			return live + " store-read-fails:" + trunc(err.Error(), 120)
		}
		return fmt.Sprintf("%s stored-repo=%v id-in-repo-map=%v root-in-version-map=%v", live, blob, inMap, rootKnown)
	}
	sc = append(sc, c11Scenario{name: "S2h:repo:delete-instance||delete-repo", setup: func() (*c11World, error) {
		w, err := repoWorld()
		if err == nil {
			w.nodes["repoid"] = repoID(w.root)
		}
		return w, err
	},
		bodies: func(w *c11World) []func() {
			return []func(){
				func() { w.resp[0] = apiResp(datastore.DeleteDataByName(dvid.UUID(w.root), "kv", "")) },
				func() { w.resp[1] = apiResp(datastore.DeleteRepo(dvid.UUID(w.root), "")) }}
		},
		verdict: func(w *c11World) (bad []string) { return nil },
		observe: func(w *c11World) string { return repoGone(w) }})
	sc = append(sc, c11Scenario{name: "S2i:repo:note||delete-repo", setup: func() (*c11World, error) {
		root, err := vsrv.NewRepo()
		return &c11World{root: root, nodes: map[string]string{"repoid": repoID(root)}, resp: make([]vsrv.Resp, 4)}, err
	},
		bodies: func(w *c11World) []func() {
			return []func(){
				func() { w.resp[0] = vsrv.PostS("node/"+w.root+"/note", `{"note":"n"}`) },
				func() { w.resp[1] = apiResp(datastore.DeleteRepo(dvid.UUID(w.root), "")) }}
		},
		verdict: func(w *c11World) (bad []string) { return nil },
		observe: func(w *c11World) string { return repoGone(w) }})

	// S2j: deleting an instance (acknowledged at once, finished by a background goroutine) against the creation of an
	// instance with the same name. Sequentially the creation is either refused (name still taken) or yields a new instance
	// that stays; a creation acknowledged while the old instance is still being removed must not lose the new instance.
	sc = append(sc, c11Scenario{name: "S2j:repo:delete-instance||new-instance:same-name", setup: func() (*c11World, error) {
		root, err := vsrv.NewRepo() // the root stays open: instances cannot be created on a committed node
		w := &c11World{root: root, nodes: map[string]string{}, resp: make([]vsrv.Resp, 4)}
		if err == nil {
			err = vsrv.NewInstance(root, "keyvalue", "kv", nil)
		}
		if err == nil {
			vsrv.PostS("node/"+w.root+"/kv/key/old", "old")
			for _, r := range datastore.VerifDump(w.root).Repos {
				if r.Root == w.root {
					w.nodes["instances-before"] = strings.Join(r.Instances, ",")
				}
			}
		}
		return w, err
	},
		bodies: func(w *c11World) []func() {
			return []func(){
				func() { w.resp[0] = apiResp(datastore.DeleteDataByName(dvid.UUID(w.root), "kv", "")) },
				func() {
					w.resp[1] = vsrv.PostS("repo/"+w.root+"/instance", `{"typename":"keyvalue","dataname":"kv"}`)
				}}
		},
		verdict: func(w *c11World) (bad []string) { return nil },
		observe: func(w *c11World) string {
			state := func(d datastore.VerifState) string {
				for _, r := range d.Repos {
					if r.Root != w.root {
						continue
					}
					for _, in := range r.Instances {
						if strings.HasPrefix(in, "kv:") {
							if strings.Contains(","+w.nodes["instances-before"]+",", ","+in+",") {
								return "old-instance"
							}
							return "new-instance"
						}
					}
					return "no-instance"
				}
				return "no-repo"
			}
			stored := "reload-fails"
			if re, err := datastore.VerifReloadDump(w.root); err == nil {
				stored = state(re)
			}
			return fmt.Sprintf("codes=%s live=%s stored=%s old-key=%d", codes(w, 2), state(datastore.VerifDump(w.root)), stored, vsrv.Get("node/"+w.root+"/kv/key/old").Code)
		}})

	// ---- neuronjson ----
	njWorld := func() (*c11World, error) {
		root, err := vsrv.NewRepo()
		if err != nil {
			return nil, err
		}
		if err := vsrv.NewInstance(root, "neuronjson", "nj", nil); err != nil {
			return nil, err
		}
		vsrv.PostS("node/"+root+"/nj/key/1?u=t", `{"bodyid":1,"z":"0"}`)
		vsrv.PostS("node/"+root+"/nj/key/2?u=t", `{"bodyid":2,"z":"0"}`)
		return &c11World{root: root, nodes: map[string]string{}, resp: make([]vsrv.Resp, 4)}, nil
	}
	njState := func(w *c11World, uuid string) string {
		var sb strings.Builder
		for _, rd := range []string{"key/1", "key/2", "keys", "fields"} {
			x := vsrv.Get("node/" + uuid + "/nj/" + rd)
			if rd == "fields" {
				fmt.Fprintf(&sb, "%s=%s|", rd, lmNormalize(rd, x.Code, x.Body))
			} else {
				fmt.Fprintf(&sb, "%s=%s|", rd, njNormalize(x.Code, x.Body))
			}
		}
		return sb.String()
	}
	sc = append(sc, c11Scenario{name: "S5b:neuronjson:post||delete:same-key", setup: njWorld,
		bodies: func(w *c11World) []func() {
			u := "node/" + w.root + "/nj/key/1?u=t"
			return []func(){func() { w.resp[0] = vsrv.PostS(u, `{"bodyid":1,"a":"x"}`) }, func() { w.resp[1] = vsrv.Delete(u) }}
		},
		verdict: func(w *c11World) (bad []string) {
			// memory vs store: commit and read the committed version through the store path
			before := njState(w, w.root)
			vsrv.Commit(w.root)
			child, _ := vsrv.NewVersion(w.root)
			if a, b := njState(w, w.root), njState(w, child); a != b || a != before {
				bad = append(bad, fmt.Sprintf("memory-store-disagree\tafter POST || DELETE of one key the in-memory head read %s, the committed version reads %s through the store and the new head %s", before, a, b))
			}
			return
		},
		observe: func(w *c11World) string { return "codes=" + codes(w, 2) + " " + njState(w, w.root) }})
	sc = append(sc, c11Scenario{name: "S5c:neuronjson:post||commit+newversion", setup: njWorld,
		bodies: func(w *c11World) []func() {
			return []func(){
				func() { w.resp[0] = vsrv.PostS("node/"+w.root+"/nj/key/2?u=t", `{"bodyid":2,"a":"late"}`) },
				func() {
					w.resp[1] = vsrv.PostS("node/"+w.root+"/commit", `{"note":"c"}`)
					w.resp[2] = vsrv.PostS("node/"+w.root+"/newversion", `{"note":"n"}`)
				}}
		},
		verdict: func(w *c11World) (bad []string) {
			// an acknowledged POST must be visible at the version it was addressed to, through whichever path serves it now
			x := vsrv.Get("node/" + w.root + "/nj/key/2")
			if acked(w.resp[0]) && !strings.Contains(string(x.Body), `"late"`) {
				bad = append(bad, "acknowledged-post-lost\tPOST key/2 was acknowledged while the node was being committed, but the node reads "+x.String())
			}
			if !acked(w.resp[0]) && strings.Contains(string(x.Body), `"late"`) && w.resp[0].Code >= 400 {
				bad = append(bad, "refused-post-applied\tPOST key/2 was refused ("+fmt.Sprint(w.resp[0].Code)+") but its value is stored: "+x.String())
			}
			return
		},
		observe: func(w *c11World) string {
			var child struct{ Child string }
			jsonUnmarshal(w.resp[2].Body, &child)
			s := "codes=" + codes(w, 3) + " parent:" + njState(w, w.root)
			if child.Child != "" {
				s += " child:" + njState(w, child.Child)
			}
			return s
		}})
	return sc
}

type c11NodeShape struct {
	parents, children int
	branch            string
	locked            bool
}

func datastoreDump(root string) (out []c11NodeShape) {
	dump := datastore.VerifDump(root)
	for _, r := range dump.Repos {
		if r.Root != root {
			continue
		}
		for _, nd := range r.Nodes {
			out = append(out, c11NodeShape{len(nd.Parents), len(nd.Children), nd.Branch, nd.Locked})
		}
	}
	return
}

func jsonUnmarshal(b []byte, v interface{}) { json.Unmarshal(b, v) }
