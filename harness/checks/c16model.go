package checks

// Reference model of C16: map[id]map[field]value with the documented update rules, and the documented meaning of the
// read requests (field selection, queries). Values are kept as canonical JSON text.

import (
	"encoding/json"
	"fmt"
	"regexp"
	"sort"
	"strconv"
	"strings"
)

// c16Rec is one annotation: field -> canonical JSON text of its value.
type c16Rec map[string]string

const (
	c16Wild    = "\x00*" // the statement leaves this slot open (stamps left behind by a null): any value or absent, adopted
	c16NewTime = "\x00T" // a time stamp of a changed field: must be a non-empty string, adopted
)

type c16Model struct {
	Recs   map[uint64]c16Rec `json:"recs"`
	Schema bool              `json:"schema"` // the validation schema c16Schema has been posted
}

func c16NewModel() *c16Model { return &c16Model{Recs: map[uint64]c16Rec{}} }

func (m *c16Model) clone() *c16Model {
	n := &c16Model{Recs: make(map[uint64]c16Rec, len(m.Recs)), Schema: m.Schema}
	for id, r := range m.Recs {
		c := make(c16Rec, len(r))
		for k, v := range r {
			c[k] = v
		}
		n.Recs[id] = c
	}
	return n
}

func (m *c16Model) ids() []uint64 {
	var ids []uint64
	for id := range m.Recs {
		ids = append(ids, id)
	}
	sort.Slice(ids, func(i, j int) bool { return ids[i] < ids[j] })
	return ids
}

// c16Canon renders a JSON value canonically (object keys sorted, numbers in shortest form).
func c16Canon(raw []byte) (string, error) {
	var v interface{}
	if err := json.Unmarshal(raw, &v); err != nil {
		return "", err
	}
	b, err := json.Marshal(v)
	return string(b), err
}

// c16ParseObj parses a JSON object into field -> canonical value text.
func c16ParseObj(raw []byte) (c16Rec, error) {
	var m map[string]json.RawMessage
	if err := json.Unmarshal(raw, &m); err != nil {
		return nil, err
	}
	if m == nil {
		return nil, fmt.Errorf("not an object: %q", c16Trunc(string(raw), 80))
	}
	out := make(c16Rec, len(m))
	for k, v := range m {
		c, err := c16Canon(v)
		if err != nil {
			return nil, err
		}
		out[k] = c
	}
	return out, nil
}

func c16IsMeta(f string) bool { return strings.HasSuffix(f, "_user") || strings.HasSuffix(f, "_time") }

func c16Base(f string) string {
	if c16IsMeta(f) {
		return f[:len(f)-5]
	}
	return f
}

func c16JSONString(s string) string {
	b, _ := json.Marshal(s)
	return string(b)
}

// post applies POST key/<id> with the fields b (query option q, requesting user) to the model.
// It returns whether the request is acceptable (schema) and, per slot of the record, why the model holds its value.
func (m *c16Model) post(id uint64, b, q, user string, dry bool) (bool, map[string]string) {
	body, err := c16ParseObj([]byte("{" + b + "}"))
	if err != nil {
		panic("c16: bad body in alphabet: " + b)
	}
	// fields whose posted text is not in canonical form (a number written as 2.0 or 1e3): same value, different spelling
	respelled := map[string]bool{}
	var rawBody map[string]json.RawMessage
	json.Unmarshal([]byte("{"+b+"}"), &rawBody)
	for f, raw := range rawBody {
		if strings.TrimSpace(string(raw)) != body[f] && !strings.ContainsAny(string(raw), " \t\n") {
			respelled[f] = true
		}
	}
	if m.Schema {
		if v, ok := body["b"]; ok {
			switch {
			case v == "null":
				return false, nil
			case strings.HasPrefix(v, `"`):
				var s string
				json.Unmarshal([]byte(v), &s)
				n, err := strconv.ParseInt(s, 10, 64)
				if err != nil {
					return false, nil
				}
				body["b"] = strconv.FormatInt(n, 10)
			default:
				if _, err := strconv.ParseInt(v, 10, 64); err != nil {
					return false, nil
				}
			}
		}
	}
	replace := q == "replace"
	cond := map[string]bool{}
	if strings.HasPrefix(q, "cond:") {
		for _, f := range strings.Split(strings.TrimPrefix(q, "cond:"), ",") {
			cond[f] = true
		}
	}
	orig := m.Recs[id]
	nw := c16Rec{"bodyid": strconv.FormatUint(id, 10)}
	why := map[string]string{}
	stamp := func(slot, explicit string, hasExplicit bool, fallback, fallbackWhy string) {
		if hasExplicit {
			if explicit != "null" {
				nw[slot] = explicit
			}
			why[slot] = "explicit"
			return
		}
		nw[slot] = fallback
		why[slot] = fallbackWhy
	}
	for f, v := range body {
		if f == "bodyid" || c16IsMeta(f) {
			continue
		}
		us, ts := f+"_user", f+"_time"
		eu, hasU := body[us]
		et, hasT := body[ts]
		ov, had := orig[f]
		switch {
		case v == "null":
			why[f] = "null"
			stamp(us, eu, hasU, c16Wild, "open")
			stamp(ts, et, hasT, c16Wild, "open")
		case !replace && cond[f] && had:
			nw[f] = ov
			why[f] = "conditional"
			for _, s := range []string{us, ts} {
				if sv, ok := orig[s]; ok {
					nw[s] = sv
				}
				why[s] = "conditional"
			}
		case had && ov == v:
			nw[f] = v
			why[f] = "unchanged"
			for _, s := range []struct {
				slot, explicit string
				has            bool
			}{{us, eu, hasU}, {ts, et, hasT}} {
				if sv, ok := orig[s.slot]; ok {
					tag := "unchanged-stamp"
					if respelled[f] {
						tag = "unchanged-stamp-respelled"
					}
					stamp(s.slot, s.explicit, s.has, sv, tag)
				} else {
					stamp(s.slot, s.explicit, s.has, c16Wild, "open")
				}
			}
		default:
			nw[f] = v
			why[f] = "set"
			stamp(us, eu, hasU, c16JSONString(user), "set-user")
			stamp(ts, et, hasT, c16NewTime, "set-time")
		}
	}
	for f, ov := range orig {
		if f == "bodyid" {
			continue
		}
		if _, mentioned := body[c16Base(f)]; mentioned {
			continue
		}
		if ev, explicit := body[f]; explicit { // a stamp posted without its field
			if ev != "null" {
				nw[f] = ev
			}
			why[f] = "explicit"
			continue
		}
		if replace {
			why[f] = "replaced-away"
			continue
		}
		nw[f] = ov
		why[f] = "kept"
	}
	if !dry {
		m.Recs[id] = nw
	}
	return true, why
}

// adopt copies the slots the statement leaves open from the observed records (store path) into the model.
func (m *c16Model) adopt(obs map[uint64]c16Rec, reasons map[uint64]map[string]string) []c16Viol {
	var out []c16Viol
	for id, rec := range m.Recs {
		for slot, v := range rec {
			switch v {
			case c16Wild:
				if ov, ok := obs[id][slot]; ok {
					rec[slot] = ov
				} else {
					delete(rec, slot)
				}
			case c16NewTime:
				ov, ok := obs[id][slot]
				if ok && strings.HasPrefix(ov, `"`) && len(ov) > 2 {
					rec[slot] = ov
				} else {
					delete(rec, slot)
					out = append(out, c16Viol{"B:stamp:time-not-set", fmt.Sprintf("record %d: %s was set to a new value but %s is %q (present %v)", id, c16Base(slot), slot, ov, ok)})
				}
			}
		}
	}
	return out
}

// compareRecords checks the observed records of one read path (GET key/<id>?show=all) against the model, slot by slot.
// The violation key names the rule that gave the slot its reference value.
// baseline (the records the store path returned) is given for the in-memory path: a record that reads the same on both paths
// has already been judged under the store path's key and is not reported a second time.
func (m *c16Model) compareRecords(got map[uint64]c16Rec, reasons map[uint64]map[string]string, side string, baseline map[uint64]c16Rec) []c16Viol {
	var out []c16Viol
	sfx := ""
	if side == "mem" {
		sfx = ":mem"
	}
	add := func(key, f string, a ...interface{}) {
		out = append(out, c16Viol{key + sfx, "[" + side + " path] " + fmt.Sprintf(f, a...)})
	}
	ids := map[uint64]bool{}
	for id := range m.Recs {
		ids[id] = true
	}
	for id := range got {
		ids[id] = true
	}
	var sorted []uint64
	for id := range ids {
		sorted = append(sorted, id)
	}
	sort.Slice(sorted, func(i, j int) bool { return sorted[i] < sorted[j] })
	for _, id := range sorted {
		mr, mok := m.Recs[id]
		gr, gok := got[id]
		why := reasons[id]
		if baseline != nil {
			if br, bok := baseline[id]; bok == gok && c16RecString(br) == c16RecString(gr) {
				continue
			}
		}
		switch {
		case !mok && gok:
			if why["*"] == "deleted" {
				add("B:delete:record-still-readable", "record %d was deleted but GET key/%d answers %s", id, id, c16RecString(gr))
			} else {
				add("B:record:unexpected", "record %d should not exist but GET key/%d answers %s", id, id, c16RecString(gr))
			}
			continue
		case mok && !gok:
			if why != nil {
				add("B:post:record-not-readable", "record %d was posted but GET key/%d finds nothing (reference %s)", id, id, c16RecString(mr))
			} else {
				add("B:record:lost", "record %d was not touched but GET key/%d finds nothing (reference %s)", id, id, c16RecString(mr))
			}
			continue
		}
		slots := map[string]bool{}
		for s := range mr {
			slots[s] = true
		}
		for s := range gr {
			slots[s] = true
		}
		var ss []string
		for s := range slots {
			ss = append(ss, s)
		}
		sort.Strings(ss)
		for _, s := range ss {
			mv, mhas := mr[s]
			gv, ghas := gr[s]
			if mhas == ghas && mv == gv {
				continue
			}
			kind := "user"
			if strings.HasSuffix(s, "_time") {
				kind = "time"
			}
			desc := fmt.Sprintf("record %d slot %q: reference %s, got %s (record read: %s)", id, s, c16Opt(mv, mhas), c16Opt(gv, ghas), c16RecString(gr))
			switch why[s] {
			case "kept":
				if !ghas {
					add("B:partial-update:unmentioned-field-lost", "%s; the request did not mention it", desc)
				} else {
					add("B:partial-update:unmentioned-field-changed", "%s; the request did not mention it", desc)
				}
			case "null":
				add("B:null:value-still-present", "%s; the request set it to null", desc)
			case "replaced-away":
				add("B:replace:unmentioned-field-kept", "%s; replace=true and the request did not mention it", desc)
			case "unchanged":
				add("B:repeat:value-changed", "%s; the request repeated the stored value", desc)
			case "unchanged-stamp":
				add("B:stamp:rewritten-without-value-change:"+kind, "%s; the request repeated the stored value of %q, so its stamps must not change", desc, c16Base(s))
			case "unchanged-stamp-respelled":
				add("B:stamp:rewritten-without-value-change:"+kind+":number-not-in-canonical-form", "%s; the request repeated the stored value of %q (a number written in a non-canonical form such as 2.0), so its stamps must not change", desc, c16Base(s))
			case "set":
				add("B:post:value-not-stored", "%s; the request set it", desc)
			case "set-user":
				add("B:stamp:user-not-requester", "%s; the value changed, the requesting user should be recorded", desc)
			case "set-time":
				// reported by adopt
			case "explicit":
				add("B:stamp:explicit-not-kept", "%s; the request supplied the stamp explicitly", desc)
			case "conditional":
				add("B:conditional:overwritten", "%s; the field was set and listed in conditionals", desc)
			case "open":
				// adopted from the store path; a difference can only be a path difference
				add("B:stamp:after-null-differs-between-paths", "%s", desc)
			default:
				if why == nil {
					add("B:untouched-record-changed", "%s; the last request did not address this record", desc)
				} else if !mhas {
					add("B:post:unexpected-field", "%s", desc)
				} else {
					add("B:post:field-differs", "%s", desc)
				}
			}
		}
	}
	return out
}

func c16Opt(v string, has bool) string {
	if !has {
		return "<absent>"
	}
	return v
}

func c16RecString(r c16Rec) string {
	if r == nil {
		return "<none>"
	}
	var ks []string
	for k := range r {
		ks = append(ks, k)
	}
	sort.Strings(ks)
	var sb strings.Builder
	sb.WriteString("{")
	for i, k := range ks {
		if i > 0 {
			sb.WriteString(",")
		}
		sb.WriteString(c16JSONString(k) + ":" + r[k])
	}
	sb.WriteString("}")
	return sb.String()
}

// c16Select is the documented field selection of read requests: bodyid always; the listed fields (with their stamps as
// allowed by show) or, without a list, every field except the stamps not allowed by show.
func c16Select(r c16Rec, fields []string, showUser, showTime bool) c16Rec {
	out := c16Rec{}
	if v, ok := r["bodyid"]; ok {
		out["bodyid"] = v
	}
	if len(fields) > 0 {
		for _, f := range fields {
			if f == "bodyid" {
				continue
			}
			if v, ok := r[f]; ok {
				out[f] = v
			}
			if v, ok := r[f+"_user"]; ok && showUser {
				out[f+"_user"] = v
			}
			if v, ok := r[f+"_time"]; ok && showTime {
				out[f+"_time"] = v
			}
		}
		return out
	}
	for f, v := range r {
		if strings.HasSuffix(f, "_user") && !showUser {
			continue
		}
		if strings.HasSuffix(f, "_time") && !showTime {
			continue
		}
		out[f] = v
	}
	return out
}

// ---- queries ----

// c16Cond is one field condition of a query.
type c16Cond struct {
	Field  string
	Exists int           // 0: not an existence test; 1: exists/1; -1: exists/0
	Vals   []interface{} // string or float64 alternatives
	Re     []*regexp.Regexp
}

// c16QueryDef is a query: the JSON sent and its meaning (OR of ANDs).
type c16QueryDef struct {
	Name string
	JSON string
	Or   [][]c16Cond
}

func c16Queries() []c16QueryDef {
	eq := func(f string, vals ...interface{}) c16Cond { return c16Cond{Field: f, Vals: vals} }
	return []c16QueryDef{
		{"a=x", `{"a":"x"}`, [][]c16Cond{{eq("a", "x")}}},
		{"a-in-x,y", `{"a":["x","y"]}`, [][]c16Cond{{eq("a", "x", "y")}}},
		{"a~^x", `{"a":"re/^x"}`, [][]c16Cond{{{Field: "a", Re: []*regexp.Regexp{regexp.MustCompile("^x")}}}}},
		{"a-exists", `{"a":"exists/1"}`, [][]c16Cond{{{Field: "a", Exists: 1}}}},
		{"a-absent", `{"a":"exists/0"}`, [][]c16Cond{{{Field: "a", Exists: -1}}}},
		{"b=7", `{"b":7}`, [][]c16Cond{{eq("b", 7.0)}}},
		{"b-in-7,8", `{"b":[7,8]}`, [][]c16Cond{{eq("b", 7.0, 8.0)}}},
		{"a=x&b=8", `{"a":"x","b":8}`, [][]c16Cond{{eq("a", "x"), eq("b", 8.0)}}},
		{"a=x|b=8", `[{"a":"x"},{"b":8}]`, [][]c16Cond{{eq("a", "x")}, {eq("b", 8.0)}}},
		{"bodyid=2", `{"bodyid":2}`, [][]c16Cond{{eq("bodyid", 2.0)}}},
		{"bodyid-in-2,10,99", `{"bodyid":[2,10,99]}`, [][]c16Cond{{eq("bodyid", 2.0, 10.0, 99.0)}}},
		{"a=1", `{"a":1}`, [][]c16Cond{{eq("a", 1.0)}}},
		{"a-in-re^y,x", `{"a":["re/^y","x"]}`, [][]c16Cond{{{Field: "a", Vals: []interface{}{"x"}, Re: []*regexp.Regexp{regexp.MustCompile("^y")}}}}},
		{"bodyid=10&b-exists", `{"bodyid":10,"b":"exists/1"}`, [][]c16Cond{{eq("bodyid", 10.0), {Field: "b", Exists: 1}}}},
	}
}

// c16Scalars turns a field value into the list of scalars a query value is compared with: a scalar is itself, a list of
// numbers or of strings is its elements; anything else (object, mixed list, boolean) matches no equality query.
func c16Scalars(canon string) []interface{} {
	var v interface{}
	if json.Unmarshal([]byte(canon), &v) != nil {
		return nil
	}
	switch x := v.(type) {
	case float64, string:
		return []interface{}{x}
	case []interface{}:
		if len(x) == 0 {
			return nil
		}
		_, num := x[0].(float64)
		_, str := x[0].(string)
		if !num && !str {
			return nil
		}
		for _, e := range x {
			if _, ok := e.(float64); ok != num {
				return nil
			}
			if _, ok := e.(string); ok != str {
				return nil
			}
		}
		return x
	}
	return nil
}

func (c c16Cond) holds(r c16Rec) bool {
	v, found := r[c.Field]
	if found && v == "null" {
		found = false
	}
	switch c.Exists {
	case 1:
		return found
	case -1:
		return !found
	}
	if !found {
		return false
	}
	for _, fv := range c16Scalars(v) {
		for _, qv := range c.Vals {
			if fv == qv {
				return true
			}
		}
		if s, ok := fv.(string); ok {
			for _, re := range c.Re {
				if re.MatchString(s) {
					return true
				}
			}
		}
	}
	return false
}

func (q c16QueryDef) matches(r c16Rec) bool {
	for _, and := range q.Or {
		all := true
		for _, c := range and {
			if !c.holds(r) {
				all = false
				break
			}
		}
		if all {
			return true
		}
	}
	return false
}
