package checks

// Shared by C11 (instrumented binary, all scenarios) and C12 (plain binary; the identifier scenarios S6* are explored by
// worker processes of the instrumented binary).

import (
	"encoding/json"
	"fmt"
	"strings"
	"time"

	"verif/vlib"
)

type c11Job struct {
	Scenario string `json:"scenario"`
	Bound    int    `json:"bound"`
	MaxExec  int    `json:"max_exec"`
	Replay   []int  `json:"replay,omitempty"`
	// Part / Parts: the subtrees below the root execution are dealt out to Parts jobs (child k goes to job k % Parts)
	Part  int `json:"part,omitempty"`
	Parts int `json:"parts,omitempty"`
	// Newest: explore around the default schedule that prefers the threads spawned last (vsync.NewestFirst)
	Newest bool `json:"newest,omitempty"`
}

type c11Viol struct {
	Class    string   `json:"class"`
	What     string   `json:"what"`
	Schedule []int    `json:"schedule"`
	Newest   bool     `json:"newest,omitempty"` // the schedule's choice indices refer to the newest-first thread order
	Trace    []string `json:"trace"`
	Repro    int      `json:"repro"` // times the schedule reproduced the violation out of 3
}

type c11Result struct {
	Scenario   string         `json:"scenario"`
	Executions map[string]int `json:"executions"` // per bound
	Completed  int            `json:"completed_bound"`
	Capped     bool           `json:"capped"`
	Points     int            `json:"max_points"`
	ExtBlocks  int            `json:"ext_blocks"`
	Outcomes   map[string]int `json:"outcomes"`
	Observed   map[string]int `json:"observed,omitempty"`   // quiescent observations (scenarios with the sequential-reference oracle)
	Sequential []string       `json:"sequential,omitempty"` // observations produced by the sequential orders
	Viol       []c11Viol      `json:"viol"`
	Nondet     string         `json:"nondeterminism,omitempty"`
	Err        string         `json:"err,omitempty"`
}

// c11Explore runs the scheduler-controlled exploration of every scenario accepted by filter on worker processes of the
// instrumented binary and reports into c. keyPrefix is prepended to violation keys.
func c11Explore(c *vlib.Ctx, filter func(name string) bool, keyPrefix string, bound, maxExec int) (states, transitions int64) {
	var jobs, names []string
	for _, s := range c11Scenarios() {
		if !filter(s.name) {
			continue
		}
		b := bound
		if strings.HasPrefix(s.name, "S4") {
			b = bound - 1 // label operations have hundreds of scheduling points per request
		}
		if strings.HasPrefix(s.name, "S2h") || strings.HasPrefix(s.name, "S2i") || strings.HasPrefix(s.name, "S2j") {
			b = bound - 1 // every execution ends with a read-back of the stored metadata (found with 0 and 1 preemptions)
		}
		parts := 1
		if s.quietGate {
			parts = 14 // ~2000 executions of ~0.15 s each at deviation bound 1
		}
		if strings.HasPrefix(s.name, "S5d") {
			parts = 12 // three threads: about 15 000 schedules with <= 2 preemptions; the cap applies per part
		}
		for part := 0; part < parts; part++ {
			jb, _ := json.Marshal(c11Job{Scenario: s.name, Bound: b, MaxExec: maxExec, Part: part, Parts: parts})
			jobs = append(jobs, string(jb))
			names = append(names, s.name)
		}
		if s.quietGate {
			// deviation-bounded scenarios are explored a second time around the newest-first default schedule
			for part := 0; part < parts; part++ {
				jb, _ := json.Marshal(c11Job{Scenario: s.name, Bound: b, MaxExec: maxExec, Part: part, Parts: parts, Newest: true})
				jobs = append(jobs, string(jb))
				names = append(names, s.name)
			}
		}
	}
	vlib.JobTimeout = 40 * time.Minute
	return c11Collect(c, keyPrefix, names, vlib.Pool("c11", nil, 16, jobs))
}

func c11Collect(c *vlib.Ctx, keyPrefix string, names []string, results []vlib.PoolResult) (states, transitions int64) {
	// jobs that explore parts of one scenario are merged first
	merged := map[string]*c11Result{}
	var order []string
	var bad []int
	for i, r := range results {
		if r.Died {
			bad = append(bad, i)
			continue
		}
		var res c11Result
		if err := json.Unmarshal([]byte(r.Out), &res); err != nil || res.Err != "" {
			bad = append(bad, i)
			continue
		}
		m, ok := merged[names[i]]
		if !ok {
			cp := res
			merged[names[i]] = &cp
			order = append(order, names[i])
			continue
		}
		for k, v := range res.Executions {
			m.Executions[k] += v
		}
		for k, v := range res.Outcomes {
			m.Outcomes[k] += v
		}
		for k, v := range res.Observed {
			if m.Observed == nil {
				m.Observed = map[string]int{}
			}
			m.Observed[k] += v
		}
		if res.Completed < m.Completed {
			m.Completed = res.Completed
		}
		m.Capped = m.Capped || res.Capped
		if res.Points > m.Points {
			m.Points = res.Points
		}
		m.ExtBlocks += res.ExtBlocks
		if m.Nondet == "" {
			m.Nondet = res.Nondet
		}
		have := map[string]bool{}
		for _, v := range m.Viol {
			have[v.Class] = true
		}
		for _, v := range res.Viol {
			if !have[v.Class] {
				m.Viol = append(m.Viol, v)
				have[v.Class] = true
			}
		}
	}
	var mr []vlib.PoolResult
	var mn []string
	for _, i := range bad {
		mr = append(mr, results[i])
		mn = append(mn, names[i])
	}
	for _, n := range order {
		b, _ := json.Marshal(merged[n])
		mr = append(mr, vlib.PoolResult{Out: string(b)})
		mn = append(mn, n)
	}
	results, names = mr, mn
	for i, r := range results {
		if r.Died {
			if r.TimedOut {
				c.Cap("watchdog on scenario " + names[i])
			} else {
				c.Violate(keyPrefix+"worker-death:"+names[i], fmt.Sprintf("scenario %s: worker died: %s", names[i], tail(r.Stderr, 1500)), nil)
			}
			continue
		}
		var res c11Result
		if err := json.Unmarshal([]byte(r.Out), &res); err != nil {
			c.Violate("harness:result", trunc(r.Out, 300), nil)
			continue
		}
		if res.Err != "" {
			c.Violate("harness:"+names[i], res.Err, nil)
			continue
		}
		n := 0
		for _, k := range res.Executions {
			n += k
		}
		states += int64(n)
		transitions += int64(n * res.Points)
		c.Eval(int64(n))
		c.Set("scenario:"+names[i], map[string]interface{}{"executions_per_bound": res.Executions, "completed_preemption_bound": res.Completed, "capped": res.Capped, "max_scheduling_points": res.Points, "outcomes": res.Outcomes, "observed_final_states": res.Observed, "sequential_final_states": res.Sequential, "threads_blocked_outside_model": res.ExtBlocks, "nondeterminism": res.Nondet})
		if res.Capped {
			c.Cap(fmt.Sprintf("%s: execution cap reached; preemption bound %d completed", names[i], res.Completed))
		}
		for o := range res.Outcomes {
			c.Outcome(names[i] + ":" + o)
		}
		for k := 0; k < n; k++ {
			c.NontrivialDistinct(1)
		}
		for _, v := range res.Viol {
			if v.Repro < 3 {
				c.Add("unstable_violations_not_reported", 1)
				c.Cap(fmt.Sprintf("%s: violation %s reproduced only %d/3 times under the same schedule", names[i], v.Class, v.Repro))
				continue
			}
			c.Violate(keyPrefix+names[i]+":"+v.Class, fmt.Sprintf("%s under schedule %v: %s | trace: %s", names[i], v.Schedule, v.What, trunc(strings.Join(v.Trace, " > "), 1500)), map[string]interface{}{"scenario": names[i], "schedule": v.Schedule, "newest_first": v.Newest, "trace": v.Trace})
		}
	}
	return
}
