package checks

// C07 The version DAG stays well formed and identifiers stay unique.
// Explicit-state BFS over repo-level request histories: each transition executes one real request (HTTP handler, or the
// datastore API for operations that only exist as RPC commands) on a world replayed from scratch; canonical states are
// deduplicated; invariants are evaluated after every request, accepted or rejected.

import (
	"encoding/json"
	"fmt"
	"sort"
	"strings"
	"time"

	"github.com/janelia-flyem/dvid/datastore"
	"github.com/janelia-flyem/dvid/dvid"

	"verif/vlib"
	"verif/vsrv"
)

func init() {
	vlib.Register("C07", "model_checking", runC07)
	vlib.Workers["c07"] = c07Worker
}

// c07Op is a symbolic request; node and repo arguments are creation indexes within the history.
type c07Op struct {
	K string `json:"k"`           // kind
	N int    `json:"n,omitempty"` // node index
	A string `json:"a,omitempty"` // argument kind (uuid kind / branch name / tag kind ...)
	B string `json:"b,omitempty"` // second argument kind
	P []int  `json:"p,omitempty"` // parent node indexes (merge); -1 = unknown uuid
}

func (o c07Op) String() string {
	s := o.K
	if o.K != "newrepo" && o.K != "merge" && o.K != "resolve" {
		s += fmt.Sprintf("(n%d", o.N)
	} else {
		s += "("
	}
	if o.P != nil {
		s += fmt.Sprintf("%v", o.P)
	}
	if o.A != "" {
		s += "," + o.A
	}
	if o.B != "" {
		s += "," + o.B
	}
	return s + ")"
}

// c07World is the harness's view of one history's world.
type c07World struct {
	roots []string // repo roots created by this history, in creation order
	fresh int      // counter for fresh uuids
	tag   string   // unique prefix for fresh uuids of this world
}

type c07Node struct {
	UUID     string
	Version  uint32
	Locked   bool
	Branch   string
	Note     string
	Log      int
	Parents  []uint32
	Children []uint32
	Repo     int
}

// c07Snapshot is what the oracles see after a request.
type c07Snapshot struct {
	Nodes []c07Node // all nodes of the world's repos, ordered by version (= creation order)
	Dump  datastore.VerifState
	Info  map[string]json.RawMessage // root -> GET /api/repo/{root}/info
}

func (w *c07World) snapshot() c07Snapshot {
	return w.snapshotOf(datastore.VerifDump(append([]string{"\x00none"}, w.roots...)...))
}

// reloaded is the snapshot a restarted server would have: the start-up loading path run into a second, read-only
// manager on the metadata store as it is now (overlay helper; the live manager is untouched, nothing is written).
func (w *c07World) reloaded() (c07Snapshot, error) {
	d, err := datastore.VerifReloadDump(append([]string{"\x00none"}, w.roots...)...)
	if err != nil {
		return c07Snapshot{}, err
	}
	return w.snapshotOf(d), nil
}

func (w *c07World) snapshotOf(d datastore.VerifState) c07Snapshot {
	s := c07Snapshot{Dump: d, Info: map[string]json.RawMessage{}}
	for ri, root := range w.roots {
		for _, r := range d.Repos {
			if r.Root != root {
				continue
			}
			for _, n := range r.Nodes {
				s.Nodes = append(s.Nodes, c07Node{UUID: n.UUID, Version: n.Version, Locked: n.Locked, Branch: n.Branch, Note: n.Note,
					Log: len(n.Log), Parents: n.Parents, Children: n.Children, Repo: ri})
			}
		}
	}
	sort.SliceStable(s.Nodes, func(i, j int) bool { return s.Nodes[i].Version < s.Nodes[j].Version })
	return s
}

// canon renders the world's repos with nodes renamed by creation order (used for dedupe and for before/after comparison).
func (s c07Snapshot) canon(w *c07World) string {
	idx := map[uint32]int{}
	for i, n := range s.Nodes {
		idx[n.Version] = i
	}
	name := func(vs []uint32) string {
		var out []string
		for _, v := range vs {
			if i, ok := idx[v]; ok {
				out = append(out, fmt.Sprintf("n%d", i))
			} else {
				out = append(out, fmt.Sprintf("?v%d", v))
			}
		}
		return strings.Join(out, " ")
	}
	var sb strings.Builder
	for i, n := range s.Nodes {
		fmt.Fprintf(&sb, "n%d r%d L%v b=%q note=%q log=%d P[%s] C[%s]\n", i, n.Repo, n.Locked, n.Branch, n.Note, n.Log, name(n.Parents), name(n.Children))
	}
	uidx := map[string]int{}
	for i, n := range s.Nodes {
		uidx[n.UUID] = i
	}
	for ri, root := range w.roots {
		alive := false
		for _, r := range s.Dump.Repos {
			if r.Root == root {
				alive = true
				fmt.Fprintf(&sb, "repo%d instances=%v log=%d\n", ri, instNames(r.Instances), len(r.Log))
			}
		}
		if !alive {
			fmt.Fprintf(&sb, "repo%d deleted\n", ri)
		}
		var heads []string
		for b, u := range s.Dump.BranchToUUID {
			if strings.HasPrefix(b, root) {
				h := "?"
				if i, ok := uidx[u]; ok {
					h = fmt.Sprintf("n%d", i)
				}
				heads = append(heads, fmt.Sprintf("%s->%s", b[len(root):], h))
			}
		}
		sort.Strings(heads)
		fmt.Fprintf(&sb, "repo%d heads %v\n", ri, heads)
	}
	return sb.String()
}

// c07InDump reports whether the repo holding uuid still lists an instance of that name.
func c07InDump(uuid, name string) bool {
	d := datastore.VerifDump()
	root := d.RepoOfUUID[uuid]
	for _, r := range d.Repos {
		if r.Root == root {
			for _, in := range r.Instances {
				if strings.HasPrefix(in, name+":") {
					return true
				}
			}
		}
	}
	return false
}

func instNames(in []string) []string {
	var out []string
	for _, s := range in {
		p := strings.Split(s, ":")
		out = append(out, p[0]+":"+p[1])
	}
	return out
}

// global renders everything in the manager except counters (a rejected request must leave all of it unchanged).
func (s c07Snapshot) global() string {
	d := s.Dump
	d.NextRepoID, d.NextVersionID, d.NextInstance = 0, 0, 0
	for i := range d.Repos {
		d.Repos[i].MutCur, d.Repos[i].MutSaved = 0, 0
	}
	b, _ := json.Marshal(d)
	return string(b)
}

func (w *c07World) freshUUID() string {
	w.fresh++
	return fmt.Sprintf("%s%0*x", w.tag, 32-len(w.tag), w.fresh)
}

// exec performs one op on the world. It returns the HTTP-like status (>=400 = rejected) and a description.
func (w *c07World) exec(op c07Op, s c07Snapshot) (code int, desc string) {
	node := func(i int) string {
		if i < 0 || i >= len(s.Nodes) {
			return "ffffffffffffffffffffffffffffffff"
		}
		return s.Nodes[i].UUID
	}
	uuidArg := func(kind string, self int) (string, bool) {
		switch kind {
		case "", "none":
			return "", false
		case "fresh":
			return w.freshUUID(), true
		case "existing":
			return node(0), true
		case "own":
			return node(self), true
		case "short":
			return "abcdef0123456789abcdef012345678", true // 31 hex chars
		case "nonhex":
			return "zzzzzzzzzzzzzzzzzzzzzzzzzzzzzzzz", true
		}
		return kind, true
	}
	do := func(method, url string, body interface{}) (int, string) {
		var b []byte
		if body != nil {
			b, _ = json.Marshal(body)
		}
		r := vsrv.Do(method, url, b)
		return r.Code, fmt.Sprintf("%s %s %s -> %s", method, url, b, r)
	}
	apiErr := func(what string, err error) (int, string) {
		if err != nil {
			return 400, fmt.Sprintf("%s -> error %v", what, err)
		}
		return 200, what + " -> ok"
	}
	switch op.K {
	case "newrepo":
		body := map[string]string{"alias": "w", "description": "d"}
		switch op.A {
		case "fresh":
			body["root"] = w.freshUUID()
		case "existing":
			body["root"] = node(op.N)
		case "malformed":
			body["root"] = "zz"
		case "passcode":
			body["passcode"] = "secret"
		}
		code, desc = do("POST", "repos", body)
		if code == 200 {
			// learn the new root from the dump (response parsing would trust the response)
			var m struct{ Root string }
			r := strings.Index(desc, "{\\\"root\\\"")
			_ = r
			d := datastore.VerifDump()
			known := map[string]bool{}
			for _, x := range w.roots {
				known[x] = true
			}
			best := uint32(0)
			for _, rp := range d.Repos {
				if !known[rp.Root] && rp.ID >= best {
					best = rp.ID
					m.Root = rp.Root
				}
			}
			if m.Root != "" {
				w.roots = append(w.roots, m.Root)
			}
		}
		return
	case "commit":
		return do("POST", "node/"+node(op.N)+"/commit", map[string]string{"note": "c"})
	case "newversion":
		body := map[string]string{"note": "v"}
		if u, ok := uuidArg(op.A, op.N); ok {
			body["uuid"] = u
		}
		return do("POST", "node/"+node(op.N)+"/newversion", body)
	case "branch":
		body := map[string]string{"note": "b", "branch": op.A}
		if u, ok := uuidArg(op.B, op.N); ok {
			body["uuid"] = u
		}
		return do("POST", "node/"+node(op.N)+"/branch", body)
	case "tag":
		t, _ := uuidArg(op.A, op.N)
		if op.A == "empty" {
			t = ""
		}
		return do("POST", "node/"+node(op.N)+"/tag", map[string]string{"tag": t, "note": "t"})
	case "merge":
		ps := make([]string, len(op.P))
		for i, p := range op.P {
			ps[i] = node(p)
		}
		mt := "conflict-free"
		if op.A == "badtype" {
			mt = "octopus"
		}
		return do("POST", "repo/"+node(0)+"/merge", map[string]interface{}{"mergeType": mt, "parents": ps, "note": "m"})
	case "resolve":
		ps := make([]string, len(op.P))
		for i, p := range op.P {
			ps[i] = node(p)
		}
		return do("POST", "repo/"+node(0)+"/resolve", map[string]interface{}{"data": []string{"d1"}, "parents": ps, "note": "r"})
	case "note":
		return do("POST", "node/"+node(op.N)+"/note", map[string]string{"note": "n" + op.A})
	case "log":
		return do("POST", "node/"+node(op.N)+"/log", map[string][]string{"log": {"l1"}})
	case "instance":
		return do("POST", "repo/"+node(op.N)+"/instance", map[string]string{"typename": "keyvalue", "dataname": op.A})
	case "rename":
		return apiErr(fmt.Sprintf("RenameData(n%d,%s,%s)", op.N, op.A, op.B), datastore.RenameData(dvid.UUID(node(op.N)), dvid.InstanceName(op.A), dvid.InstanceName(op.B), ""))
	case "delinstance":
		err := datastore.DeleteDataByName(dvid.UUID(node(op.N)), dvid.InstanceName(op.A), "")
		if err == nil {
			// the instance is removed from the repo by a goroutine; wait until the manager shows it gone
			for i := 0; i < 20000; i++ {
				if _, e := datastore.GetDataByUUIDName(dvid.UUID(node(op.N)), dvid.InstanceName(op.A)); e != nil && !c07InDump(node(op.N), op.A) {
					break
				}
				time.Sleep(250 * time.Microsecond)
			}
			// ... and until that goroutine has also saved the repo (histories are sequences of requests on an idle server)
			vsrv.Quiesce()
		}
		return apiErr(fmt.Sprintf("DeleteDataByName(n%d,%s)", op.N, op.A), err)
	case "delrepo":
		err := datastore.DeleteRepo(dvid.UUID(node(op.N)), op.A)
		if err == nil {
			vsrv.Quiesce() // asynchronous deletion of the repo's instances
		}
		return apiErr(fmt.Sprintf("DeleteRepo(n%d,%q)", op.N, op.A), err)
	}
	return 400, "unknown op"
}

// c07Alphabet lists the ops offered in a state.
func c07Alphabet(s c07Snapshot, w *c07World, thorough bool) []c07Op {
	var ops []c07Op
	nn := len(s.Nodes)
	ops = append(ops, c07Op{K: "newrepo", A: "plain"}, c07Op{K: "newrepo", A: "fresh"}, c07Op{K: "newrepo", A: "malformed"})
	if nn > 0 {
		ops = append(ops, c07Op{K: "newrepo", A: "existing", N: 0}, c07Op{K: "newrepo", A: "existing", N: nn - 1})
	}
	for n := 0; n < nn; n++ {
		ops = append(ops, c07Op{K: "commit", N: n})
		for _, a := range []string{"none", "fresh", "existing", "own", "short", "nonhex"} {
			ops = append(ops, c07Op{K: "newversion", N: n, A: a})
		}
		names := []string{"b1", "b2", "", "master", " master"} // " master": a name that only differs from the reserved one by white space
		if thorough {
			names = append(names, "b1 ", "master\t")
		}
		for _, name := range names {
			ops = append(ops, c07Op{K: "branch", N: n, A: name, B: "none"})
		}
		ops = append(ops, c07Op{K: "branch", N: n, A: "b1", B: "existing"}, c07Op{K: "branch", N: n, A: "b2", B: "own"})
		for _, t := range []string{"fresh", "existing", "own", "empty", "x"} {
			ops = append(ops, c07Op{K: "tag", N: n, A: t})
		}
		ops = append(ops, c07Op{K: "note", N: n, A: "1"}, c07Op{K: "log", N: n})
		if thorough || n == 0 || n == nn-1 {
			ops = append(ops, c07Op{K: "instance", N: n, A: "d1"})
		}
	}
	for a := 0; a < nn; a++ {
		for b := 0; b < nn; b++ {
			ops = append(ops, c07Op{K: "merge", P: []int{a, b}})
			if a != b {
				for cc := 0; cc < nn; cc++ {
					if cc != a && cc != b {
						ops = append(ops, c07Op{K: "merge", P: []int{a, b, cc}})
					}
				}
			}
		}
		ops = append(ops, c07Op{K: "merge", P: []int{a, -1}})
	}
	if nn >= 2 {
		ops = append(ops, c07Op{K: "merge", P: []int{0, 1}, A: "badtype"}, c07Op{K: "resolve", P: []int{0, 1}}, c07Op{K: "resolve", P: []int{nn - 1, nn - 2}})
	}
	if nn > 0 {
		ops = append(ops, c07Op{K: "rename", N: 0, A: "d1", B: "d2"}, c07Op{K: "delinstance", N: 0, A: "d1"}, c07Op{K: "delinstance", N: 0, A: "nope"})
		ops = append(ops, c07Op{K: "delrepo", N: 0, A: ""}, c07Op{K: "delrepo", N: 0, A: "wrong"}, c07Op{K: "delrepo", N: nn - 1, A: ""})
	}
	return ops
}

// c07Invariants evaluates the well-formedness invariants; each violated one is returned as (class, text).
func c07Invariants(s c07Snapshot, w *c07World) [][2]string {
	var bad [][2]string
	add := func(class, f string, a ...interface{}) { bad = append(bad, [2]string{class, fmt.Sprintf(f, a...)}) }
	byV := map[uint32]int{}
	byU := map[string]int{}
	for i, n := range s.Nodes {
		if j, dup := byV[n.Version]; dup {
			add("dup-version", "version id %d names nodes n%d and n%d", n.Version, j, i)
		}
		if j, dup := byU[n.UUID]; dup {
			add("dup-uuid", "uuid %s names nodes n%d and n%d", n.UUID, j, i)
		}
		byV[n.Version] = i
		byU[n.UUID] = i
	}
	rootsOf := map[int][]int{}
	for i, n := range s.Nodes {
		if len(n.Parents) == 0 {
			rootsOf[n.Repo] = append(rootsOf[n.Repo], i)
		}
		for _, p := range n.Parents {
			pi, ok := byV[p]
			if !ok {
				add("dangling-parent", "n%d has parent version %d that is not a node", i, p)
				continue
			}
			if s.Nodes[pi].Repo != n.Repo {
				add("cross-repo-parent", "n%d (repo %d) has parent n%d in repo %d", i, n.Repo, pi, s.Nodes[pi].Repo)
			}
			if !s.Nodes[pi].Locked {
				add("uncommitted-parent", "n%d hangs off uncommitted parent n%d", i, pi)
			}
			if pi >= i {
				add("cycle", "n%d has parent n%d that is not older", i, pi)
			}
		}
		for _, c := range n.Children {
			if _, ok := byV[c]; !ok {
				add("dangling-child", "n%d lists child version %d that is not a node", i, c)
			}
		}
	}
	for ri := range w.roots {
		alive := false
		for _, r := range s.Dump.Repos {
			if r.Root == w.roots[ri] {
				alive = true
			}
		}
		if alive && len(rootsOf[ri]) != 1 {
			add("roots", "repo %d has %d parentless nodes %v", ri, len(rootsOf[ri]), rootsOf[ri])
		}
	}
	// parent/child links mirror each other as multisets
	links := map[[2]uint32]int{}
	for _, n := range s.Nodes {
		for _, p := range n.Parents {
			links[[2]uint32{p, n.Version}]++
		}
		for _, c := range n.Children {
			links[[2]uint32{n.Version, c}]--
		}
	}
	for l, k := range links {
		if k != 0 {
			add("mirror", "parent/child link v%d->v%d appears %+d more times in parents than in children", l[0], l[1], k)
		}
	}
	// identifier maps
	d := s.Dump
	mine := map[string]bool{}
	for _, r := range w.roots {
		mine[r] = true
	}
	for i, n := range s.Nodes {
		if v, ok := d.UUIDToVersion[n.UUID]; !ok || v != n.Version {
			add("uuid-map", "uuidToVersion[%s(n%d)] = %d (present %v), node version %d", n.UUID, i, v, ok, n.Version)
		}
		if u, ok := d.VersionToUUID[n.Version]; !ok || u != n.UUID {
			add("version-map", "versionToUUID[%d] = %q, node n%d uuid %s", n.Version, u, i, n.UUID)
		}
		if r, ok := d.RepoOfUUID[n.UUID]; !ok || r != w.roots[n.Repo] {
			add("repo-map", "repos[%s(n%d)] files it under %q, expected repo %d", n.UUID, i, r, n.Repo)
		}
	}
	for u, root := range d.RepoOfUUID {
		if mine[root] {
			if _, ok := byU[u]; !ok {
				add("orphan-uuid", "uuid %s is filed under repo %s but is not a node of its DAG", u, root)
			}
		}
	}
	for u, v := range d.UUIDToVersion {
		if u2, ok := d.VersionToUUID[v]; !ok || u2 != u {
			if _, isMine := byU[u]; isMine || strings.HasPrefix(u, w.tag) {
				add("maps-not-inverse", "uuidToVersion[%s]=%d but versionToUUID[%d]=%q", u, v, v, u2)
			}
		}
	}
	// branch chains: among single-parent nodes (and the root), a node has at most one single-parent child on its own branch
	for i, n := range s.Nodes {
		same := 0
		for _, c := range n.Children {
			ci, ok := byV[c]
			if ok && len(s.Nodes[ci].Parents) == 1 && s.Nodes[ci].Branch == n.Branch {
				same++
			}
		}
		if same > 1 {
			add("branch-fork", "n%d has %d children continuing its branch %q", i, same, n.Branch)
		}
	}
	// every named branch is one chain and its recorded head is the chain's leaf
	type bk struct {
		repo int
		name string
	}
	members := map[bk][]int{}
	for i, n := range s.Nodes {
		if len(n.Parents) <= 1 {
			members[bk{n.Repo, n.Branch}] = append(members[bk{n.Repo, n.Branch}], i)
		}
	}
	for k, ms := range members {
		if k.name == "" {
			continue // the unnamed branch also collects merge results; only the fork rule above applies to it
		}
		starts, leaves := 0, []int{}
		for _, i := range ms {
			n := s.Nodes[i]
			if len(n.Parents) == 0 || s.Nodes[byV[n.Parents[0]]].Branch != k.name {
				starts++
			}
			cont := false
			for _, c := range n.Children {
				if ci, ok := byV[c]; ok && len(s.Nodes[ci].Parents) == 1 && s.Nodes[ci].Branch == k.name {
					cont = true
				}
			}
			if !cont {
				leaves = append(leaves, i)
			}
		}
		if starts != 1 || len(leaves) != 1 {
			add("branch-chain", "branch %q of repo %d is not one chain: %d starting points, heads %v", k.name, k.repo, starts, leaves)
			continue
		}
		if h, ok := d.BranchToUUID[w.roots[k.repo]+k.name]; ok && h != s.Nodes[leaves[0]].UUID {
			hi, known := byU[h]
			add("branch-head", "recorded head of branch %q is n%d (%v), the chain's leaf is n%d", k.name, hi, known, leaves[0])
		}
	}
	// the recorded head of a branch is a version of that branch ("master" is recorded for the unnamed default branch)
	for key, h := range d.BranchToUUID {
		for ri, root := range w.roots {
			if root == "" || !strings.HasPrefix(key, root) {
				continue
			}
			name := strings.TrimPrefix(key, root)
			hi, known := byU[h]
			if !known {
				continue // reported by the uuid invariants
			}
			want := name
			if name == "master" {
				want = ""
			}
			if s.Nodes[hi].Branch != want {
				add("branch-head-foreign", "repo %d: the recorded head of branch %q is n%d, which is on branch %q", ri, name, hi, s.Nodes[hi].Branch)
			}
		}
	}
	return bad
}

// c07Job is the unit of work for a worker: replay Path, then try every op of the alphabet from the reached state.
type c07Job struct {
	Path     []c07Op `json:"path"`
	Thorough bool    `json:"thorough"`
	MaxNodes int     `json:"max_nodes"`
	Reload   bool    `json:"reload,omitempty"` // C03 mode: after every state-changing request compare the live manager with a read-only reload
}

type c07Succ struct {
	Op    c07Op  `json:"op"`
	Canon string `json:"canon"`
	Nodes int    `json:"nodes"`
	Repos int    `json:"repos"`
	Code  int    `json:"code"`
}

type c07Viol struct {
	Class string  `json:"class"`
	What  string  `json:"what"`
	Path  []c07Op `json:"path"`
}

type c07Result struct {
	Succ        []c07Succ `json:"succ"`
	Viol        []c07Viol `json:"viol"`
	Transitions int       `json:"transitions"`
	Rejected    int       `json:"rejected"`
	Panics      int       `json:"panics"`
	Reloads     int       `json:"reloads,omitempty"`
	Err         string    `json:"err,omitempty"`
}

var c07WorldSeq int

var c07LastWorld *c07World

func c07Replay(path []c07Op) (*c07World, c07Snapshot, error) {
	// drop the previous world's repos so that the manager (and every dump of it) stays small
	if c07LastWorld != nil {
		for _, root := range c07LastWorld.roots {
			if datastore.DeleteRepo(dvid.UUID(root), "") != nil {
				datastore.DeleteRepo(dvid.UUID(root), "secret")
			}
		}
		vsrv.Quiesce()
	}
	c07WorldSeq++
	w := &c07World{tag: fmt.Sprintf("%04x%06x", c07WorkerID()&0xffff, c07WorldSeq&0xffffff)}
	s := w.snapshot()
	for i, op := range path {
		code, desc := w.exec(op, s)
		_ = code
		_ = desc
		s = w.snapshot()
		_ = i
	}
	c07LastWorld = w
	return w, s, nil
}

func c07WorkerID() int {
	var id int
	fmt.Sscanf(strings.TrimSpace(getenv("VERIF_WORKER_ID")), "%d", &id)
	return id + 1
}

func c07Worker(args []string) int {
	dir, err := mkTemp("c07w")
	if err != nil {
		fmt.Println(`{"err":"tmpdir"}`)
		return 1
	}
	defer rmAll(dir)
	if err := vsrv.Boot(dir, vsrv.Options{}); err != nil {
		fmt.Printf("{\"err\":%q}\n", err.Error())
		return 1
	}
	return vlib.ServeJobs(func(job string) string {
		var j c07Job
		var res c07Result
		if err := json.Unmarshal([]byte(job), &j); err != nil {
			res.Err = err.Error()
			b, _ := json.Marshal(res)
			return string(b)
		}
		w, s, _ := c07Replay(j.Path)
		ops := c07Alphabet(s, w, j.Thorough)
		for _, op := range ops {
			before := s
			bc, bg := before.canon(w), before.global()
			code, desc := w.exec(op, before)
			after := w.snapshot()
			res.Transitions++
			path := append(append([]c07Op{}, j.Path...), op)
			if code >= 500 {
				res.Panics++
				res.Viol = append(res.Viol, c07Viol{"server-error:" + op.K, desc, path})
			}
			// report an invariant only where this request broke it (the source state is re-checked, so a state that was
			// already malformed does not blame every later request)
			brokenBefore := map[string]bool{}
			for _, iv := range c07Invariants(before, w) {
				brokenBefore[iv[0]] = true
			}
			for _, iv := range c07Invariants(after, w) {
				if !brokenBefore[iv[0]] {
					res.Viol = append(res.Viol, c07Viol{"invariant:" + iv[0] + ":after-" + op.K + c07Outcome(code), iv[1] + " [after " + desc + "]", path})
				}
			}
			ac, ag := after.canon(w), after.global()
			if code >= 400 {
				res.Rejected++
				if ag != bg {
					res.Viol = append(res.Viol, c07Viol{"rejected-but-changed:" + op.K + ":" + op.A, fmt.Sprintf("%s was refused but the state changed:\n--- before\n%s--- after\n%s%s", desc, bc, ac, c07GlobalDiff(before, after)), path})
				}
			}
			if j.Reload && (ac != bc || ag != bg) {
				res.Reloads++
				if rs, err := w.reloaded(); err != nil {
					res.Viol = append(res.Viol, c07Viol{"reload:load-fails:after-" + op.K, fmt.Sprintf("metadata written by %s cannot be loaded: %v", desc, err), path})
				} else {
					if class, what := c07ReloadDiff(w, after, rs); class != "" {
						res.Viol = append(res.Viol, c07Viol{"reload:" + class + ":after-" + op.K + c07Outcome(code), what + " [after " + desc + "]", path})
					}
					brokenLive := map[string]bool{}
					for _, iv := range c07Invariants(after, w) {
						brokenLive[iv[0]] = true
					}
					for _, iv := range c07Invariants(rs, w) {
						if !brokenLive[iv[0]] {
							res.Viol = append(res.Viol, c07Viol{"reload:invariant:" + iv[0] + ":after-" + op.K, "reloaded metadata: " + iv[1] + " [after " + desc + "]", path})
						}
					}
				}
			}
			if ac != bc || ag != bg {
				if ac != bc {
					res.Succ = append(res.Succ, c07Succ{Op: op, Canon: ac, Nodes: len(after.Nodes), Repos: len(w.roots), Code: code})
				}
				// the world changed: rebuild the source state for the next op
				w, s, _ = c07Replay(j.Path)
			}
		}
		b, _ := json.Marshal(res)
		return string(b)
	})
}

// c07ReloadDiff compares the live manager with the reloaded one: DAG, flags, notes, logs, instances, branch heads,
// identifier maps and the three id counters (mutation ids are excluded: documented to jump forward).
func c07ReloadDiff(w *c07World, live, re c07Snapshot) (class, what string) {
	lc, rc := strings.Split(live.canon(w), "\n"), strings.Split(re.canon(w), "\n")
	for i := 0; i < len(lc) || i < len(rc); i++ {
		var a, b string
		if i < len(lc) {
			a = lc[i]
		}
		if i < len(rc) {
			b = rc[i]
		}
		if a == b {
			continue
		}
		line := a
		if line == "" {
			line = b
		}
		class = "node"
		switch {
		case strings.Contains(line, " heads "):
			class = "branch-heads"
		case strings.Contains(line, " instances=") || strings.Contains(line, " deleted"):
			class = "repo"
		}
		return class, fmt.Sprintf("a restart would change the repo metadata:\n--- live\n%s\n--- reloaded\n%s\n(first difference: %q vs %q)", strings.Join(lc, "\n"), strings.Join(rc, "\n"), a, b)
	}
	for _, lr := range live.Dump.Repos {
		for _, rr := range re.Dump.Repos {
			if lr.Root != rr.Root {
				continue
			}
			for name, lc := range lr.InstanceConfig {
				if rcfg, ok := rr.InstanceConfig[name]; ok && c07CanonConfig(rcfg) != c07CanonConfig(lc) {
					return "instance-settings", fmt.Sprintf("a restart would change the settings of instance %q: live %s, reloaded %s", name, lc, rcfg)
				}
			}
		}
	}
	stripConfig := func(d *datastore.VerifState) { // compared above, modulo empty members
		repos := append([]datastore.VerifRepo{}, d.Repos...)
		for i := range repos {
			repos[i].InstanceConfig = nil
		}
		d.Repos = repos
	}
	stripConfig(&live.Dump)
	stripConfig(&re.Dump)
	live.Dump.OtherBranchEntries, re.Dump.OtherBranchEntries = 0, 0 // entries of other worlds' repos (outside the dump's prefixes)
	if lg, rg := live.global(), re.global(); lg != rg {
		return "maps", "a restart would change the identifier maps: " + c07GlobalDiff(live, re) + c07GlobalDiff(re, live)
	}
	l, r := live.Dump, re.Dump
	if l.NextRepoID != r.NextRepoID || l.NextVersionID != r.NextVersionID || l.NextInstance != r.NextInstance {
		return "counters", fmt.Sprintf("a restart would change the id counters: live repo/version/instance = %d/%d/%d, reloaded = %d/%d/%d",
			l.NextRepoID, l.NextVersionID, l.NextInstance, r.NextRepoID, r.NextVersionID, r.NextInstance)
	}
	return "", ""
}

// c07CanonConfig drops empty members from an instance's JSON: null, {} and [] are the same observable (a reloaded
// instance reports an empty tag map where a freshly created one reports null).
func c07CanonConfig(js string) string {
	var v interface{}
	if json.Unmarshal([]byte(js), &v) != nil {
		return js
	}
	var walk func(v interface{}) interface{}
	walk = func(v interface{}) interface{} {
		switch t := v.(type) {
		case map[string]interface{}:
			m := map[string]interface{}{}
			for k, x := range t {
				switch e := x.(type) {
				case nil:
					continue
				case map[string]interface{}:
					if len(e) == 0 {
						continue
					}
				case []interface{}:
					if len(e) == 0 {
						continue
					}
				}
				m[k] = walk(x)
			}
			return m
		case []interface{}:
			for i := range t {
				t[i] = walk(t[i])
			}
		}
		return v
	}
	b, _ := json.Marshal(walk(v))
	return string(b)
}

func c07Outcome(code int) string {
	if code >= 400 {
		return "-rejected"
	}
	return "-accepted"
}

func c07GlobalDiff(a, b c07Snapshot) string {
	var sb strings.Builder
	for u, v := range b.Dump.UUIDToVersion {
		if v0, ok := a.Dump.UUIDToVersion[u]; !ok || v0 != v {
			fmt.Fprintf(&sb, "uuidToVersion[%s]: %d(present %v) -> %d\n", u, v0, ok, v)
		}
	}
	for u := range a.Dump.UUIDToVersion {
		if _, ok := b.Dump.UUIDToVersion[u]; !ok {
			fmt.Fprintf(&sb, "uuidToVersion[%s] removed\n", u)
		}
	}
	for v, u := range b.Dump.VersionToUUID {
		if u0, ok := a.Dump.VersionToUUID[v]; !ok || u0 != u {
			fmt.Fprintf(&sb, "versionToUUID[%d]: %q -> %q\n", v, u0, u)
		}
	}
	for u, r := range b.Dump.RepoOfUUID {
		if r0, ok := a.Dump.RepoOfUUID[u]; !ok || r0 != r {
			fmt.Fprintf(&sb, "repos[%s]: %q -> %q\n", u, r0, r)
		}
	}
	return sb.String()
}

func runC07(c *vlib.Ctx) {
	depth, maxNodes := 5, 4
	if c.Thorough() {
		depth, maxNodes = 7, 6
		// the last levels hold millions of states: levels are expanded in chunks and the run stops at the budget,
		// reporting the depth completed and how much of the next level was expanded
		c.Deadline = time.Now().Add(35 * time.Minute)
	}
	states, transitions, rejected, _ := c07BFS(c, depth, maxNodes, false)
	c.Set("states", states)
	c.Set("transitions", transitions)
	c.Set("rejected_requests", rejected)
	c.Set("traces_validated_against_impl", transitions)
	c.Set("bound", fmt.Sprintf("BFS depth %d from a one-repo world; states with more than %d nodes or 2 repos are checked but not expanded", depth, maxNodes))
	c.Sample(map[string]interface{}{"history": "newrepo(plain) commit(n0) branch(n0,b1,none) merge([0 1]) -> refused; state compared before/after"})
	c.Set("rule", "state = canonical form of the world's repos (nodes renamed by creation order: parents, children, lock, branch, note, log length; instances; branch heads); transition = one real request; invariants: one root, acyclic, parent/child mirror, uuid/version maps inverse and complete, committed parents only, named branches are single chains with the recorded head at the leaf, refused request => manager state unchanged")
	c.Assume("each worker process explores its histories sequentially on its own store, so a change of the manager dump between two snapshots is caused by the one request in between")
}

// c07BFS is the breadth-first exploration of repo-level request histories. With reload=false it is the C07 check
// (violations = broken invariants / refused-but-changed). With reload=true it serves C03: the same histories, but the
// only violations reported are differences between the live repo manager and a read-only reload of the stored metadata
// after every state-changing request (and invariants broken only in the reloaded copy).
func c07BFS(c *vlib.Ctx, depth, maxNodes int, reload bool) (states, transitions, rejected, reloads int64) {
	type st struct{ path []c07Op }
	seen := map[string]bool{}
	frontier := []st{{path: []c07Op{{K: "newrepo", A: "plain"}}}}
	states = 1
	for d := 1; d <= depth && len(frontier) > 0; d++ {
		jobs := make([]string, len(frontier))
		for i, f := range frontier {
			b, _ := json.Marshal(c07Job{Path: f.path, Thorough: c.Thorough(), MaxNodes: maxNodes, Reload: reload})
			jobs[i] = string(b)
		}
		// a fixed stride order over the level, so that a level cut short by the budget is sampled evenly, not by prefix
		order := make([]int, 0, len(jobs))
		const stride = 64
		for off := 0; off < stride; off++ {
			for i := off; i < len(jobs); i += stride {
				order = append(order, i)
			}
		}
		results := make([]vlib.PoolResult, len(jobs))
		done := make([]bool, len(jobs))
		expanded := 0
		for lo := 0; lo < len(order); lo += 4096 {
			if c.OverBudget() {
				break
			}
			hi := lo + 4096
			if hi > len(order) {
				hi = len(order)
			}
			chunk := make([]string, hi-lo)
			for k := lo; k < hi; k++ {
				chunk[k-lo] = jobs[order[k]]
			}
			for k, r := range vlib.Pool("c07", nil, 16, chunk) {
				results[order[lo+k]] = r
				done[order[lo+k]] = true
				expanded++
			}
		}
		if expanded < len(jobs) {
			c.Cap(fmt.Sprintf("time budget reached inside depth %d: %d of %d frontier states expanded (fixed stride order); depth %d completed", d, expanded, len(jobs), d-1))
		}
		var next []st
		for i, r := range results {
			if !done[i] {
				continue
			}
			if r.Died && r.TimedOut {
				c.Cap(fmt.Sprintf("watchdog: exploring from %v exceeded %v (goroutine dump: %s)", frontier[i].path, vlib.JobTimeout, tail(r.Stderr, 1500)))
				continue
			}
			if r.Died {
				c.Violate("worker-death", fmt.Sprintf("worker died while exploring from %v: %s", frontier[i].path, tail(r.Stderr, 800)), map[string]interface{}{"path": frontier[i].path})
				continue
			}
			var res c07Result
			if err := json.Unmarshal([]byte(r.Out), &res); err != nil || res.Err != "" {
				c.Violate("harness:result", fmt.Sprintf("bad worker answer %q %v", r.Out[:min(200, len(r.Out))], err), nil)
				continue
			}
			transitions += int64(res.Transitions)
			rejected += int64(res.Rejected)
			reloads += int64(res.Reloads)
			c.Eval(int64(res.Transitions))
			for _, v := range res.Viol {
				if reload != strings.HasPrefix(v.Class, "reload:") {
					continue
				}
				c.Violate(v.Class, v.What+" | history: "+fmt.Sprint(v.Path), map[string]interface{}{"history": v.Path})
			}
			for _, su := range res.Succ {
				c.Outcome(fmt.Sprintf("%s:%d", su.Op.K, su.Code/100))
				if seen[su.Canon] {
					continue
				}
				seen[su.Canon] = true
				states++
				c.Nontrivial(su.Canon)
				if su.Nodes <= maxNodes && su.Repos <= 2 {
					next = append(next, st{path: append(append([]c07Op{}, frontier[i].path...), su.Op)})
				}
			}
		}
		if reload {
			c.Set(fmt.Sprintf("dagreload_frontier_depth_%d", d), len(frontier))
		} else {
			c.Set(fmt.Sprintf("frontier_depth_%d", d), len(frontier))
		}
		frontier = next
		if c.OverBudget() {
			c.Cap(fmt.Sprintf("time budget reached after completing depth %d", d))
			break
		}
	}
	return
}
