package checks

// C11 scenarios: worlds, concurrent request bodies and verdicts. Shared by the scheduler-controlled exploration (c11.go,
// instrumented build) and the free-running complement (c11free.go, plain build).

import (
	"encoding/json"
	"fmt"
	"sort"
	"strings"

	"github.com/janelia-flyem/dvid/datastore"
	"github.com/janelia-flyem/dvid/datatype/labelmap"
	"github.com/janelia-flyem/dvid/dvid"

	"verif/vsrv"
)

// c11Scenario: setup builds a fresh world (uncontrolled); bodies are the concurrent requests; verdict inspects the result.
type c11World struct {
	root  string
	nodes map[string]string
	resp  []vsrv.Resp
	extra map[string]interface{}
}

type c11Scenario struct {
	name    string
	setup   func() (*c11World, error)
	bodies  func(w *c11World) []func()
	verdict func(w *c11World) []string // violation classes with text: "class\ttext"
	// observe, if set, renders the quiescent outcome (response codes + final state); the explored outcome must be one
	// that some sequential order of the same requests produces on the same code
	observe func(w *c11World) string
	// quietGate: the requests hand work to worker-pool goroutines that were started before the run (labelmap block
	// mutation handlers); the scheduler then decides "parked on a channel" from goroutine states and lets those
	// goroutines finish between two controlled steps (see vsync.Quiet)
	quietGate bool
	// devBound: count every departure from the default schedule (also the free choice made when the running thread blocks
	// or ends), not only preemptions. With three request threads the free choices multiply the preemption-bounded tree
	// beyond reach; bounding deviations keeps "two departures anywhere" enumerable.
	devBound bool
}

func c11KVWorld() (*c11World, error) {
	root, err := vsrv.NewRepo()
	if err != nil {
		return nil, err
	}
	if err := vsrv.NewInstance(root, "keyvalue", "kv", nil); err != nil {
		return nil, err
	}
	return &c11World{root: root, nodes: map[string]string{}, resp: make([]vsrv.Resp, 4)}, nil
}

func acked(r vsrv.Resp) bool { return r.OK() }

// c11PersistedIDs: the id counters persisted in the metadata store must not lag behind the counters in memory once the
// requests have returned - the stored value is what the next process starts from.
func c11PersistedIDs() (bad []string) {
	mem, stored, err := datastore.VerifIDCounters()
	if err != nil {
		return nil
	}
	for i, name := range []string{"repo", "version", "instance"} {
		if stored[i] < mem[i] {
			bad = append(bad, fmt.Sprintf("persisted-%s-id-behind\tafter the requests returned the stored next %s id is %d but ids below %d have been issued: a restart would issue %d again", name, name, stored[i], mem[i], stored[i]))
		}
	}
	return
}

func c11Scenarios() []c11Scenario {
	var sc []c11Scenario
	// ---- S1 key-value ----
	sc = append(sc, c11Scenario{name: "S1a:kv:post||post||get", setup: c11KVWorld,
		bodies: func(w *c11World) []func() {
			u := "node/" + w.root + "/kv/key/k"
			return []func(){func() { w.resp[0] = vsrv.PostS(u, "v1") }, func() { w.resp[1] = vsrv.PostS(u, "v2") }, func() { w.resp[2] = vsrv.Get(u) }}
		},
		verdict: func(w *c11World) (bad []string) {
			final := vsrv.Get("node/" + w.root + "/kv/key/k")
			if !acked(w.resp[0]) || !acked(w.resp[1]) {
				bad = append(bad, fmt.Sprintf("post-refused\tconcurrent POSTs answered %s / %s", w.resp[0], w.resp[1]))
			}
			if final.Code != 200 || (string(final.Body) != "v1" && string(final.Body) != "v2") {
				bad = append(bad, fmt.Sprintf("final-value\tafter two acknowledged POSTs the key reads %s", final))
			}
			if g := w.resp[2]; !(g.Code == 404 || g.Code == 200 && (string(g.Body) == "v1" || string(g.Body) == "v2")) {
				bad = append(bad, fmt.Sprintf("concurrent-read\tconcurrent GET answered %s", g))
			}
			return
		}})
	sc = append(sc, c11Scenario{name: "S1b:kv:post||delete", setup: func() (*c11World, error) {
		w, err := c11KVWorld()
		if err == nil {
			vsrv.PostS("node/"+w.root+"/kv/key/k", "old")
		}
		return w, err
	},
		bodies: func(w *c11World) []func() {
			u := "node/" + w.root + "/kv/key/k"
			return []func(){func() { w.resp[0] = vsrv.PostS(u, "new") }, func() { w.resp[1] = vsrv.Delete(u) }}
		},
		verdict: func(w *c11World) (bad []string) {
			final := vsrv.Get("node/" + w.root + "/kv/key/k")
			keys := vsrv.Get("node/" + w.root + "/kv/keys")
			okFinal := final.Code == 404 && strings.TrimSpace(string(keys.Body)) == "[]" || final.Code == 200 && string(final.Body) == "new" && strings.Contains(string(keys.Body), `"k"`)
			if !okFinal {
				bad = append(bad, fmt.Sprintf("final-state\tafter POST || DELETE the key reads %s and the listing is %s", final, keys))
			}
			return
		}})
	// ---- S2 repo ----
	repoWorld := func() (*c11World, error) {
		root, err := vsrv.NewRepo()
		if err != nil {
			return nil, err
		}
		vsrv.NewInstance(root, "keyvalue", "kv", nil)
		vsrv.Commit(root)
		return &c11World{root: root, nodes: map[string]string{}, resp: make([]vsrv.Resp, 4)}, nil
	}
	children := func(w *c11World) (all []datastore.VerifNode, dump datastore.VerifState) {
		dump = datastore.VerifDump(w.root)
		for _, r := range dump.Repos {
			if r.Root == w.root {
				all = r.Nodes
			}
		}
		return
	}
	invariants := func(w *c11World) (bad []string) {
		world := &c07World{roots: []string{w.root}}
		for _, iv := range c07Invariants(world.snapshot(), world) {
			bad = append(bad, "dag-"+iv[0]+"\t"+iv[1])
		}
		return
	}
	sc = append(sc, c11Scenario{name: "S2a:repo:newversion||newversion", setup: repoWorld,
		bodies: func(w *c11World) []func() {
			return []func(){func() { w.resp[0] = vsrv.PostS("node/"+w.root+"/newversion", `{"note":"a"}`) }, func() { w.resp[1] = vsrv.PostS("node/"+w.root+"/newversion", `{"note":"b"}`) }}
		},
		verdict: func(w *c11World) (bad []string) {
			nodes, _ := children(w)
			n := 0
			for _, nd := range nodes {
				if len(nd.Parents) == 1 && nd.Branch == "" {
					n++
				}
			}
			ack := 0
			for _, r := range w.resp[:2] {
				if acked(r) {
					ack++
				}
			}
			if n > 1 {
				bad = append(bad, fmt.Sprintf("two-children-same-branch\ttwo concurrent newversion requests on one committed parent were answered %d / %d and left %d children on the parent's branch", w.resp[0].Code, w.resp[1].Code, n))
			}
			if ack != n {
				bad = append(bad, fmt.Sprintf("ack-mismatch\t%d newversion requests acknowledged but %d children exist", ack, n))
			}
			return append(bad, invariants(w)...)
		}})
	sc = append(sc, c11Scenario{name: "S2b:repo:branch||branch", setup: repoWorld,
		bodies: func(w *c11World) []func() {
			return []func(){func() { w.resp[0] = vsrv.PostS("node/"+w.root+"/branch", `{"branch":"b","note":"a"}`) }, func() { w.resp[1] = vsrv.PostS("node/"+w.root+"/branch", `{"branch":"b","note":"b"}`) }}
		},
		verdict: func(w *c11World) (bad []string) {
			nodes, _ := children(w)
			n := 0
			for _, nd := range nodes {
				if nd.Branch == "b" {
					n++
				}
			}
			if n > 1 {
				bad = append(bad, fmt.Sprintf("two-heads-one-branch\ttwo concurrent branch requests with one name (answered %d / %d) created %d nodes on branch b", w.resp[0].Code, w.resp[1].Code, n))
			}
			return append(bad, invariants(w)...)
		}})
	sc = append(sc, c11Scenario{name: "S2c:repo:commit||note", setup: func() (*c11World, error) {
		w, err := repoWorld()
		if err == nil {
			w.nodes["c"], err = vsrv.NewVersion(w.root)
		}
		return w, err
	},
		bodies: func(w *c11World) []func() {
			c := w.nodes["c"]
			return []func(){func() { w.resp[0] = vsrv.PostS("node/"+c+"/commit", `{"note":"committed"}`) }, func() { w.resp[1] = vsrv.PostS("node/"+c+"/note", `{"note":"annotated"}`) }}
		},
		verdict: func(w *c11World) (bad []string) { return invariants(w) },
		observe: func(w *c11World) string {
			c := w.nodes["c"]
			return fmt.Sprintf("commit=%d note=%d locked=%s note=%s", w.resp[0].Code, w.resp[1].Code, strings.TrimSpace(string(vsrv.Get("node/"+c+"/commit").Body)), strings.TrimSpace(string(vsrv.Get("node/"+c+"/note").Body)))
		}})
	sc = append(sc, c11Scenario{name: "S2d:repo:newversion||newinstance||commit-other", setup: func() (*c11World, error) {
		w, err := repoWorld()
		if err == nil {
			w.nodes["o"], err = vsrv.Branch(w.root, "open")
		}
		return w, err
	},
		bodies: func(w *c11World) []func() {
			return []func(){func() { w.resp[0] = vsrv.PostS("node/"+w.root+"/newversion", `{"note":"a"}`) },
				func() {
					w.resp[1] = vsrv.PostS("repo/"+w.nodes["o"]+"/instance", `{"typename":"keyvalue","dataname":"late"}`)
				},
				func() { w.resp[2] = vsrv.PostS("node/"+w.nodes["o"]+"/commit", `{"note":"c"}`) }}
		},
		verdict: func(w *c11World) (bad []string) {
			_, dump := children(w)
			if acked(w.resp[1]) {
				found := false
				for _, r := range dump.Repos {
					for _, in := range r.Instances {
						if strings.HasPrefix(in, "late:") {
							found = true
						}
					}
				}
				if !found {
					bad = append(bad, "instance-lost\tinstance creation acknowledged but the instance is missing from the repo")
				}
			}
			nodes, _ := children(w)
			if acked(w.resp[0]) && len(nodes) != 3 {
				bad = append(bad, fmt.Sprintf("child-lost\tnewversion acknowledged but the repo has %d nodes", len(nodes)))
			}
			return append(bad, invariants(w)...)
		}})
	// ---- S3 annotation ----
	annWorld := func() (*c11World, error) {
		root, err := vsrv.NewRepo()
		if err != nil {
			return nil, err
		}
		if err := vsrv.NewInstance(root, "annotation", "ann", nil); err != nil {
			return nil, err
		}
		vsrv.PostS("node/"+root+"/ann/elements", `[{"Pos":[5,5,5],"Kind":"Note","Tags":["t0"],"Prop":{},"Rels":[]}]`)
		return &c11World{root: root, nodes: map[string]string{}, resp: make([]vsrv.Resp, 4)}, nil
	}
	elems := func(w *c11World, path string) map[string]bool {
		x := vsrv.Get("node/" + w.root + "/ann/" + path)
		out := map[string]bool{}
		var list []annElem
		if json.Unmarshal(x.Body, &list) == nil {
			for _, e := range list {
				out[fmt.Sprint(e.Pos)] = true
			}
			return out
		}
		var blocks map[string][]annElem
		if json.Unmarshal(x.Body, &blocks) == nil {
			for _, l := range blocks {
				for _, e := range l {
					out[fmt.Sprint(e.Pos)] = true
				}
			}
		}
		return out
	}
	sc = append(sc, c11Scenario{name: "S3a:annotation:post||post:same-block", setup: annWorld,
		bodies: func(w *c11World) []func() {
			u := "node/" + w.root + "/ann/elements"
			return []func(){func() {
				w.resp[0] = vsrv.PostS(u, `[{"Pos":[10,10,10],"Kind":"Note","Tags":["t1"],"Prop":{},"Rels":[]}]`)
			},
				func() {
					w.resp[1] = vsrv.PostS(u, `[{"Pos":[20,20,20],"Kind":"Note","Tags":["t1"],"Prop":{},"Rels":[]}]`)
				}}
		},
		verdict: func(w *c11World) (bad []string) {
			all := elems(w, "all-elements")
			tag := elems(w, "tag/t1")
			for i, p := range []string{"[10 10 10]", "[20 20 20]"} {
				if acked(w.resp[i]) && !all[p] {
					bad = append(bad, fmt.Sprintf("element-lost:block\tPOST of element %s was acknowledged but it is missing from the block store (all-elements has %v)", p, keysS(all)))
				}
				if acked(w.resp[i]) && !tag[p] {
					bad = append(bad, fmt.Sprintf("element-lost:tag\tPOST of element %s was acknowledged but it is missing from tag t1 (tag has %v)", p, keysS(tag)))
				}
			}
			if !all["[5 5 5]"] {
				bad = append(bad, "element-lost:preexisting\tthe pre-existing element of the block disappeared")
			}
			return
		}})
	sc = append(sc, c11Scenario{name: "S3b:annotation:post||delete:same-block", setup: annWorld,
		bodies: func(w *c11World) []func() {
			return []func(){func() {
				w.resp[0] = vsrv.PostS("node/"+w.root+"/ann/elements", `[{"Pos":[10,10,10],"Kind":"Note","Tags":["t0"],"Prop":{},"Rels":[]}]`)
			},
				func() { w.resp[1] = vsrv.Delete("node/" + w.root + "/ann/element/5_5_5") }}
		},
		verdict: func(w *c11World) (bad []string) {
			all := elems(w, "all-elements")
			tag := elems(w, "tag/t0")
			if acked(w.resp[0]) && (!all["[10 10 10]"] || !tag["[10 10 10]"]) {
				bad = append(bad, fmt.Sprintf("element-lost\tacknowledged POST missing after a concurrent DELETE in the same block: block %v tag %v", keysS(all), keysS(tag)))
			}
			if acked(w.resp[1]) && (all["[5 5 5]"] || tag["[5 5 5]"]) {
				bad = append(bad, fmt.Sprintf("delete-lost\tacknowledged DELETE undone by a concurrent POST in the same block: block %v tag %v", keysS(all), keysS(tag)))
			}
			return
		}})
	// ---- S5 neuronjson ----
	njWorld := func() (*c11World, error) {
		root, err := vsrv.NewRepo()
		if err != nil {
			return nil, err
		}
		if err := vsrv.NewInstance(root, "neuronjson", "nj", nil); err != nil {
			return nil, err
		}
		vsrv.PostS("node/"+root+"/nj/key/1?u=t", `{"bodyid":1,"z":"0"}`)
		return &c11World{root: root, nodes: map[string]string{}, resp: make([]vsrv.Resp, 4)}, nil
	}
	sc = append(sc, c11Scenario{name: "S5a:neuronjson:post||post:same-key", setup: njWorld,
		bodies: func(w *c11World) []func() {
			u := "node/" + w.root + "/nj/key/1?u=t"
			return []func(){func() { w.resp[0] = vsrv.PostS(u, `{"bodyid":1,"a":"x"}`) }, func() { w.resp[1] = vsrv.PostS(u, `{"bodyid":1,"b":"y"}`) }}
		},
		verdict: func(w *c11World) (bad []string) {
			// partial updates merge fields: either order leaves a, b and z
			for _, path := range []string{"node/" + w.root + "/nj/key/1"} {
				x := vsrv.Get(path)
				var m map[string]interface{}
				json.Unmarshal(x.Body, &m)
				for i, f := range []string{"a", "b"} {
					if acked(w.resp[i]) && m[f] == nil {
						bad = append(bad, fmt.Sprintf("field-lost\ttwo acknowledged partial updates of one key raced; field %q is missing afterwards: %s", f, x))
					}
				}
				if m["z"] == nil {
					bad = append(bad, "field-lost:preexisting\tthe pre-existing field disappeared: "+x.String())
				}
			}
			// memory vs store: commit and read the committed version through the store path
			vsrv.Commit(w.root)
			child, _ := vsrv.NewVersion(w.root)
			a, b := vsrv.Get("node/"+w.root+"/nj/key/1"), vsrv.Get("node/"+child+"/nj/key/1")
			if njNormalize(a.Code, a.Body) != njNormalize(b.Code, b.Body) {
				bad = append(bad, fmt.Sprintf("memory-store-disagree\tafter the race the store path answers %s and the in-memory path %s", a, b))
			}
			return
		}})
	// S5d: three partial updates of one key (a lock that is handed from the first to the second request while a third
	// arrives is the smallest shape in which a per-key lock table can go wrong)
	sc = append(sc, c11Scenario{name: "S5d:neuronjson:post||post||post:same-key", devBound: true, setup: njWorld,
		bodies: func(w *c11World) []func() {
			u := "node/" + w.root + "/nj/key/1?u=t"
			return []func(){func() { w.resp[0] = vsrv.PostS(u, `{"bodyid":1,"a":"x"}`) }, func() { w.resp[1] = vsrv.PostS(u, `{"bodyid":1,"b":"y"}`) },
				func() { w.resp[2] = vsrv.PostS(u, `{"bodyid":1,"c":"w"}`) }}
		},
		verdict: func(w *c11World) (bad []string) {
			x := vsrv.Get("node/" + w.root + "/nj/key/1")
			var m map[string]interface{}
			json.Unmarshal(x.Body, &m)
			for i, f := range []string{"a", "b", "c"} {
				if acked(w.resp[i]) && m[f] == nil {
					bad = append(bad, fmt.Sprintf("field-lost\tthree acknowledged partial updates of one key raced; field %q is missing afterwards: %s", f, x))
				}
			}
			if m["z"] == nil {
				bad = append(bad, "field-lost:preexisting\tthe pre-existing field disappeared: "+x.String())
			}
			vsrv.Commit(w.root)
			child, _ := vsrv.NewVersion(w.root)
			a, b := vsrv.Get("node/"+w.root+"/nj/key/1"), vsrv.Get("node/"+child+"/nj/key/1")
			if njNormalize(a.Code, a.Body) != njNormalize(b.Code, b.Body) {
				bad = append(bad, fmt.Sprintf("memory-store-disagree\tafter the race the store path answers %s and the in-memory path %s", a, b))
			}
			return
		}})
	// ---- S4 labelmap ----
	lmWorld := func() (*c11World, error) {
		root, err := vsrv.NewRepo()
		if err != nil {
			return nil, err
		}
		if err := vsrv.NewInstance(root, "labelmap", "lm", map[string]string{"BlockSize": "16,16,16"}); err != nil {
			return nil, err
		}
		v := newLMVol([3]int{0, 0, 0}, [3]int{c08NX, c08NY, c08NZ})
		copy(v.v, c08InitialVolume(false))
		if r := lmPostRaw(root, "lm", v, false); !r.OK() {
			return nil, fmt.Errorf("ingest: %s", r)
		}
		vsrv.Quiesce()
		return &c11World{root: root, nodes: map[string]string{}, resp: make([]vsrv.Resp, 4)}, nil
	}
	lmVerdict := func(expect func(w *c11World, M map[uint64]uint64) []string) func(w *c11World) []string {
		return func(w *c11World) (bad []string) {
			vsrv.Quiesce()
			mp, _ := lmMapping(w.root, "lm", []uint64{1, 2, 3, 4, 5})
			M := map[uint64]uint64{}
			for i, s := range []uint64{1, 2, 3, 4, 5} {
				if i < len(mp) {
					M[s] = mp[i]
				}
			}
			bad = append(bad, expect(w, M)...)
			// index / voxel consistency through the C08 scan oracle, with the model taken from the server's own mapping
			cw := &c08World{m: &c08Model{vers: []*c08Version{{sv: c08InitialVolume(false), mapping: map[uint64]uint64{}, parent: -1}}}, uuids: []string{w.root}}
			for s, b := range M {
				if b != s && b != 0 {
					cw.m.vers[0].mapping[s] = b
				}
			}
			cw.remember()
			if vs := cw.check(); len(vs) > 0 {
				// one lost index update shows up in many read endpoints: one class per scenario
				var eps, msgs []string
				for i, v := range vs {
					eps = append(eps, strings.TrimPrefix(v.Key, "scan:"))
					if i < 3 {
						msgs = append(msgs, v.What)
					}
				}
				bad = append(bad, fmt.Sprintf("index-inconsistent\tafter both requests were acknowledged the label index of the shared body disagrees with the stored voxels + mapping in %v: %s", eps, strings.Join(msgs, " ; ")))
			}
			return
		}
	}
	sc = append(sc, c11Scenario{name: "S4a:labelmap:merge||merge:same-target", setup: lmWorld,
		bodies: func(w *c11World) []func() {
			return []func(){func() { w.resp[0] = lmMerge(w.root, "lm", 1, 2) }, func() { w.resp[1] = lmMerge(w.root, "lm", 1, 3) }}
		},
		verdict: lmVerdict(func(w *c11World, M map[uint64]uint64) (bad []string) {
			for i, s := range []uint64{2, 3} {
				if acked(w.resp[i]) && M[s] != 1 {
					bad = append(bad, fmt.Sprintf("merge-lost\tmerge of body %d into 1 acknowledged but supervoxel %d maps to %d", s, s, M[s]))
				}
			}
			return
		})})
	sc = append(sc, c11Scenario{name: "S4b:labelmap:merge||cleave:same-body", setup: func() (*c11World, error) {
		w, err := lmWorld()
		if err == nil {
			lmMerge(w.root, "lm", 1, 4)
			vsrv.Quiesce()
		}
		return w, err
	},
		bodies: func(w *c11World) []func() {
			return []func(){func() { w.resp[0] = lmMerge(w.root, "lm", 1, 2) }, func() {
				var l uint64
				l, w.resp[1] = lmCleave(w.root, "lm", 1, 4)
				w.extra = map[string]interface{}{"cleaved": l}
			}}
		},
		verdict: lmVerdict(func(w *c11World, M map[uint64]uint64) (bad []string) {
			if acked(w.resp[0]) && M[2] != 1 {
				bad = append(bad, fmt.Sprintf("merge-lost\tmerge 1<-2 acknowledged but supervoxel 2 maps to %d", M[2]))
			}
			if acked(w.resp[1]) {
				if l, _ := w.extra["cleaved"].(uint64); M[4] != l {
					bad = append(bad, fmt.Sprintf("cleave-lost\tcleave of supervoxel 4 acknowledged (new body %d) but it maps to %d", l, M[4]))
				}
			}
			return
		})})
	// ---- S6 identifiers (C12 under concurrency) ----
	sc = append(sc, c11Scenario{name: "S6a:ids:nextlabel||nextlabel", setup: lmWorld,
		bodies: func(w *c11World) []func() {
			return []func(){func() { w.resp[0] = vsrv.Post("node/"+w.root+"/lm/nextlabel/2", nil) }, func() { w.resp[1] = vsrv.Post("node/"+w.root+"/lm/nextlabel/3", nil) }}
		},
		verdict: func(w *c11World) (bad []string) {
			type rng struct{ Start, End uint64 }
			var r [2]rng
			for i := 0; i < 2; i++ {
				if !acked(w.resp[i]) {
					return
				}
				json.Unmarshal(w.resp[i].Body, &r[i])
			}
			if r[0].Start <= r[1].End && r[1].Start <= r[0].End {
				bad = append(bad, fmt.Sprintf("label-ranges-overlap\ttwo concurrent nextlabel requests were given overlapping label ranges %v and %v", r[0], r[1]))
			}
			for i, want := range []uint64{2, 3} {
				if r[i].End-r[i].Start+1 != want || r[i].Start <= 5 {
					bad = append(bad, fmt.Sprintf("label-range-wrong\tnextlabel/%d answered %s (existing labels are 1..5)", want, w.resp[i]))
				}
			}
			var ml struct{ MaxLabel uint64 }
			x := vsrv.Get("node/" + w.root + "/lm/maxlabel")
			json.Unmarshal(x.Body, &ml)
			if hi := r[0].End; ml.MaxLabel < hi || ml.MaxLabel < r[1].End {
				bad = append(bad, fmt.Sprintf("maxlabel-behind\tafter nextlabel ranges %v and %v were handed out, maxlabel reports %d", r[0], r[1], ml.MaxLabel))
			}
			// the counters in the store (what a restart would load) must not be behind the labels handed out
			if d, err := datastore.GetDataByUUIDName(dvid.UUID(w.root), "lm"); err == nil {
				if lm, ok := d.(*labelmap.Data); ok {
					v, _ := datastore.VersionFromUUID(dvid.UUID(w.root))
					hi := r[0].End
					if r[1].End > hi {
						hi = r[1].End
					}
					vm, vok, rm, rok, err := labelmap.VerifStoredMaxLabels(lm, v)
					if err == nil && ((vok && vm < hi) || (rok && rm < hi)) {
						bad = append(bad, fmt.Sprintf("persisted-maxlabel-behind\tafter nextlabel ranges %v and %v were handed out the store holds version maximum %d (present %v) and repo-wide maximum %d (present %v): a restart would hand out labels up to %d again", r[0], r[1], vm, vok, rm, rok, hi))
					}
				}
			}
			nx := vsrv.Post("node/"+w.root+"/lm/nextlabel/1", nil)
			var r3 rng
			json.Unmarshal(nx.Body, &r3)
			if nx.OK() && (r3.Start <= r[0].End || r3.Start <= r[1].End) {
				bad = append(bad, fmt.Sprintf("label-reissued\ta later nextlabel returned %v, not above the ranges %v and %v handed out concurrently before", r3, r[0], r[1]))
			}
			return
		}})
	sc = append(sc, c11Scenario{name: "S6b:ids:newinstance||newinstance", setup: func() (*c11World, error) {
		root, err := vsrv.NewRepo()
		return &c11World{root: root, nodes: map[string]string{}, resp: make([]vsrv.Resp, 4)}, err
	},
		bodies: func(w *c11World) []func() {
			mk := func(i int, name string) func() {
				return func() {
					w.resp[i] = vsrv.PostS("repo/"+w.root+"/instance", fmt.Sprintf(`{"typename":"keyvalue","dataname":%q}`, name))
				}
			}
			return []func(){mk(0, "a"), mk(1, "b")}
		},
		verdict: func(w *c11World) (bad []string) {
			x := vsrv.Get("repo/" + w.root + "/info")
			var info struct {
				DataInstances map[string]struct {
					Base struct {
						ID       uint32
						DataUUID string
					}
				}
			}
			json.Unmarshal(x.Body, &info)
			for i, name := range []string{"a", "b"} {
				if _, ok := info.DataInstances[name]; acked(w.resp[i]) && !ok {
					bad = append(bad, fmt.Sprintf("instance-lost\tPOST instance %q was acknowledged (%s) but the repo does not list it", name, w.resp[i]))
				}
			}
			a, okA := info.DataInstances["a"]
			b, okB := info.DataInstances["b"]
			if okA && okB {
				ids := map[string]string{}
				for _, r := range datastore.VerifDump(w.root).Repos {
					for _, in := range r.Instances { // "name:type:instanceID"
						p := strings.Split(in, ":")
						if prev, dup := ids[p[len(p)-1]]; dup {
							bad = append(bad, fmt.Sprintf("instance-id-shared\tinstances %s and %s created concurrently share an instance id: their keys occupy the same key space", prev, in))
						}
						ids[p[len(p)-1]] = in
					}
				}
				if a.Base.DataUUID == b.Base.DataUUID {
					bad = append(bad, "data-uuid-shared\ttwo instances created concurrently share a data uuid")
				}
				// isolation: a key written to one must not be readable from the other
				vsrv.PostS("node/"+w.root+"/a/key/k", "in-a")
				if y := vsrv.Get("node/" + w.root + "/b/key/k"); y.Code == 200 {
					bad = append(bad, "instances-alias\ta key written to instance a reads back from instance b")
				}
			}
			return
		}})
	sc = append(sc, c11Scenario{name: "S6c:ids:newrepo||newrepo", setup: func() (*c11World, error) {
		root, err := vsrv.NewRepo()
		return &c11World{root: root, nodes: map[string]string{}, resp: make([]vsrv.Resp, 4)}, err
	},
		bodies: func(w *c11World) []func() {
			mk := func(i int) func() {
				return func() { w.resp[i] = vsrv.PostS("repos", fmt.Sprintf(`{"alias":"r%d","description":"d"}`, i)) }
			}
			return []func(){mk(0), mk(1)}
		},
		verdict: func(w *c11World) (bad []string) {
			var roots []string
			for i := 0; i < 2; i++ {
				var m struct{ Root string }
				json.Unmarshal(w.resp[i].Body, &m)
				if acked(w.resp[i]) {
					roots = append(roots, m.Root)
					if x := vsrv.Get("repo/" + m.Root + "/info"); !x.OK() {
						bad = append(bad, fmt.Sprintf("repo-lost\tPOST repos was acknowledged with root %s but the repo cannot be read: %s", m.Root, x))
					}
				}
			}
			if len(roots) == 2 && roots[0] == roots[1] {
				bad = append(bad, "repo-uuid-shared\ttwo repos created concurrently share a root uuid")
			}
			dump := datastore.VerifDump(append(roots, w.root)...)
			vids := map[uint32]string{}
			rids := map[uint32]string{}
			for _, r := range dump.Repos {
				if prev, dup := rids[uint32(r.ID)]; dup {
					bad = append(bad, fmt.Sprintf("repo-id-shared\trepos %s and %s share repo id %d", prev, r.Root, r.ID))
				}
				rids[uint32(r.ID)] = r.Root
				for _, n := range r.Nodes {
					if prev, dup := vids[uint32(n.Version)]; dup {
						bad = append(bad, fmt.Sprintf("version-id-shared\tnodes %s and %s share version id %d", prev, n.UUID, n.Version))
					}
					vids[uint32(n.Version)] = n.UUID
				}
			}
			return append(bad, c11PersistedIDs()...)
		}})
	sc = append(sc, c11Scenario{name: "S6d:ids:newrepo||branch||newinstance", setup: func() (*c11World, error) {
		root, err := vsrv.NewRepo()
		w := &c11World{root: root, nodes: map[string]string{}, resp: make([]vsrv.Resp, 4)}
		if err == nil {
			err = vsrv.Commit(root)
		}
		if err == nil {
			w.nodes["open"], err = vsrv.NewVersion(root)
		}
		return w, err
	},
		bodies: func(w *c11World) []func() {
			return []func(){
				func() { w.resp[0] = vsrv.PostS("repos", `{"alias":"r","description":"d"}`) },
				func() { w.resp[1] = vsrv.PostS("node/"+w.root+"/branch", `{"branch":"side","note":"n"}`) },
				func() {
					w.resp[2] = vsrv.PostS("repo/"+w.nodes["open"]+"/instance", `{"typename":"keyvalue","dataname":"k"}`)
				},
			}
		},
		verdict: func(w *c11World) (bad []string) {
			for i, what := range []string{"POST repos", "POST branch", "POST instance"} {
				if !acked(w.resp[i]) {
					bad = append(bad, fmt.Sprintf("refused\t%s was refused although nothing conflicts with it: %s", what, w.resp[i]))
				}
			}
			return append(bad, c11PersistedIDs()...)
		}})
	// S6e: every block ingest starts `go d.updateBlockMaxLabel(v, block)`, which outlives the request; a label allocation
	// served inside that background step must not be undone by it. The step is driven directly (overlay export) for a
	// block carrying label 8 (labels 1..5 exist), against POST nextlabel/10; S6f: two such steps against each other and
	// an allocation.
	blockUpdate := func(w *c11World, i int, label uint64) func() {
		return func() {
			d, err := labelmap.GetByUUIDName(dvid.UUID(w.root), "lm")
			v, err2 := datastore.VersionFromUUID(dvid.UUID(w.root))
			if err != nil || err2 != nil {
				w.resp[i] = vsrv.Resp{Code: 500, Body: []byte(fmt.Sprint(err, err2))}
				return
			}
			labelmap.VerifUpdateBlockMaxLabel(d, v, []uint64{0, 2, label})
			w.resp[i] = vsrv.Resp{Code: 200}
		}
	}
	allocVerdict := func(stored uint64, allocAt int) func(w *c11World) []string {
		return func(w *c11World) (bad []string) {
			type rng struct{ Start, End uint64 }
			top := stored
			if acked(w.resp[allocAt]) {
				var r rng
				json.Unmarshal(w.resp[allocAt].Body, &r)
				if r.Start <= 5 || r.End < r.Start {
					bad = append(bad, fmt.Sprintf("label-range-wrong\tallocation answered %s (existing labels are 1..5)", w.resp[allocAt]))
				}
				if r.End > top {
					top = r.End
				}
			}
			nx := vsrv.Post("node/"+w.root+"/lm/nextlabel/1", nil)
			var r3 rng
			json.Unmarshal(nx.Body, &r3)
			if nx.OK() && r3.Start <= top {
				bad = append(bad, fmt.Sprintf("label-reissued\tafter the max-label update of an ingested block with label %d and a concurrent allocation answering %s, a later nextlabel returned %d: not above everything stored or handed out (%d)", stored, strings.TrimSpace(string(w.resp[allocAt].Body)), r3.Start, top))
			}
			return
		}
	}
	sc = append(sc, c11Scenario{name: "S6e:ids:block-maxlabel-update||nextlabel", setup: lmWorld,
		bodies: func(w *c11World) []func() {
			return []func(){blockUpdate(w, 0, 8), func() { w.resp[1] = vsrv.Post("node/"+w.root+"/lm/nextlabel/10", nil) }}
		},
		verdict: allocVerdict(8, 1)})
	sc = append(sc, c11Scenario{name: "S6f:ids:block-maxlabel-update||block-maxlabel-update||nextlabel", setup: lmWorld,
		bodies: func(w *c11World) []func() {
			return []func(){blockUpdate(w, 0, 8), blockUpdate(w, 1, 12), func() { w.resp[2] = vsrv.Post("node/"+w.root+"/lm/nextlabel/3", nil) }}
		},
		verdict: allocVerdict(12, 2)})
	sc = append(sc, c11Scenario{name: "S4c:labelmap:cleave||cleave:same-body", setup: func() (*c11World, error) {
		w, err := lmWorld()
		if err == nil {
			lmMerge(w.root, "lm", 1, 4)
			lmMerge(w.root, "lm", 1, 5)
			vsrv.Quiesce()
			w.extra = map[string]interface{}{}
		}
		return w, err
	},
		bodies: func(w *c11World) []func() {
			cl := func(i int, sv uint64) func() {
				return func() {
					var l uint64
					l, w.resp[i] = lmCleave(w.root, "lm", 1, sv)
					w.extra[fmt.Sprint("cleaved", i)] = l
				}
			}
			return []func(){cl(0, 4), cl(1, 5)}
		},
		verdict: lmVerdict(func(w *c11World, M map[uint64]uint64) (bad []string) {
			l0, _ := w.extra["cleaved0"].(uint64)
			l1, _ := w.extra["cleaved1"].(uint64)
			for i, sv := range []uint64{4, 5} {
				l := []uint64{l0, l1}[i]
				if acked(w.resp[i]) && M[sv] != l {
					bad = append(bad, fmt.Sprintf("cleave-lost\tcleave of supervoxel %d acknowledged (new body %d) but it maps to %d", sv, l, M[sv]))
				}
			}
			if acked(w.resp[0]) && acked(w.resp[1]) && l0 == l1 {
				bad = append(bad, fmt.Sprintf("same-new-label\ttwo acknowledged cleaves were given the same new body id %d", l0))
			}
			return
		})})
	// S4d: a supervoxel split against a cleave of another supervoxel of the same body: both rewrite the body's label index.
	// The supervoxel array changes here, so the scan oracle's model is taken from the server's own supervoxels and mapping;
	// what is decided is that the index (sizes, supervoxel lists, sparse volumes ...) agrees with them, plus the
	// acknowledged effects.
	lmLiveVerdict := func(expect func(w *c11World, S []uint64, M map[uint64]uint64) []string) func(w *c11World) []string {
		return func(w *c11World) (bad []string) {
			vsrv.Quiesce()
			S, r := lmGetRaw(w.root, "lm", [3]int{0, 0, 0}, [3]int{c08NX, c08NY, c08NZ}, true, 0)
			if S == nil {
				return []string{"read-error\tGET raw?supervoxels=true: " + r.String()}
			}
			svset := map[uint64]bool{}
			for _, x := range S.v {
				if x != 0 {
					svset[x] = true
				}
			}
			svs := sortedU64(svset)
			mp, mr := lmMapping(w.root, "lm", svs)
			if len(mp) != len(svs) {
				return []string{"read-error\tGET mapping: " + mr.String()}
			}
			M := map[uint64]uint64{}
			cw := &c08World{m: &c08Model{vers: []*c08Version{{sv: append([]uint64{}, S.v...), mapping: map[uint64]uint64{}, parent: -1}}}, uuids: []string{w.root}}
			for i, x := range svs {
				M[x] = mp[i]
				if mp[i] != x && mp[i] != 0 {
					cw.m.vers[0].mapping[x] = mp[i]
				}
			}
			bad = append(bad, expect(w, S.v, M)...)
			cw.remember()
			for _, l := range []uint64{1, 2, 3, 4, 5} { // bodies that may have lost all voxels must not answer as existing
				cw.ever[l] = true
			}
			if vs := cw.check(); len(vs) > 0 {
				var eps, msgs []string
				for i, v := range vs {
					eps = append(eps, strings.TrimPrefix(v.Key, "scan:"))
					if i < 3 {
						msgs = append(msgs, v.What)
					}
				}
				bad = append(bad, fmt.Sprintf("index-inconsistent\tafter both requests were acknowledged the label index disagrees with the stored voxels + mapping in %v: %s", eps, strings.Join(msgs, " ; ")))
			}
			return
		}
	}
	// S4e: two voxel writes into sibling blocks (two octants of one lower-resolution block) of a label volume with one
	// down-sampling level. Each write rewrites part of the same stored lower-resolution block; at quiescence that block
	// must hold the vote over both writes (C14's documented down-sampling), whichever write finished last.
	sc = append(sc, c11Scenario{name: "S4e:labelmap:post-raw||post-raw:sibling-octants:downres", quietGate: true, setup: func() (*c11World, error) {
		root, err := vsrv.NewRepo()
		if err != nil {
			return nil, err
		}
		if err := vsrv.NewInstance(root, "labelmap", "lm", map[string]string{"BlockSize": "16,16,16", "MaxDownresLevel": "1"}); err != nil {
			return nil, err
		}
		vsrv.Quiesce()
		return &c11World{root: root, nodes: map[string]string{}, resp: make([]vsrv.Resp, 4)}, nil
	},
		bodies: func(w *c11World) []func() {
			mk := func(i int, off [3]int, label uint64) func() {
				return func() {
					v := newLMVol(off, [3]int{16, 16, 16})
					v.fill(off, [3]int{off[0] + 16, off[1] + 16, off[2] + 16}, label)
					w.resp[i] = lmPostRaw(w.root, "lm", v, false)
				}
			}
			return []func(){mk(0, [3]int{0, 0, 0}, 11), mk(1, [3]int{16, 0, 0}, 22)}
		},
		verdict: func(w *c11World) (bad []string) {
			vsrv.Quiesce()
			if !acked(w.resp[0]) || !acked(w.resp[1]) {
				return
			}
			hi, r0 := lmGetRaw(w.root, "lm", [3]int{0, 0, 0}, [3]int{32, 32, 32}, true, 0)
			lo, r1 := lmGetRaw(w.root, "lm", [3]int{0, 0, 0}, [3]int{16, 16, 16}, true, 1)
			if hi == nil || lo == nil {
				return []string{fmt.Sprintf("downres-unreadable\tafter two acknowledged writes: level 0 %s, level 1 %s", trunc(r0.String(), 120), trunc(r1.String(), 120))}
			}
			want := c14Vote(hi.v, 32)
			for i := range want {
				if want[i] != lo.v[i] {
					x, y, z := i%16, i/16%16, i/256
					return []string{fmt.Sprintf("downres-stale\tafter two acknowledged writes into sibling blocks, level 1 voxel (%d,%d,%d) is %d, the vote over level 0 gives %d", x, y, z, lo.v[i], want[i])}
				}
			}
			return
		},
		observe: func(w *c11World) string {
			count := func(scale int, size [3]int) string {
				v, r := lmGetRaw(w.root, "lm", [3]int{0, 0, 0}, size, true, scale)
				if v == nil {
					return fmt.Sprintf("unreadable(%d)", r.Code)
				}
				n := map[uint64]int{}
				for _, l := range v.v {
					n[l]++
				}
				return fmt.Sprintf("0:%d 11:%d 22:%d", n[0], n[11], n[22])
			}
			return fmt.Sprintf("codes=%d,%d level0{%s} level1{%s}", w.resp[0].Code, w.resp[1].Code, count(0, [3]int{32, 32, 32}), count(1, [3]int{16, 16, 16}))
		}})
	sc = append(sc, c11Scenario{name: "S4d:labelmap:split-supervoxel||cleave:same-body", quietGate: true, setup: func() (*c11World, error) {
		w, err := lmWorld()
		if err == nil {
			lmMerge(w.root, "lm", 1, 4)
			vsrv.Quiesce()
			w.extra = map[string]interface{}{}
		}
		return w, err
	},
		bodies: func(w *c11World) []func() {
			runs := c08Shape(&c08Version{sv: c08InitialVolume(false)}, 1, "half-in-block")
			return []func(){func() {
				var sp, rem uint64
				sp, rem, w.resp[0] = lmSplitSV(w.root, "lm", 1, runs)
				w.extra["split"], w.extra["remain"] = sp, rem
			}, func() {
				var l uint64
				l, w.resp[1] = lmCleave(w.root, "lm", 1, 4)
				w.extra["cleaved"] = l
			}}
		},
		verdict: lmLiveVerdict(func(w *c11World, S []uint64, M map[uint64]uint64) (bad []string) {
			if acked(w.resp[1]) {
				if l, _ := w.extra["cleaved"].(uint64); M[4] != l {
					bad = append(bad, fmt.Sprintf("cleave-lost\tcleave of supervoxel 4 acknowledged (new body %d) but it maps to %d", l, M[4]))
				}
			}
			if acked(w.resp[0]) {
				sp, _ := w.extra["split"].(uint64)
				rem, _ := w.extra["remain"].(uint64)
				has := map[uint64]bool{}
				for _, x := range S {
					has[x] = true
				}
				if has[1] || !has[sp] || !has[rem] || M[sp] != 1 || M[rem] != 1 {
					bad = append(bad, fmt.Sprintf("split-lost\tsplit of supervoxel 1 acknowledged (split %d, remainder %d): supervoxel 1 still stored %v, split stored %v -> body %d, remainder stored %v -> body %d", sp, rem, has[1], has[sp], M[sp], has[rem], M[rem]))
				}
			}
			return
		})})
	return append(sc, c11MoreScenarios()...)
}

func keysS(m map[string]bool) []string {
	var out []string
	for k := range m {
		out = append(out, k)
	}
	sort.Strings(out)
	return out
}
