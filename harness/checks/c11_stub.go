//go:build !vsched

package checks

import (
	"verif/vlib"
)

// C11 needs the instrumented build (bin/vcheck dispatches to it). This stub only exists so that the id is known.
func init() {
	vlib.Register("C11", "model_checking", func(c *vlib.Ctx) {
		c.Violate("harness:not-instrumented", "C11 must be run through bin/vcheck, which builds the scheduler-instrumented binary", nil)
	})
}
