package checks

// wl: deterministic workloads over the real stack (fixed, caller-assigned UUIDs), a uuid-free snapshot of everything
// observable, and the "wlrun" worker that runs a slice of a workload in its own process on a given directory
// (with the crash-injecting vkv/vlog engines). Shared by C03, C04 and C12.

import (
	"encoding/json"
	"fmt"
	"os"
	"regexp"
	"sort"
	"strings"
	"sync/atomic"

	"github.com/janelia-flyem/dvid/datastore"
	"github.com/janelia-flyem/dvid/dvid"

	"verif/vlib"
	"verif/vsrv"
	"verif/vsync"
)

func init() {
	vlib.Workers["wlrun"] = wlRunWorker
	vlib.Workers["wlruntxn"] = wlRunWorker // the same worker, run from the instrumented binary (C04: kill between engine transactions)
}

type wlOp struct {
	Name   string
	Atomic bool // repo-level or single-key operation: all-or-nothing under a crash
	Run    func(s *wlState) vsrv.Resp
}

// wlState carries what ops learn at run time (ids handed out by the server) and is persisted between processes.
type wlState struct {
	Dir     string              `json:"-"`
	IDs     map[string][]uint64 `json:"ids"`   // named id streams handed out by the server (mutation ids, labels, ...)
	Vars    map[string]string   `json:"vars"`  // e.g. uuid of a merge child
	Acked   int                 `json:"acked"` // number of ops acknowledged so far
	Reads   map[string][]string `json:"-"`
}

func (s *wlState) id(stream string, v uint64) {
	if s.IDs == nil {
		s.IDs = map[string][]uint64{}
	}
	s.IDs[stream] = append(s.IDs[stream], v)
}

func wlUUID(i int) string { return fmt.Sprintf("%08x%024x", 0xc0ffee00+i, i) }

type wlWorkload struct {
	Name      string
	Ops       []wlOp
	Instances map[string][]string // instance -> read paths
	Versions  []string            // uuids (fixed) whose data is snapshotted
	// Rewrites: instance whose unversioned properties (extents) a multi-write operation of this workload rewrites
	// together with its data, so that a cut-short operation may leave any version of it in an intermediate state
	Rewrites string
}

func okResp() vsrv.Resp { return vsrv.Resp{Code: 200} }

func wlJSONField(r vsrv.Resp, field string) uint64 {
	var m map[string]interface{}
	d := json.NewDecoder(strings.NewReader(string(r.Body)))
	d.UseNumber()
	if d.Decode(&m) != nil {
		return 0
	}
	if n, ok := m[field].(json.Number); ok {
		var v uint64
		fmt.Sscanf(n.String(), "%d", &v)
		return v
	}
	return 0
}

func wlWorkloads() map[string]*wlWorkload {
	R, A, B, C, D := wlUUID(1), wlUUID(2), wlUUID(3), wlUUID(4), wlUUID(5)
	post := func(u, body string) func(*wlState) vsrv.Resp {
		return func(*wlState) vsrv.Resp { return vsrv.PostS(u, body) }
	}
	del := func(u string) func(*wlState) vsrv.Resp {
		return func(*wlState) vsrv.Resp { return vsrv.Delete(u) }
	}
	newRepo := wlOp{"newrepo", true, post("repos", fmt.Sprintf(`{"alias":"w","description":"d","root":%q}`, R))}
	inst := func(u, typ, name string, extra string) wlOp {
		return wlOp{"instance-" + name, true, post("repo/"+u+"/instance", fmt.Sprintf(`{"typename":%q,"dataname":%q%s}`, typ, name, extra))}
	}
	commit := func(u string) wlOp { return wlOp{"commit", true, post("node/"+u+"/commit", `{"note":"c","log":["l1"]}`)} }
	newver := func(p, child string) wlOp {
		return wlOp{"newversion", true, post("node/"+p+"/newversion", fmt.Sprintf(`{"note":"v","uuid":%q}`, child))}
	}
	branch := func(p, child, name string) wlOp {
		return wlOp{"branch", true, post("node/"+p+"/branch", fmt.Sprintf(`{"branch":%q,"note":"b","uuid":%q}`, name, child))}
	}
	ws := map[string]*wlWorkload{}

	// W1: repo / DAG operations
	ws["repo"] = &wlWorkload{Name: "repo", Versions: []string{R, A, B}, Instances: map[string][]string{"kv": {"keys", "key/k1", "key/k2"}},
		Ops: []wlOp{newRepo, inst(R, "keyvalue", "kv", ""),
			{"put", true, post("node/"+R+"/kv/key/k1", "v1")},
			{"note", true, post("node/"+R+"/note", `{"note":"hello"}`)},
			{"log", true, post("node/"+R+"/log", `{"log":["entry"]}`)},
			{"repolog", true, post("repo/"+R+"/log", `{"log":["repo entry"]}`)},
			commit(R), newver(R, A), {"put2", true, post("node/"+A+"/kv/key/k2", "v2")}, branch(R, B, "side"),
			{"put3", true, post("node/"+B+"/kv/key/k1", "side1")}, commit(A), commit(B),
			{"merge", true, func(s *wlState) vsrv.Resp {
				r := vsrv.PostS("repo/"+R+"/merge", fmt.Sprintf(`{"mergeType":"conflict-free","parents":[%q,%q],"note":"m"}`, A, B))
				var m struct{ Child string }
				json.Unmarshal(r.Body, &m)
				if s.Vars == nil {
					s.Vars = map[string]string{}
				}
				s.Vars["merge"] = m.Child
				return r
			}},
			{"sync-none", true, post("node/"+R+"/kv/tags", `{"t":"x"}`)},
			{"rename", true, func(*wlState) vsrv.Resp {
				if err := datastore.RenameData(dvid.UUID(R), "kv", "kv2", ""); err != nil {
					return vsrv.Resp{Code: 400, Body: []byte(err.Error())}
				}
				return okResp()
			}},
			{"rename-back", true, func(*wlState) vsrv.Resp {
				if err := datastore.RenameData(dvid.UUID(R), "kv2", "kv", ""); err != nil {
					return vsrv.Resp{Code: 400, Body: []byte(err.Error())}
				}
				return okResp()
			}},
			// requests that must be refused, whether or not a restart came before them (what decides them - branch names in
			// use, instance names, commit flags - is partly rebuilt at start-up rather than stored): an accepted one shows
			// up as a new node or instance in the later snapshots
			branch(B, D, "side2"), // the head of branch "side" is no longer a leaf
			{"reuse-branch-name", true, post("node/"+A+"/branch", fmt.Sprintf(`{"branch":"side","note":"again","uuid":%q}`, wlUUID(6)))},
			{"second-master-child", true, post("node/"+R+"/newversion", fmt.Sprintf(`{"note":"again","uuid":%q}`, wlUUID(7)))},
			{"duplicate-instance", true, post("repo/"+R+"/instance", `{"typename":"keyvalue","dataname":"kv"}`)},
			{"newversion-on-open-node", true, post("node/"+D+"/newversion", fmt.Sprintf(`{"note":"open","uuid":%q}`, wlUUID(8)))},
			{"put-on-committed", true, post("node/"+A+"/kv/key/k9", "late")},
		}}

	// W2: key-value writes
	ws["kv"] = &wlWorkload{Name: "kv", Versions: []string{R, A}, Instances: map[string][]string{"kv": {"keys", "key/a", "key/b", "key/c", "key/d"}},
		Ops: []wlOp{newRepo, inst(R, "keyvalue", "kv", ""),
			{"put-a", true, post("node/"+R+"/kv/key/a", "a0")}, {"put-b", true, post("node/"+R+"/kv/key/b", "b0")}, {"put-c", true, post("node/"+R+"/kv/key/c", "c0")},
			commit(R), newver(R, A),
			{"overwrite-a", true, post("node/"+A+"/kv/key/a", "a1")}, {"delete-b", true, del("node/" + A + "/kv/key/b")},
			{"delete-c", true, del("node/" + A + "/kv/key/c")}, {"reput-c", true, post("node/"+A+"/kv/key/c", "c1")},
			{"put-d", true, post("node/"+A+"/kv/key/d", "d1")},
			// a key that has a value of its own in the child on top of the parent's value: deleted (own value away AND parent's value
			// hidden - one step), then written again (deletion marker away AND value there - one step)
			{"delete-a-own-value", true, del("node/" + A + "/kv/key/a")}, {"reput-a", true, post("node/"+A+"/kv/key/a", "a2")},
		}}

	// W3: labelmap proofreading (KV writes + mutation log appends)
	lmReads := []string{"raw/0_1_2/32_32_16/0_0_0", "raw/0_1_2/32_32_16/0_0_0?supervoxels=true", "size/1", "size/2", "size/3", "size/4", "size/5", "supervoxels/1", "supervoxels/2",
		"sparsevol/1", "sparsevol/2", "index/1", "index/2", "index/3", "label/20_4_8", "label/9_9_9", "supervoxel-splits", "mapping-all"}
	ws["labelmap"] = &wlWorkload{Name: "labelmap", Versions: []string{R, A}, Instances: map[string][]string{"lm": lmReads},
		Ops: []wlOp{newRepo, inst(R, "labelmap", "lm", `,"BlockSize":"16,16,16"`),
			{"ingest", false, func(*wlState) vsrv.Resp {
				v := newLMVol([3]int{0, 0, 0}, [3]int{c08NX, c08NY, c08NZ})
				copy(v.v, c08InitialVolume(false))
				return lmPostRaw(R, "lm", v, false)
			}},
			{"merge-1-4", false, func(s *wlState) vsrv.Resp { r := lmMerge(R, "lm", 1, 4); s.id("mutid", wlJSONField(r, "MutationID")); return r }},
			commit(R), newver(R, A),
			{"merge-2-3", false, func(s *wlState) vsrv.Resp { r := lmMerge(A, "lm", 2, 3); s.id("mutid", wlJSONField(r, "MutationID")); return r }},
			// reads of the version's mutation log while the server holds it open for appending (body history, mutation list):
			// the appends that follow must land behind what is already logged
			{"history-read", true, func(*wlState) vsrv.Resp { return vsrv.Get("node/" + A + "/lm/history/2/" + R + "/" + A) }},
			{"mutations-read", true, func(*wlState) vsrv.Resp { return vsrv.Get("node/" + A + "/lm/mutations") }},
			{"cleave-1-4", false, func(s *wlState) vsrv.Resp {
				l, r := lmCleave(A, "lm", 1, 4)
				s.id("label", l)
				s.id("mutid", wlJSONField(r, "MutationID"))
				return r
			}},
			{"splitsv-5", false, func(s *wlState) vsrv.Resp {
				sp, rem, r := lmSplitSV(A, "lm", 5, []lmRun{{24, 16, 0, 8}, {24, 17, 0, 8}})
				s.id("label", sp)
				s.id("label", rem)
				s.id("mutid", wlJSONField(r, "MutationID"))
				return r
			}},
			{"renumber", false, func(s *wlState) vsrv.Resp { return lmRenumber(A, "lm", 200, 2) }},
			{"nextlabel", true, func(s *wlState) vsrv.Resp {
				r := vsrv.Post("node/"+A+"/lm/nextlabel/2", nil)
				s.id("label", wlJSONField(r, "start"))
				s.id("label", wlJSONField(r, "end"))
				return r
			}},
			{"rawmutate", false, func(*wlState) vsrv.Resp {
				v := newLMVol([3]int{0, 0, 0}, [3]int{16, 16, 16})
				v.fill([3]int{0, 0, 0}, [3]int{16, 16, 16}, 1)
				v.fill([3]int{0, 0, 0}, [3]int{8, 8, 8}, 300)
				return lmPostRaw(A, "lm", v, true)
			}},
			// bulk mapping ingestion (POST mappings): a non-identity pair, then an identity pair that releases a supervoxel
			// mapped earlier (the live cache is updated directly, a restarted server rebuilds it from the log)
			{"mappings-ingest", false, post("node/"+A+"/lm/mappings", string(c20MappingOps([][]uint64{{900, 1, 3}}).layer().Data))},
			{"mappings-identity", false, post("node/"+A+"/lm/mappings", string(c20MappingOps([][]uint64{{901, 3, 3}, {901, 4, 4}}).layer().Data))},
			// the next-label override, placed above the current repo-wide maximum (the unusual direction), then an allocation from it
			{"set-nextlabel-above-max", true, func(*wlState) vsrv.Resp { return vsrv.Post("node/"+A+"/lm/set-nextlabel/5000", nil) }},
			{"nextlabel-from-override", true, func(s *wlState) vsrv.Resp {
				r := vsrv.Post("node/"+A+"/lm/nextlabel/3", nil)
				s.id("label", wlJSONField(r, "start"))
				s.id("label", wlJSONField(r, "end"))
				return r
			}},
		}}

	// W4: annotations
	annReads := []string{"all-elements", "tag/t1", "tag/t2", "elements/200_200_200/0_0_0"}
	ws["annotation"] = &wlWorkload{Name: "annotation", Versions: []string{R, A}, Instances: map[string][]string{"ann": annReads},
		Ops: []wlOp{newRepo, inst(R, "annotation", "ann", ""),
			{"post", false, post("node/"+R+"/ann/elements", `[{"Pos":[10,10,10],"Kind":"PreSyn","Tags":["t1"],"Prop":{},"Rels":[{"Rel":"PreSynTo","To":[20,20,20]}]},{"Pos":[20,20,20],"Kind":"PostSyn","Tags":["t1","t2"],"Prop":{},"Rels":[{"Rel":"PostSynTo","To":[10,10,10]}]},{"Pos":[70,10,10],"Kind":"Note","Tags":["t2"],"Prop":{"a":"b"},"Rels":[]}]`)},
			commit(R), newver(R, A),
			{"move", false, post("node/"+A+"/ann/move/10_10_10/90_10_10", "")},
			{"delete", false, del("node/" + A + "/ann/element/70_10_10")},
			{"post2", false, post("node/"+A+"/ann/elements", `[{"Pos":[30,30,30],"Kind":"Note","Tags":["t1"],"Prop":{},"Rels":[]}]`)},
		}}

	// W5: neuron annotations
	njReads := []string{"all", "keys", "key/1", "key/2", "key/3", "fields", "keyrange/0/9"}
	ws["neuronjson"] = &wlWorkload{Name: "neuronjson", Versions: []string{R, A}, Instances: map[string][]string{"nj": njReads},
		Ops: []wlOp{newRepo, inst(R, "neuronjson", "nj", ""),
			{"post1", true, post("node/"+R+"/nj/key/1?u=tester", `{"bodyid":1,"a":"x","b":[1,2]}`)},
			{"post2", true, post("node/"+R+"/nj/key/2?u=tester", `{"bodyid":2,"a":"y"}`)},
			{"post10", true, post("node/"+R+"/nj/key/10?u=tester", `{"bodyid":10,"a":"z"}`)},
			commit(R), newver(R, A),
			{"update1", true, post("node/"+A+"/nj/key/1?u=tester2", `{"bodyid":1,"a":null,"c":3}`)},
			{"delete2", true, del("node/" + A + "/nj/key/2?u=tester")},
			{"post3", true, post("node/"+A+"/nj/key/3?u=tester", `{"bodyid":3,"d":{"e":1}}`)},
		}}

	// W6: instance and repo deletion
	ws["delete"] = &wlWorkload{Name: "delete", Versions: []string{R}, Instances: map[string][]string{"keep": {"keys", "key/k"}},
		Ops: []wlOp{newRepo, inst(R, "keyvalue", "keep", ""), inst(R, "keyvalue", "doomed", ""),
			{"put-keep", true, post("node/"+R+"/keep/key/k", "kept")}, {"put-doomed", true, post("node/"+R+"/doomed/key/k", "gone")},
			{"delete-instance", false, func(*wlState) vsrv.Resp {
				if err := datastore.DeleteDataByName(dvid.UUID(R), "doomed", ""); err != nil {
					return vsrv.Resp{Code: 400, Body: []byte(err.Error())}
				}
				return okResp()
			}},
			{"second-repo", true, post("repos", fmt.Sprintf(`{"alias":"w2","description":"d","root":%q}`, C))},
			inst(C, "keyvalue", "kv", ""),
			{"put-second", true, post("node/"+C+"/kv/key/k", "second")},
			{"delete-repo", false, func(*wlState) vsrv.Resp {
				if err := datastore.DeleteRepo(dvid.UUID(C), ""); err != nil {
					return vsrv.Resp{Code: 400, Body: []byte(err.Error())}
				}
				return okResp()
			}},
			{"third-repo", true, post("repos", fmt.Sprintf(`{"alias":"w3","description":"d","root":%q}`, D))},
		}}

	// W11: two live repos whose version ids interleave, with instances of the same names in both, and two open sibling
	// versions in the second one (label caches and id maps are keyed by version id and data uuid across repos)
	ingestAt := func(u string, shift uint64) func(*wlState) vsrv.Resp {
		return func(*wlState) vsrv.Resp {
			v := newLMVol([3]int{0, 0, 0}, [3]int{c08NX, c08NY, c08NZ})
			copy(v.v, c08InitialVolume(false))
			for i := range v.v {
				if v.v[i] != 0 {
					v.v[i] += shift
				}
			}
			return lmPostRaw(u, "lm", v, false)
		}
	}
	mergeAt := func(u string, t, m uint64) func(s *wlState) vsrv.Resp {
		return func(s *wlState) vsrv.Resp { r := lmMerge(u, "lm", t, m); s.id("mutid", wlJSONField(r, "MutationID")); return r }
	}
	E := wlUUID(6)
	ws["tworepos"] = &wlWorkload{Name: "tworepos", Versions: []string{R, A, C, D, E}, Instances: map[string][]string{"lm": lmReads, "kv": {"keys", "key/k", "key/j"}},
		Ops: []wlOp{newRepo, inst(R, "labelmap", "lm", `,"BlockSize":"16,16,16"`), inst(R, "keyvalue", "kv", ""),
			{"second-repo", true, post("repos", fmt.Sprintf(`{"alias":"w2","description":"d2","root":%q}`, C))},
			inst(C, "keyvalue", "kv", ""), inst(C, "labelmap", "lm", `,"BlockSize":"16,16,16"`),
			{"ingest-1", false, ingestAt(R, 0)}, {"ingest-2", false, ingestAt(C, 0)},
			{"put-1", true, post("node/"+R+"/kv/key/k", "first")}, {"put-2", true, post("node/"+C+"/kv/key/k", "second")},
			{"merge-1", false, mergeAt(R, 1, 4)},
			commit(C), newver(C, D), // version ids: R=1 C=2 D=3 A=4 E=5
			commit(R), newver(R, A),
			branch(C, E, "side"),
			{"merge-2-child", false, mergeAt(D, 2, 3)},
			{"merge-1-child", false, mergeAt(A, 2, 5)},
			{"cleave-1-child", false, func(s *wlState) vsrv.Resp {
				l, r := lmCleave(A, "lm", 1, 4)
				s.id("label", l)
				return r
			}},
			{"merge-2-side", false, mergeAt(E, 3, 5)},
			{"put-child-1", true, post("node/"+A+"/kv/key/j", "a")}, {"del-child-2", true, del("node/" + D + "/kv/key/k")},
			{"put-side-2", true, post("node/"+E+"/kv/key/j", "e")},
			{"merge-2-child-again", false, mergeAt(D, 2, 1)},
		}}

	// W8: ROI (extents live in the instance properties, spans in the store)
	ws["roi"] = &wlWorkload{Name: "roi", Rewrites: "r", Versions: []string{R, A}, Instances: map[string][]string{"r": {"roi", "partition?batchsize=2", "mask/0_1_2/24_16_24/-8_0_-8", "ptquery-probe"}},
		Ops: []wlOp{newRepo, inst(R, "roi", "r", `,"BlockSize":"8,8,8"`),
			{"post-roi", false, post("node/"+R+"/r/roi", `[[0,0,0,1],[1,0,0,0]]`)},
			{"repost-same-z", false, post("node/"+R+"/r/roi", `[[0,1,0,0],[1,1,1,2]]`)},
			commit(R), newver(R, A),
			{"repost-other-z", false, post("node/"+A+"/r/roi", `[[-1,0,0,0],[2,0,0,1]]`)},
			{"delete-roi", false, del("node/" + A + "/r/roi")},
			{"post-after-delete", false, post("node/"+A+"/r/roi", `[[0,0,1,1]]`)},
			{"repost-same-z-child", false, post("node/"+A+"/r/roi", `[[0,1,0,1]]`)},
		}}

	// W9: grayscale volume (extents in the instance properties, blocks in the store)
	gray := func(u string, ox, oy, oz int, val byte) func(*wlState) vsrv.Resp {
		return func(*wlState) vsrv.Resp {
			b := make([]byte, 32*32*16)
			for i := range b {
				b[i] = val + byte(i%7)
			}
			return vsrv.Post(fmt.Sprintf("node/%s/g/raw/0_1_2/32_32_16/%d_%d_%d", u, ox, oy, oz), b)
		}
	}
	ws["imageblk"] = &wlWorkload{Name: "imageblk", Rewrites: "g", Versions: []string{R, A}, Instances: map[string][]string{"g": {"raw/0_1_2/64_32_32/0_0_0", "raw/0_1_2/32_32_16/32_32_16", "metadata"}},
		Ops: []wlOp{newRepo, inst(R, "uint8blk", "g", `,"BlockSize":"16,16,16","Background":"7"`),
			{"post-raw", false, gray(R, 0, 0, 0, 10)},
			{"post-raw-extend", false, gray(R, 32, 0, 16, 50)},
			commit(R), newver(R, A),
			{"overwrite", false, gray(A, 0, 0, 0, 90)},
			{"post-raw-extend-child", false, gray(A, 32, 32, 16, 120)},
		}}

	// W10: sync relations (annotation follows a labelmap, labelsz follows the annotation)
	ws["sync"] = &wlWorkload{Name: "sync", Versions: []string{R, A}, Instances: map[string][]string{"ann": {"all-elements", "label/1", "label/2", "label/3", "tag/t"}, "lsz": {"count/1/PostSyn", "count/2/PostSyn", "count/2/PreSyn", "count/3/PostSyn", "top/3/AllSyn"}},
		Ops: []wlOp{newRepo, inst(R, "labelmap", "lm", `,"BlockSize":"16,16,16"`),
			{"ingest", false, func(*wlState) vsrv.Resp {
				v := newLMVol([3]int{0, 0, 0}, [3]int{c08NX, c08NY, c08NZ})
				copy(v.v, c08InitialVolume(false))
				return lmPostRaw(R, "lm", v, false)
			}},
			inst(R, "annotation", "ann", ""), inst(R, "labelsz", "lsz", ""),
			{"sync-ann", true, post("node/"+R+"/ann/sync", `{"sync":"lm"}`)},
			{"sync-lsz", true, post("node/"+R+"/lsz/sync", `{"sync":"ann"}`)},
			{"post-elements", false, post("node/"+R+"/ann/elements", `[{"Pos":[2,2,2],"Kind":"PostSyn","Tags":["t"],"Prop":{},"Rels":[]},{"Pos":[20,4,8],"Kind":"PostSyn","Tags":[],"Prop":{},"Rels":[]},{"Pos":[21,4,8],"Kind":"PreSyn","Tags":["t"],"Prop":{},"Rels":[]},{"Pos":[20,20,8],"Kind":"PostSyn","Tags":[],"Prop":{},"Rels":[]}]`)},
			commit(R), newver(R, A),
			{"merge", false, post("node/"+A+"/lm/merge", `[1,2]`)},
			{"post-element-child", false, post("node/"+A+"/ann/elements", `[{"Pos":[3,3,3],"Kind":"PostSyn","Tags":["t"],"Prop":{},"Rels":[]}]`)},
			{"cleave", false, post("node/"+A+"/lm/cleave/1", `[2]`)},
		}}

	// W7: identifier allocation across the mutation-id stride (C12)
	var idOps []wlOp
	idOps = append(idOps, newRepo, inst(R, "labelmap", "lm", `,"BlockSize":"16,16,16"`),
		wlOp{"ingest", false, func(*wlState) vsrv.Resp {
			v := newLMVol([3]int{0, 0, 0}, [3]int{c08NX, c08NY, c08NZ})
			copy(v.v, c08InitialVolume(false))
			return lmPostRaw(R, "lm", v, false)
		}})
	for i := 0; i < 105; i++ {
		idOps = append(idOps, wlOp{fmt.Sprintf("mutid-%d", i), true, func(s *wlState) vsrv.Resp {
			d, err := datastore.GetDataByUUIDName(dvid.UUID(R), "lm")
			if err != nil {
				return vsrv.Resp{Code: 400, Body: []byte(err.Error())}
			}
			s.id("mutid", d.NewMutationID())
			return okResp()
		}})
		if i%35 == 10 {
			idOps = append(idOps, wlOp{"nextlabel", true, func(s *wlState) vsrv.Resp {
				r := vsrv.Post("node/"+R+"/lm/nextlabel/1", nil)
				s.id("label", wlJSONField(r, "start"))
				return r
			}})
		}
	}
	idOps = append(idOps, inst(R, "keyvalue", "late1", ""), commit(R), newver(R, A), inst(A, "keyvalue", "late2", ""))
	ws["ids"] = &wlWorkload{Name: "ids", Versions: []string{R}, Instances: map[string][]string{"lm": {"size/1", "maxlabel"}}, Ops: idOps}
	// every workload (except the identifier workload, whose operation positions C12 counts) reads all of its endpoints at
	// all of its versions once, two thirds of the way through: reads build lazily filled caches and open logs, and the
	// operations after them - and the restarts after those - run on that warmed state
	for name, w := range ws {
		if name == "ids" {
			continue
		}
		w := w
		readAll := wlOp{"read-all", true, func(*wlState) vsrv.Resp {
			var insts []string
			for in := range w.Instances {
				insts = append(insts, in)
			}
			sort.Strings(insts)
			for _, u := range w.Versions {
				for _, in := range insts {
					for _, p := range w.Instances[in] {
						vsrv.Get("node/" + u + "/" + in + "/" + p)
					}
				}
			}
			vsrv.Get("repos/info")
			return okResp()
		}}
		at := len(w.Ops) * 2 / 3
		w.Ops = append(append(append([]wlOp{}, w.Ops[:at]...), readAll), w.Ops[at:]...)
	}
	return ws
}

var wlHex32 = regexp.MustCompile(`[0-9a-f]{32}`)
var wlTime = regexp.MustCompile(`\d{4}-\d\d-\d\dT\d\d:\d\d:\d\d(\.\d+)?(Z|[+-]\d\d:\d\d)`)

// wlSnapshot returns component -> canonical value for everything observable (uuid-free, time-free).
func wlSnapshot(w *wlWorkload, st *wlState) map[string]string {
	out := map[string]string{}
	// metadata
	r := vsrv.Get("repos/info")
	var info map[string]interface{}
	json.Unmarshal(r.Body, &info)
	// uuid -> stable name: fixed uuids keep their own name, others are named by their version id
	names := map[string]string{}
	var walk func(v interface{}) interface{}
	for _, repo := range info {
		if rm, ok := repo.(map[string]interface{}); ok {
			if dag, ok := rm["DAG"].(map[string]interface{}); ok {
				if nodes, ok := dag["Nodes"].(map[string]interface{}); ok {
					for u, n := range nodes {
						if nm, ok := n.(map[string]interface{}); ok {
							names[u] = fmt.Sprintf("node-v%v", nm["VersionID"])
						}
					}
				}
			}
		}
	}
	walk = func(v interface{}) interface{} {
		switch t := v.(type) {
		case map[string]interface{}:
			m := map[string]interface{}{}
			for k, x := range t {
				if k == "Created" || k == "Updated" || k == "MutationID" || k == "SavedMutationID" || k == "DataUUID" || k == "KVStore" || k == "LogStore" {
					continue
				}
				if n, ok := names[k]; ok {
					k = n
				}
				// null, {} and [] are the same observable ("nothing"): a reloaded instance reports an empty map where
				// a freshly created one reports null
				switch e := x.(type) {
				case nil:
					continue
				case map[string]interface{}:
					if len(e) == 0 {
						continue
					}
				case []interface{}:
					if len(e) == 0 {
						continue
					}
				}
				m[k] = walk(x)
			}
			return m
		case []interface{}:
			a := make([]interface{}, len(t))
			for i, x := range t {
				a[i] = walk(x)
			}
			return a
		case string:
			s := wlTime.ReplaceAllString(t, "<time>")
			return wlHex32.ReplaceAllStringFunc(s, func(u string) string {
				if n, ok := names[u]; ok {
					return n
				}
				if strings.HasPrefix(u, "c0ffee") {
					return u // a caller-assigned version uuid that does not (yet) exist
				}
				return "<server-generated-uuid>" // data-instance uuids are random per run
			})
		}
		return v
	}
	canon := walk(info)
	if cm, ok := canon.(map[string]interface{}); ok {
		keys := make([]string, 0, len(cm))
		for k := range cm {
			keys = append(keys, k)
		}
		sort.Strings(keys)
		for _, k := range keys {
			b, _ := json.Marshal(cm[k])
			out["repo:"+k] = string(b)
		}
	}
	out["repos:status"] = fmt.Sprint(r.Code)
	// data
	for inst, reads := range w.Instances {
		for _, u := range w.Versions {
			if _, known := names[u]; !known {
				continue
			}
			for _, rd := range reads {
				key := fmt.Sprintf("data:%s@%s:%s", inst, names[u], rd)
				if rd == "mapping-all" {
					mp, x := lmMapping(u, inst, []uint64{1, 2, 3, 4, 5, 6, 7, 8, 9, 200, 300})
					out[key] = fmt.Sprintf("%d:%v", x.Code, mp)
					continue
				}
				if rd == "ptquery-probe" {
					x := vsrv.PostS("node/"+u+"/"+inst+"/ptquery", `[[0,0,0],[8,8,8],[17,8,8],[-1,0,-8],[8,0,16],[9,9,0]]`)
					out[key] = fmt.Sprintf("%d:%s", x.Code, x.Body)
					continue
				}
				x := vsrv.Get("node/" + u + "/" + inst + "/" + rd)
				val := lmNormalize(rd, x.Code, x.Body)
				if inst == "ann" {
					val = annNormalize(x.Code, x.Body)
				}
				if inst == "nj" {
					val = njNormalize(x.Code, x.Body)
				}
				if rd == "supervoxel-splits" {
					// [uuid, [[mutation id, supervoxel, split, remain], ...], ...]: mutation ids are documented to jump forward
					// across a restart, and uuids are renamed
					var raw []interface{}
					if json.Unmarshal(x.Body, &raw) == nil {
						for i, e := range raw {
							switch t := e.(type) {
							case string:
								if n, ok := names[t]; ok {
									raw[i] = n
								}
							case []interface{}:
								for _, rec := range t {
									if r4, ok := rec.([]interface{}); ok && len(r4) > 0 {
										r4[0] = "mutid"
									}
								}
							}
						}
						b, _ := json.Marshal(raw)
						val = fmt.Sprintf("%d:%s", x.Code, b)
					}
				}
				out[key] = val
			}
		}
	}
	return out
}

// wlRunWorker: wlrun <dir> <workload> <from> <to> <exit: clean|abrupt|stay> [<snapshot file prefix>|nosnap]
// Boots (or re-boots) on dir with the vkv/vlog engines, runs ops[from:to), printing for every acknowledged op
//   ACK <index> <status> <writes so far>
// and, when "snap" is given, writes dir/snap-<index>.json after each acknowledged op (index = number of ops done) as well
// as snap-<from>.json right after boot. State (ids, vars) is carried in dir/wlstate.json.
func wlRunWorker(args []string) int {
	dir, name := args[0], args[1]
	var from, to int
	fmt.Sscanf(args[2], "%d", &from)
	fmt.Sscanf(args[3], "%d", &to)
	exit := args[4]
	snap := len(args) > 5 && args[5] != "" && args[5] != "nosnap"
	prefix := "snap"
	if snap {
		prefix = args[5]
	}
	w := wlWorkloads()[name]
	if w == nil {
		fmt.Println("ERR unknown workload")
		return 2
	}
	if to > len(w.Ops) {
		to = len(w.Ops)
	}
	vsrv.SingleThreaded = true
	// instrumented binary only: count the writing engine transactions (Update / Flush / Commit inside storage/badger) and
	// die immediately before the n-th one - a kill point between the transactions of one store operation
	var txns, txnCrashAt int64
	fmt.Sscanf(os.Getenv("VERIF_CRASH_AT_TXN"), "%d", &txnCrashAt)
	vsync.TxnHook = func(kind string) {
		if kind == "View" {
			return
		}
		if n := atomic.AddInt64(&txns, 1); n == txnCrashAt {
			os.Stdout.Sync()
			os.Exit(137)
		}
	}
	if err := vsrv.Boot(dir, vsrv.Options{KVEngine: "vkv", LogEngine: "vlog"}); err != nil {
		fmt.Printf("BOOTFAIL %s\n", strings.ReplaceAll(err.Error(), "\n", " "))
		return 3
	}
	fmt.Printf("BOOTED writes=%d\n", vsrv.WriteCount)
	st := &wlState{Dir: dir}
	if b, err := os.ReadFile(dir + "/wlstate.json"); err == nil {
		json.Unmarshal(b, st)
	}
	save := func() {
		b, _ := json.Marshal(st)
		os.WriteFile(dir+"/wlstate.json.tmp", b, 0644)
		os.Rename(dir+"/wlstate.json.tmp", dir+"/wlstate.json")
	}
	writeSnap := func(i int) {
		if !snap {
			return
		}
		vsrv.Quiesce()
		b, _ := json.Marshal(wlSnapshot(w, st))
		os.WriteFile(fmt.Sprintf("%s/%s-%d.json", dir, prefix, i), b, 0644)
	}
	vsrv.Quiesce()
	writeSnap(from)
	for i := from; i < to; i++ {
		r := w.Ops[i].Run(st)
		vsrv.Quiesce()
		st.Acked = i + 1
		wlRecordIDs(st)
		save()
		fmt.Printf("ACK %d %d %d\n", i, r.Code, vsrv.WriteCount)
		os.Stdout.Sync()
		writeSnap(i + 1)
	}
	fmt.Printf("TXNS %d\n", atomic.LoadInt64(&txns))
	fmt.Printf("DONE writes=%d\n", vsrv.WriteCount)
	os.Stdout.Sync()
	switch exit {
	case "clean":
		vsrv.Shutdown()
		return 0
	case "abrupt":
		os.Exit(0)
	}
	return 0
}

// wlRecordIDs adds every repo id, version id and instance id the manager currently knows to the state's id sets
// (so that ids of later-deleted objects are remembered).
func wlRecordIDs(st *wlState) {
	d := datastore.VerifDump()
	add := func(stream string, v uint64) {
		for _, x := range st.IDs[stream] {
			if x == v {
				return
			}
		}
		st.id(stream, v)
	}
	for _, r := range d.Repos {
		add("repo", uint64(r.ID))
		for _, n := range r.Nodes {
			add("version", uint64(n.Version))
		}
		for _, in := range r.Instances {
			p := strings.Split(in, ":")
			var id uint64
			fmt.Sscanf(p[len(p)-1], "%d", &id)
			add("instance", id)
		}
	}
}
