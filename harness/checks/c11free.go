package checks

// C11 free-running complement. The scheduler-controlled exploration (c11.go) interleaves request goroutines only at
// lock, WaitGroup, spawn and storage points; an unsynchronised access between two such points is invisible to it, and
// its cooperative hand-offs would also blind the race detector. So the SAME scenario bodies (and a few wider mixes) are
// additionally run as real goroutines on all cores in the plain, uninstrumented binary. This pass is a complement, not
// the deciding step: it is sampling, and it only reports what cannot be a scheduling artefact - the death of the server
// process (Go's "fatal error: concurrent map ..." / an unrecovered panic). Verdict failures seen here are counted in the
// evidence but not reported (the controlled exploration decides those, deterministically).

import (
	"encoding/json"
	"fmt"
	"os"
	"os/exec"
	"path/filepath"
	"regexp"
	"sort"
	"strings"
	"sync"

	"verif/vlib"
	"verif/vsrv"
)

func init() { vlib.Workers["c11free"] = c11FreeWorker }

type c11FreeResult struct {
	Scenario string `json:"scenario"`
	Rounds   int    `json:"rounds"`
	Verdicts int    `json:"verdict_failures"` // counted, not reported
	Err      string `json:"err,omitempty"`
}

// c11FreeMixes are wider free-running mixes: many writers and readers of the repo manager's maps and of one instance.
func c11FreeMixes() []c11Scenario {
	var sc []c11Scenario
	sc = append(sc, c11Scenario{name: "F1:free:repos-and-versions", setup: func() (*c11World, error) {
		root, err := vsrv.NewRepo()
		if err == nil {
			err = vsrv.NewInstance(root, "keyvalue", "kv", nil)
		}
		return &c11World{root: root, nodes: map[string]string{}, resp: make([]vsrv.Resp, 16)}, err
	},
		bodies: func(w *c11World) []func() {
			var b []func()
			for i := 0; i < 4; i++ {
				i := i
				b = append(b, func() {
					r := vsrv.PostS("repos", fmt.Sprintf(`{"alias":"f%d","description":"d"}`, i))
					var m struct{ Root string }
					json.Unmarshal(r.Body, &m)
					if r.OK() {
						vsrv.PostS("repo/"+m.Root+"/instance", `{"typename":"keyvalue","dataname":"k"}`)
						vsrv.PostS("node/"+m.Root+"/k/key/a", "v")
						vsrv.PostS("node/"+m.Root+"/commit", `{"note":"c"}`)
						vsrv.PostS("node/"+m.Root+"/newversion", `{"note":"n"}`)
					}
				})
				b = append(b, func() {
					for k := 0; k < 6; k++ {
						vsrv.Get("repos/info")
						vsrv.Get("repo/" + w.root + "/info")
						vsrv.Get("node/" + w.root + "/kv/keys")
						vsrv.PostS("node/"+w.root+"/kv/key/x", "y")
					}
				})
			}
			return b
		},
		verdict: func(w *c11World) []string { return nil }})
	return sc
}

func c11FreeWorker(args []string) int {
	dir, err := mkTemp("c11free")
	if err != nil {
		return 1
	}
	defer rmAll(dir)
	if err := vsrv.Boot(dir, vsrv.Options{}); err != nil {
		return 1
	}
	scs := map[string]c11Scenario{}
	for _, s := range append(c11Scenarios(), c11FreeMixes()...) {
		scs[s.name] = s
	}
	return vlib.ServeJobs(func(job string) string {
		var j struct {
			Scenario string
			Rounds   int
		}
		json.Unmarshal([]byte(job), &j)
		res := c11FreeResult{Scenario: j.Scenario}
		sc, ok := scs[j.Scenario]
		if !ok {
			res.Err = "unknown scenario"
		}
		for r := 0; ok && r < j.Rounds; r++ {
			w, err := sc.setup()
			if err != nil {
				res.Err = err.Error()
				break
			}
			var wg sync.WaitGroup
			for _, body := range sc.bodies(w) {
				wg.Add(1)
				go func(f func()) { defer wg.Done(); f() }(body)
			}
			wg.Wait()
			if bad := sc.verdict(w); len(bad) > 0 {
				res.Verdicts++
			}
			res.Rounds++
		}
		b, _ := json.Marshal(res)
		return string(b)
	})
}

var c11FatalRe = regexp.MustCompile(`(?m)^(fatal error: .*|panic: .*)$`)

// c11FreePass runs the free-running complement in worker processes of the plain binary (the caller is the instrumented one).
func c11FreePass(c *vlib.Ctx, rounds int) {
	plain := filepath.Join(vlib.VerifDir, ".build", "vcheck")
	if _, err := os.Stat(plain); err != nil {
		c.Cap("free-running complement skipped: plain binary not found")
		return
	}
	var names []string
	for _, s := range append(c11Scenarios(), c11FreeMixes()...) {
		if strings.HasPrefix(s.name, "S4") {
			continue // label operations: minutes per round free-running; their shared state is all behind the index locks explored above
		}
		names = append(names, s.name)
	}
	type out struct {
		name   string
		res    c11FreeResult
		died   bool
		stderr string
	}
	results := make([]out, len(names))
	vlib.Par(len(names), 4, func(i int) {
		job, _ := json.Marshal(map[string]interface{}{"Scenario": names[i], "Rounds": rounds})
		cmd := exec.Command(plain, "worker", "c11free")
		cmd.Env = append(os.Environ(), "GOMAXPROCS=16")
		cmd.Stdin = strings.NewReader(string(job) + "\n")
		var so, se strings.Builder
		cmd.Stdout, cmd.Stderr = &so, &se
		err := cmd.Run()
		o := out{name: names[i], stderr: se.String()}
		got := false
		for _, l := range strings.Split(so.String(), "\n") {
			if strings.HasPrefix(l, vlib.AnswerPrefix) {
				got = json.Unmarshal([]byte(strings.TrimPrefix(l, vlib.AnswerPrefix)), &o.res) == nil
			}
		}
		o.died = err != nil && !got
		results[i] = o
	})
	total, verdicts := 0, 0
	for _, o := range results {
		total += o.res.Rounds
		verdicts += o.res.Verdicts
		if o.died {
			first := c11FatalRe.FindString(o.stderr)
			if first == "" {
				c.Cap("free-running worker for " + o.name + " ended without an answer and without a fatal error line")
				continue
			}
			cls := first
			if i := strings.Index(cls, ":"); i > 0 && strings.HasPrefix(cls, "fatal error") {
				cls = strings.TrimSpace(cls[i+1:])
			}
			cls = strings.ReplaceAll(trunc(cls, 60), " ", "-")
			c.Violate("free:"+o.name+":process-death:"+cls, fmt.Sprintf("free-running run of %s (real goroutines, no scheduler): the server process died: %s | %s", o.name, first, trunc(tailAfter(o.stderr, first), 1200)), map[string]interface{}{"scenario": o.name, "mode": "free-running", "stderr": trunc(tailAfter(o.stderr, first), 4000)})
		}
	}
	c.Set("free_running_complement", map[string]interface{}{"scenarios": len(names), "rounds": total, "verdict_failures_seen_not_reported": verdicts,
		"reports": "process death only (fatal error / unrecovered panic); sampling, complements the controlled exploration for accesses between scheduling points"})
}

// c11RacePass runs the same free-running bodies in a -race build of the plain harness (thorough tier). The cooperative
// scheduler's hand-offs are happens-before edges, so the race detector can only see unsynchronised accesses in a run
// without the scheduler. Reports are supplementary evidence (distinct racing sites), never a VIOLATION: the property
// speaks about outcomes, which the controlled exploration decides.
func c11RacePass(c *vlib.Ctx, rounds int) {
	bin := filepath.Join(vlib.VerifDir, ".build", "vcheck-race")
	if _, err := os.Stat(bin); err != nil {
		c.Set("race_detector_pass", "skipped: no -race build")
		return
	}
	var names []string
	for _, s := range append(c11Scenarios(), c11FreeMixes()...) {
		if strings.HasPrefix(s.name, "S4") {
			continue
		}
		if only := os.Getenv("VERIF_C11_RACEONLY"); only != "" && only != "1" && !strings.HasPrefix(s.name, only) {
			continue
		}
		names = append(names, s.name)
	}
	dir, err := mkTemp("c11race")
	if err != nil {
		return
	}
	defer rmAll(dir)
	reports := make([]string, len(names))
	vlib.Par(len(names), 4, func(i int) {
		job, _ := json.Marshal(map[string]interface{}{"Scenario": names[i], "Rounds": rounds})
		cmd := exec.Command(bin, "worker", "c11free")
		logp := filepath.Join(dir, fmt.Sprintf("race-%d", i))
		cmd.Env = append(os.Environ(), "GOMAXPROCS=16", "VERIF_NO_ASLIMIT=1", "GORACE=halt_on_error=0 history_size=2 log_path="+logp)
		cmd.Stdin = strings.NewReader(string(job) + "\n")
		cmd.Run()
		files, _ := filepath.Glob(logp + ".*")
		var sb strings.Builder
		for _, f := range files {
			if b, err := os.ReadFile(f); err == nil {
				sb.Write(b)
			}
		}
		reports[i] = sb.String()
	})
	total := 0
	sites := map[string]int{}
	dvidFrame := regexp.MustCompile(`(?m)^  (github\.com/janelia-flyem/dvid/[^\s(]+)\(`)
	for _, rep := range reports {
		for _, r := range strings.Split(rep, "WARNING: DATA RACE")[1:] {
			total++
			// the first DVID frame of each of the two accesses names the racing site
			fr := dvidFrame.FindAllStringSubmatch(r, -1)
			site := "outside dvid"
			if len(fr) > 0 {
				site = fr[0][1]
				for _, f := range fr[1:] {
					if f[1] != site {
						site += " <-> " + f[1]
						break
					}
				}
			}
			sites[site]++
		}
	}
	var list []string
	for s, n := range sites {
		list = append(list, fmt.Sprintf("%s (%d reports)", s, n))
	}
	sort.Strings(list)
	if len(list) > 40 {
		list = list[:40]
	}
	c.Set("race_detector_pass", map[string]interface{}{"scenarios": len(names), "rounds_each": rounds, "data_race_reports": total, "distinct_racing_sites": list,
		"note": "free-running -race run of the scenario bodies (no scheduler); supplementary evidence for accesses between scheduling points, not a verdict about the property"})
}

func tailAfter(s, marker string) string {
	if i := strings.Index(s, marker); i >= 0 {
		return s[i:]
	}
	return s
}
