package checks

// C01 Versioned reads resolve to the nearest ancestor write in the version DAG.
// Explicit enumeration of every version DAG the real API can build on <= N nodes x every placement of
// {nothing,value,tombstone} x every queried version x entry orders, against a ~40-line reference resolver.

import (
	"time"
	"os"
	"fmt"
	"sort"
	"strings"
	"sync"
	"sync/atomic"

	"github.com/janelia-flyem/dvid/datastore"
	"github.com/janelia-flyem/dvid/dvid"
	"github.com/janelia-flyem/dvid/storage"

	"verif/vlib"
	"verif/vsrv"
)

func init() { vlib.Register("C01", "model_checking", runC01) }

// dagSpec: parents[i] is the ordered parent list of node i (node 0 is the root, parents[0] == nil).
type dagSpec [][]int

func (d dagSpec) String() string {
	var sb strings.Builder
	for i, p := range d {
		if i > 0 {
			fmt.Fprintf(&sb, " %d<-%v", i, p)
		}
	}
	return strings.TrimSpace(sb.String())
}

// enumDAGs calls f for every DAG on exactly n nodes: node i is a child of one earlier node or an ordered merge of 2..3 distinct earlier nodes.
func enumDAGs(n int, f func(d dagSpec)) {
	var rec func(d dagSpec)
	rec = func(d dagSpec) {
		i := len(d)
		if i == n {
			cp := make(dagSpec, n)
			copy(cp, d)
			f(cp)
			return
		}
		for a := 0; a < i; a++ {
			rec(append(d, []int{a}))
		}
		for a := 0; a < i; a++ {
			for b := 0; b < i; b++ {
				if b == a {
					continue
				}
				rec(append(d, []int{a, b}))
				for c := 0; c < i; c++ {
					if c == a || c == b {
						continue
					}
					rec(append(d, []int{a, b, c}))
				}
			}
		}
	}
	rec(dagSpec{nil})
}

// ancMasks returns for every node the bitmask of its proper ancestors.
func (d dagSpec) ancMasks() []uint32 {
	m := make([]uint32, len(d))
	for i := range d {
		for _, p := range d[i] {
			m[i] |= 1<<uint(p) | m[p]
		}
	}
	return m
}

// c01Expect is the reference resolver. place[i]: 0 nothing, 1 value, 2 tombstone.
// It returns the live unsuperseded value nodes at version v.
func c01Expect(anc []uint32, place []int, v int) (live []int) {
	e := anc[v] | 1<<uint(v)
	for a := 0; a < len(place); a++ {
		if e&(1<<uint(a)) == 0 || place[a] == 0 {
			continue
		}
		superseded := false
		for d := 0; d < len(place); d++ {
			if d != a && e&(1<<uint(d)) != 0 && place[d] != 0 && anc[d]&(1<<uint(a)) != 0 {
				superseded = true
				break
			}
		}
		if !superseded && place[a] == 1 {
			live = append(live, a)
		}
	}
	return
}

// builtDAG is a DAG realised in a real repo.
type builtDAG struct {
	onlyLast bool // read at the last node only
	spec dagSpec
	root dvid.UUID
	uuid []dvid.UUID
	vid  []dvid.VersionID
}

var c01RepoMu sync.Mutex

// buildDAG creates the DAG through the real repo manager API. Every node is committed (the last one too: reads do not care).
func buildDAG(spec dagSpec) (*builtDAG, error) {
	b := &builtDAG{spec: spec}
	root, err := datastore.NewRepo("c01", "dag", nil, "pw")
	if err != nil {
		return nil, err
	}
	b.root = root
	b.uuid = append(b.uuid, root)
	if err := datastore.Commit(root, "", nil); err != nil {
		return nil, err
	}
	for i := 1; i < len(spec); i++ {
		var u dvid.UUID
		if len(spec[i]) == 1 {
			u, err = datastore.NewVersion(b.uuid[spec[i][0]], "", fmt.Sprintf("br%d", i), nil)
		} else {
			ps := make([]dvid.UUID, len(spec[i]))
			for k, p := range spec[i] {
				ps[k] = b.uuid[p]
			}
			u, err = datastore.Merge(ps, "", datastore.MergeConflictFree)
		}
		if err != nil {
			return nil, fmt.Errorf("building node %d of %s: %v", i, spec, err)
		}
		b.uuid = append(b.uuid, u)
		if err := datastore.Commit(u, "", nil); err != nil {
			return nil, err
		}
	}
	for _, u := range b.uuid {
		v, err := datastore.VersionFromUUID(u)
		if err != nil {
			return nil, err
		}
		b.vid = append(b.vid, v)
	}
	return b, nil
}

func (b *builtDAG) drop() { datastore.DeleteRepo(b.root, "pw") }

// checkMirror verifies that the real DAG's parent lists equal the spec (binding of the harness's mirror to the implementation).
func (b *builtDAG) checkMirror() error {
	idx := map[dvid.VersionID]int{}
	for i, v := range b.vid {
		idx[v] = i
	}
	for i, v := range b.vid {
		ps, err := datastore.GetParentsByVersion(v)
		if err != nil {
			return err
		}
		if len(ps) != len(b.spec[i]) {
			return fmt.Errorf("node %d has %d parents, spec %v", i, len(ps), b.spec[i])
		}
		for k, p := range ps {
			if idx[p] != b.spec[i][k] {
				return fmt.Errorf("node %d parent %d is node %d, spec %v", i, k, idx[p], b.spec[i])
			}
		}
	}
	return nil
}

type c01Data struct {
	*datastore.Data
}

func runC01(c *vlib.Ctx) {
	cleanup, ok := bootTemp(c, vsrv.Options{})
	if !ok {
		return
	}
	defer cleanup()

	maxN := 5
	if c.Thorough() {
		maxN = 6
	}
	// A data instance only to obtain a DataContext (instance id) for synthetic keys.
	hroot, err := vsrv.NewRepo()
	if err != nil {
		c.Violate("harness:repo", err.Error(), nil)
		return
	}
	if err := vsrv.NewInstance(hroot, "keyvalue", "synth", nil); err != nil {
		c.Violate("harness:instance", err.Error(), nil)
		return
	}
	synth, err := datastore.GetDataByUUIDName(dvid.UUID(hroot), "synth")
	if err != nil {
		c.Violate("harness:instance", err.Error(), nil)
		return
	}
	tk := storage.NewTKey(storage.TKeyClass(177), []byte("datum"))

	var states, transitions, traces int64
	for n := 2; n <= maxN; n++ {
		var specs []dagSpec
		enumDAGs(n, func(d dagSpec) { specs = append(specs, d) })
		// n = 6 has 204000 DAGs x 729 placements; it is explored under a wall-clock budget in a fixed strided order
		// (a deterministic permutation, so a prefix spans all shapes) and reported as capped when the budget ends.
		var deadline time.Time
		var done6, skipped6 int64
		stride := 1
		if n >= 6 {
			budget := 45 * time.Minute
			if v, err := time.ParseDuration(os.Getenv("VERIF_C01_N6_BUDGET")); err == nil {
				budget = v
			}
			deadline = time.Now().Add(budget)
			stride = 7919 // prime, coprime with len(specs)
			for len(specs)%stride == 0 {
				stride += 2
			}
		}
		vlib.Par(len(specs), 16, func(si int) {
			spec := specs[(si*stride)%len(specs)]
			if !deadline.IsZero() {
				if time.Now().After(deadline) {
					atomic.AddInt64(&skipped6, 1)
					return
				}
				defer atomic.AddInt64(&done6, 1)
			}
			b, err := buildDAG(spec)
			if err != nil {
				c.Violate("harness:build:"+spec.String(), err.Error(), nil)
				return
			}
			defer b.drop()
			if err := b.checkMirror(); err != nil {
				c.Violate("mirror:"+spec.String(), "real DAG differs from requested shape: "+err.Error(), map[string]interface{}{"dag": spec})
				return
			}
			atomic.AddInt64(&traces, 1)
			atomic.AddInt64(&transitions, int64(2*n-1))
			c01Resolver(c, b, synth, tk, &states)
		})
		c.Set(fmt.Sprintf("dags_n%d", n), len(specs))
		if skipped6 > 0 {
			c.Set(fmt.Sprintf("dags_n%d_explored", n), done6)
			c.Cap(fmt.Sprintf("n=%d: wall-clock budget reached after %d of %d DAGs (strided order); all DAGs on <= %d nodes fully covered", n, done6, len(specs), n-1))
		}
	}
	// quick and thorough: a 6-node family that needs no budget - the first five nodes form a DAG with at most one
	// 2-parent merge, the sixth is an ordered 2-parent merge of any two of them (3360 DAGs: merges of a node with its own
	// descendant, of a conflicted sub-merge with the lineage that resolved it, of a pass-through sibling with a deep
	// lineage); read at the merge node only.
	{
		var specs []dagSpec
		enumDAGs(6, func(d dagSpec) {
			merges := 0
			for i := 1; i < 5; i++ {
				if len(d[i]) == 3 {
					return
				}
				if len(d[i]) == 2 {
					merges++
				}
			}
			if merges <= 1 && len(d[5]) == 2 {
				specs = append(specs, d)
			}
		})
		vlib.Par(len(specs), 16, func(si int) {
			b, err := buildDAG(specs[si])
			if err != nil {
				c.Violate("harness:build:"+specs[si].String(), err.Error(), nil)
				return
			}
			defer b.drop()
			if err := b.checkMirror(); err != nil {
				c.Violate("mirror:"+specs[si].String(), "real DAG differs from requested shape: "+err.Error(), map[string]interface{}{"dag": specs[si]})
				return
			}
			b.onlyLast = true
			atomic.AddInt64(&traces, 1)
			atomic.AddInt64(&transitions, 11)
			c01Resolver(c, b, synth, tk, &states)
		})
		c.Set("dags_n6_final_merge_family", len(specs))
	}
	c.Sample(map[string]interface{}{"dag": "1<-[0] 2<-[0] 3<-[2] 4<-[1 2 3]", "placement": "node1=value node2=value node3=tombstone", "query": 4, "expect": "value written at node 1"})

	// end-to-end layer through the HTTP key-value API
	c01E2E(c, &states, &transitions, &traces)

	c.Set("states", states)
	c.Set("transitions", transitions)
	c.Set("traces_validated_against_impl", traces)
	c.Set("bound", fmt.Sprintf("resolver: all DAGs on <= %d nodes; end-to-end: see e2e_max_nodes", maxN))
	c.Set("rule", "state = (DAG built through the real repo API, placement of nothing/value/tombstone per node, queried version); every state is evaluated on the real resolver with several entry orders; non-trivial = the queried version has >= 2 entries among its ancestors-or-self")
	c.Assume("entry order can only matter through Go map iteration (the resolver copies entries into a map); all permutations up to 4 entries, else sorted/reversed/rotations, each evaluated twice")
	c.Assume("0 live values must read as not-found without error; >= 2 unsuperseded live values must not return a value (error or not-found accepted)")
}

// c01Resolver evaluates every placement x queried version x entry order on the real resolver functions.
func c01Resolver(c *vlib.Ctx, b *builtDAG, data datastore.DataService, tk storage.TKey, states *int64) {
	n := len(b.spec)
	anc := b.spec.ancMasks()
	ctx0 := datastore.NewVersionedCtx(data, b.vid[0])
	valKey := make([]storage.Key, n)
	tombKey := make([]storage.Key, n)
	for i := 0; i < n; i++ {
		valKey[i] = ctx0.ConstructKeyVersion(tk, b.vid[i])
		tombKey[i] = ctx0.TombstoneKeyVersion(tk, b.vid[i])
	}
	ctxs := make([]*datastore.VersionedCtx, n)
	for i := 0; i < n; i++ {
		ctxs[i] = datastore.NewVersionedCtx(data, b.vid[i])
	}
	total := 1
	for i := 0; i < n; i++ {
		total *= 3
	}
	place := make([]int, n)
	var evals, st, nontriv int64
	for code := 0; code < total; code++ {
		x := code
		var entries []int
		for i := 0; i < n; i++ {
			place[i] = x % 3
			x /= 3
			if place[i] != 0 {
				entries = append(entries, i)
			}
		}
		orders := c01Orders(entries)
		for v := 0; v < n; v++ {
			if b.onlyLast && v != n-1 {
				continue
			}
			st++
			live := c01Expect(anc, place, v)
			nEnt := 0
			for _, e := range entries {
				if (anc[v]|1<<uint(v))&(1<<uint(e)) != 0 {
					nEnt++
				}
			}
			if nEnt >= 2 {
				nontriv++ // (DAG, placement code, queried version) triples are distinct by construction
			}
			for oi, ord := range orders {
				keys := make([]storage.Key, len(ord))
				kvs := make([]*storage.KeyValue, len(ord))
				for k, e := range ord {
					if place[e] == 1 {
						keys[k] = valKey[e]
					} else {
						keys[k] = tombKey[e]
					}
					kvs[k] = &storage.KeyValue{K: keys[k], V: []byte{byte(e)}}
				}
				evals += 2
				got, err := ctxs[v].GetBestKeyVersion(keys)
				kv, err2 := ctxs[v].VersionedKeyValue(kvs)
				report := func(api, what string) {
					key := fmt.Sprintf("resolver:%s:%s", api, c01Class(b.spec, place, v, live))
					c.Violate(key, fmt.Sprintf("%s on DAG [%s] placement %v (0 none,1 value,2 tombstone) queried at node %d, entry order %v: %s", api, b.spec, append([]int{}, place...), v, ord, what),
						map[string]interface{}{"dag": b.spec, "placement": append([]int{}, place...), "query": v, "order": ord, "expected_live_nodes": live})
				}
				switch len(live) {
				case 1:
					want := valKey[live[0]]
					if err != nil || got == nil || string(got) != string(want) {
						report("GetBestKeyVersion", fmt.Sprintf("expected the value of node %d, got key=%s err=%v", live[0], c01KeyNode(got, valKey, tombKey), err))
					}
					if err2 != nil || kv == nil || string(kv.K) != string(want) {
						k := storage.Key(nil)
						if kv != nil {
							k = kv.K
						}
						report("VersionedKeyValue", fmt.Sprintf("expected the value of node %d, got key=%s err=%v", live[0], c01KeyNode(k, valKey, tombKey), err2))
					}
					c.Outcome("value")
				case 0:
					if got != nil || err != nil {
						report("GetBestKeyVersion", fmt.Sprintf("expected not-found, got key=%s err=%v", c01KeyNode(got, valKey, tombKey), err))
					}
					if kv != nil || err2 != nil {
						k := storage.Key(nil)
						if kv != nil {
							k = kv.K
						}
						report("VersionedKeyValue", fmt.Sprintf("expected not-found, got key=%s err=%v", c01KeyNode(k, valKey, tombKey), err2))
					}
					c.Outcome("notfound")
				default:
					if got != nil && err == nil {
						report("GetBestKeyVersion", fmt.Sprintf("conflict of live values %v but read succeeded with key=%s", live, c01KeyNode(got, valKey, tombKey)))
					}
					if kv != nil && err2 == nil {
						report("VersionedKeyValue", fmt.Sprintf("conflict of live values %v but read succeeded with key=%s", live, c01KeyNode(kv.K, valKey, tombKey)))
					}
					if err2 != nil {
						c.Outcome("conflict-error")
					} else {
						c.Outcome("conflict-notfound")
					}
				}
				_ = oi
			}
		}
	}
	c.Eval(evals)
	c.NontrivialDistinct(nontriv)
	atomic.AddInt64(states, st)
}

// c01Class names the structural class of a failing case (used as the known-finding key, so a different
// kind of failure is still reported).
func c01Class(d dagSpec, place []int, v int, live []int) string {
	maxPar := 0
	merges := 0
	for _, p := range d {
		if len(p) > maxPar {
			maxPar = len(p)
		}
		if len(p) > 1 {
			merges++
		}
	}
	return fmt.Sprintf("live%d:maxparents%d:merges%d", min(len(live), 2), maxPar, min(merges, 2))
}

func c01KeyNode(k storage.Key, val, tomb []storage.Key) string {
	if k == nil {
		return "nil"
	}
	for i := range val {
		if string(k) == string(val[i]) {
			return fmt.Sprintf("value@node%d", i)
		}
		if string(k) == string(tomb[i]) {
			return fmt.Sprintf("tombstone@node%d", i)
		}
	}
	return "unknown"
}

// c01Orders: all permutations for <= 4 entries, otherwise sorted, reversed and all rotations; each order appears twice
// (map iteration order is re-randomised per evaluation).
func c01Orders(entries []int) [][]int {
	if len(entries) == 0 {
		return [][]int{{}}
	}
	var out [][]int
	if len(entries) <= 4 {
		var perm func(a []int, k int)
		perm = func(a []int, k int) {
			if k == len(a) {
				out = append(out, append([]int{}, a...))
				return
			}
			for i := k; i < len(a); i++ {
				a[k], a[i] = a[i], a[k]
				perm(a, k+1)
				a[k], a[i] = a[i], a[k]
			}
		}
		perm(append([]int{}, entries...), 0)
	} else {
		s := append([]int{}, entries...)
		sort.Ints(s)
		for r := 0; r < len(s); r++ {
			out = append(out, append(append([]int{}, s[r:]...), s[:r]...))
		}
		rev := make([]int, len(s))
		for i := range s {
			rev[len(s)-1-i] = s[i]
		}
		out = append(out, rev)
	}
	if len(out) < 2 {
		out = append(out, out[0])
	}
	return out
}
