package checks

// C06 Storage keys isolate data instances, data and versions.
// Codec layer: complete products of id alphabets x every data type's TKey constructors, all pairs for the order
// claims. History layer: operations on instance A (put, delete, delete-range, delete instance, re-create) never change
// what instance B returns; ids at the ends of the 32-bit range through the InstanceStart configuration.

import (
	"bytes"
	"encoding/json"
	"fmt"
	"os"
	"sort"
	"strings"
	"time"

	"github.com/janelia-flyem/dvid/datastore"
	"github.com/janelia-flyem/dvid/datatype/annotation"
	"github.com/janelia-flyem/dvid/datatype/imageblk"
	"github.com/janelia-flyem/dvid/datatype/keyvalue"
	"github.com/janelia-flyem/dvid/datatype/labelmap"
	"github.com/janelia-flyem/dvid/datatype/labelsz"
	"github.com/janelia-flyem/dvid/datatype/neuronjson"
	"github.com/janelia-flyem/dvid/dvid"
	"github.com/janelia-flyem/dvid/storage"

	"verif/vlib"
	"verif/vsrv"
)

func init() {
	vlib.Register("C06", "exploration", runC06)
	vlib.Workers["c06hist"] = c06HistWorker
}

// c06Data is a minimal dvid.Data whose only meaningful property is its instance id.
type c06Data struct {
	dvid.Data
	id dvid.InstanceID
}

func (d c06Data) InstanceID() dvid.InstanceID { return d.id }
func (d c06Data) DataName() dvid.InstanceName { return dvid.InstanceName(fmt.Sprintf("i%d", d.id)) }

type c06TK struct {
	name string
	tk   storage.TKey
}

func c06TKeys(c *vlib.Ctx) []c06TK {
	var out []c06TK
	add := func(name string, tk storage.TKey, err error) {
		if err != nil {
			return // constructor refuses the datum: nothing to store
		}
		out = append(out, c06TK{name, tk})
	}
	strs := []string{"a", "ab", "a0", "b", "a\xff", "\xff", "\xff\xff\xff", "a b", "~", "0", "a\x01", "a\x00", "a\x00b", "\x00", "a\x00\x00\x00\x00\x05", "ab\x00c"}
	for _, s := range strs {
		tk, err := keyvalue.NewTKey(s)
		add(fmt.Sprintf("keyvalue(%q)", s), tk, err)
		tk, err = neuronjson.NewTKey(s)
		add(fmt.Sprintf("neuronjson(%q)", s), tk, err)
		tk, err = annotation.NewTagTKey(annotation.Tag(s))
		add(fmt.Sprintf("annotation.tag(%q)", s), tk, err)
	}
	coords := []int32{-2147483648, -1, 0, 1, 255, 256, 2147483647}
	for _, z := range coords {
		for _, x := range coords {
			idx := dvid.IndexZYX{x, 7, z}
			for _, sc := range []uint8{0, 1, 255} {
				add(fmt.Sprintf("labelmap.block(s%d,%v)", sc, idx), labelmap.NewBlockTKey(sc, &idx), nil)
			}
			add(fmt.Sprintf("imageblk(%v)", idx), imageblk.NewTKey(&idx), nil)
			add(fmt.Sprintf("annotation.block(%v)", idx), annotation.NewBlockTKey(dvid.ChunkPoint3d{x, 7, z}), nil)
		}
	}
	for _, l := range []uint64{0, 1, 255, 256, 1 << 32, 1<<63 - 1, 1 << 63, 1<<64 - 1} {
		add(fmt.Sprintf("labelmap.index(%d)", l), labelmap.NewLabelIndexTKey(l), nil)
		add(fmt.Sprintf("labelmap.affinity(%d)", l), labelmap.NewAffinitiesTKey(l), nil)
		add(fmt.Sprintf("annotation.label(%d)", l), annotation.NewLabelTKey(l), nil)
		for _, it := range []labelsz.IndexType{0, 1, 5} {
			add(fmt.Sprintf("labelsz.typelabel(%d,%d)", it, l), labelsz.NewTypeLabelTKey(it, l), nil)
			for _, sz := range []uint32{0, 1, 1<<32 - 1} {
				add(fmt.Sprintf("labelsz.typesizelabel(%d,%d,%d)", it, sz, l), labelsz.NewTypeSizeLabelTKey(it, sz, l), nil)
			}
		}
	}
	add("imageblk.meta", imageblk.MetaTKey(), nil)
	return out
}

// c06PrefixFree reports pairs of distinct datum keys of one data type where one is a byte prefix of the other
// (then "all versions of one datum are contiguous" cannot hold: the shorter key's version bytes interleave).
func c06PrefixPairs(tks []c06TK) [][2]c06TK {
	var bad [][2]c06TK
	for i, a := range tks {
		for j, b := range tks {
			if i != j && len(a.tk) < len(b.tk) && bytes.HasPrefix(b.tk, a.tk) && strings.SplitN(a.name, "(", 2)[0] == strings.SplitN(b.name, "(", 2)[0] {
				bad = append(bad, [2]c06TK{a, b})
			}
		}
	}
	return bad
}

func runC06(c *vlib.Ctx) {
	c06Codec(c)
	c06History(c)
	c.Set("rule", "codec: ids {0,1,2,0xFF,0x100,0xFFFF,0x10000,0x7FFFFFFF,0x80000000,0xFFFFFFFE,0xFFFFFFFF} for instance x version (x client via UpdateDataKey) x {data,tombstone} x TKeys from every type's constructors; every key is decoded back, all pairs are compared for (instance, datum key, version) order, and every datum's version-key bounds, prefix and instance ranges are checked against all keys. history: scripted instance lifecycles at low ids and at the top of the id range. Non-trivial = distinct storage key")
}

func c06Codec(c *vlib.Ctx) {
	ids := []uint32{0, 1, 2, 0xFF, 0x100, 0xFFFF, 0x10000, 0x7FFFFFFF, 0x80000000, 0xFFFFFFFE, 0xFFFFFFFF}
	tks := c06TKeys(c)
	for _, p := range c06PrefixPairs(tks) {
		c.Violate("codec:prefix-related-datum-keys:"+strings.SplitN(p[0].name, "(", 2)[0],
			fmt.Sprintf("datum keys %s and %s of one data type: the first is a byte prefix of the second, so the second's storage keys fall inside the first's version range", p[0].name, p[1].name),
			map[string]interface{}{"a": p[0].name, "b": p[1].name})
	}
	// drop the longer member of prefix-related pairs from the order product (reported above, once)
	skip := map[string]bool{}
	for _, p := range c06PrefixPairs(tks) {
		skip[p[1].name] = true
	}
	type ent struct {
		key   storage.Key
		inst  uint32
		ver   uint32
		cli   uint32
		tomb  bool
		tki   int
		tkstr string
	}
	var ents []ent
	for _, inst := range ids {
		ctx := storage.NewDataContext(c06Data{id: dvid.InstanceID(inst)}, 0)
		for ti, t := range tks {
			if skip[t.name] {
				continue
			}
			for _, ver := range ids {
				for _, tomb := range []bool{false, true} {
					var k storage.Key
					if tomb {
						k = ctx.TombstoneKeyVersion(t.tk, dvid.VersionID(ver))
					} else {
						k = ctx.ConstructKeyVersion(t.tk, dvid.VersionID(ver))
					}
					ents = append(ents, ent{k, inst, ver, 0, tomb, ti, string(t.tk)})
					c.Eval(1)
				}
			}
		}
	}
	// client ids through UpdateDataKey on a subset
	for _, cli := range ids[1:] {
		ctx := storage.NewDataContext(c06Data{id: 5}, 0)
		for ti, t := range tks {
			if skip[t.name] || ti%7 != 0 {
				continue
			}
			k := ctx.ConstructKeyVersion(t.tk, 9)
			if err := storage.UpdateDataKey(k, 5, 9, dvid.ClientID(cli)); err != nil {
				c.Violate("codec:updatedatakey", err.Error(), nil)
			}
			ents = append(ents, ent{k, 5, 9, cli, false, ti, string(t.tk)})
		}
	}
	// 1. decode every key
	seen := map[string]int{}
	anyCtx := storage.NewDataContext(c06Data{id: 1}, 0)
	for i, e := range ents {
		c.Eval(1)
		if j, dup := seen[string(e.key)]; dup {
			o := ents[j]
			c.Violate("codec:collision", fmt.Sprintf("(instance %d, %s, version %d, tomb %v) and (instance %d, %s, version %d, tomb %v) share storage key %x", e.inst, tks[e.tki].name, e.ver, e.tomb, o.inst, tks[o.tki].name, o.ver, o.tomb, e.key), nil)
		}
		seen[string(e.key)] = i
		c.Nontrivial(string(e.key))
		in, v, cl, err := storage.DataKeyToLocalIDs(e.key)
		tk, err2 := storage.TKeyFromKey(e.key)
		v2, err3 := anyCtx.VersionFromKey(e.key)
		if err != nil || err2 != nil || err3 != nil || uint32(in) != e.inst || uint32(v) != e.ver || uint32(cl) != e.cli || string(tk) != e.tkstr || uint32(v2) != e.ver || e.key.IsTombstone() != e.tomb || !e.key.IsDataKey() {
			c.Violate("codec:decode", fmt.Sprintf("key of (instance %d, %s, version %d, client %d, tomb %v) decodes to instance %d version %d/%d client %d tkey %x tomb %v (errors %v %v %v)",
				e.inst, tks[e.tki].name, e.ver, e.cli, e.tomb, in, v, v2, cl, tk, e.key.IsTombstone(), err, err2, err3), nil)
		}
		// UpdateDataKey round trip
		k2 := append(storage.Key{}, e.key...)
		if err := storage.UpdateDataKey(k2, 77, 88, 99); err != nil {
			c.Violate("codec:updatedatakey", err.Error(), nil)
		}
		storage.UpdateDataKey(k2, dvid.InstanceID(e.inst), dvid.VersionID(e.ver), dvid.ClientID(e.cli))
		if !bytes.Equal(k2, e.key) {
			c.Violate("codec:updatedatakey-roundtrip", fmt.Sprintf("UpdateDataKey round trip changed key of %s", tks[e.tki].name), nil)
		}
	}
	// 2. order: byte order == (instance, datum key, version, client, marker) order; contiguity of datums
	less := func(a, b ent) int {
		switch {
		case a.inst != b.inst:
			return cmpU(a.inst, b.inst)
		case a.tkstr != b.tkstr:
			return strings.Compare(a.tkstr, b.tkstr)
		case a.ver != b.ver:
			return cmpU(a.ver, b.ver)
		case a.cli != b.cli:
			return cmpU(a.cli, b.cli)
		case a.tomb != b.tomb:
			if !a.tomb {
				return -1
			}
			return 1
		}
		return 0
	}
	n := len(ents)
	vlib.Par(n, 16, func(i int) {
		a := ents[i]
		for j := 0; j < n; j++ {
			b := ents[j]
			if got, want := bytes.Compare(a.key, b.key), less(a, b); got != want {
				c.Violate("codec:order", fmt.Sprintf("byte order of keys (%d,%s,v%d) vs (%d,%s,v%d) is %d, component order is %d", a.inst, tks[a.tki].name, a.ver, b.inst, tks[b.tki].name, b.ver, got, want), nil)
				return
			}
		}
		c.Eval(int64(n))
	})
	// 3. per-datum bounds and prefixes against all keys of the same instance; instance ranges against all keys
	type datum struct {
		inst uint32
		tki  int
	}
	done := map[datum]bool{}
	for _, e := range ents {
		d := datum{e.inst, e.tki}
		if done[d] {
			continue
		}
		done[d] = true
		ctx := storage.NewDataContext(c06Data{id: dvid.InstanceID(e.inst)}, 0)
		lo, _ := ctx.MinVersionKey(tks[e.tki].tk)
		hi, _ := ctx.MaxVersionKey(tks[e.tki].tk)
		pre := ctx.UnversionedKeyPrefix(tks[e.tki].tk)
		for _, o := range ents {
			if o.inst != e.inst {
				continue
			}
			c.Eval(1)
			belongs := o.tki == e.tki
			inRange := bytes.Compare(o.key, lo) >= 0 && bytes.Compare(o.key, hi) <= 0
			if belongs != inRange {
				c.Violate("codec:version-bounds", fmt.Sprintf("[MinVersionKey,MaxVersionKey] of %s (instance %d): key of %s v%d inRange=%v belongs=%v", tks[e.tki].name, e.inst, tks[o.tki].name, o.ver, inRange, belongs), nil)
			}
			if hasP := bytes.HasPrefix(o.key, pre); hasP != belongs {
				c.Violate("codec:unversioned-prefix", fmt.Sprintf("UnversionedKeyPrefix of %s is a prefix of a key of %s (belongs=%v)", tks[e.tki].name, tks[o.tki].name, belongs), nil)
			}
		}
	}
	for _, inst := range ids {
		ctx := storage.NewDataContext(c06Data{id: dvid.InstanceID(inst)}, 0)
		lo, hi := ctx.KeyRange()
		lo2, hi2 := storage.DataInstanceKeyRange(dvid.InstanceID(inst))
		for _, o := range ents {
			c.Eval(1)
			mine := o.inst == inst
			in1 := bytes.Compare(o.key, lo) >= 0 && bytes.Compare(o.key, hi) < 0
			in2 := bytes.Compare(o.key, lo2) >= 0 && bytes.Compare(o.key, hi2) < 0
			if in1 != mine {
				c.Violate(fmt.Sprintf("codec:keyrange:instance-%#x", inst), fmt.Sprintf("DataContext.KeyRange of instance %#x: key of instance %#x inside=%v", inst, o.inst, in1), nil)
				break
			}
			if in2 != mine {
				c.Violate(fmt.Sprintf("codec:datainstancekeyrange:instance-%#x", inst), fmt.Sprintf("DataInstanceKeyRange(%#x): key of instance %#x inside=%v", inst, o.inst, in2), nil)
				break
			}
		}
	}
	// 4. monotone id encoders over all 2^32 values (thorough) or boundary neighbourhoods (quick)
	sweep := func(lo, hi uint64) {
		var prev []byte
		for v := lo; v <= hi; v++ {
			b := dvid.InstanceID(uint32(v)).Bytes()
			b2 := dvid.VersionID(uint32(v)).Bytes()
			if !bytes.Equal(b, b2) || dvid.InstanceIDFromBytes(b) != dvid.InstanceID(uint32(v)) || dvid.VersionIDFromBytes(b2) != dvid.VersionID(uint32(v)) {
				c.Violate("codec:id-roundtrip", fmt.Sprintf("id %d does not round trip", v), nil)
				return
			}
			if prev != nil && bytes.Compare(prev, b) >= 0 {
				c.Violate("codec:id-monotone", fmt.Sprintf("bytes(%d) >= bytes(%d)", v-1, v), nil)
				return
			}
			prev = b
		}
		c.Eval(int64(hi - lo + 1))
	}
	if c.Thorough() {
		vlib.Par(256, 16, func(i int) { sweep(uint64(i)<<24, uint64(i)<<24+(1<<24)-1+boolU(i < 255)) })
	} else {
		sweep(0, 1<<20)
		sweep(1<<32-1<<20, 1<<32-1)
		for k := uint(20); k < 32; k++ {
			sweep(1<<k-4096, 1<<k+4096)
		}
	}
	c.Sample(map[string]interface{}{"key": "instance 0xFFFFFFFF, labelmap.block(s1,(-1,7,2147483647)), version 0x80000000, tombstone", "checked": "decode, UpdateDataKey round trip, order against all other keys, datum bounds/prefix, instance ranges"})
	c.Set("codec_keys", len(ents))
	c.Set("codec_tkeys", len(tks))
}

func boolU(b bool) uint64 {
	if b {
		return 1
	}
	return 0
}

func cmpU(a, b uint32) int {
	if a < b {
		return -1
	}
	if a > b {
		return 1
	}
	return 0
}

// ---- history layer (each scenario in its own process: instance ids are configured at boot) ----

func c06History(c *vlib.Ctx) {
	for _, start := range []string{"0", "4294967294"} { // default ids, and ids 0xFFFFFFFE, 0xFFFFFFFF, wrap
		dir, err := mkTemp("c06")
		if err != nil {
			c.Violate("harness:tmpdir", err.Error(), nil)
			return
		}
		res := vlib.RunWorker("c06hist", []string{start, c.Tier, dir, "A"}, nil)
		if res.ExternalKill {
			rmAll(dir)
			c.Cap("history worker (instance_id_start=" + start + ") was killed from outside the harness; its histories were not completed")
			continue
		}
		resB := vlib.RunWorker("c06hist", []string{start, c.Tier, dir, "B"}, nil)
		rmAll(dir)
		res.Lines = append(res.Lines, resB.Lines...)
		if resB.LastLineWith("DONE-B") == "" {
			c.Violate("history:worker-death:restart:start-"+start, fmt.Sprintf("history worker phase B (after restart, instance_id_start=%s) died: %s", start, tail(resB.Stderr, 1200)), nil)
		}
		ok := false
		for _, l := range res.Lines {
			switch {
			case strings.HasPrefix(l, "VIOL\t"):
				p := strings.SplitN(l, "\t", 3)
				c.Violate(p[1], p[2], map[string]interface{}{"instance_id_start": start})
			case strings.HasPrefix(l, "EVAL\t"):
				var n int64
				fmt.Sscanf(l, "EVAL\t%d", &n)
				c.Eval(n)
			case strings.HasPrefix(l, "OUTCOME\t"):
				c.Outcome(strings.TrimPrefix(l, "OUTCOME\t"))
			case l == "DONE":
				ok = true
			}
		}
		if !ok {
			c.Violate("history:worker-death:start-"+start, fmt.Sprintf("history worker (instance_id_start=%s) died: %s", start, tail(res.Stderr, 1200)), nil)
		}
	}
	c.Sample(map[string]interface{}{"history": "instances A,B,C created in sequence; ops on B: put, delete, delete-range, delete instance, re-create; A and C re-read after every op; new instance must list no keys"})
}

func c06HistWorker(args []string) int {
	var start uint32
	fmt.Sscanf(args[0], "%d", &start)
	dir, phase := args[2], args[3]
	if phase == "B" {
		return c06HistAfterRestart(dir, start)
	}
	if err := vsrv.Boot(dir, vsrv.Options{IIDStart: start}); err != nil {
		fmt.Printf("VIOL\thistory:boot:start-%d\tboot with instance_id_start=%d failed: %v\n", start, start, err)
		fmt.Println("DONE")
		return 0
	}
	viol := func(key, f string, a ...interface{}) {
		fmt.Printf("VIOL\t%s\t%s\n", key, strings.ReplaceAll(fmt.Sprintf(f, a...), "\n", " "))
	}
	var evals int64
	root, err := vsrv.NewRepo()
	if err != nil {
		viol("history:harness", "%v", err)
		return 1
	}
	c06AdjacentBoundary(start, viol, &evals)
	names := []string{"ia", "ib", "ic"}
	iid := map[string]string{}
	for _, n := range names {
		if err := vsrv.NewInstance(root, "keyvalue", n, nil); err != nil {
			viol(fmt.Sprintf("history:create:start-%d", start), "creating instance %s: %v", n, err)
			fmt.Println("DONE")
			return 0
		}
		d, _ := datastore.GetDataByUUIDName(dvid.UUID(root), dvid.InstanceName(n))
		iid[n] = fmt.Sprintf("%#x", uint32(d.InstanceID()))
	}
	fmt.Printf("OUTCOME\tids:%v\n", iid)
	keys := []string{"a", "b", "c", "zz"}
	write := func(uuid, inst string, tag string) {
		for _, k := range keys {
			vsrv.PostS("node/"+uuid+"/"+inst+"/key/"+k, inst+"/"+k+"/"+tag)
		}
	}
	for _, n := range names {
		write(root, n, "root")
	}
	vsrv.Commit(root)
	child, _ := vsrv.NewVersion(root)
	for _, n := range names {
		vsrv.PostS("node/"+child+"/"+n+"/key/a", n+"/a/child")
		vsrv.Delete("node/" + child + "/" + n + "/key/b")
	}
	snap := func(inst string) string {
		return c06Snap(root, child, inst, keys, &evals)
	}
	ref := map[string]string{}
	for _, n := range names {
		ref[n] = snap(n)
	}
	checkOthers := func(op string, except string) {
		for _, n := range names {
			if n == except {
				continue
			}
			if s := snap(n); s != ref[n] {
				viol(fmt.Sprintf("history:%s:changed-other-instance", op), "after %s on instance %s (id %s), instance %s (id %s) reads differently: before %s after %s", op, except, iid[except], n, iid[n], ref[n], s)
				ref[n] = s
			}
		}
	}
	data, db, _ := kvData(root, "ib")
	vctx := func(u string) *datastore.VersionedCtx {
		v, _ := datastore.VersionFromUUID(dvid.UUID(u))
		return datastore.NewVersionedCtx(data, v)
	}
	vsrv.PostS("node/"+child+"/ib/key/c", "changed")
	checkOthers("put", "ib")
	vsrv.Delete("node/" + child + "/ib/key/zz")
	checkOthers("delete", "ib")
	lo, _ := keyvalue.NewTKey("")
	hi, _ := keyvalue.NewTKey("\xff\xff")
	if err := db.DeleteRange(vctx(child), lo, hi); err != nil {
		viol("history:deleterange:error", "DeleteRange on ib: %v", err)
	}
	checkOthers("delete-range", "ib")
	if err := db.DeleteAll(vctx(child)); err != nil {
		viol("history:deleteall:error", "DeleteAll on ib: %v", err)
	}
	checkOthers("delete-all", "ib")
	// delete the instance, wait for the asynchronous removal
	if err := datastore.DeleteDataByName(dvid.UUID(root), "ib", ""); err != nil {
		viol("history:delete-instance:error", "%v", err)
	}
	for i := 0; i < 40000; i++ {
		if !c07InDump(root, "ib") {
			break
		}
		time.Sleep(250 * time.Microsecond)
	}
	checkOthers("delete-instance", "ib")
	// raw scan: no key of the deleted instance id may remain
	if okv, ok := db.(storage.OrderedKeyValueDB); ok {
		minK, _ := storage.DataInstanceKeyRange(data.InstanceID())
		maxK := storage.Key{0x02} // end of the data key space (robust for the maximum instance id, whose id+1 wraps)
		ch := make(chan *storage.KeyValue, 100)
		go okv.RawRangeQuery(minK, maxK, true, ch, nil)
		left := 0
		for kv := range ch {
			if kv == nil {
				break
			}
			if in, _, _, err := storage.DataKeyToLocalIDs(kv.K); err == nil && in == data.InstanceID() {
				left++
			}
		}
		if left > 0 {
			viol("history:delete-instance:keys-left", "%d storage keys of deleted instance ib (id %s) remain", left, iid["ib"])
		}
		fmt.Printf("OUTCOME\tkeys-left-after-delete:%d\n", left)
	}
	// re-create: a new instance is empty and gets an id never used before
	for _, n := range []string{"ib", "id"} {
		if err := vsrv.NewInstance(child, "keyvalue", n, nil); err != nil {
			viol(fmt.Sprintf("history:recreate:start-%d", start), "creating instance %s after deletion: %v", n, err)
			continue
		}
		d, _ := datastore.GetDataByUUIDName(dvid.UUID(child), dvid.InstanceName(n))
		id := fmt.Sprintf("%#x", uint32(d.InstanceID()))
		for o, oid := range iid {
			if oid == id {
				viol("history:recreate:id-reused", "new instance %s received instance id %s, already used by %s", n, id, o)
			}
		}
		iid[n+"'"] = id
		r := vsrv.Get("node/" + child + "/" + n + "/keys")
		evals++
		if r.Code != 200 || strings.TrimSpace(string(r.Body)) != "[]" {
			viol("history:recreate:not-empty", "newly created instance %s (id %s) lists keys: %s", n, id, r)
		}
		for _, k := range keys {
			if g := vsrv.Get("node/" + child + "/" + n + "/key/" + k); g.Code != 404 {
				viol("history:recreate:not-empty", "newly created instance %s (id %s) has key %s: %s", n, id, k, g)
			}
		}
		checkOthers("create-"+n, "ib")
	}
	gcOpen := child
	// datum keys that are byte prefixes of one another (a key with an embedded zero byte, reachable as %00 in the URL):
	// either the request is refused, or both keys must keep reading their own values at every version.
	{
		r1 := vsrv.PostS("node/"+child+"/ia/key/p", "plain-child")
		r2 := vsrv.PostS("node/"+child+"/ia/key/p%00q", "aliased-child")
		vsrv.Commit(child)
		gc, _ := vsrv.NewVersion(child)
		gcOpen = gc
		r3 := vsrv.PostS("node/"+gc+"/ia/key/p%00q", "aliased-grandchild")
		evals += 4
		if r1.OK() && r2.OK() && r3.OK() {
			g := vsrv.Get("node/" + gc + "/ia/key/p")
			if g.Code != 200 || string(g.Body) != "plain-child" {
				viol("history:nul-key-alias", "keys \"p\" and \"p\\x00q\" of one keyvalue instance: after writing the second in a later version, GET key/p there returns %s instead of its own value \"plain-child\"", g)
			}
			g = vsrv.Get("node/" + gc + "/ia/keys")
			fmt.Printf("OUTCOME\tnul-keys-listing:%s\n", g)
		} else {
			fmt.Printf("OUTCOME\tnul-key-refused:%d,%d,%d\n", r1.Code, r2.Code, r3.Code)
		}
	}
	// last act before the process dies: create an instance, fill it, delete it (its id must never come back)
	if err := vsrv.NewInstance(gcOpen, "keyvalue", "last", nil); err == nil {
		d, _ := datastore.GetDataByUUIDName(dvid.UUID(gcOpen), "last")
		iid["last"] = fmt.Sprintf("%#x", uint32(d.InstanceID()))
		write(gcOpen, "last", "doomed")
		datastore.DeleteDataByName(dvid.UUID(gcOpen), "last", "")
		for i := 0; i < 40000; i++ {
			if !c07InDump(root, "last") {
				break
			}
			time.Sleep(250 * time.Microsecond)
		}
		time.Sleep(50 * time.Millisecond) // let the asynchronous repo save of the deletion finish before the process dies
	}
	st := map[string]interface{}{"root": root, "open": gcOpen, "ids": iid, "ia": snap("ia"), "ic": snap("ic"), "child": child}
	stb, _ := json.Marshal(st)
	os.WriteFile(dir+"/c06state.json", stb, 0644)
	var idl []string
	for n, id := range iid {
		idl = append(idl, n+"="+id)
	}
	sort.Strings(idl)
	fmt.Printf("OUTCOME\tfinal-ids:%s\n", strings.Join(idl, ","))
	fmt.Printf("EVAL\t%d\n", evals)
	fmt.Println("DONE")
	return 0
}

// c06AdjacentBoundary: three instances created one after the other (adjacent instance ids, adjacent in the store) whose key
// sets meet at the boundary - the greatest datum key of one equals the smallest datum key of the next ("m", "t"). The
// neighbour overwrites / deletes exactly that key in a child version. Listings and range reads of every instance at both
// versions are compared with a plain map per (instance, version): a scan of one instance must stop at its own last key.
func c06AdjacentBoundary(start uint32, viol func(key, f string, a ...interface{}), evals *int64) {
	root, err := vsrv.NewRepo()
	if err != nil {
		viol("history:harness", "%v", err)
		return
	}
	sets := map[string][]string{"ja": {"a", "m"}, "jb": {"m", "t"}, "jc": {"t", "z"}}
	order := []string{"ja", "jb", "jc"}
	for _, n := range order {
		if err := vsrv.NewInstance(root, "keyvalue", n, nil); err != nil {
			viol(fmt.Sprintf("history:create:start-%d", start), "creating instance %s: %v", n, err)
			return
		}
	}
	model := map[string]map[string]map[string]string{"root": {}, "child": {}} // version -> instance -> key -> value
	for _, n := range order {
		model["root"][n], model["child"][n] = map[string]string{}, map[string]string{}
		for _, k := range sets[n] {
			v := `"` + n + "/" + k + `/root"` // a JSON string: keyrangevalues?json=true embeds the stored bytes
			vsrv.PostS("node/"+root+"/"+n+"/key/"+k, v)
			model["root"][n][k], model["child"][n][k] = v, v
		}
	}
	vsrv.Commit(root)
	child, err := vsrv.NewVersion(root)
	if err != nil {
		viol("history:harness", "%v", err)
		return
	}
	// the younger neighbour rewrites its smallest key, the next one deletes its smallest key
	vsrv.PostS("node/"+child+"/jb/key/m", `"jb/m/child"`)
	model["child"]["jb"]["m"] = `"jb/m/child"`
	vsrv.Delete("node/" + child + "/jc/key/t")
	delete(model["child"]["jc"], "t")
	for vn, u := range map[string]string{"root": root, "child": child} {
		for _, n := range order {
			m := model[vn][n]
			var want []string
			for k := range m {
				want = append(want, k)
			}
			sort.Strings(want)
			wj, _ := json.Marshal(want)
			if len(want) == 0 {
				wj = []byte("[]")
			}
			*evals++
			if r := vsrv.Get("node/" + u + "/" + n + "/keys"); r.Code != 200 || strings.TrimSpace(string(r.Body)) != string(wj) {
				viol("history:adjacent-boundary:keys", "instance %s at the %s version lists %s, its own keys are %s (neighbour instances share its boundary keys)", n, vn, r, wj)
			}
			for _, iv := range [][2]string{{"0", "~"}, {sets[n][1], sets[n][1]}, {sets[n][0], sets[n][1]}, {sets[n][1], "~"}} {
				*evals++
				r := vsrv.Get("node/" + u + "/" + n + "/keyrangevalues/" + iv[0] + "/" + iv[1] + "?json=true")
				got := map[string]string{}
				if r.Code == 200 {
					var raw map[string]json.RawMessage
					json.Unmarshal(r.Body, &raw)
					for k, v := range raw {
						got[k] = string(v)
					}
				}
				exp := map[string]string{}
				for k, v := range m {
					if k >= iv[0] && k <= iv[1] {
						exp[k] = v
					}
				}
				if r.Code != 200 || fmt.Sprint(got) != fmt.Sprint(exp) {
					viol("history:adjacent-boundary:keyrangevalues", "instance %s at the %s version: keyrangevalues/%s/%s answers %s, its own content in that interval is %v", n, vn, iv[0], iv[1], r, exp)
				}
				*evals++
				rk := vsrv.Get("node/" + u + "/" + n + "/keyrange/" + iv[0] + "/" + iv[1])
				var gk []string
				json.Unmarshal(rk.Body, &gk)
				var ek []string
				for k := range exp {
					ek = append(ek, k)
				}
				sort.Strings(ek)
				if rk.Code != 200 || fmt.Sprint(gk) != fmt.Sprint(ek) {
					viol("history:adjacent-boundary:keyrange", "instance %s at the %s version: keyrange/%s/%s answers %s, its own keys in that interval are %v", n, vn, iv[0], iv[1], rk, ek)
				}
			}
			for k, v := range m {
				*evals++
				if g := vsrv.Get("node/" + u + "/" + n + "/key/" + k); g.Code != 200 || string(g.Body) != v {
					viol("history:adjacent-boundary:point", "instance %s at the %s version: key %s reads %s, wanted %q", n, vn, k, g, v)
				}
			}
		}
	}
	fmt.Println("OUTCOME\tadjacent-boundary-checked")
}

func c06Snap(root, child, inst string, keys []string, evals *int64) string {
	var sb strings.Builder
	for _, u := range []string{root, child} {
		r := vsrv.Get("node/" + u + "/" + inst + "/keys")
		sb.WriteString(r.String() + ";")
		for _, k := range keys {
			*evals++
			sb.WriteString(vsrv.Get("node/"+u+"/"+inst+"/key/"+k).String() + ";")
		}
	}
	return sb.String()
}

// c06HistAfterRestart is phase B: a new process opens the directories phase A left behind (A exits without a clean
// shutdown), creates an instance and checks that it is empty, has a never-used id, and that the old instances read as before.
func c06HistAfterRestart(dir string, start uint32) int {
	viol := func(key, f string, a ...interface{}) {
		fmt.Printf("VIOL\t%s\t%s\n", key, strings.ReplaceAll(fmt.Sprintf(f, a...), "\n", " "))
	}
	b, err := os.ReadFile(dir + "/c06state.json")
	if err != nil {
		fmt.Println("DONE-B")
		return 0 // phase A did not get that far (reported there)
	}
	var st struct {
		Root, Open, Child, Ia, Ic string
		Ids                       map[string]string
	}
	json.Unmarshal(b, &st)
	if err := vsrv.Boot(dir, vsrv.Options{IIDStart: start}); err != nil {
		viol("history:restart:boot", "restart on the stores left by phase A failed: %v", err)
		fmt.Println("DONE-B")
		return 0
	}
	var evals int64
	keys := []string{"a", "b", "c", "zz"}
	if err := vsrv.NewInstance(st.Open, "keyvalue", "fresh", nil); err != nil {
		viol("history:restart:create", "creating an instance after restart: %v", err)
		fmt.Println("DONE-B")
		return 0
	}
	d, _ := datastore.GetDataByUUIDName(dvid.UUID(st.Open), "fresh")
	id := fmt.Sprintf("%#x", uint32(d.InstanceID()))
	for o, oid := range st.Ids {
		// Not asserted when the configured start makes the 32-bit counter wrap within the scenario: past the wrap
		// "never reused" cannot hold by counting, and only emptiness / isolation are checked.
		if oid == id && start == 0 {
			viol("history:restart:id-reused", "after a restart the new instance received instance id %s, previously used by %s", id, o)
		}
	}
	r := vsrv.Get("node/" + st.Open + "/fresh/keys")
	if r.Code != 200 || strings.TrimSpace(string(r.Body)) != "[]" {
		viol("history:restart:not-empty", "instance created after restart (id %s) lists keys: %s", id, r)
	}
	for _, k := range keys {
		if g := vsrv.Get("node/" + st.Open + "/fresh/key/" + k); g.Code != 404 {
			viol("history:restart:not-empty", "instance created after restart (id %s) has key %s: %s", id, k, g)
		}
	}
	if s := c06Snap(st.Root, st.Child, "ia", keys, &evals); s != st.Ia {
		viol("history:restart:changed-other-instance", "instance ia reads differently after restart + new instance: %s vs %s", st.Ia, s)
	}
	if s := c06Snap(st.Root, st.Child, "ic", keys, &evals); s != st.Ic {
		viol("history:restart:changed-other-instance", "instance ic reads differently after restart + new instance: %s vs %s", st.Ic, s)
	}
	fmt.Printf("OUTCOME\trestart-new-id:%s\n", id)
	fmt.Printf("EVAL\t%d\n", evals+6)
	fmt.Println("DONE-B")
	return 0
}
