package checks

// C19 Copying a data instance preserves its versioned content.
// Enumerated: key-value worlds (DAG shape x 3 keys x per-key op vectors, as in C05) x copy variant (full copy issued at
// every version, flattened copy at every version); plus scripted branched histories for roi, annotation and uint8blk.

import (
	"encoding/json"
	"fmt"
	"strings"
	"sync/atomic"

	"github.com/janelia-flyem/dvid/datastore"
	"github.com/janelia-flyem/dvid/dvid"

	"verif/vlib"
	"verif/vsrv"
)

func init() { vlib.Register("C19", "exploration", runC19) }

func c19Config(flatten bool) dvid.Config {
	c := dvid.NewConfig()
	if flatten {
		c.Set("transmit", "flatten")
	}
	return c
}

// c19KVSnap reads everything the key-value API shows of an instance at a version. Failed reads are recorded by status only
// (their messages quote storage keys, which contain the instance id).
func c19KVSnap(uuid, inst string, keys []string) string {
	var sb strings.Builder
	rec := func(x vsrv.Resp) {
		if x.Code == 200 {
			fmt.Fprintf(&sb, "200:%s;", x.Body)
		} else {
			fmt.Fprintf(&sb, "%d;", x.Code)
		}
	}
	rec(vsrv.Get("node/" + uuid + "/" + inst + "/keys"))
	for _, k := range keys {
		rec(vsrv.Get("node/" + uuid + "/" + inst + "/key/" + kvURLKey(k)))
	}
	// the JSON range stream has already sent its 200 when a scan fails mid-way; an unparsable body is a failed response
	x := vsrv.Get("node/" + uuid + "/" + inst + "/keyrangevalues/" + kvURLKey("!") + "/" + kvURLKey("~~") + "?json=true")
	if ks, vs, err := c05ParseJSONObj(x.Body); x.Code == 200 && err == nil {
		fmt.Fprintf(&sb, "range:%q=%q;", ks, vs)
	} else {
		sb.WriteString("range:failed;")
	}
	return sb.String()
}

func runC19(c *vlib.Ctx) {
	cleanup, ok := bootTemp(c, vsrv.Options{})
	if !ok {
		return
	}
	defer cleanup()

	shapes := c05Shapes(true)
	triples := c05Triples[:2]
	if c.Thorough() {
		triples = c05Triples[:4]
	}
	type job struct {
		sh c05Shape
		t  [3]string
		p1 int
	}
	var jobs []job
	for _, sh := range shapes {
		for _, t := range triples {
			for p1 := range sh.patterns {
				jobs = append(jobs, job{sh, t, p1})
			}
		}
	}
	var copies int64
	vlib.Par(len(jobs), 16, func(ji int) {
		j := jobs[ji]
		np := len(j.sh.patterns)
		var insts []*kvInst
		for p2 := 0; p2 < np; p2++ {
			for p3 := 0; p3 < np; p3++ {
				insts = append(insts, &kvInst{name: fmt.Sprintf("w%d_%d", p2, p3), keys: j.t[:],
					patterns: []kvPattern{j.sh.patterns[j.p1], j.sh.patterns[p2], j.sh.patterns[p3]}})
			}
		}
		r, err := buildKVRepo(j.sh.spec, insts)
		if err != nil {
			c.Violate("harness:build", fmt.Sprintf("%s %v: %v", j.sh.name, j.t, err), nil)
			return
		}
		nv := len(r.uuids)
		for _, in := range insts {
			entries := 0
			for _, p := range in.patterns {
				for _, o := range p {
					if o != 0 {
						entries++
					}
				}
			}
			if entries >= 2 {
				c.Nontrivial(fmt.Sprintf("%s|%v|%v", j.sh.name, in.keys, in.patterns))
			}
			srcSnap := make([]string, nv)
			for v := 0; v < nv; v++ {
				srcSnap[v] = c19KVSnap(r.uuids[v], in.name, in.keys)
			}
			rep := map[string]interface{}{"shape": j.sh.name, "dag": j.sh.spec, "keys": in.keys, "per_key_ops_per_node": in.patterns}
			for at := 0; at < nv; at++ {
				for _, flatten := range []bool{false, true} {
					if !flatten && at != 0 && at != nv-1 && !c.Thorough() {
						continue // the full copy ignores the version it is issued at; quick issues it at the root and the last node
					}
					dst := fmt.Sprintf("%s_c%d_%v", in.name, at, flatten)
					c.Eval(1)
					atomic.AddInt64(&copies, 1)
					var err error
					if pn := vlib.Safely(func() {
						err = datastore.CopyInstance(dvid.UUID(r.uuids[at]), dvid.InstanceName(in.name), dvid.InstanceName(dst), c19Config(flatten))
					}); pn != nil {
						c.Violate("kv:copy-panic", fmt.Sprintf("CopyInstance panicked: %v", pn), nil)
						continue
					}
					kind := "full"
					if flatten {
						kind = "flatten"
					}
					rep2 := map[string]interface{}{"world": rep, "copy": kind, "issued_at_node": at}
					if err != nil {
						// a flattened copy reads the source at that version: it may fail when a key is in merge conflict there
						if flatten && strings.Contains(srcSnap[at], "400;") {
							c.Outcome("flatten-conflict-error")
							continue
						}
						c.Violate("kv:copy-error:"+kind, fmt.Sprintf("CopyInstance(%s at node %d) of %s world keys=%v ops=%v failed: %v", kind, at, j.sh.name, in.keys, in.patterns, err), rep2)
						continue
					}
					for v := 0; v < nv; v++ {
						if flatten && v != at {
							continue
						}
						c.Eval(1)
						if got := c19KVSnap(r.uuids[v], dst, in.keys); got != srcSnap[v] {
							c.Violate(fmt.Sprintf("kv:%s:differs", kind), fmt.Sprintf("%s copy issued at node %d of %s world keys=%v ops=%v: at node %d the copy reads %s, the source reads %s", kind, at, j.sh.name, in.keys, in.patterns, v, got, srcSnap[v]), rep2)
							break
						}
					}
					c.Outcome(kind + "-ok")
				}
			}
			for v := 0; v < nv; v++ {
				if got := c19KVSnap(r.uuids[v], in.name, in.keys); got != srcSnap[v] {
					c.Violate("kv:source-changed", fmt.Sprintf("source instance reads differently at node %d after the copies: %s -> %s", v, srcSnap[v], got), rep)
				}
			}
		}
	})
	c.Set("kv_copies", copies)
	c19Large(c)
	c19Other(c)
	c19LateInstance(c)
	c.Sample(map[string]interface{}{"shape": "diamond", "keys": []string{"a", "a0", "aa"}, "per_key_ops_per_node": [][]int{{1, 2, 0, 0}, {0, 1, 1, 0}, {1, 0, 0, 0}}, "copies": "full at node 0 and 3, flatten at every node", "compared": "keys, key/<k>, keyrangevalues at every version"})
	c.Set("rule", "key-value world = (DAG shape, 3 keys, per-key op vector); every world is copied in full (issued at the root and the last node; thorough: every node) and flattened at every node; all read endpoints of the copy are compared with the source at every version (flatten: at its version). Other types: scripted branched histories. Non-trivial = world with >= 2 stored entries")
	c.Assume("copy onto a second store is not exercised (store assignment is fixed by the server TOML before instance names exist); same-store copies only")
	c.Assume("a flattened copy at a version where some key is in merge conflict may fail")
}

// c19Large: instances whose number of key-value pairs crosses the copy pipeline's internal sizes (its channels hold 1000
// pairs): K keys written at the root of a diamond, child A overwrites every 3rd and deletes every 5th key, sibling B
// overwrites every 7th (disjoint from A's), merge. Full copy and a flattened copy at every node, compared through the key
// listing and the full range read at every version.
func c19Large(c *vlib.Ctx) {
	sizes := []int{1000, 1001, 2600}
	if c.Thorough() {
		sizes = []int{999, 1000, 1001, 1999, 2000, 2001, 2600, 5003}
	}
	snap := func(uuid, inst string) string {
		var sb strings.Builder
		x := vsrv.Get("node/" + uuid + "/" + inst + "/keys")
		fmt.Fprintf(&sb, "keys:%d:%x;", x.Code, fnvSum(x.Body))
		var ks []string
		json.Unmarshal(x.Body, &ks)
		fmt.Fprintf(&sb, "n=%d;", len(ks))
		y := vsrv.Get("node/" + uuid + "/" + inst + "/keyrangevalues/" + kvURLKey("!") + "/" + kvURLKey("~~") + "?json=true")
		if rk, rv, err := c05ParseJSONObj(y.Body); y.Code == 200 && err == nil {
			h := fnv64()
			for i := range rk {
				fmt.Fprintf(h, "%q=%q;", rk[i], rv[i])
			}
			fmt.Fprintf(&sb, "range:%d pairs:%x;", len(rk), h.Sum64())
		} else {
			sb.WriteString("range:failed;")
		}
		return sb.String()
	}
	vlib.Par(len(sizes), 8, func(si int) {
		K := sizes[si]
		root, err := vsrv.NewRepo()
		if err != nil {
			c.Violate("harness:large:repo", err.Error(), nil)
			return
		}
		defer datastore.DeleteRepo(dvid.UUID(root), "")
		vsrv.NewInstance(root, "keyvalue", "big", nil)
		key := func(i int) string { return fmt.Sprintf("k%05d", i) }
		for i := 0; i < K; i++ {
			vsrv.PostS("node/"+root+"/big/key/"+key(i), fmt.Sprintf("\"r%d\"", i))
		}
		vsrv.Commit(root)
		a, _ := vsrv.Branch(root, "a")
		b, _ := vsrv.Branch(root, "b")
		for i := 0; i < K; i++ {
			switch {
			case i%7 == 0 && i%3 != 0 && i%5 != 0:
				vsrv.PostS("node/"+b+"/big/key/"+key(i), fmt.Sprintf("\"b%d\"", i))
			case i%5 == 0:
				vsrv.Delete("node/" + a + "/big/key/" + key(i))
			case i%3 == 0:
				vsrv.PostS("node/"+a+"/big/key/"+key(i), fmt.Sprintf("\"a%d\"", i))
			}
		}
		vsrv.Commit(a)
		vsrv.Commit(b)
		m, err := vsrv.Merge(a, b)
		if err != nil {
			c.Violate("harness:large:merge", err.Error(), nil)
			return
		}
		uuids := []string{root, a, b, m}
		src := make([]string, len(uuids))
		for v, u := range uuids {
			src[v] = snap(u, "big")
		}
		c.Nontrivial(fmt.Sprintf("large|%d", K))
		for at := range uuids {
			for _, flatten := range []bool{false, true} {
				if !flatten && at != 0 {
					continue
				}
				kind := "full"
				if flatten {
					kind = "flatten"
				}
				dst := fmt.Sprintf("big_c%d_%v", at, flatten)
				rep := map[string]interface{}{"keys": K, "copy": kind, "issued_at_node": at, "history": "root writes all; A overwrites i%3==0, deletes i%5==0; B overwrites i%7==0 (others); merge(A,B)"}
				c.Eval(1)
				var err error
				if pn := vlib.Safely(func() {
					err = datastore.CopyInstance(dvid.UUID(uuids[at]), "big", dvid.InstanceName(dst), c19Config(flatten))
				}); pn != nil || err != nil {
					c.Violate("kv-large:copy-error:"+kind, fmt.Sprintf("CopyInstance(%s at node %d) of a %d-key instance failed: %v %v", kind, at, K, pn, err), rep)
					continue
				}
				for v, u := range uuids {
					if flatten && v != at {
						continue
					}
					c.Eval(1)
					if got := snap(u, dst); got != src[v] {
						c.Violate("kv-large:"+kind+":differs", fmt.Sprintf("%s copy issued at node %d of a %d-key instance: at node %d the copy reads %s, the source reads %s", kind, at, K, v, got, src[v]), rep)
						break
					}
				}
				c.Outcome("large-" + kind + "-ok")
			}
		}
		for v, u := range uuids {
			if got := snap(u, "big"); got != src[v] {
				c.Violate("kv-large:source-changed", fmt.Sprintf("%d-key source reads differently at node %d after the copies", K, v), nil)
			}
		}
	})
}

func fnvSum(b []byte) uint64 {
	h := fnv64()
	h.Write(b)
	return h.Sum64()
}

// c19Other: roi, annotation and uint8blk instances with one scripted branched history each (write at root; overwrite /
// delete in child A; other edit in sibling B; merge), then full and flattened copies compared through their read endpoints.
func c19Other(c *vlib.Ctx) {
	type world struct {
		typ    string
		config map[string]string
		write  func(uuid, name string, node int) // node: 0 root, 1 child A, 2 sibling B
		reads  []string
	}
	worlds := []world{
		{typ: "roi", config: map[string]string{"BlockSize": "4,4,4"},
			write: func(u, n string, node int) {
				switch node {
				case 0:
					vsrv.PostS("node/"+u+"/"+n+"/roi", "[[0,0,0,3],[0,1,2,2],[1,0,0,0]]")
				case 1:
					vsrv.PostS("node/"+u+"/"+n+"/roi", "[[0,0,1,1],[5,5,5,6]]")
				case 2:
					vsrv.Delete("node/" + u + "/" + n + "/roi")
				}
			}, reads: []string{"roi", "mask/0_1_2/16_16_16/0_0_0", "partition?batchsize=2"}},
		{typ: "annotation", config: nil,
			write: func(u, n string, node int) {
				switch node {
				case 0:
					vsrv.PostS("node/"+u+"/"+n+"/elements", `[{"Pos":[10,10,10],"Kind":"PreSyn","Tags":["t1"],"Prop":{},"Rels":[{"Rel":"PreSynTo","To":[20,20,20]}]},{"Pos":[20,20,20],"Kind":"PostSyn","Tags":["t1","t2"],"Prop":{},"Rels":[{"Rel":"PostSynTo","To":[10,10,10]}]},{"Pos":[70,10,10],"Kind":"Note","Tags":[],"Prop":{"a":"b"},"Rels":[]}]`)
				case 1:
					vsrv.Delete("node/" + u + "/" + n + "/element/70_10_10")
					vsrv.PostS("node/"+u+"/"+n+"/move/10_10_10/11_70_10", "")
				case 2:
					vsrv.PostS("node/"+u+"/"+n+"/elements", `[{"Pos":[70,10,10],"Kind":"Note","Tags":["t2"],"Prop":{"a":"c"},"Rels":[]}]`)
				}
			}, reads: []string{"elements/200_200_200/0_0_0", "tag/t1", "tag/t2", "all-elements", "blocks/200_200_200/0_0_0"}},
		{typ: "uint8blk", config: map[string]string{"BlockSize": "4,4,4"},
			write: func(u, n string, node int) {
				buf := make([]byte, 8*8*4)
				for i := range buf {
					buf[i] = byte(i*7 + node*50 + 1)
				}
				switch node {
				case 0:
					vsrv.Post("node/"+u+"/"+n+"/raw/0_1_2/8_8_4/0_0_0", buf)
				case 1:
					vsrv.Post("node/"+u+"/"+n+"/raw/0_1_2/8_8_4/4_0_0?mutate=true", buf)
				case 2:
					vsrv.Post("node/"+u+"/"+n+"/raw/0_1_2/8_8_4/0_0_4", buf)
				}
			}, reads: []string{"raw/0_1_2/16_16_8/-4_-4_0", "raw/0_1/16_16/0_0_1", "metadata"}},
	}
	for _, w := range worlds {
		root, err := vsrv.NewRepo()
		if err != nil {
			c.Violate("harness:repo", err.Error(), nil)
			return
		}
		if err := vsrv.NewInstance(root, w.typ, "src", w.config); err != nil {
			c.Violate("harness:instance:"+w.typ, err.Error(), nil)
			continue
		}
		w.write(root, "src", 0)
		vsrv.Settle(root, "src")
		vsrv.Commit(root)
		a, _ := vsrv.Branch(root, "a")
		b, _ := vsrv.Branch(root, "b")
		w.write(a, "src", 1)
		w.write(b, "src", 2)
		vsrv.Settle(a, "src")
		vsrv.Settle(b, "src")
		vsrv.Commit(a)
		vsrv.Commit(b)
		gc, _ := vsrv.NewVersion(a)
		uuids := []string{root, a, b, gc}
		snap := func(u, inst string) string {
			var sb strings.Builder
			for _, rd := range w.reads {
				x := vsrv.Get("node/" + u + "/" + inst + "/" + rd)
				body := string(x.Body)
				if rd == "metadata" {
					body = "" // names the instance
				}
				fmt.Fprintf(&sb, "%s=%d:%x;", rd, x.Code, body)
			}
			return sb.String()
		}
		src := make([]string, len(uuids))
		nonEmpty := 0
		for i, u := range uuids {
			src[i] = snap(u, "src")
			if i > 0 && src[i] != src[0] {
				nonEmpty++
			}
		}
		if nonEmpty > 0 {
			c.Nontrivial("other:" + w.typ)
		}
		for at, u := range uuids {
			for _, flatten := range []bool{false, true} {
				kind := "full"
				if flatten {
					kind = "flatten"
				}
				dst := fmt.Sprintf("dst%d%s", at, kind)
				c.Eval(1)
				var err error
				if pn := vlib.Safely(func() {
					err = datastore.CopyInstance(dvid.UUID(u), "src", dvid.InstanceName(dst), c19Config(flatten))
				}); pn != nil {
					c.Violate(w.typ+":copy-panic", fmt.Sprintf("CopyInstance(%s) of a %s instance at node %d panicked: %v", kind, w.typ, at, pn), nil)
					continue
				}
				if err != nil {
					c.Violate(w.typ+":copy-error:"+kind, fmt.Sprintf("CopyInstance(%s) of a %s instance at node %d failed: %v", kind, w.typ, at, err), nil)
					continue
				}
				// the copy must also be what a restarted server loads: the stored metadata is loaded by the start-up path
				// into a second, read-only manager and the copy's settings compared with the live instance's
				c.Eval(1)
				if what := c19ReloadedConfigDiff(root, dst); what != "" {
					c.Violate(w.typ+":"+kind+":settings-lost-on-restart", fmt.Sprintf("%s copy of a %s instance issued at node %d: %s", kind, w.typ, at, what), map[string]interface{}{"type": w.typ, "copy": kind, "issued_at": at})
				}
				for v, vu := range uuids {
					if flatten && v != at {
						continue
					}
					c.Eval(1)
					if got := snap(vu, dst); got != src[v] {
						c.Violate(w.typ+":"+kind+":differs", fmt.Sprintf("%s copy of a %s instance issued at node %d: reads at node %d differ from the source: copy %s source %s", kind, w.typ, at, v, trunc(got, 400), trunc(src[v], 400)), map[string]interface{}{"type": w.typ, "copy": kind, "issued_at": at, "read_at": v})
						break
					}
				}
				c.Outcome(w.typ + ":" + kind)
			}
		}
		for i, u := range uuids {
			if got := snap(u, "src"); got != src[i] {
				c.Violate(w.typ+":source-changed", fmt.Sprintf("%s source reads differently at node %d after copies", w.typ, i), nil)
			}
		}
	}
}

func trunc(s string, n int) string {
	if len(s) > n {
		return s[:n] + "..."
	}
	return s
}

// c19ReloadedConfigDiff compares the live settings of one instance with the settings a restarted server would load.
func c19ReloadedConfigDiff(root, name string) string {
	re, err := datastore.VerifReloadDump(root)
	if err != nil {
		return "the stored metadata cannot be loaded after the copy: " + err.Error()
	}
	find := func(d datastore.VerifState) (string, bool) {
		for _, r := range d.Repos {
			if r.Root == root {
				cfg, ok := r.InstanceConfig[name]
				return cfg, ok
			}
		}
		return "", false
	}
	lc, lok := find(datastore.VerifDump(root))
	rc, rok := find(re)
	if !lok {
		return ""
	}
	if !rok {
		return "the copy " + name + " is not part of the stored metadata"
	}
	if a, b := c07CanonConfig(lc), c07CanonConfig(rc); a != b {
		return "a restart would change the copy's settings: live " + trunc(a, 600) + " stored " + trunc(b, 600)
	}
	return ""
}

// c19LateInstance: instances created at a version that is NOT the repo root (data instances are visible in the whole repo
// whichever version they were created at). DAG: root -> {A -> A2, B -> B2}; the instance is created at the root, at A, or
// at B2 (after the other nodes exist); every node writes: puts, an overwrite, a delete, keys only one branch has. Full and
// flattened copies issued at every version; every key and the key list compared at every version.
func c19LateInstance(c *vlib.Ctx) {
	keys := []string{"k1", "k2", "k3", "k4"}
	snap := func(u, inst string) string {
		var sb strings.Builder
		x := vsrv.Get("node/" + u + "/" + inst + "/keys")
		fmt.Fprintf(&sb, "keys=%d:%s;", x.Code, x.Body)
		for _, k := range keys {
			y := vsrv.Get("node/" + u + "/" + inst + "/key/" + k)
			fmt.Fprintf(&sb, "%s=%d:%s;", k, y.Code, y.Body)
		}
		return sb.String()
	}
	for _, createdAt := range []string{"root", "A", "B2"} {
		root, err := vsrv.NewRepo()
		if err != nil {
			c.Violate("harness:repo", err.Error(), nil)
			return
		}
		nodes := map[string]string{"root": root}
		mk := func(at string) bool {
			if createdAt != at {
				return true
			}
			if err := vsrv.NewInstance(nodes[at], "keyvalue", "late", nil); err != nil {
				c.Violate("harness:late-instance", fmt.Sprintf("creating the instance at node %s: %v", at, err), nil)
				return false
			}
			return true
		}
		put := func(at, k, v string) { vsrv.PostS("node/"+nodes[at]+"/late/key/"+k, v) }
		if !mk("root") {
			continue
		}
		if createdAt == "root" {
			put("root", "k1", "root1")
		}
		vsrv.Commit(root)
		nodes["A"], _ = vsrv.Branch(root, "a")
		nodes["B"], _ = vsrv.Branch(root, "b")
		if !mk("A") {
			continue
		}
		if createdAt != "B2" {
			put("A", "k1", "a1")
			put("A", "k2", "a2")
			put("B", "k1", "b1") // the sibling branch: not a descendant of A
			put("B", "k3", "b3")
		}
		vsrv.Commit(nodes["A"])
		vsrv.Commit(nodes["B"])
		nodes["A2"], _ = vsrv.NewVersion(nodes["A"])
		nodes["B2"], _ = vsrv.NewVersion(nodes["B"])
		if !mk("B2") {
			continue
		}
		put("A2", "k2", "a2-again")
		vsrv.Delete("node/" + nodes["A2"] + "/late/key/k1")
		put("A2", "k4", "a4")
		put("B2", "k3", "b3-again")
		vsrv.Delete("node/" + nodes["B2"] + "/late/key/k3")
		put("B2", "k4", "b4")
		order := []string{"root", "A", "B", "A2", "B2"}
		src := map[string]string{}
		distinct := map[string]bool{}
		for _, n := range order {
			src[n] = snap(nodes[n], "late")
			distinct[src[n]] = true
		}
		if len(distinct) >= 3 {
			c.Nontrivial("late-instance:" + createdAt)
		}
		for _, at := range order {
			for _, flatten := range []bool{false, true} {
				kind := "full"
				if flatten {
					kind = "flatten"
				}
				dst := fmt.Sprintf("late_%s_%s", at, kind)
				c.Eval(1)
				var err error
				if pn := vlib.Safely(func() {
					err = datastore.CopyInstance(dvid.UUID(nodes[at]), "late", dvid.InstanceName(dst), c19Config(flatten))
				}); pn != nil || err != nil {
					c.Violate("kv-late:copy-error:"+kind, fmt.Sprintf("CopyInstance(%s at node %s) of an instance created at %s failed: %v %v", kind, at, createdAt, pn, err), nil)
					continue
				}
				for _, n := range order {
					if flatten && n != at {
						continue
					}
					c.Eval(1)
					if got := snap(nodes[n], dst); got != src[n] {
						c.Violate("kv-late:"+kind+":differs:created-at-"+createdAt, fmt.Sprintf("%s copy (issued at node %s) of a keyvalue instance that was created at node %s: reads at node %s differ: copy %s source %s", kind, at, createdAt, n, got, src[n]),
							map[string]interface{}{"created_at": createdAt, "copy": kind, "issued_at": at, "read_at": n})
						break
					}
				}
				c.Outcome("late:" + kind)
			}
		}
		for _, n := range order {
			if got := snap(nodes[n], "late"); got != src[n] {
				c.Violate("kv-late:source-changed", fmt.Sprintf("source reads differently at node %s after copies", n), nil)
			}
		}
	}
}
