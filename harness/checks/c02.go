package checks

// C02 Committed versions are immutable.
// Part 1 (this file): route x method x data type matrix with a differential twin (same request sent to an open twin O and
// to the committed node C) in default, read-only, "read-only switched off again" and full-write modes.
// Part 2 (c02stab.go): read stability of a committed version under later histories (including a read-late twin).

import (
	"bytes"
	"compress/gzip"
	"encoding/binary"
	"encoding/json"
	"fmt"
	"os"
	"path/filepath"
	"regexp"
	"sort"
	"strings"
	"time"

	pb "google.golang.org/protobuf/proto"

	"github.com/janelia-flyem/dvid/datastore"
	"github.com/janelia-flyem/dvid/datatype/common/labels"
	"github.com/janelia-flyem/dvid/datatype/common/proto"
	"github.com/janelia-flyem/dvid/dvid"
	"github.com/janelia-flyem/dvid/server"

	"verif/vlib"
	"verif/vsrv"
)

func init() {
	vlib.Register("C02", "model_checking", runC02)
	vlib.Workers["c02matrix"] = c02MatrixWorker
}

// c02Req is one request template; %U is replaced by the uuid, %N by the instance name.
type c02Req struct {
	Method string
	Path   string // after node/<uuid>/<name>/
	Body   []byte
	Valid  bool // hand-written payload expected to be accepted on an open node
}

type c02Type struct {
	typ    string
	config map[string]string
	base   func(uuid, name string)          // written at the root before it is committed
	extra  func(uuid, name string)          // written identically at C and O before C is committed
	reads  func(uuid, name string) []string // GET paths (after node/<uuid>/<name>/) making up the snapshot
	valid  func(name string) []c02Req       // valid mutating requests
}

// lmBlockStream encodes blocks for POST blocks / ingest-supervoxels.
func lmBlockStream(blocks map[[3]int32][]uint64, bs int) []byte {
	var out bytes.Buffer
	var keys [][3]int32
	for k := range blocks {
		keys = append(keys, k)
	}
	sort.Slice(keys, func(i, j int) bool {
		a, b := keys[i], keys[j]
		if a[2] != b[2] {
			return a[2] < b[2]
		}
		if a[1] != b[1] {
			return a[1] < b[1]
		}
		return a[0] < b[0]
	})
	for _, k := range keys {
		raw := make([]byte, 8*len(blocks[k]))
		for i, v := range blocks[k] {
			binary.LittleEndian.PutUint64(raw[8*i:], v)
		}
		blk, err := labels.MakeBlock(raw, dvid.Point3d{int32(bs), int32(bs), int32(bs)})
		if err != nil {
			panic(err)
		}
		ser, _ := blk.MarshalBinary()
		var gz bytes.Buffer
		zw := gzip.NewWriter(&gz)
		zw.Write(ser)
		zw.Close()
		binary.Write(&out, binary.LittleEndian, k[0])
		binary.Write(&out, binary.LittleEndian, k[1])
		binary.Write(&out, binary.LittleEndian, k[2])
		binary.Write(&out, binary.LittleEndian, int32(gz.Len()))
		out.Write(gz.Bytes())
	}
	return out.Bytes()
}

func c02Types() []c02Type {
	lmBase := func() *lmVol {
		v := newLMVol([3]int{0, 0, 0}, [3]int{32, 32, 16})
		v.fill([3]int{0, 0, 0}, [3]int{16, 32, 16}, 1)
		v.fill([3]int{16, 0, 0}, [3]int{32, 16, 16}, 2)
		v.fill([3]int{16, 16, 0}, [3]int{32, 32, 16}, 3)
		v.fill([3]int{4, 4, 4}, [3]int{8, 8, 8}, 4)
		return v
	}
	solid := func(l uint64) []uint64 {
		b := make([]uint64, 16*16*16)
		for i := range b {
			b[i] = l
		}
		return b
	}
	pbKV, _ := pb.Marshal(&proto.KeyValues{Kvs: []*proto.KeyValue{{Key: "k1", Value: []byte("pbval")}, {Key: "k9", Value: []byte("v9")}}})
	mapOps, _ := pb.Marshal(&proto.MappingOps{Mappings: []*proto.MappingOp{{Mutid: 7, Mapped: 1, Original: []uint64{3}}}})
	u8 := make([]byte, 8*8*4)
	for i := range u8 {
		u8[i] = byte(i + 1)
	}
	return []c02Type{
		{typ: "keyvalue",
			base:  func(u, n string) { vsrv.PostS("node/"+u+"/"+n+"/key/k1", "root1"); vsrv.PostS("node/"+u+"/"+n+"/key/k2", "root2") },
			extra: func(u, n string) { vsrv.PostS("node/"+u+"/"+n+"/key/k2", "child2"); vsrv.PostS("node/"+u+"/"+n+"/key/k3", "child3") },
			reads: func(u, n string) []string { return []string{"keys", "key/k1", "key/k2", "key/k3", "key/k9", "key/new"} },
			valid: func(n string) []c02Req {
				return []c02Req{{"POST", "key/k1", []byte("changed"), true}, {"POST", "key/new", []byte("n"), true}, {"DELETE", "key/k2", nil, true},
					{"PUT", "key/k1", []byte("put"), true}, {"POST", "keyvalues", pbKV, true}, {"POST", "tags", []byte(`{"a":"b"}`), true}}
			}},
		{typ: "labelmap", config: map[string]string{"BlockSize": "16,16,16"},
			base: func(u, n string) { lmPostRaw(u, n, lmBase(), false); vsrv.Settle(u, n) },
			extra: func(u, n string) {
				lmMerge(u, n, 1, 4)
				vsrv.Settle(u, n)
			},
			reads: func(u, n string) []string {
				return []string{"raw/0_1_2/32_32_16/0_0_0", "raw/0_1_2/32_32_16/0_0_0?supervoxels=true", "size/1", "size/2", "size/3", "size/4", "supervoxels/1", "sparsevol/1", "sparsevol/2", "sparsevol-coarse/3",
					"label/20_4_4", "label/5_5_5", "maxlabel", "index/1", "index/2", "listlabels", "supervoxel-splits", "size/100", "size/500"}
			},
			valid: func(n string) []c02Req {
				v := lmBase()
				v.fill([3]int{0, 0, 0}, [3]int{16, 16, 16}, 9)
				return []c02Req{
					{"POST", "raw/0_1_2/32_32_16/0_0_0?mutate=true", v.bytes(), true},
					{"POST", "blocks", lmBlockStream(map[[3]int32][]uint64{{1, 1, 0}: solid(8)}, 16), true},
					{"POST", "ingest-supervoxels", lmBlockStream(map[[3]int32][]uint64{{1, 0, 0}: solid(7)}, 16), true},
					{"POST", "merge", []byte("[2,3]"), true},
					{"POST", "cleave/1", []byte("[4]"), true},
					{"POST", "split-supervoxel/2", lmSparse([]lmRun{{16, 0, 0, 8}, {16, 1, 0, 8}}), true},
					{"POST", "renumber", []byte("[100,3]"), true},
					{"POST", "mappings", mapOps, true},
					{"POST", "nextlabel/2", nil, true},
					{"POST", "set-nextlabel/500", nil, true},
					{"POST", "maxlabel/900", nil, true},
					{"POST", "tags", []byte(`{"a":"b"}`), true},
					{"POST", "extents", []byte(`{"MinPoint":[0,0,0],"MaxPoint":[63,63,63]}`), true},
					{"POST", "resolution", []byte(`[4.0,4.0,8.0]`), true},
				}
			}},
		{typ: "annotation",
			base: func(u, n string) {
				vsrv.PostS("node/"+u+"/"+n+"/elements", `[{"Pos":[10,10,10],"Kind":"PreSyn","Tags":["t1"],"Prop":{},"Rels":[{"Rel":"PreSynTo","To":[20,20,20]}]},{"Pos":[20,20,20],"Kind":"PostSyn","Tags":["t1","t2"],"Prop":{},"Rels":[{"Rel":"PostSynTo","To":[10,10,10]}]}]`)
			},
			extra: func(u, n string) {
				vsrv.PostS("node/"+u+"/"+n+"/elements", `[{"Pos":[70,10,10],"Kind":"Note","Tags":["t2"],"Prop":{"a":"b"},"Rels":[]}]`)
			},
			reads: func(u, n string) []string {
				return []string{"all-elements", "tag/t1", "tag/t2", "tag/t3", "elements/200_200_200/0_0_0", "blocks/200_200_200/0_0_0"}
			},
			valid: func(n string) []c02Req {
				return []c02Req{
					{"POST", "elements", []byte(`[{"Pos":[30,30,30],"Kind":"Note","Tags":["t3"],"Prop":{},"Rels":[]}]`), true},
					{"DELETE", "element/70_10_10", nil, true},
					{"POST", "move/10_10_10/12_12_12", nil, true},
					{"POST", "blocks", []byte(`{"0,0,0":[{"Pos":[1,2,3],"Kind":"Note","Tags":["t3"],"Prop":{},"Rels":[]}]}`), true},
					{"POST", "reload", nil, true},
					{"POST", "tags", []byte(`{"a":"b"}`), true},
				}
			}},
		{typ: "neuronjson",
			base: func(u, n string) {
				vsrv.PostS("node/"+u+"/"+n+"/key/1?u=t", `{"bodyid":1,"a":"x"}`)
				vsrv.PostS("node/"+u+"/"+n+"/key/2?u=t", `{"bodyid":2,"a":"y","b":3}`)
			},
			extra: func(u, n string) { vsrv.PostS("node/"+u+"/"+n+"/key/2?u=t", `{"bodyid":2,"b":4}`) },
			reads: func(u, n string) []string {
				return []string{"all", "keys", "key/1", "key/2", "key/3", "fields", "json_schema", "schema", "schema_batch"}
			},
			valid: func(n string) []c02Req {
				return []c02Req{
					{"POST", "key/1?u=t", []byte(`{"bodyid":1,"a":"changed"}`), true},
					{"POST", "key/3?u=t", []byte(`{"bodyid":3,"c":true}`), true},
					{"DELETE", "key/2?u=t", nil, true},
					{"POST", "keyvalues?u=t", []byte(`{"1":{"bodyid":1,"z":9}}`), true},
					{"POST", "schema?u=t", []byte(`{"x":1}`), true},
					{"POST", "json_schema?u=t", []byte(`{"type":"object"}`), true},
					{"POST", "query", []byte(`{"a":"x"}`), false},
				}
			}},
		{typ: "roi", config: map[string]string{"BlockSize": "4,4,4"},
			base:  func(u, n string) { vsrv.PostS("node/"+u+"/"+n+"/roi", "[[0,0,0,3],[1,0,0,0]]") },
			extra: func(u, n string) { vsrv.PostS("node/"+u+"/"+n+"/roi", "[[2,2,2,4]]") },
			reads: func(u, n string) []string { return []string{"roi", "mask/0_1_2/16_16_16/0_0_0"} },
			valid: func(n string) []c02Req {
				return []c02Req{{"POST", "roi", []byte("[[5,5,5,6]]"), true}, {"DELETE", "roi", nil, true}, {"POST", "ptquery", []byte("[[1,1,1],[50,50,50]]"), false}}
			}},
		{typ: "uint8blk", config: map[string]string{"BlockSize": "4,4,4"},
			base:  func(u, n string) { vsrv.Post("node/"+u+"/"+n+"/raw/0_1_2/8_8_4/0_0_0", u8) },
			extra: func(u, n string) { vsrv.Post("node/"+u+"/"+n+"/raw/0_1_2/8_8_4/0_0_4", u8) },
			reads: func(u, n string) []string { return []string{"raw/0_1_2/16_16_12/-4_-4_0", "raw/0_1/8_8/0_0_1"} },
			valid: func(n string) []c02Req {
				return []c02Req{{"POST", "raw/0_1_2/8_8_4/0_0_0?mutate=true", bytes.Repeat([]byte{0x77}, 256), true}, {"POST", "raw/0_1_2/8_8_4/8_0_0", u8, true},
					{"POST", "extents", []byte(`{"MinPoint":[0,0,0],"MaxPoint":[63,63,63]}`), true}, {"POST", "resolution", []byte(`[4.0,4.0,8.0]`), true}}
			}},
	}
}

var c02CaseRE = regexp.MustCompile(`case\s+((?:"[a-z0-9_\-]+"\s*,\s*)*"[a-z0-9_\-]+")\s*:`)

// c02Keywords extracts endpoint keywords from the type's source: every lower-case string literal of a case clause.
func c02Keywords(pkgdir string) []string {
	set := map[string]bool{"info": true, "sync": true, "tags": true, "help": true}
	files, _ := filepath.Glob(filepath.Join(pkgdir, "*.go"))
	for _, f := range files {
		if strings.HasSuffix(f, "_test.go") {
			continue
		}
		b, err := os.ReadFile(f)
		if err != nil {
			continue
		}
		for _, m := range c02CaseRE.FindAllStringSubmatch(string(b), -1) {
			for _, lit := range strings.Split(m[1], ",") {
				set[strings.Trim(strings.TrimSpace(lit), `"`)] = true
			}
		}
	}
	var out []string
	for k := range set {
		out = append(out, k)
	}
	sort.Strings(out)
	return out
}

func c02PkgDir(typ string) string {
	switch typ {
	case "uint8blk", "uint16blk", "uint32blk", "uint64blk", "float32blk", "rgba8blk":
		return c02Repo() + "/datatype/imageblk"
	}
	return c02Repo() + "/datatype/" + typ
}

type c02Finding struct {
	Key  string `json:"key"`
	What string `json:"what"`
}

type c02Result struct {
	Type       string       `json:"type"`
	Requests   int          `json:"requests"`
	Effective  []string     `json:"effective"` // requests that changed the open twin
	NotReached []string     `json:"not_reached"`
	Findings   []c02Finding `json:"findings"`
	Err        string       `json:"err,omitempty"`
}

func c02Snap(uuid, name string, reads []string) string {
	var sb strings.Builder
	for _, rd := range reads {
		x := vsrv.Get("node/" + uuid + "/" + name + "/" + rd)
		fmt.Fprintf(&sb, "%s=%s|", rd, lmNormalize(rd, x.Code, x.Body))
	}
	for _, rd := range []string{"note", "log", "commit"} {
		x := vsrv.Get("node/" + uuid + "/" + rd)
		fmt.Fprintf(&sb, "node-%s=%d:%s|", rd, x.Code, x.Body)
	}
	return sb.String()
}

func c02MatrixWorker(args []string) int {
	thorough := len(args) > 0 && args[0] == "thorough"
	dir, err := mkTemp("c02")
	if err != nil {
		return 1
	}
	defer rmAll(dir)
	if err := vsrv.Boot(dir, vsrv.Options{}); err != nil {
		fmt.Printf("{\"err\":%q}\n", err.Error())
		return 1
	}
	known := map[string]c02Type{}
	for _, t := range c02Types() {
		known[t.typ] = t
	}
	vsrv.SingleThreaded = true
	return vlib.ServeJobs(func(typ string) string {
		res := c02Result{Type: typ}
		t, ok := known[typ]
		if !ok {
			// no type-specific read list: only node state and the panic monitor apply ("info" holds instance-level,
			// unversioned properties and is deliberately not part of any snapshot)
			t = c02Type{typ: typ, reads: func(u, n string) []string { return nil }}
		}
		add := func(key, f string, a ...interface{}) {
			res.Findings = append(res.Findings, c02Finding{key, fmt.Sprintf(f, a...)})
		}
		c02ForceDefaultMode()
		root, err := vsrv.NewRepo()
		if err != nil {
			res.Err = err.Error()
			return c02JSON(res)
		}
		name := "d"
		if err := vsrv.NewInstance(root, typ, name, t.config); err != nil {
			res.Err = "not instantiable: " + err.Error()
			return c02JSON(res)
		}
		if t.base != nil {
			t.base(root, name)
		}
		vsrv.Settle(root, name)
		vsrv.Commit(root)
		cN, _ := vsrv.Branch(root, "c")
		oN, _ := vsrv.Branch(root, "o")
		if t.extra != nil {
			t.extra(cN, name)
			t.extra(oN, name)
		}
		vsrv.Settle(cN, name)
		vsrv.Settle(oN, name)
		vsrv.PostS("node/"+cN+"/note", `{"note":"n0"}`)
		vsrv.PostS("node/"+cN+"/log", `{"log":["l0"]}`)
		vsrv.Commit(cN)
		reads := t.reads(cN, name)

		// request list: valid payloads first, then keyword x method x generic payload products
		var reqs []c02Req
		if t.valid != nil {
			reqs = append(reqs, t.valid(name)...)
		}
		for _, kw := range c02Keywords(c02PkgDir(typ)) {
			for _, m := range []string{"POST", "PUT", "DELETE", "PATCH"} {
				for si, suf := range []string{"", "/1", "/k1", "/0_1_2/16_16_16/0_0_0", "/1_1_1/2_2_2"} {
					for bi, body := range [][]byte{nil, []byte("[1,2]"), []byte("{}"), []byte("[]")} {
						if !thorough && (si > 1 || bi > 1 || (m == "PUT" || m == "PATCH") && bi > 0) {
							continue
						}
						reqs = append(reqs, c02Req{m, kw + suf, body, false})
					}
				}
			}
		}
		run := func(phase string, expect string, rs []c02Req) {
			sC := c02Snap(cN, name, reads)
			oAfter := c02Snap(oN, name, reads)
			cAfter := sC
			for _, q := range rs {
				res.Requests++
				id := fmt.Sprintf("%s %s", q.Method, q.Path)
				oBefore := oAfter
				rO := vsrv.Do(q.Method, "node/"+oN+"/"+name+"/"+q.Path, q.Body)
				vsrv.Settle(oN, name)
				oAfter = c02Snap(oN, name, reads)
				changedO := oAfter != oBefore
				cBefore := cAfter
				if changedO {
					cBefore = c02Snap(cN, name, reads) // instance-level properties are shared: re-read after the twin changed
				}
				rC := vsrv.Do(q.Method, "node/"+cN+"/"+name+"/"+q.Path, q.Body)
				vsrv.Settle(cN, name)
				cAfter = c02Snap(cN, name, reads)
				if rO.Panicked() || rC.Panicked() {
					add("c20:panic:"+typ+":"+c02KW(q.Path), "%s (%d body bytes) answered with a recovered panic: open %s / committed %s", id, len(q.Body), rO, rC)
				}
				kw := c02KW(q.Path)
				switch expect {
				case "default":
					if changedO && rO.OK() {
						res.Effective = append(res.Effective, phase+":"+id)
					}
					if cAfter != cBefore {
						add(fmt.Sprintf("%s:committed-changed:%s:%s:%s", phase, typ, kw, q.Method), "%s on the committed node changed what it reads: response %s; differing reads: %s", id, rC, c02StabDiff(cBefore, cAfter))
						sC = cAfter
					} else if changedO && rO.OK() && rC.OK() {
						add(fmt.Sprintf("%s:not-refused:%s:%s:%s", phase, typ, kw, q.Method), "%s changes versioned data on an open node (answered %d) but was answered %d on the committed node", id, rO.Code, rC.Code)
					}
				case "readonly":
					if changedO || cAfter != cBefore {
						add(fmt.Sprintf("%s:changed:%s:%s:%s", phase, typ, kw, q.Method), "%s changed data in read-only mode (open twin changed=%v, committed changed=%v): %s / %s", id, changedO, cAfter != cBefore, rO, rC)
					}
					if q.Valid && (rO.OK() || rC.OK()) {
						add(fmt.Sprintf("%s:not-refused:%s:%s:%s", phase, typ, kw, q.Method), "%s was accepted in read-only mode: open %d committed %d", id, rO.Code, rC.Code)
					}
				case "fullwrite":
					// nothing asserted about content; only the panic monitor above
				}
				_ = sC
			}
		}
		run("default", "default", reqs)
		if t.valid != nil {
			for _, q := range t.valid(name) {
				found := false
				for _, e := range res.Effective {
					if e == "default:"+q.Method+" "+q.Path {
						found = true
					}
				}
				if q.Valid && !found {
					res.NotReached = append(res.NotReached, q.Method+" "+q.Path)
				}
			}
		}
		// node-level and repo-level routes on the committed node
		nodeSnap := c02Snap(cN, name, reads)
		for _, nr := range []struct{ path, body string }{{"note", `{"note":"changed"}`}, {"log", `{"log":["more"]}`}, {"commit", `{"note":"again"}`}} {
			res.Requests++
			r := vsrv.PostS("node/"+cN+"/"+nr.path, nr.body)
			if after := c02Snap(cN, name, reads); after != nodeSnap || r.OK() {
				add("default:node-route:"+nr.path, "POST node/<committed>/%s answered %s; node state changed=%v", nr.path, r, after != nodeSnap)
				nodeSnap = after
			}
		}
		res.Requests++
		if r := vsrv.PostS("repo/"+cN+"/instance", `{"typename":"keyvalue","dataname":"sneak"}`); r.OK() {
			add("default:repo-route:instance", "POST repo/<committed>/instance was accepted: %s", r)
		}
		for _, br := range []struct{ path, body string }{{"newversion", `{"note":"v"}`}, {"branch", `{"branch":"later-` + typ + `"}`}} {
			res.Requests++
			if r := vsrv.PostS("node/"+cN+"/"+br.path, br.body); !r.OK() {
				add("default:child-creation-refused:"+br.path, "POST node/<committed>/%s must stay allowed but was answered %s", br.path, r)
			}
		}
		if after := c02Snap(cN, name, reads); after != nodeSnap {
			add("default:child-creation-changed-parent", "creating children changed what the committed node reads")
		}
		// read-only mode, entered the way the transfer-data command does
		valid := reqs[:0:0]
		for _, q := range reqs {
			if q.Valid {
				valid = append(valid, q)
			}
		}
		server.SetReadOnly(true)
		run("readonly", "readonly", valid)
		// ... and left the same way: the server must be back in default mode, not silently full-write
		server.SetReadOnly(false)
		run("after-readonly-off", "default", valid)
		if thorough {
			server.SetFullWrite(true)
			run("fullwrite", "fullwrite", valid)
			server.SetFullWrite(false)
			c02ForceDefaultMode()
		}
		return c02JSON(res)
	})
}

// c02ForceDefaultMode puts the server back into default mode whatever the Set* functions did.
func c02ForceDefaultMode() {
	server.VerifSetModes(false, false)
}

func c02KW(path string) string {
	p := strings.SplitN(path, "/", 2)[0]
	return strings.SplitN(p, "?", 2)[0]
}

func c02JSON(r c02Result) string {
	b, _ := json.Marshal(r)
	return string(b)
}

func runC02(c *vlib.Ctx) {
	var types []string
	for _, t := range datastore.CompiledTypes() {
		types = append(types, string(t.GetTypeName()))
	}
	sort.Strings(types)
	vlib.JobTimeout = 40 * time.Minute
	results := vlib.Pool("c02matrix", []string{c.Tier}, 16, types)
	var states, transitions int64
	instantiated := 0
	var notInst, effective []string
	for i, r := range results {
		if r.Died {
			c.Violate("matrix:worker-death:"+types[i], fmt.Sprintf("worker died on type %s: %s", types[i], tail(r.Stderr, 1500)), nil)
			continue
		}
		var res c02Result
		if err := json.Unmarshal([]byte(r.Out), &res); err != nil {
			c.Violate("harness:result", r.Out, nil)
			continue
		}
		if strings.HasPrefix(res.Err, "not instantiable") {
			notInst = append(notInst, types[i]+": "+res.Err)
			continue
		}
		if res.Err != "" {
			c.Violate("harness:"+types[i], res.Err, nil)
			continue
		}
		instantiated++
		transitions += int64(2 * res.Requests)
		states += int64(res.Requests)
		c.Eval(int64(2 * res.Requests))
		for _, e := range res.Effective {
			effective = append(effective, types[i]+" "+e)
			c.Nontrivial(types[i] + " " + e)
		}
		for _, f := range res.Findings {
			if strings.HasPrefix(f.Key, "c20:") {
				c.Add("recovered_panics_seen(reported_under_C20)", 1)
				continue
			}
			c.Violate("matrix:"+f.Key, f.What, map[string]interface{}{"type": types[i]})
		}
		if len(res.NotReached) > 0 {
			c.Set("valid_payloads_without_effect_"+types[i], res.NotReached)
		}
		c.Outcome(fmt.Sprintf("%s:%d-effective", types[i], len(res.Effective)))
	}
	c.Set("types_instantiated", instantiated)
	c.Set("types_not_instantiable_offline", notInst)
	c.Set("effective_mutations_seen_on_open_twin", len(effective))
	c02Stability(c, &states, &transitions)
	c.Set("states", states)
	c.Set("transitions", transitions)
	c.Set("traces_validated_against_impl", transitions)
	c.Sample(map[string]interface{}{"matrix": "labelmap: POST cleave/1 [4] sent to open twin O (200, snapshot changes) and committed C (400, snapshot identical)", "modes": "default, SetReadOnly(true), SetReadOnly(false) again, (thorough) full-write"})
	c.Set("rule", "matrix: every compiled data type x every endpoint keyword found in its source x {POST,PUT,DELETE,PATCH} x generic payloads, plus hand-written valid payloads; each request goes to an open twin and to the committed node, whose full read snapshot must not change; a request that changes the twin and is accepted there must be refused on the committed node. Stability: see c02stab. Non-trivial = request that really changes the open twin")
	c.Assume("endpoints for which no payload changes the open twin are listed as coverage gaps (gate not exercised), never as alarms")
}

var _ = dvid.UUID("")

// c02Repo is the source tree the harness was built against (VERIF_REPO is only set by bin/try_patch.sh).
func c02Repo() string {
	if r := os.Getenv("VERIF_REPO"); r != "" {
		return r
	}
	return "/repo"
}
