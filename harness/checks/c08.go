package checks

// C08 Label indices, voxels and mappings stay consistent under proofreading.
// Explicit-state BFS over label-operation histories on a 2x2x1-block labelmap volume (16^3 blocks). After every operation,
// at runtime-level quiescence, for every version: (1) scan oracle - every read endpoint equals what scanning the stored
// supervoxels and applying that version's mapping yields; (2) reference model - supervoxel array and mapping per version
// updated by ten-line functions per operation.

import (
	"encoding/json"
	"fmt"
	"sort"
	"strings"
	"time"

	"verif/vlib"
	"verif/vsrv"
)

func init() {
	vlib.Register("C08", "model_checking", runC08)
	vlib.Workers["c08"] = c08Worker
}

const c08NX, c08NY, c08NZ, c08BS = 32, 32, 16, 16

type c08Op struct {
	K     string   `json:"k"`
	A     uint64   `json:"a,omitempty"` // target / body / supervoxel / new label
	B     []uint64 `json:"b,omitempty"` // merged bodies / cleaved supervoxels / old label
	Shape string   `json:"s,omitempty"` // split shape or raw region
	Fill  string   `json:"f,omitempty"` // raw fill kind
}

func (o c08Op) String() string {
	s := o.K + "("
	if o.A != 0 || o.K == "merge" {
		s += fmt.Sprint(o.A)
	}
	if o.B != nil {
		s += fmt.Sprint(o.B)
	}
	if o.Shape != "" {
		s += "," + o.Shape
	}
	if o.Fill != "" {
		s += "," + o.Fill
	}
	return s + ")"
}

// c08Model is the reference: supervoxel volume and supervoxel->body mapping per version.
type c08Version struct {
	sv      []uint64
	mapping map[uint64]uint64 // only non-identity entries
	parent  int
}

type c08Model struct {
	vers  []*c08Version
	leaf  int
	fresh uint64 // counter for harness-chosen fresh labels
}

// open returns the indices of the versions without children (the open leaves), ascending.
func (m *c08Model) open() []int {
	has := map[int]bool{}
	for _, v := range m.vers {
		has[v.parent] = true
	}
	var out []int
	for i := range m.vers {
		if !has[i] {
			out = append(out, i)
		}
	}
	return out
}

func (v *c08Version) body(sv uint64) uint64 {
	if sv == 0 {
		return 0
	}
	if b, ok := v.mapping[sv]; ok {
		return b
	}
	return sv
}

func (v *c08Version) clone(parent int) *c08Version {
	c := &c08Version{sv: append([]uint64{}, v.sv...), mapping: map[uint64]uint64{}, parent: parent}
	for k, b := range v.mapping {
		c.mapping[k] = b
	}
	return c
}

func c08Idx(x, y, z int) int { return (z*c08NY+y)*c08NX + x }

// bodies returns body -> supervoxel -> voxel count for a version.
func (v *c08Version) bodies() map[uint64]map[uint64]int {
	out := map[uint64]map[uint64]int{}
	for _, s := range v.sv {
		if s == 0 {
			continue
		}
		b := v.body(s)
		if out[b] == nil {
			out[b] = map[uint64]int{}
		}
		out[b][s]++
	}
	return out
}

func c08InitialVolume(big bool) []uint64 {
	vol := make([]uint64, c08NX*c08NY*c08NZ)
	id := func(i uint64) uint64 {
		if !big {
			return i
		}
		return []uint64{0, 1, 1 << 32, 1<<63 + 5, 1<<40 + 5, 7}[i] // large values, but with headroom for newly allocated labels (overflow of the label counter is probed under C12)
	}
	for z := 0; z < c08NZ; z++ {
		for y := 0; y < c08NY; y++ {
			for x := 0; x < c08NX; x++ {
				var l uint64
				switch {
				case x < 16:
					l = id(1) // spans blocks (0,0,0) and (0,1,0)
					if x >= 8 && y >= 8 && y < 16 && z >= 8 {
						l = id(4) // exactly one 8^3 sub-block
					}
				case y < 16:
					l = id(2) // block (1,0,0)
					if z < 4 {
						l = 0 // background slab
					}
				default:
					l = id(3) // block (1,1,0)
					if x >= 24 {
						l = id(5)
					}
				}
				vol[c08Idx(x, y, z)] = l
			}
		}
	}
	return vol
}

// c08Shape returns the runs of a named split shape for supervoxel sv in the version (nil if not applicable).
func c08Shape(v *c08Version, sv uint64, shape string) []lmRun {
	var vox [][3]int
	for z := 0; z < c08NZ; z++ {
		for y := 0; y < c08NY; y++ {
			for x := 0; x < c08NX; x++ {
				if v.sv[c08Idx(x, y, z)] == sv {
					vox = append(vox, [3]int{x, y, z})
				}
			}
		}
	}
	if len(vox) == 0 {
		return nil
	}
	first := vox[0]
	blk := func(p [3]int) [3]int { return [3]int{p[0] / c08BS, p[1] / c08BS, p[2] / c08BS} }
	var sel [][3]int
	switch shape {
	case "onevoxel":
		sel = [][3]int{first}
	case "half-in-block":
		for _, p := range vox {
			if blk(p) == blk(first) && p[2]%2 == 0 {
				sel = append(sel, p)
			}
		}
	case "all-in-block":
		for _, p := range vox {
			if blk(p) == blk(first) {
				sel = append(sel, p)
			}
		}
		if len(sel) == len(vox) {
			return nil // same as "whole"
		}
	case "cross-border":
		// the row y=15..16 region crossing the block border in Y, or X border at x=15..16
		for _, p := range vox {
			if p[1] >= 14 && p[1] < 18 && p[2] == 8 {
				sel = append(sel, p)
			}
		}
	case "whole":
		sel = vox
	case "partly-outside":
		sel = append(sel, first)
		// plus voxels that do not belong to sv (must be ignored)
		for z := 0; z < 2; z++ {
			for x := 0; x < c08NX; x += 5 {
				p := [3]int{x, 31, z}
				if v.sv[c08Idx(p[0], p[1], p[2])] != sv {
					sel = append(sel, p)
				}
			}
		}
	}
	if len(sel) == 0 {
		return nil
	}
	sort.Slice(sel, func(i, j int) bool {
		a, b := sel[i], sel[j]
		if a[2] != b[2] {
			return a[2] < b[2]
		}
		if a[1] != b[1] {
			return a[1] < b[1]
		}
		return a[0] < b[0]
	})
	var runs []lmRun
	for _, p := range sel {
		if n := len(runs); n > 0 && runs[n-1].y == p[1] && runs[n-1].z == p[2] && runs[n-1].x+runs[n-1].n == p[0] {
			runs[n-1].n++
		} else {
			runs = append(runs, lmRun{p[0], p[1], p[2], 1})
		}
	}
	return runs
}

func c08Region(name string) (lo, hi [3]int) {
	switch name {
	case "subblock":
		return [3]int{0, 0, 0}, [3]int{8, 8, 8}
	case "block10":
		return [3]int{16, 0, 0}, [3]int{32, 16, 16}
	case "slab":
		return [3]int{8, 0, 0}, [3]int{24, 8, 8}
	}
	return [3]int{0, 0, 0}, [3]int{0, 0, 0}
}

// c08Alphabet lists the operations offered at the leaf version of the model.
func c08Alphabet(m *c08Model, thorough bool) []c08Op {
	v := m.vers[m.leaf]
	bodies := v.bodies()
	var bl []uint64
	for b := range bodies {
		bl = append(bl, b)
	}
	sort.Slice(bl, func(i, j int) bool { return bl[i] < bl[j] })
	var ops []c08Op
	for _, t := range bl {
		for _, s := range bl {
			if s != t {
				ops = append(ops, c08Op{K: "merge", A: t, B: []uint64{s}})
			}
		}
	}
	if len(bl) >= 3 {
		ops = append(ops, c08Op{K: "merge", A: bl[0], B: []uint64{bl[1], bl[2]}})
		ops = append(ops, c08Op{K: "merge", A: bl[len(bl)-1], B: bl[:len(bl)-1]}) // everything merged
	}
	ops = append(ops, c08Op{K: "merge", A: 999, B: []uint64{bl[0]}}, c08Op{K: "merge", A: bl[0], B: []uint64{999}}) // absent target / merged
	for _, b := range bl {
		var svs []uint64
		for s := range bodies[b] {
			svs = append(svs, s)
		}
		sort.Slice(svs, func(i, j int) bool { return svs[i] < svs[j] })
		if len(svs) >= 2 {
			max := 1 << uint(len(svs))
			for mask := 1; mask < max; mask++ {
				var sub []uint64
				for i, s := range svs {
					if mask&(1<<uint(i)) != 0 {
						sub = append(sub, s)
					}
				}
				if len(sub) <= 3 {
					ops = append(ops, c08Op{K: "cleave", A: b, B: sub}) // mask == max-1 is the (invalid) cleave of everything
				}
			}
			ops = append(ops, c08Op{K: "cleave", A: b, B: []uint64{999}})
		} else {
			ops = append(ops, c08Op{K: "cleave", A: b, B: svs}) // invalid: would empty the body
		}
		m.fresh++
		ops = append(ops, c08Op{K: "renumber", A: 50 + uint64(len(bl)) + b%7, B: []uint64{b}})
	}
	if len(bl) >= 2 {
		ops = append(ops, c08Op{K: "renumber", A: bl[1], B: []uint64{bl[0]}}) // invalid: new label exists
	}
	svset := map[uint64]bool{}
	for _, s := range v.sv {
		if s != 0 {
			svset[s] = true
		}
	}
	for _, s := range sortedU64(svset) {
		for _, sh := range []string{"onevoxel", "half-in-block", "all-in-block", "cross-border", "whole", "partly-outside"} {
			if c08Shape(v, s, sh) != nil {
				ops = append(ops, c08Op{K: "splitsv", A: s, Shape: sh})
			}
		}
	}
	ops = append(ops, c08Op{K: "splitsv", A: 999, Shape: "onevoxel"})
	for _, reg := range []string{"subblock", "block10", "slab"} {
		for _, f := range []string{"zero", "existing", "fresh"} {
			ops = append(ops, c08Op{K: "rawmutate", Shape: reg, Fill: f})
		}
	}
	// a mutating write that only redistributes voxels: two equal boxes on either side of a block border exchange their
	// contents, so every body keeps its voxel total while its per-block (and per-supervoxel) counts change
	ops = append(ops, c08Op{K: "rawmutate", Shape: "slab", Fill: "swap"})
	ops = append(ops, c08Op{K: "newversion"}, c08Op{K: "branch"})
	// two open versions at once: "fork" opens a sibling of the current leaf (a second child of its committed parent) and
	// moves there; "switch" moves the focus to another open version. Later operations then alternate between siblings.
	if v.parent >= 0 && len(m.open()) < 3 {
		ops = append(ops, c08Op{K: "fork"})
	}
	if len(m.open()) > 1 {
		ops = append(ops, c08Op{K: "switch"})
	}
	return ops
}

// ---------------- worker: replay a history, check every step ----------------

type c08Job struct {
	Path     []c08Op `json:"path"`
	Big      bool    `json:"big"`
	Expand   bool    `json:"expand"` // try every op of the alphabet from the reached state
	Thorough bool    `json:"thorough"`
}

type c08Viol struct {
	Key  string  `json:"key"`
	What string  `json:"what"`
	Path []c08Op `json:"path"`
}

type c08Succ struct {
	Op    c08Op  `json:"op"`
	Canon string `json:"canon"`
	Code  int    `json:"code"`
}

type c08Result struct {
	Viol    []c08Viol `json:"viol"`
	Succ    []c08Succ `json:"succ"`
	Trans   int       `json:"trans"`
	Reads   int       `json:"reads"`
	Refused int       `json:"refused"`
}

type c08World struct {
	m     *c08Model
	uuids []string
	big   bool
	reads int
	ever  map[uint64]bool // every label (supervoxel or body) that existed at some point of the history
}

func (w *c08World) remember() {
	if w.ever == nil {
		w.ever = map[uint64]bool{}
	}
	for _, v := range w.m.vers {
		for _, s := range v.sv {
			if s != 0 {
				w.ever[s] = true
				w.ever[v.body(s)] = true
			}
		}
	}
}

func c08NewWorld(big bool) (*c08World, error) {
	root, err := vsrv.NewRepo()
	if err != nil {
		return nil, err
	}
	if err := vsrv.NewInstance(root, "labelmap", "lm", map[string]string{"BlockSize": "16,16,16"}); err != nil {
		return nil, err
	}
	vol := c08InitialVolume(big)
	lv := newLMVol([3]int{0, 0, 0}, [3]int{c08NX, c08NY, c08NZ})
	copy(lv.v, vol)
	if r := lmPostRaw(root, "lm", lv, false); !r.OK() {
		return nil, fmt.Errorf("initial ingest: %s", r)
	}
	vsrv.Settle(root, "lm")
	w := &c08World{m: &c08Model{vers: []*c08Version{{sv: vol, mapping: map[uint64]uint64{}, parent: -1}}}, uuids: []string{root}, big: big}
	w.remember()
	return w, nil
}

// apply executes op on the real server and, if accepted, on the model. Returns the status code.
func (w *c08World) apply(op c08Op) (code int, desc string, viols []c08Viol) {
	m := w.m
	v := m.vers[m.leaf]
	u := w.uuids[m.leaf]
	bad := func(key, f string, a ...interface{}) {
		viols = append(viols, c08Viol{Key: key, What: fmt.Sprintf(f, a...)})
	}
	maxLabel := func() uint64 {
		var mx uint64
		for _, ver := range m.vers {
			for _, s := range ver.sv {
				if s > mx {
					mx = s
				}
			}
			for _, b := range ver.mapping {
				if b > mx {
					mx = b
				}
			}
		}
		return mx
	}
	switch op.K {
	case "merge":
		r := lmMerge(u, "lm", op.A, op.B...)
		code, desc = r.Code, r.String()
		if r.OK() {
			bodies := v.bodies()
			if _, ok := bodies[op.A]; !ok {
				bad("merge:absent-target-accepted", "merge into absent target %d accepted: %s", op.A, r)
			}
			for _, s := range op.B {
				if _, ok := bodies[s]; !ok {
					bad("merge:absent-merged-accepted", "merge of absent body %d accepted: %s", s, r)
				}
				for sv := range bodies[s] {
					v.mapping[sv] = op.A
				}
			}
			for sv := range bodies[op.A] {
				if sv != op.A {
					v.mapping[sv] = op.A
				}
			}
		}
	case "cleave":
		newLabel, r := lmCleave(u, "lm", op.A, op.B...)
		code, desc = r.Code, r.String()
		if r.OK() {
			bodies := v.bodies()
			if newLabel <= maxLabel() && !w.big {
				bad("cleave:label-not-fresh", "cleave returned label %d which is not above every label in the volume (%d)", newLabel, maxLabel())
			}
			valid := len(op.B) < len(bodies[op.A])
			for _, sv := range op.B {
				if _, ok := bodies[op.A][sv]; !ok {
					valid = false
				}
			}
			if !valid {
				bad("cleave:invalid-accepted", "cleave(%d,%v) accepted although the supervoxels are not a proper subset of the body's %v: %s", op.A, op.B, bodies[op.A], r)
			}
			for _, sv := range op.B {
				if _, ok := bodies[op.A][sv]; ok {
					v.mapping[sv] = newLabel
				}
			}
		}
	case "splitsv":
		runs := c08Shape(v, op.A, op.Shape)
		if op.A == 999 {
			runs = []lmRun{{0, 0, 0, 1}}
		}
		sp, rem, r := lmSplitSV(u, "lm", op.A, runs)
		code, desc = r.Code, r.String()
		if r.OK() {
			if (sp <= maxLabel() || rem <= maxLabel() || sp == rem) && !w.big {
				bad("splitsv:labels-not-fresh", "split-supervoxel returned labels %d,%d not above every label present (%d) or equal", sp, rem, maxLabel())
			}
			body := v.body(op.A)
			in := map[int]bool{}
			for _, rn := range runs {
				for k := 0; k < rn.n; k++ {
					in[c08Idx(rn.x+k, rn.y, rn.z)] = true
				}
			}
			nSplit, nRem := 0, 0
			for i, s := range v.sv {
				if s == op.A {
					if in[i] {
						v.sv[i] = sp
						nSplit++
					} else {
						v.sv[i] = rem
						nRem++
					}
				}
			}
			delete(v.mapping, op.A)
			if sp != body {
				v.mapping[sp] = body
			}
			if rem != body {
				v.mapping[rem] = body
			}
			if nSplit == 0 || nRem == 0 {
				// the whole supervoxel (or nothing of it) was selected: DVID may accept or refuse; the scan oracle decides
				desc += fmt.Sprintf(" [split %d voxels, remain %d]", nSplit, nRem)
			}
		}
	case "renumber":
		r := lmRenumber(u, "lm", op.A, op.B[0])
		code, desc = r.Code, r.String()
		if r.OK() {
			bodies := v.bodies()
			if _, exists := bodies[op.A]; exists {
				bad("renumber:existing-target-accepted", "renumber to existing label %d accepted: %s", op.A, r)
			}
			for sv := range bodies[op.B[0]] {
				v.mapping[sv] = op.A
			}
		}
	case "rawmutate":
		lo, hi := c08Region(op.Shape)
		size := [3]int{hi[0] - lo[0], hi[1] - lo[1], hi[2] - lo[2]}
		// raw writes are block aligned: read-modify-write of the enclosing blocks through the model
		blo := [3]int{lo[0] / c08BS * c08BS, lo[1] / c08BS * c08BS, lo[2] / c08BS * c08BS}
		bhi := [3]int{(hi[0] + c08BS - 1) / c08BS * c08BS, (hi[1] + c08BS - 1) / c08BS * c08BS, (hi[2] + c08BS - 1) / c08BS * c08BS}
		_ = size
		vol := newLMVol(blo, [3]int{bhi[0] - blo[0], bhi[1] - blo[1], bhi[2] - blo[2]})
		var fill uint64
		switch op.Fill {
		case "existing":
			fill = v.sv[c08Idx(20, 4, 8)] // whatever supervoxel sits in block (1,0,0)
			if fill == 0 {
				fill = v.sv[c08Idx(0, 0, 0)]
			}
		case "fresh":
			fill = 70 + uint64(len(w.uuids))*3 + uint64(len(op.Shape))
			if w.big {
				fill += 1 << 41
			}
		}
		for z := blo[2]; z < bhi[2]; z++ {
			for y := blo[1]; y < bhi[1]; y++ {
				for x := blo[0]; x < bhi[0]; x++ {
					val := v.sv[c08Idx(x, y, z)]
					if x >= lo[0] && x < hi[0] && y >= lo[1] && y < hi[1] && z >= lo[2] && z < hi[2] {
						val = fill
						if op.Fill == "swap" {
							// the region is [8,24) in X: its half in block 0 and its half in block 1 exchange contents
							if x < 16 {
								val = v.sv[c08Idx(x+8, y, z)]
							} else {
								val = v.sv[c08Idx(x-8, y, z)]
							}
						}
					}
					vol.set(x, y, z, val)
				}
			}
		}
		// POST raw takes labels; writing a supervoxel id that is currently mapped would be re-mapped on read, which is what
		// the model does as well (the stored id is the supervoxel).
		r := lmPostRaw(u, "lm", vol, true)
		code, desc = r.Code, r.String()
		if r.OK() {
			for z := blo[2]; z < bhi[2]; z++ {
				for y := blo[1]; y < bhi[1]; y++ {
					for x := blo[0]; x < bhi[0]; x++ {
						v.sv[c08Idx(x, y, z)] = vol.at(x, y, z)
					}
				}
			}
		}
	case "newversion", "branch":
		vsrv.Settle(u, "lm")
		if err := vsrv.Commit(u); err != nil {
			return 500, err.Error(), viols
		}
		var child string
		var err error
		if op.K == "newversion" {
			child, err = vsrv.NewVersion(u)
		} else {
			child, err = vsrv.Branch(u, fmt.Sprintf("b%d", len(w.uuids)))
		}
		if err != nil {
			return 500, err.Error(), viols
		}
		m.vers = append(m.vers, v.clone(m.leaf))
		w.uuids = append(w.uuids, child)
		m.leaf = len(m.vers) - 1
		code, desc = 200, "child "+child
	case "fork":
		p := v.parent
		if p < 0 {
			return 400, "the root has no sibling", viols
		}
		child, err := vsrv.Branch(w.uuids[p], fmt.Sprintf("f%d", len(w.uuids)))
		if err != nil {
			return 500, err.Error(), viols
		}
		m.vers = append(m.vers, m.vers[p].clone(p))
		w.uuids = append(w.uuids, child)
		m.leaf = len(m.vers) - 1
		code, desc = 200, "sibling "+child
	case "switch":
		open := m.open()
		next := open[len(open)-1] // the open version before the current one, cyclically
		for _, i := range open {
			if i < m.leaf {
				next = i
			}
		}
		if next == m.leaf {
			return 400, "no other open version", viols
		}
		m.leaf = next
		code, desc = 200, fmt.Sprintf("focus on version %d", next)
	}
	vsrv.Settle(w.uuids[m.leaf], "lm")
	w.remember()
	return
}

// canon renders the model state (the server state is checked against it separately).
func (w *c08World) canon() string {
	h := fnv64()
	for i, v := range w.m.vers {
		fmt.Fprintf(h, "v%d<-%d:", i, v.parent)
		for _, s := range v.sv {
			fmt.Fprintf(h, "%d,", s)
		}
		var ks []uint64
		for k := range v.mapping {
			ks = append(ks, k)
		}
		sort.Slice(ks, func(a, b int) bool { return ks[a] < ks[b] })
		for _, k := range ks {
			if v.body(k) != k {
				fmt.Fprintf(h, "%d>%d;", k, v.mapping[k])
			}
		}
	}
	fmt.Fprintf(h, "focus%d", w.m.leaf)
	return fmt.Sprintf("%x/%d", h.Sum64(), len(w.m.vers))
}

// check evaluates both oracles on every version. Violation keys are structural: endpoint + kind.
func (w *c08World) check() (viols []c08Viol) {
	bad := func(key, f string, a ...interface{}) {
		viols = append(viols, c08Viol{Key: key, What: fmt.Sprintf(f, a...)})
	}
	full := [3]int{c08NX, c08NY, c08NZ}
	zero := [3]int{0, 0, 0}
	for vi, ver := range w.m.vers {
		u := w.uuids[vi]
		at := fmt.Sprintf("version %d of %d", vi, len(w.m.vers))
		get := func(path string) vsrv.Resp { w.reads++; return vsrv.Get("node/" + u + "/lm/" + path) }
		S, r := lmGetRaw(u, "lm", zero, full, true, 0)
		w.reads++
		if S == nil {
			bad("read:raw-supervoxels:error", "%s: GET raw?supervoxels=true failed: %s", at, r)
			continue
		}
		// oracle 2: stored supervoxels == model
		diff := 0
		first := ""
		for i := range S.v {
			if S.v[i] != ver.sv[i] {
				if diff == 0 {
					first = fmt.Sprintf("voxel #%d (x=%d,y=%d,z=%d): stored %d, model %d", i, i%c08NX, (i/c08NX)%c08NY, i/(c08NX*c08NY), S.v[i], ver.sv[i])
				}
				diff++
			}
		}
		if diff > 0 {
			bad("model:supervoxels-differ", "%s: %d voxels differ from the reference model; first: %s", at, diff, first)
		}
		// mapping of every stored supervoxel
		svset := map[uint64]bool{}
		for _, s := range S.v {
			if s != 0 {
				svset[s] = true
			}
		}
		svs := sortedU64(svset)
		mp, mr := lmMapping(u, "lm", svs)
		w.reads++
		if len(mp) != len(svs) {
			bad("read:mapping:error", "%s: GET mapping failed: %s", at, mr)
			continue
		}
		M := map[uint64]uint64{}
		for i, s := range svs {
			M[s] = mp[i]
			if mp[i] != ver.body(s) {
				bad("model:mapping-differs", "%s: supervoxel %d maps to %d, reference model says %d", at, s, mp[i], ver.body(s))
			}
		}
		// oracle 1: everything else derives from the scan (S, M)
		type binfo struct {
			vox    int
			svs    map[uint64]int
			blocks map[[3]int]map[uint64]int
		}
		B := map[uint64]*binfo{}
		for i, s := range S.v {
			if s == 0 {
				continue
			}
			b := M[s]
			if B[b] == nil {
				B[b] = &binfo{svs: map[uint64]int{}, blocks: map[[3]int]map[uint64]int{}}
			}
			x, y, z := i%c08NX, (i/c08NX)%c08NY, i/(c08NX*c08NY)
			bc := [3]int{x / c08BS, y / c08BS, z / c08BS}
			B[b].vox++
			B[b].svs[s]++
			if B[b].blocks[bc] == nil {
				B[b].blocks[bc] = map[uint64]int{}
			}
			B[b].blocks[bc][s]++
		}
		// mapped raw
		L, r2 := lmGetRaw(u, "lm", zero, full, false, 0)
		w.reads++
		if L == nil {
			bad("read:raw:error", "%s: GET raw failed: %s", at, r2)
		} else {
			n := 0
			for i := range L.v {
				want := uint64(0)
				if S.v[i] != 0 {
					want = M[S.v[i]]
				}
				if L.v[i] != want {
					n++
				}
			}
			if n > 0 {
				bad("scan:raw-mapped", "%s: %d voxels of the mapped volume differ from mapping applied to the stored supervoxels", at, n)
			}
		}
		var blist []uint64
		for b := range B {
			blist = append(blist, b)
		}
		sort.Slice(blist, func(i, j int) bool { return blist[i] < blist[j] })
		for _, b := range blist {
			bi := B[b]
			// size
			x := get(fmt.Sprintf("size/%d", b))
			var sz struct{ Voxels int }
			json.Unmarshal(x.Body, &sz)
			if x.Code != 200 || sz.Voxels != bi.vox {
				bad("scan:size", "%s: size/%d = %s, scan says %d voxels", at, b, x, bi.vox)
			}
			// supervoxels
			x = get(fmt.Sprintf("supervoxels/%d", b))
			var got []uint64
			json.Unmarshal(x.Body, &got)
			sort.Slice(got, func(i, j int) bool { return got[i] < got[j] })
			var want []uint64
			for s := range bi.svs {
				want = append(want, s)
			}
			sort.Slice(want, func(i, j int) bool { return want[i] < want[j] })
			if x.Code != 200 || fmt.Sprint(got) != fmt.Sprint(want) {
				bad("scan:supervoxels", "%s: supervoxels/%d = %s, scan says %v", at, b, x, want)
			}
			// supervoxel-sizes
			x = get(fmt.Sprintf("supervoxel-sizes/%d", b))
			var ss struct {
				Supervoxels []uint64
				Sizes       []int
			}
			json.Unmarshal(x.Body, &ss)
			okss := x.Code == 200 && len(ss.Supervoxels) == len(bi.svs) && len(ss.Sizes) == len(ss.Supervoxels)
			if okss {
				for i, s := range ss.Supervoxels {
					if bi.svs[s] != ss.Sizes[i] {
						okss = false
					}
				}
			}
			if !okss {
				bad("scan:supervoxel-sizes", "%s: supervoxel-sizes/%d = %s, scan says %v", at, b, x, bi.svs)
			}
			// sparsevol
			x = get(fmt.Sprintf("sparsevol/%d", b))
			vox, err := lmParseSparse(x.Body)
			if x.Code != 200 || err != nil || len(vox) != bi.vox {
				bad("scan:sparsevol", "%s: sparsevol/%d: code %d, %d voxels (err %v), scan says %d", at, b, x.Code, len(vox), err, bi.vox)
			} else {
				for p := range vox {
					if s := S.v[c08Idx(p[0], p[1], p[2])]; s == 0 || M[s] != b {
						bad("scan:sparsevol", "%s: sparsevol/%d contains voxel %v which the scan assigns to body %d", at, b, p, M[s])
						break
					}
				}
			}
			// sparsevol-size
			x = get(fmt.Sprintf("sparsevol-size/%d", b))
			var svz struct {
				Voxels    int
				Numblocks int
			}
			json.Unmarshal(x.Body, &svz)
			if x.Code != 200 || svz.Voxels != bi.vox || svz.Numblocks != len(bi.blocks) {
				bad("scan:sparsevol-size", "%s: sparsevol-size/%d = %s, scan says %d voxels in %d blocks", at, b, x, bi.vox, len(bi.blocks))
			}
			// sparsevol-coarse
			x = get(fmt.Sprintf("sparsevol-coarse/%d", b))
			cvox, err := lmParseSparse(x.Body)
			okc := x.Code == 200 && err == nil && len(cvox) == len(bi.blocks)
			if okc {
				for bc := range bi.blocks {
					if !cvox[bc] {
						okc = false
					}
				}
			}
			if !okc {
				bad("scan:sparsevol-coarse", "%s: sparsevol-coarse/%d: code %d blocks %v (err %v), scan says %v", at, b, x.Code, cvox, err, keysOf(bi.blocks))
			}
			// index
			x = get(fmt.Sprintf("index/%d", b))
			wantIdx := ""
			{
				var bl []string
				for bc, svc := range bi.blocks {
					var cs []string
					for s, n := range svc {
						cs = append(cs, fmt.Sprintf("%d:%d", s, n))
					}
					sort.Strings(cs)
					zyx := uint64(bc[2])<<42 | uint64(bc[1])<<21 | uint64(bc[0])
					bl = append(bl, fmt.Sprintf("%x{%s}", zyx, strings.Join(cs, ",")))
				}
				sort.Strings(bl)
				wantIdx = fmt.Sprintf("200:label=%d:%s", b, strings.Join(bl, " "))
			}
			if gotIdx := lmNormalize("index/x", x.Code, x.Body); gotIdx != wantIdx {
				bad("scan:index", "%s: index/%d = %s, scan says %s", at, b, gotIdx, wantIdx)
			}
		}
		// sizes for all bodies plus ids that must not exist
		{
			q := append(append([]uint64{}, blist...), 999)
			for _, s := range sortedU64(w.ever) {
				if _, isBody := B[s]; !isBody {
					q = append(q, s) // a label that existed at some point but is not a body at this version
				}
			}
			x := vsrv.Do("GET", "node/"+u+"/lm/sizes", lmJSONList(q))
			w.reads++
			var got []int
			json.Unmarshal(x.Body, &got)
			okz := x.Code == 200 && len(got) == len(q)
			if okz {
				for i, b := range q {
					want := 0
					if bi := B[b]; bi != nil {
						want = bi.vox
					}
					if got[i] != want {
						okz = false
					}
				}
			}
			if !okz {
				bad("scan:sizes", "%s: sizes %v = %s", at, q, x)
			}
			for _, b := range q[len(blist):] {
				if x := get(fmt.Sprintf("size/%d", b)); x.Code == 200 {
					bad("scan:ghost-body", "%s: size/%d answers %s although no stored voxel maps to body %d", at, b, x, b)
				}
			}
		}
		// point lookups for every voxel in one request
		{
			pts := make([][3]int, 0, len(S.v))
			for i := range S.v {
				pts = append(pts, [3]int{i % c08NX, (i / c08NX) % c08NY, i / (c08NX * c08NY)})
			}
			body, _ := json.Marshal(pts)
			x := vsrv.Do("GET", "node/"+u+"/lm/labels", body)
			w.reads++
			var got []uint64
			json.Unmarshal(x.Body, &got)
			n := 0
			if x.Code != 200 || len(got) != len(pts) {
				bad("scan:labels", "%s: GET labels for all voxels failed: code %d, %d answers", at, x.Code, len(got))
			} else {
				for i := range got {
					want := uint64(0)
					if S.v[i] != 0 {
						want = M[S.v[i]]
					}
					if got[i] != want {
						n++
					}
				}
				if n > 0 {
					bad("scan:labels", "%s: %d point lookups disagree with the scan", at, n)
				}
			}
			p := pts[c08Idx(20, 20, 9)]
			x = get(fmt.Sprintf("label/%d_%d_%d", p[0], p[1], p[2]))
			var l struct{ Label uint64 }
			json.Unmarshal(x.Body, &l)
			if want := M[S.v[c08Idx(20, 20, 9)]]; x.Code != 200 || l.Label != want {
				bad("scan:label", "%s: label/20_20_9 = %s, scan says %d", at, x, want)
			}
		}
	}
	return
}

func keysOf(m map[[3]int]map[uint64]int) [][3]int {
	var out [][3]int
	for k := range m {
		out = append(out, k)
	}
	return out
}

func c08Worker(args []string) int {
	dir, err := mkTemp("c08")
	if err != nil {
		return 1
	}
	defer rmAll(dir)
	if err := vsrv.Boot(dir, vsrv.Options{}); err != nil {
		return 1
	}
	vsrv.SingleThreaded = true
	return vlib.ServeJobs(func(job string) string {
		var j c08Job
		json.Unmarshal([]byte(job), &j)
		var res c08Result
		replay := func() *c08World {
			w, err := c08NewWorld(j.Big)
			if err != nil {
				res.Viol = append(res.Viol, c08Viol{Key: "harness:world", What: err.Error()})
				return nil
			}
			for _, op := range j.Path {
				w.apply(op)
			}
			return w
		}
		w := replay()
		if w == nil {
			return c08JSON(res)
		}
		if !j.Expand {
			for _, v := range w.check() {
				v.Path = j.Path
				res.Viol = append(res.Viol, v)
			}
			res.Reads = w.reads
			return c08JSON(res)
		}
		for _, op := range c08Alphabet(w.m, j.Thorough) {
			path := append(append([]c08Op{}, j.Path...), op)
			before := w.canon()
			code, desc, vs := w.apply(op)
			res.Trans++
			for _, v := range vs {
				v.Path = path
				res.Viol = append(res.Viol, v)
			}
			if code >= 500 {
				res.Viol = append(res.Viol, c08Viol{Key: "server-error:" + op.K, What: desc, Path: path})
			}
			if code >= 400 {
				res.Refused++
			}
			for _, v := range w.check() {
				v.Key += ":after-" + op.K
				if code >= 400 {
					v.Key += "-refused"
				}
				v.What += " [after " + op.String() + " -> " + desc + "]"
				v.Path = path
				res.Viol = append(res.Viol, v)
			}
			after := w.canon()
			if after != before || len(vs) > 0 || code < 400 {
				if after != before {
					res.Succ = append(res.Succ, c08Succ{Op: op, Canon: after, Code: code})
				}
				res.Reads += w.reads
				w = replay()
				if w == nil {
					break
				}
			}
		}
		if w != nil {
			res.Reads += w.reads
		}
		return c08JSON(res)
	})
}

func c08JSON(r c08Result) string {
	b, _ := json.Marshal(r)
	return string(b)
}

func runC08(c *vlib.Ctx) {
	depth := 2
	if c.Thorough() {
		depth = 3
	}
	var states, transitions, reads int64
	for _, big := range []bool{false, true} {
		if big && !c.Thorough() {
			// quick: the big-label layout gets depth 1 only
		}
		seen := map[string]bool{}
		extra := false
		frontier := [][]c08Op{{}}
		d := depth
		if big {
			d = depth - 1
		} else {
			// start from non-initial states too: deep roots that the depth bound would not reach, each expanded like a
			// frontier state of level 1 (so depth-1 more levels from there). A body whose namesake supervoxel was cleaved
			// away; a split remainder merged elsewhere; a renumbered merge target in a child version.
			frontier = append(frontier,
				[]c08Op{{K: "merge", A: 1, B: []uint64{2}}, {K: "cleave", A: 1, B: []uint64{1}}},
				[]c08Op{{K: "splitsv", A: 1, Shape: "half-in-block"}, {K: "merge", A: 2, B: []uint64{1}}},
				[]c08Op{{K: "merge", A: 3, B: []uint64{5}}, {K: "newversion"}, {K: "renumber", A: 77, B: []uint64{3}}},
				// two open siblings that both re-mapped a supervoxel already mapped by their parent; focus back on the older one
				[]c08Op{{K: "merge", A: 1, B: []uint64{2}}, {K: "newversion"}, {K: "cleave", A: 1, B: []uint64{2}}, {K: "fork"}, {K: "cleave", A: 1, B: []uint64{2}}, {K: "switch"}},
				// a supervoxel that is re-mapped only on a sibling branch (merged there), never in the focused version's own ancestry:
				// focus on the younger sibling, and on the older one
				[]c08Op{{K: "newversion"}, {K: "merge", A: 1, B: []uint64{2}}, {K: "fork"}},
				[]c08Op{{K: "newversion"}, {K: "fork"}, {K: "merge", A: 1, B: []uint64{2}}, {K: "switch"}})
		}
		for lvl := 1; lvl <= d && len(frontier) > 0; lvl++ {
			jobs := make([]string, len(frontier))
			for i, p := range frontier {
				b, _ := json.Marshal(c08Job{Path: p, Big: big, Expand: true, Thorough: c.Thorough()})
				jobs[i] = string(b)
			}
			vlib.JobTimeout = 30 * time.Minute
			results := vlib.Pool("c08", nil, 16, jobs)
			var next [][]c08Op
			for i, r := range results {
				if r.Died {
					if r.TimedOut {
						c.Cap(fmt.Sprintf("watchdog while expanding %v", frontier[i]))
					} else {
						c.Violate("worker-death", fmt.Sprintf("worker died while expanding %v (big=%v): %s", frontier[i], big, tail(r.Stderr, 1500)), map[string]interface{}{"path": frontier[i], "big": big})
					}
					continue
				}
				var res c08Result
				if err := json.Unmarshal([]byte(r.Out), &res); err != nil {
					c.Violate("harness:result", trunc(r.Out, 300), nil)
					continue
				}
				transitions += int64(res.Trans)
				reads += int64(res.Reads)
				c.Eval(int64(res.Trans))
				for _, v := range res.Viol {
					c.Violate(v.Key, v.What+" | history: "+fmt.Sprint(v.Path), map[string]interface{}{"history": v.Path, "big_labels": big})
				}
				for _, s := range res.Succ {
					c.Outcome(fmt.Sprintf("%s:%d", s.Op.K, s.Code/100))
					if !seen[s.Canon] {
						seen[s.Canon] = true
						states++
						c.Nontrivial(fmt.Sprintf("%v:%s", big, s.Canon))
						if deep := len(frontier[i]) > lvl-1; deep && (!c.Thorough() || lvl > 1) {
							continue // states below a deep root: expanded one level (thorough: two), not to the full depth
						}
						next = append(next, append(append([]c08Op{}, frontier[i]...), s.Op))
					}
				}
			}
			c.Set(fmt.Sprintf("frontier_big%v_depth%d", big, lvl), len(frontier))
			frontier = next
			if lvl == d && !c.Thorough() && !big && !extra {
				// quick: one level deeper for the states reached by version operations only (an intermediate version that
				// no label request has touched before its descendants are edited)
				var vo [][]c08Op
				for _, p := range next {
					only := true
					for _, o := range p {
						if o.K != "newversion" && o.K != "branch" && o.K != "fork" {
							only = false
						}
					}
					if only {
						vo = append(vo, p)
					}
				}
				if len(vo) > 0 {
					extra = true
					frontier = vo
					d++
				}
			}
		}
	}
	c.Set("states", states+1)
	c.Set("transitions", transitions)
	c.Set("traces_validated_against_impl", transitions)
	c.Set("read_requests", reads)
	c.Set("bound", fmt.Sprintf("BFS depth %d (big-label layout: %d) over merge / cleave / split-supervoxel (6 shapes) / renumber / mutating raw writes (3 regions x 3 fills) / newversion / branch, valid and invalid arguments, on a 32x32x16 volume of 16^3 blocks; fork (second open child of the leaf's parent) / switch (focus on another open version); plus 6 deep roots (namesake supervoxel cleaved away, split remainder merged elsewhere, renumbered merge target in a child version, two open siblings that both re-mapped a supervoxel mapped by their parent, a supervoxel merged only on the older / only on the younger sibling of the focused version) expanded 1 level (thorough 2)", depth, depth-1))
	c.Sample(map[string]interface{}{"history": "merge(1[4]) cleave(1[4]) splitsv(2,cross-border)", "checked": "all versions: raw, raw?supervoxels, mapping, size, sizes, supervoxels, supervoxel-sizes, sparsevol, sparsevol-size, sparsevol-coarse, index, labels (every voxel), label, maxlabel; ghost bodies"})
	c.Set("rule", "state = reference model (supervoxel array + mapping per version) reached by a history; transition = one real request followed by runtime-level quiescence; after every transition every read endpoint of every version is compared with the scan of stored supervoxels + mapping, and the scan with the reference model")
	c.Assume("body split (/split) is disabled in the default server configuration and not part of the alphabet")
}
