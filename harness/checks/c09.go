package checks

// C09 The compressed label block codec is lossless and its views agree.
//
// Bounded-exhaustive enumeration on the real code (DESIGN.md section 6, C09): every enumerated []uint64 label array is
// compressed with labels.MakeBlock (or labels.SubvolumeToBlock) and every view computed on the compressed form is
// compared with the same view computed naively on the array:
//
//	MakeLabelVolume, WriteLabelVolume, MarshalBinary -> UnmarshalBinary -> MakeLabelVolume (+ identical re-serialisation),
//	Value(p) and GetPointLabels for every voxel position, CalcNumLabels(nil) and CalcNumLabels(prev),
//	WriteRLEs (decoded run set == voxel set of the labels, with and without exact voxel bounds, one block and streams of
//	blocks) and WriteBinaryBlocks -> ReceiveBinaryBlocks / BinaryBlock.Read.
//
// Sections: E1 one 8x8x8 sub-block with k = 1..512 labels (every index width, every voxel position, ordered pairs of
// index values at (p, p+1)); E2 complete {A,B}^14 / {A,B,C}^9 windows over sub-block faces and complete 3^8 / 4^8 corner
// cubes; E3 geometry (every block size of a menu, cubic or not, the maximum edge, SubvolumeToBlock at every block
// offset); E4 label values {0,1,2^32-1,2^32,2^63,2^64-1} in every role; E5 the views on blocks whose label table has
// aliased slots (made by the real ReplaceLabel / MergeLabels).
//
// The oracle is the weakest reading: views are compared as values (voxel sets, counts of non-zero labels), never by
// layout, run order or table order. A failed MakeBlock -> MakeLabelVolume round trip short-circuits the other views of
// that block so that one encoder defect is reported once.

import (
	"bytes"
	"encoding/binary"
	"fmt"
	"sort"
	"strings"
	"sync"
	"sync/atomic"
	"syscall"
	"time"

	"github.com/janelia-flyem/dvid/datatype/common/labels"
	"github.com/janelia-flyem/dvid/dvid"

	"verif/vlib"
)

func init() { vlib.Register("C09", "model_checking", runC09) }

const c09Max = ^uint64(0)

const (
	c09Views  = 1 << iota // Value / GetPointLabels / CalcNumLabels / marshal
	c09Sparse             // WriteRLEs / WriteBinaryBlocks for a few labels
	c09Heavy              // WriteLabelVolume, permuted point orders, non-zero block coordinates, all labels sparse
	c09AllPts             // Value and GetPointLabels at every voxel position, CalcNumLabels(prev) (otherwise a 1-in-8 lattice that visits every sub-block)
)

var c09Specials = []uint64{0, 1, 1<<32 - 1, 1 << 32, 1 << 63, c09Max}

// c09Run is the shared state of one run.
type c09Run struct {
	c        *vlib.Ctx
	seenMu   [64]sync.Mutex
	seen     [64]map[uint64]struct{} // FNV-1a hashes of non-trivial arrays
	panics   int64                   // panics seen in the asynchronous writers (caps goroutine leakage)
	sections sync.Map                // section -> *int64 blocks
}

func newC09Run(c *vlib.Ctx) *c09Run {
	r := &c09Run{c: c}
	for i := range r.seen {
		r.seen[i] = map[uint64]struct{}{}
	}
	return r
}

func (r *c09Run) count(section string, n int64) {
	v, _ := r.sections.LoadOrStore(section, new(int64))
	atomic.AddInt64(v.(*int64), n)
}

func c09Hash(size dvid.Point3d, arr []uint64) uint64 {
	h := uint64(14695981039346656037)
	mix := func(v uint64) {
		h ^= v
		h *= 1099511628211
		h ^= h >> 29
	}
	mix(uint64(size[0]))
	mix(uint64(size[1]))
	mix(uint64(size[2]))
	for _, v := range arr {
		mix(v)
	}
	return h
}

// noteNontrivial records the array if some sub-block holds >= 2 labels (the stated rule).
func (r *c09Run) noteNontrivial(size dvid.Point3d, arr []uint64, blk *labels.Block) {
	nt := false
	for _, n := range blk.NumSBLabels {
		if n >= 2 {
			nt = true
			break
		}
	}
	if !nt {
		return
	}
	h := c09Hash(size, arr)
	s := h & 63
	r.seenMu[s].Lock()
	r.seen[s][h] = struct{}{}
	r.seenMu[s].Unlock()
}

func c09Bits(n uint16) int {
	b := 0
	for n > 1 && (1<<uint(b)) < int(n) {
		b++
	}
	return b
}

// c09RunsOf gives a short run-length description of an array for replay files ("" if it needs more than 400 runs).
func c09RunsOf(arr []uint64) interface{} {
	type run struct {
		Label string `json:"label"`
		N     int    `json:"n"`
	}
	var out []run
	for i := 0; i < len(arr); {
		j := i
		for j < len(arr) && arr[j] == arr[i] {
			j++
		}
		out = append(out, run{fmt.Sprint(arr[i]), j - i})
		if len(out) > 400 {
			return "more than 400 runs; regenerate from the section parameters"
		}
		i = j
	}
	return out
}

func c09Replay(section string, params map[string]interface{}, size dvid.Point3d, arr []uint64) map[string]interface{} {
	return map[string]interface{}{"section": section, "params": params, "block_size": size, "array_runs_x_fastest": c09RunsOf(arr)}
}

func c09Pt(i int, size dvid.Point3d) dvid.Point3d {
	nx, ny := int(size[0]), int(size[1])
	return dvid.Point3d{int32(i % nx), int32((i / nx) % ny), int32(i / (nx * ny))}
}

func c09U64(b []byte) ([]uint64, bool) {
	if len(b)%8 != 0 {
		return nil, false
	}
	out := make([]uint64, len(b)/8)
	for i := range out {
		out[i] = binary.LittleEndian.Uint64(b[i*8:])
	}
	return out, true
}

// c09DiffBytes compares a packed little-endian uint64 array with arr: -1 if equal, else the first differing voxel
// (0 if the lengths differ).
func c09DiffBytes(out []byte, arr []uint64) int {
	if len(out) != len(arr)*8 {
		return 0
	}
	for i, v := range arr {
		if binary.LittleEndian.Uint64(out[i*8:]) != v {
			return i
		}
	}
	return -1
}

var c09PtsMu sync.RWMutex
var c09PtsCache = map[dvid.Point3d][]dvid.Point3d{}

// c09PtsFor returns the (shared, read-only) list of all voxel positions of a block size in array order.
func c09PtsFor(size dvid.Point3d) []dvid.Point3d {
	c09PtsMu.RLock()
	p := c09PtsCache[size]
	c09PtsMu.RUnlock()
	if p != nil {
		return p
	}
	n := int(size.Prod())
	p = make([]dvid.Point3d, n)
	for i := range p {
		p[i] = c09Pt(i, size)
	}
	c09PtsMu.Lock()
	c09PtsCache[size] = p
	c09PtsMu.Unlock()
	return p
}

func c09FirstDiff(a, b []uint64) int {
	if len(a) != len(b) {
		return 0
	}
	for i := range a {
		if a[i] != b[i] {
			return i
		}
	}
	return -1
}

func c09BCoord(x, y, z int32) dvid.IZYXString { return dvid.ChunkPoint3d{x, y, z}.ToIZYXString() }

// c09WriteRLEs runs the real WriteRLEs over the given positioned blocks and returns the raw output.
func (r *c09Run) c09WriteRLEs(lbls labels.Set, pbs []*labels.PositionedBlock, bounds dvid.Bounds) (out []byte, err error, pnc interface{}) {
	var buf bytes.Buffer
	op := labels.NewOutputOp(&buf)
	for _, pb := range pbs {
		op.Process(pb)
	}
	fin := make(chan error, 1)
	go func() { fin <- op.Finish() }()
	pnc = vlib.Safely(func() { labels.WriteRLEs(lbls, op, bounds) })
	if pnc != nil {
		atomic.AddInt64(&r.panics, 1) // the Finish goroutine stays blocked; bounded by the cap in sparseAllowed
		return nil, nil, pnc
	}
	err = <-fin
	return buf.Bytes(), err, nil
}

func (r *c09Run) c09WriteBinary(main uint64, lbls labels.Set, pbs []*labels.PositionedBlock) (out []byte, err error, pnc interface{}) {
	var buf bytes.Buffer
	op := labels.NewOutputOp(&buf)
	for _, pb := range pbs {
		op.Process(pb)
	}
	fin := make(chan error, 1)
	go func() { fin <- op.Finish() }()
	pnc = vlib.Safely(func() { labels.WriteBinaryBlocks(main, lbls, op, dvid.Bounds{}) })
	if pnc != nil {
		atomic.AddInt64(&r.panics, 1)
		return nil, nil, pnc
	}
	err = <-fin
	return buf.Bytes(), err, nil
}

func (r *c09Run) sparseAllowed() bool { return atomic.LoadInt64(&r.panics) < 2000 }

// c09Box is an inclusive voxel box in DVID space.
type c09Box struct{ min, max dvid.Point3d }

func (b c09Box) has(p dvid.Point3d) bool {
	return p[0] >= b.min[0] && p[0] <= b.max[0] && p[1] >= b.min[1] && p[1] <= b.max[1] && p[2] >= b.min[2] && p[2] <= b.max[2]
}

// c09PB is a block placed in DVID space together with its uncompressed truth.
type c09PB struct {
	blk   *labels.Block
	arr   []uint64
	coord dvid.ChunkPoint3d
}

// checkRLE compares WriteRLEs output over a stream of blocks with the voxel set of lbls (clipped to box if not nil).
// Runs may come in any order; the comparison is on the voxel set. Returns "" or a description of the disagreement.
func (r *c09Run) checkRLE(lbls labels.Set, pbs []c09PB, size dvid.Point3d, box *c09Box) (kind, what string) {
	var in []*labels.PositionedBlock
	for _, p := range pbs {
		in = append(in, &labels.PositionedBlock{Block: *p.blk, BCoord: c09BCoord(p.coord[0], p.coord[1], p.coord[2])})
	}
	var bounds dvid.Bounds
	if box != nil {
		ob := new(dvid.OptionalBounds)
		ob.SetMinX(box.min[0])
		ob.SetMaxX(box.max[0])
		ob.SetMinY(box.min[1])
		ob.SetMaxY(box.max[1])
		ob.SetMinZ(box.min[2])
		ob.SetMaxZ(box.max[2])
		bounds = dvid.Bounds{Voxel: ob, Exact: true}
	}
	out, err, pnc := r.c09WriteRLEs(lbls, in, bounds)
	if pnc != nil {
		return "panic", fmt.Sprintf("WriteRLEs panicked: %v", pnc)
	}
	if err != nil {
		return "error", fmt.Sprintf("WriteRLEs returned error: %v", err)
	}
	if len(out)%16 != 0 {
		return "mismatch", fmt.Sprintf("WriteRLEs wrote %d bytes, not a multiple of 16", len(out))
	}
	nvox := int(size.Prod())
	got := make([][]bool, len(pbs))
	for i := range got {
		got[i] = make([]bool, nvox)
	}
	find := func(p dvid.Point3d) (int, int) { // block number and voxel index of a DVID point, or -1
		for bi, pb := range pbs {
			ox, oy, oz := pb.coord[0]*size[0], pb.coord[1]*size[1], pb.coord[2]*size[2]
			x, y, z := p[0]-ox, p[1]-oy, p[2]-oz
			if x >= 0 && x < size[0] && y >= 0 && y < size[1] && z >= 0 && z < size[2] {
				return bi, int(z*size[1]*size[0] + y*size[0] + x)
			}
		}
		return -1, -1
	}
	for o := 0; o < len(out); o += 16 {
		x := int32(binary.LittleEndian.Uint32(out[o:]))
		y := int32(binary.LittleEndian.Uint32(out[o+4:]))
		z := int32(binary.LittleEndian.Uint32(out[o+8:]))
		n := int32(binary.LittleEndian.Uint32(out[o+12:]))
		if n <= 0 {
			return "mismatch", fmt.Sprintf("run (%d,%d,%d) has length %d", x, y, z, n)
		}
		for k := int32(0); k < n; k++ {
			bi, vi := find(dvid.Point3d{x + k, y, z})
			if bi < 0 {
				return "mismatch:outside-blocks", fmt.Sprintf("run start (%d,%d,%d) length %d covers voxel (%d,%d,%d) outside every processed block", x, y, z, n, x+k, y, z)
			}
			got[bi][vi] = true
		}
	}
	for bi, pb := range pbs {
		ox, oy, oz := pb.coord[0]*size[0], pb.coord[1]*size[1], pb.coord[2]*size[2]
		for vi, l := range pb.arr {
			_, want := lbls[l]
			if want && box != nil {
				p := c09Pt(vi, size)
				want = box.has(dvid.Point3d{p[0] + ox, p[1] + oy, p[2] + oz})
			}
			if got[bi][vi] != want {
				p := c09Pt(vi, size)
				kind := "mismatch:missing" // a voxel of the label set is not covered by any run
				if got[bi][vi] {
					kind = "mismatch:extra" // a run covers a voxel that does not carry a label of the set
					if _, has := lbls[l]; has && box != nil {
						// the voxel carries the label but lies outside the exact bounds: name the side
						switch dp := (dvid.Point3d{p[0] + ox, p[1] + oy, p[2] + oz}); {
						case dp[0] > box.max[0]:
							kind = "mismatch:beyond-max-x"
						case dp[0] < box.min[0]:
							kind = "mismatch:before-min-x"
						default:
							kind = "mismatch:outside-yz-bounds"
						}
					}
				}
				return kind, fmt.Sprintf("block %v local voxel %v (label %d): in runs=%v, expected %v", pb.coord, p, l, got[bi][vi], want)
			}
		}
	}
	return "", ""
}

// checkBinary compares WriteBinaryBlocks -> ReceiveBinaryBlocks with the voxel set of lbls.
func (r *c09Run) checkBinary(main uint64, lbls labels.Set, pbs []c09PB, size dvid.Point3d) (kind, what string) {
	var in []*labels.PositionedBlock
	for _, p := range pbs {
		in = append(in, &labels.PositionedBlock{Block: *p.blk, BCoord: c09BCoord(p.coord[0], p.coord[1], p.coord[2])})
	}
	out, err, pnc := r.c09WriteBinary(main, lbls, in)
	if pnc != nil {
		return "panic", fmt.Sprintf("WriteBinaryBlocks panicked: %v", pnc)
	}
	if err != nil {
		return "error", fmt.Sprintf("WriteBinaryBlocks returned error: %v", err)
	}
	var blocks []labels.BinaryBlock
	if len(out) > 0 {
		var rerr error
		p := vlib.Safely(func() { blocks, rerr = labels.ReceiveBinaryBlocks(bytes.NewReader(out)) })
		if p != nil {
			return "panic", fmt.Sprintf("ReceiveBinaryBlocks panicked on WriteBinaryBlocks output: %v", p)
		}
		if rerr != nil {
			return "mismatch", fmt.Sprintf("ReceiveBinaryBlocks cannot parse WriteBinaryBlocks output (%d bytes): %v", len(out), rerr)
		}
	}
	byOff := map[dvid.Point3d]*labels.BinaryBlock{}
	for i := range blocks {
		b := &blocks[i]
		if b.Label != main || !b.Size.Equals(size) {
			return "mismatch", fmt.Sprintf("binary block header: label %d size %v, expected label %d size %v", b.Label, b.Size, main, size)
		}
		if _, dup := byOff[b.Offset]; dup {
			return "mismatch", fmt.Sprintf("two binary blocks with offset %v", b.Offset)
		}
		byOff[b.Offset] = b
	}
	matched := 0
	for _, pb := range pbs {
		off := dvid.Point3d{pb.coord[0] * size[0], pb.coord[1] * size[1], pb.coord[2] * size[2]}
		bb := byOff[off]
		if bb != nil {
			matched++
			if len(bb.Voxels) != len(pb.arr) {
				return "mismatch", fmt.Sprintf("binary block at %v has %d voxels, expected %d", off, len(bb.Voxels), len(pb.arr))
			}
		}
		for vi, l := range pb.arr {
			_, want := lbls[l]
			got := bb != nil && bb.Voxels[vi]
			if got != want {
				kind := "mismatch:missing"
				if got {
					kind = "mismatch:extra"
				}
				return kind, fmt.Sprintf("block %v local voxel %v (label %d): binary mask=%v, expected %v (block present in output: %v)", pb.coord, c09Pt(vi, size), l, got, want, bb != nil)
			}
		}
	}
	if matched != len(blocks) {
		return "mismatch", fmt.Sprintf("%d binary blocks in output but only %d belong to processed blocks", len(blocks), matched)
	}
	return "", ""
}

// c09LabelsOf returns the distinct labels of arr in order of first appearance.
func c09LabelsOf(arr []uint64) []uint64 {
	seen := map[uint64]struct{}{}
	var out []uint64
	for _, l := range arr {
		if _, ok := seen[l]; !ok {
			seen[l] = struct{}{}
			out = append(out, l)
		}
	}
	return out
}

func c09Counts(arr []uint64) map[uint64]int64 {
	m := map[uint64]int64{}
	for _, l := range arr {
		if l != 0 {
			m[l]++
		}
	}
	return m
}

// c09CmpCounts compares a CalcNumLabels result with the counts on the arrays (label 0 is documented as not counted and ignored).
func c09CmpCounts(got map[uint64]int32, cur, prev map[uint64]int64) string {
	for l, n := range cur {
		if int64(got[l]) != n-prev[l] {
			return fmt.Sprintf("label %d: reported %d, array has %d", l, got[l], n-prev[l])
		}
	}
	for l, n := range prev {
		if int64(got[l]) != cur[l]-n {
			return fmt.Sprintf("label %d: reported %d, array has %d", l, got[l], cur[l]-n)
		}
	}
	for l, n := range got {
		if l != 0 && int64(n) != cur[l]-prev[l] {
			return fmt.Sprintf("label %d: reported %d, array has %d", l, n, cur[l]-prev[l])
		}
	}
	return ""
}

// views checks every view of blk (whose uncompressed truth is arr). vkey prefixes the violation keys.
func (r *c09Run) views(vkey string, blk *labels.Block, size dvid.Point3d, arr []uint64, level int, sparse []uint64, prev *c09PB, replay func() map[string]interface{}) {
	c := r.c
	nvox := len(arr)
	fail := func(view, kind, what string) {
		rp := replay()
		rp["view"] = view
		c.Violate(vkey+view+":"+kind, view+": "+what, rp)
	}

	// serialise -> parse
	var ser []byte
	var blk2 labels.Block
	if p := vlib.Safely(func() {
		ser, _ = blk.MarshalBinary()
		cp := make([]byte, len(ser))
		copy(cp, ser)
		if err := blk2.UnmarshalBinary(cp); err != nil {
			fail("marshal", "error", fmt.Sprintf("UnmarshalBinary(MarshalBinary(block)) failed: %v", err))
			return
		}
		out, sz := blk2.MakeLabelVolume()
		if !sz.Equals(size) {
			fail("marshal", "mismatch", fmt.Sprintf("re-parsed block has size %v, expected %v", sz, size))
		} else if d := c09DiffBytes(out, arr); d >= 0 {
			fail("marshal", "mismatch", fmt.Sprintf("re-parsed block decodes voxel %v differently, expected %d", c09Pt(d, size), arr[d]))
		}
		ser2, _ := blk2.MarshalBinary()
		if !bytes.Equal(ser, ser2) {
			fail("marshal", "mismatch", fmt.Sprintf("serialise -> parse -> serialise changed the bytes (%d vs %d bytes)", len(ser), len(ser2)))
		}
	}); p != nil {
		fail("marshal", "panic", fmt.Sprintf("panic: %v", p))
	}
	c.Eval(1)

	// label at a point
	pts := c09PtsFor(size)
	// positions queried: all of them, or the lattice i = 8j + (j/8)%8 (1 in 8, x offset rotating per row, so that every
	// sub-block and every x offset is visited) plus the first and last voxel
	var lattice []int
	if level&c09AllPts == 0 {
		for j := 0; j*8 < nvox; j++ {
			if i := j*8 + (j/8)%8; i < nvox {
				lattice = append(lattice, i)
			}
		}
		lattice = append(lattice, 0, nvox-1)
	}
	if p := vlib.Safely(func() {
		if lattice == nil {
			for i := 0; i < nvox; i++ {
				if got := blk.Value(pts[i]); got != arr[i] {
					fail("value", "mismatch", fmt.Sprintf("Value(%v) = %d, array has %d", pts[i], got, arr[i]))
					return
				}
			}
			c.Eval(int64(nvox))
			return
		}
		for _, i := range lattice {
			if got := blk.Value(pts[i]); got != arr[i] {
				fail("value", "mismatch", fmt.Sprintf("Value(%v) = %d, array has %d", pts[i], got, arr[i]))
				return
			}
		}
		c.Eval(int64(len(lattice)))
	}); p != nil {
		fail("value", "panic", fmt.Sprintf("panic: %v", p))
	}
	chkPts := func(order string, idx []int) {
		q := pts
		if idx != nil {
			q = make([]dvid.Point3d, len(idx))
			for j, i := range idx {
				q[j] = pts[i]
			}
		}
		if p := vlib.Safely(func() {
			got := blk.GetPointLabels(q)
			if len(got) != len(q) {
				fail("pointlabels", "mismatch", fmt.Sprintf("GetPointLabels returned %d labels for %d points (%s)", len(got), len(q), order))
				return
			}
			for j := range q {
				i := j
				if idx != nil {
					i = idx[j]
				}
				if got[j] != arr[i] {
					fail("pointlabels", "mismatch", fmt.Sprintf("GetPointLabels (%s, %d points) gives %d for %v, array has %d", order, len(q), got[j], q[j], arr[i]))
					return
				}
			}
		}); p != nil {
			fail("pointlabels", "panic", fmt.Sprintf("panic (%s): %v", order, p))
		}
		c.Eval(int64(len(q)))
	}
	if lattice == nil {
		chkPts("all points in array order", nil)
	} else {
		chkPts("1-in-8 lattice of points", lattice)
	}
	if level&c09Heavy != 0 {
		rev := make([]int, nvox)
		for i := range rev {
			rev[i] = nvox - 1 - i
		}
		chkPts("all points in reverse order", rev)
		var strided []int
		for s := 0; s < 7; s++ {
			for i := s; i < nvox; i += 7 {
				strided = append(strided, i)
			}
		}
		chkPts("all points in stride-7 order", strided)
		var one []int
		for i := 0; i < nvox; i += 61 {
			one = append(one[:0], i)
			chkPts("single point", one)
		}
	}

	// per-label voxel counts
	cur := c09Counts(arr)
	if p := vlib.Safely(func() {
		if d := c09CmpCounts(blk.CalcNumLabels(nil), cur, nil); d != "" {
			fail("counts", "mismatch", "CalcNumLabels(nil): "+d)
		}
		if prev != nil {
			if d := c09CmpCounts(blk.CalcNumLabels(prev.blk), cur, c09Counts(prev.arr)); d != "" {
				fail("counts", "mismatch", "CalcNumLabels(prev): "+d)
			}
		}
		if level&c09AllPts != 0 {
			if d := c09CmpCounts(blk.CalcNumLabels(blk), cur, cur); d != "" {
				fail("counts", "mismatch", "CalcNumLabels(same block): "+d)
			}
		}
	}); p != nil {
		fail("counts", "panic", fmt.Sprintf("panic: %v", p))
	}
	c.Eval(3)

	if level&c09Heavy != 0 {
		if p := vlib.Safely(func() {
			var w bytes.Buffer
			if err := blk.WriteLabelVolume(&w); err != nil {
				fail("writelabelvolume", "error", fmt.Sprintf("WriteLabelVolume: %v", err))
				return
			}
			got, ok := c09U64(w.Bytes())
			if !ok || len(got) != nvox {
				fail("writelabelvolume", "mismatch", fmt.Sprintf("WriteLabelVolume wrote %d bytes, expected %d", w.Len(), nvox*8))
			} else if d := c09FirstDiff(got, arr); d >= 0 {
				fail("writelabelvolume", "mismatch", fmt.Sprintf("WriteLabelVolume gives %d at %v, array has %d", got[d], c09Pt(d, size), arr[d]))
			}
		}); p != nil {
			fail("writelabelvolume", "panic", fmt.Sprintf("panic: %v", p))
		}
		c.Eval(1)
	}

	// sparse views
	if level&(c09Sparse|c09Heavy) == 0 || !r.sparseAllowed() {
		return
	}
	var sets []labels.Set
	present := c09LabelsOf(arr)
	if level&c09Heavy != 0 && len(present) <= 40 {
		for _, l := range present {
			sets = append(sets, labels.NewSet(l))
		}
	} else {
		seen := map[uint64]bool{}
		for _, l := range sparse {
			if !seen[l] {
				seen[l] = true
				sets = append(sets, labels.NewSet(l))
			}
		}
		if len(sets) == 0 {
			sets = append(sets, labels.NewSet(present[0]))
			if len(present) > 1 {
				sets = append(sets, labels.NewSet(present[len(present)-1]))
			}
		}
	}
	if len(present) >= 2 {
		sets = append(sets, labels.NewSet(present[0], present[len(present)-1]))
	}
	if len(present) >= 3 && level&c09Heavy != 0 {
		sets = append(sets, labels.NewSet(present...))
		sets = append(sets, labels.NewSet(present[1], present[2], 0xABCDEF0123))
	}
	absent := uint64(0x0123456789ABCDEF)
	sets = append(sets, labels.NewSet(absent))
	coords := []dvid.ChunkPoint3d{{0, 0, 0}}
	if level&c09Heavy != 0 {
		coords = append(coords, dvid.ChunkPoint3d{1, 2, 3})
	}
	for _, lbls := range sets {
		for _, co := range coords {
			pbs := []c09PB{{blk, arr, co}}
			if kind, what := r.checkRLE(lbls, pbs, size, nil); kind != "" {
				fail("rle", kind, fmt.Sprintf("labels %v, block coord %v: %s", c09SetStr(lbls), co, what))
			}
			var main uint64
			for main = range lbls {
				break
			}
			if kind, what := r.checkBinary(main, lbls, pbs, size); kind != "" {
				fail("binary", kind, fmt.Sprintf("labels %v, block coord %v: %s", c09SetStr(lbls), co, what))
			}
			c.Eval(2)
		}
	}
}

func c09SetStr(s labels.Set) string {
	var l []uint64
	for v := range s {
		l = append(l, v)
	}
	sort.Slice(l, func(i, j int) bool { return l[i] < l[j] })
	return fmt.Sprint(l)
}

// block compresses arr with MakeBlock and checks round trip and views. Returns the block (nil if the round trip failed).
func (r *c09Run) block(section string, size dvid.Point3d, arr []uint64, level int, sparse []uint64, prev *c09PB, params func() map[string]interface{}) *labels.Block {
	c := r.c
	replay := func() map[string]interface{} { return c09Replay(section, params(), size, arr) }
	var blk *labels.Block
	var err error
	in := make([]uint64, len(arr)) // MakeBlock promises not to share memory; give it a private copy and check it is not modified
	copy(in, arr)
	var got []byte
	var gsz dvid.Point3d
	if p := vlib.Safely(func() {
		blk, err = labels.MakeBlock(dvid.AliasUint64ToByte(in), size)
		if err != nil {
			return
		}
		got, gsz = blk.MakeLabelVolume()
	}); p != nil {
		c.Violate("roundtrip:panic", fmt.Sprintf("MakeBlock -> MakeLabelVolume panicked on a %v block: %v", size, p), replay())
		r.count(section, 1)
		c.Eval(1)
		return nil
	}
	r.count(section, 1)
	c.Eval(1)
	if err != nil {
		if (size[0]/8)*(size[1]/8)*(size[2]/8)%2 == 1 && len(c09LabelsOf(arr)) >= 2 {
			// structural class of its own: an odd number of sub-blocks puts the uint32 index table on a 2-byte boundary
			c.Violate("roundtrip:error:odd-subblock-count", fmt.Sprintf("MakeBlock refused a legal %v array with >= 2 labels (%d sub-blocks, an odd number): %v", size, (size[0]/8)*(size[1]/8)*(size[2]/8), err), replay())
			return nil
		}
		c.Violate("roundtrip:error", fmt.Sprintf("MakeBlock refused a legal %v array: %v", size, err), replay())
		return nil
	}
	if !gsz.Equals(size) || len(got) != len(arr)*8 {
		c.Violate("roundtrip:mismatch", fmt.Sprintf("MakeLabelVolume returned size %v (%d bytes), expected %v", gsz, len(got), size), replay())
		return nil
	}
	if d := c09DiffBytes(got, arr); d >= 0 {
		c.Violate("roundtrip:mismatch", fmt.Sprintf("MakeBlock -> MakeLabelVolume on a %v block: voxel %v was %d, decodes to %d", size, c09Pt(d, size), arr[d], binary.LittleEndian.Uint64(got[d*8:])), replay())
		return nil
	}
	if d := c09FirstDiff(in, arr); d >= 0 {
		c.Violate("roundtrip:input-modified", fmt.Sprintf("MakeBlock modified its input array at voxel %v", c09Pt(d, size)), replay())
	}
	if !blk.Size.Equals(size) {
		c.Violate("roundtrip:mismatch", fmt.Sprintf("Block.Size = %v, expected %v", blk.Size, size), replay())
		return nil
	}
	r.noteNontrivial(size, arr, blk)
	if level&c09Views != 0 {
		r.views("", blk, size, arr, level, sparse, prev, replay)
	}
	return blk
}

func (r *c09Run) outcome(blk *labels.Block) {
	if blk == nil {
		return
	}
	var widths [10]bool
	for _, n := range blk.NumSBLabels {
		widths[c09Bits(n)] = true
	}
	s := ""
	for b, on := range widths {
		if on {
			s += fmt.Sprintf("%d,", b)
		}
	}
	ser, _ := blk.MarshalBinary()
	r.c.Outcome(fmt.Sprintf("widths=%s labels=%d bytes=%d", s, len(blk.Labels), len(ser)))
}

func runC09(c *vlib.Ctx) {
	r := newC09Run(c)
	cpu := map[string]string{}
	only := getenv("VERIF_C09_ONLY") // development aid: comma-separated section names; recorded in the evidence when set
	if only != "" {
		c.Set("sections_restricted_by_env", only)
		c.Cap("VERIF_C09_ONLY=" + only)
	}
	timed := func(name string, f func(*c09Run)) {
		if only != "" && !strings.Contains(","+only+",", ","+name+",") {
			return
		}
		t0, w0 := c09CPU(), time.Now()
		f(r)
		cpu[name] = fmt.Sprintf("cpu %.1fs wall %.1fs", c09CPU()-t0, time.Since(w0).Seconds())
	}
	timed("E4", c09E4)
	timed("E2", c09E2)
	timed("E1", c09E1)
	timed("E3", c09E3)
	timed("E5", c09E5)
	c.Set("cost_by_section", cpu)
	var nt int64
	for i := range r.seen {
		nt += int64(len(r.seen[i]))
	}
	c.NontrivialDistinct(nt)
	secs := map[string]int64{}
	r.sections.Range(func(k, v interface{}) bool { secs[k.(string)] = atomic.LoadInt64(v.(*int64)); return true })
	c.Set("blocks_per_section", secs)
	c.Set("rule", "non-trivial = distinct (block size, label array) by 64-bit FNV-1a hash in which at least one 8x8x8 sub-block holds >= 2 labels (so packed index bits are actually written and read); evaluations = number of view evaluations (one per block for round trip / marshal / counts / each sparse output, one per voxel for Value and GetPointLabels); outcomes = distinct (set of index widths used, label-table length, serialised length)")
	c.Assume("label arrays outside the stated alphabets (arbitrary contents of all 4096+ voxels at once) are not covered; the enumeration is complete over the stated products only")
	c.Assume("sparse outputs are compared as voxel sets: run order, run maximality and overlapping runs are not constrained; label 0 is ignored in CalcNumLabels (documented as not counted)")
	c.Assume("GetPointLabels / Value are only queried at points inside the block (the property speaks of views of the array)")
	c.Assume("per block: round trip, serialise/parse, CalcNumLabels(nil) always; Value and GetPointLabels at every voxel position on all E3 (<= 48^3), E4, E5 blocks and on 1 in 8 of the E1/E2 blocks, on the others at a 1-in-8 lattice of positions that visits every sub-block and every x offset; sparse outputs (WriteRLEs, WriteBinaryBlocks) on all E3/E4/E5 blocks and 1 in 16 of the E1/E2 blocks")
	if atomic.LoadInt64(&r.panics) >= 2000 {
		c.Cap("sparse writers panicked 2000 times; further sparse-view evaluations were skipped")
	}
}

// ---------------------------------------------------------------------------------------------------------------------
// E1: one sub-block, all index widths.

func c09KMenu(thorough bool) []int {
	if thorough {
		out := make([]int, 512)
		for i := range out {
			out[i] = i + 1
		}
		return out
	}
	m := map[int]bool{}
	for k := 1; k <= 18; k++ {
		m[k] = true
	}
	for _, p := range []int{32, 64, 128, 256, 512} {
		for d := -2; d <= 1; d++ {
			if p+d <= 512 {
				m[p+d] = true
			}
		}
	}
	for _, k := range []int{23, 47, 100, 191, 300, 383, 449, 500, 509} {
		m[k] = true
	}
	var out []int
	for k := range m {
		out = append(out, k)
	}
	sort.Ints(out)
	return out
}

// c09IndexVals is the menu of index values for k labels (distinct, in menu order).
func c09IndexVals(k int) []int {
	raw := []int{0, 1, k / 2, k - 2, k - 1, 0x155, 0x0AA}
	var out []int
	seen := map[int]bool{}
	for _, v := range raw {
		if v < 0 {
			continue
		}
		v %= k
		if !seen[v] {
			seen[v] = true
			out = append(out, v)
		}
	}
	return out
}

// c09Table returns n distinct label values: the six special values first (rotated by rot), then large odd multiples.
func c09Table(n, rot int) []uint64 {
	t := make([]uint64, 0, n)
	seen := map[uint64]bool{}
	for i := 0; i < 6 && len(t) < n; i++ {
		v := c09Specials[(i+rot)%6]
		seen[v] = true
		t = append(t, v)
	}
	for j := uint64(1); len(t) < n; j++ {
		v := 1000 + j*0x9E3779B97F4A7C15
		if !seen[v] {
			seen[v] = true
			t = append(t, v)
		}
	}
	return t
}

func c09E1(r *c09Run) {
	c := r.c
	ks := c09KMenu(c.Thorough())
	size := dvid.Point3d{16, 16, 16}
	type job struct{ k, p int }
	var jobs []job
	for _, k := range ks {
		for p := 0; p < 512; p++ {
			jobs = append(jobs, job{k, p})
		}
	}
	c.Set("E1", fmt.Sprintf("k in %d values (%d..%d) x voxel position p in 0..511 x ordered pairs (i,j) of index values from {0,1,k/2,k-2,k-1,0x155 mod k,0x0AA mod k} written at (p,p+1) over the base pattern q -> q mod k; the <=7 values of j occupy 7 sub-blocks of one 16^3 block (one more sub-block is solid), labels from a table that starts with the six special values", len(ks), ks[0], ks[len(ks)-1]))
	// sub-block voxel q of sub-block s -> array index
	sbIndex := func(s, q int) int {
		sx, sy, sz := s&1, (s>>1)&1, s>>2
		x, y, z := q&7, (q>>3)&7, q>>6
		return (sz*8+z)*256 + (sy*8+y)*16 + sx*8 + x
	}
	var sampled int32
	vlib.Par(len(jobs), 16, func(ji int) {
		k, p := jobs[ji].k, jobs[ji].p
		vals := c09IndexVals(k)
		table := c09Table(k+5, p%6)
		arr := make([]uint64, 4096)
		for _, iv := range vals {
			for s := 0; s < 8; s++ {
				slot := (s + p) % 8
				lab := func(v int) uint64 { return table[(v+s*3)%(k+5)] }
				switch {
				case s < len(vals):
					for q := 0; q < 512; q++ {
						arr[sbIndex(slot, q)] = lab(q % k)
					}
					arr[sbIndex(slot, p)] = lab(iv)
					if p < 511 {
						arr[sbIndex(slot, p+1)] = lab(vals[s])
					}
				case s == len(vals):
					for q := 0; q < 512; q++ {
						arr[sbIndex(slot, q)] = table[0]
					}
				default:
					for q := 0; q < 512; q++ {
						arr[sbIndex(slot, q)] = lab(q % k)
					}
				}
			}
			level := c09Views
			if (p+iv)%8 == 0 || k <= 2 {
				level |= c09AllPts
			}
			if p%16 == int(iv)%16 || k <= 3 {
				level |= c09Sparse
			}
			if p%128 == 5 && iv == vals[0] {
				level |= c09Heavy | c09AllPts
			}
			sparse := []uint64{arr[sbIndex(p%8, p)], table[(k/2)%(k+5)]}
			blk := r.block("E1", size, arr, level, sparse, nil, func() map[string]interface{} {
				return map[string]interface{}{"k": k, "p": p, "i": iv, "j_values_per_subblock": vals, "table_rotation": p % 6}
			})
			if p == 0 || p == 255 {
				r.outcome(blk)
			}
			if k == 5 && p == 3 && iv == 2 && atomic.CompareAndSwapInt32(&sampled, 0, 1) {
				c.Sample(map[string]interface{}{"section": "E1", "k": 5, "p": 3, "i": 2, "what": "16^3 block, 7 sub-blocks with 5 labels each (3-bit indices) where voxels 3 and 4 are overwritten with index pairs (2,j), one solid sub-block; round trip, marshal, Value x4096, GetPointLabels, CalcNumLabels agree with the array"})
			}
		}
	})
}

// ---------------------------------------------------------------------------------------------------------------------
// E2: complete small alphabets over sub-block faces.

func c09E2(r *c09Run) {
	c := r.c
	size := dvid.Point3d{16, 16, 16}
	A, B, C, D := uint64(7), c09Max, uint64(0), uint64(1)<<63
	rows := [][2]int{{0, 0}, {7, 8}} // (y,z) rows touching sub-block faces
	if c.Thorough() {
		rows = nil
		for _, y := range []int{0, 7, 8, 15} {
			for _, z := range []int{0, 7, 8, 15} {
				rows = append(rows, [2]int{y, z})
			}
		}
	}
	type job struct {
		nlab, win, x0 int
		row           [2]int
		rest          uint64
	}
	var jobs []job
	for _, row := range rows {
		for x0 := 0; x0 <= 2; x0++ {
			jobs = append(jobs, job{2, 14, x0, row, A})
		}
		for x0 := 0; x0 <= 7; x0++ {
			rest := A
			if x0%2 == 1 {
				rest = D // a fourth label: the touched sub-blocks then hold 4 labels (2-bit indices)
			}
			jobs = append(jobs, job{3, 9, x0, row, rest})
		}
	}
	c.Set("E2", fmt.Sprintf("all 2^14 assignments of {A,B} to 14 consecutive voxels (x0 in 0..2) and all 3^9 assignments of {A,B,C} to 9 consecutive voxels (x0 in 0..7) on %d (y,z) rows touching sub-block faces, rest of the 16^3 block solid (A, or a fourth label); all 3^8 and 4^8 assignments to the 2x2x2 corner cube shared by the 8 sub-blocks; A=7, B=2^64-1, C=0, D=2^63", len(rows)))
	alpha := []uint64{A, B, C}
	var parts []func()
	for _, j := range jobs {
		j := j
		total := 1
		for i := 0; i < j.win; i++ {
			total *= j.nlab
		}
		const chunk = 2048
		for lo := 0; lo < total; lo += chunk {
			lo := lo
			hi := lo + chunk
			if hi > total {
				hi = total
			}
			parts = append(parts, func() {
				arr := make([]uint64, 4096)
				for a := lo; a < hi; a++ {
					for i := range arr {
						arr[i] = j.rest
					}
					v := a
					base := j.row[1]*256 + j.row[0]*16 + j.x0
					for i := 0; i < j.win; i++ {
						arr[base+i] = alpha[v%j.nlab]
						v /= j.nlab
					}
					level := c09Views
					if a%8 == 3 {
						level |= c09AllPts
					}
					if a%16 == 0 {
						level |= c09Sparse
					}
					if a%1024 == 77 {
						level |= c09Heavy | c09AllPts
					}
					blk := r.block("E2", size, arr, level, []uint64{A, B}, nil, func() map[string]interface{} {
						return map[string]interface{}{"window": j.win, "alphabet": j.nlab, "x0": j.x0, "y": j.row[0], "z": j.row[1], "assignment_base_n": a, "rest": fmt.Sprint(j.rest)}
					})
					if a%4096 == 0 {
						r.outcome(blk)
					}
				}
			})
		}
	}
	// corner cube
	for _, nlab := range []int{3, 4} {
		nlab := nlab
		total := 1
		for i := 0; i < 8; i++ {
			total *= nlab
		}
		cubeAlpha := []uint64{A, B, C, D}
		const chunk = 1024
		for lo := 0; lo < total; lo += chunk {
			lo := lo
			hi := lo + chunk
			if hi > total {
				hi = total
			}
			parts = append(parts, func() {
				arr := make([]uint64, 4096)
				for a := lo; a < hi; a++ {
					for i := range arr {
						arr[i] = A
					}
					v := a
					for i := 0; i < 8; i++ {
						x, y, z := 7+(i&1), 7+((i>>1)&1), 7+(i>>2)
						arr[z*256+y*16+x] = cubeAlpha[v%nlab]
						v /= nlab
					}
					level := c09Views
					if a%4 == 1 {
						level |= c09AllPts
					}
					if a%4 == 0 {
						level |= c09Sparse
					}
					r.block("E2", size, arr, level, []uint64{B, C}, nil, func() map[string]interface{} {
						return map[string]interface{}{"corner_cube_alphabet": nlab, "assignment_base_n": a}
					})
				}
			})
		}
	}
	vlib.Par(len(parts), 16, func(i int) { parts[i]() })
	c.Sample(map[string]interface{}{"section": "E2", "what": "row y=7,z=8, x0=1: voxels x=1..14 take every one of the 16384 assignments of {7, 2^64-1}, rest of the block 7; the run crosses the sub-block face at x=8"})
}

// ---------------------------------------------------------------------------------------------------------------------
// E3: geometry.

func c09Content(kind string, size dvid.Point3d) []uint64 {
	n := int(size.Prod())
	arr := make([]uint64, n)
	nx, ny := int(size[0]), int(size[1])
	gx, gy := nx/8, ny/8
	for i := range arr {
		x, y, z := i%nx, (i/nx)%ny, i/(nx*ny)
		switch kind {
		case "solid0":
		case "solidL":
			arr[i] = c09Max - 1
		case "checker":
			arr[i] = uint64(3 + 5*((x+y+z)%2))
		case "per-subblock":
			arr[i] = uint64((z/8)*gx*gy + (y/8)*gx + x/8) // sub-block 0 is label 0
		case "512-first":
			if x < 8 && y < 8 && z < 8 {
				arr[i] = 1 + uint64(z*64+y*8+x)<<23
			} else {
				arr[i] = 1 << 32
			}
		case "512-last":
			if x >= nx-8 && y >= ny-8 && z >= int(size[2])-8 {
				arr[i] = c09Max - uint64((z%8)*64+(y%8)*8+x%8)
			} else {
				arr[i] = 0
			}
		case "coords":
			arr[i] = 1 + uint64(x) + uint64(y)<<20 + uint64(z)<<40
		case "stripes": // 3 labels along x, 5 along y, 7 along z: every sub-block has a non-power-of-two label count
			arr[i] = uint64(x%3 + 3*(y%5) + 15*(z%7))
		}
	}
	return arr
}

func c09E3(r *c09Run) {
	c := r.c
	edges := []int32{16, 24, 32, 40, 64}
	if c.Thorough() {
		edges = []int32{16, 24, 32, 40, 48, 56, 64, 72}
	}
	var sizes []dvid.Point3d
	for _, z := range edges {
		for _, y := range edges {
			for _, x := range edges {
				sizes = append(sizes, dvid.Point3d{x, y, z})
			}
		}
	}
	sort.SliceStable(sizes, func(i, j int) bool { return sizes[i].Prod() < sizes[j].Prod() })
	maxes := []dvid.Point3d{{labels.MaxBlockSize, 16, 16}, {16, labels.MaxBlockSize, 16}, {16, 16, labels.MaxBlockSize}}
	if c.Thorough() {
		maxes = append(maxes, dvid.Point3d{labels.MaxBlockSize, 24, 16}, dvid.Point3d{512, 16, 512})
	}
	kinds := []string{"solid0", "solidL", "checker", "per-subblock", "512-first", "512-last", "stripes"}
	c.Set("E3", fmt.Sprintf("every block size in %v^3 (%d sizes, cubic or not) and the maximum edge %v, contents %v (+ every voxel a distinct label for volumes <= 40^3); SubvolumeToBlock at all 27 block offsets of 3x3x3-block subvolumes (aligned at the origin, at negative coordinates, and unaligned) whose voxels encode their coordinates", edges, len(sizes), maxes, kinds))
	type job struct {
		size dvid.Point3d
		kind string
	}
	var jobs []job
	for _, s := range append(append([]dvid.Point3d{}, sizes...), maxes...) {
		for _, k := range kinds {
			jobs = append(jobs, job{s, k})
		}
		if s.Prod() <= 40*40*40 {
			jobs = append(jobs, job{s, "coords"})
		}
	}
	// smallest first, sequentially, round trip only: a size-dependent failure is reported on the smallest size
	for _, s := range sizes {
		r.block("E3", s, c09Content("checker", s), 0, nil, nil, func() map[string]interface{} { return map[string]interface{}{"content": "checker"} })
	}
	// largest first so that the parallel tail is short
	sort.SliceStable(jobs, func(i, j int) bool { return jobs[i].size.Prod() > jobs[j].size.Prod() })
	vlib.Par(len(jobs), 16, func(i int) {
		j := jobs[i]
		arr := c09Content(j.kind, j.size)
		level := c09Views | c09Sparse
		if j.size.Prod() <= 40*40*40 || j.kind == "checker" || j.kind == "stripes" {
			level |= c09Heavy
		}
		if j.size.Prod() <= 48*48*48 {
			level |= c09AllPts // Value is O(#sub-blocks) per call: larger blocks are queried on the 1-in-8 lattice
		}
		prevArr := c09Content("checker", j.size)
		var prev *c09PB
		if pb, err := labels.MakeBlock(dvid.AliasUint64ToByte(prevArr), j.size); err == nil {
			prev = &c09PB{blk: pb, arr: prevArr}
		}
		blk := r.block("E3", j.size, arr, level, nil, prev, func() map[string]interface{} {
			return map[string]interface{}{"content": j.kind}
		})
		r.outcome(blk)
	})
	c.Sample(map[string]interface{}{"section": "E3", "what": "block size (24,16,40), content 'stripes' (label = x%3 + 3*(y%5) + 15*(z%7)): all views agree; CalcNumLabels(prev) with prev = checkerboard block of the same size"})

	// SubvolumeToBlock
	bsizes := []dvid.Point3d{{16, 16, 16}, {16, 24, 32}, {32, 16, 24}}
	if c.Thorough() {
		bsizes = append(bsizes, dvid.Point3d{32, 32, 32}, dvid.Point3d{40, 24, 16}, dvid.Point3d{64, 64, 64})
	}
	type svjob struct {
		bs             dvid.Point3d
		first          dvid.ChunkPoint3d // block coordinate of the first fully contained block
		lead, trail    dvid.Point3d      // extra voxels before the first / after the last block
		bx, by, bz     int32
		contentOffsets bool
	}
	var svjobs []svjob
	for _, bs := range bsizes {
		for _, first := range []dvid.ChunkPoint3d{{0, 0, 0}, {-3, -2, -1}, {5, -1, 2}} {
			for _, pad := range [][2]dvid.Point3d{{{0, 0, 0}, {0, 0, 0}}, {{3, 5, 7}, {1, 0, 2}}, {{0, 9, 0}, {8, 8, 8}}} {
				for bz := int32(0); bz < 3; bz++ {
					for by := int32(0); by < 3; by++ {
						for bx := int32(0); bx < 3; bx++ {
							svjobs = append(svjobs, svjob{bs: bs, first: first, lead: pad[0], trail: pad[1], bx: bx, by: by, bz: bz})
						}
					}
				}
			}
		}
	}
	// the subvolume arrays are shared between the 27 jobs of one (bs, first, pad)
	type svkey struct {
		bs          dvid.Point3d
		first       dvid.ChunkPoint3d
		lead, trail dvid.Point3d
	}
	var svmu sync.Mutex
	svcache := map[svkey][]uint64{}
	getSV := func(k svkey) ([]uint64, dvid.Point3d, dvid.Point3d) {
		start := dvid.Point3d{k.first[0]*k.bs[0] - k.lead[0], k.first[1]*k.bs[1] - k.lead[1], k.first[2]*k.bs[2] - k.lead[2]}
		vsize := dvid.Point3d{3*k.bs[0] + k.lead[0] + k.trail[0], 3*k.bs[1] + k.lead[1] + k.trail[1], 3*k.bs[2] + k.lead[2] + k.trail[2]}
		svmu.Lock()
		defer svmu.Unlock()
		if a, ok := svcache[k]; ok {
			return a, start, vsize
		}
		a := make([]uint64, vsize.Prod())
		i := 0
		for z := int32(0); z < vsize[2]; z++ {
			for y := int32(0); y < vsize[1]; y++ {
				for x := int32(0); x < vsize[0]; x++ {
					// the label encodes the DVID coordinate (offset to be positive), every voxel distinct
					a[i] = 1 + uint64(x+start[0]+4096) + uint64(y+start[1]+4096)<<20 + uint64(z+start[2]+4096)<<40
					i++
				}
			}
		}
		svcache[k] = a
		return a, start, vsize
	}
	vlib.Par(len(svjobs), 16, func(i int) {
		j := svjobs[i]
		sv, start, vsize := getSV(svkey{j.bs, j.first, j.lead, j.trail})
		idx := dvid.IndexZYX{j.first[0] + j.bx, j.first[1] + j.by, j.first[2] + j.bz}
		nvox := int(j.bs.Prod())
		want := make([]uint64, nvox)
		bo := dvid.Point3d{idx[0]*j.bs[0] - start[0], idx[1]*j.bs[1] - start[1], idx[2]*j.bs[2] - start[2]}
		k := 0
		for z := int32(0); z < j.bs[2]; z++ {
			for y := int32(0); y < j.bs[1]; y++ {
				for x := int32(0); x < j.bs[0]; x++ {
					want[k] = sv[int64(bo[2]+z)*int64(vsize[1])*int64(vsize[0])+int64(bo[1]+y)*int64(vsize[0])+int64(bo[0]+x)]
					k++
				}
			}
		}
		replay := func() map[string]interface{} {
			return map[string]interface{}{"section": "E3-subvolume", "block_size": j.bs, "subvolume_start": start, "subvolume_size": vsize, "block_index": idx,
				"content": "label = 1 + (x+4096) + (y+4096)<<20 + (z+4096)<<40 of the DVID coordinate"}
		}
		var blk *labels.Block
		var err error
		var got []uint64
		if p := vlib.Safely(func() {
			blk, err = labels.SubvolumeToBlock(dvid.NewSubvolume(start, vsize), dvid.AliasUint64ToByte(sv), idx, j.bs)
			if err == nil {
				out, _ := blk.MakeLabelVolume()
				got, _ = c09U64(out)
			}
		}); p != nil {
			c.Violate("subvolume:panic", fmt.Sprintf("SubvolumeToBlock panicked: subvolume %v+%v, block %v of size %v: %v", start, vsize, idx, j.bs, p), replay())
			return
		}
		r.count("E3-subvolume", 1)
		c.Eval(1)
		if err != nil {
			c.Violate("subvolume:error", fmt.Sprintf("SubvolumeToBlock refused a block inside the subvolume: subvolume %v+%v, block %v of size %v: %v", start, vsize, idx, j.bs, err), replay())
			return
		}
		if d := c09FirstDiff(got, want); d != -1 {
			c.Violate("subvolume:mismatch", fmt.Sprintf("SubvolumeToBlock(subvolume %v+%v, block %v of size %v): local voxel %v decodes to %d, subvolume has %d", start, vsize, idx, j.bs, c09Pt(d, j.bs), got[d], want[d]), replay())
			return
		}
		r.noteNontrivial(j.bs, want, blk)
		if j.bx == j.by && j.by == j.bz && nvox <= 32*32*32 {
			r.views("subvolume:", blk, j.bs, want, c09Views|c09AllPts, nil, nil, replay)
		}
	})
	c.Sample(map[string]interface{}{"section": "E3-subvolume", "what": "block size (16,24,32), subvolume starting at (-51,-53,-39) (3 blocks + 3,5,7 leading and 1,0,2 trailing voxels), block index (-2,-1,0): SubvolumeToBlock -> MakeLabelVolume equals the sub-array"})

	// streams of blocks through one OutputOp: runs continue across x-adjacent blocks, other blocks flush
	c09Streams(r)
}

// c09Streams pushes several positioned blocks through one WriteRLEs / WriteBinaryBlocks call.
func c09Streams(r *c09Run) {
	c := r.c
	size := dvid.Point3d{16, 16, 16}
	L := uint64(1) << 32
	mk := func(kind string) c09PB {
		var arr []uint64
		switch kind {
		case "solid":
			arr = make([]uint64, 4096)
			for i := range arr {
				arr[i] = L
			}
		case "other":
			arr = make([]uint64, 4096)
			for i := range arr {
				arr[i] = 9
			}
		case "left": // label on x >= 5
			arr = make([]uint64, 4096)
			for i := range arr {
				if i%16 >= 5 {
					arr[i] = L
				} else {
					arr[i] = 9
				}
			}
		case "right": // label on x <= 10, and label 0 elsewhere
			arr = make([]uint64, 4096)
			for i := range arr {
				if i%16 <= 10 {
					arr[i] = L
				}
			}
		case "mixed":
			arr = c09Content("stripes", size)
			for i := range arr {
				if arr[i]%4 == 1 {
					arr[i] = L
				}
			}
		}
		blk := r.block("E3-stream-blocks", size, arr, 0, nil, nil, func() map[string]interface{} { return map[string]interface{}{"stream_block": kind} })
		return c09PB{blk: blk, arr: arr}
	}
	kinds := []string{"solid", "other", "left", "right", "mixed"}
	blocks := map[string]c09PB{}
	for _, k := range kinds {
		blocks[k] = mk(k)
		if blocks[k].blk == nil {
			return // the round trip of a building block failed and was reported; its sparse views would only repeat that
		}
	}
	// all ordered triples of kinds at coordinates (0,0,0),(1,0,0),(2,0,0); plus layouts with a gap / a new row
	layouts := [][]dvid.ChunkPoint3d{{{0, 0, 0}, {1, 0, 0}, {2, 0, 0}}, {{0, 0, 0}, {2, 0, 0}, {3, 0, 0}}, {{1, 1, 0}, {2, 1, 0}, {0, 2, 0}}, {{3, 2, 1}, {4, 2, 1}, {5, 2, 1}}}
	var n int64
	for _, lay := range layouts {
		for _, a := range kinds {
			for _, b := range kinds {
				for _, d := range kinds {
					pbs := []c09PB{blocks[a], blocks[b], blocks[d]}
					for i := range pbs {
						pbs[i].coord = lay[i]
					}
					for _, lbls := range []labels.Set{labels.NewSet(L), labels.NewSet(L, 9)} {
						rp := func() map[string]interface{} {
							return map[string]interface{}{"section": "E3-stream", "blocks": []string{a, b, d}, "coords": lay, "labels": c09SetStr(lbls)}
						}
						if kind, what := r.checkRLE(lbls, pbs, size, nil); kind != "" {
							c.Violate("stream:rle:"+kind, fmt.Sprintf("WriteRLEs over blocks %v at %v, labels %s: %s", []string{a, b, d}, lay, c09SetStr(lbls), what), rp())
						}
						if kind, what := r.checkBinary(L, lbls, pbs, size); kind != "" {
							c.Violate("stream:binary:"+kind, fmt.Sprintf("WriteBinaryBlocks over blocks %v at %v, labels %s: %s", []string{a, b, d}, lay, c09SetStr(lbls), what), rp())
						}
						n += 2
					}
				}
			}
		}
	}
	c.Eval(n)
	r.count("E3-stream", n)

	// exact voxel bounds: every combination of per-axis (min,max) from a menu, on the mixed and left blocks at two coordinates
	type mm struct{ lo, hi int32 }
	menu := []mm{{-100, 100}, {3, 100}, {-100, 12}, {5, 10}, {8, 8}, {7, 8}, {5, 100}, {12, 100}, {9, 14}}
	var m int64
	for _, bkind := range []string{"mixed", "left", "right", "solid"} {
		for _, co := range []dvid.ChunkPoint3d{{0, 0, 0}, {2, 1, 3}} {
			pb := blocks[bkind]
			pb.coord = co
			for _, bx := range menu {
				for _, by := range menu {
					for _, bz := range menu {
						box := &c09Box{min: dvid.Point3d{co[0]*16 + bx.lo, co[1]*16 + by.lo, co[2]*16 + bz.lo}, max: dvid.Point3d{co[0]*16 + bx.hi, co[1]*16 + by.hi, co[2]*16 + bz.hi}}
						if kind, what := r.checkRLE(labels.NewSet(L), []c09PB{pb}, size, box); kind != "" {
							c.Violate("bounds:rle:"+kind, fmt.Sprintf("WriteRLEs with exact voxel bounds %v..%v on block %q at %v: %s", box.min, box.max, bkind, co, what),
								map[string]interface{}{"section": "E3-bounds", "block": bkind, "coord": co, "min": box.min, "max": box.max})
						}
						m++
					}
				}
			}
		}
	}
	c.Eval(m)
	r.count("E3-bounds", m)

	// negative block coordinates (DVID space is signed); reported under its own key
	for _, kind := range []string{"solid", "left", "mixed"} {
		for _, co := range []dvid.ChunkPoint3d{{-1, 0, 0}, {0, -1, 0}, {0, 0, -1}, {-2, -3, -1}} {
			pb := blocks[kind]
			pb.coord = co
			rp := map[string]interface{}{"section": "E3-negative", "block": kind, "coord": co}
			if k, what := r.checkRLE(labels.NewSet(L), []c09PB{pb}, size, nil); k != "" {
				c.Violate("negative-coord:rle:"+k, fmt.Sprintf("WriteRLEs on block %q at negative block coordinate %v: %s", kind, co, what), rp)
			}
			if k, what := r.checkBinary(L, labels.NewSet(L), []c09PB{pb}, size); k != "" {
				c.Violate("negative-coord:binary:"+k, fmt.Sprintf("WriteBinaryBlocks on block %q at negative block coordinate %v: %s", kind, co, what), rp)
			}
			c.Eval(2)
		}
	}
}

// ---------------------------------------------------------------------------------------------------------------------
// E4: label values in every role.

func c09E4(r *c09Run) {
	c := r.c
	size := dvid.Point3d{16, 16, 16}
	patterns := []string{"solid", "first-voxel", "leading-run", "whole-subblock", "last-voxel", "alternate", "every-subblock-first", "trailing-subblock"}
	c.Set("E4", fmt.Sprintf("every ordered pair (a,b) and triple (a,b,c) of label values %v in the roles background / foreground / third label of the patterns %v, on 16^3 blocks and one (24,16,32) block", c09Specials, patterns))
	type job struct {
		a, b, cc uint64
		three    bool
		pat      string
		size     dvid.Point3d
	}
	var jobs []job
	for _, sz := range []dvid.Point3d{size, {24, 16, 32}} {
		for _, a := range c09Specials {
			for _, b := range c09Specials {
				for _, p := range patterns {
					jobs = append(jobs, job{a: a, b: b, pat: p, size: sz})
					if a != b {
						for _, cc := range c09Specials {
							if cc != a && cc != b {
								jobs = append(jobs, job{a: a, b: b, cc: cc, three: true, pat: p, size: sz})
							}
						}
					}
				}
			}
		}
	}
	var sampled int32
	vlib.Par(len(jobs), 16, func(i int) {
		j := jobs[i]
		n := int(j.size.Prod())
		nx, ny := int(j.size[0]), int(j.size[1])
		arr := make([]uint64, n)
		for i := range arr {
			arr[i] = j.a
		}
		at := func(x, y, z int) int { return z*nx*ny + y*nx + x }
		switch j.pat {
		case "solid":
			for i := range arr {
				arr[i] = j.b
			}
		case "first-voxel":
			arr[at(8, 8, 0)] = j.b
		case "leading-run":
			for x := 8; x < 11; x++ {
				arr[at(x, 0, 8)] = j.b
			}
		case "whole-subblock":
			for z := 8; z < 16; z++ {
				for y := 0; y < 8; y++ {
					for x := 8; x < 16; x++ {
						arr[at(x, y, z)] = j.b
					}
				}
			}
		case "last-voxel":
			arr[n-1] = j.b
		case "alternate":
			for i := range arr {
				if i%2 == 1 {
					arr[i] = j.b
				}
			}
		case "every-subblock-first":
			for z := 0; z < int(j.size[2]); z += 8 {
				for y := 0; y < ny; y += 8 {
					for x := 0; x < nx; x += 8 {
						arr[at(x, y, z)] = j.b
					}
				}
			}
		case "trailing-subblock":
			for z := int(j.size[2]) - 8; z < int(j.size[2]); z++ {
				for y := ny - 8; y < ny; y++ {
					for x := nx - 8; x < nx; x++ {
						arr[at(x, y, z)] = j.b
					}
				}
			}
		}
		if j.three {
			// third label: second voxel of the first sub-block and the voxel after the foreground's first appearance
			arr[1] = j.cc
			arr[at(9, 8, 1)] = j.cc
			arr[n-2] = j.cc
		}
		blk := r.block("E4", j.size, arr, c09Views|c09Sparse|c09Heavy|c09AllPts, nil, nil, func() map[string]interface{} {
			return map[string]interface{}{"background": fmt.Sprint(j.a), "foreground": fmt.Sprint(j.b), "third": fmt.Sprint(j.cc), "three_labels": j.three, "pattern": j.pat}
		})
		r.outcome(blk)
		if j.pat == "leading-run" && j.a == 1 && j.b == c09Max && !j.three && atomic.CompareAndSwapInt32(&sampled, 0, 1) {
			c.Sample(map[string]interface{}{"section": "E4", "what": "16^3 block of label 1 with voxels (8..10, 0, 8) = 2^64-1 (the leading run of sub-block (1,0,1)): round trip and all views agree"})
		}
	})
}

// ---------------------------------------------------------------------------------------------------------------------
// E5: the views on compressed forms whose label table has aliased slots.

// c09Canon rewrites blk in place so that its label table is in the given order (perm[i] = new position of the label that
// is i-th in ascending order). Any table order is a legal encoding (MakeBlock's own order is Go map order); fixing it
// makes order-dependent behaviour reproducible and lets the check enumerate the orders.
func c09Canon(blk *labels.Block, perm []int) {
	n := len(blk.Labels)
	if n < 2 {
		return
	}
	type lv struct {
		l   uint64
		old int
	}
	ls := make([]lv, n)
	for i, l := range blk.Labels {
		ls[i] = lv{l, i}
	}
	sort.SliceStable(ls, func(i, j int) bool { return ls[i].l < ls[j].l })
	newpos := make([]uint32, n)
	vals := make([]uint64, n)
	for rank, e := range ls {
		np := rank
		if perm != nil && rank < len(perm) {
			np = perm[rank]
		}
		newpos[e.old] = uint32(np)
		vals[np] = e.l
	}
	copy(blk.Labels, vals)
	for i, ix := range blk.SBIndices {
		blk.SBIndices[i] = newpos[ix]
	}
}

func c09Perms(n int) [][]int {
	if n == 1 {
		return [][]int{{0}}
	}
	var out [][]int
	for _, p := range c09Perms(n - 1) {
		for pos := 0; pos <= len(p); pos++ {
			q := append(append(append([]int{}, p[:pos]...), n-1), p[pos:]...)
			out = append(out, q)
		}
	}
	return out
}

func c09E5(r *c09Run) {
	c := r.c
	size := dvid.Point3d{16, 16, 16}
	a, b, d := uint64(5), uint64(1)<<40, c09Max
	// base arrays with 3 and 4 labels: some sub-blocks with all labels, some with two, some solid
	mkArr := func(kind int, withZero bool) []uint64 {
		arr := make([]uint64, 4096)
		lab := []uint64{a, b, d}
		if withZero {
			lab = []uint64{a, b, d, 0}
		}
		for i := range arr {
			x, y, z := i%16, (i/16)%16, i/256
			sb := (z/8)*4 + (y/8)*2 + x/8
			switch {
			case sb == 0:
				arr[i] = lab[(x+y+z+kind)%len(lab)]
			case sb == 3:
				arr[i] = lab[(x+kind)%2]
			case sb == 5:
				arr[i] = lab[1+(y+z)%2]
			case sb == 6:
				arr[i] = lab[(i/3+kind)%len(lab)]
			default:
				arr[i] = lab[(sb+kind)%len(lab)]
			}
		}
		return arr
	}
	type mut struct {
		name string
		do   func(blk *labels.Block, arr []uint64) (*labels.Block, []uint64, error)
	}
	repl := func(from, to uint64) mut {
		return mut{fmt.Sprintf("ReplaceLabel(%d->%d)", from, to), func(blk *labels.Block, arr []uint64) (*labels.Block, []uint64, error) {
			out, _, err := blk.ReplaceLabel(from, to)
			na := append([]uint64{}, arr...)
			for i := range na {
				if na[i] == from {
					na[i] = to
				}
			}
			return out, na, err
		}}
	}
	merge := func(target uint64, merged ...uint64) mut {
		return mut{fmt.Sprintf("MergeLabels(%v->%d)", merged, target), func(blk *labels.Block, arr []uint64) (*labels.Block, []uint64, error) {
			out, err := blk.MergeLabels(labels.MergeOp{Target: target, Merged: labels.NewSet(merged...)})
			na := append([]uint64{}, arr...)
			for i := range na {
				for _, m := range merged {
					if na[i] == m {
						na[i] = target
					}
				}
			}
			return out, na, err
		}}
	}
	lbls := []uint64{a, b, d}
	var muts []mut
	for _, f := range lbls {
		for _, t := range lbls {
			if f != t {
				muts = append(muts, repl(f, t), merge(t, f))
			}
		}
		muts = append(muts, repl(f, 0), repl(0, f), merge(77, f))
	}
	muts = append(muts, merge(a, b, d), merge(b, a, d), merge(d, a, b), merge(77, a, b))
	c.Set("E5", fmt.Sprintf("16^3 blocks with 3 labels (+ label 0), every order of the label table, after one real ReplaceLabel / MergeLabels out of %d (which leaves duplicate or unreferenced table slots): all views against the voxel-wise result of the same operation on the array", len(muts)))
	type job struct {
		kind     int
		withZero bool
		perm     []int
		m        mut
	}
	var jobs []job
	for kind := 0; kind < 2; kind++ {
		for _, wz := range []bool{false, true} {
			n := 3
			if wz {
				n = 4
			}
			for _, perm := range c09Perms(n) {
				for _, m := range muts {
					jobs = append(jobs, job{kind, wz, perm, m})
				}
			}
		}
	}
	var sampled int32
	vlib.Par(len(jobs), 16, func(i int) {
		j := jobs[i]
		arr := mkArr(j.kind, j.withZero)
		base, err := labels.MakeBlock(dvid.AliasUint64ToByte(append([]uint64{}, arr...)), size)
		if err != nil {
			c.Violate("roundtrip:error", fmt.Sprintf("MakeBlock refused E5 base array: %v", err), nil)
			return
		}
		c09Canon(base, j.perm)
		params := func() map[string]interface{} {
			return map[string]interface{}{"base_kind": j.kind, "with_label_0": j.withZero, "label_table_after_ordering": fmt.Sprint(base.Labels), "operation": j.m.name}
		}
		// the re-ordered base block itself must still decode to arr (guards the harness's own rewrite)
		out, _ := base.MakeLabelVolume()
		if got, _ := c09U64(out); c09FirstDiff(got, arr) != -1 {
			c.Violate("harness:canon", "label-table reordering changed the block content (harness fault)", params())
			return
		}
		var res *labels.Block
		var narr []uint64
		if p := vlib.Safely(func() { res, narr, err = j.m.do(base, arr) }); p != nil || err != nil || res == nil {
			return // the operation itself is C10's subject
		}
		out, _ = res.MakeLabelVolume()
		if got, _ := c09U64(out); c09FirstDiff(got, narr) != -1 {
			return // ditto: a wrong operation result is reported by C10, not here
		}
		r.count("E5", 1)
		r.noteNontrivial(size, narr, res)
		replay := func() map[string]interface{} { return c09Replay("E5", params(), size, narr) }
		r.views("aliased:", res, size, narr, c09Views|c09Sparse|c09Heavy|c09AllPts, nil, &c09PB{blk: base, arr: arr}, replay)
		if atomic.CompareAndSwapInt32(&sampled, 0, 1) {
			c.Sample(map[string]interface{}{"section": "E5", "what": "label table " + fmt.Sprint(base.Labels) + " then " + j.m.name + ": Value, GetPointLabels, CalcNumLabels, WriteRLEs, WriteBinaryBlocks of the result compared with the array after the same replacement"})
		}
	})
}

// c09CPU returns the CPU seconds (user+system) used by this process so far.
func c09CPU() float64 {
	var ru syscall.Rusage
	if syscall.Getrusage(syscall.RUSAGE_SELF, &ru) != nil {
		return 0
	}
	return float64(ru.Utime.Sec+ru.Stime.Sec) + float64(ru.Utime.Usec+ru.Stime.Usec)/1e6
}
