package checks

// C20 well-formed workloads: requests that conform to the documented formats (re-issued from the workloads of the other
// properties where cheap). None of them may be answered with a recovered panic, kill or wedge the server.

import (
	"fmt"

	"verif/vsrv"
)

// c20EmptyWorld: one brand-new instance of every datatype, nothing written.
func c20EmptyWorld() *c20World {
	w := &c20World{Name: "empty"}
	w.Build = func(u string) error {
		for _, in := range [][2]string{{"labelmap", "lm0"}, {"annotation", "ann0"}, {"keyvalue", "kv0"}, {"neuronjson", "nj0"}, {"roi", "roi0"},
			{"uint8blk", "gray0"}, {"uint16blk", "g160"}, {"float32blk", "f320"}, {"rgba8blk", "rgba0"}, {"labelsz", "lsz0"}, {"tarsupervoxels", "tsv0"}, {"keyvalue", "probe"}} {
			var cfg map[string]string
			switch in[0] {
			case "labelmap":
				cfg = map[string]string{"BlockSize": "16,16,16"}
			case "uint8blk", "uint16blk", "float32blk", "rgba8blk":
				cfg = map[string]string{"BlockSize": "8,8,8"}
			case "tarsupervoxels":
				cfg = map[string]string{"Extension": "dat"}
			}
			if err := vsrv.NewInstance(u, in[0], in[1], cfg); err != nil {
				return err
			}
		}
		return nil
	}
	w.Target = []c20Read{{Method: "GET", Path: "kv0/keys"}, {Method: "GET", Path: "nj0/keys"}, {Method: "GET", Path: "ann0/all-elements", Norm: annNormalize},
		{Method: "GET", Path: "roi0/roi"}, {Method: "GET", Path: "lm0/maxlabel"}, {Method: "GET", Path: "lm0/info"}}
	w.Probe = c20Case{Method: "POST", Path: "probe/key/p", Body: []byte("p")}
	return w
}

func c20WellFormedSuites(thorough bool) []*c20Suite {
	var out []*c20Suite
	suite := func(world, dt, ep string, fresh bool, cases ...c20Case) {
		cs := cases
		out = append(out, &c20Suite{World: world, DT: dt, Endpoint: ep, Class: "wellformed", WellFormed: true, Fresh: fresh, gen: func() []c20Case { return cs }})
	}
	get := func(path string) c20Case { return c20Case{"GET", path, nil, "GET " + path} }
	req := func(m, path, body, desc string) c20Case {
		var b []byte
		if body != "" {
			b = []byte(body)
		}
		return c20Case{m, path, b, desc}
	}

	// annotation: one POST elements call, two elements of one block, one adds a tag that the other (an overwrite) drops
	el := func(x, y, z int, tags string) string {
		return fmt.Sprintf(`{"Pos":[%d,%d,%d],"Kind":"PreSyn","Tags":[%s],"Prop":{},"Rels":[]}`, x, y, z, tags)
	}
	var ann []c20Case
	for _, inst := range []string{"ann", "ann3"} { // ann3: an unsynced instance with 64^3 blocks that holds no sentinel
		ann = append(ann,
			req("POST", inst+"/elements", "["+el(10, 10, 10, "")+","+el(12, 12, 12, `"t1"`)+"]", "overwrite drops tag t1, new element of the same block adds t1"),
			req("POST", inst+"/elements", "["+el(12, 12, 12, `"t1"`)+","+el(10, 10, 10, "")+"]", "new element adds t1, overwrite of the same block drops t1"),
			req("POST", inst+"/elements", "["+el(10, 10, 10, `"t7"`)+","+el(12, 12, 12, `"t1"`)+"]", "overwrite replaces tag t1 by t7, new element adds t1"),
			req("POST", inst+"/elements", "["+el(10, 10, 10, "")+","+el(12, 12, 12, `"t9"`)+"]", "overwrite drops t1, new element adds a new tag t9"),
			req("POST", inst+"/elements", "["+el(10, 10, 10, "")+"]", "overwrite drops the only tag"),
			// one request that takes several elements out of one tag list (t1 holds 10_10_10 and 20_20_20, t2 holds 20_20_20 and 70_10_10)
			req("POST", inst+"/elements", "["+el(10, 10, 10, "")+","+el(20, 20, 20, "")+"]", "two overwrites drop every element of tag t1 (and one of t2) in one request"),
			req("POST", inst+"/elements", "["+el(20, 20, 20, "")+","+el(10, 10, 10, "")+"]", "the same in the other order"),
			req("POST", inst+"/elements", "["+el(20, 20, 20, `"t1"`)+","+el(70, 10, 10, "")+"]", "two overwrites drop every element of tag t2 in one request"),
			req("POST", inst+"/elements", "["+el(10, 10, 10, `"t3"`)+","+el(20, 20, 20, `"t3"`)+","+el(70, 10, 10, `"t3"`)+"]", "three overwrites move every element from t1 / t2 to t3"),
			req("POST", inst+"/elements", "["+el(10, 10, 10, `"t1","t1"`)+"]", "the same tag twice"),
			req("POST", inst+"/elements", "["+el(10, 10, 10, `"t1"`)+","+el(10, 10, 10, `"t2"`)+"]", "the same position twice with different tags"),
			req("POST", inst+"/elements", "[]", "empty element list"),
			req("POST", inst+"/elements", `[{"Pos":[10,10,10],"Kind":"PreSyn"}]`, "element without optional members"),
			req("POST", inst+"/elements", `[{"Pos":[-5,-5,-5],"Kind":"Note","Tags":["t1"],"Prop":{},"Rels":[{"Rel":"GroupedWith","To":[-70,-70,-70]}]}]`, "negative coordinates, relationship to an absent element"),
			req("POST", inst+"/blocks", `{}`, "empty block map"),
			req("POST", inst+"/blocks", `{"0,0,0":[]}`, "block with an empty element list"),
			req("DELETE", inst+"/element/1_2_3", "", "delete of an absent element"),
			req("DELETE", inst+"/element/10_10_10", "", "delete of an element others relate to"),
			req("POST", inst+"/move/1_2_3/4_5_6", "", "move of an absent element"),
			req("POST", inst+"/move/10_10_10/10_10_10", "", "move onto itself"),
			req("POST", inst+"/move/10_10_10/20_20_20", "", "move onto an occupied position"),
			req("POST", inst+"/move/10_10_10/200_200_200", "", "move to another block"),
			req("POST", inst+"/reload", "", "reload"),
			req("POST", inst+"/reload?check=true", "", "reload with check"),
			req("POST", inst+"/reload?inmemory=false", "", "reload not in memory"),
		)
	}
	suite("annotation", "annotation", "post-elements", true, ann...)

	// labelmap with data: single never-written block reads (regression of the streamRawBlock nil block), reads around data
	suite("labelmap", "labelmap", "get-raw-unwritten", false,
		get("lm/raw/0_1_2/16_16_16/160_160_160"), get("lm/raw/0_1_2/16_16_16/160_160_160?scale=1"), get("lm/raw/0_1_2/16_16_16/160_160_160?supervoxels=true"),
		get("lm/raw/0_1_2/16_16_16/-16_-16_-16"), get("lm/raw/0_1_2/32_16_16/16_0_0"), get("lm/raw/0_1_2/16_16_16/32_0_0?compression=lz4"),
		get("lm/raw/0_1_2/16_16_16/0_0_0?scale=2"), get("lm/raw/0_1_2/16_16_16/0_0_0?scale=3"), get("lm/raw/0_1_2/16_16_16/0_0_0?scale=8"),
		get("lm/blocks/16_16_16/160_160_160"), get("lm/blocks/16_16_16/160_160_160?compression=uncompressed"), get("lm/specificblocks?blocks=10,10,10"),
		get("lm/raw/0_1/16_16/160_160_160"), get("lm/sparsevol/77"), get("lm/sparsevol/4"), get("lm/sparsevol/1?format=srles"), get("lm/sparsevol/1?format=blocks"),
		get("lm/sparsevol-by-point/160_160_160"), get("lm/label/160_160_160"), get("lm/size/4"), get("lm/supervoxels/4"), get("lm/index/4"), get("lm/lastmod/4"),
		get("lm/sparsevol/1?minx=100&maxx=50"), get("lm/sparsevol-coarse/4"), get("lm/proximity/1,77"), get("lm/proximity/1,1"))
	suite("labelmap", "labelmap", "mutate-absent", true,
		req("POST", "lm/merge", "[1,77]", "merge an absent label into a present one"), req("POST", "lm/merge", "[77,1]", "merge into an absent label"),
		req("POST", "lm/merge", "[1]", "merge with no sources"), req("POST", "lm/merge", "[1,1]", "merge a label into itself"), req("POST", "lm/merge", "[1,2,2]", "merge a label twice"),
		req("POST", "lm/cleave/1", "[77]", "cleave an absent supervoxel"), req("POST", "lm/cleave/77", "[4]", "cleave from an absent body"),
		req("POST", "lm/cleave/1", "[1,4]", "cleave every supervoxel"), req("POST", "lm/cleave/1", "[]", "cleave nothing"), req("POST", "lm/cleave/1", "[4,4]", "cleave a supervoxel twice"),
		req("POST", "lm/renumber", "[100,77]", "renumber an absent label"), req("POST", "lm/renumber", "[2,3]", "renumber onto a present label"), req("POST", "lm/renumber", "[100]", "odd renumber list"),
		req("POST", "lm/renumber", "[]", "empty renumber list"), req("POST", "lm/merge", "[]", "empty merge list"),
		c20Case{"POST", "lm/split-supervoxel/77", c20RLE([]lmRun{{16, 0, 0, 8}}).Data, "split an absent supervoxel"},
		c20Case{"POST", "lm/split-supervoxel/2", c20RLE([]lmRun{{200, 200, 200, 8}}).Data, "split with runs outside the supervoxel"},
		c20Case{"POST", "lm/split-supervoxel/2", c20RLE(nil).Data, "split with no runs"},
		c20Case{"POST", "lm/split-supervoxel/2", c20RLE([]lmRun{{16, 0, 0, 16}, {16, 1, 0, 16}, {16, 0, 0, 16}}).Data, "split with a repeated run"},
		c20Case{"POST", "lm/split-supervoxel/2", c20RLE([]lmRun{{-8, 0, 0, 64}}).Data, "split with a run crossing blocks and labels"},
		c20Case{"POST", "lm/split/3", c20RLE([]lmRun{{0, 0, 0, 8}}).Data, "split with runs in another label"},
		c20Case{"POST", "lm/split/77", c20RLE([]lmRun{{0, 0, 0, 8}}).Data, "split an absent label"},
		c20Case{"POST", "lm/split/3", c20RLE(nil).Data, "split with no runs"},
		c20Case{"POST", "lm/index/77", c20LabelIndex(77, nil).layer().Data, "delete the index of an absent label"},
		c20Case{"POST", "lm/index/2", c20LabelIndex(3, []c20IdxBlock{{1, 0, 0, [][2]uint64{{2, 1}}}}).layer().Data, "index whose label differs from the URL"},
		c20Case{"POST", "lm/index/2", nil, "empty index body"},
		c20Case{"POST", "lm/indices", nil, "empty indices body"},
		c20Case{"POST", "lm/mappings", nil, "empty mappings body"},
		c20Case{"POST", "lm/mappings", c20MappingOps([][]uint64{{7, 0, 3}}).layer().Data, "mapping to label 0"},
		c20Case{"POST", "lm/blocks", nil, "empty block stream"},
		c20Case{"POST", "lm/ingest-supervoxels", nil, "empty block stream"},
		req("POST", "lm/nextlabel/0", "", "zero new labels"), req("POST", "lm/maxlabel/1", "", "max label below the current one"), req("POST", "lm/set-nextlabel/1", "", "next label below the current one"),
	)

	// neuronjson: updates with non-string *_time / *_user members
	var nj []c20Case
	for _, v := range []string{`12345`, `null`, `true`, `["x"]`, `{"k":1}`, `1.5`, `""`} {
		for _, f := range []string{"a_time", "a_user", "b_time", "new_time", "bodyid_user"} {
			nj = append(nj, req("POST", "nj/key/1?u=t", fmt.Sprintf(`{"bodyid":1,"a":"v","b":2,"new":1,"%s":%s}`, f, v), fmt.Sprintf("update with %s := %s", f, v)))
		}
		nj = append(nj, req("POST", "nj/key/1?u=t&replace=true", fmt.Sprintf(`{"bodyid":1,"a":"v","a_time":%s}`, v), fmt.Sprintf("replace with a_time := %s", v)))
		nj = append(nj, req("POST", "nj/key/9?u=t", fmt.Sprintf(`{"bodyid":9,"a":"v","a_time":%s,"a_user":%s}`, v, v), fmt.Sprintf("new annotation with a_time, a_user := %s", v)))
		nj = append(nj, c20Case{"POST", "nj/keyvalues?u=t", c20KeyValues([][2]string{{"1", fmt.Sprintf(`{"bodyid":1,"a":"w","a_time":%s}`, v)}}).layer().Data, fmt.Sprintf("batch update with a_time := %s", v)})
	}
	nj = append(nj, req("POST", "nj/key/1?u=t", `{"bodyid":1}`, "update without fields"), req("POST", "nj/key/1?u=t", `{"bodyid":2,"a":"x"}`, "bodyid differs from the key"),
		req("POST", "nj/key/1?u=t", `{"a":"x"}`, "no bodyid"), req("POST", "nj/key/1?u=t", `{"bodyid":"1","a":"x"}`, "bodyid as a string"), req("POST", "nj/key/1?u=t", `{}`, "empty object"),
		req("POST", "nj/key/1", `{"bodyid":1,"a":"x"}`, "no user"), req("DELETE", "nj/key/99?u=t", "", "delete an absent annotation"), req("DELETE", "nj/key/1?u=t", "", "delete an annotation"),
		req("DELETE", "nj/json_schema?u=t", "", "delete an absent schema"), req("DELETE", "nj/schema", "", "delete an absent schema"), req("GET", "nj/json_schema", "", "read an absent schema"),
		req("GET", "nj/query", `{"a":"re/("}`, "query with an invalid regular expression"), req("GET", "nj/query", `{"a":["x","y"]}`, "query with a list"), req("GET", "nj/query", `[]`, "empty query list"),
		req("GET", "nj/query?onlyid=true", `{"bodyid":[1,2]}`, "query for ids"), req("GET", "nj/query", `{"a":"exists/2"}`, "exists with another digit"), req("GET", "nj/query", `{"a":null}`, "query for null"),
		req("GET", "nj/query", `{"n":[1,2,3]}`, "query on a list field"), req("GET", "nj/query", `{"n":{"x":1}}`, "query with an object value"),
		req("GET", "nj/fieldtimes", "", "field times"), req("GET", "nj/all?fields=a,zz&show=time", "", "all with field selection"))
	suite("neuronjson", "neuronjson", "post-key", true, nj...)

	// keyvalue / roi / imageblk: absent things
	suite("keyvalue", "keyvalue", "absent", false, req("DELETE", "kv/key/nokey", "", "delete an absent key"), get("kv/key/nokey"), req("HEAD", "kv/key/nokey", "", "head of an absent key"),
		get("kv/keyrange/z/a"), get("kv/keyrangevalues/z/a?json=true"), get("kv/keyrangevalues/k1/k2?json=true"), get("kv/keyrangevalues/k1/k2?tar=true"), get("kv/keyrangevalues/k1/k2"),
		c20Case{"POST", "kv/keyvalues", nil, "empty keyvalues body"}, c20Case{"GET", "kv/keyvalues", nil, "empty keys body"}, c20Case{"POST", "kv/key/empty", nil, "empty value"},
		get("kv/mutations"), get("kv/mutations-range/0/10"))
	suite("roi", "roi", "absent", true, req("DELETE", "roi/roi", "", "delete the roi"), req("POST", "roi/roi", "[]", "empty span list"), req("POST", "roi/ptquery", "[]", "no points"),
		req("POST", "roi/roi", "[[0,0,5,2]]", "span with x1 < x0"), req("POST", "roi/roi", "[[-3,-3,-3,-1]]", "negative spans"), req("POST", "roi/roi", "[[0,0,0,3],[0,0,2,5]]", "overlapping spans"),
		get("roi/partition?batchsize=1"), get("roi/partition?batchsize=8&optimized=true"), get("roi/mask/0_1_2/4_4_4/-4_-4_-4"))
	suite("imageblk", "imageblk", "unwritten", false, get("gray/raw/0_1_2/8_8_8/80_80_80"), get("gray/blocks/10_10_10/2"), get("gray/raw/0_1/8_8/80_80_80"), get("g16/raw/0_1_2/8_8_8/80_80_80"),
		get("gray/specificblocks?blocks=10,10,10"), get("gray/subvolblocks/8_8_8/80_80_80"), get("gray/raw/0_2/8_8/0_0_0/jpg:80"), get("gray/isotropic/0_1/8_8/0_0_0"),
		get("gray/arb/0_0_0/8_0_0/0_8_0/1"), get("gray/raw/0_1_2/8_8_8/0_0_0?roi=nosuchroi"), get("g16/raw/0_1/8_8/0_0_0"), get("gray/metadata"))

	// every GET endpoint on brand-new empty instances; DELETE of absent things
	e := []c20Case{}
	for _, p := range []string{"help", "info", "tags", "metadata", "raw/0_1_2/16_16_16/0_0_0", "raw/0_1_2/16_16_16/0_0_0?supervoxels=true", "raw/0_1_2/16_16_16/0_0_0?scale=1", "raw/0_1/16_16/0_0_0",
		"isotropic/0_1/16_16/0_0_0", "pseudocolor/0_1/16_16/0_0_0", "specificblocks?blocks=0,0,0", "blocks/16_16_16/0_0_0", "blocks/16_16_16/0_0_0?compression=uncompressed", "label/1_1_1",
		"supervoxel-splits", "maxlabel", "nextlabel", "lastmod/1", "supervoxels/1", "size/1", "size/1?supervoxels=true", "supervoxel-sizes/1", "sparsevol-size/1", "sparsevol/1", "sparsevol/1?format=blocks",
		"sparsevol/1?format=srles", "sparsevol-by-point/1_1_1", "sparsevol-coarse/1", "sparsevols-coarse/1/3", "proximity/1,2", "index/1", "index/1?metadata-only=true", "existing-labels", "listlabels",
		"listlabels?sizes=true", "indices-compressed", "mutations", "mutations?userid=x", "mutations-range/0/10", "history/1/UUID0/UUID0", "mappings", "mappings?format=binary", "map-stats"} {
		e = append(e, get("lm0/"+p))
	}
	e = append(e, req("GET", "lm0/labels", "[[1,1,1]]", "GET labels"), req("GET", "lm0/mapping", "[1,2]", "GET mapping"), req("GET", "lm0/sizes", "[1,2]", "GET sizes"), req("GET", "lm0/indices", "[1,2]", "GET indices"),
		req("HEAD", "lm0/sparsevol/1", "", "HEAD sparsevol"), req("POST", "lm0/merge", "[1,2]", "merge on an empty instance"), req("POST", "lm0/cleave/1", "[2]", "cleave on an empty instance"),
		req("POST", "lm0/renumber", "[5,1]", "renumber on an empty instance"), req("POST", "lm0/nextlabel/3", "", "nextlabel on an empty instance"),
		c20Case{"POST", "lm0/split-supervoxel/1", c20RLE([]lmRun{{0, 0, 0, 4}}).Data, "split-supervoxel on an empty instance"},
		c20Case{"POST", "lm0/split/1", c20RLE([]lmRun{{0, 0, 0, 4}}).Data, "split on an empty instance"})
	suite("empty", "labelmap", "empty-instance", false, e...)
	e = nil
	for _, p := range []string{"help", "info", "tags", "label/1", "tag/t", "elements/64_64_64/0_0_0", "blocks/64_64_64/0_0_0", "all-elements", "scan", "scan?byCoord=true", "scan?keysOnly=true", "roi/roi0", "roi/nosuch"} {
		e = append(e, get("ann0/"+p))
	}
	e = append(e, req("DELETE", "ann0/element/1_2_3", "", "delete an absent element"), req("POST", "ann0/move/1_2_3/4_5_6", "", "move an absent element"), req("POST", "ann0/reload", "", "reload an empty instance"))
	suite("empty", "annotation", "empty-instance", false, e...)
	e = nil
	for _, p := range []string{"help", "info", "tags", "keys", "keyrange/a/z", "keyrangevalues/a/z", "keyrangevalues/a/z?json=true", "keyrangevalues/a/z?tar=true", "key/none", "mutations", "mutations-range/0/10"} {
		e = append(e, get("kv0/"+p))
	}
	e = append(e, req("DELETE", "kv0/key/none", "", "delete an absent key"), req("HEAD", "kv0/key/none", "", "head of an absent key"),
		c20Case{"GET", "kv0/keyvalues", c20Keys([]string{"a"}).layer().Data, "GET keyvalues"}, req("GET", "kv0/keyvalues?json=true", `["a"]`, "GET keyvalues json"), req("GET", "kv0/keyvalues?jsontar=true", `["a"]`, "GET keyvalues jsontar"))
	suite("empty", "keyvalue", "empty-instance", false, e...)
	e = nil
	for _, p := range []string{"help", "info", "tags", "json_schema", "schema", "schema_batch", "all", "all?show=all", "keys", "fields", "fields?counts=true", "fieldtimes", "keyrange/0/9", "keyrangevalues/0/9", "keyrangevalues/0/9?json=true", "key/1", "key/1?show=all&fields=a"} {
		e = append(e, get("nj0/"+p))
	}
	e = append(e, req("DELETE", "nj0/key/1?u=t", "", "delete an absent annotation"), req("HEAD", "nj0/key/1", "", "head of an absent annotation"), req("DELETE", "nj0/json_schema?u=t", "", "delete an absent schema"),
		req("HEAD", "nj0/json_schema", "", "head of an absent schema"), req("GET", "nj0/query", `{"a":"x"}`, "query an empty instance"), req("POST", "nj0/query", `{"a":"x"}`, "query an empty instance"),
		req("GET", "nj0/keyvalues", `["1"]`, "GET keyvalues of an empty instance"))
	suite("empty", "neuronjson", "empty-instance", false, e...)
	e = nil
	for _, p := range []string{"help", "info", "roi", "mask/0_1_2/8_8_8/0_0_0", "partition?batchsize=8", "partition?batchsize=8&optimized=true"} {
		e = append(e, get("roi0/"+p))
	}
	e = append(e, req("POST", "roi0/ptquery", "[[1,1,1]]", "ptquery on an empty roi"), req("DELETE", "roi0/roi", "", "delete an absent roi"))
	suite("empty", "roi", "empty-instance", false, e...)
	e = nil
	for _, inst := range []string{"gray0", "g160", "f320", "rgba0"} {
		for _, p := range []string{"help", "info", "metadata", "rawkey?x=0&y=0&z=0", "raw/0_1_2/8_8_8/0_0_0", "raw/0_1/8_8/0_0_0", "raw/0_2/8_8/0_0_0/jpg", "isotropic/0_1/8_8/0_0_0", "specificblocks?blocks=0,0,0",
			"subvolblocks/8_8_8/0_0_0", "blocks/0_0_0/1", "arb/0_0_0/8_0_0/0_8_0/1", "raw/0_1_2/8_8_8/0_0_0?roi=roi0"} {
			e = append(e, get(inst+"/"+p))
		}
	}
	suite("empty", "imageblk", "empty-instance", false, e...)
	e = nil
	for _, p := range []string{"help", "info", "count/1/PreSyn", "count/1/AllSyn", "top/3/PreSyn", "threshold/1/PreSyn", "threshold/1/PreSyn?offset=1&n=2"} {
		e = append(e, get("lsz0/"+p))
	}
	e = append(e, req("GET", "lsz0/counts/PreSyn", "[1,2]", "counts"), req("POST", "lsz0/reload", "", "reload"))
	suite("empty", "labelsz", "empty-instance", false, e...)
	e = nil
	for _, p := range []string{"help", "info", "supervoxel/1", "tarfile/1", "exists"} {
		e = append(e, get("tsv0/"+p))
	}
	e = append(e, req("HEAD", "tsv0/supervoxel/1", "", "head of an absent supervoxel"), req("DELETE", "tsv0/supervoxel/1", "", "delete an absent supervoxel"), req("GET", "tsv0/exists", "[1,2]", "exists"))
	suite("empty", "tarsupervoxels", "empty-instance", false, e...)
	return out
}
