package checks

// C20 worker side: one subprocess = one booted server with an address-space limit. Requests are executed through the real
// router in a separate goroutine while the driving goroutine watches the goroutine states of the process, so that "wedged"
// is decided from states (nothing in the process can run any more while a request has not returned), never from a timeout.

import (
	"bufio"
	"bytes"
	"encoding/json"
	"fmt"
	"os"
	"path/filepath"
	"runtime"
	"runtime/debug"
	"strings"
	"syscall"
	"time"

	"verif/vlib"
	"verif/vsrv"
)

// c20AddressSpace is the RLIMIT_AS of a worker: a request that makes the server ask for more dies with the process.
const c20AddressSpace = 8 << 30

// c20PanicPrefix is the start of the body written by server.recoverHandler (server/web.go) for a recovered panic.
const c20PanicPrefix = "Panic detected on request"

func c20IsPanic(r vsrv.Resp) bool {
	return r.Code == 500 && bytes.HasPrefix(r.Body, []byte(c20PanicPrefix))
}

// c20Job is one unit of pool work: the cases [From, To) of one suite.
type c20Job struct {
	ID    int    `json:"id"`
	Suite string `json:"suite"`
	From  int    `json:"from"`
	To    int    `json:"to"`
	Tier  string `json:"tier"`
}

// c20Finding is one observed failure of the property (non-fatal kinds; fatal ones are reported through the marker file).
type c20Finding struct {
	Idx    int    `json:"idx"`
	Kind   string `json:"kind"`
	Detail string `json:"detail"`
	Count  int    `json:"count"`
}

type c20Answer struct {
	Err      string           `json:"err,omitempty"`
	N        int              `json:"n"`
	Requests int              `json:"requests"` // including probes
	Codes    map[string]int   `json:"codes"`
	Findings []c20Finding     `json:"findings,omitempty"`
	Rebuilds int              `json:"rebuilds"`
	Plain500 []int            `json:"plain500,omitempty"`
	Samples  []string         `json:"samples,omitempty"`
	Millis   int64            `json:"ms"`
	Prof     map[string]int64 `json:"prof,omitempty"` // milliseconds per phase
}

// c20Mark is the marker file of a job: rewritten before every phase of every case, so that the parent knows what the
// worker was doing when it died, and why it left on purpose (Kind != "").
type c20Mark struct {
	Idx    int    `json:"idx"`
	Phase  string `json:"phase"` // build | req | settle | probe
	Kind   string `json:"kind"`  // "" (alive, or died on its own) | wedged | slow | stuck-background
	Detail string `json:"detail,omitempty"`
}

type c20Worker struct {
	scratch  string
	markPath string
	live     map[string]*c20Live // world name -> live world (nil = needs building)
	worlds   int
	requests int
}

// c20Live is a built world: a repo with its baseline responses.
type c20Live struct {
	w        *c20World
	uuid     string
	sentinel []string
	target   []string
}

func (wk *c20Worker) mark(m c20Mark) {
	b, _ := json.Marshal(m)
	os.WriteFile(wk.markPath, b, 0644)
}

// leave ends the worker process on purpose after recording why; the pool reports the job as died and the parent reads the marker.
func (wk *c20Worker) leave(m c20Mark) {
	wk.mark(m)
	os.Exit(3)
}

func c20URLOf(uuid, path string) string {
	path = strings.ReplaceAll(path, "UUID0", uuid)
	if strings.HasPrefix(path, "/") {
		return path
	}
	return "node/" + uuid + "/" + path
}

// exec performs one request and watches the process while it runs. status is "" when the request returned.
func (wk *c20Worker) exec(method, url string, body []byte) (vsrv.Resp, string, string) {
	wk.requests++
	ch := make(chan vsrv.Resp, 1)
	go func() { ch <- vsrv.Do(method, url, body) }()
	t := time.NewTimer(100 * time.Millisecond)
	select {
	case r := <-ch:
		t.Stop()
		return r, "", ""
	case <-t.C:
	}
	start := time.Now()
	stuck := 0
	last := ""
	for {
		t := time.NewTimer(5 * time.Millisecond)
		select {
		case r := <-ch:
			t.Stop()
			return r, "", ""
		case <-t.C:
		}
		active, sig, dump := c20Goroutines()
		if active == 0 && (stuck == 0 || sig == last) {
			stuck++
			last = sig
		} else {
			stuck = 0
		}
		// 400 consecutive identical snapshots (>= 2 s) in which no goroutine of the process is running, runnable, in a
		// system call or sleeping in DVID code: every goroutine waits for a lock or channel that only another goroutine could
		// release, and none can run. The state is permanent.
		if stuck >= 400 {
			return vsrv.Resp{}, "wedged", dump
		}
		if time.Since(start) > c20SlowLimit {
			return vsrv.Resp{}, "slow", "active: " + c20FirstActive + "\n" + dump
		}
		if active == 0 {
			c20FirstActive = ""
		}
	}
}

// c20SlowLimit: a request still making progress after this long is given up (capped, not a violation).
var c20SlowLimit = 12 * time.Second

var c20StackBuf = make([]byte, 1<<20)

// c20Housekeeping holds the ids of the goroutines that existed when the server had booted and no repo existed yet: perpetual
// loops (load monitors, log flushers, signal handling, the storage engine's compactors and writers) that wake up on timers
// for ever. They are ignored when deciding whether anything can still run; in exchange, a later goroutine that waits inside
// the storage engine is counted as able to progress.
var c20Housekeeping map[string]bool
var c20Capture map[string]bool

// c20FirstActive describes an active goroutine of the latest snapshots (diagnostics of "slow").
var c20FirstActive string

// c20Goroutines classifies every goroutine but the caller. active counts the goroutines that can still make progress on
// their own (running, runnable, in a system call, preempted, sleeping inside DVID code); sig is a signature of the blocked
// DVID goroutines (ids and states); dump is a shortened listing of the blocked goroutines with DVID frames.
func c20Goroutines() (active int, sig string, dump string) {
	var n int
	for {
		n = runtime.Stack(c20StackBuf, true)
		if n < len(c20StackBuf) {
			break
		}
		c20StackBuf = make([]byte, 2*len(c20StackBuf))
	}
	var sb, db strings.Builder
	capture := c20Capture
	for i, g := range bytes.Split(c20StackBuf[:n], []byte("\n\n")) {
		if i == 0 || len(g) == 0 {
			continue
		}
		hdrEnd := bytes.IndexByte(g, '\n')
		if hdrEnd < 0 {
			hdrEnd = len(g)
		}
		hdr := string(g[:hdrEnd])
		lb, rb := strings.IndexByte(hdr, '['), strings.LastIndexByte(hdr, ']')
		if lb < 0 || rb < lb {
			continue
		}
		state := hdr[lb+1 : rb]
		if c := strings.IndexByte(state, ','); c >= 0 {
			state = state[:c]
		}
		body := string(g[hdrEnd:])
		if capture != nil {
			if id := strings.Fields(hdr); len(id) >= 2 {
				capture[id[1]] = true
			}
		}
		if id := strings.Fields(hdr); len(id) >= 2 && c20Housekeeping[id[1]] {
			continue // a perpetual housekeeping loop started at boot (load monitors, log flushers): never releases request state
		}
		blocked := false
		switch {
		case strings.HasPrefix(state, "chan receive"), strings.HasPrefix(state, "chan send"), strings.HasPrefix(state, "select"),
			state == "IO wait", strings.HasPrefix(state, "sync."), state == "semacquire", state == "finalizer wait",
			strings.HasPrefix(state, "GC "), strings.HasPrefix(state, "force gc"), state == "debug call":
			blocked = true
		case state == "sleep":
			// periodic housekeeping (badger, load monitors) sleeps and wakes forever without touching request state;
			// a sleep inside DVID's data-type or datastore code is a poll that may release a waiting request
			blocked = !strings.Contains(body, "dvid/datatype/") && !strings.Contains(body, "dvid/datastore.")
		case state == "syscall":
			blocked = strings.Contains(body, "os/signal") || strings.Contains(body, "runtime.notetsleepg")
		}
		if blocked && strings.Contains(body, "dgraph-io/") {
			blocked = false // waiting inside the storage engine, whose own (boot-time) goroutines are not looked at: may still progress
		}
		if !blocked {
			active++
			if c20FirstActive == "" {
				c20FirstActive = hdr + c20Frames(body, 6)
			}
			continue
		}
		if strings.Contains(body, "janelia-flyem/dvid/") || strings.Contains(body, "verif/vsrv.Do") {
			id := strings.Fields(hdr)
			if len(id) >= 2 {
				sb.WriteString(id[1] + ":" + state + ";")
			}
			if db.Len() < 6000 {
				db.WriteString(hdr + c20Frames(body, 8) + "\n")
			}
		}
	}
	return active, sb.String(), db.String()
}

// c20Frames keeps the first n function lines of a goroutine stack.
func c20Frames(body string, n int) string {
	var out []string
	for _, ln := range strings.Split(body, "\n") {
		if ln == "" || strings.HasPrefix(ln, "\t") {
			continue
		}
		if p := strings.LastIndexByte(ln, '('); p > 0 {
			ln = ln[:p]
		}
		out = append(out, ln)
		if len(out) == n {
			break
		}
	}
	return " <- " + strings.Join(out, " <- ")
}

// settle waits until all background work started by earlier requests has finished (goroutine-level quiescence).
// status: "" settled | "stuck-background" (blocked goroutines that nothing can release) | "slow".
func (wk *c20Worker) settle() (string, string) {
	start := time.Now()
	stable, stuck := 0, 0
	last := ""
	for {
		busy, first := vsrv.BusyGoroutines()
		if busy == 0 {
			stable++
			if stable >= 3 {
				return "", ""
			}
		} else {
			stable = 0
			active, sig, dump := c20Goroutines()
			if active == 0 && (stuck == 0 || sig == last) {
				stuck++
				last = sig
			} else {
				stuck = 0
			}
			if stuck >= 400 {
				return "stuck-background", dump
			}
			if time.Since(start) > c20SlowLimit {
				return "slow", first
			}
			if stuck > 0 {
				time.Sleep(5 * time.Millisecond)
			}
		}
		runtime.Gosched()
		time.Sleep(100 * time.Microsecond)
	}
}

// do = exec for requests that are part of the harness (world building, probes): a wedge or stall ends the worker, attributed
// to the case being worked on.
func (wk *c20Worker) do(idx int, phase, method, url string, body []byte) vsrv.Resp {
	r, st, dump := wk.exec(method, url, body)
	if st != "" {
		wk.leave(c20Mark{Idx: idx, Phase: phase, Kind: st, Detail: method + " " + url + "\n" + dump})
	}
	return r
}

func (wk *c20Worker) settleOrLeave(idx int, phase string) {
	if st, dump := wk.settle(); st != "" {
		wk.leave(c20Mark{Idx: idx, Phase: phase, Kind: st, Detail: dump})
	}
}

func c20Norm(rd c20Read, r vsrv.Resp) string {
	if rd.Norm != nil {
		return rd.Norm(r.Code, r.Body)
	}
	return c20Digest(r.Code, r.Body)
}

// build creates a fresh repo for the world and records its baselines.
func (wk *c20Worker) build(w *c20World, idx int) (*c20Live, error) {
	wk.worlds++
	uuid, err := vsrv.NewRepo()
	if err != nil {
		return nil, err
	}
	l := &c20Live{w: w, uuid: uuid}
	if err := w.Build(uuid); err != nil {
		return nil, fmt.Errorf("building world %s: %v", w.Name, err)
	}
	wk.settleOrLeave(idx, "build")
	if w.Probe.Method != "" {
		if r := wk.do(idx, "build", w.Probe.Method, c20URLOf(uuid, w.Probe.Path), w.Probe.Body); !r.OK() {
			return nil, fmt.Errorf("world %s: probe write refused on the fresh world: %s", w.Name, r)
		}
		wk.settleOrLeave(idx, "build")
	}
	for _, rd := range w.Sentinel {
		r := wk.do(idx, "build", rd.Method, c20URLOf(uuid, rd.Path), rd.Body)
		if !r.OK() {
			return nil, fmt.Errorf("world %s: sentinel read %s %s fails on the fresh world: %s", w.Name, rd.Method, rd.Path, r)
		}
		l.sentinel = append(l.sentinel, c20Norm(rd, r))
	}
	for _, rd := range w.Target {
		r := wk.do(idx, "build", rd.Method, c20URLOf(uuid, rd.Path), rd.Body)
		l.target = append(l.target, c20Norm(rd, r))
	}
	return l, nil
}

func c20Short(b []byte, n int) string {
	if len(b) > n {
		return fmt.Sprintf("%q...(%d bytes)", b[:n], len(b))
	}
	return fmt.Sprintf("%q", b)
}

// runJob executes the cases of a job one after the other, each followed by quiescence, the probe set and classification.
func (wk *c20Worker) runJob(j c20Job) (ans c20Answer) {
	ans = c20Answer{Codes: map[string]int{}}
	if j.Tier == "thorough" {
		c20SlowLimit = 30 * time.Second
	}
	cat := c20GetCatalogue(j.Tier == "thorough")
	s := cat.suite(j.Suite)
	if s == nil {
		ans.Err = "unknown suite " + j.Suite
		return ans
	}
	cases := s.cases()
	if j.To > len(cases) {
		j.To = len(cases)
	}
	w := cat.worlds[s.World]
	if w == nil {
		ans.Err = "unknown world " + s.World
		return ans
	}
	wk.markPath = filepath.Join(wk.scratch, fmt.Sprintf("job-%d.mark", j.ID))
	found := map[string]int{}
	note := func(idx int, kind, detail string) {
		if k, ok := found[kind]; ok {
			ans.Findings[k].Count++
			return
		}
		found[kind] = len(ans.Findings)
		ans.Findings = append(ans.Findings, c20Finding{Idx: idx, Kind: kind, Detail: detail, Count: 1})
	}
	r0 := wk.requests
	t0 := time.Now()
	prof := map[string]time.Duration{}
	lap := time.Now()
	tick := func(k string) { n := time.Now(); prof[k] += n.Sub(lap); lap = n }
	defer func() {
		ans.Millis = time.Since(t0).Milliseconds()
		ans.Prof = map[string]int64{}
		for k, v := range prof {
			ans.Prof[k] = v.Milliseconds()
		}
	}()
	for idx := j.From; idx < j.To; idx++ {
		cs := cases[idx]
		l := wk.live[w.Name]
		if l == nil {
			wk.mark(c20Mark{Idx: idx, Phase: "build"})
			var err error
			if l, err = wk.build(w, idx); err != nil {
				ans.Err = err.Error()
				return ans
			}
			wk.live[w.Name] = l
			ans.Rebuilds++
		}
		tick("build")
		url := c20URLOf(l.uuid, cs.Path)
		wk.mark(c20Mark{Idx: idx, Phase: "req"})
		r, st, dump := wk.exec(cs.Method, url, cs.Body)
		if st != "" {
			wk.leave(c20Mark{Idx: idx, Phase: "req", Kind: st, Detail: dump})
		}
		tick("req")
		ans.N++
		if r.Code == -1 {
			ans.Codes["unbuildable"]++
			continue // the URL cannot be put into an HTTP request at all: nothing was sent
		}
		ans.Codes[fmt.Sprintf("%d", r.Code)]++
		wk.mark(c20Mark{Idx: idx, Phase: "settle"})
		wk.settleOrLeave(idx, "settle")
		tick("settle")

		// classification of the answer
		if c20IsPanic(r) {
			note(idx, "panic-500", fmt.Sprintf("%s %s (%s) -> %s", cs.Method, cs.Path, cs.Desc, c20Short(r.Body, 300)))
		} else if r.Code >= 500 && r.Code != 503 {
			ans.Plain500 = append(ans.Plain500, idx)
			if len(ans.Samples) < 2 {
				ans.Samples = append(ans.Samples, fmt.Sprintf("%s %s (%s) -> %d %s", cs.Method, cs.Path, cs.Desc, r.Code, c20Short(r.Body, 120)))
			}
		}
		if s.MustSucceed && !r.OK() {
			note(idx, "seed-refused", fmt.Sprintf("%s %s (%s) -> %s", cs.Method, cs.Path, cs.Desc, r))
		}

		// later requests: the sentinel reads must be served and read back as before, the probe write must be accepted
		wk.mark(c20Mark{Idx: idx, Phase: "probe"})
		damaged := false
		for k, rd := range w.Sentinel {
			pr := wk.do(idx, "probe", rd.Method, c20URLOf(l.uuid, rd.Path), rd.Body)
			if got := c20Norm(rd, pr); got != l.sentinel[k] {
				damaged = true
				// a read that is still answered, with other content or with "not found": the data changed;
				// a server error: the later request is not served
				kind := "other-data-changed"
				if rd.Neighbour {
					kind = "neighbour-data-changed"
				}
				if c20IsPanic(pr) {
					kind = "later-request-panics"
				} else if pr.Code >= 500 {
					kind = "later-request-fails"
				}
				note(idx, kind, fmt.Sprintf("after %s %s (%s) -> %d, the later request %s %s answers %s; before: %s", cs.Method, cs.Path, cs.Desc, r.Code, rd.Method, rd.Path, c20Trim(got, 200), c20Trim(l.sentinel[k], 200)))
			}
		}
		if w.Probe.Method != "" {
			pr := wk.do(idx, "probe", w.Probe.Method, c20URLOf(l.uuid, w.Probe.Path), w.Probe.Body)
			// an accepted request may legitimately configure the instance so that the probe write is refused (a validation
			// schema, for one); a refusal only counts after a request that was itself refused
			if !pr.OK() && (!r.OK() || pr.Code >= 500) {
				damaged = true
				kind := "later-request-fails"
				if c20IsPanic(pr) {
					kind = "later-request-panics"
				}
				note(idx, kind, fmt.Sprintf("after %s %s (%s) -> %d, the valid write %s %s is answered %s", cs.Method, cs.Path, cs.Desc, r.Code, w.Probe.Method, w.Probe.Path, pr))
			}
			wk.settleOrLeave(idx, "probe")
			if !pr.OK() {
				damaged = true
			}
		}
		dirty := damaged
		if !dirty {
			for k, rd := range w.Target {
				pr := wk.do(idx, "probe", rd.Method, c20URLOf(l.uuid, rd.Path), rd.Body)
				if c20IsPanic(pr) {
					note(idx, "later-request-panics", fmt.Sprintf("after %s %s (%s) -> %d, the later request %s %s answers %s", cs.Method, cs.Path, cs.Desc, r.Code, rd.Method, rd.Path, c20Short(pr.Body, 300)))
				}
				if c20Norm(rd, pr) != l.target[k] {
					dirty = true
					break
				}
			}
		}
		tick("probe")
		if dirty || s.Fresh {
			wk.live[w.Name] = nil // the next case starts from a pristine world
		}
		{
			// memory a request made the server allocate must not be held against the next request
			var ms runtime.MemStats
			runtime.ReadMemStats(&ms)
			if ms.HeapSys-ms.HeapReleased > 512<<20 {
				debug.FreeOSMemory()
			}
		}
	}
	ans.Requests = wk.requests - r0
	return ans
}

func c20Trim(s string, n int) string {
	if len(s) > n {
		return s[:n] + "..."
	}
	return s
}

func c20WorkerMain(args []string) int {
	// the address-space limit turns a request that makes the server allocate without bound into a process death
	lim := syscall.Rlimit{Cur: c20AddressSpace, Max: c20AddressSpace}
	if err := syscall.Setrlimit(syscall.RLIMIT_AS, &lim); err != nil {
		fmt.Printf("%s{\"err\":\"setrlimit: %v\"}\n", vlib.AnswerPrefix, err)
		return 1
	}
	runtime.GOMAXPROCS(2)
	vsrv.SingleThreaded = true
	scratch := getenv("C20_SCRATCH")
	if scratch == "" {
		fmt.Printf("%s{\"err\":\"no C20_SCRATCH\"}\n", vlib.AnswerPrefix)
		return 1
	}
	dir, err := os.MkdirTemp(scratch, "w-")
	if err != nil {
		fmt.Printf("%s{\"err\":\"tmpdir\"}\n", vlib.AnswerPrefix)
		return 1
	}
	if err := vsrv.Boot(dir, vsrv.Options{AllowLabelmapSplit: true}); err != nil {
		fmt.Printf("%s{\"err\":%q}\n", vlib.AnswerPrefix, "boot: "+err.Error())
		return 1
	}
	vsrv.Quiesce()
	c20Capture = map[string]bool{}
	c20Goroutines()
	c20Housekeeping, c20Capture = c20Capture, nil
	wk := &c20Worker{scratch: scratch, live: map[string]*c20Live{}}
	// the job loop of vlib.ServeJobs, plus process recycling: every repo and instance ever created stays in the server's
	// memory with its goroutines, so after c20MaxWorlds worlds the worker replaces itself by a fresh process image (same
	// pipes, same limits) between two jobs
	rd := bufio.NewReaderSize(os.Stdin, 1<<16)
	for {
		line, err := rd.ReadString('\n')
		if line = strings.TrimRight(line, "\n"); line != "" {
			var j c20Job
			var out string
			if jerr := json.Unmarshal([]byte(line), &j); jerr != nil {
				out = fmt.Sprintf("{\"err\":%q}", jerr.Error())
			} else {
				a := wk.runJob(j)
				b, _ := json.Marshal(a)
				out = string(b)
			}
			os.Stdout.WriteString(vlib.AnswerPrefix + strings.ReplaceAll(out, "\n", " ") + "\n")
		}
		if err != nil {
			return 0
		}
		if wk.worlds >= c20MaxWorlds && rd.Buffered() == 0 {
			os.RemoveAll(dir)
			if self, e := os.Executable(); e == nil {
				syscall.Exec(self, os.Args, os.Environ())
			}
		}
	}
}

// c20MaxWorlds: worlds built by one worker process before it is recycled.
const c20MaxWorlds = 150
