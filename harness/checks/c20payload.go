package checks

// C20 payload builders: deterministic encoders for the binary formats of the ingestion endpoints that record the offset of
// every header, count, length and index field (so the mutation grammar can aim at them).

import (
	"bytes"
	"compress/gzip"
	"encoding/binary"
	"fmt"
	"sort"

	"github.com/janelia-flyem/dvid/datatype/common/labels"
	lz4 "github.com/janelia-flyem/go/golz4-updated"
)

func c20Gzip(b []byte) []byte {
	var out bytes.Buffer
	zw := gzip.NewWriter(&out)
	zw.Write(b)
	zw.Close()
	return out.Bytes()
}

func c20LZ4(b []byte) []byte {
	if len(b) == 0 {
		return nil
	}
	out := make([]byte, lz4.CompressBound(b))
	n, err := lz4.Compress(b, out)
	if err != nil {
		return nil
	}
	return out[:n]
}

// c20BitsFor mirrors labels.bitsFor.
func c20BitsFor(n int) uint {
	if n < 2 {
		return 0
	}
	n--
	var bits uint
	for n > 0 {
		bits++
		n >>= 1
	}
	return bits
}

// c20EncodeBlock serialises a cubic label block (edge S voxels, ZYX order) in DVID's compressed block format
// (documented under POST blocks), with the label table in ascending order and sub-block tables in order of first appearance.
func c20EncodeBlock(vox []uint64, S int) ([]byte, []c20Field, []int) {
	g := S / 8
	set := map[uint64]bool{}
	for _, v := range vox {
		set[v] = true
	}
	var table []uint64
	for v := range set {
		table = append(table, v)
	}
	sort.Slice(table, func(i, j int) bool { return table[i] < table[j] })
	index := map[uint64]uint32{}
	for i, v := range table {
		index[v] = uint32(i)
	}
	var b bytes.Buffer
	var fields []c20Field
	var bounds []int
	le32 := func(v uint32) { binary.Write(&b, binary.LittleEndian, v) }
	for _, n := range []string{"gx", "gy", "gz"} {
		fields = append(fields, c20Field{Name: n, Off: b.Len(), Len: 4, Kind: "count", N: uint64(g)})
		le32(uint32(g))
	}
	fields = append(fields, c20Field{Name: "numLabels", Off: b.Len(), Len: 4, Kind: "count", N: uint64(len(table))})
	le32(uint32(len(table)))
	bounds = append(bounds, b.Len())
	for _, v := range table {
		fields = append(fields, c20Field{Name: "label", Off: b.Len(), Len: 8, Kind: "label"})
		binary.Write(&b, binary.LittleEndian, v)
	}
	bounds = append(bounds, b.Len())
	if len(table) <= 1 {
		return b.Bytes(), fields, bounds
	}
	type sb struct {
		idx  []uint32
		vals []byte
	}
	var sbs []sb
	for sz := 0; sz < g; sz++ {
		for sy := 0; sy < g; sy++ {
			for sx := 0; sx < g; sx++ {
				var s sb
				local := map[uint32]int{}
				var seq []int
				for z := 0; z < 8; z++ {
					for y := 0; y < 8; y++ {
						for x := 0; x < 8; x++ {
							v := vox[((sz*8+z)*S+(sy*8+y))*S+sx*8+x]
							li, ok := local[index[v]]
							if !ok {
								li = len(s.idx)
								local[index[v]] = li
								s.idx = append(s.idx, index[v])
							}
							seq = append(seq, li)
						}
					}
				}
				bits := c20BitsFor(len(s.idx))
				if bits > 0 {
					s.vals = make([]byte, (512*int(bits)+7)/8)
					pos := uint(0)
					for _, li := range seq {
						for k := int(bits) - 1; k >= 0; k-- {
							if li>>uint(k)&1 == 1 {
								s.vals[pos>>3] |= 0x80 >> (pos & 7)
							}
							pos++
						}
					}
				}
				sbs = append(sbs, s)
			}
		}
	}
	for _, s := range sbs {
		fields = append(fields, c20Field{Name: "numSBLabels", Off: b.Len(), Len: 2, Kind: "count", N: uint64(len(s.idx))})
		binary.Write(&b, binary.LittleEndian, uint16(len(s.idx)))
	}
	bounds = append(bounds, b.Len())
	for _, s := range sbs {
		for _, i := range s.idx {
			fields = append(fields, c20Field{Name: "sbIndex", Off: b.Len(), Len: 4, Kind: "index", N: uint64(len(table))})
			le32(i)
		}
	}
	bounds = append(bounds, b.Len())
	for _, s := range sbs {
		if len(s.vals) > 0 {
			// the bit-packed voxel values of one sub-block: each is an index into the sub-block's label list
			fields = append(fields, c20Field{Name: "sbValues", Off: b.Len(), Len: len(s.vals), Kind: "packed", N: uint64(len(s.idx))})
		}
		b.Write(s.vals)
		bounds = append(bounds, b.Len())
	}
	return b.Bytes(), fields, bounds
}

// c20CheckBlock verifies the encoder against DVID's decoder (a harness self-test).
func c20CheckBlock(vox []uint64, S int) error {
	data, _, _ := c20EncodeBlock(vox, S)
	var blk labels.Block
	if err := blk.UnmarshalBinary(data); err != nil {
		return err
	}
	got, size := blk.MakeLabelVolume()
	if int(size[0]) != S || len(got) != 8*len(vox) {
		return fmt.Errorf("decoded size %v", size)
	}
	for i, v := range vox {
		if binary.LittleEndian.Uint64(got[8*i:]) != v {
			return fmt.Errorf("voxel %d decodes to %d, want %d", i, binary.LittleEndian.Uint64(got[8*i:]), v)
		}
	}
	return nil
}

type c20Blk struct {
	Coord [3]int32
	Vox   []uint64
}

// c20BlockStream builds the POST blocks / ingest-supervoxels stream (coordinate, byte count, gzip of the serialised block per
// block) and returns the outer layer plus one inner layer per block (the serialised block before gzip).
func c20BlockStream(blocks []c20Blk, S int) (outer c20Layer, inner []c20Layer) {
	gz := make([][]byte, len(blocks))
	ser := make([][]byte, len(blocks))
	flds := make([][]c20Field, len(blocks))
	bnds := make([][]int, len(blocks))
	for i, bl := range blocks {
		ser[i], flds[i], bnds[i] = c20EncodeBlock(bl.Vox, S)
		gz[i] = c20Gzip(ser[i])
	}
	assemble := func(repl int, with []byte) ([]byte, []c20Field, []int) {
		var b bytes.Buffer
		var fields []c20Field
		var bounds []int
		for i, bl := range blocks {
			bounds = append(bounds, b.Len())
			for k, n := range []string{"blockX", "blockY", "blockZ"} {
				fields = append(fields, c20Field{Name: n, Off: b.Len(), Len: 4, Kind: "coord"})
				binary.Write(&b, binary.LittleEndian, bl.Coord[k])
			}
			body := gz[i]
			if i == repl {
				body = with
			}
			fields = append(fields, c20Field{Name: "numBytes", Off: b.Len(), Len: 4, Kind: "len", N: uint64(len(body))})
			binary.Write(&b, binary.LittleEndian, int32(len(body)))
			bounds = append(bounds, b.Len())
			b.Write(body)
		}
		return b.Bytes(), fields, bounds
	}
	data, fields, bounds := assemble(-1, nil)
	outer = c20Layer{Data: data, Fields: fields, Bounds: bounds}
	for i := range blocks {
		i := i
		inner = append(inner, c20Layer{Name: "inner", Data: ser[i], Fields: flds[i], Bounds: bnds[i], Wrap: func(m []byte) []byte {
			d, _, _ := assemble(i, c20Gzip(m))
			return d
		}})
	}
	return
}

// c20RLE builds a binary sparse volume (POST split-supervoxel / split).
func c20RLE(runs []lmRun) c20Layer {
	var b bytes.Buffer
	var f []c20Field
	for _, h := range []struct {
		n string
		v byte
		k string
		N uint64
	}{{"descriptor", 0, "hdr", 0}, {"numDims", 3, "count", 3}, {"runDim", 0, "index", 3}, {"reserved", 0, "hdr", 0}} {
		f = append(f, c20Field{Name: h.n, Off: b.Len(), Len: 1, Kind: h.k, N: h.N})
		b.WriteByte(h.v)
	}
	f = append(f, c20Field{Name: "numVoxels", Off: b.Len(), Len: 4, Kind: "count", N: 0})
	binary.Write(&b, binary.LittleEndian, uint32(0))
	f = append(f, c20Field{Name: "numSpans", Off: b.Len(), Len: 4, Kind: "count", N: uint64(len(runs))})
	binary.Write(&b, binary.LittleEndian, uint32(len(runs)))
	bounds := []int{b.Len()}
	for _, r := range runs {
		for k, v := range []int{r.x, r.y, r.z} {
			f = append(f, c20Field{Name: []string{"spanX", "spanY", "spanZ"}[k], Off: b.Len(), Len: 4, Kind: "coord"})
			binary.Write(&b, binary.LittleEndian, int32(v))
		}
		f = append(f, c20Field{Name: "spanLength", Off: b.Len(), Len: 4, Kind: "len", N: uint64(r.n)})
		binary.Write(&b, binary.LittleEndian, int32(r.n))
		bounds = append(bounds, b.Len())
	}
	return c20Layer{Data: b.Bytes(), Fields: f, Bounds: bounds}
}

// c20PB is a minimal protobuf writer that remembers where tags, length prefixes and varints are.
type c20PB struct {
	b      bytes.Buffer
	fields []c20Field
	bounds []int
}

func (p *c20PB) tag(field, wire int) {
	p.fields = append(p.fields, c20Field{Name: "tag", Off: p.b.Len(), Len: 1, Kind: "hdr"})
	p.b.WriteByte(byte(field<<3 | wire))
}

func (p *c20PB) varint(name string, field int, v uint64, kind string) {
	p.tag(field, 0)
	enc := binary.AppendUvarint(nil, v)
	p.fields = append(p.fields, c20Field{Name: name, Off: p.b.Len(), Len: len(enc), Kind: kind, N: v, Var: true})
	p.b.Write(enc)
}

// bytesField writes a length-delimited field whose content is produced by sub (nested message) or given as raw bytes.
func (p *c20PB) bytesField(name string, field int, content []byte, sub *c20PB) {
	p.tag(field, 2)
	if sub != nil {
		content = sub.b.Bytes()
	}
	enc := binary.AppendUvarint(nil, uint64(len(content)))
	p.fields = append(p.fields, c20Field{Name: name + "Len", Off: p.b.Len(), Len: len(enc), Kind: "len", N: uint64(len(content)), Var: true})
	p.b.Write(enc)
	base := p.b.Len()
	p.bounds = append(p.bounds, base)
	if sub != nil {
		for _, f := range sub.fields {
			f.Off += base
			p.fields = append(p.fields, f)
		}
		for _, bd := range sub.bounds {
			p.bounds = append(p.bounds, bd+base)
		}
	}
	p.b.Write(content)
	p.bounds = append(p.bounds, p.b.Len())
}

func (p *c20PB) layer() c20Layer {
	return c20Layer{Data: append([]byte{}, p.b.Bytes()...), Fields: p.fields, Bounds: p.bounds}
}

type c20IdxBlock struct {
	x, y, z int32
	counts  [][2]uint64 // supervoxel, count
}

// c20LabelIndex encodes a LabelIndex message (POST index).
func c20LabelIndex(label uint64, blocks []c20IdxBlock) *c20PB {
	p := &c20PB{}
	for _, bl := range blocks {
		svc := &c20PB{}
		for _, c := range bl.counts {
			e := &c20PB{}
			e.varint("supervoxel", 1, c[0], "label")
			e.varint("voxelCount", 2, c[1], "count")
			svc.bytesField("countsEntry", 1, nil, e)
		}
		entry := &c20PB{}
		entry.varint("blockKey", 1, labels.EncodeBlockIndex(bl.x, bl.y, bl.z), "coord")
		entry.bytesField("svCount", 2, nil, svc)
		p.bytesField("blocksEntry", 1, nil, entry)
	}
	p.varint("label", 2, label, "label")
	p.varint("lastMutID", 3, 5, "hdr")
	p.bytesField("lastModTime", 4, []byte("2023-01-02T03:04:05Z"), nil)
	p.bytesField("lastModUser", 5, []byte("c20"), nil)
	p.bytesField("lastModApp", 6, []byte("verif"), nil)
	return p
}

// c20LabelIndices encodes a LabelIndices message (POST indices).
func c20LabelIndices(idx ...*c20PB) *c20PB {
	p := &c20PB{}
	for _, i := range idx {
		p.bytesField("index", 1, nil, i)
	}
	return p
}

// c20MappingOps encodes a MappingOps message (POST mappings): ops of (mutid, mapped, originals...), originals packed.
func c20MappingOps(ops [][]uint64) *c20PB {
	p := &c20PB{}
	for _, op := range ops {
		m := &c20PB{}
		m.varint("mutid", 1, op[0], "hdr")
		m.varint("mapped", 2, op[1], "label")
		var packed []byte
		for _, o := range op[2:] {
			packed = binary.AppendUvarint(packed, o)
		}
		m.bytesField("original", 3, packed, nil)
		p.bytesField("mappingOp", 1, nil, m)
	}
	return p
}

// c20KeyValues encodes a KeyValues message (POST keyvalues of keyvalue and neuronjson).
func c20KeyValues(kvs [][2]string) *c20PB {
	p := &c20PB{}
	for _, kv := range kvs {
		m := &c20PB{}
		m.bytesField("key", 1, []byte(kv[0]), nil)
		m.bytesField("value", 2, []byte(kv[1]), nil)
		p.bytesField("kv", 1, nil, m)
	}
	return p
}

// c20Keys encodes a Keys message (GET keyvalues).
func c20Keys(keys []string) *c20PB {
	p := &c20PB{}
	for _, k := range keys {
		p.bytesField("key", 1, []byte(k), nil)
	}
	return p
}

func c20U64Bytes(v []uint64) []byte {
	b := make([]byte, 8*len(v))
	for i, x := range v {
		binary.LittleEndian.PutUint64(b[8*i:], x)
	}
	return b
}
