package checks

// C15 The serialization envelope round-trips and detects corruption.
// Bounded-exhaustive enumeration over explicit alphabets (see DESIGN.md section 6, C15).

import (
	"bytes"
	"encoding/binary"
	"encoding/hex"
	"fmt"
	"hash/crc32"
	"os"
	"runtime"
	"strings"
	"sync"
	"sync/atomic"

	"github.com/janelia-flyem/dvid/dvid"

	"verif/vlib"
)

func init() {
	vlib.Register("C15", "exploration", runC15)
	vlib.Workers["c15arb"] = c15ArbWorker
}

type c15fmt struct {
	name  string
	comp  dvid.Compression
	cksum dvid.Checksum
}

func c15Formats() []c15fmt {
	var out []c15fmt
	type cf struct {
		n string
		f dvid.CompressionFormat
		l dvid.CompressionLevel
	}
	for _, c := range []cf{{"none", dvid.Uncompressed, dvid.DefaultCompression}, {"snappy", dvid.Snappy, dvid.DefaultCompression},
		{"lz4", dvid.LZ4, dvid.DefaultCompression}, {"gzip-1", dvid.Gzip, dvid.DefaultCompression}, {"gzip1", dvid.Gzip, 1},
		{"gzip6", dvid.Gzip, 6}, {"gzip9", dvid.Gzip, 9}} {
		comp, err := dvid.NewCompression(c.f, c.l)
		if err != nil {
			panic(err)
		}
		for _, ck := range []dvid.Checksum{dvid.NoChecksum, dvid.CRC32} {
			n := c.n + "+nock"
			if ck == dvid.CRC32 {
				n = c.n + "+crc32"
			}
			out = append(out, c15fmt{n, comp, ck})
		}
	}
	return out
}

func c15Payload(kind string, n int) []byte {
	b := make([]byte, n)
	switch kind {
	case "zeros":
	case "ff":
		for i := range b {
			b[i] = 0xff
		}
	case "ramp":
		for i := range b {
			b[i] = byte(i)
		}
	case "lcg":
		x := uint32(12345)
		for i := range b {
			x = x*1664525 + 1013904223
			b[i] = byte(x >> 24)
		}
	}
	return b
}

func runC15(c *vlib.Ctx) {
	formats := c15Formats()
	lengths := []int{1, 2, 3, 4, 5, 7, 8, 15, 16, 17, 255, 256, 257, 4095, 4096, 65537}
	kinds := []string{"zeros", "ff", "ramp", "lcg"}
	type pl struct {
		kind string
		n    int
	}
	var payloads []pl
	for _, k := range kinds {
		for _, n := range lengths {
			payloads = append(payloads, pl{k, n})
		}
	}
	payloads = append(payloads, pl{"zeros", 4 << 20}, pl{"lcg", 4 << 20}, pl{"ramp", 1 << 20})
	if c.Thorough() {
		for n := 1; n <= 300; n++ {
			payloads = append(payloads, pl{"lcg", n}, pl{"ramp", n})
		}
	}

	// ---- Round trip ----
	vlib.Par(len(payloads), 16, func(i int) {
		p := payloads[i]
		data := c15Payload(p.kind, p.n)
		for _, f := range formats {
			c.Eval(1)
			ser, err := dvid.SerializeData(data, f.comp, f.cksum)
			if err != nil {
				c.Violate("roundtrip:serialize-error:"+f.name, fmt.Sprintf("SerializeData(%s,%d) with %s failed: %v", p.kind, p.n, f.name, err),
					map[string]interface{}{"kind": p.kind, "len": p.n, "format": f.name})
				continue
			}
			var got []byte
			var derr error
			if pn := vlib.Safely(func() { got, _, derr = dvid.DeserializeData(ser, true) }); pn != nil {
				c.Violate("roundtrip:panic:"+f.name, fmt.Sprintf("DeserializeData panicked on own output (%s,%d,%s): %v", p.kind, p.n, f.name, pn),
					map[string]interface{}{"kind": p.kind, "len": p.n, "format": f.name})
				continue
			}
			if derr != nil || !bytes.Equal(got, data) {
				c.Violate("roundtrip:mismatch:"+f.name, fmt.Sprintf("round trip (%s,%d,%s) not identical: err=%v gotlen=%d", p.kind, p.n, f.name, derr, len(got)),
					map[string]interface{}{"kind": p.kind, "len": p.n, "format": f.name})
			}
			c.Nontrivial(fmt.Sprintf("rt:%s:%s:%d", f.name, p.kind, p.n))
			c.Outcome(fmt.Sprintf("rt:%s:len%d", f.name, len(ser)))
			// uncompress=false returns the compressed payload, which SerializePrecompressedData must re-wrap identically.
			raw, cf, err := dvid.DeserializeData(ser, false)
			if err != nil {
				c.Violate("roundtrip:nouncompress-error:"+f.name, fmt.Sprintf("DeserializeData(uncompress=false) error: %v", err), nil)
				continue
			}
			// The format reported for the stored bytes need not be the one asked for (an implementation may store a value that does
			// not shrink in another form); what the statement demands is that the pass-through pair is lossless: the stored bytes,
			// re-wrapped under the format that was REPORTED for them, deserialise to the original data.
			if cf != f.comp.Format() {
				c.Outcome("rt:stored-under-another-format:" + f.name)
			}
			c.Eval(1)
			rc, cerr := dvid.NewCompression(cf, dvid.DefaultCompression)
			if cerr != nil {
				c.Violate("roundtrip:reported-format-unusable:"+f.name, fmt.Sprintf("DeserializeData(uncompress=false) reported format %v, which NewCompression rejects: %v", cf, cerr), nil)
				continue
			}
			ser2, err := dvid.SerializePrecompressedData(raw, rc, f.cksum)
			var got2 []byte
			var derr2 error
			if err == nil {
				if pn := vlib.Safely(func() { got2, _, derr2 = dvid.DeserializeData(ser2, true) }); pn != nil {
					derr2 = fmt.Errorf("panic: %v", pn)
				}
			}
			if err != nil || derr2 != nil || !bytes.Equal(got2, data) {
				c.Violate("roundtrip:precompressed:"+f.name, fmt.Sprintf("pass-through pair not lossless (%s,%d): DeserializeData(uncompress=false) -> SerializePrecompressedData(reported format %v) -> DeserializeData gives err=%v/%v, %d bytes for %d", p.kind, p.n, cf, err, derr2, len(got2), len(data)),
					map[string]interface{}{"kind": p.kind, "len": p.n, "format": f.name})
			}
		}
	})
	c.Sample(map[string]interface{}{"roundtrip": "SerializeData(lcg[257], lz4+crc32) -> DeserializeData(uncompress=true) == input"})

	// complete small alphabet: every string over {a, b} up to a length (and every string over {a, b, c} up to a shorter
	// one) through every non-gzip format: low-entropy values are where a compressor's output length meets its input length
	// and where "stored raw" shortcuts of a codec wrapper would fire
	{
		maxBin, maxTer := 18, 11
		if c.Thorough() {
			maxBin, maxTer = 22, 13
		}
		var fs []c15fmt
		for _, f := range formats {
			if !strings.HasPrefix(f.name, "gzip") {
				fs = append(fs, f)
			}
		}
		type span struct{ base, n, lo, hi int }
		var jobs []span
		for n := 1; n <= maxBin; n++ {
			total := 1 << uint(n)
			for lo := 0; lo < total; lo += 1 << 16 {
				hi := lo + 1<<16
				if hi > total {
					hi = total
				}
				jobs = append(jobs, span{2, n, lo, hi})
			}
		}
		for n := 1; n <= maxTer; n++ {
			total := 1
			for i := 0; i < n; i++ {
				total *= 3
			}
			for lo := 0; lo < total; lo += 1 << 16 {
				hi := lo + 1<<16
				if hi > total {
					hi = total
				}
				jobs = append(jobs, span{3, n, lo, hi})
			}
		}
		var evals, sameLen int64
		vlib.Par(len(jobs), 16, func(ji int) {
			j := jobs[ji]
			buf := make([]byte, j.n)
			var ne, ns int64
			for code := j.lo; code < j.hi; code++ {
				v := code
				for i := 0; i < j.n; i++ {
					buf[i] = byte('a' + v%j.base)
					v /= j.base
				}
				for _, f := range fs {
					ne++
					ser, err := dvid.SerializeData(buf, f.comp, f.cksum)
					if err != nil {
						c.Violate("roundtrip:serialize-error:"+f.name, fmt.Sprintf("SerializeData(%q) with %s failed: %v", buf, f.name, err), map[string]interface{}{"payload": string(buf), "format": f.name})
						continue
					}
					hdr := 1
					if f.cksum == dvid.CRC32 {
						hdr = 5
					}
					if strings.HasPrefix(f.name, "lz4") && len(ser)-hdr-4 == len(buf) {
						ns++ // the LZ4 block is exactly as long as its input
					}
					got, _, derr := dvid.DeserializeData(ser, true)
					if derr != nil || !bytes.Equal(got, buf) {
						c.Violate("roundtrip:mismatch:small-alphabet:"+f.name, fmt.Sprintf("round trip of %q through %s not identical: err=%v got %q", buf, f.name, derr, got), map[string]interface{}{"payload": string(buf), "format": f.name})
					}
				}
			}
			atomic.AddInt64(&evals, ne)
			atomic.AddInt64(&sameLen, ns)
		})
		c.Eval(evals)
		c.Set("small_alphabet_roundtrips", evals)
		c.Set("small_alphabet_lz4_block_as_long_as_input", sameLen)
		c.Set("small_alphabet_bound", fmt.Sprintf("all strings over {a,b} of length 1..%d and over {a,b,c} of length 1..%d x {none, snappy, lz4} x {no checksum, CRC32}", maxBin, maxTer))
	}

	// empty payload
	for _, f := range formats {
		c.Eval(1)
		ser, err := dvid.SerializeData(nil, f.comp, f.cksum)
		got, _, derr := dvid.DeserializeData(ser, true)
		if err != nil || derr != nil || len(got) != 0 {
			c.Violate("roundtrip:empty:"+f.name, fmt.Sprintf("empty payload: ser err=%v deser err=%v len=%d", err, derr, len(got)), nil)
		}
	}

	// gob object
	type gobT struct {
		A int
		B string
		C []uint64
		D map[string]float64
	}
	obj := gobT{-7, "hello\x00world", []uint64{0, 1, 1 << 63}, map[string]float64{"x": 1.5}}
	for _, f := range formats {
		c.Eval(1)
		ser, err := dvid.Serialize(obj, f.comp, f.cksum)
		var back gobT
		derr := dvid.Deserialize(ser, &back)
		if err != nil || derr != nil || back.A != obj.A || back.B != obj.B || len(back.C) != 3 || back.C[2] != 1<<63 || back.D["x"] != 1.5 {
			c.Violate("roundtrip:gob:"+f.name, fmt.Sprintf("gob round trip failed: %v %v %+v", err, derr, back), nil)
		}
	}

	// ---- Corruption: every single-bit flip, byte substitutions, truncations of small serialised values ----
	corrLens := []int{1, 2, 5, 16, 40, 100}
	if c.Thorough() {
		corrLens = []int{1, 2, 3, 4, 5, 8, 16, 17, 40, 100, 200, 300}
	}
	type cjob struct {
		f    c15fmt
		kind string
		n    int
	}
	var cjobs []cjob
	for _, f := range formats {
		for _, k := range []string{"ramp", "lcg", "zeros"} {
			for _, n := range corrLens {
				cjobs = append(cjobs, cjob{f, k, n})
			}
		}
	}
	vlib.Par(len(cjobs), 16, func(i int) {
		j := cjobs[i]
		data := c15Payload(j.kind, j.n)
		ser, err := dvid.SerializeData(data, j.f.comp, j.f.cksum)
		if err != nil || len(ser) > 400 {
			return
		}
		hdr := 1
		hasCRC := j.f.cksum == dvid.CRC32 && j.f.comp.Format() != dvid.Gzip
		if hasCRC {
			hdr = 5
		}
		try := func(mut []byte, what string, payloadAltered bool) {
			c.Eval(1)
			// A damaged lz4 size field or snappy length varint makes the decoder allocate up to 4 GiB before it
			// fails; such cases run one at a time so that the check itself cannot exhaust memory.
			if big, huge := c15BigAlloc(mut); big {
				if huge && !c.Thorough() {
					// >= 512 MiB allocation from a damaged length field: seconds of page zeroing each, thorough tier only.
					c.Add("skipped_huge_allocation_cases_in_quick", 1)
					return
				}
				c15BigMu.Lock()
				defer func() { runtime.GC(); c15BigMu.Unlock() }()
				c.Add("large_allocation_cases", 1)
			}
			var got []byte
			var derr error
			rep := map[string]interface{}{"format": j.f.name, "kind": j.kind, "len": j.n, "mutation": what, "serialized_hex": hex.EncodeToString(mut)}
			// without decompression requested (the pass-through read used for pre-compressed transfers): the checksum
			// covers the stored bytes, so an altered payload must be refused on this path as well
			{
				var raw []byte
				var rerr error
				if pn := vlib.Safely(func() { raw, _, rerr = dvid.DeserializeData(mut, false) }); pn != nil {
					c.Violate(fmt.Sprintf("corrupt:panic:nouncompress:%s:%s", j.f.name, c15PanicClass(pn)), fmt.Sprintf("DeserializeData(uncompress=false) panicked on %s of a %s value: %v", what, j.f.name, pn), rep)
				} else if rerr == nil && payloadAltered && hasCRC {
					c.Violate("corrupt:crc-undetected:nouncompress:"+j.f.name, fmt.Sprintf("payload altered (%s) under CRC32 but DeserializeData(uncompress=false) returned %d bytes as data", what, len(raw)), rep)
				} else if rerr != nil {
					c.Outcome("nouncompress-error")
				} else {
					c.Outcome("nouncompress-ok")
				}
				c.Eval(1)
			}
			pn := vlib.Safely(func() { got, _, derr = dvid.DeserializeData(mut, true) })
			if pn != nil {
				c.Violate(fmt.Sprintf("corrupt:panic:%s:%s", j.f.name, c15PanicClass(pn)), fmt.Sprintf("DeserializeData panicked on %s of a %s value: %v", what, j.f.name, pn), rep)
				c.Outcome("panic")
				return
			}
			if derr != nil {
				c.Outcome("error")
				return
			}
			same := bytes.Equal(got, data)
			if same {
				c.Outcome("ok-identical")
			} else {
				c.Outcome("ok-different")
			}
			if payloadAltered && hasCRC {
				// CRC-32 detects every error burst of <= 32 bits, so any single-byte alteration must be caught.
				c.Violate("corrupt:crc-undetected:"+j.f.name, fmt.Sprintf("payload altered (%s) under CRC32 but DeserializeData succeeded", what), rep)
			}
			// gzip values carry gzip's own CRC instead of the envelope's: when a checksum was asked for, an altered payload must not
			// come back as different data (nothing is demanded of values serialised without a checksum)
			if payloadAltered && j.f.comp.Format() == dvid.Gzip && j.f.cksum == dvid.CRC32 && !same {
				c.Violate("corrupt:gzip-undetected:"+j.f.name, fmt.Sprintf("gzip payload altered (%s): DeserializeData succeeded with different bytes", what), rep)
			}
		}
		for pos := 0; pos < len(ser); pos++ {
			inPayload := pos >= hdr
			for bit := 0; bit < 8; bit++ {
				m := append([]byte{}, ser...)
				m[pos] ^= 1 << uint(bit)
				try(m, fmt.Sprintf("bitflip@%d.%d", pos, bit), inPayload)
			}
			for _, nb := range []byte{0x00, 0xff, ^ser[pos], ser[pos] + 1} {
				if nb == ser[pos] {
					continue
				}
				m := append([]byte{}, ser...)
				m[pos] = nb
				try(m, fmt.Sprintf("byte@%d=%02x", pos, nb), inPayload)
			}
			c.Nontrivial(fmt.Sprintf("corr:%s:%s:%d:%d", j.f.name, j.kind, j.n, pos))
		}
		for cut := 1; cut < len(ser); cut++ {
			// exact-capacity copy so that reads beyond the truncated value cannot land in spare capacity
			m := make([]byte, cut)
			copy(m, ser[:cut])
			// a truncation removes payload bytes: under CRC it must be detected; gzip must not return different data
			try(m, fmt.Sprintf("truncate@%d", cut), cut > hdr)
		}
	})
	c.Sample(map[string]interface{}{"corruption": "every bit flip / byte substitution / truncation of SerializeData(ramp[16], snappy+crc32)"})

	// ---- Arbitrary inputs, in a worker process (a hostile size field may exhaust memory or fault in cgo) ----
	res := vlib.RunWorker("c15arb", []string{c.Tier}, nil)
	var n int64
	for _, l := range res.Lines {
		if strings.HasPrefix(l, "DONE ") {
			fmt.Sscanf(l, "DONE %d", &n)
		}
		if strings.HasPrefix(l, "PANIC ") {
			parts := strings.SplitN(l, " ", 4)
			if len(parts) == 4 {
				c.Violate("arbitrary:panic:"+parts[1], "DeserializeData panicked on arbitrary input "+parts[2]+": "+parts[3],
					map[string]interface{}{"input_hex": parts[2], "uncompress": true})
			}
		}
		if strings.HasPrefix(l, "OUTCOMES ") {
			for _, o := range strings.Fields(l)[1:] {
				c.Outcome("arb:" + o)
			}
		}
		if strings.HasPrefix(l, "NONTRIV ") {
			var k int
			fmt.Sscanf(l, "NONTRIV %d", &k)
			for i := 0; i < k; i++ {
				c.Nontrivial(fmt.Sprintf("arb:%d", i))
			}
		}
	}
	c.Eval(n)
	if res.ExitCode != 0 || n == 0 {
		last := res.LastLineWith("TRY ")
		c.Violate("arbitrary:worker-death", fmt.Sprintf("worker died (exit %d) while deserialising %s: %s", res.ExitCode, last, tail(res.Stderr, 600)),
			map[string]interface{}{"last": last})
	}
	c.Sample(map[string]interface{}{"arbitrary": "every byte string of length <= 2; every format byte x hostile tails (lz4 size fields 0/1/0x7fffffff/0xffffffff, cut valid streams)"})
	c.Set("rule", "round trip: payload kinds x lengths x 14 formats x uncompress{true,false}; corruption: every bit flip, 4 byte substitutions per byte and every truncation of serialised values <= 400 bytes; arbitrary: all strings of length <= 2 and every format byte x hostile tails. Non-trivial = distinct (format, payload, mutated position) or distinct arbitrary input that reaches a decoder")
	c.Assume("CRC-32 detects all single-byte alterations (burst <= 32 bits), so 'altered payload must error' is exact")
	c.Assume("gzip header bytes (MTIME, OS, XFL) do not reach the data: success with identical bytes is tolerated for gzip")
	c.Assume("a hostile lz4 size field demanding a multi-GiB allocation is only a violation if the process actually dies")
}

var c15BigMu sync.Mutex

// c15BigAlloc predicts whether deserialising s makes a decoder allocate >= 32 MiB from an embedded length.
func c15BigAlloc(s []byte) (big, huge bool) {
	n := c15AllocSize(s)
	return n >= 32<<20, n >= 512<<20
}

func c15AllocSize(s []byte) uint64 {
	if len(s) < 2 {
		return 0
	}
	cf, ck := dvid.DecodeSerializationFormat(dvid.SerializationFormat(s[0]))
	body := s[1:]
	if ck == dvid.CRC32 {
		if len(body) < 4 {
			return 0
		}
		body = body[4:]
	}
	switch cf {
	case dvid.LZ4:
		if len(body) >= 4 {
			return uint64(binary.LittleEndian.Uint32(body))
		}
	case dvid.Snappy:
		if v, n := binary.Uvarint(body); n > 0 {
			return v
		}
	}
	return 0
}

func c15PanicClass(p interface{}) string {
	s := fmt.Sprint(p)
	switch {
	case strings.Contains(s, "slice bounds out of range"):
		return "slice-bounds"
	case strings.Contains(s, "index out of range"):
		return "index-range"
	case strings.Contains(s, "makeslice"):
		return "makeslice"
	case strings.Contains(s, "interface conversion"):
		return "interface-conversion"
	}
	if len(s) > 40 {
		s = s[:40]
	}
	return s
}

func tail(s string, n int) string {
	if len(s) > n {
		return s[len(s)-n:]
	}
	return s
}

// c15ArbWorker feeds arbitrary byte strings to DeserializeData. It prints "TRY <hex>" before inputs that can
// allocate or enter cgo so that the parent can name the input if the process dies.
func c15ArbWorker(args []string) int {
	thorough := len(args) > 0 && args[0] == "thorough"
	outcomes := map[string]bool{}
	var n int64
	seen := map[string]bool{}
	w := os.Stdout
	try := func(in []byte, risky bool) {
		for _, unc := range []bool{true, false} {
			// exact capacity
			m := make([]byte, len(in))
			copy(m, in)
			if risky && unc {
				fmt.Fprintf(w, "TRY %s\n", hex.EncodeToString(in))
			}
			n++
			var err error
			var out []byte
			pn := vlib.Safely(func() { out, _, err = dvid.DeserializeData(m, unc) })
			switch {
			case pn != nil:
				outcomes["panic"] = true
				fmt.Fprintf(w, "PANIC %s %s %v\n", c15PanicClass(pn)+fmt.Sprintf(":fmt%d", in[0]>>5), hex.EncodeToString(in), strings.ReplaceAll(fmt.Sprint(pn), "\n", " "))
			case err != nil:
				outcomes["error"] = true
			default:
				outcomes[fmt.Sprintf("ok%d", min(len(out), 3))] = true
			}
		}
		if len(in) > 1 {
			seen[string(in)] = true
		}
	}
	// all strings of length <= 2
	try([]byte{}, false)
	for a := 0; a < 256; a++ {
		try([]byte{byte(a)}, false)
		for b := 0; b < 256; b++ {
			try([]byte{byte(a), byte(b)}, false)
		}
	}
	// valid streams to cut
	comp := func(f dvid.CompressionFormat) dvid.Compression { c, _ := dvid.NewCompression(f, dvid.DefaultCompression); return c }
	data := c15Payload("ramp", 64)
	var tails [][]byte
	tails = append(tails, nil, []byte{0}, []byte{1, 2}, []byte{1, 2, 3})
	for _, sz := range []uint32{0, 1, 2, 64, 0xffff, 0x7fffffff, 0x80000000, 0xffffffff} {
		if !thorough && sz >= 0x7fffffff {
			// a 2-4 GiB allocation per case: only in the thorough tier
			continue
		}
		for _, rest := range [][]byte{nil, {0}, {0x10, 'a'}, {0xf0, 1, 2, 3}, {0x1f, 0xff, 0xff, 0xff, 0xff}, bytes.Repeat([]byte{0xff}, 20)} {
			t := make([]byte, 4, 4+len(rest))
			binary.LittleEndian.PutUint32(t, sz)
			tails = append(tails, append(t, rest...))
		}
	}
	for _, f := range []dvid.CompressionFormat{dvid.Uncompressed, dvid.Snappy, dvid.LZ4, dvid.Gzip} {
		ser, _ := dvid.SerializeData(data, comp(f), dvid.NoChecksum)
		body := ser[1:]
		for cut := 0; cut <= len(body); cut++ {
			tails = append(tails, body[:cut])
		}
	}
	for fb := 0; fb < 256; fb++ {
		for _, t := range tails {
			in := append([]byte{byte(fb)}, t...)
			try(in, true)
			// with a correct CRC in place so the tail reaches the decoder
			if (fb>>3)&3 == 1 {
				in2 := make([]byte, 5+len(t))
				in2[0] = byte(fb)
				binary.LittleEndian.PutUint32(in2[1:5], crc32sum(t))
				copy(in2[5:], t)
				try(in2, true)
			}
		}
	}
	var os_ []string
	for o := range outcomes {
		os_ = append(os_, o)
	}
	fmt.Fprintf(w, "OUTCOMES %s\n", strings.Join(os_, " "))
	fmt.Fprintf(w, "NONTRIV %d\n", len(seen))
	fmt.Fprintf(w, "DONE %d\n", n)
	return 0
}

func crc32sum(b []byte) uint32 { return crc32.ChecksumIEEE(b) }
