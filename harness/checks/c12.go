package checks

// C12 Server-issued identifiers are unique and only move forward.
// (A) crash / restart enumeration over the identifier workload: the process is killed at every write unit (and stopped at
//     every operation boundary); a new process allocates again; nothing may repeat or move backwards, and a new label must
//     exceed every label present in the stored voxels of any version.
// (B) explicit enumeration of allocation / ingest histories with restarts (depth-bounded).
// (C) label counter at the top of the 64-bit range.
// Concurrent allocation (schedules) is explored by the C11 engine.

import (
	"encoding/json"
	"fmt"
	"os"
	"path/filepath"
	"strings"

	"github.com/janelia-flyem/dvid/datastore"
	"github.com/janelia-flyem/dvid/dvid"

	"verif/vlib"
	"verif/vsrv"
)

func init() {
	vlib.Register("C12", "model_checking", runC12)
	vlib.Workers["c12alloc"] = c12AllocWorker
	vlib.Workers["c12seg"] = c12SegWorker
}

// c12AllocWorker: c12alloc <dir>: start-up on dir, scan the labels present, allocate one of everything, print ID lines.
func c12AllocWorker(args []string) int {
	dir := args[0]
	vsrv.SingleThreaded = true
	if err := vsrv.Boot(dir, vsrv.Options{KVEngine: "vkv", LogEngine: "vlog"}); err != nil {
		fmt.Printf("BOOTFAIL %s\n", strings.ReplaceAll(err.Error(), "\n", " "))
		return 3
	}
	fmt.Println("BOOTED")
	vsrv.Quiesce()
	R, A := wlUUID(1), wlUUID(2)
	d, err := datastore.GetDataByUUIDName(dvid.UUID(R), "lm")
	if err != nil {
		fmt.Println("NOLM") // the crash came before the instance existed
		fmt.Println("DONE")
		return 0
	}
	// labels present in the stored voxels of every version
	var maxPresent uint64
	for _, u := range []string{R, A} {
		if v, _ := lmGetRaw(u, "lm", [3]int{0, 0, 0}, [3]int{c08NX, c08NY, c08NZ}, true, 0); v != nil {
			for _, l := range v.v {
				if l > maxPresent {
					maxPresent = l
				}
			}
		}
	}
	fmt.Printf("MAXPRESENT %d\n", maxPresent)
	// the largest per-version maximum label the restarted server reports (GET maxlabel): what it loaded from the store
	var maxVersion uint64
	for _, u := range []string{R, A} {
		if r := vsrv.Get("node/" + u + "/lm/maxlabel"); r.OK() {
			if m := wlJSONField(r, "maxlabel"); m > maxVersion {
				maxVersion = m
			}
		}
	}
	fmt.Printf("MAXVERSION %d\n", maxVersion)
	for i := 0; i < 3; i++ {
		fmt.Printf("ID mutid %d\n", d.NewMutationID())
	}
	open := R
	if locked, _ := datastore.LockedUUID(dvid.UUID(R)); locked {
		open = A
		if _, err := datastore.VersionFromUUID(dvid.UUID(A)); err != nil {
			if c, err := vsrv.NewVersion(R); err == nil {
				open = c
			}
		}
	}
	r := vsrv.Post("node/"+open+"/lm/nextlabel/2", nil)
	if r.OK() {
		fmt.Printf("ID label %d\nID label %d\n", wlJSONField(r, "start"), wlJSONField(r, "end"))
	} else {
		fmt.Printf("NOTE nextlabel refused: %s\n", strings.ReplaceAll(r.String(), "\n", " "))
	}
	// a supervoxel split allocates two more labels
	if sv, _ := lmGetRaw(open, "lm", [3]int{0, 0, 0}, [3]int{1, 1, 1}, true, 0); sv != nil && sv.v[0] != 0 {
		sp, rem, rr := lmSplitSV(open, "lm", sv.v[0], []lmRun{{0, 0, 0, 1}})
		if rr.OK() {
			fmt.Printf("ID label %d\nID label %d\nID mutid %d\n", sp, rem, wlJSONField(rr, "MutationID"))
		}
	}
	before := datastore.VerifDump()
	seen := map[string]bool{}
	for _, rp := range before.Repos {
		for _, in := range rp.Instances {
			seen[in] = true
		}
	}
	vsrv.NewInstance(open, "keyvalue", "afterwards", nil)
	vsrv.Commit(open)
	child, _ := vsrv.NewVersion(open)
	vsrv.PostS("repos", fmt.Sprintf(`{"alias":"n","description":"d","root":%q}`, wlUUID(77)))
	after := datastore.VerifDump()
	for _, rp := range after.Repos {
		isNew := true
		for _, o := range before.Repos {
			if o.ID == rp.ID {
				isNew = false
			}
		}
		if isNew {
			fmt.Printf("ID repo %d\n", rp.ID)
		}
		for _, in := range rp.Instances {
			if !seen[in] {
				p := strings.Split(in, ":")
				fmt.Printf("ID instance %s\n", p[len(p)-1])
			}
		}
		for _, n := range rp.Nodes {
			if n.UUID == child || n.UUID == wlUUID(77) {
				fmt.Printf("ID version %d\n", n.Version)
			}
		}
	}
	fmt.Println("DONE")
	vsrv.Shutdown()
	return 0
}

func c12ReadState(dir string) *wlState {
	st := &wlState{}
	if b, err := os.ReadFile(dir + "/wlstate.json"); err == nil {
		json.Unmarshal(b, st)
	}
	return st
}

// c12Judge compares the ids handed out after the restart with everything acknowledged before it.
func c12Judge(c *vlib.Ctx, old *wlState, lines []string, cls, ctxt string, rep map[string]interface{}) {
	maxOld := map[string]uint64{}
	oldSet := map[string]map[uint64]bool{}
	for s, vs := range old.IDs {
		oldSet[s] = map[uint64]bool{}
		for _, v := range vs {
			oldSet[s][v] = true
			if v > maxOld[s] {
				maxOld[s] = v
			}
		}
	}
	var maxPresent, maxVersion uint64
	last := map[string]uint64{}
	for _, l := range lines {
		if strings.HasPrefix(l, "MAXPRESENT ") {
			fmt.Sscanf(l, "MAXPRESENT %d", &maxPresent)
		}
		if strings.HasPrefix(l, "MAXVERSION ") {
			fmt.Sscanf(l, "MAXVERSION %d", &maxVersion)
		}
		var s string
		var v uint64
		if n, _ := fmt.Sscanf(l, "ID %s %d", &s, &v); n != 2 {
			continue
		}
		c.Eval(1)
		switch s {
		case "mutid", "label":
			if v == 0 {
				continue
			}
			if oldSet[s][v] {
				c.Violate("ids:"+cls+":"+s+"-issued-twice", fmt.Sprintf("%s: %s %d was already handed out before the restart", ctxt, s, v), rep)
			} else if v <= maxOld[s] {
				c.Violate("ids:"+cls+":"+s+"-moved-backwards", fmt.Sprintf("%s: new %s %d is not above the largest one handed out before (%d)", ctxt, s, v, maxOld[s]), rep)
			}
			if lv, ok := last[s]; ok && v <= lv {
				c.Violate("ids:"+cls+":"+s+"-not-increasing", fmt.Sprintf("%s: %s %d issued after %d in the same process", ctxt, s, v, lv), rep)
			}
			last[s] = v
			if s == "label" && v <= maxVersion {
				// the per-version maximum was persisted and loaded, yet the allocator starts below it (distinct from labels that
				// are in stored voxels but in no persisted counter, which is the recorded known finding)
				c.Violate("ids:"+cls+":label-not-above-version-maxlabel", fmt.Sprintf("%s: newly allocated label %d is not greater than the maximum label %d that the restarted server itself reports for a version (GET maxlabel)", ctxt, v, maxVersion), rep)
			} else if s == "label" && v <= maxPresent {
				c.Violate("ids:"+cls+":label-not-above-stored", fmt.Sprintf("%s: newly allocated label %d is not greater than label %d present in the stored voxels", ctxt, v, maxPresent), rep)
			}
		default:
			if oldSet[s][v] {
				c.Violate("ids:"+cls+":"+s+"-reused", fmt.Sprintf("%s: %s id %d was used before the restart", ctxt, s, v), rep)
			}
		}
		c.Outcome(s)
	}
}

func runC12(c *vlib.Ctx) {
	ws := wlWorkloads()
	w := ws["ids"]
	nops := len(w.Ops)
	// reference run for the number of writes
	refDir, _ := mkTemp("c12ref")
	defer rmAll(refDir)
	res := vlib.RunWorker("wlrun", []string{refDir, "ids", "0", "9999", "clean", "nosnap"}, nil)
	var total int64
	fmt.Sscanf(res.LastLineWith("DONE"), "DONE writes=%d", &total)
	if total == 0 {
		c.Violate("harness:reference", tail(res.Stderr, 500), nil)
		return
	}
	type job struct {
		crashAt int64
		when    string
		stopAt  int // restart after this many ops (crashAt == 0)
		mode    string
	}
	var jobs []job
	for n := int64(1); n <= total; n++ {
		jobs = append(jobs, job{crashAt: n, when: "before"})
		if c.Thorough() {
			jobs = append(jobs, job{crashAt: n, when: "after"})
		}
	}
	for i := 1; i <= nops; i++ {
		if c.Thorough() || i < 6 || i%7 == 0 || i > nops-6 || (i > 98 && i < 112) {
			jobs = append(jobs, job{stopAt: i, mode: "abrupt"}, job{stopAt: i, mode: "clean"})
		}
	}
	var states, transitions int64
	vlib.Par(len(jobs), 16, func(ji int) {
		j := jobs[ji]
		dir, err := mkTemp("c12")
		if err != nil {
			return
		}
		defer rmAll(dir)
		var cls, ctxt string
		if j.crashAt > 0 {
			r := vlib.RunWorker("wlrun", []string{dir, "ids", "0", "9999", "abrupt", "nosnap"}, nil, fmt.Sprintf("VERIF_CRASH_AT=%d", j.crashAt), "VERIF_CRASH_WHEN="+j.when)
			if r.ExitCode != 137 {
				return
			}
			cls, ctxt = "crash", fmt.Sprintf("identifier workload killed %s write #%d", j.when, j.crashAt)
			if st := c12ReadState(dir); st.Acked < nops {
				cls = "crash:during-" + strings.SplitN(w.Ops[st.Acked].Name, "-", 2)[0]
				ctxt += fmt.Sprintf(" (%d ops acknowledged, %s in flight)", st.Acked, w.Ops[st.Acked].Name)
			}
		} else {
			r := vlib.RunWorker("wlrun", []string{dir, "ids", "0", fmt.Sprint(j.stopAt), j.mode, "nosnap"}, nil)
			if r.LastLineWith("DONE") == "" {
				return
			}
			cls, ctxt = "restart-"+j.mode, fmt.Sprintf("identifier workload stopped (%s) after op #%d (%s)", j.mode, j.stopAt, w.Ops[j.stopAt-1].Name)
		}
		old := c12ReadState(dir)
		rep := map[string]interface{}{"crash_at_write": j.crashAt, "when": j.when, "stop_after_ops": j.stopAt, "mode": j.mode, "acknowledged_ops": old.Acked}
		rec := vlib.RunWorker("c12alloc", []string{dir}, nil)
		if rec.LastLineWith("DONE") == "" {
			c.Violate("ids:"+cls+":restart-fails", fmt.Sprintf("%s: the new process did not come up: %s %s", ctxt, rec.LastLineWith("BOOTFAIL"), tail(rec.Stderr, 500)), rep)
			return
		}
		c.Nontrivial(fmt.Sprintf("%d|%s|%d|%s", j.crashAt, j.when, j.stopAt, j.mode))
		states++
		transitions += int64(old.Acked)
		c12Judge(c, old, rec.Lines, cls, ctxt, rep)
	})
	c12Histories(c, &states, &transitions)
	// schedules: the identifier scenarios (S6*: nextlabel, new instance / repo / version pairs, ingest of a label above the
	// maximum against an allocation) are explored under the cooperative scheduler by workers of the instrumented binary
	{
		sched := filepath.Join(os.Getenv("VERIF_DIR"), ".build", "vsched")
		if _, err := os.Stat(sched); err != nil {
			c.Violate("harness:no-instrumented-binary", "the scheduler-instrumented binary "+sched+" is missing: "+err.Error(), nil)
		} else {
			vlib.PoolExe["c11"] = sched
			bound, maxExec := 2, 4000
			if c.Thorough() {
				bound, maxExec = 3, 60000
			}
			st, tr := c11Explore(c, func(name string) bool { return strings.HasPrefix(name, "S6") }, "sched:", bound, maxExec)
			states += st
			transitions += tr
			c.Set("schedule_executions", st)
			c.Assume("schedules: operations between two scheduling points (lock, WaitGroup, goroutine start, store call) run atomically; a violation is reported only if its schedule reproduces it 3 times out of 3")
		}
	}
	c.Set("states", states)
	c.Set("transitions", transitions)
	c.Set("traces_validated_against_impl", int64(len(jobs)))
	c.Sample(map[string]interface{}{"workload": "ingest; 105 x NewMutationID (crossing the persist-ahead stride) with nextlabel in between; 2 new instances; commit; new version", "fault": "killed before write #31", "then": "new process: 3 mutation ids, nextlabel/2, split-supervoxel, new instance, new version, new repo"})
	c.Set("rule", "fault point = every write unit of the identifier workload (before/after) and every operation boundary (clean/abrupt stop); after the restart every kind of identifier is allocated again and compared with all acknowledged ones; plus allocation/ingest histories with restarts (see histories_*)")
	c.Assume("identifiers handed out inside an operation that was never acknowledged (the process died first) do not count as issued")
}

// ---------------- (B) allocation / ingest histories ----------------

type c12Seg struct {
	Ops   []string `json:"ops"`
	Setup bool     `json:"setup"`
}

// c12SegWorker: c12seg <dir> <json ops>: (re)boots on dir, runs the ops, prints "ID label v", "STORED v", exits abruptly.
func c12SegWorker(args []string) int {
	dir := args[0]
	var seg c12Seg
	json.Unmarshal([]byte(args[1]), &seg)
	vsrv.SingleThreaded = true
	if err := vsrv.Boot(dir, vsrv.Options{KVEngine: "vkv", LogEngine: "vlog"}); err != nil {
		fmt.Printf("BOOTFAIL %s\n", strings.ReplaceAll(err.Error(), "\n", " "))
		return 3
	}
	R := wlUUID(1)
	st := c12ReadState(dir)
	if st.Vars == nil {
		st.Vars = map[string]string{}
	}
	if seg.Setup {
		vsrv.PostS("repos", fmt.Sprintf(`{"alias":"w","description":"d","root":%q}`, R))
		vsrv.NewInstance(R, "labelmap", "lm", map[string]string{"BlockSize": "16,16,16"})
		v := newLMVol([3]int{0, 0, 0}, [3]int{c08NX, c08NY, c08NZ})
		copy(v.v, c08InitialVolume(false))
		lmPostRaw(R, "lm", v, false)
		vsrv.Quiesce()
		lmMerge(R, "lm", 1, 4)
		st.Vars["open"] = R
		st.Vars["n"] = "0"
		for _, l := range []uint64{1, 2, 3, 4, 5} {
			fmt.Printf("STORED %d\n", l)
		}
	}
	open := st.Vars["open"]
	var n int
	fmt.Sscanf(st.Vars["n"], "%d", &n)
	for _, op := range seg.Ops {
		n++
		switch op {
		case "nextlabel":
			r := vsrv.Post("node/"+open+"/lm/nextlabel/1", nil)
			if r.OK() {
				fmt.Printf("ID label %d\n", wlJSONField(r, "start"))
			} else {
				fmt.Printf("REFUSED nextlabel %d\n", r.Code)
			}
		case "splitsv":
			if sv, _ := lmGetRaw(open, "lm", [3]int{0, 0, 0}, [3]int{1, 1, 1}, true, 0); sv != nil {
				sp, rem, r := lmSplitSV(open, "lm", sv.v[0], []lmRun{{0, 0, 0, 1}})
				if r.OK() {
					fmt.Printf("ID label %d\nID label %d\nID mutid %d\n", sp, rem, wlJSONField(r, "MutationID"))
				}
			}
		case "cleave":
			l, r := lmCleave(open, "lm", 1, 4)
			if r.OK() {
				fmt.Printf("ID label %d\nID mutid %d\n", l, wlJSONField(r, "MutationID"))
				if mr := lmMerge(open, "lm", 1, 4); mr.OK() {
					fmt.Printf("ID mutid %d\n", wlJSONField(mr, "MutationID"))
				}
			}
		case "ingest-small", "ingest-above", "ingest-huge", "ingest-max":
			fill := uint64(3)
			if op == "ingest-above" {
				fill = 1000*uint64(n) + 500 // above anything allocated so far in these short histories
			}
			if op == "ingest-huge" {
				fill = 1<<40 + uint64(n)
			}
			if op == "ingest-max" {
				fill = 1<<64 - 2
			}
			v := newLMVol([3]int{16, 0, 0}, [3]int{16, 16, 16})
			v.fill([3]int{16, 0, 0}, [3]int{32, 16, 16}, fill)
			if r := lmPostRaw(open, "lm", v, true); r.OK() {
				fmt.Printf("STORED %d\n", fill)
			}
		case "blocks-above", "blocks-noidx-above":
			// the same label ingestion through POST blocks, with and without index bookkeeping (bulk loading mode)
			fill := 1000*uint64(n) + 700
			solid := make([]uint64, 16*16*16)
			for i := range solid {
				solid[i] = fill
			}
			q := ""
			if op == "blocks-noidx-above" {
				q = "?noindexing=true"
			}
			if r := vsrv.Post("node/"+open+"/lm/blocks"+q, lmBlockStream(map[[3]int32][]uint64{{1, 0, 0}: solid}, 16)); r.OK() {
				fmt.Printf("STORED %d\n", fill)
			}
		case "newversion":
			vsrv.Quiesce()
			vsrv.Commit(open)
			if ch, err := vsrv.NewVersion(open); err == nil {
				open = ch
			}
		}
		vsrv.Quiesce()
	}
	st.Vars["open"] = open
	st.Vars["n"] = fmt.Sprint(n)
	b, _ := json.Marshal(st)
	os.WriteFile(dir+"/wlstate.json", b, 0644)
	fmt.Println("DONE")
	os.Stdout.Sync()
	os.Exit(0)
	return 0
}

func c12Histories(c *vlib.Ctx, states, transitions *int64) {
	alphabet := []string{"nextlabel", "splitsv", "cleave", "ingest-small", "ingest-above", "ingest-huge", "blocks-above", "blocks-noidx-above", "newversion", "restart"}
	depth := 3
	if c.Thorough() {
		depth = 4
	}
	var hist [][]string
	var gen func(p []string, d int)
	gen = func(p []string, d int) {
		if len(p) > 0 && p[len(p)-1] != "restart" && p[len(p)-1] != "newversion" && !strings.HasPrefix(p[len(p)-1], "ingest") && !strings.HasPrefix(p[len(p)-1], "blocks") {
			hist = append(hist, append([]string{}, p...)) // histories ending in an allocation
		}
		if d == 0 {
			return
		}
		for _, a := range alphabet {
			if a == "restart" && (len(p) == 0 || p[len(p)-1] == "restart") {
				continue
			}
			gen(append(p, a), d-1)
		}
	}
	gen(nil, depth)
	// (C) the label counter at the top of the 64-bit range: allocation must fail rather than wrap around
	// (D) several restarts in one history with few allocations in between (mutation ids are persisted ahead in strides:
	// a second restart before the first stride boundary must still move forward)
	hist = append(hist, []string{"cleave", "restart", "cleave", "restart", "cleave"}, []string{"splitsv", "restart", "cleave", "cleave", "restart", "splitsv", "restart", "cleave"},
		[]string{"restart", "cleave", "restart", "restart", "cleave"})
	hist = append(hist, []string{"ingest-max", "nextlabel", "nextlabel", "nextlabel"}, []string{"ingest-max", "nextlabel", "splitsv"}, []string{"ingest-max", "restart", "nextlabel", "nextlabel"})
	var n int64
	vlib.Par(len(hist), 16, func(hi int) {
		h := hist[hi]
		dir, err := mkTemp("c12h")
		if err != nil {
			return
		}
		defer rmAll(dir)
		// split into process segments at "restart"
		var segs [][]string
		cur := []string{}
		for _, op := range h {
			if op == "restart" {
				segs = append(segs, cur)
				cur = []string{}
			} else {
				cur = append(cur, op)
			}
		}
		segs = append(segs, cur)
		var stored, lastAlloc, lastMut uint64
		rep := map[string]interface{}{"history": h}
		for si, s := range segs {
			b, _ := json.Marshal(c12Seg{Ops: s, Setup: si == 0})
			r := vlib.RunWorker("c12seg", []string{dir, string(b)}, nil)
			if r.LastLineWith("DONE") == "" {
				c.Violate("hist:segment-dies", fmt.Sprintf("history %v: process segment %d died: %s %s", h, si, r.LastLineWith("BOOTFAIL"), tail(r.Stderr, 400)), rep)
				return
			}
			for _, l := range r.Lines {
				var v uint64
				if k, _ := fmt.Sscanf(l, "STORED %d", &v); k == 1 {
					if v > stored {
						stored = v
					}
				}
				if k, _ := fmt.Sscanf(l, "ID mutid %d", &v); k == 1 && v != 0 {
					c.Eval(1)
					if v <= lastMut {
						c.Violate("hist:mutid-not-increasing", fmt.Sprintf("history %v: mutation id %d was issued after %d (process segment %d)", h, v, lastMut, si), rep)
					}
					lastMut = v
				}
				if k, _ := fmt.Sscanf(l, "ID label %d", &v); k == 1 {
					c.Eval(1)
					if v <= stored {
						c.Violate("hist:label-not-above-stored", fmt.Sprintf("history %v: allocated label %d is not greater than label %d already present in the volume", h, v, stored), rep)
					}
					if v <= lastAlloc {
						c.Violate("hist:label-not-increasing", fmt.Sprintf("history %v: allocated label %d after %d", h, v, lastAlloc), rep)
					}
					lastAlloc = v
					if v > stored {
						stored = v // allocated labels are written into the volume by cleave / split
					}
				}
			}
		}
		c.Nontrivial(strings.Join(h, ","))
		n++
	})
	*states += int64(len(hist))
	*transitions += int64(len(hist) * depth)
	c.Set("histories_enumerated", len(hist))
	c.Set("histories_depth", depth)
}
