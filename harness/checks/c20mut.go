package checks

// C20 mutation grammars: binary (byte level), JSON (structural) and URL (hostile parameter values). Every grammar is a
// finite, explicitly enumerated set; the check runs all of it (no sampling).

import (
	"bytes"
	"encoding/binary"
	"encoding/json"
	"fmt"
	"sort"
	"strings"
)

// ---------------------------------------------------------------------------------------------------------------------
// binary

// c20Field is an integer field of a binary payload whose offset the payload builder knows.
type c20Field struct {
	Name string
	Off  int
	Len  int    // bytes; for Varint fields the length of the current encoding
	Kind string // count | len | index | coord | label | hdr
	N    uint64 // count/len: the current value; index: the size of the table the index points into
	Var  bool   // protobuf varint (replacement re-encodes and splices)
}

// c20Layer is a byte string to mutate together with what is known about its structure. Wrap turns a mutated layer into the
// request body (compression, framing); nil = the layer is the body.
type c20Layer struct {
	Name   string // "" for the outer layer, else a prefix for the mutation class ("inner")
	Data   []byte
	Fields []c20Field
	Bounds []int
	Wrap   func([]byte) []byte
	// Headerless: the layer is a plain array of voxel values (no header, count, length or index anywhere): nearly every
	// mutation of it is another valid payload. The quick tier uses the reduced position sets stated in c20TruncLens and
	// c20BinMutations for such layers; the thorough tier treats them like any other layer.
	Headerless bool
}

// c20Reduced is set by the quick tier (see c20Layer.Headerless).
var c20Reduced bool

type c20Mut struct {
	Class string
	Desc  string
	Body  []byte
}

func c20PutField(data []byte, f c20Field, v uint64) []byte {
	var enc []byte
	if f.Var {
		enc = binary.AppendUvarint(nil, v)
	} else {
		enc = make([]byte, f.Len)
		for i := 0; i < f.Len; i++ {
			enc[i] = byte(v >> (8 * uint(i)))
		}
	}
	out := make([]byte, 0, len(data)+len(enc))
	out = append(out, data[:f.Off]...)
	out = append(out, enc...)
	out = append(out, data[f.Off+f.Len:]...)
	return out
}

func c20FieldMax(f c20Field) uint64 {
	if f.Var || f.Len >= 8 {
		return ^uint64(0)
	}
	return uint64(1)<<(8*uint(f.Len)) - 1
}

// c20CountValues: the values a count / length field is set to.
func c20CountValues(f c20Field) []uint64 {
	n := f.N
	vals := []uint64{0, 1, n - 1, n + 1, 2 * n, 1 << 16, 1<<31 - 1, 1 << 31, 1<<32 - 1}
	if f.Var || f.Len >= 8 {
		vals = append(vals, 1<<32, 1<<63-1, 1<<63, ^uint64(0))
	}
	return c20Distinct(vals, f)
}

// c20IndexValues: the values an index field is set to (first index outside its table, the one after, the largest).
func c20IndexValues(f c20Field) []uint64 {
	return c20Distinct([]uint64{f.N, f.N + 1, 1<<32 - 1, c20FieldMax(f)}, f)
}

func c20Distinct(vals []uint64, f c20Field) []uint64 {
	max := c20FieldMax(f)
	seen := map[uint64]bool{}
	var out []uint64
	for _, v := range vals {
		if v > max || seen[v] {
			continue
		}
		seen[v] = true
		out = append(out, v)
	}
	return out
}

// c20TruncLens: the prefix lengths tried. Payloads up to 256 bytes: every proper prefix. Longer: every prefix of the first 64
// bytes, the three lengths around every structural boundary and field edge, every 16th byte, and the last 2 bytes.
func c20TruncLens(l c20Layer) []int {
	n := len(l.Data)
	set := map[int]bool{}
	if n <= 256 {
		for i := 0; i < n; i++ {
			set[i] = true
		}
	} else {
		for i := 0; i < 64; i++ {
			set[i] = true
		}
		step := 16
		if l.Headerless && c20Reduced {
			step = 256
		}
		for i := 0; i < n; i += step {
			set[i] = true
		}
		edge := func(b int) {
			for _, d := range []int{-1, 0, 1} {
				if b+d >= 0 && b+d < n {
					set[b+d] = true
				}
			}
		}
		for _, b := range l.Bounds {
			edge(b)
		}
		for _, f := range l.Fields {
			edge(f.Off)
			edge(f.Off + f.Len)
		}
		set[n-1], set[n-2] = true, true
	}
	var out []int
	for k := range set {
		out = append(out, k)
	}
	sort.Ints(out)
	return out
}

// c20BinMutations enumerates the binary grammar over one layer.
func c20BinMutations(l c20Layer) []c20Mut {
	var out []c20Mut
	pre := ""
	if l.Name != "" {
		pre = l.Name + "-"
	}
	emit := func(class, desc string, data []byte) {
		body := data
		if l.Wrap != nil {
			body = l.Wrap(data)
		}
		out = append(out, c20Mut{Class: pre + class, Desc: pre + desc, Body: body})
	}
	n := len(l.Data)
	for _, k := range c20TruncLens(l) {
		emit("truncate", fmt.Sprintf("truncate to %d of %d bytes", k, n), l.Data[:k:k])
	}
	// single-bit flips: every bit of the first 64 bytes and of every known field
	bytesToFlip := map[int]string{}
	first := 64
	if l.Headerless && c20Reduced {
		first = 8
	}
	for i := 0; i < n && i < first; i++ {
		bytesToFlip[i] = "first64"
	}
	hdr := map[int]string{}
	for _, f := range l.Fields {
		if f.Kind == "packed" {
			continue // bit-packed value sections get their own mutations below (they are hundreds of bytes long)
		}
		for i := f.Off; i < f.Off+f.Len && i < n; i++ {
			bytesToFlip[i] = f.Name
			hdr[i] = f.Name
		}
	}
	var pos []int
	for i := range bytesToFlip {
		pos = append(pos, i)
	}
	sort.Ints(pos)
	for _, i := range pos {
		for b := 0; b < 8; b++ {
			d := append([]byte{}, l.Data...)
			d[i] ^= 1 << uint(b)
			emit("bitflip", fmt.Sprintf("flip bit %d of byte %d (%s)", b, i, bytesToFlip[i]), d)
		}
	}
	// byte := 00 / FF / 7F / 80 at every byte of the known fields
	var hp []int
	for i := range hdr {
		hp = append(hp, i)
	}
	sort.Ints(hp)
	for _, i := range hp {
		for _, v := range []byte{0x00, 0xFF, 0x7F, 0x80} {
			if l.Data[i] == v {
				continue
			}
			d := append([]byte{}, l.Data...)
			d[i] = v
			emit("bytefill", fmt.Sprintf("byte %d (%s) := 0x%02X", i, hdr[i], v), d)
		}
	}
	for _, f := range l.Fields {
		switch f.Kind {
		case "count", "len":
			for _, v := range c20CountValues(f) {
				if v == f.N {
					continue
				}
				emit("set-"+f.Name, fmt.Sprintf("%s field at %d := %d (was %d)", f.Name, f.Off, v, f.N), c20PutField(l.Data, f, v))
			}
		case "packed":
			// every packed value := all ones (the largest index of its bit width: outside the list unless the list length is
			// a power of two); only the first / only the last value; every value := 0
			fill := func(class, desc string, from, to int, v byte) {
				d := append([]byte{}, l.Data...)
				for i := from; i < to; i++ {
					d[i] = v
				}
				emit("packed-"+class, fmt.Sprintf("%s at %d (%d bytes, list of %d): %s", f.Name, f.Off, f.Len, f.N, desc), d)
			}
			fill("all-ones", "every value := all ones", f.Off, f.Off+f.Len, 0xFF)
			fill("first-ones", "first byte := 0xFF", f.Off, f.Off+1, 0xFF)
			fill("last-ones", "last byte := 0xFF", f.Off+f.Len-1, f.Off+f.Len, 0xFF)
			fill("all-zero", "every value := 0", f.Off, f.Off+f.Len, 0x00)
		case "index":
			for _, v := range c20IndexValues(f) {
				emit("index-"+f.Name, fmt.Sprintf("%s index at %d := %d (table size %d)", f.Name, f.Off, v, f.N), c20PutField(l.Data, f, v))
			}
		}
	}
	return out
}

// ---------------------------------------------------------------------------------------------------------------------
// JSON

type c20JNode struct {
	kind byte // o a s n b z
	keys []string
	kids []*c20JNode
	lit  string // raw literal of a scalar
}

func c20ParseJSON(s string) *c20JNode {
	d := json.NewDecoder(strings.NewReader(s))
	d.UseNumber()
	n, err := c20ParseValue(d)
	if err != nil {
		panic(fmt.Sprintf("c20: seed JSON %q does not parse: %v", s, err))
	}
	return n
}

func c20ParseValue(d *json.Decoder) (*c20JNode, error) {
	t, err := d.Token()
	if err != nil {
		return nil, err
	}
	switch v := t.(type) {
	case json.Delim:
		switch v {
		case '{':
			n := &c20JNode{kind: 'o'}
			for d.More() {
				kt, err := d.Token()
				if err != nil {
					return nil, err
				}
				n.keys = append(n.keys, kt.(string))
				kid, err := c20ParseValue(d)
				if err != nil {
					return nil, err
				}
				n.kids = append(n.kids, kid)
			}
			_, err := d.Token()
			return n, err
		case '[':
			n := &c20JNode{kind: 'a'}
			for d.More() {
				kid, err := c20ParseValue(d)
				if err != nil {
					return nil, err
				}
				n.kids = append(n.kids, kid)
			}
			_, err := d.Token()
			return n, err
		}
		return nil, fmt.Errorf("unexpected delimiter %v", v)
	case string:
		b, _ := json.Marshal(v)
		return &c20JNode{kind: 's', lit: string(b)}, nil
	case json.Number:
		return &c20JNode{kind: 'n', lit: v.String()}, nil
	case bool:
		return &c20JNode{kind: 'b', lit: fmt.Sprint(v)}, nil
	case nil:
		return &c20JNode{kind: 'z', lit: "null"}, nil
	}
	return nil, fmt.Errorf("unexpected token %v", t)
}

// render writes the tree; at node `at` the function sub decides what is written instead (nil at = plain rendering).
func (n *c20JNode) render(b *strings.Builder, sub map[*c20JNode]func(b *strings.Builder)) {
	if f, ok := sub[n]; ok {
		f(b)
		return
	}
	n.renderSelf(b, sub)
}

func (n *c20JNode) renderSelf(b *strings.Builder, sub map[*c20JNode]func(b *strings.Builder)) {
	switch n.kind {
	case 'o':
		b.WriteByte('{')
		first := true
		for i, k := range n.keys {
			if _, del := sub[n.kids[i]]; del && sub[n.kids[i]] == nil {
				continue
			}
			if !first {
				b.WriteByte(',')
			}
			first = false
			kb, _ := json.Marshal(k)
			b.Write(kb)
			b.WriteByte(':')
			n.kids[i].render(b, sub)
		}
		b.WriteByte('}')
	case 'a':
		b.WriteByte('[')
		first := true
		for _, k := range n.kids {
			if _, del := sub[k]; del && sub[k] == nil {
				continue
			}
			if !first {
				b.WriteByte(',')
			}
			first = false
			k.render(b, sub)
		}
		b.WriteByte(']')
	default:
		b.WriteString(n.lit)
	}
}

func (n *c20JNode) walk(path string, parent *c20JNode, f func(n, parent *c20JNode, path string)) {
	f(n, parent, path)
	for i, k := range n.kids {
		p := fmt.Sprintf("%s[%d]", path, i)
		if n.kind == 'o' {
			p = path + "." + n.keys[i]
		}
		k.walk(p, n, f)
	}
}

// c20JSONReplacements: what every node is replaced with (wrong type, boundary numbers, degenerate containers).
var c20JSONReplacements = []string{`null`, `true`, `0`, `-1`, `1.5`, `1e400`, `-1e400`, `2147483648`, `-2147483649`, `4294967296`,
	`9223372036854775807`, `9223372036854775808`, `18446744073709551615`, `18446744073709551616`, `"x"`, `""`, `"-1"`, `"\u0000"`,
	`[]`, `{}`, `[[]]`, `[null]`, `{"a":{}}`, `[1,2]`, `[1,2,3,4,5]`}

// c20JSONMutations enumerates the structural grammar over a seed document.
func c20JSONMutations(seed string, deep int) []c20Mut {
	var out []c20Mut
	emit := func(class, desc, body string) {
		out = append(out, c20Mut{Class: class, Desc: desc, Body: []byte(body)})
	}
	root := c20ParseJSON(seed)
	rend := func(sub map[*c20JNode]func(b *strings.Builder)) string {
		var b strings.Builder
		root.render(&b, sub)
		return b.String()
	}
	root.walk("$", nil, func(n, parent *c20JNode, path string) {
		for _, rep := range c20JSONReplacements {
			rep := rep
			emit("json-type", fmt.Sprintf("%s := %s", path, rep), rend(map[*c20JNode]func(*strings.Builder){n: func(b *strings.Builder) { b.WriteString(rep) }}))
		}
		if parent != nil {
			emit("json-delete", fmt.Sprintf("delete %s", path), rend(map[*c20JNode]func(*strings.Builder){n: nil}))
		}
		if parent != nil && parent.kind == 'o' {
			// the same key twice: second occurrence null, and second occurrence a copy
			for _, second := range []string{"null", ""} {
				second := second
				var key string
				for i, k := range parent.kids {
					if k == n {
						key = parent.keys[i]
					}
				}
				emit("json-dupkey", fmt.Sprintf("%s given twice (second %s)", path, map[string]string{"null": "null", "": "a copy"}[second]),
					rend(map[*c20JNode]func(*strings.Builder){n: func(b *strings.Builder) {
						n.renderSelf(b, nil)
						kb, _ := json.Marshal(key)
						b.WriteString("," + string(kb) + ":")
						if second == "" {
							n.renderSelf(b, nil)
						} else {
							b.WriteString(second)
						}
					}}))
			}
		}
		switch n.kind {
		case 's':
			for _, v := range []string{"\"\xff\xfe\"", `"` + strings.Repeat("A", 70000) + `"`, `"a/b"`, `"../x"`, `"\ud800"`, `"%00"`, `" "`, `"0"`, `"18446744073709551615"`} {
				v := v
				emit("json-string", fmt.Sprintf("%s := %s", path, c20Trim(v, 24)), rend(map[*c20JNode]func(*strings.Builder){n: func(b *strings.Builder) { b.WriteString(v) }}))
			}
		case 'a':
			// one more element (a copy of the first, or a scalar in an empty array); the elements twice
			emit("json-array", fmt.Sprintf("%s with an extra element", path), rend(map[*c20JNode]func(*strings.Builder){n: func(b *strings.Builder) {
				var in strings.Builder
				n.renderSelf(&in, nil)
				s := in.String()
				if len(n.kids) == 0 {
					b.WriteString("[0]")
					return
				}
				var first strings.Builder
				n.kids[0].renderSelf(&first, nil)
				b.WriteString(s[:len(s)-1] + "," + first.String() + "]")
			}}))
		}
	})
	// body level
	emit("json-body", "empty body", "")
	emit("json-body", "whitespace only", " \n")
	for _, t := range []string{"]", "}", "x", ",", seed, "\x00", "\xff"} {
		emit("json-body", fmt.Sprintf("trailing %s", c20Trim(fmt.Sprintf("%q", t), 16)), seed+t)
	}
	emit("json-body", "leading byte-order mark", "\xef\xbb\xbf"+seed)
	emit("json-body", "document wrapped in an array", "["+seed+"]")
	emit("json-body", "document wrapped in an object", `{"a":`+seed+"}")
	emit("json-body", "document as a JSON string", fmt.Sprintf("%q", seed))
	for _, d := range []int{deep / 2, deep + 1} {
		emit("json-body", fmt.Sprintf("arrays nested %d deep", d), strings.Repeat("[", d)+strings.Repeat("]", d))
		emit("json-body", fmt.Sprintf("objects nested %d deep", d), strings.Repeat(`{"a":`, d)+"0"+strings.Repeat("}", d))
		emit("json-body", fmt.Sprintf("%d unclosed arrays", d), strings.Repeat("[", d))
	}
	for k := 0; k < len(seed); k++ {
		if len(seed) > 256 && k >= 64 && k%16 != 0 {
			continue
		}
		emit("json-truncate", fmt.Sprintf("truncate to %d of %d bytes", k, len(seed)), seed[:k])
	}
	return out
}

// ---------------------------------------------------------------------------------------------------------------------
// URLs

// c20HostileScalars: the values every numeric path or query parameter is set to.
var c20HostileScalars = []string{"", "-1", "0", "abc", "1e9", "2147483647", "2147483648", "4294967296", "9223372036854775807",
	"18446744073709551615", "18446744073709551616", "1_1", "0_0_0", "-0", "1.5", "0x10", "%20", "%00", "a/b"}

// c20HostileCoords: values for a parameter of the form a_b_c (the seed gives a, b, c).
func c20HostileCoords(seed string) []string {
	p := strings.Split(seed, "_")
	var out []string
	for _, h := range c20HostileScalars {
		out = append(out, h)
		if strings.ContainsAny(h, "_/%") || h == "" {
			continue
		}
		if len(p) >= 2 {
			q := append([]string{}, p...)
			q[0] = h
			out = append(out, strings.Join(q, "_"))
			q = append([]string{}, p...)
			q[len(q)-1] = h
			out = append(out, strings.Join(q, "_"))
			for i := range q {
				q[i] = h
			}
			out = append(out, strings.Join(q, "_"))
		}
	}
	out = append(out, "100000_100000_100000", "1_1_1_1", "_", "__", seed+"_", "_"+seed)
	return c20DistinctS(out)
}

func c20DistinctS(in []string) []string {
	seen := map[string]bool{}
	var out []string
	for _, s := range in {
		if !seen[s] {
			seen[s] = true
			out = append(out, s)
		}
	}
	return out
}

type c20Param struct {
	Name, Seed string
	Start, End int // position of {name:seed} in the template
}

func c20ParseTemplate(t string) (ps []c20Param) {
	for i := 0; i < len(t); i++ {
		if t[i] != '{' {
			continue
		}
		e := strings.IndexByte(t[i:], '}')
		if e < 0 {
			break
		}
		in := t[i+1 : i+e]
		c := strings.IndexByte(in, ':')
		if c < 0 {
			i += e
			continue // {uuid}
		}
		ps = append(ps, c20Param{Name: in[:c], Seed: in[c+1:], Start: i, End: i + e + 1})
		i += e
	}
	return
}

// c20Instantiate fills the template with the seed values, except parameter k which gets v (k < 0: all seeds).
func c20Instantiate(t string, ps []c20Param, k int, v string) string {
	var b bytes.Buffer
	last := 0
	for i, p := range ps {
		b.WriteString(t[last:p.Start])
		if i == k {
			b.WriteString(v)
		} else {
			b.WriteString(p.Seed)
		}
		last = p.End
	}
	b.WriteString(t[last:])
	return b.String()
}

// c20URLMutations: every parameter of the template set to every hostile value, the others keeping their seed values.
func c20URLMutations(tmpl string) (seedURL string, out []c20Mut) {
	ps := c20ParseTemplate(tmpl)
	seedURL = c20Instantiate(tmpl, ps, -1, "")
	for k, p := range ps {
		vals := c20HostileScalars
		if strings.Contains(p.Seed, "_") {
			vals = c20HostileCoords(p.Seed)
		}
		if p.Name == "key" || p.Name == "tag" || p.Name == "a" || p.Name == "b" || p.Name == "uuid" || p.Name == "instance" || p.Name == "command" {
			vals = append(append([]string{}, vals...), c20HostileKeys...)
		}
		for _, v := range c20DistinctS(vals) {
			if v == p.Seed {
				continue
			}
			out = append(out, c20Mut{Class: "url-" + p.Name, Desc: fmt.Sprintf("%s := %q", p.Name, v), Body: []byte(c20Instantiate(tmpl, ps, k, v))})
		}
	}
	return
}
