package checks

// C02 part 2: everything readable at a committed version C reads back identically after any later history.
// Explicit enumeration of later-operation sequences (depth <= d) over a multi-instance world; the reference snapshot is
// taken at commit time in a reference world; every sequence is run twice: reading C early (at commit) and reading C
// only after the later operations (a version whose caches are first built while its descendants already exist).

import (
	"encoding/json"
	"fmt"
	"strings"

	"github.com/janelia-flyem/dvid/datastore"
	"github.com/janelia-flyem/dvid/dvid"

	"verif/vlib"
	"verif/vsrv"
)

func init() { vlib.Workers["c02stab"] = c02StabWorker }

type c02StabJob struct {
	Ops       []string `json:"ops"`
	ReadEarly bool     `json:"read_early"`
	// QuietLM: the committed version C receives no label request of its own before it is committed (its label caches are
	// then first built on behalf of a descendant)
	QuietLM bool `json:"quiet_lm"`
}

type c02StabResult struct {
	Snap  string   `json:"snap"` // snapshot of C at commit time (only when ReadEarly)
	Bad   []string `json:"bad"`  // "opIndex\tdetail": snapshot of C differs from the commit-time snapshot after that op
	Late  string   `json:"late"` // snapshot of C read only after all ops (when !ReadEarly)
	Fail  string   `json:"fail"` // a later op was unexpectedly refused (harness information, not a violation)
	Trans int      `json:"trans"`
}

var c02StabAlphabet = []string{"k-merge", "k-cleave", "k-splitsv", "k-rawmutate", "k-renumber", "s-merge", "k-kvedit", "k-annedit", "k-roiedit", "deepen", "mergenode", "newinstance", "delinstance",
	// o-*: edits in an OLDER sibling branch of C (created before C, left open: its version id is smaller than C's)
	"o-kvedit", "o-lmedit", "o-annedit", "o-roiedit",
	// neuron annotations: the branch head is served from an in-memory copy that commits and merges hand over
	"k-njedit", "o-njedit",
	// resolve: conflicts between two committed branch heads are removed in extension nodes and the heads are merged;
	// data list [kv2, kv]; a: only kv conflicts (kv2 is listed first and has nothing to delete), b: both conflict;
	// ks / sk: which parent has priority. The losing committed parent must read as before.
	"resolve-a-ks", "resolve-a-sk", "resolve-b-ks", "resolve-b-sk"}

func c02StabReads() map[string][]string {
	return map[string][]string{
		"lm": {"raw/0_1_2/32_32_16/0_0_0", "raw/0_1_2/32_32_16/0_0_0?supervoxels=true", "size/1", "size/2", "size/3", "size/4", "size/9", "size/100", "supervoxels/1", "supervoxels/2",
			"sparsevol/1", "sparsevol/2", "sparsevol/3", "sparsevol-coarse/1", "label/20_4_4", "label/5_5_5", "label/20_20_4", "index/1", "index/2", "index/3", "listlabels", "supervoxel-splits", "maxlabel"},
		"kv":  {"keys", "key/k1", "key/k2", "key/k3", "key/k4"},
		"kv2": {"keys", "key/k1", "key/k2"},
		"ann": {"all-elements", "tag/t1", "tag/t2", "elements/200_200_200/0_0_0"},
		"roi": {"roi"},
		"nj":  {"keys", "key/1", "key/2", "key/3", "all", "fields"},
	}
}

func c02StabSnap(uuid string) string {
	var sb strings.Builder
	reads := c02StabReads()
	for _, inst := range []string{"lm", "kv", "kv2", "ann", "roi", "nj"} {
		for _, rd := range reads[inst] {
			x := vsrv.Get("node/" + uuid + "/" + inst + "/" + rd)
			if inst == "nj" && rd != "fields" {
				fmt.Fprintf(&sb, "%s/%s=%s|", inst, rd, njNormalize(x.Code, x.Body))
				continue
			}
			fmt.Fprintf(&sb, "%s/%s=%s|", inst, rd, lmNormalize(rd, x.Code, x.Body))
		}
	}
	for _, rd := range []string{"note", "log", "commit"} {
		x := vsrv.Get("node/" + uuid + "/" + rd)
		fmt.Fprintf(&sb, "node-%s=%d:%s|", rd, x.Code, x.Body)
	}
	return sb.String()
}

func c02StabDiff(a, b string) string {
	pa, pb := strings.Split(a, "|"), strings.Split(b, "|")
	var out []string
	for i := range pa {
		if i < len(pb) && pa[i] != pb[i] {
			out = append(out, trunc(pa[i], 160)+"  ->  "+trunc(pb[i], 160))
		}
	}
	return strings.Join(out, " ; ")
}

func c02StabWorker(args []string) int {
	dir, err := mkTemp("c02s")
	if err != nil {
		return 1
	}
	defer rmAll(dir)
	if err := vsrv.Boot(dir, vsrv.Options{}); err != nil {
		return 1
	}
	vsrv.SingleThreaded = true
	return vlib.ServeJobs(func(job string) string {
		var j c02StabJob
		json.Unmarshal([]byte(job), &j)
		var res c02StabResult
		root, _ := vsrv.NewRepo()
		vsrv.NewInstance(root, "labelmap", "lm", map[string]string{"BlockSize": "16,16,16"})
		vsrv.NewInstance(root, "keyvalue", "kv", nil)
		vsrv.NewInstance(root, "annotation", "ann", nil)
		vsrv.NewInstance(root, "roi", "roi", map[string]string{"BlockSize": "4,4,4"})
		vsrv.NewInstance(root, "keyvalue", "doomed", nil)
		vsrv.NewInstance(root, "keyvalue", "kv2", nil)
		vsrv.PostS("node/"+root+"/kv2/key/k1", "r1")
		vsrv.NewInstance(root, "neuronjson", "nj", nil)
		vsrv.PostS("node/"+root+"/nj/key/1?u=t", `{"bodyid":1,"a":"r"}`)
		vsrv.PostS("node/"+root+"/nj/key/2?u=t", `{"bodyid":2,"a":"r"}`)
		base := newLMVol([3]int{0, 0, 0}, [3]int{32, 32, 16})
		base.fill([3]int{0, 0, 0}, [3]int{16, 32, 16}, 1)
		base.fill([3]int{16, 0, 0}, [3]int{32, 16, 16}, 2)
		base.fill([3]int{16, 16, 0}, [3]int{32, 32, 16}, 3)
		base.fill([3]int{4, 4, 4}, [3]int{8, 8, 8}, 4)
		lmPostRaw(root, "lm", base, false)
		vsrv.PostS("node/"+root+"/kv/key/k1", "r1")
		vsrv.PostS("node/"+root+"/kv/key/k2", "r2")
		vsrv.PostS("node/"+root+"/doomed/key/x", "y")
		vsrv.PostS("node/"+root+"/ann/elements", `[{"Pos":[10,10,10],"Kind":"PreSyn","Tags":["t1"],"Prop":{},"Rels":[{"Rel":"PreSynTo","To":[20,20,20]}]},{"Pos":[20,20,20],"Kind":"PostSyn","Tags":["t1","t2"],"Prop":{},"Rels":[{"Rel":"PostSynTo","To":[10,10,10]}]}]`)
		vsrv.PostS("node/"+root+"/roi/roi", "[[0,0,0,3],[1,0,0,0]]")
		vsrv.Settle(root, "lm", "ann")
		vsrv.Commit(root)
		O, _ := vsrv.Branch(root, "older") // open sibling branch created before C
		C, _ := vsrv.NewVersion(root)
		if !j.QuietLM {
			lmMerge(C, "lm", 1, 4)
		}
		vsrv.PostS("node/"+C+"/kv/key/k2", "c2")
		vsrv.Delete("node/" + C + "/kv/key/k1")
		vsrv.PostS("node/"+C+"/kv/key/k3", "c3")
		vsrv.PostS("node/"+C+"/ann/elements", `[{"Pos":[70,10,10],"Kind":"Note","Tags":["t2"],"Prop":{"a":"b"},"Rels":[]}]`)
		vsrv.PostS("node/"+C+"/roi/roi", "[[2,2,2,4]]")
		vsrv.PostS("node/"+C+"/note", `{"note":"the note"}`)
		vsrv.PostS("node/"+C+"/nj/key/1?u=t", `{"bodyid":1,"b":"c"}`)
		vsrv.Settle(C, "lm", "ann")
		vsrv.Commit(C)
		if j.ReadEarly {
			res.Snap = c02StabSnap(C)
		}
		// versions committed by later operations (deepen, mergenode) are held to the same standard from then on
		type laterCommitted struct{ uuid, snap, by string }
		var later []laterCommitted
		commitLater := func(u, by string) {
			vsrv.Settle(u, "lm", "ann")
			vsrv.Commit(u)
			if j.ReadEarly {
				later = append(later, laterCommitted{u, c02StabSnap(u), by})
			}
		}
		K, S := "", ""
		getK := func() string {
			if K == "" {
				K, _ = vsrv.NewVersion(C)
			}
			return K
		}
		getS := func() string {
			if S == "" {
				S, _ = vsrv.Branch(root, "sib")
			}
			return S
		}
		note := func(r vsrv.Resp, what string) {
			if !r.OK() && res.Fail == "" {
				res.Fail = what + ": " + r.String()
			}
		}
		for i, op := range j.Ops {
			res.Trans++
			switch op {
			case "k-merge":
				note(lmMerge(getK(), "lm", 2, 3), op)
			case "k-cleave":
				_, r := lmCleave(getK(), "lm", 1, 4)
				note(r, op)
			case "k-splitsv":
				_, _, r := lmSplitSV(getK(), "lm", 2, []lmRun{{16, 0, 0, 8}, {16, 1, 0, 8}})
				note(r, op)
			case "k-rawmutate":
				v := newLMVol([3]int{0, 0, 0}, [3]int{16, 16, 16})
				v.fill([3]int{0, 0, 0}, [3]int{16, 16, 16}, 9)
				note(lmPostRaw(getK(), "lm", v, true), op)
			case "k-renumber":
				note(lmRenumber(getK(), "lm", 100, 1), op)
			case "s-merge":
				note(lmMerge(getS(), "lm", 1, 2), op)
			case "k-kvedit":
				k := getK()
				vsrv.PostS("node/"+k+"/kv/key/k2", "later")
				vsrv.Delete("node/" + k + "/kv/key/k3")
				vsrv.PostS("node/"+k+"/kv/key/k4", "new")
			case "k-annedit":
				k := getK()
				vsrv.Delete("node/" + k + "/ann/element/70_10_10")
				vsrv.PostS("node/"+k+"/ann/move/10_10_10/12_12_12", "")
				vsrv.PostS("node/"+k+"/ann/elements", `[{"Pos":[30,30,30],"Kind":"Note","Tags":["t1"],"Prop":{},"Rels":[]}]`)
			case "k-roiedit":
				vsrv.Delete("node/" + getK() + "/roi/roi")
			case "deepen":
				k := getK()
				commitLater(k, op)
				K, _ = vsrv.NewVersion(k)
			case "mergenode":
				k, s := getK(), getS()
				commitLater(k, op)
				commitLater(s, op)
				m, err := vsrv.Merge(k, s)
				if err == nil {
					K, S = m, ""
				}
			case "newinstance":
				k := getK()
				vsrv.NewInstance(k, "keyvalue", fmt.Sprintf("later%d", i), nil)
				vsrv.PostS(fmt.Sprintf("node/%s/later%d/key/k1", k, i), "zzz")
			case "delinstance":
				datastore.DeleteDataByName(dvid.UUID(root), "doomed", "")
			case "o-kvedit":
				vsrv.PostS("node/"+O+"/kv/key/k2", "older2")
				vsrv.Delete("node/" + O + "/kv/key/k1")
				vsrv.PostS("node/"+O+"/kv/key/k4", "older4") // a key that exists nowhere else
				vsrv.PostS("node/"+O+"/kv/key/k3", "older3") // a key that C wrote itself
			case "o-lmedit":
				note(lmMerge(O, "lm", 1, 3), op)
				v := newLMVol([3]int{16, 0, 0}, [3]int{16, 16, 16})
				v.fill([3]int{16, 0, 0}, [3]int{32, 16, 16}, 100)
				note(lmPostRaw(O, "lm", v, true), op)
			case "o-annedit":
				vsrv.Delete("node/" + O + "/ann/element/20_20_20")
				vsrv.PostS("node/"+O+"/ann/elements", `[{"Pos":[71,11,11],"Kind":"Note","Tags":["t2"],"Prop":{},"Rels":[]}]`)
			case "k-njedit", "o-njedit":
				u := O
				if op == "k-njedit" {
					u = getK()
				}
				vsrv.PostS("node/"+u+"/nj/key/3?u=t", `{"bodyid":3,"a":"later"}`)
				vsrv.PostS("node/"+u+"/nj/key/1?u=t", `{"bodyid":1,"a":"later"}`)
				vsrv.Delete("node/" + u + "/nj/key/2?u=t")
			case "o-roiedit":
				vsrv.PostS("node/"+O+"/roi/roi", "[[5,5,5,6]]")
			case "resolve-a-ks", "resolve-a-sk", "resolve-b-ks", "resolve-b-sk":
				k, sb := getK(), getS()
				vsrv.PostS("node/"+k+"/kv/key/k2", "k-side")
				vsrv.PostS("node/"+sb+"/kv/key/k2", "s-side")
				if strings.HasPrefix(op, "resolve-b") {
					vsrv.PostS("node/"+k+"/kv2/key/k2", "k-side")
					vsrv.PostS("node/"+sb+"/kv2/key/k2", "s-side")
				}
				commitLater(k, op)
				commitLater(sb, op)
				parents := []string{k, sb}
				if strings.HasSuffix(op, "-sk") {
					parents = []string{sb, k}
				}
				r := vsrv.PostS("repo/"+root+"/resolve", fmt.Sprintf(`{"data":["kv2","kv"],"parents":[%q,%q],"note":"resolved"}`, parents[0], parents[1]))
				note(r, op)
				var out struct{ Child string }
				if json.Unmarshal(r.Body, &out) == nil && out.Child != "" {
					K, S = out.Child, ""
				}
			}
			vsrv.Settle(O, "lm", "ann")
			if K != "" {
				vsrv.Settle(K, "lm", "ann")
			}
			if S != "" {
				vsrv.Settle(S, "lm", "ann")
			}
			if j.ReadEarly {
				if s := c02StabSnap(C); s != res.Snap {
					res.Bad = append(res.Bad, fmt.Sprintf("%d\t%s", i, c02StabDiff(res.Snap, s)))
					res.Snap = s
				}
				for li := range later {
					if s := c02StabSnap(later[li].uuid); s != later[li].snap {
						res.Bad = append(res.Bad, fmt.Sprintf("%d\tversion-committed-by-%s:%s", i, later[li].by, c02StabDiff(later[li].snap, s)))
						later[li].snap = s
					}
				}
			}
		}
		if !j.ReadEarly {
			res.Late = c02StabSnap(C)
		}
		b, _ := json.Marshal(res)
		return string(b)
	})
}

func c02Stability(c *vlib.Ctx, states, transitions *int64) {
	depth := 2
	if c.Thorough() {
		depth = 3
	}
	var seqs [][]string
	var gen func(prefix []string, d int)
	gen = func(prefix []string, d int) {
		seqs = append(seqs, append([]string{}, prefix...))
		if d == 0 {
			return
		}
		for _, op := range c02StabAlphabet {
			gen(append(prefix, op), d-1)
		}
	}
	gen(nil, depth)
	var jobs []string
	for _, s := range seqs {
		for _, early := range []bool{true, false} {
			for _, quiet := range []bool{false, true} {
				b, _ := json.Marshal(c02StabJob{Ops: s, ReadEarly: early, QuietLM: quiet})
				jobs = append(jobs, string(b))
			}
		}
	}
	// the jobs of the empty sequence come first; their early-read snapshots are the reference. The rest is run and judged
	// in chunks: 50 000 results with their snapshots at once were 18 GB in the driver (thorough tier)
	results := vlib.Pool("c02stab", nil, 4, jobs[:4])
	// reference: the commit-time snapshot of the empty sequence read early
	refs := map[bool]string{}
	for i, r := range results {
		var j c02StabJob
		json.Unmarshal([]byte(jobs[i]), &j)
		if len(j.Ops) == 0 && j.ReadEarly && !r.Died {
			var res c02StabResult
			json.Unmarshal([]byte(r.Out), &res)
			refs[j.QuietLM] = res.Snap
		}
	}
	if refs[false] == "" || refs[true] == "" {
		c.Violate("stability:harness:no-reference", "could not obtain the reference snapshot", nil)
		return
	}
	refused := map[string]int{}
	const chunk = 1500
	for from := 0; from < len(jobs); from += chunk {
		to := from + chunk
		if to > len(jobs) {
			to = len(jobs)
		}
		results := vlib.Pool("c02stab", nil, 16, jobs[from:to])
		for ri, r := range results {
			i := from + ri
			var j c02StabJob
			json.Unmarshal([]byte(jobs[i]), &j)
			if r.Died {
				c.Violate("stability:worker-death", fmt.Sprintf("worker died on later history %v: %s", j.Ops, tail(r.Stderr, 1200)), map[string]interface{}{"ops": j.Ops})
				continue
			}
			var res c02StabResult
			if err := json.Unmarshal([]byte(r.Out), &res); err != nil {
				continue
			}
			ref := refs[j.QuietLM]
			*transitions += int64(res.Trans)
			*states++
			c.Eval(int64(res.Trans + 1))
			if len(j.Ops) >= 1 {
				c.Nontrivial(fmt.Sprintf("%v|%v|%v", j.Ops, j.ReadEarly, j.QuietLM))
			}
			if res.Fail != "" {
				refused[strings.SplitN(res.Fail, ":", 2)[0]]++
			}
			if j.ReadEarly {
				if res.Snap != ref && len(res.Bad) == 0 {
					// different worlds must agree on the commit-time snapshot (content reads carry no uuids)
					c.Violate("stability:commit-time-snapshot-differs", fmt.Sprintf("history %v: commit-time snapshot differs from the reference world's: %s", j.Ops, c02StabDiff(ref, res.Snap)), map[string]interface{}{"ops": j.Ops})
				}
				for _, b := range res.Bad {
					p := strings.SplitN(b, "\t", 2)
					var idx int
					fmt.Sscanf(p[0], "%d", &idx)
					c.Violate("stability:changed-after:"+j.Ops[idx]+":"+c02DiffClass(p[1]), fmt.Sprintf("after later operations %v (the %d-th: %s) the committed version reads differently: %s", j.Ops, idx+1, j.Ops[idx], p[1]), map[string]interface{}{"ops": j.Ops, "read": "early"})
				}
				c.Outcome("early-stable")
			} else {
				if res.Late != ref {
					last := "none"
					if len(j.Ops) > 0 {
						last = j.Ops[len(j.Ops)-1]
					}
					d := c02StabDiff(ref, res.Late)
					c.Violate("stability:read-late-differs:"+last+":"+c02DiffClass(d), fmt.Sprintf("committed version first read only after later operations %v reads differently from its commit-time content: %s", j.Ops, d), map[string]interface{}{"ops": j.Ops, "read": "late", "quiet_lm": j.QuietLM})
				}
				c.Outcome("late-stable")
			}
		}
	}
	c.Set("stability_sequences", len(seqs))
	c.Set("stability_depth", depth)
	c.Set("stability_later_ops_refused", refused)
	c.Sample(map[string]interface{}{"stability": []string{"k-merge", "mergenode"}, "read": "late", "expect": "snapshot of the committed version == its commit-time snapshot in the reference world"})
}

// c02DiffClass names the first differing read endpoint (keeps violation keys structural).
func c02DiffClass(d string) string {
	p := strings.SplitN(d, "=", 2)[0]
	p = strings.SplitN(p, "?", 2)[0]
	parts := strings.Split(p, "/")
	if len(parts) >= 2 {
		return parts[0] + "/" + parts[1]
	}
	return p
}
