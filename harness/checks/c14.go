package checks

// C14 Lower-resolution label levels always match the documented down-sampling.
//
// Bounded-exhaustive exploration of write histories on real labelmap instances (BlockSize 16^3, MaxDownresLevel L)
// driven through the HTTP router. A history is a fresh repo + instance and 1..2 writes (POST blocks?downres=true,
// POST raw, POST raw?mutate=true, POST split-supervoxel, POST split) whose touched block sets are enumerated
// completely (every non-empty subset of the 8 octants of a parent block, ...), optionally with a commit/newversion
// in between. After every write the check waits for DVID's own idle predicate and then reads every level 0..L of the
// whole pyramid under one level-L block on every version, through two read paths (GET raw, GET blocks), and demands
//
//	level[n+1][p] == vote(level[n][2p .. 2p+1]^3)   for every n < L and every voxel p
//
// where vote is a 20-line reference (most frequent non-zero label, ties to the smaller label, all zero -> 0).
// The oracle is level-to-level on what the server itself returns; nothing is demanded of level 0.
//
// "before the volume reports itself idle": the worker runs DVID on the real Badger engine wrapped by c14probe.go, which
// calls back just before a mutation commits the write batch holding its level-s blocks (s >= 1). At that instant level s
// is not stored yet, so DVID's idle predicate (downres.BlockOnUpdating: !Updating() && !AnyScaleUpdating()) must be false.
// This is a deterministic observation on the mutation's own goroutine - no timing is involved.
//
// Reporting: every failing history is run once (pass 1) and classed; the 3 simplest histories of each class are then
// re-run 3 times from fresh repos and once translated to non-negative block coordinates (pass 2, see c14Run) before a
// VIOLATION is printed. Debugging aids: VERIF_C14_FAMILY=<family name prefix>, VERIF_C14_DEBUG=count|1.

import (
	"bytes"
	"compress/gzip"
	"encoding/binary"
	"encoding/json"
	"fmt"
	"os"
	"sort"
	"strings"
	"time"

	"github.com/janelia-flyem/dvid/datastore"
	"github.com/janelia-flyem/dvid/datatype/common/downres"
	"github.com/janelia-flyem/dvid/datatype/common/labels"
	"github.com/janelia-flyem/dvid/dvid"

	"verif/vlib"
	"verif/vsrv"
)

func init() {
	vlib.Register("C14", "model_checking", runC14)
	vlib.Workers["c14"] = c14Worker
}

const c14B = 16 // block edge in voxels

// c14W is one write of a history.
type c14W struct {
	Mode   string   `json:"m"`           // blocks | raw | rawmut | rawbox | rawmutbox | svsplit | bodysplit
	Blocks [][3]int `json:"b"`           // absolute level-0 block coordinates touched (splits: the block holding the split voxels)
	Fill   string   `json:"f"`           // solid | tie | zeros | subblock | shared | zero ; splits: half | one8 | tie
	Child  bool     `json:"c,omitempty"` // commit the current node first and write into a new child version
}

// c14Job is one history: MaxDownresLevel L, the level-L block T whose whole pyramid is observed, the writes.
type c14Job struct {
	L int    `json:"L"`
	T [3]int `json:"T"`
	W []c14W `json:"w"`
	// Confirm: re-run the history 3 times from fresh repos and once translated to non-negative coordinates (second pass,
	// only for histories that failed in the first pass)
	Confirm bool `json:"confirm,omitempty"`
}

type c14Viol struct {
	Key    string `json:"key"` // first pass: raw class; after confirmation: the reported key
	What   string `json:"what"`
	Path   string `json:"path"`
	Cat    string `json:"cat"`
	Status string `json:"status"`
	Level  int    `json:"level"`
	Write  int    `json:"write"`
	OnVer  string `json:"onver"`
	Sign   string `json:"sign"` // sign class of the touched blocks at the level being down-sampled when it went wrong
}

type c14Res struct {
	Err        string   `json:"err,omitempty"`
	Codes      []int    `json:"codes,omitempty"`   // HTTP status of every write request
	Evals      int64    `json:"evals"`             // lower-level voxels compared
	Pairs      int      `json:"pairs"`             // (version, level pair, read path) comparisons
	Nontriv    bool     `json:"nontriv,omitempty"` // last write changed level 0 and some lower level is non-zero
	Changed0   bool     `json:"ch0,omitempty"`     // last write changed level 0
	Outcome    string   `json:"out,omitempty"`     // outcome signature
	Viol       *c14Viol `json:"viol,omitempty"`    // first violation of the history (reproduced 3/3 from fresh repos)
	Unstable   string   `json:"unstable,omitempty"`
	ReadFail   string   `json:"readfail,omitempty"`
	Commits    int      `json:"commits,omitempty"`    // lower-level store batches observed inside the mutations
	IdleViol   *c14Viol `json:"idleviol,omitempty"`   // the instance reported idle inside a mutation before a level was stored
	SingleFail int      `json:"singlefail,omitempty"` // single-block GET raw of the top level not answered 200
	Sample     string   `json:"sample,omitempty"`
}

// ---------------------------------------------------------------------------------------------------------------
// reference model: the documented vote

// c14Vote down-samples a cubic volume of edge n (x fastest) to edge n/2.
func c14Vote(hi []uint64, n int) []uint64 {
	m := n / 2
	lo := make([]uint64, m*m*m)
	for z := 0; z < m; z++ {
		for y := 0; y < m; y++ {
			for x := 0; x < m; x++ {
				lo[(z*m+y)*m+x] = c14VoteCell(c14Cell(hi, n, x, y, z))
			}
		}
	}
	return lo
}

func c14Cell(hi []uint64, n, x, y, z int) (c [8]uint64) {
	i := 0
	for dz := 0; dz < 2; dz++ {
		for dy := 0; dy < 2; dy++ {
			for dx := 0; dx < 2; dx++ {
				c[i] = hi[((2*z+dz)*n+2*y+dy)*n+2*x+dx]
				i++
			}
		}
	}
	return
}

// c14VoteCell: most frequent non-zero label, ties to the smaller label, all zero gives zero.
func c14VoteCell(c [8]uint64) uint64 {
	var best uint64
	bestN := 0
	for i := 0; i < 8; i++ {
		if c[i] == 0 {
			continue
		}
		n := 0
		for j := 0; j < 8; j++ {
			if c[j] == c[i] {
				n++
			}
		}
		if n > bestN || (n == bestN && c[i] < best) {
			best, bestN = c[i], n
		}
	}
	return best
}

// ---------------------------------------------------------------------------------------------------------------
// block fillings

func c14Mod(a, m int) int { return ((a % m) + m) % m }

// c14Labels gives the two labels (a < b) a filling uses in block blk for write number wi; they identify the block
// (within an 8^3 neighbourhood) and the write, so a misplaced or stale octant is visible.
func c14Labels(wi int, blk [3]int) (uint64, uint64) {
	k := c14Mod(blk[0], 8) + 8*c14Mod(blk[1], 8) + 64*c14Mod(blk[2], 8)
	a := uint64(2000*(wi+1) + 2*k + 1)
	return a, a + 1
}

// c14Fill returns the 16^3 voxels (x fastest) of one block.
func c14Fill(fill string, wi int, blk [3]int) []uint64 {
	if strings.HasPrefix(fill, "mirror-") {
		// the content the FIRST write gave this block, mirrored in X inside the block: every label keeps its voxel count
		// in the block, only the positions change
		base := c14Fill(strings.TrimPrefix(fill, "mirror-"), 0, blk)
		v := make([]uint64, len(base))
		for z := 0; z < c14B; z++ {
			for y := 0; y < c14B; y++ {
				for x := 0; x < c14B; x++ {
					v[(z*c14B+y)*c14B+x] = base[(z*c14B+y)*c14B+(c14B-1-x)]
				}
			}
		}
		return v
	}
	a, b := c14Labels(wi, blk)
	odd := (c14Mod(blk[0], 2)+c14Mod(blk[1], 2)+c14Mod(blk[2], 2))%2 == 1
	v := make([]uint64, c14B*c14B*c14B)
	for z := 0; z < c14B; z++ {
		for y := 0; y < c14B; y++ {
			for x := 0; x < c14B; x++ {
				i := (x & 1) | (y&1)<<1 | (z&1)<<2 // position inside the 2x2x2 cell
				var l uint64
				switch fill {
				case "solid":
					l = a
				case "shared": // one supervoxel spanning every block of the write
					l = uint64(2000*(wi+1) + 1999)
				case "zero":
					l = 0
				case "tie": // 4-4 in every cell; which label sits on the even parity alternates from block to block
					if ((x+y+z)&1 == 0) != odd {
						l = a
					} else {
						l = b
					}
				case "zeros": // four cell kinds: empty; a single voxel; 2 b vs 1 a (b wins); 2-2 tie with 4 zeros (a wins)
					switch ((x >> 1) + (y >> 1) + (z >> 1)) % 4 {
					case 1:
						if i == 5 {
							l = a
						}
					case 2:
						if i == 1 || i == 6 {
							l = b
						} else if i == 3 {
							l = a
						}
					case 3:
						if i == 0 || i == 7 {
							l = b
						} else if i == 2 || i == 4 {
							l = a
						}
					}
				case "subblock": // solid a, except one 8^3 sub-block where b has 5 of 8 voxels per cell
					l = a
					if x >= 8 && y < 8 && z >= 8 && i < 5 {
						l = b
					}
				default:
					panic("c14: unknown fill " + fill)
				}
				v[(z*c14B+y)*c14B+x] = l
			}
		}
	}
	return v
}

func c14Bytes(v []uint64) []byte {
	b := make([]byte, 8*len(v))
	for i, l := range v {
		binary.LittleEndian.PutUint64(b[8*i:], l)
	}
	return b
}

func c14U64(b []byte) []uint64 {
	v := make([]uint64, len(b)/8)
	for i := range v {
		v[i] = binary.LittleEndian.Uint64(b[8*i:])
	}
	return v
}

// ---------------------------------------------------------------------------------------------------------------
// the world of one history

type c14World struct {
	j    c14Job
	vers []string
	cur  string
}

func (w *c14World) edge(k int) int { return c14B << uint(w.j.L-k) } // voxels per side of the observed region at level k
func (w *c14World) off(k int) [3]int {
	n := w.edge(k)
	return [3]int{w.j.T[0] * n, w.j.T[1] * n, w.j.T[2] * n}
}

const c14Name = "seg"

func c14NewWorld(j c14Job) (*c14World, error) {
	root, err := vsrv.NewRepo()
	if err != nil {
		return nil, err
	}
	err = vsrv.NewInstance(root, "labelmap", c14Name, map[string]string{
		"BlockSize": "16,16,16", "MaxDownresLevel": fmt.Sprint(j.L)})
	if err != nil {
		return nil, err
	}
	return &c14World{j: j, vers: []string{root}, cur: root}, nil
}

// read paths: 0 = GET raw, 1 = GET blocks (uncompressed)
// 2 = GET raw of exactly the one top-level block (DVID's single-block streaming path), levels below it as by path 0
var c14Paths = []string{"raw", "blocks", "raw(single top-level block)"}

func (w *c14World) read(u string, k, path int) ([]uint64, string) {
	n, o := w.edge(k), w.off(k)
	if path == 0 {
		// A GET raw of exactly one aligned block takes a separate streaming path in DVID (streamRawBlock), which dereferences a
		// nil block when the block was never written (HTTP 500, not this property's subject). The request is therefore made one
		// z-slab taller than needed and the extra slab is dropped; the single-block path is observed separately (path 2).
		r := vsrv.Get(fmt.Sprintf("node/%s/%s/raw/0_1_2/%d_%d_%d/%d_%d_%d?scale=%d&supervoxels=true", u, c14Name, n, n, n+1, o[0], o[1], o[2], k))
		if r.Code != 200 || len(r.Body) != 8*n*n*(n+1) {
			return nil, fmt.Sprintf("GET raw scale=%d: %d, %d bytes %.120q", k, r.Code, len(r.Body), r.Body[:min(len(r.Body), 120)])
		}
		return c14U64(r.Body[:8*n*n*n]), ""
	}
	if path == 2 {
		r := vsrv.Get(fmt.Sprintf("node/%s/%s/raw/0_1_2/%d_%d_%d/%d_%d_%d?scale=%d&supervoxels=true", u, c14Name, n, n, n, o[0], o[1], o[2], k))
		if r.Code != 200 || len(r.Body) != 8*n*n*n {
			return nil, fmt.Sprintf("GET raw (single block) scale=%d: %d", k, r.Code)
		}
		return c14U64(r.Body), ""
	}
	r := vsrv.Get(fmt.Sprintf("node/%s/%s/blocks/%d_%d_%d/%d_%d_%d?scale=%d&supervoxels=true&compression=uncompressed", u, c14Name, n, n, n, o[0], o[1], o[2], k))
	if r.Code != 200 {
		return nil, fmt.Sprintf("GET blocks scale=%d: %d %.120q", k, r.Code, r.Body[:min(len(r.Body), 120)])
	}
	v := make([]uint64, n*n*n)
	b := r.Body
	for len(b) > 0 {
		if len(b) < 16 {
			return nil, fmt.Sprintf("GET blocks scale=%d: truncated header", k)
		}
		bx, by, bz := int(int32(binary.LittleEndian.Uint32(b[0:]))), int(int32(binary.LittleEndian.Uint32(b[4:]))), int(int32(binary.LittleEndian.Uint32(b[8:])))
		nb := int(int32(binary.LittleEndian.Uint32(b[12:])))
		b = b[16:]
		if nb != 8*c14B*c14B*c14B || len(b) < nb {
			return nil, fmt.Sprintf("GET blocks scale=%d: block (%d,%d,%d) has %d bytes", k, bx, by, bz, nb)
		}
		x0, y0, z0 := bx*c14B-o[0], by*c14B-o[1], bz*c14B-o[2]
		if x0 < 0 || y0 < 0 || z0 < 0 || x0+c14B > n || y0+c14B > n || z0+c14B > n {
			return nil, fmt.Sprintf("GET blocks scale=%d returned block (%d,%d,%d) outside the requested volume", k, bx, by, bz)
		}
		for z := 0; z < c14B; z++ {
			for y := 0; y < c14B; y++ {
				src := b[8*((z*c14B+y)*c14B):]
				dst := v[((z0+z)*n+y0+y)*n+x0:]
				for x := 0; x < c14B; x++ {
					dst[x] = binary.LittleEndian.Uint64(src[8*x:])
				}
			}
		}
		b = b[nb:]
	}
	return v, ""
}

// pyramid = levels 0..L through one read path
func (w *c14World) pyramid(u string, path int) ([][]uint64, string) {
	p := make([][]uint64, w.j.L+1)
	for k := 0; k <= w.j.L; k++ {
		kp := path
		if path == 2 && k < w.j.L {
			kp = 0
		}
		v, e := w.read(u, k, kp)
		if e != "" {
			return nil, e
		}
		p[k] = v
	}
	return p, ""
}

func c14Gzip(b []byte) []byte {
	var buf bytes.Buffer
	zw := gzip.NewWriter(&buf)
	zw.Write(b)
	zw.Close()
	return buf.Bytes()
}

func c14IsBox(bl [][3]int) (lo, hi [3]int, ok bool) {
	lo, hi = bl[0], bl[0]
	for _, b := range bl {
		for d := 0; d < 3; d++ {
			lo[d] = min(lo[d], b[d])
			hi[d] = max(hi[d], b[d])
		}
	}
	return lo, hi, (hi[0]-lo[0]+1)*(hi[1]-lo[1]+1)*(hi[2]-lo[2]+1) == len(bl)
}

// exec performs write wi and returns the HTTP status codes of its requests.
func (w *c14World) exec(wi int, wr c14W, before [][]uint64) ([]int, error) {
	u := w.cur
	switch wr.Mode {
	case "blocks":
		var body bytes.Buffer
		for _, blk := range wr.Blocks {
			lb, err := labels.MakeBlock(c14Bytes(c14Fill(wr.Fill, wi, blk)), dvid.Point3d{c14B, c14B, c14B})
			if err != nil {
				return nil, err
			}
			ser, _ := lb.MarshalBinary()
			gz := c14Gzip(ser)
			for _, c := range blk {
				binary.Write(&body, binary.LittleEndian, int32(c))
			}
			binary.Write(&body, binary.LittleEndian, int32(len(gz)))
			body.Write(gz)
		}
		r := vsrv.Post(fmt.Sprintf("node/%s/%s/blocks?downres=true", u, c14Name), body.Bytes())
		return []int{r.Code}, nil
	case "raw", "rawmut":
		var codes []int
		q := ""
		if wr.Mode == "rawmut" {
			q = "?mutate=true"
		}
		for _, blk := range wr.Blocks {
			r := vsrv.Post(fmt.Sprintf("node/%s/%s/raw/0_1_2/%d_%d_%d/%d_%d_%d%s", u, c14Name, c14B, c14B, c14B,
				blk[0]*c14B, blk[1]*c14B, blk[2]*c14B, q), c14Bytes(c14Fill(wr.Fill, wi, blk)))
			codes = append(codes, r.Code)
		}
		return codes, nil
	case "rawbox", "rawmutbox":
		lo, hi, ok := c14IsBox(wr.Blocks)
		if !ok {
			return nil, fmt.Errorf("rawbox on a non-box block set")
		}
		sx, sy, sz := (hi[0]-lo[0]+1)*c14B, (hi[1]-lo[1]+1)*c14B, (hi[2]-lo[2]+1)*c14B
		vol := make([]uint64, sx*sy*sz)
		for _, blk := range wr.Blocks {
			f := c14Fill(wr.Fill, wi, blk)
			x0, y0, z0 := (blk[0]-lo[0])*c14B, (blk[1]-lo[1])*c14B, (blk[2]-lo[2])*c14B
			for z := 0; z < c14B; z++ {
				for y := 0; y < c14B; y++ {
					copy(vol[((z0+z)*sy+y0+y)*sx+x0:], f[(z*c14B+y)*c14B:(z*c14B+y)*c14B+c14B])
				}
			}
		}
		q := ""
		if wr.Mode == "rawmutbox" {
			q = "?mutate=true"
		}
		r := vsrv.Post(fmt.Sprintf("node/%s/%s/raw/0_1_2/%d_%d_%d/%d_%d_%d%s", u, c14Name, sx, sy, sz,
			lo[0]*c14B, lo[1]*c14B, lo[2]*c14B, q), c14Bytes(vol))
		return []int{r.Code}, nil
	case "svsplit", "bodysplit":
		// the split voxels: those voxels of block Blocks[0] selected by the shape that currently carry the label found at the
		// block's first selected voxel (so the sparse volume is contained in one supervoxel, as the endpoint requires)
		blk := wr.Blocks[0]
		n, o := w.edge(0), w.off(0)
		x0, y0, z0 := blk[0]*c14B-o[0], blk[1]*c14B-o[1], blk[2]*c14B-o[2]
		sel := func(x, y, z int) bool {
			switch wr.Fill {
			case "half": // half the block, aligned to cells
				return x < 8
			case "one8": // one voxel of every cell
				return x&1 == 0 && y&1 == 0 && z&1 == 0
			case "tie": // four voxels of every cell
				return x&1 == 0
			case "slab": // a one-voxel slab: two of the eight voxels of the cells it crosses
				return z == 5 && y&1 == 0
			}
			panic("c14: unknown split shape " + wr.Fill)
		}
		var target uint64
		var spans bytes.Buffer
		nspans := 0
		for z := 0; z < c14B; z++ {
			for y := 0; y < c14B; y++ {
				for x := 0; x < c14B; {
					l := before[0][((z0+z)*n+y0+y)*n+x0+x]
					if !sel(x, y, z) || l == 0 || (target != 0 && l != target) {
						x++
						continue
					}
					target = l
					run := 0
					for x+run < c14B && sel(x+run, y, z) && before[0][((z0+z)*n+y0+y)*n+x0+x+run] == target {
						run++
					}
					binary.Write(&spans, binary.LittleEndian, int32(blk[0]*c14B+x))
					binary.Write(&spans, binary.LittleEndian, int32(blk[1]*c14B+y))
					binary.Write(&spans, binary.LittleEndian, int32(blk[2]*c14B+z))
					binary.Write(&spans, binary.LittleEndian, int32(run))
					nspans++
					x += run
				}
			}
		}
		if target == 0 {
			return []int{0}, nil // nothing to split (block empty): the write is a no-op
		}
		var body bytes.Buffer
		body.Write([]byte{dvid.EncodingBinary, 3, 0, 0})
		binary.Write(&body, binary.LittleEndian, uint32(0))
		binary.Write(&body, binary.LittleEndian, uint32(nspans))
		body.Write(spans.Bytes())
		ep := "split-supervoxel"
		if wr.Mode == "bodysplit" {
			ep = "split"
		}
		r := vsrv.Post(fmt.Sprintf("node/%s/%s/%s/%d", u, c14Name, ep, target), body.Bytes())
		return []int{r.Code}, nil
	}
	return nil, fmt.Errorf("unknown write mode %q", wr.Mode)
}

// c14Mismatch describes the disagreement of one level pair.
type c14Mismatch struct {
	n     int // the finer level; level n+1 is wrong
	count int
	cat   string
	first string
}

var c14CatOrder = []string{"sibling-lost", "sibling-foreign", "touched-wrongvote", "touched-foreign", "touched-lost", "touched-stale"}

// compare checks level n+1 against the vote over level n for every n and classifies the first failing pair.
// touched: level-0 blocks the last write touched; before: the pyramid of the same version before the last write (may be nil).
func (w *c14World) compare(p [][]uint64, before [][]uint64, touched map[[3]int]bool) (evals int64, mm *c14Mismatch) {
	for n := 0; n < w.j.L; n++ {
		e := w.edge(n)
		m := e / 2
		want := c14Vote(p[n], e)
		got := p[n+1]
		evals += int64(len(want))
		if mm != nil {
			continue
		}
		cats := map[string]int{}
		count := 0
		first := ""
		o := w.off(n + 1)
		for z := 0; z < m; z++ {
			for y := 0; y < m; y++ {
				for x := 0; x < m; x++ {
					i := (z*m+y)*m + x
					if got[i] == want[i] {
						continue
					}
					count++
					// the level-0 block under this voxel
					sh := uint(n + 1)
					ax, ay, az := (o[0]+x)<<sh, (o[1]+y)<<sh, (o[2]+z)<<sh
					blk := [3]int{c14FloorDiv(ax, c14B), c14FloorDiv(ay, c14B), c14FloorDiv(az, c14B)}
					cell := c14Cell(p[n], e, x, y, z)
					inCell := false
					for _, c := range cell {
						if c == got[i] {
							inCell = true
						}
					}
					var cat string
					if touched[blk] {
						switch {
						case before != nil && got[i] == before[n+1][i]:
							cat = "touched-stale"
						case got[i] == 0:
							cat = "touched-lost"
						case inCell:
							cat = "touched-wrongvote"
						default:
							cat = "touched-foreign"
						}
					} else {
						if got[i] == 0 {
							cat = "sibling-lost"
						} else {
							cat = "sibling-foreign"
						}
					}
					cats[cat]++
					if first == "" {
						first = fmt.Sprintf("level %d voxel (%d,%d,%d) [under level-0 block %v] is %d, but the vote over the level-%d voxels %v beneath it is %d",
							n+1, o[0]+x, o[1]+y, o[2]+z, blk, got[i], n, cell, want[i])
					}
				}
			}
		}
		if count > 0 {
			mm = &c14Mismatch{n: n, count: count, first: first}
			for _, c := range c14CatOrder {
				if cats[c] > 0 {
					mm.cat = c
					break
				}
			}
			var cs []string
			for c, k := range cats {
				cs = append(cs, fmt.Sprintf("%s=%d", c, k))
			}
			sort.Strings(cs)
			mm.first += fmt.Sprintf("; %d of %d level-%d voxels disagree (%s)", count, len(want), n+1, strings.Join(cs, ", "))
		}
	}
	return
}

func c14FloorDiv(a, b int) int {
	q := a / b
	if a%b != 0 && (a < 0) != (b < 0) {
		q--
	}
	return q
}

func c14Sign(bl [][3]int) string {
	s := "nonneg"
	for _, b := range bl {
		for _, c := range b {
			if c < 0 && c14Mod(c, 2) == 1 {
				return "neg-odd"
			}
			if c < 0 {
				s = "neg-even"
			}
		}
	}
	return s
}

func c14PathClass(mode string) string {
	switch mode {
	case "raw", "rawmut", "rawbox", "rawmutbox":
		return "raw"
	}
	return mode
}

func c14Equal(a, b []uint64) bool {
	if len(a) != len(b) {
		return false
	}
	for i := range a {
		if a[i] != b[i] {
			return false
		}
	}
	return true
}

// c14RunOnce executes one history on a fresh repo.
func c14RunOnce(j c14Job) (res c14Res) {
	tStart := time.Now()
	w, err := c14NewWorld(j)
	if getenv("VERIF_C14_DEBUG") != "" {
		fmt.Fprintf(os.Stderr, "# new world took %v\n", time.Since(tStart))
		defer func() { fmt.Fprintf(os.Stderr, "# history took %v\n", time.Since(tStart)) }()
	}
	if err != nil {
		res.Err = err.Error()
		return
	}
	defer datastore.DeleteRepo(dvid.UUID(w.vers[0]), "")
	var outs []string
	for wi, wr := range j.W {
		if wr.Child {
			if err := vsrv.Commit(w.cur); err != nil {
				res.Err = err.Error()
				return
			}
			c, err := vsrv.NewVersion(w.cur)
			if err != nil {
				res.Err = err.Error()
				return
			}
			w.cur = c
			w.vers = append(w.vers, c)
		}
		before, e := w.pyramid(w.cur, 0)
		if e != "" {
			res.ReadFail = e
			return
		}
		// observation point inside the running mutation: when the blocks of level s are about to be stored, the volume must
		// not report itself idle (DVID's downres.BlockOnUpdating predicate: !Updating() && !AnyScaleUpdating())
		var idleAt []int
		var hookCalls int
		if d, derr := datastore.GetDataByUUIDName(dvid.UUID(w.cur), dvid.InstanceName(c14Name)); derr == nil {
			upd, _ := d.(interface{ Updating() bool })
			sc, _ := d.(downres.Updater)
			c14SetHook(func(scale uint8) {
				hookCalls++
				if upd != nil && sc != nil && !upd.Updating() && !sc.AnyScaleUpdating() {
					idleAt = append(idleAt, int(scale))
				}
			})
		}
		t0 := time.Now()
		codes, err := w.exec(wi, wr, before)
		c14SetHook(nil)
		res.Commits += hookCalls
		if getenv("VERIF_C14_DEBUG") != "" {
			fmt.Fprintf(os.Stderr, "# write %d %s %v took %v\n", wi, wr.Mode, codes, time.Since(t0))
		}
		if err != nil {
			res.Err = err.Error()
			return
		}
		res.Codes = append(res.Codes, codes...)
		t0 = time.Now()
		vsrv.Settle(w.cur, c14Name)
		if getenv("VERIF_C14_DEBUG") != "" {
			fmt.Fprintf(os.Stderr, "# settle took %v\n", time.Since(t0))
		}
		touched := map[[3]int]bool{}
		for _, b := range wr.Blocks {
			touched[b] = true
		}
		last := wi == len(j.W)-1
		if len(idleAt) > 0 && res.IdleViol == nil {
			which := "inner-level"
			if idleAt[0] == j.L {
				which = "top-level"
			}
			res.IdleViol = &c14Viol{Path: c14PathClass(wr.Mode), Level: idleAt[0], Write: wi,
				Key: fmt.Sprintf("%s:reports-idle-before-level-stored:%s", c14PathClass(wr.Mode), which),
				What: fmt.Sprintf("MaxDownresLevel=%d, during write #%d %s fill=%s blocks=%v: at the moment the mutation was about to store its level-%d blocks (so level %d was not yet up to date) the instance reported itself idle: Updating()=false and AnyScaleUpdating()=false (the predicate of downres.BlockOnUpdating); levels at which this happened: %v",
					j.L, wi, wr.Mode, wr.Fill, wr.Blocks, idleAt[0], idleAt[0], idleAt)}
		}
		for vi, u := range w.vers {
			for path := range c14Paths {
				var bef [][]uint64
				if u == w.cur {
					bef = before
				}
				p, e := w.pyramid(u, path)
				if e != "" && path == 2 {
					res.SingleFail++ // the single-block GET failed (see read); nothing to compare on this path
					continue
				}
				if e != "" {
					res.ReadFail = e
					return
				}
				ev, mm := w.compare(p, bef, touched)
				if mm != nil {
					// idleness is a real-time predicate: settle and read once more before believing it
					vsrv.Settle(u, c14Name)
					if p, e = w.pyramid(u, path); e != "" {
						res.ReadFail = e
						return
					}
					ev, mm = w.compare(p, bef, touched)
				}
				res.Evals += ev
				res.Pairs += w.j.L
				if u == w.cur && path == 0 {
					ch := !c14Equal(p[0], before[0])
					nz := false
					for k := 1; k <= j.L; k++ {
						for _, l := range p[k] {
							if l != 0 {
								nz = true
								break
							}
						}
					}
					if last {
						res.Changed0 = ch
						res.Nontriv = ch && nz
					}
					outs = append(outs, fmt.Sprintf("%s/%s:%v:ch%v:nz%v", wr.Mode, wr.Fill, codes[0], ch, nz))
				}
				if mm != nil {
					status := ""
					for _, c := range codes {
						if c >= 500 {
							status = ":write-answered-5xx"
						} else if c >= 400 && status == "" {
							status = ":write-answered-4xx"
						}
					}
					onver := "written-version"
					if u != w.cur {
						onver = "other-version"
					}
					var at [][3]int // the touched blocks expressed at the finer level of the failing pair
					for _, b := range wr.Blocks {
						at = append(at, [3]int{b[0] >> uint(mm.n), b[1] >> uint(mm.n), b[2] >> uint(mm.n)})
					}
					v := &c14Viol{Path: c14PathClass(wr.Mode), Cat: mm.cat, Status: status, Level: mm.n + 1, Write: wi, OnVer: onver, Sign: c14Sign(at)}
					v.Key = fmt.Sprintf("%s:%s:L%d:%s:%s%s", v.Path, v.Sign, v.Level, onver, mm.cat, status)
					v.What = fmt.Sprintf("MaxDownresLevel=%d, after write #%d %s fill=%s blocks=%v (HTTP %v)%s, version #%d (%s), read path GET %s, idle per DVID: %s",
						j.L, wi, wr.Mode, wr.Fill, wr.Blocks, codes, map[bool]string{true: " in a new child version", false: ""}[wr.Child], vi, onver, c14Paths[path], mm.first)
					res.Viol = v
					res.Outcome = strings.Join(outs, ";") + ";VIOL"
					return
				}
			}
		}
	}
	res.Outcome = strings.Join(outs, ";")
	return
}

// c14Translate moves a history by whole level-L blocks so that T becomes (0,0,0); block parities are preserved.
func c14Translate(j c14Job) c14Job {
	t := c14Job{L: j.L}
	s := 1 << uint(j.L)
	for _, wr := range j.W {
		nw := wr
		nw.Blocks = nil
		for _, b := range wr.Blocks {
			nw.Blocks = append(nw.Blocks, [3]int{b[0] - j.T[0]*s, b[1] - j.T[1]*s, b[2] - j.T[2]*s})
		}
		t.W = append(t.W, nw)
	}
	return t
}

// c14Run executes a history. In the first pass a failure is returned with its raw class. In confirm mode the history is
// run 3 times from fresh repos and must fail with the same raw class each time; then it is run once more translated to
// non-negative block coordinates (parities preserved). The reported key is
//
//	<path>:anycoord:L<k>:<version>:<category>[:status]    if the same failure also happens after translation
//	<path>:<sign>-only:<update-missing-or-misplaced|wrong-vote>   if it depends on the sign/parity of the block coordinates
//
// so that one defect gets one key per write path however many histories expose it.
func c14Run(j c14Job) c14Res {
	confirm := j.Confirm
	j.Confirm = false
	res := c14RunOnce(j)
	if res.Viol == nil || !confirm {
		return res
	}
	for i := 0; i < 2; i++ {
		r2 := c14RunOnce(j)
		if r2.Viol == nil || r2.Viol.Key != res.Viol.Key {
			k2 := "no violation"
			if r2.Viol != nil {
				k2 = r2.Viol.Key
			}
			res.Unstable = fmt.Sprintf("%s seen on run 1 but %s on run %d: %s", res.Viol.Key, k2, i+2, res.Viol.What)
			res.Viol = nil
			return res
		}
	}
	v := res.Viol
	same := v.Sign == "nonneg"
	if !same {
		r3 := c14RunOnce(c14Translate(j))
		same = r3.Viol != nil && r3.Viol.Path == v.Path && r3.Viol.Cat == v.Cat && r3.Viol.Level == v.Level && r3.Viol.OnVer == v.OnVer
		if same {
			v.Status = r3.Viol.Status // a 5xx that only the negative coordinates provoke belongs to another failure class
		}
	}
	if same {
		v.Key = fmt.Sprintf("%s:anycoord:L%d:%s:%s%s", v.Path, v.Level, v.OnVer, v.Cat, v.Status)
	} else {
		g := "update-missing-or-misplaced"
		if v.Cat == "touched-wrongvote" {
			g = "wrong-vote"
		}
		v.Key = fmt.Sprintf("%s:%s-only:%s", v.Path, v.Sign, g)
		v.What += fmt.Sprintf(" [the same history moved to non-negative block coordinates does not fail this way; touched blocks at level %d are %s]", v.Level-1, v.Sign)
	}
	return res
}

func c14Worker(args []string) int {
	// the parent check hands out a scratch root that it removes itself, so that a worker killed by the watchdog leaves nothing
	var dir string
	var err error
	if root := getenv("VERIF_C14_SCRATCH"); root != "" {
		dir, err = os.MkdirTemp(root, "w-")
	} else {
		dir, err = mkTemp("c14w")
	}
	if err != nil {
		fmt.Println(`{"err":"tmpdir"}`)
		return 1
	}
	defer rmAll(dir)
	if err := c14RegisterEngine(); err != nil {
		fmt.Printf("{\"err\":%q}\n", err.Error())
		return 1
	}
	if err := vsrv.Boot(dir, vsrv.Options{AllowLabelmapSplit: true, KVEngine: c14EngineName}); err != nil {
		fmt.Printf("{\"err\":%q}\n", err.Error())
		return 1
	}
	return vlib.ServeJobs(func(job string) string {
		var j c14Job
		var res c14Res
		if err := json.Unmarshal([]byte(job), &j); err != nil {
			res.Err = err.Error()
		} else {
			res = c14Run(j)
		}
		b, _ := json.Marshal(res)
		return string(b)
	})
}

// ---------------------------------------------------------------------------------------------------------------
// enumeration

// c14Octants lists the level-0 blocks 2P+(dx,dy,dz) selected by mask (bit i = octant i, x fastest).
func c14Octants(P [3]int, mask int) [][3]int {
	var bl [][3]int
	for i := 0; i < 8; i++ {
		if mask&(1<<uint(i)) != 0 {
			bl = append(bl, [3]int{2*P[0] + i&1, 2*P[1] + (i>>1)&1, 2*P[2] + (i>>2)&1})
		}
	}
	return bl
}

func c14Pop(m int) int {
	n := 0
	for ; m != 0; m &= m - 1 {
		n++
	}
	return n
}

// c14Masks returns the octant masks with at most maxSize bits, smallest sets first.
func c14Masks(maxSize int) []int {
	var ms []int
	for s := 1; s <= maxSize; s++ {
		for m := 1; m < 256; m++ {
			if c14Pop(m) == s {
				ms = append(ms, m)
			}
		}
	}
	return ms
}

func c14BoxMask(m int) bool {
	_, _, ok := c14IsBox(c14Octants([3]int{0, 0, 0}, m))
	return ok
}

func c14AllBlocks(T [3]int, L int) [][3]int {
	s := 1 << uint(L)
	var bl [][3]int
	for z := 0; z < s; z++ {
		for y := 0; y < s; y++ {
			for x := 0; x < s; x++ {
				bl = append(bl, [3]int{T[0]*s + x, T[1]*s + y, T[2]*s + z})
			}
		}
	}
	return bl
}

func c14Corners(T [3]int, L int) [][3]int {
	s := 1 << uint(L)
	var bl [][3]int
	for i := 0; i < 8; i++ {
		bl = append(bl, [3]int{T[0]*s + (i&1)*(s-1), T[1]*s + ((i>>1)&1)*(s-1), T[2]*s + ((i>>2)&1)*(s-1)})
	}
	return bl
}

type c14Family struct {
	name string
	jobs []c14Job
}

func c14Enumerate(thorough bool) []c14Family {
	var fams []c14Family
	add := func(name string, jobs []c14Job) { fams = append(fams, c14Family{name, jobs}) }

	// level-1 parent blocks (simplest first): all-positive, all-negative (octants -2,-1), mixed sign
	parents := [][3]int{{0, 0, 0}, {-1, -1, -1}, {-1, 0, 0}}
	if thorough {
		parents = append(parents, [3]int{1, 2, 3}, [3]int{0, -1, 0}, [3]int{-1, -1, 0}, [3]int{-2, 0, -1})
	}
	fills := []string{"solid", "tie", "zeros", "subblock"}
	modes := []string{"blocks", "rawmut"}
	if thorough {
		modes = append(modes, "raw")
	}

	// A. depth 1, L=1: every non-empty subset of the 8 octants x fillings x write paths
	for _, P := range parents {
		var jobs []c14Job
		for _, m := range c14Masks(8) {
			for _, f := range fills {
				for _, mode := range modes {
					jobs = append(jobs, c14Job{L: 1, T: P, W: []c14W{{Mode: mode, Blocks: c14Octants(P, m), Fill: f}}})
				}
				if c14BoxMask(m) && c14Pop(m) > 1 {
					for _, mode := range []string{"rawbox", "rawmutbox"} {
						jobs = append(jobs, c14Job{L: 1, T: P, W: []c14W{{Mode: mode, Blocks: c14Octants(P, m), Fill: f}}})
					}
				}
			}
		}
		add(fmt.Sprintf("A:depth1:L1:P%v", P), jobs)
	}

	// B. depth 2, L=1: first write (sets of size <= 2, or all eight), then a second write that is in a child version or
	// touches a sibling octant
	small := c14Masks(2)
	first := append(append([]int{}, small...), 255)
	bParents := parents[:3]
	if thorough {
		bParents = parents[:5]
	}
	for _, P := range bParents {
		var jobs []c14Job
		f1s := []string{"solid", "tie"}
		f2s := []string{"solid", "zeros", "zero"}
		m2s := []string{"blocks", "rawmut"}
		firstSets, secondSets := first, small
		if !thorough {
			// quick: first sets = singles + all eight + the pairs containing octant 0; second sets = all 36
			firstSets = nil
			for _, m := range first {
				if c14Pop(m) == 1 || m == 255 || (c14Pop(m) == 2 && m&1 != 0) {
					firstSets = append(firstSets, m)
				}
			}
			f1s = []string{"solid"}
		}
		for _, s1 := range firstSets {
			f1x := f1s
			if s1 == 255 {
				// all eight octants carry one and the same label: the stored lower-resolution block is solid (a single-label
				// block), and the second write touches only some of its octants
				f1x = append(append([]string{}, f1s...), "shared")
			}
			for _, f1 := range f1x {
				for _, s2 := range secondSets {
					for _, f2 := range f2s {
						for _, m2 := range m2s {
							for _, child := range []bool{false, true} {
								if !child && s2&^s1 == 0 && s1 != 255 {
									continue // same version and no sibling octant touched
								}
								jobs = append(jobs, c14Job{L: 1, T: P, W: []c14W{
									{Mode: "blocks", Blocks: c14Octants(P, s1), Fill: f1},
									{Mode: m2, Blocks: c14Octants(P, s2), Fill: f2, Child: child}}})
							}
						}
					}
				}
			}
		}
		add(fmt.Sprintf("B:depth2:L1:P%v", P), jobs)
		// a mutating second write that only moves voxels around inside a block (same labels, same counts per block)
		var mjobs []c14Job
		for _, f1 := range []string{"subblock", "zeros"} {
			for _, s1 := range []int{1, 8, 128, 255} {
				for o := 0; o < 8; o++ {
					if s1&(1<<uint(o)) == 0 {
						continue
					}
					for _, m2 := range []string{"rawmut", "rawmutbox"} {
						for _, child := range []bool{false, true} {
							mjobs = append(mjobs, c14Job{L: 1, T: P, W: []c14W{
								{Mode: "blocks", Blocks: c14Octants(P, s1), Fill: f1},
								{Mode: m2, Blocks: c14Octants(P, 1<<uint(o)), Fill: "mirror-" + f1, Child: child}}})
						}
					}
				}
			}
		}
		add(fmt.Sprintf("B2:rearrange-in-block:L1:P%v", P), mjobs)
	}

	// C. splits confined to one octant, L=1 and L=2: content by one write (all eight octants or only the split octant),
	// then split-supervoxel / body split in every octant x shapes x same/child version
	for _, L := range []int{1, 2} {
		for _, P := range parents[:3] {
			var jobs []c14Job
			T := P
			if L == 2 {
				T = [3]int{c14FloorDiv(P[0], 2), c14FloorDiv(P[1], 2), c14FloorDiv(P[2], 2)}
			}
			for o := 0; o < 8; o++ {
				for _, set := range []int{255, 1 << uint(o)} {
					for _, f := range []string{"shared", "solid", "tie"} {
						if f == "shared" && set != 255 {
							continue
						}
						for _, kind := range []string{"svsplit", "bodysplit"} {
							for _, shape := range []string{"half", "one8", "tie", "slab"} {
								for _, child := range []bool{false, true} {
									if !thorough && L == 2 && (child || f == "tie") {
										continue
									}
									jobs = append(jobs, c14Job{L: L, T: T, W: []c14W{
										{Mode: "blocks", Blocks: c14Octants(P, set), Fill: f},
										{Mode: kind, Blocks: c14Octants(P, 1<<uint(o)), Fill: shape, Child: child}}})
								}
							}
						}
					}
				}
			}
			add(fmt.Sprintf("C:splits:L%d:P%v", L, P), jobs)
		}
	}

	// D. L=2 (and 3 in thorough): single blocks at the 8 corners of the level-0 region, the whole region, the octant
	// subsets of one level-1 parent; then depth 2: whole region, then a corner / an octant rewritten
	Ls := []int{2}
	if thorough {
		Ls = append(Ls, 3)
	}
	for _, L := range Ls {
		tops := [][3]int{{0, 0, 0}, {-1, -1, -1}}
		if thorough && L == 2 {
			tops = append(tops, [3]int{-1, 0, 0}, [3]int{0, 1, -1})
		}
		for _, T := range tops {
			var jobs []c14Job
			all := c14AllBlocks(T, L)
			corners := c14Corners(T, L)
			dfills := fills
			if L == 3 {
				dfills = []string{"solid", "zeros"}
			}
			for _, f := range dfills {
				for _, mode := range modes[:2] {
					for _, cb := range corners {
						jobs = append(jobs, c14Job{L: L, T: T, W: []c14W{{Mode: mode, Blocks: [][3]int{cb}, Fill: f}}})
					}
				}
				jobs = append(jobs, c14Job{L: L, T: T, W: []c14W{{Mode: "blocks", Blocks: all, Fill: f}}})
				jobs = append(jobs, c14Job{L: L, T: T, W: []c14W{{Mode: "rawmutbox", Blocks: all, Fill: f}}})
			}
			if L == 2 {
				// octant subsets of the level-1 parents at two opposite corners of the level-2 block
				ms := c14Masks(2)
				if thorough {
					ms = c14Masks(8)
				}
				for _, sub := range [][3]int{{2 * T[0], 2 * T[1], 2 * T[2]}, {2*T[0] + 1, 2*T[1] + 1, 2*T[2] + 1}} {
					for _, m := range ms {
						for _, f := range []string{"solid", "zeros"} {
							for _, mode := range modes[:2] {
								jobs = append(jobs, c14Job{L: L, T: T, W: []c14W{{Mode: mode, Blocks: c14Octants(sub, m), Fill: f}}})
							}
						}
					}
				}
			}
			// depth 2
			for _, f2 := range []string{"solid", "zeros", "zero"} {
				for _, mode := range modes[:2] {
					for _, child := range []bool{false, true} {
						for _, cb := range corners {
							if L == 3 && (child || cb != corners[0] && cb != corners[7]) {
								continue
							}
							jobs = append(jobs, c14Job{L: L, T: T, W: []c14W{
								{Mode: "blocks", Blocks: all, Fill: "solid"},
								{Mode: mode, Blocks: [][3]int{cb}, Fill: f2, Child: child}}})
						}
					}
				}
			}
			add(fmt.Sprintf("D:L%d:T%v", L, T), jobs)
		}
	}
	return fams
}

func runC14(c *vlib.Ctx) {
	scratchEnv := "VERIF_C14_SCRATCH="
	if root, err := mkTemp("c14"); err == nil {
		defer rmAll(root)
		scratchEnv += root
	}
	if c.ReplayFile != "" {
		c14Replay(c, scratchEnv)
		return
	}
	fams := c14Enumerate(c.Thorough())
	if getenv("VERIF_C14_DEBUG") == "count" {
		n := 0
		for _, f := range fams {
			fmt.Printf("# %-40s %d\n", f.name, len(f.jobs))
			n += len(f.jobs)
		}
		fmt.Printf("# total %d\n", n)
		c.Cap("count only")
		return
	}
	if only := getenv("VERIF_C14_FAMILY"); only != "" { // debugging aid: run only the families with this name prefix
		var keep []c14Family
		for _, f := range fams {
			if strings.HasPrefix(f.name, only) {
				keep = append(keep, f)
			}
		}
		fams = keep
		c.Cap("restricted to families " + only + " by VERIF_C14_FAMILY")
	}
	var jobs []string
	var fam []int
	for fi, f := range fams {
		c.Set("histories:"+f.name, len(f.jobs))
		for _, j := range f.jobs {
			b, _ := json.Marshal(j)
			jobs = append(jobs, string(b))
			fam = append(fam, fi)
		}
	}
	c.Set("histories", len(jobs))

	// pass 1: every history once
	vlib.JobTimeout = 120 * time.Second // a history takes 10-100 ms
	results := vlib.Pool("c14", nil, 16, jobs, scratchEnv)
	// a history whose worker was killed by the watchdog is given one more chance (the machine may have stalled)
	var again []int
	for i, r := range results {
		if r.Died && r.TimedOut {
			again = append(again, i)
		}
	}
	if len(again) > 0 {
		aj := make([]string, len(again))
		for k, i := range again {
			aj[k] = jobs[i]
		}
		for k, r := range vlib.Pool("c14", nil, 16, aj, scratchEnv) {
			results[again[k]] = r
		}
		c.Set("histories_rerun_after_watchdog", len(again))
	}
	idleN := map[string]int{}
	var commits int64
	var singlefail, pairs, writes5xx, writes4xx, unchanged, readfail, failing int64
	sampled := map[string]bool{}
	rawClasses := map[string][]int{} // raw failure class -> failing histories, in enumeration order (simplest first)
	var rawOrder []string
	for i, r := range results {
		if r.Died && r.TimedOut {
			c.Cap(fmt.Sprintf("watchdog: history %s exceeded %v", r.Job, vlib.JobTimeout))
			continue
		}
		if r.Died {
			c.Violate("worker-death:"+strings.SplitN(fams[fam[i]].name, ":", 2)[0],
				fmt.Sprintf("the server process died while running history %s: %s", r.Job, tail(r.Stderr, 1200)), json.RawMessage(r.Job))
			continue
		}
		var res c14Res
		if err := json.Unmarshal([]byte(r.Out), &res); err != nil {
			c.Violate("harness:result", fmt.Sprintf("bad worker answer %.200q: %v", r.Out, err), nil)
			continue
		}
		if res.Err != "" {
			c.Violate("harness:history", fmt.Sprintf("history %s could not be set up: %s", r.Job, res.Err), json.RawMessage(r.Job))
			continue
		}
		c.Eval(res.Evals + int64(res.Commits))
		pairs += int64(res.Pairs)
		singlefail += int64(res.SingleFail)
		commits += int64(res.Commits)
		if res.IdleViol != nil {
			idleN[res.IdleViol.Key]++
			c.Violate(res.IdleViol.Key, fmt.Sprintf("%s | history: %s", res.IdleViol.What, r.Job), json.RawMessage(r.Job))
		}
		for _, code := range res.Codes {
			if code >= 500 {
				writes5xx++
			} else if code >= 400 {
				writes4xx++
			}
		}
		if res.ReadFail != "" {
			readfail++
			c.Outcome("read-failed")
			if readfail == 1 {
				c.Cap("a level could not be read, so its history was not judged (first: " + res.ReadFail + " in " + r.Job + ")")
			}
			continue
		}
		if res.Nontriv {
			c.Nontrivial(r.Job)
		}
		if !res.Changed0 {
			unchanged++
		}
		c.Outcome(res.Outcome)
		if res.Viol != nil {
			failing++
			if _, ok := rawClasses[res.Viol.Key]; !ok {
				rawOrder = append(rawOrder, res.Viol.Key)
			}
			rawClasses[res.Viol.Key] = append(rawClasses[res.Viol.Key], i)
		} else if res.Nontriv && !sampled[fams[fam[i]].name[:1]] {
			sampled[fams[fam[i]].name[:1]] = true
			c.Sample(map[string]interface{}{"history": json.RawMessage(r.Job), "write_status": res.Codes,
				"lower_level_voxels_compared": res.Evals, "verdict": "every level n+1 equals the vote over level n on every version, by GET raw and by GET blocks"})
		}
	}

	// pass 2: confirm the simplest histories of every raw failure class (3 runs from fresh repos + 1 translated run)
	const perClass = 3
	var cjobs []string
	var cclass []string
	for _, k := range rawOrder {
		for n, i := range rawClasses[k] {
			if n == perClass {
				break
			}
			var j c14Job
			json.Unmarshal([]byte(jobs[i]), &j)
			j.Confirm = true
			b, _ := json.Marshal(j)
			cjobs = append(cjobs, string(b))
			cclass = append(cclass, k)
		}
	}
	classCount := map[string]int{}
	for k, v := range rawClasses {
		classCount[k] = len(v)
	}
	var unstable int64
	confirmed := map[string]bool{}
	if len(cjobs) > 0 {
		for i, r := range vlib.Pool("c14", nil, 16, cjobs, scratchEnv) {
			var res c14Res
			if r.Died || json.Unmarshal([]byte(r.Out), &res) != nil || res.Err != "" || res.ReadFail != "" {
				c.Cap(fmt.Sprintf("confirmation of %s could not be run (%s %s%s)", r.Job, tail(r.Stderr, 300), res.Err, res.ReadFail))
				continue
			}
			if res.Viol == nil {
				unstable++
				if res.Unstable == "" {
					res.Unstable = "did not fail again"
				}
				c.Cap("a failure of class " + cclass[i] + " did not reproduce 3/3 from fresh repos and is not reported: " + res.Unstable + " in " + r.Job)
				continue
			}
			confirmed[cclass[i]] = true
			c.Violate(res.Viol.Key, fmt.Sprintf("%s | %d enumerated histories fail with raw class %s | history: %s", res.Viol.What, classCount[cclass[i]], cclass[i], r.Job), json.RawMessage(r.Job))
		}
	}
	for _, k := range rawOrder {
		if !confirmed[k] {
			c.Cap("failure class " + k + " was seen in pass 1 but none of its simplest histories reproduced 3/3")
		}
	}
	c.Set("failing_histories", failing)
	c.Set("lower_level_store_batches_observed_inside_mutations", commits)
	c.Set("histories_reporting_idle_inside_mutation", idleN)
	c.Set("failing_histories_by_raw_class", classCount)
	c.Set("level_pair_comparisons", pairs)
	c.Set("writes_answered_5xx", writes5xx)
	c.Set("writes_answered_4xx", writes4xx)
	c.Set("histories_whose_last_write_left_level0_unchanged", unchanged)
	c.Set("confirmations_unstable", unstable)
	c.Set("histories_unreadable", readfail)
	c.Set("single_block_raw_reads_of_top_level_not_answered_200", singlefail)
	c.Set("traces_validated_against_impl", len(jobs))
	c.Set("rule", "a history is non-trivial if its last write changed the level-0 voxels read back from the server and at least one lower level is non-zero afterwards; distinct = distinct history descriptors; evaluations = lower-level voxels compared with the reference vote")
	c.Set("bound", "labelmap BlockSize 16^3, fresh repo+instance per history. A (L=1, depth 1): all 255 non-empty octant subsets x 4 fillings (solid, 4-4 tie, labels with zeros, one differing sub-block) x write paths (POST blocks?downres=true, POST raw?mutate=true per block; thorough also POST raw; box-shaped sets also as one POST raw request) at parent blocks (0,0,0), (-1,-1,-1), (-1,0,0) (thorough 4 more). B (L=1, depth 2): first write (quick: singles, pairs with octant 0, all eight; thorough: all 36 sets of size <= 2 and all eight, solid and tie) then second write (all 36 sets of size <= 2 x {solid, zeros, all-zero} x {blocks, raw?mutate}) in the same or a new child version, if it is in a child version or touches a sibling octant; 3 (thorough 5) parent blocks. C: split-supervoxel and body split in every octant x 4 split shapes x same/child version after ingest of all eight octants or only that octant, L=1 and L=2, 3 parent blocks. D (L=2; thorough also L=3): single blocks at the 8 corners of the level-0 region, the whole region, octant subsets of the level-1 parents at two opposite corners, and whole region followed by a corner rewrite (same/child version). Every version is read at every level after every write, by GET raw and GET blocks")
	c.Assume("the instance is judged idle when vsrv.Settle (DVID's Updating()/SyncPending()) says so; all write paths used here run the down-sampling inside the request, so the read after the response is already after idleness")
	c.Assume("only the pyramid under one level-L block is read; corruption of blocks outside it would not be seen")
	c.Assume("the reference vote is applied to what the server returns for level n (level-to-level), through GET raw and GET blocks separately; level 0 itself is not judged")
	c.Assume("labels.MakeBlock/MarshalBinary from the repository are used to encode POST blocks payloads (their correctness is C09's subject)")
	c.Assume("every failing history is run once; the 3 simplest histories of each raw failure class are re-run 3 times from fresh repos (and once translated) before a VIOLATION is printed")
}

// c14Replay re-runs the history of a replay file (as written for a VIOLATION line) in confirm mode.
func c14Replay(c *vlib.Ctx, scratchEnv string) {
	b, err := os.ReadFile(c.ReplayFile)
	if err != nil {
		c.Violate("harness:replay", err.Error(), nil)
		return
	}
	var v struct {
		Replay c14Job `json:"replay"`
	}
	if err := json.Unmarshal(b, &v); err != nil || len(v.Replay.W) == 0 {
		c.Violate("harness:replay", fmt.Sprintf("%s is not a C14 replay file: %v", c.ReplayFile, err), nil)
		return
	}
	v.Replay.Confirm = true
	jb, _ := json.Marshal(v.Replay)
	r := vlib.Pool("c14", nil, 1, []string{string(jb)}, scratchEnv)[0]
	var res c14Res
	if r.Died || json.Unmarshal([]byte(r.Out), &res) != nil {
		c.Violate("worker-death:replay", tail(r.Stderr, 1200), json.RawMessage(jb))
		return
	}
	c.Eval(res.Evals)
	c.Outcome(res.Outcome)
	c.Cap("replay of one history")
	if res.IdleViol != nil {
		c.Violate(res.IdleViol.Key, res.IdleViol.What+" | history: "+string(jb), json.RawMessage(jb))
	}
	if res.Viol != nil {
		c.Violate(res.Viol.Key, res.Viol.What+" | history: "+string(jb), json.RawMessage(jb))
	}
}
