package checks

// C20 worlds and endpoints of annotation, keyvalue, neuronjson, roi and imageblk.

import (
	"bytes"
	"encoding/json"
	"fmt"
	"sort"
	"strings"

	"verif/vsrv"
)

func c20URLEP(world, dt, name, method, tmpl string, body []byte) *c20EP {
	ps := c20ParseTemplate(tmpl)
	return &c20EP{World: world, DT: dt, Name: name, Method: method, Path: c20Instantiate(tmpl, ps, -1, ""), Body: body, URL: tmpl, NoSeedCheck: true}
}

// ---------------------------------------------------------------------------------------------------------------------
// annotation (synced to a labelmap with 16^3 blocks; a neighbouring unsynced instance)

const c20AnnSeedElems = `[{"Pos":[10,10,10],"Kind":"PreSyn","Tags":["t1"],"Prop":{"p":"q"},"Rels":[{"Rel":"PreSynTo","To":[20,20,20]}]},{"Pos":[20,20,20],"Kind":"PostSyn","Tags":["t1","t2"],"Prop":{},"Rels":[{"Rel":"PostSynTo","To":[10,10,10]}]},{"Pos":[70,10,10],"Kind":"Note","Tags":["t2"],"Prop":{"a":"b"},"Rels":[]}]`

func c20AnnotationWorld() *c20World {
	so := c20BlockOff(c20SentBlock, c20LMBlock)
	sent := fmt.Sprintf(`[{"Pos":[%d,%d,%d],"Kind":"Note","Tags":["s9"],"Prop":{"k":"v"},"Rels":[{"Rel":"GroupedWith","To":[%d,%d,%d]}]},{"Pos":[%d,%d,%d],"Kind":"Note","Tags":["s9"],"Prop":{},"Rels":[]}]`,
		so[0]+3, so[1]+3, so[2]+3, so[0]+5, so[1]+5, so[2]+5, so[0]+5, so[1]+5, so[2]+5)
	w := &c20World{Name: "annotation"}
	w.Build = func(u string) error {
		if err := vsrv.NewInstance(u, "labelmap", "seg", map[string]string{"BlockSize": "16,16,16", "MaxDownresLevel": "1"}); err != nil {
			return err
		}
		for _, n := range []string{"ann", "ann2", "ann3"} {
			if err := vsrv.NewInstance(u, "annotation", n, nil); err != nil {
				return err
			}
		}
		if err := c20MustOK(vsrv.PostS("node/"+u+"/ann/sync", `{"sync":"seg"}`), "sync ann->seg"); err != nil {
			return err
		}
		if err := c20MustOK(lmPostRaw(u, "seg", c20LMBase(), false), "POST raw seg"); err != nil {
			return err
		}
		if err := c20MustOK(lmPostRaw(u, "seg", c20SentVol(), false), "POST raw seg sentinel"); err != nil {
			return err
		}
		vsrv.Quiesce()
		for _, n := range []string{"ann", "ann2", "ann3"} {
			if err := c20MustOK(vsrv.PostS("node/"+u+"/"+n+"/elements", c20AnnSeedElems), "POST elements"); err != nil {
				return err
			}
			if err := c20MustOK(vsrv.PostS("node/"+u+"/"+n+"/elements", sent), "POST sentinel elements"); err != nil {
				return err
			}
		}
		return nil
	}
	a := func(inst, path string, nb bool) c20Read {
		return c20Read{Method: "GET", Path: inst + "/" + path, Norm: annNormalize, Neighbour: nb}
	}
	sbox := fmt.Sprintf("16_16_16/%d_%d_%d", so[0], so[1], so[2])
	w.Sentinel = []c20Read{
		a("ann", "elements/"+sbox, false), a("ann", "blocks/"+sbox, false), a("ann", "tag/s9?relationships=true", false),
		a("ann", fmt.Sprintf("label/%d?relationships=true", c20SentSV), false),
		a("ann2", "all-elements", true), a("ann2", "tag/s9", true), a("ann2", "tag/t1", true),
		{Method: "GET", Path: fmt.Sprintf("seg/raw/0_1_2/16_16_16/%d_%d_%d", so[0], so[1], so[2]), Neighbour: true},
	}
	w.Target = []c20Read{a("ann", "all-elements", false), a("ann", "tag/t1?relationships=true", false), a("ann", "tag/t2", false), a("ann", "tag/t3", false),
		a("ann", "label/1?relationships=true", false), a("ann", "label/2", false), a("ann", "label/3", false), a("ann", "label/4", false),
		{Method: "GET", Path: "ann/tags"}, {Method: "GET", Path: "ann/info"}}
	w.Probe = c20Case{Method: "POST", Path: "ann/elements", Body: []byte(`[{"Pos":[725,725,725],"Kind":"Note","Tags":["probe"],"Prop":{},"Rels":[]}]`)}
	return w
}

func c20AnnotationEPs(thorough bool) []*c20EP {
	var eps []*c20EP
	js := func(name, method, path, body string) {
		eps = append(eps, &c20EP{World: "annotation", DT: "annotation", Name: name, Method: method, Path: path, Body: []byte(body), JSON: body})
	}
	url := func(name, method, tmpl string, body []byte) {
		eps = append(eps, c20URLEP("annotation", "annotation", name, method, tmpl, body))
	}
	js("post-elements", "POST", "ann/elements", `[{"Pos":[30,30,30],"Kind":"PreSyn","Tags":["t3","t1"],"Prop":{"x":"y"},"Rels":[{"Rel":"PreSynTo","To":[20,20,20]}]},{"Pos":[10,10,10],"Kind":"PreSyn","Tags":["t2"],"Prop":{},"Rels":[]}]`)
	js("post-blocks", "POST", "ann/blocks", `{"0,0,0":[{"Pos":[1,2,3],"Kind":"Note","Tags":["t3"],"Prop":{"a":"b"},"Rels":[{"Rel":"GroupedWith","To":[10,10,10]}]}],"2,0,0":[{"Pos":[33,2,3],"Kind":"Gap","Tags":[],"Prop":{},"Rels":[]}]}`)
	js("post-labels", "POST", "ann/labels", `{"2":"[{\"Pos\":[20,4,4],\"Kind\":\"Note\",\"Tags\":[\"t3\"],\"Prop\":{}}]"}`)
	js("post-tags", "POST", "ann/tags", `{"a":"b"}`)
	if thorough {
		js("post-elements-unsynced", "POST", "ann3/elements", `[{"Pos":[30,30,30],"Kind":"PreSyn","Tags":["t3","t1"],"Prop":{"x":"y"},"Rels":[{"Rel":"PreSynTo","To":[20,20,20]}]},{"Pos":[10,10,10],"Kind":"PreSyn","Tags":["t2"],"Prop":{},"Rels":[]}]`)
		js("post-blocks-unsynced", "POST", "ann3/blocks", `{"0,0,0":[{"Pos":[1,2,3],"Kind":"Note","Tags":["t3"],"Prop":{"a":"b"},"Rels":[]}]}`)
		js("post-sync", "POST", "ann3/sync", `{"sync":"seg"}`)
		eps[len(eps)-1].Fresh = true // a changed sync is not visible in the target reads
		url("url-post-elements", "POST", "ann/elements?kafkalog={kafkalog:off}", []byte(`[{"Pos":[30,30,30],"Kind":"Note","Tags":[],"Prop":{},"Rels":[]}]`))
	}
	url("delete-element", "DELETE", "ann/element/{coord:70_10_10}", nil)
	url("move", "POST", "ann/move/{from:10_10_10}/{to:12_12_12}", nil)
	url("get-elements", "GET", "ann/elements/{size:32_32_32}/{offset:0_0_0}", nil)
	url("get-blocks", "GET", "ann/blocks/{size:32_32_32}/{offset:0_0_0}", nil)
	url("get-label", "GET", "ann/label/{label:1}?relationships={rel:true}", nil)
	url("get-tag", "GET", "ann/tag/{tag:t1}", nil)
	url("get-roi", "GET", "ann/roi/{roi:nosuchroi}", nil)
	url("get-scan", "GET", "ann/scan?byCoord={byCoord:true}&keysOnly={keysOnly:false}", nil)
	url("post-reload", "POST", "ann/reload?check={check:false}&inmemory={inmemory:true}", nil)
	return eps
}

// ---------------------------------------------------------------------------------------------------------------------
// keyvalue

func c20KeyvalueWorld() *c20World {
	w := &c20World{Name: "keyvalue"}
	w.Build = func(u string) error {
		for _, n := range []string{"kv", "kv2"} {
			if err := vsrv.NewInstance(u, "keyvalue", n, nil); err != nil {
				return err
			}
			for _, kv := range [][2]string{{"k1", "root1"}, {"k2", `{"json":2}`}, {"sentinel-ZQ", "sentinel value"}} {
				if err := c20MustOK(vsrv.PostS("node/"+u+"/"+n+"/key/"+kv[0], kv[1]), "POST key"); err != nil {
					return err
				}
			}
		}
		return nil
	}
	w.Sentinel = []c20Read{{Method: "GET", Path: "kv/key/sentinel-ZQ"}, {Method: "GET", Path: "kv/keyrangevalues/sentinel-ZQ/sentinel-ZQ?json=true&check=false"},
		{Method: "GET", Path: "kv2/key/sentinel-ZQ", Neighbour: true}, {Method: "GET", Path: "kv2/keys", Neighbour: true}, {Method: "GET", Path: "kv2/key/k1", Neighbour: true}}
	w.Target = []c20Read{{Method: "GET", Path: "kv/keys"}, {Method: "GET", Path: "kv/key/k1"}, {Method: "GET", Path: "kv/key/k2"}, {Method: "GET", Path: "kv/tags"},
		{Method: "GET", Path: "kv/keyrangevalues/0/zzzzzzzz?tar=true"}}
	w.Probe = c20Case{Method: "POST", Path: "kv/key/probe-ZQ", Body: []byte("p")}
	return w
}

// c20HostileKeys: key strings for the key path parameter.
var c20HostileKeys = []string{"", "%20", "%00", "a%2Fb", "..", "%2E%2E", "%FF", "%C3%28", strings.Repeat("K", 70000), "k1/extra", "k1%3Fx=1", "%E2%80%AE", "k%0A1", "~", "k1+k2"}

func c20KeyvalueEPs(thorough bool) []*c20EP {
	var eps []*c20EP
	add := func(ep *c20EP) { ep.World, ep.DT = "keyvalue", "keyvalue"; eps = append(eps, ep) }
	url := func(name, method, tmpl string, body []byte) {
		eps = append(eps, c20URLEP("keyvalue", "keyvalue", name, method, tmpl, body))
	}
	kvs := c20KeyValues([][2]string{{"k1", "pbval"}, {"k9", `{"v":9}`}}).layer()
	add(&c20EP{Name: "post-keyvalues", Method: "POST", Path: "kv/keyvalues", Body: kvs.Data, Layers: []c20Layer{kvs}})
	keys := c20Keys([]string{"k1", "nokey", "k2"}).layer()
	add(&c20EP{Name: "get-keyvalues", Method: "GET", Path: "kv/keyvalues", Body: keys.Data, Layers: []c20Layer{keys}})
	add(&c20EP{Name: "get-keyvalues-json", Method: "GET", Path: "kv/keyvalues?json=true", Body: []byte(`["k2","nokey"]`), JSON: `["k2","nokey"]`})
	add(&c20EP{Name: "get-keyvalues-jsontar", Method: "GET", Path: "kv/keyvalues?jsontar=true", Body: []byte(`["k1","nokey"]`), JSON: `["k1","nokey"]`})
	add(&c20EP{Name: "post-tags", Method: "POST", Path: "kv/tags", Body: []byte(`{"a":"b"}`), JSON: `{"a":"b"}`})
	// keys with odd characters (the key parameter also takes c20HostileKeys)
	url("post-key", "POST", "kv/key/{key:k1}", []byte("changed"))
	url("get-key", "GET", "kv/key/{key:k1}", nil)
	url("delete-key", "DELETE", "kv/key/{key:k2}", nil)
	url("head-key", "HEAD", "kv/key/{key:k1}", nil)
	// hostile version and instance names in front of a valid endpoint
	url("node-uuid", "GET", "/api/node/{uuid:UUID0}/kv/key/k1", nil)
	url("node-instance", "GET", "/api/node/UUID0/{instance:kv}/key/k1", nil)
	url("node-command", "GET", "/api/node/UUID0/kv/{command:keys}", nil)
	url("repo-uuid", "GET", "/api/repo/{uuid:UUID0}/info", nil)
	url("post-node-uuid", "POST", "/api/node/{uuid:UUID0}/kv/key/k1", []byte("v"))
	url("get-keyrange", "GET", "kv/keyrange/{a:k0}/{b:k3}", nil)
	url("get-keyrangevalues", "GET", "kv/keyrangevalues/{a:k0}/{b:k3}?json={json:true}", nil)
	url("get-mutations-range", "GET", "kv/mutations-range/{beg:UUID0}/{end:UUID0}?rangefmt={fmt:timestamps}", nil)
	return eps
}

// ---------------------------------------------------------------------------------------------------------------------
// neuronjson

func c20NeuronjsonWorld() *c20World {
	w := &c20World{Name: "neuronjson"}
	w.Build = func(u string) error {
		for _, n := range []string{"nj", "nj2"} {
			if err := vsrv.NewInstance(u, "neuronjson", n, nil); err != nil {
				return err
			}
			for _, kv := range [][2]string{{"1", `{"bodyid":1,"a":"x","group":7}`}, {"2", `{"bodyid":2,"a":"y","b":3}`}, {fmt.Sprint(c20SentSV), fmt.Sprintf(`{"bodyid":%d,"s":"sentinel","n":[1,2,3]}`, c20SentSV)}} {
				if err := c20MustOK(vsrv.PostS("node/"+u+"/"+n+"/key/"+kv[0]+"?u=builder", kv[1]), "POST key"); err != nil {
					return err
				}
			}
		}
		return nil
	}
	sk := fmt.Sprintf("key/%d?show=all", c20SentSV)
	w.Sentinel = []c20Read{{Method: "GET", Path: "nj/" + sk, Norm: c20NJNorm}, {Method: "GET", Path: "nj/query?show=all", Body: []byte(`{"s":"sentinel"}`), Norm: c20NJNorm},
		{Method: "GET", Path: "nj2/" + sk, Neighbour: true, Norm: c20NJNorm}, {Method: "GET", Path: "nj2/all?show=all", Neighbour: true, Norm: c20NJNorm}, {Method: "GET", Path: "nj2/keys", Neighbour: true, Norm: c20NJNorm}}
	w.Target = []c20Read{{Method: "GET", Path: "nj/all?show=all", Norm: c20NJNorm}, {Method: "GET", Path: "nj/keys", Norm: c20NJNorm}, {Method: "GET", Path: "nj/fields?counts=true", Norm: c20NJNorm},
		{Method: "GET", Path: "nj/json_schema"}, {Method: "GET", Path: "nj/schema"}, {Method: "GET", Path: "nj/schema_batch"}, {Method: "GET", Path: "nj/tags"}}
	w.Probe = c20Case{Method: "POST", Path: "nj/key/777?u=probe", Body: []byte(`{"bodyid":777,"p":1}`)}
	return w
}

// c20NJNorm canonicalises neuronjson answers: annotation and key lists are sets, object member order is not an observable;
// *_time and *_user values are kept (an annotation that was not named by a request must keep them).
func c20NJNorm(code int, body []byte) string {
	d := json.NewDecoder(bytes.NewReader(body))
	d.UseNumber()
	var v interface{}
	if code != 200 || d.Decode(&v) != nil {
		return c20Digest(code, body)
	}
	if arr, ok := v.([]interface{}); ok {
		strs := make([]string, len(arr))
		for i, e := range arr {
			b, _ := json.Marshal(e)
			strs[i] = string(b)
		}
		sort.Strings(strs)
		return c20Digest(200, []byte("["+strings.Join(strs, ",")+"]"))
	}
	b, _ := json.Marshal(v)
	return c20Digest(200, b)
}

func c20NeuronjsonEPs(thorough bool) []*c20EP {
	var eps []*c20EP
	add := func(ep *c20EP) { ep.World, ep.DT = "neuronjson", "neuronjson"; eps = append(eps, ep) }
	js := func(name, method, path, body string) {
		add(&c20EP{Name: name, Method: method, Path: path, Body: []byte(body), JSON: body})
	}
	url := func(name, method, tmpl string, body []byte) {
		eps = append(eps, c20URLEP("neuronjson", "neuronjson", name, method, tmpl, body))
	}
	js("post-key", "POST", "nj/key/1?u=t", `{"bodyid":1,"a":"changed","a_user":"u1","a_time":"2023-01-02T03:04:05Z","position":[1,2,3],"group":8}`)
	js("post-key-replace", "POST", "nj/key/2?u=t&replace=true", `{"bodyid":2,"c":true,"c_time":"2023-01-02T03:04:05Z"}`)
	js("post-key-new", "POST", "nj/key/3?u=t", `{"bodyid":3,"c":null,"d":{"e":1}}`)
	kvs := c20KeyValues([][2]string{{"1", `{"bodyid":1,"z":9}`}, {"5", `{"bodyid":5,"a":"n"}`}}).layer()
	add(&c20EP{Name: "post-keyvalues", Method: "POST", Path: "nj/keyvalues?u=t", Body: kvs.Data, Layers: []c20Layer{kvs}})
	js("post-schema", "POST", "nj/schema?u=t", `{"x":1}`)
	js("post-schema-batch", "POST", "nj/schema_batch?u=t", `{"y":[1,2]}`)
	js("post-json-schema", "POST", "nj/json_schema?u=t", `{"type":"object","properties":{"b":{"type":"integer"}},"required":["bodyid"]}`)
	js("get-query", "GET", "nj/query", `{"a":"x","group":7}`)
	js("post-query", "POST", "nj/query", `[{"a":"re/^x"},{"b":"exists/1"}]`)
	js("get-keyvalues", "GET", "nj/keyvalues?json=true", `["1","2","99"]`)
	js("get-keyvalues-ints", "GET", "nj/keyvalues?json=true", `[1,2,99]`)
	js("get-keyvalues-tar", "GET", "nj/keyvalues?jsontar=true", `["1","2","99"]`)
	js("post-tags", "POST", "nj/tags", `{"a":"b"}`)
	url("get-key", "GET", "nj/key/{key:1}?show={show:all}&fields={fields:a,b}", nil)
	url("url-post-key", "POST", "nj/key/{key:1}?u={u:t}&conditionals={cond:a}&replace={replace:false}", []byte(`{"bodyid":1,"a":"q"}`))
	url("delete-key", "DELETE", "nj/key/{key:2}?u=t", nil)
	url("head-key", "HEAD", "nj/key/{key:2}", nil)
	url("get-keyrange", "GET", "nj/keyrange/{a:0}/{b:3}", nil)
	url("get-keyrangevalues", "GET", "nj/keyrangevalues/{a:0}/{b:3}?json={json:true}", nil)
	url("get-all", "GET", "nj/all?show={show:user}&fields={fields:a}", nil)
	url("get-fields", "GET", "nj/fields?counts={counts:true}", nil)
	return eps
}

// ---------------------------------------------------------------------------------------------------------------------
// roi (POST roi replaces the whole ROI, so every span of the instance is named by it: sentinels live in the neighbour)

func c20ROIWorld() *c20World {
	w := &c20World{Name: "roi"}
	w.Build = func(u string) error {
		for _, n := range []string{"roi", "roi2"} {
			if err := vsrv.NewInstance(u, "roi", n, map[string]string{"BlockSize": "4,4,4"}); err != nil {
				return err
			}
			if err := c20MustOK(vsrv.PostS("node/"+u+"/"+n+"/roi", "[[0,0,0,3],[1,0,0,0],[43,41,37,38]]"), "POST roi"); err != nil {
				return err
			}
		}
		if err := vsrv.NewInstance(u, "keyvalue", "probe", nil); err != nil {
			return err
		}
		return nil
	}
	w.Sentinel = []c20Read{{Method: "GET", Path: "roi2/roi", Neighbour: true}, {Method: "GET", Path: "roi2/mask/0_1_2/8_4_4/148_164_172", Neighbour: true},
		{Method: "POST", Path: "roi2/ptquery", Body: []byte("[[1,1,1],[150,165,173],[50,50,50]]"), Neighbour: true}}
	w.Target = []c20Read{{Method: "GET", Path: "roi/roi"}, {Method: "GET", Path: "roi/info"}, {Method: "GET", Path: "roi/mask/0_1_2/16_8_8/0_0_0"},
		{Method: "GET", Path: "roi/partition?batchsize=2"}}
	// the valid later write goes to the target instance itself (it re-posts the world's own spans): a refused request
	// that left the instance's write path locked or broken is seen by the next writer, not by readers
	w.Probe = c20Case{Method: "POST", Path: "roi/roi", Body: []byte("[[0,0,0,3],[1,0,0,0],[43,41,37,38]]")}
	return w
}

func c20ROIEPs(thorough bool) []*c20EP {
	var eps []*c20EP
	js := func(name, method, path, body string) {
		eps = append(eps, &c20EP{World: "roi", DT: "roi", Name: name, Method: method, Path: path, Body: []byte(body), JSON: body})
	}
	url := func(name, method, tmpl string, body []byte) {
		eps = append(eps, c20URLEP("roi", "roi", name, method, tmpl, body))
	}
	js("post-roi", "POST", "roi/roi", "[[5,5,5,6],[5,6,2,2],[6,0,0,1]]")
	js("post-ptquery", "POST", "roi/ptquery", "[[1,1,1],[50,50,50]]")
	url("get-mask", "GET", "roi/mask/{dims:0_1_2}/{size:16_8_8}/{offset:0_0_0}", nil)
	url("get-partition", "GET", "roi/partition?batchsize={batchsize:2}&optimized={optimized:true}", nil)
	url("delete-roi", "DELETE", "roi/roi", nil)
	return eps
}

// ---------------------------------------------------------------------------------------------------------------------
// imageblk (uint8blk and uint16blk with 8^3 blocks)

func c20ImgVol(n int, mul byte) []byte {
	b := make([]byte, n)
	for i := range b {
		b[i] = byte(i)*mul + 1
	}
	return b
}

func c20ImageblkWorld() *c20World {
	so := c20BlockOff(c20SentBlock, 8)
	w := &c20World{Name: "imageblk"}
	w.Build = func(u string) error {
		for _, n := range []string{"gray", "gray2"} {
			if err := vsrv.NewInstance(u, "uint8blk", n, map[string]string{"BlockSize": "8,8,8"}); err != nil {
				return err
			}
			if err := c20MustOK(vsrv.Post("node/"+u+"/"+n+"/raw/0_1_2/16_8_8/0_0_0", c20ImgVol(1024, 3)), "POST raw"); err != nil {
				return err
			}
			if err := c20MustOK(vsrv.Post(fmt.Sprintf("node/%s/%s/raw/0_1_2/8_8_8/%d_%d_%d", u, n, so[0], so[1], so[2]), c20ImgVol(512, 5)), "POST raw sentinel"); err != nil {
				return err
			}
		}
		if err := vsrv.NewInstance(u, "uint16blk", "g16", map[string]string{"BlockSize": "8,8,8"}); err != nil {
			return err
		}
		if err := c20MustOK(vsrv.Post("node/"+u+"/g16/raw/0_1_2/8_8_8/0_0_0", c20ImgVol(1024, 7)), "POST raw g16"); err != nil {
			return err
		}
		return nil
	}
	sraw := fmt.Sprintf("raw/0_1_2/8_8_8/%d_%d_%d", so[0], so[1], so[2])
	w.Sentinel = []c20Read{{Method: "GET", Path: "gray/" + sraw}, {Method: "GET", Path: fmt.Sprintf("gray/blocks/%d_%d_%d/1", c20SentBlock[0], c20SentBlock[1], c20SentBlock[2])},
		{Method: "GET", Path: "gray2/" + sraw, Neighbour: true}, {Method: "GET", Path: "gray2/raw/0_1_2/16_8_8/0_0_0", Neighbour: true}}
	w.Target = []c20Read{{Method: "GET", Path: "gray/raw/0_1_2/24_16_16/-8_-8_-8"}, {Method: "GET", Path: "gray/info"}, {Method: "GET", Path: "g16/raw/0_1_2/16_8_8/0_0_0"}, {Method: "GET", Path: "g16/info"}}
	w.Probe = c20Case{Method: "POST", Path: "gray/raw/0_1_2/8_8_8/360_360_360?mutate=true", Body: bytes.Repeat([]byte{0x3C}, 512)}
	return w
}

func c20ImageblkEPs(thorough bool) []*c20EP {
	var eps []*c20EP
	add := func(ep *c20EP) { ep.World, ep.DT = "imageblk", "imageblk"; eps = append(eps, ep) }
	url := func(name, method, tmpl string, body []byte) {
		eps = append(eps, c20URLEP("imageblk", "imageblk", name, method, tmpl, body))
	}
	v8 := c20ImgVol(512, 11)
	raw := c20Layer{Data: v8, Bounds: []int{8, 64}, Headerless: true}
	add(&c20EP{Name: "post-raw", Method: "POST", Path: "gray/raw/0_1_2/8_8_8/0_0_0", Body: v8, Layers: []c20Layer{raw}})
	add(&c20EP{Name: "post-raw-mutate", Method: "POST", Path: "gray/raw/0_1_2/8_8_8/0_0_0?mutate=true", Body: v8, Layers: []c20Layer{raw}})
	v2 := c20ImgVol(1024, 13)
	add(&c20EP{Name: "post-blocks", Method: "POST", Path: "gray/blocks/0_0_0/2", Body: v2, Layers: []c20Layer{{Data: v2, Bounds: []int{512}, Headerless: true}}})
	add(&c20EP{Name: "post-blocks-uint16", Method: "POST", Path: "g16/blocks/0_0_0/1", Body: v2, Layers: []c20Layer{{Data: v2, Bounds: []int{512}, Headerless: true}}})
	add(&c20EP{Name: "post-raw-uint16", Method: "POST", Path: "g16/raw/0_1_2/8_8_8/0_0_0", Body: v2, Layers: []c20Layer{{Data: v2, Bounds: []int{16, 128}, Headerless: true}}})
	add(&c20EP{Name: "post-extents", Method: "POST", Path: "gray/extents", Body: []byte(`{"MinPoint":[0,0,0],"MaxPoint":[63,63,63]}`), JSON: `{"MinPoint":[0,0,0],"MaxPoint":[63,63,63]}`})
	add(&c20EP{Name: "post-resolution", Method: "POST", Path: "gray/resolution", Body: []byte(`[4.0,4.0,8.0]`), JSON: `[4.0,4.0,8.0]`})
	url("get-raw", "GET", "gray/raw/0_1_2/{size:8_8_8}/{offset:0_0_0}", nil)
	url("get-raw-2d", "GET", "gray/raw/{dims:0_1}/{size:8_8}/{offset:0_0_1}/{format:png}", nil)
	url("get-isotropic", "GET", "gray/isotropic/{dims:0_2}/{size:8_8}/{offset:0_0_1}", nil)
	url("url-post-raw", "POST", "gray/raw/0_1_2/{size:8_8_8}/{offset:0_0_0}?mutate={mutate:false}", v8)
	url("get-blocks", "GET", "gray/blocks/{coord:0_0_0}/{span:2}", nil)
	url("url-post-blocks", "POST", "gray/blocks/{coord:0_0_0}/{span:2}", v2)
	url("get-specificblocks", "GET", "gray/specificblocks?blocks={blocks:0,0,0,1,0,0}&compression={compression:uncompressed}", nil)
	url("get-subvolblocks", "GET", "gray/subvolblocks/{size:16_8_8}/{offset:0_0_0}?compression={compression:uncompressed}", nil)
	url("get-arb", "GET", "gray/arb/{tl:0_0_1}/{tr:8_0_1}/{bl:0_8_1}/{res:1}", nil)
	url("get-rawkey", "GET", "gray/rawkey?x={x:0}&y={y:0}&z={z:0}", nil)
	return eps
}
