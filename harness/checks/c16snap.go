package checks

// Read side of C16: the menu of read requests, parsing of every response format into a list of (identity, value) items,
// the answer the reference model gives for each request, and the comparison store path / in-memory path / reference.

import (
	"archive/tar"
	"bytes"
	"crypto/sha1"
	"encoding/hex"
	"encoding/json"
	"fmt"
	"io"
	"sort"
	"strconv"
	"strings"

	pb "google.golang.org/protobuf/proto"

	"github.com/janelia-flyem/dvid/datatype/common/proto"

	"verif/vsrv"
)

// c16Item is one element of an answer: a key, a field name, a record (identified by its body id) ...
type c16Item struct{ ID, Val string }

// c16Ans is a parsed answer.
type c16Ans struct {
	Code  int
	Items []c16Item // in response order
	Flags []string  // oddities that are not part of the items (zero-count entries, empty field names)
	Err   string    // the body could not be parsed
}

func (a *c16Ans) render(sorted bool) string {
	if a == nil {
		return "<none>"
	}
	parts := make([]string, 0, len(a.Items)+2)
	for _, it := range a.Items {
		if it.Val == "" {
			parts = append(parts, it.ID)
		} else {
			parts = append(parts, it.ID+"="+it.Val)
		}
	}
	if sorted {
		sort.Strings(parts)
	}
	head := strconv.Itoa(a.Code)
	if a.Err != "" {
		head += "!" + a.Err
	}
	return head + "\x1f" + strings.Join(parts, "\x1f")
}

// canon is the order-insensitive rendering (multiset of items), raw keeps the response order.
func (a *c16Ans) canon() string { return a.render(true) }
func (a *c16Ans) raw() string   { return strings.ReplaceAll(a.render(false), "\x1f", " ") }

// c16Req is one read request of the snapshot.
type c16Req struct {
	Label  string
	Class  string // keys | all | fields | counts | key | head | keyrange | keyrangevalues | keyvalues | query | query-onlyid | query-fields
	Method string
	URL    string
	Body   string
	Kind   string // parser: obj | strs | fieldlist | objs | ids | idobjs | counts | pbkv | tar | head
	// Exp computes the reference answer from the model; lexicographic selects the store path's documented key-range meaning
	// (only key ranges distinguish the two). nil: the model has no opinion.
	Exp func(m *c16Model, lexicographic bool) *c16Ans
}

func (rq c16Req) expect(m *c16Model, lexicographic bool) *c16Ans {
	if rq.Exp == nil {
		return nil
	}
	return rq.Exp(m, lexicographic)
}

func c16ObjItem(r c16Rec) c16Item {
	id := r["bodyid"]
	if id == "" {
		id = "?"
	}
	return c16Item{ID: id, Val: c16RecString(r)}
}

func c16RecItems(r c16Rec) []c16Item {
	var ks []string
	for k := range r {
		ks = append(ks, k)
	}
	sort.Strings(ks)
	items := make([]c16Item, len(ks))
	for i, k := range ks {
		items[i] = c16Item{ID: k, Val: r[k]}
	}
	return items
}

func c16Show(show string) (user, time bool) {
	switch show {
	case "user":
		return true, false
	case "time":
		return false, true
	case "all":
		return true, true
	}
	return false, false
}

func c16QS(show string, fields []string, extra ...string) string {
	var p []string
	if show != "" {
		p = append(p, "show="+show)
	}
	if len(fields) > 0 {
		p = append(p, "fields="+strings.Join(fields, ","))
	}
	p = append(p, extra...)
	if len(p) == 0 {
		return ""
	}
	return "?" + strings.Join(p, "&")
}

// c16InRange reports whether key id lies in [lo,hi] under the numeric (in-memory path) or lexicographic (store path,
// as the help text words it) reading of the key range.
func c16InRange(id uint64, lo, hi string, lexicographic bool) bool {
	if lexicographic {
		s := strconv.FormatUint(id, 10)
		return s >= lo && s <= hi
	}
	return id >= c16KeyNum(lo) && id <= c16KeyNum(hi)
}

func c16KeyNum(k string) uint64 {
	if k[0] > '9' {
		return ^uint64(0)
	}
	if k[0] < '0' {
		return 0
	}
	n, _ := strconv.ParseUint(k, 10, 64)
	return n
}

// c16Requests is the read menu applied to every snapshotted version.
func c16Requests(ids []uint64) []c16Req {
	var rs []c16Req
	add := func(r c16Req) {
		if r.Method == "" {
			r.Method = "GET"
		}
		rs = append(rs, r)
	}
	recs := func(m *c16Model, keep func(id uint64) bool, fields []string, show string, dropBare bool) []c16Item {
		u, t := c16Show(show)
		var items []c16Item
		for _, id := range m.ids() {
			if keep != nil && !keep(id) {
				continue
			}
			out := c16Select(m.Recs[id], fields, u, t)
			if dropBare && len(out) <= 1 {
				continue
			}
			items = append(items, c16ObjItem(out))
		}
		return items
	}
	keys := func(m *c16Model, keep func(id uint64) bool) []c16Item {
		var items []c16Item
		for _, id := range m.ids() {
			if keep == nil || keep(id) {
				items = append(items, c16Item{ID: strconv.FormatUint(id, 10)})
			}
		}
		return items
	}
	// keys, all, fields
	add(c16Req{Label: "keys", Class: "keys", URL: "keys", Kind: "strs", Exp: func(m *c16Model, _ bool) *c16Ans {
		return &c16Ans{Code: 200, Items: keys(m, nil)}
	}})
	for _, v := range []struct {
		show   string
		fields []string
	}{{"", nil}, {"all", nil}, {"user", []string{"a"}}, {"time", []string{"b", "a"}}} {
		v := v
		add(c16Req{Label: "all" + c16QS(v.show, v.fields), Class: "all", URL: "all" + c16QS(v.show, v.fields), Kind: "objs-nobare",
			Exp: func(m *c16Model, _ bool) *c16Ans {
				return &c16Ans{Code: 200, Items: recs(m, nil, v.fields, v.show, true)}
			}})
	}
	fieldCounts := func(m *c16Model) map[string]int {
		n := map[string]int{}
		for _, r := range m.Recs {
			for f := range r {
				n[f]++
			}
		}
		return n
	}
	add(c16Req{Label: "fields", Class: "fields", URL: "fields", Kind: "fieldlist", Exp: func(m *c16Model, _ bool) *c16Ans {
		var items []c16Item
		for f := range fieldCounts(m) {
			items = append(items, c16Item{ID: f})
		}
		sort.Slice(items, func(i, j int) bool { return items[i].ID < items[j].ID })
		return &c16Ans{Code: 200, Items: items}
	}})
	add(c16Req{Label: "fields?counts=true", Class: "counts", URL: "fields?counts=true", Kind: "counts", Exp: func(m *c16Model, _ bool) *c16Ans {
		var items []c16Item
		for f, n := range fieldCounts(m) {
			items = append(items, c16Item{ID: f, Val: strconv.Itoa(n)})
		}
		sort.Slice(items, func(i, j int) bool { return items[i].ID < items[j].ID })
		return &c16Ans{Code: 200, Items: items}
	}})
	// point reads
	for _, id := range ids {
		id := id
		for _, v := range []struct {
			show   string
			fields []string
		}{{"all", nil}, {"", nil}, {"time", []string{"b"}}} {
			v := v
			add(c16Req{Label: fmt.Sprintf("key/%d%s", id, c16QS(v.show, v.fields)), Class: "key", URL: fmt.Sprintf("key/%d%s", id, c16QS(v.show, v.fields)), Kind: "obj",
				Exp: func(m *c16Model, _ bool) *c16Ans {
					r, ok := m.Recs[id]
					if !ok {
						return &c16Ans{Code: 404}
					}
					u, t := c16Show(v.show)
					return &c16Ans{Code: 200, Items: c16RecItems(c16Select(r, v.fields, u, t))}
				}})
		}
		add(c16Req{Label: fmt.Sprintf("HEAD key/%d", id), Class: "head", Method: "HEAD", URL: fmt.Sprintf("key/%d", id), Kind: "head",
			Exp: func(m *c16Model, _ bool) *c16Ans {
				if _, ok := m.Recs[id]; ok {
					return &c16Ans{Code: 200}
				}
				return &c16Ans{Code: 404}
			}})
	}
	// key ranges
	ranges := [][2]string{{"0", "a"}, {"2", "10"}, {"1", "3"}, {"10", "10"}, {"3", "20"}, {"10", "2"}, {"2", "2"}}
	for _, rg := range ranges {
		lo, hi := rg[0], rg[1]
		in := func(lex bool) func(id uint64) bool {
			return func(id uint64) bool { return c16InRange(id, lo, hi, lex) }
		}
		add(c16Req{Label: "keyrange/" + lo + "/" + hi, Class: "keyrange", URL: "keyrange/" + lo + "/" + hi, Kind: "strs",
			Exp: func(m *c16Model, lex bool) *c16Ans {
				if lex {
					// the store path scans the lexicographic interval and then filters numerically
					return &c16Ans{Code: 200, Items: keys(m, func(id uint64) bool { return in(true)(id) && in(false)(id) })}
				}
				return &c16Ans{Code: 200, Items: keys(m, in(false))}
			}})
		add(c16Req{Label: "keyrangevalues/" + lo + "/" + hi + "?json=true&show=all", Class: "keyrangevalues", URL: "keyrangevalues/" + lo + "/" + hi + "?json=true&show=all", Kind: "idobjs",
			Exp: func(m *c16Model, lex bool) *c16Ans {
				return &c16Ans{Code: 200, Items: recs(m, in(lex), nil, "all", false)}
			}})
	}
	add(c16Req{Label: "keyrangevalues/0/a (protobuf)", Class: "keyrangevalues", URL: "keyrangevalues/0/a", Kind: "pbkv",
		Exp: func(m *c16Model, lex bool) *c16Ans { return &c16Ans{Code: 200, Items: recs(m, nil, nil, "", false)} }})
	add(c16Req{Label: "keyrangevalues/0/a?tar=true&fields=a&show=user", Class: "keyrangevalues", URL: "keyrangevalues/0/a?tar=true&fields=a&show=user", Kind: "tar",
		Exp: func(m *c16Model, lex bool) *c16Ans {
			return &c16Ans{Code: 200, Items: recs(m, nil, []string{"a"}, "user", false)}
		}})
	// keyvalues
	want := append(append([]uint64{}, ids...), 99)
	var asInts, asStrs []string
	for _, id := range want {
		asInts = append(asInts, fmt.Sprint(id))
		asStrs = append(asStrs, fmt.Sprintf("%q", fmt.Sprint(id)))
	}
	listed := func(m *c16Model, show string, missing string) []c16Item {
		u, t := c16Show(show)
		var items []c16Item
		for _, id := range want {
			r, ok := m.Recs[id]
			if !ok {
				if missing != "" {
					items = append(items, c16Item{ID: fmt.Sprint(id), Val: missing})
				}
				continue
			}
			it := c16ObjItem(c16Select(r, nil, u, t))
			it.ID = fmt.Sprint(id)
			items = append(items, it)
		}
		return items
	}
	add(c16Req{Label: "keyvalues?json=true&show=all [ints]", Class: "keyvalues", URL: "keyvalues?json=true&show=all", Body: "[" + strings.Join(asInts, ",") + "]", Kind: "idobjs",
		Exp: func(m *c16Model, _ bool) *c16Ans { return &c16Ans{Code: 200, Items: listed(m, "all", "")} }})
	add(c16Req{Label: "keyvalues?json=true [strings]", Class: "keyvalues", URL: "keyvalues?json=true", Body: "[" + strings.Join(asStrs, ",") + "]", Kind: "idobjs",
		Exp: func(m *c16Model, _ bool) *c16Ans { return &c16Ans{Code: 200, Items: listed(m, "", "")} }})
	add(c16Req{Label: "keyvalues?jsontar=true", Class: "keyvalues", URL: "keyvalues?jsontar=true", Body: "[" + strings.Join(asStrs, ",") + "]", Kind: "tar",
		Exp: func(m *c16Model, _ bool) *c16Ans { return &c16Ans{Code: 200, Items: listed(m, "", "<empty>")} }})
	var pk proto.Keys
	for _, id := range want {
		pk.Keys = append(pk.Keys, fmt.Sprint(id))
	}
	ser, _ := pb.Marshal(&pk)
	add(c16Req{Label: "keyvalues?show=user (protobuf)", Class: "keyvalues", URL: "keyvalues?show=user", Body: string(ser), Kind: "pbkv",
		Exp: func(m *c16Model, _ bool) *c16Ans { return &c16Ans{Code: 200, Items: listed(m, "user", "<empty>")} }})
	// queries
	for _, q := range c16Queries() {
		q := q
		match := func(m *c16Model) func(id uint64) bool {
			return func(id uint64) bool { return q.matches(m.Recs[id]) }
		}
		add(c16Req{Label: "query " + q.JSON, Class: "query", URL: "query", Body: q.JSON, Kind: "objs",
			Exp: func(m *c16Model, _ bool) *c16Ans { return &c16Ans{Code: 200, Items: recs(m, match(m), nil, "", false)} }})
		add(c16Req{Label: "query?onlyid=true " + q.JSON, Class: "query-onlyid", URL: "query?onlyid=true", Body: q.JSON, Kind: "ids",
			Exp: func(m *c16Model, _ bool) *c16Ans { return &c16Ans{Code: 200, Items: keys(m, match(m))} }})
	}
	q0 := c16Queries()[3] // a exists
	add(c16Req{Label: "query?show=all " + q0.JSON, Class: "query", URL: "query?show=all", Body: q0.JSON, Kind: "objs",
		Exp: func(m *c16Model, _ bool) *c16Ans {
			return &c16Ans{Code: 200, Items: recs(m, func(id uint64) bool { return q0.matches(m.Recs[id]) }, nil, "all", false)}
		}})
	add(c16Req{Label: "query?fields=b&show=user " + q0.JSON, Class: "query-fields", URL: "query?fields=b&show=user", Body: q0.JSON, Kind: "objs",
		Exp: func(m *c16Model, _ bool) *c16Ans {
			return &c16Ans{Code: 200, Items: recs(m, func(id uint64) bool { return q0.matches(m.Recs[id]) }, []string{"b"}, "user", false)}
		}})
	return rs
}

// c16LiteRequests is the short menu used for the versions that the last request did not address.
func c16LiteRequests(ids []uint64) []c16Req {
	var out []c16Req
	for _, rq := range c16Requests(ids) {
		switch rq.Label {
		case "keys", "all?show=all", "fields?counts=true":
			out = append(out, rq)
		}
	}
	return out
}

type c16Snap []*c16Ans

func c16Snapshot(w *c16World, node int, reqs []c16Req) c16Snap {
	s := make(c16Snap, len(reqs))
	for i, rq := range reqs {
		var body []byte
		if rq.Body != "" {
			body = []byte(rq.Body)
		}
		r := vsrv.Do(rq.Method, w.url(node, rq.URL), body)
		s[i] = c16Parse(rq.Kind, r)
	}
	return s
}

// c16ObservedRecords extracts the records read by GET key/<id>?show=all from a snapshot.
func c16ObservedRecords(s c16Snap, reqs []c16Req, ids []uint64) map[uint64]c16Rec {
	out := map[uint64]c16Rec{}
	for i, rq := range reqs {
		for _, id := range ids {
			if rq.Label == fmt.Sprintf("key/%d?show=all", id) && s[i].Code == 200 && s[i].Err == "" {
				r := c16Rec{}
				for _, it := range s[i].Items {
					r[it.ID] = it.Val
				}
				out[id] = r
			}
		}
	}
	return out
}

func c16Parse(kind string, r vsrv.Resp) *c16Ans {
	a := &c16Ans{Code: r.Code}
	if kind == "head" || r.Code < 200 || r.Code >= 300 {
		return a
	}
	fail := func(err error) *c16Ans {
		a.Err = "unparsable(" + kind + "): " + c16Trunc(string(r.Body), 120)
		_ = err
		return a
	}
	obj := func(raw []byte) (c16Rec, bool) {
		rec, err := c16ParseObj(raw)
		return rec, err == nil
	}
	switch kind {
	case "obj":
		rec, ok := obj(r.Body)
		if !ok {
			return fail(nil)
		}
		a.Items = c16RecItems(rec)
	case "strs", "fieldlist":
		var l []string
		if err := json.Unmarshal(r.Body, &l); err != nil {
			return fail(err)
		}
		for _, s := range l {
			if kind == "fieldlist" && s == "" {
				a.Flags = append(a.Flags, "empty-field-name")
				continue
			}
			a.Items = append(a.Items, c16Item{ID: s})
		}
	case "objs", "objs-nobare":
		var l []json.RawMessage
		if err := json.Unmarshal(r.Body, &l); err != nil {
			return fail(err)
		}
		for _, raw := range l {
			rec, ok := obj(raw)
			if !ok {
				return fail(nil)
			}
			if kind == "objs-nobare" && len(rec) <= 1 {
				continue
			}
			a.Items = append(a.Items, c16ObjItem(rec))
		}
	case "ids":
		var l []json.RawMessage
		if err := json.Unmarshal(r.Body, &l); err != nil {
			return fail(err)
		}
		for _, raw := range l {
			if rec, ok := obj(raw); ok { // body-id-only queries answer with records whatever onlyid says
				a.Items = append(a.Items, c16Item{ID: rec["bodyid"]})
				continue
			}
			c, err := c16Canon(raw)
			if err != nil {
				return fail(err)
			}
			a.Items = append(a.Items, c16Item{ID: c})
		}
	case "idobjs":
		// keep the response order: decode token by token
		dec := json.NewDecoder(bytes.NewReader(r.Body))
		tok, err := dec.Token()
		if err != nil || tok != json.Delim('{') {
			return fail(err)
		}
		for dec.More() {
			kt, err := dec.Token()
			if err != nil {
				return fail(err)
			}
			var raw json.RawMessage
			if err := dec.Decode(&raw); err != nil {
				return fail(err)
			}
			rec, ok := obj(raw)
			if !ok {
				return fail(nil)
			}
			a.Items = append(a.Items, c16Item{ID: fmt.Sprint(kt), Val: c16RecString(rec)})
		}
	case "counts":
		var m map[string]int64
		if err := json.Unmarshal(r.Body, &m); err != nil {
			return fail(err)
		}
		var fs []string
		for f := range m {
			fs = append(fs, f)
		}
		sort.Strings(fs)
		for _, f := range fs {
			if m[f] == 0 {
				a.Flags = append(a.Flags, "zero-count-entry")
				continue
			}
			a.Items = append(a.Items, c16Item{ID: f, Val: strconv.FormatInt(m[f], 10)})
		}
	case "pbkv":
		var kvs proto.KeyValues
		if err := pb.Unmarshal(r.Body, &kvs); err != nil {
			return fail(err)
		}
		for _, kv := range kvs.Kvs {
			if len(kv.Value) == 0 {
				a.Items = append(a.Items, c16Item{ID: kv.Key, Val: "<empty>"})
				continue
			}
			rec, ok := obj(kv.Value)
			if !ok {
				return fail(nil)
			}
			a.Items = append(a.Items, c16Item{ID: kv.Key, Val: c16RecString(rec)})
		}
	case "tar":
		tr := tar.NewReader(bytes.NewReader(r.Body))
		for {
			h, err := tr.Next()
			if err == io.EOF {
				break
			}
			if err != nil {
				return fail(err)
			}
			data, _ := io.ReadAll(tr)
			if len(data) == 0 {
				a.Items = append(a.Items, c16Item{ID: h.Name, Val: "<empty>"})
				continue
			}
			rec, ok := obj(data)
			if !ok {
				return fail(nil)
			}
			a.Items = append(a.Items, c16Item{ID: h.Name, Val: c16RecString(rec)})
		}
	default:
		a.Err = "unknown kind " + kind
	}
	return a
}

// c16DiffKind names how answer x deviates from answer y: status, duplicate, extra, missing, value.
func c16DiffKind(x, y *c16Ans) string {
	if x.Code != y.Code {
		return "status"
	}
	if x.Err != "" || y.Err != "" {
		return "unparsable"
	}
	count := func(a *c16Ans) (map[string]int, map[string]string) {
		n, v := map[string]int{}, map[string]string{}
		for _, it := range a.Items {
			n[it.ID]++
			v[it.ID] = it.Val
		}
		return n, v
	}
	xn, xv := count(x)
	yn, yv := count(y)
	for id, n := range xn {
		if n > 1 && yn[id] <= 1 {
			return "duplicate"
		}
	}
	for id := range xn {
		if yn[id] == 0 {
			return "extra"
		}
	}
	for id := range yn {
		if xn[id] == 0 {
			return "missing"
		}
	}
	for id := range xn {
		if xv[id] != yv[id] {
			return "value"
		}
	}
	return "count"
}

// c16IDs renders the multiset of item identities of an answer.
func c16IDs(a *c16Ans) string {
	ids := make([]string, len(a.Items))
	for i, it := range a.Items {
		ids[i] = it.ID
	}
	sort.Strings(ids)
	return strconv.Itoa(a.Code) + ":" + strings.Join(ids, "\x1f")
}

// c16CommonEqual reports whether the items present in both answers carry the same values.
func c16CommonEqual(a, b *c16Ans) bool {
	v := map[string]string{}
	for _, it := range a.Items {
		v[it.ID] = it.Val
	}
	for _, it := range b.Items {
		if av, ok := v[it.ID]; ok && av != it.Val {
			return false
		}
	}
	return true
}

// c16Compare evaluates one read request: in-memory answer (head) against store answer (parent) and both against the
// reference. Keys: A:<class>:<deviating side>:<kind> for a path difference. When both paths agree with each other but not with
// the reference (M:<class>:<kind>) nothing the statement asks for is broken - the update rules are judged record by record in
// compareRecords - so that case is only noted in the evidence.
func c16Compare(rep *c16Report, rq c16Req, mem, store, exp, expStore *c16Ans, headInMemory bool, suffix string) {
	pathA, pathB := "in-memory path (new head)", "store path (committed parent)"
	if !headInMemory {
		pathA = "store path (new head on a side branch)"
	}
	for _, fl := range mem.Flags {
		has := false
		for _, g := range store.Flags {
			if g == fl {
				has = true
			}
		}
		if !has {
			rep.violate("A:"+rq.Class+":mem:"+fl+suffix, fmt.Sprintf("%s: the %s answers with a %s that the %s does not have: %s vs %s", rq.Label, pathA, fl, pathB, mem.raw(), store.raw()))
		}
	}
	if !headInMemory {
		// side branch: both versions are answered from the store
		if mem.canon() != store.canon() {
			rep.violate("A:"+rq.Class+":store-vs-store:"+c16DiffKind(mem, store)+suffix, fmt.Sprintf("%s: committed parent answers %s, its unchanged child answers %s", rq.Label, store.raw(), mem.raw()))
		} else if expStore != nil && mem.canon() != expStore.canon() && (exp == nil || mem.canon() != exp.canon()) {
			rep.note("M:"+rq.Class+":"+c16DiffKind(mem, expStore)+":store-only"+suffix, fmt.Sprintf("%s: both versions (store path) answer %s, the reference model says %s", rq.Label, mem.raw(), expStore.raw()))
		}
		return
	}
	mc, sc := mem.canon(), store.canon()
	if mc == sc {
		if exp != nil && mc != exp.canon() {
			// the two paths agree; with a key range that the two documented orders read differently the reference differs
			// per path, and agreement of the paths is all the statement asks
			if expStore != nil && exp.canon() != expStore.canon() {
				return
			}
			rep.note("M:"+rq.Class+":"+c16DiffKind(mem, exp)+suffix, fmt.Sprintf("%s: both paths answer %s, the reference model says %s", rq.Label, mem.raw(), exp.raw()))
		}
		return
	}
	if exp == nil {
		rep.violate("A:"+rq.Class+":mem-vs-store:"+c16DiffKind(mem, store)+suffix, fmt.Sprintf("%s: %s answers %s, %s answers %s", rq.Label, pathA, mem.raw(), pathB, store.raw()))
		return
	}
	// the key-range case is recognised on the identities alone, so that a disagreement about a value elsewhere (reported
	// under its own key) does not change the class of this one
	if expStore != nil && exp.canon() != expStore.canon() && c16IDs(mem) == c16IDs(exp) && c16IDs(store) == c16IDs(expStore) && c16CommonEqual(mem, store) {
		rep.violate("A:"+rq.Class+":store:lexicographic-key-range", fmt.Sprintf("%s: %s answers %s, %s answers %s", rq.Label, pathA, mem.raw(), pathB, store.raw())+" (the store path reads the key range as an interval of decimal strings, the in-memory path as an interval of numbers)")
		return
	}
	memOK := mc == exp.canon()
	storeNumOK := sc == exp.canon()
	storeLexOK := expStore != nil && sc == expStore.canon()
	what := fmt.Sprintf("%s: %s answers %s, %s answers %s, reference %s", rq.Label, pathA, mem.raw(), pathB, store.raw(), exp.raw())
	switch {
	// a deviation of the store path does not depend on a restart (the committed parent is answered from the persistent
	// store either way), so its key carries no restart suffix
	case memOK && !storeNumOK && storeLexOK:
		rep.violate("A:"+rq.Class+":store:lexicographic-key-range", what+" (the store path reads the key range as an interval of decimal strings, the in-memory path as an interval of numbers)")
	case memOK:
		rep.violate("A:"+rq.Class+":store:"+c16DiffKind(store, exp), what)
	case storeNumOK || storeLexOK:
		ref := exp
		if !storeNumOK {
			ref = expStore
		}
		rep.violate("A:"+rq.Class+":mem:"+c16DiffKind(mem, ref)+suffix, what)
	default:
		rep.violate("A:"+rq.Class+":both:"+c16DiffKind(mem, store)+suffix, what)
	}
}

// c16CanonState is the dedupe key of a state: the answers of both paths with stamp values erased, the schema flag and the
// shape of the version chain.
func c16CanonState(w *c16World, hs, ps c16Snap, reqs []c16Req) string {
	var sb strings.Builder
	erase := func(a *c16Ans, sorted bool) string {
		// a_user/a_time values -> presence only
		s := a.raw()
		if sorted {
			s = a.canon()
		}
		var out strings.Builder
		for {
			i := strings.Index(s, `_user":"`)
			j := strings.Index(s, `_time":"`)
			if i < 0 && j < 0 {
				break
			}
			if i < 0 || (j >= 0 && j < i) {
				i = j
			}
			out.WriteString(s[:i+8])
			rest := s[i+8:]
			k := strings.Index(rest, `"`)
			if k < 0 {
				s = rest
				break
			}
			s = rest[k:]
		}
		out.WriteString(s)
		return out.String()
	}
	for i, rq := range reqs {
		switch rq.Label {
		case "keys", "all?show=all", "fields?counts=true":
			sorted := rq.Label != "keys"
			fmt.Fprintf(&sb, "%s|H:%s|P:%s\n", rq.Label, erase(hs[i], sorted), erase(ps[i], sorted))
		}
	}
	head := w.Nodes[w.Cur]
	// the hand-over of the oracle added one version: do not count it
	fmt.Fprintf(&sb, "schema=%v versions=%d branch=%q", head.M.Schema, len(w.Nodes)-1, head.Branch)
	h := sha1.Sum([]byte(sb.String()))
	return hex.EncodeToString(h[:10])
}
