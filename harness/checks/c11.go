//go:build vsched

package checks

// C11 Concurrent acknowledged mutations are never lost or half applied.
// Stateless model checking of the implementation: 2-3 request goroutines per scenario run under the cooperative
// scheduler of verif/vsync (scheduling points: every sync.Mutex/RWMutex/WaitGroup operation and goroutine spawn in the
// instrumented DVID packages, and every store operation); all interleavings up to a preemption bound are enumerated
// depth-first (iterative bounding 0,1,2); every complete execution is checked at quiescence.

import (
	"os"
	"encoding/json"
	"fmt"
	"sort"
	"strings"
	"time"

	"github.com/janelia-flyem/dvid/datastore"

	"verif/vlib"
	"verif/vsrv"
	"verif/vsync"
)

func init() {
	vlib.Register("C11", "model_checking", runC11)
	vlib.Workers["c11"] = c11Worker
}

// c11Scenario: setup builds a fresh world (uncontrolled); bodies are the concurrent requests; verdict inspects the result.
type c11World struct {
	root  string
	nodes map[string]string
	resp  []vsrv.Resp
	extra map[string]interface{}
}

type c11Scenario struct {
	name    string
	setup   func() (*c11World, error)
	bodies  func(w *c11World) []func()
	verdict func(w *c11World) []string // violation classes with text: "class\ttext"
	// observe, if set, renders the quiescent outcome (response codes + final state); the explored outcome must be one
	// that some sequential order of the same requests produces on the same code
	observe func(w *c11World) string
}

func c11KVWorld() (*c11World, error) {
	root, err := vsrv.NewRepo()
	if err != nil {
		return nil, err
	}
	if err := vsrv.NewInstance(root, "keyvalue", "kv", nil); err != nil {
		return nil, err
	}
	return &c11World{root: root, nodes: map[string]string{}, resp: make([]vsrv.Resp, 4)}, nil
}

func acked(r vsrv.Resp) bool { return r.OK() }

func c11Scenarios() []c11Scenario {
	var sc []c11Scenario
	// ---- S1 key-value ----
	sc = append(sc, c11Scenario{name: "S1a:kv:post||post||get", setup: c11KVWorld,
		bodies: func(w *c11World) []func() {
			u := "node/" + w.root + "/kv/key/k"
			return []func(){func() { w.resp[0] = vsrv.PostS(u, "v1") }, func() { w.resp[1] = vsrv.PostS(u, "v2") }, func() { w.resp[2] = vsrv.Get(u) }}
		},
		verdict: func(w *c11World) (bad []string) {
			final := vsrv.Get("node/" + w.root + "/kv/key/k")
			if !acked(w.resp[0]) || !acked(w.resp[1]) {
				bad = append(bad, fmt.Sprintf("post-refused\tconcurrent POSTs answered %s / %s", w.resp[0], w.resp[1]))
			}
			if final.Code != 200 || (string(final.Body) != "v1" && string(final.Body) != "v2") {
				bad = append(bad, fmt.Sprintf("final-value\tafter two acknowledged POSTs the key reads %s", final))
			}
			if g := w.resp[2]; !(g.Code == 404 || g.Code == 200 && (string(g.Body) == "v1" || string(g.Body) == "v2")) {
				bad = append(bad, fmt.Sprintf("concurrent-read\tconcurrent GET answered %s", g))
			}
			return
		}})
	sc = append(sc, c11Scenario{name: "S1b:kv:post||delete", setup: func() (*c11World, error) {
		w, err := c11KVWorld()
		if err == nil {
			vsrv.PostS("node/"+w.root+"/kv/key/k", "old")
		}
		return w, err
	},
		bodies: func(w *c11World) []func() {
			u := "node/" + w.root + "/kv/key/k"
			return []func(){func() { w.resp[0] = vsrv.PostS(u, "new") }, func() { w.resp[1] = vsrv.Delete(u) }}
		},
		verdict: func(w *c11World) (bad []string) {
			final := vsrv.Get("node/" + w.root + "/kv/key/k")
			keys := vsrv.Get("node/" + w.root + "/kv/keys")
			okFinal := final.Code == 404 && strings.TrimSpace(string(keys.Body)) == "[]" || final.Code == 200 && string(final.Body) == "new" && strings.Contains(string(keys.Body), `"k"`)
			if !okFinal {
				bad = append(bad, fmt.Sprintf("final-state\tafter POST || DELETE the key reads %s and the listing is %s", final, keys))
			}
			return
		}})
	// ---- S2 repo ----
	repoWorld := func() (*c11World, error) {
		root, err := vsrv.NewRepo()
		if err != nil {
			return nil, err
		}
		vsrv.NewInstance(root, "keyvalue", "kv", nil)
		vsrv.Commit(root)
		return &c11World{root: root, nodes: map[string]string{}, resp: make([]vsrv.Resp, 4)}, nil
	}
	children := func(w *c11World) (all []datastore.VerifNode, dump datastore.VerifState) {
		dump = datastore.VerifDump(w.root)
		for _, r := range dump.Repos {
			if r.Root == w.root {
				all = r.Nodes
			}
		}
		return
	}
	invariants := func(w *c11World) (bad []string) {
		world := &c07World{roots: []string{w.root}}
		for _, iv := range c07Invariants(world.snapshot(), world) {
			bad = append(bad, "dag-"+iv[0]+"\t"+iv[1])
		}
		return
	}
	sc = append(sc, c11Scenario{name: "S2a:repo:newversion||newversion", setup: repoWorld,
		bodies: func(w *c11World) []func() {
			return []func(){func() { w.resp[0] = vsrv.PostS("node/"+w.root+"/newversion", `{"note":"a"}`) }, func() { w.resp[1] = vsrv.PostS("node/"+w.root+"/newversion", `{"note":"b"}`) }}
		},
		verdict: func(w *c11World) (bad []string) {
			nodes, _ := children(w)
			n := 0
			for _, nd := range nodes {
				if len(nd.Parents) == 1 && nd.Branch == "" {
					n++
				}
			}
			ack := 0
			for _, r := range w.resp[:2] {
				if acked(r) {
					ack++
				}
			}
			if n > 1 {
				bad = append(bad, fmt.Sprintf("two-children-same-branch\ttwo concurrent newversion requests on one committed parent were answered %d / %d and left %d children on the parent's branch", w.resp[0].Code, w.resp[1].Code, n))
			}
			if ack != n {
				bad = append(bad, fmt.Sprintf("ack-mismatch\t%d newversion requests acknowledged but %d children exist", ack, n))
			}
			return append(bad, invariants(w)...)
		}})
	sc = append(sc, c11Scenario{name: "S2b:repo:branch||branch", setup: repoWorld,
		bodies: func(w *c11World) []func() {
			return []func(){func() { w.resp[0] = vsrv.PostS("node/"+w.root+"/branch", `{"branch":"b","note":"a"}`) }, func() { w.resp[1] = vsrv.PostS("node/"+w.root+"/branch", `{"branch":"b","note":"b"}`) }}
		},
		verdict: func(w *c11World) (bad []string) {
			nodes, _ := children(w)
			n := 0
			for _, nd := range nodes {
				if nd.Branch == "b" {
					n++
				}
			}
			if n > 1 {
				bad = append(bad, fmt.Sprintf("two-heads-one-branch\ttwo concurrent branch requests with one name (answered %d / %d) created %d nodes on branch b", w.resp[0].Code, w.resp[1].Code, n))
			}
			return append(bad, invariants(w)...)
		}})
	sc = append(sc, c11Scenario{name: "S2c:repo:commit||note", setup: func() (*c11World, error) {
		w, err := repoWorld()
		if err == nil {
			w.nodes["c"], err = vsrv.NewVersion(w.root)
		}
		return w, err
	},
		bodies: func(w *c11World) []func() {
			c := w.nodes["c"]
			return []func(){func() { w.resp[0] = vsrv.PostS("node/"+c+"/commit", `{"note":"committed"}`) }, func() { w.resp[1] = vsrv.PostS("node/"+c+"/note", `{"note":"annotated"}`) }}
		},
		verdict: func(w *c11World) (bad []string) { return invariants(w) },
		observe: func(w *c11World) string {
			c := w.nodes["c"]
			return fmt.Sprintf("commit=%d note=%d locked=%s note=%s", w.resp[0].Code, w.resp[1].Code, strings.TrimSpace(string(vsrv.Get("node/"+c+"/commit").Body)), strings.TrimSpace(string(vsrv.Get("node/"+c+"/note").Body)))
		}})
	sc = append(sc, c11Scenario{name: "S2d:repo:newversion||newinstance||commit-other", setup: func() (*c11World, error) {
		w, err := repoWorld()
		if err == nil {
			w.nodes["o"], err = vsrv.Branch(w.root, "open")
		}
		return w, err
	},
		bodies: func(w *c11World) []func() {
			return []func(){func() { w.resp[0] = vsrv.PostS("node/"+w.root+"/newversion", `{"note":"a"}`) },
				func() { w.resp[1] = vsrv.PostS("repo/"+w.nodes["o"]+"/instance", `{"typename":"keyvalue","dataname":"late"}`) },
				func() { w.resp[2] = vsrv.PostS("node/"+w.nodes["o"]+"/commit", `{"note":"c"}`) }}
		},
		verdict: func(w *c11World) (bad []string) {
			_, dump := children(w)
			if acked(w.resp[1]) {
				found := false
				for _, r := range dump.Repos {
					for _, in := range r.Instances {
						if strings.HasPrefix(in, "late:") {
							found = true
						}
					}
				}
				if !found {
					bad = append(bad, "instance-lost\tinstance creation acknowledged but the instance is missing from the repo")
				}
			}
			nodes, _ := children(w)
			if acked(w.resp[0]) && len(nodes) != 3 {
				bad = append(bad, fmt.Sprintf("child-lost\tnewversion acknowledged but the repo has %d nodes", len(nodes)))
			}
			return append(bad, invariants(w)...)
		}})
	// ---- S3 annotation ----
	annWorld := func() (*c11World, error) {
		root, err := vsrv.NewRepo()
		if err != nil {
			return nil, err
		}
		if err := vsrv.NewInstance(root, "annotation", "ann", nil); err != nil {
			return nil, err
		}
		vsrv.PostS("node/"+root+"/ann/elements", `[{"Pos":[5,5,5],"Kind":"Note","Tags":["t0"],"Prop":{},"Rels":[]}]`)
		return &c11World{root: root, nodes: map[string]string{}, resp: make([]vsrv.Resp, 4)}, nil
	}
	elems := func(w *c11World, path string) map[string]bool {
		x := vsrv.Get("node/" + w.root + "/ann/" + path)
		out := map[string]bool{}
		var list []annElem
		if json.Unmarshal(x.Body, &list) == nil {
			for _, e := range list {
				out[fmt.Sprint(e.Pos)] = true
			}
			return out
		}
		var blocks map[string][]annElem
		if json.Unmarshal(x.Body, &blocks) == nil {
			for _, l := range blocks {
				for _, e := range l {
					out[fmt.Sprint(e.Pos)] = true
				}
			}
		}
		return out
	}
	sc = append(sc, c11Scenario{name: "S3a:annotation:post||post:same-block", setup: annWorld,
		bodies: func(w *c11World) []func() {
			u := "node/" + w.root + "/ann/elements"
			return []func(){func() { w.resp[0] = vsrv.PostS(u, `[{"Pos":[10,10,10],"Kind":"Note","Tags":["t1"],"Prop":{},"Rels":[]}]`) },
				func() { w.resp[1] = vsrv.PostS(u, `[{"Pos":[20,20,20],"Kind":"Note","Tags":["t1"],"Prop":{},"Rels":[]}]`) }}
		},
		verdict: func(w *c11World) (bad []string) {
			all := elems(w, "all-elements")
			tag := elems(w, "tag/t1")
			for i, p := range []string{"[10 10 10]", "[20 20 20]"} {
				if acked(w.resp[i]) && !all[p] {
					bad = append(bad, fmt.Sprintf("element-lost:block\tPOST of element %s was acknowledged but it is missing from the block store (all-elements has %v)", p, keysS(all)))
				}
				if acked(w.resp[i]) && !tag[p] {
					bad = append(bad, fmt.Sprintf("element-lost:tag\tPOST of element %s was acknowledged but it is missing from tag t1 (tag has %v)", p, keysS(tag)))
				}
			}
			if !all["[5 5 5]"] {
				bad = append(bad, "element-lost:preexisting\tthe pre-existing element of the block disappeared")
			}
			return
		}})
	sc = append(sc, c11Scenario{name: "S3b:annotation:post||delete:same-block", setup: annWorld,
		bodies: func(w *c11World) []func() {
			return []func(){func() {
				w.resp[0] = vsrv.PostS("node/"+w.root+"/ann/elements", `[{"Pos":[10,10,10],"Kind":"Note","Tags":["t0"],"Prop":{},"Rels":[]}]`)
			},
				func() { w.resp[1] = vsrv.Delete("node/" + w.root + "/ann/element/5_5_5") }}
		},
		verdict: func(w *c11World) (bad []string) {
			all := elems(w, "all-elements")
			tag := elems(w, "tag/t0")
			if acked(w.resp[0]) && (!all["[10 10 10]"] || !tag["[10 10 10]"]) {
				bad = append(bad, fmt.Sprintf("element-lost\tacknowledged POST missing after a concurrent DELETE in the same block: block %v tag %v", keysS(all), keysS(tag)))
			}
			if acked(w.resp[1]) && (all["[5 5 5]"] || tag["[5 5 5]"]) {
				bad = append(bad, fmt.Sprintf("delete-lost\tacknowledged DELETE undone by a concurrent POST in the same block: block %v tag %v", keysS(all), keysS(tag)))
			}
			return
		}})
	// ---- S5 neuronjson ----
	njWorld := func() (*c11World, error) {
		root, err := vsrv.NewRepo()
		if err != nil {
			return nil, err
		}
		if err := vsrv.NewInstance(root, "neuronjson", "nj", nil); err != nil {
			return nil, err
		}
		vsrv.PostS("node/"+root+"/nj/key/1?u=t", `{"bodyid":1,"z":"0"}`)
		return &c11World{root: root, nodes: map[string]string{}, resp: make([]vsrv.Resp, 4)}, nil
	}
	sc = append(sc, c11Scenario{name: "S5a:neuronjson:post||post:same-key", setup: njWorld,
		bodies: func(w *c11World) []func() {
			u := "node/" + w.root + "/nj/key/1?u=t"
			return []func(){func() { w.resp[0] = vsrv.PostS(u, `{"bodyid":1,"a":"x"}`) }, func() { w.resp[1] = vsrv.PostS(u, `{"bodyid":1,"b":"y"}`) }}
		},
		verdict: func(w *c11World) (bad []string) {
			// partial updates merge fields: either order leaves a, b and z
			for _, path := range []string{"node/" + w.root + "/nj/key/1"} {
				x := vsrv.Get(path)
				var m map[string]interface{}
				json.Unmarshal(x.Body, &m)
				for i, f := range []string{"a", "b"} {
					if acked(w.resp[i]) && m[f] == nil {
						bad = append(bad, fmt.Sprintf("field-lost\ttwo acknowledged partial updates of one key raced; field %q is missing afterwards: %s", f, x))
					}
				}
				if m["z"] == nil {
					bad = append(bad, "field-lost:preexisting\tthe pre-existing field disappeared: "+x.String())
				}
			}
			// memory vs store: commit and read the committed version through the store path
			vsrv.Commit(w.root)
			child, _ := vsrv.NewVersion(w.root)
			a, b := vsrv.Get("node/"+w.root+"/nj/key/1"), vsrv.Get("node/"+child+"/nj/key/1")
			if njNormalize(a.Code, a.Body) != njNormalize(b.Code, b.Body) {
				bad = append(bad, fmt.Sprintf("memory-store-disagree\tafter the race the store path answers %s and the in-memory path %s", a, b))
			}
			return
		}})
	// ---- S4 labelmap ----
	lmWorld := func() (*c11World, error) {
		root, err := vsrv.NewRepo()
		if err != nil {
			return nil, err
		}
		if err := vsrv.NewInstance(root, "labelmap", "lm", map[string]string{"BlockSize": "16,16,16"}); err != nil {
			return nil, err
		}
		v := newLMVol([3]int{0, 0, 0}, [3]int{c08NX, c08NY, c08NZ})
		copy(v.v, c08InitialVolume(false))
		if r := lmPostRaw(root, "lm", v, false); !r.OK() {
			return nil, fmt.Errorf("ingest: %s", r)
		}
		vsrv.Quiesce()
		return &c11World{root: root, nodes: map[string]string{}, resp: make([]vsrv.Resp, 4)}, nil
	}
	lmVerdict := func(expect func(w *c11World, M map[uint64]uint64) []string) func(w *c11World) []string {
		return func(w *c11World) (bad []string) {
			vsrv.Quiesce()
			mp, _ := lmMapping(w.root, "lm", []uint64{1, 2, 3, 4, 5})
			M := map[uint64]uint64{}
			for i, s := range []uint64{1, 2, 3, 4, 5} {
				if i < len(mp) {
					M[s] = mp[i]
				}
			}
			bad = append(bad, expect(w, M)...)
			// index / voxel consistency through the C08 scan oracle, with the model taken from the server's own mapping
			cw := &c08World{m: &c08Model{vers: []*c08Version{{sv: c08InitialVolume(false), mapping: map[uint64]uint64{}, parent: -1}}}, uuids: []string{w.root}}
			for s, b := range M {
				if b != s && b != 0 {
					cw.m.vers[0].mapping[s] = b
				}
			}
			cw.remember()
			if vs := cw.check(); len(vs) > 0 {
				// one lost index update shows up in many read endpoints: one class per scenario
				var eps, msgs []string
				for i, v := range vs {
					eps = append(eps, strings.TrimPrefix(v.Key, "scan:"))
					if i < 3 {
						msgs = append(msgs, v.What)
					}
				}
				bad = append(bad, fmt.Sprintf("index-inconsistent\tafter both requests were acknowledged the label index of the shared body disagrees with the stored voxels + mapping in %v: %s", eps, strings.Join(msgs, " ; ")))
			}
			return
		}
	}
	sc = append(sc, c11Scenario{name: "S4a:labelmap:merge||merge:same-target", setup: lmWorld,
		bodies: func(w *c11World) []func() {
			return []func(){func() { w.resp[0] = lmMerge(w.root, "lm", 1, 2) }, func() { w.resp[1] = lmMerge(w.root, "lm", 1, 3) }}
		},
		verdict: lmVerdict(func(w *c11World, M map[uint64]uint64) (bad []string) {
			for i, s := range []uint64{2, 3} {
				if acked(w.resp[i]) && M[s] != 1 {
					bad = append(bad, fmt.Sprintf("merge-lost\tmerge of body %d into 1 acknowledged but supervoxel %d maps to %d", s, s, M[s]))
				}
			}
			return
		})})
	sc = append(sc, c11Scenario{name: "S4b:labelmap:merge||cleave:same-body", setup: func() (*c11World, error) {
		w, err := lmWorld()
		if err == nil {
			lmMerge(w.root, "lm", 1, 4)
			vsrv.Quiesce()
		}
		return w, err
	},
		bodies: func(w *c11World) []func() {
			return []func(){func() { w.resp[0] = lmMerge(w.root, "lm", 1, 2) }, func() {
				var l uint64
				l, w.resp[1] = lmCleave(w.root, "lm", 1, 4)
				w.extra = map[string]interface{}{"cleaved": l}
			}}
		},
		verdict: lmVerdict(func(w *c11World, M map[uint64]uint64) (bad []string) {
			if acked(w.resp[0]) && M[2] != 1 {
				bad = append(bad, fmt.Sprintf("merge-lost\tmerge 1<-2 acknowledged but supervoxel 2 maps to %d", M[2]))
			}
			if acked(w.resp[1]) {
				if l, _ := w.extra["cleaved"].(uint64); M[4] != l {
					bad = append(bad, fmt.Sprintf("cleave-lost\tcleave of supervoxel 4 acknowledged (new body %d) but it maps to %d", l, M[4]))
				}
			}
			return
		})})
	// ---- S6 identifiers (C12 under concurrency) ----
	sc = append(sc, c11Scenario{name: "S6a:ids:nextlabel||nextlabel", setup: lmWorld,
		bodies: func(w *c11World) []func() {
			return []func(){func() { w.resp[0] = vsrv.Post("node/"+w.root+"/lm/nextlabel/2", nil) }, func() { w.resp[1] = vsrv.Post("node/"+w.root+"/lm/nextlabel/3", nil) }}
		},
		verdict: func(w *c11World) (bad []string) {
			type rng struct{ Start, End uint64 }
			var r [2]rng
			for i := 0; i < 2; i++ {
				if !acked(w.resp[i]) {
					return
				}
				json.Unmarshal(w.resp[i].Body, &r[i])
			}
			if r[0].Start <= r[1].End && r[1].Start <= r[0].End {
				bad = append(bad, fmt.Sprintf("label-ranges-overlap\ttwo concurrent nextlabel requests were given overlapping label ranges %v and %v", r[0], r[1]))
			}
			for i, want := range []uint64{2, 3} {
				if r[i].End-r[i].Start+1 != want || r[i].Start <= 5 {
					bad = append(bad, fmt.Sprintf("label-range-wrong\tnextlabel/%d answered %s (existing labels are 1..5)", want, w.resp[i]))
				}
			}
			var ml struct{ MaxLabel uint64 }
			x := vsrv.Get("node/" + w.root + "/lm/maxlabel")
			json.Unmarshal(x.Body, &ml)
			if hi := r[0].End; ml.MaxLabel < hi || ml.MaxLabel < r[1].End {
				bad = append(bad, fmt.Sprintf("maxlabel-behind\tafter nextlabel ranges %v and %v were handed out, maxlabel reports %d", r[0], r[1], ml.MaxLabel))
			}
			nx := vsrv.Post("node/"+w.root+"/lm/nextlabel/1", nil)
			var r3 rng
			json.Unmarshal(nx.Body, &r3)
			if nx.OK() && (r3.Start <= r[0].End || r3.Start <= r[1].End) {
				bad = append(bad, fmt.Sprintf("label-reissued\ta later nextlabel returned %v, not above the ranges %v and %v handed out concurrently before", r3, r[0], r[1]))
			}
			return
		}})
	sc = append(sc, c11Scenario{name: "S6b:ids:newinstance||newinstance", setup: func() (*c11World, error) {
		root, err := vsrv.NewRepo()
		return &c11World{root: root, nodes: map[string]string{}, resp: make([]vsrv.Resp, 4)}, err
	},
		bodies: func(w *c11World) []func() {
			mk := func(i int, name string) func() {
				return func() {
					w.resp[i] = vsrv.PostS("repo/"+w.root+"/instance", fmt.Sprintf(`{"typename":"keyvalue","dataname":%q}`, name))
				}
			}
			return []func(){mk(0, "a"), mk(1, "b")}
		},
		verdict: func(w *c11World) (bad []string) {
			x := vsrv.Get("repo/" + w.root + "/info")
			var info struct {
				DataInstances map[string]struct {
					Base struct {
						ID       uint32
						DataUUID string
					}
				}
			}
			json.Unmarshal(x.Body, &info)
			for i, name := range []string{"a", "b"} {
				if _, ok := info.DataInstances[name]; acked(w.resp[i]) && !ok {
					bad = append(bad, fmt.Sprintf("instance-lost\tPOST instance %q was acknowledged (%s) but the repo does not list it", name, w.resp[i]))
				}
			}
			a, okA := info.DataInstances["a"]
			b, okB := info.DataInstances["b"]
			if okA && okB {
				ids := map[string]string{}
				for _, r := range datastore.VerifDump(w.root).Repos {
					for _, in := range r.Instances { // "name:type:instanceID"
						p := strings.Split(in, ":")
						if prev, dup := ids[p[len(p)-1]]; dup {
							bad = append(bad, fmt.Sprintf("instance-id-shared\tinstances %s and %s created concurrently share an instance id: their keys occupy the same key space", prev, in))
						}
						ids[p[len(p)-1]] = in
					}
				}
				if a.Base.DataUUID == b.Base.DataUUID {
					bad = append(bad, "data-uuid-shared\ttwo instances created concurrently share a data uuid")
				}
				// isolation: a key written to one must not be readable from the other
				vsrv.PostS("node/"+w.root+"/a/key/k", "in-a")
				if y := vsrv.Get("node/" + w.root + "/b/key/k"); y.Code == 200 {
					bad = append(bad, "instances-alias\ta key written to instance a reads back from instance b")
				}
			}
			return
		}})
	sc = append(sc, c11Scenario{name: "S6c:ids:newrepo||newrepo", setup: func() (*c11World, error) {
		root, err := vsrv.NewRepo()
		return &c11World{root: root, nodes: map[string]string{}, resp: make([]vsrv.Resp, 4)}, err
	},
		bodies: func(w *c11World) []func() {
			mk := func(i int) func() {
				return func() { w.resp[i] = vsrv.PostS("repos", fmt.Sprintf(`{"alias":"r%d","description":"d"}`, i)) }
			}
			return []func(){mk(0), mk(1)}
		},
		verdict: func(w *c11World) (bad []string) {
			var roots []string
			for i := 0; i < 2; i++ {
				var m struct{ Root string }
				json.Unmarshal(w.resp[i].Body, &m)
				if acked(w.resp[i]) {
					roots = append(roots, m.Root)
					if x := vsrv.Get("repo/" + m.Root + "/info"); !x.OK() {
						bad = append(bad, fmt.Sprintf("repo-lost\tPOST repos was acknowledged with root %s but the repo cannot be read: %s", m.Root, x))
					}
				}
			}
			if len(roots) == 2 && roots[0] == roots[1] {
				bad = append(bad, "repo-uuid-shared\ttwo repos created concurrently share a root uuid")
			}
			dump := datastore.VerifDump(append(roots, w.root)...)
			vids := map[uint32]string{}
			rids := map[uint32]string{}
			for _, r := range dump.Repos {
				if prev, dup := rids[uint32(r.ID)]; dup {
					bad = append(bad, fmt.Sprintf("repo-id-shared\trepos %s and %s share repo id %d", prev, r.Root, r.ID))
				}
				rids[uint32(r.ID)] = r.Root
				for _, n := range r.Nodes {
					if prev, dup := vids[uint32(n.Version)]; dup {
						bad = append(bad, fmt.Sprintf("version-id-shared\tnodes %s and %s share version id %d", prev, n.UUID, n.Version))
					}
					vids[uint32(n.Version)] = n.UUID
				}
			}
			return
		}})
	sc = append(sc, c11Scenario{name: "S4c:labelmap:cleave||cleave:same-body", setup: func() (*c11World, error) {
		w, err := lmWorld()
		if err == nil {
			lmMerge(w.root, "lm", 1, 4)
			lmMerge(w.root, "lm", 1, 5)
			vsrv.Quiesce()
			w.extra = map[string]interface{}{}
		}
		return w, err
	},
		bodies: func(w *c11World) []func() {
			cl := func(i int, sv uint64) func() {
				return func() {
					var l uint64
					l, w.resp[i] = lmCleave(w.root, "lm", 1, sv)
					w.extra[fmt.Sprint("cleaved", i)] = l
				}
			}
			return []func(){cl(0, 4), cl(1, 5)}
		},
		verdict: lmVerdict(func(w *c11World, M map[uint64]uint64) (bad []string) {
			l0, _ := w.extra["cleaved0"].(uint64)
			l1, _ := w.extra["cleaved1"].(uint64)
			for i, sv := range []uint64{4, 5} {
				l := []uint64{l0, l1}[i]
				if acked(w.resp[i]) && M[sv] != l {
					bad = append(bad, fmt.Sprintf("cleave-lost\tcleave of supervoxel %d acknowledged (new body %d) but it maps to %d", sv, l, M[sv]))
				}
			}
			if acked(w.resp[0]) && acked(w.resp[1]) && l0 == l1 {
				bad = append(bad, fmt.Sprintf("same-new-label\ttwo acknowledged cleaves were given the same new body id %d", l0))
			}
			return
		})})
	return sc
}

func keysS(m map[string]bool) []string {
	var out []string
	for k := range m {
		out = append(out, k)
	}
	sort.Strings(out)
	return out
}

type c11Job struct {
	Scenario string `json:"scenario"`
	Bound    int    `json:"bound"`
	MaxExec  int    `json:"max_exec"`
	Replay   []int  `json:"replay,omitempty"`
}

type c11Viol struct {
	Class    string   `json:"class"`
	What     string   `json:"what"`
	Schedule []int    `json:"schedule"`
	Trace    []string `json:"trace"`
	Repro    int      `json:"repro"` // times the schedule reproduced the violation out of 3
}

type c11Result struct {
	Scenario   string         `json:"scenario"`
	Executions map[string]int `json:"executions"` // per bound
	Completed  int            `json:"completed_bound"`
	Capped     bool           `json:"capped"`
	Points     int            `json:"max_points"`
	ExtBlocks  int            `json:"ext_blocks"`
	Outcomes   map[string]int `json:"outcomes"`
	Viol       []c11Viol      `json:"viol"`
	Nondet     string         `json:"nondeterminism,omitempty"`
	Err        string         `json:"err,omitempty"`
}

func c11RunOnce(sc c11Scenario, prefix []int) (*vsync.Execution, []string, string, error) {
	w, err := sc.setup()
	if err != nil {
		return nil, nil, "", err
	}
	vsrv.Quiesce()
	ex := vsync.Run(sc.bodies(w), prefix)
	var bad []string
	if ex.Deadlock != "" {
		bad = append(bad, "deadlock\t"+ex.Deadlock)
		return ex, bad, "deadlock", nil
	}
	vsrv.Quiesce()
	bad = sc.verdict(w)
	if sc.observe != nil {
		bad = append(bad, "OBS\t"+sc.observe(w))
	}
	codes := make([]string, 0, len(w.resp))
	for _, r := range w.resp {
		if r.Code != 0 {
			codes = append(codes, fmt.Sprint(r.Code))
		}
	}
	return ex, bad, strings.Join(codes, ","), nil
}

func c11Worker(args []string) int {
	dir, err := mkTemp("c11")
	if err != nil {
		return 1
	}
	defer rmAll(dir)
	if err := vsrv.Boot(dir, vsrv.Options{KVEngine: "vkv", LogEngine: "vlog"}); err != nil {
		return 1
	}
	vsrv.SingleThreaded = true
	vsrv.SchedPoint = func(kind string) { vsync.Yield(kind) }
	scs := map[string]c11Scenario{}
	for _, s := range c11Scenarios() {
		scs[s.name] = s
	}
	return vlib.ServeJobs(func(job string) string {
		var j c11Job
		json.Unmarshal([]byte(job), &j)
		sc, ok := scs[j.Scenario]
		res := c11Result{Scenario: j.Scenario, Executions: map[string]int{}, Outcomes: map[string]int{}, Completed: -1}
		if !ok {
			res.Err = "unknown scenario"
			b, _ := json.Marshal(res)
			return string(b)
		}
		// determinism: the default schedule twice must give the same trace
		ex1, _, o1, err := c11RunOnce(sc, nil)
		if err != nil {
			res.Err = err.Error()
			b, _ := json.Marshal(res)
			return string(b)
		}
		ex2, _, o2, _ := c11RunOnce(sc, nil)
		if fmt.Sprint(traceOf(ex1)) != fmt.Sprint(traceOf(ex2)) || o1 != o2 {
			res.Nondet = fmt.Sprintf("default schedule replayed differently: %d vs %d points, outcomes %s / %s", len(ex1.Points), len(ex2.Points), o1, o2)
		}
		// sequential reference outcomes: every permutation of the requests run one after the other (uncontrolled)
		allowed := map[string]bool{}
		if sc.observe != nil {
			n := len(sc.bodies(&c11World{resp: make([]vsrv.Resp, 4), nodes: map[string]string{}}))
			perm := make([]int, n)
			for i := range perm {
				perm[i] = i
			}
			var gen func(k int)
			gen = func(k int) {
				if k == n {
					w, err := sc.setup()
					if err != nil {
						return
					}
					bodies := sc.bodies(w)
					for _, i := range perm {
						bodies[i]()
						vsrv.Quiesce()
					}
					allowed[sc.observe(w)] = true
					return
				}
				for i := k; i < n; i++ {
					perm[k], perm[i] = perm[i], perm[k]
					gen(k + 1)
					perm[k], perm[i] = perm[i], perm[k]
				}
			}
			gen(0)
		}
		if j.Replay != nil {
			// replay mode: the recorded schedule is executed 3 times without exploration
			count := map[string]int{}
			what := map[string]string{}
			var lastEx *vsync.Execution
			for k := 0; k < 3; k++ {
				ex, bad, outcome, err := c11RunOnce(sc, j.Replay)
				if err != nil {
					res.Err = err.Error()
					break
				}
				lastEx = ex
				if ex.Diverged != "" {
					res.Nondet = "replay diverged: " + ex.Diverged
				}
				res.Outcomes[outcome]++
				seen := map[string]bool{}
				for _, b := range bad {
					if strings.HasPrefix(b, "OBS\t") {
						obs := strings.TrimPrefix(b, "OBS\t")
						if allowed[obs] {
							continue
						}
						b = "not-serializable\toutcome [" + obs + "] is produced by no sequential order of the requests"
					}
					p := strings.SplitN(b, "\t", 2)
					if !seen[p[0]] {
						seen[p[0]] = true
						count[p[0]]++
						what[p[0]] = p[1]
					}
				}
			}
			res.Executions["replay"] = 3
			for cl, n := range count {
				v := c11Viol{Class: cl, What: what[cl], Schedule: j.Replay, Repro: n}
				if lastEx != nil {
					v.Trace = traceOf(lastEx)
				}
				res.Viol = append(res.Viol, v)
			}
			b, _ := json.Marshal(res)
			return string(b)
		}
		seenViol := map[string]bool{}
		total := 0
		deadline := time.Now().Add(20 * time.Minute)
		for bound := 0; bound <= j.Bound; bound++ {
			n := 0
			capped := false
			var rec func(prefix []int)
			rec = func(prefix []int) {
				if capped {
					return
				}
				if total >= j.MaxExec || time.Now().After(deadline) {
					capped = true
					return
				}
				ex, bad, outcome, err := c11RunOnce(sc, prefix)
				if err != nil {
					res.Err = err.Error()
					capped = true
					return
				}
				n++
				total++
				if ex.Diverged != "" {
					res.Nondet = "replay diverged: " + ex.Diverged
					return
				}
				res.Outcomes[outcome]++
				res.ExtBlocks += ex.ExtBlocks
				if len(ex.Points) > res.Points {
					res.Points = len(ex.Points)
				}
				choices := make([]int, len(ex.Points))
				for i, p := range ex.Points {
					choices[i] = p.Choice
				}
				for bi, b := range bad {
					if strings.HasPrefix(b, "OBS\t") {
						obs := strings.TrimPrefix(b, "OBS\t")
						if allowed[obs] {
							bad[bi] = ""
							continue
						}
						var al []string
						for a := range allowed {
							al = append(al, a)
						}
						sort.Strings(al)
						b = "not-serializable\toutcome [" + obs + "] is produced by no sequential order of the requests; sequential outcomes: " + strings.Join(al, " || ")
						bad[bi] = b
					}
				}
				for _, b := range bad {
					if b == "" {
						continue
					}
					p := strings.SplitN(b, "\t", 2)
					if seenViol[p[0]] {
						continue
					}
					seenViol[p[0]] = true
					// re-execute the schedule: it must fail every time before it is believed
					repro := 0
					for k := 0; k < 3; k++ {
						_, bad2, _, _ := c11RunOnce(sc, choices)
						for _, b2 := range bad2 {
							if strings.HasPrefix(b2, p[0]+"\t") || p[0] == "not-serializable" && strings.HasPrefix(b2, "OBS\t") && !allowed[strings.TrimPrefix(b2, "OBS\t")] {
								repro++
								break
							}
						}
					}
					total += 3
					res.Viol = append(res.Viol, c11Viol{Class: p[0], What: p[1], Schedule: choices, Trace: traceOf(ex), Repro: repro})
				}
				// only schedules with exactly `bound` preemptions are new at this level; children are generated from every point
				pre := 0
				for i := 0; i < len(ex.Points); i++ {
					p := ex.Points[i]
					if i >= len(prefix) {
						for alt := 1; alt < len(p.Enabled); alt++ {
							cost := pre
							if p.RunningStillEnabled {
								cost++
							}
							if cost > bound {
								continue
							}
							// schedules with fewer preemptions than `bound` were explored at an earlier level unless this branch adds one
							rec(append(append([]int{}, choices[:i]...), alt))
						}
					}
					if p.Choice != 0 && p.RunningStillEnabled {
						pre++
					}
				}
			}
			rec(nil)
			res.Executions[fmt.Sprint(bound)] = n
			if capped {
				res.Capped = true
				break
			}
			res.Completed = bound
		}
		b, _ := json.Marshal(res)
		return string(b)
	})
}

func traceOf(ex *vsync.Execution) []string {
	out := make([]string, len(ex.Points))
	for i, p := range ex.Points {
		out[i] = p.Op
	}
	return out
}

func runC11(c *vlib.Ctx) {
	bound, maxExec := 2, 4000
	if c.Thorough() {
		bound, maxExec = 3, 60000
	}
	var jobs []string
	var names []string
	if c.ReplayFile != "" {
		// vcheck C11 --replay <file>: run the recorded schedule of the recorded scenario, nothing else
		var rf struct {
			Key    string
			Replay struct {
				Scenario string
				Schedule []int
			}
		}
		b, err := os.ReadFile(c.ReplayFile)
		if err == nil {
			err = json.Unmarshal(b, &rf)
		}
		if err != nil || rf.Replay.Scenario == "" {
			c.Violate("harness:replay-file", fmt.Sprintf("%s is not a C11 replay file: %v", c.ReplayFile, err), nil)
			return
		}
		if rf.Replay.Schedule == nil {
			rf.Replay.Schedule = []int{}
		}
		jb, _ := json.Marshal(c11Job{Scenario: rf.Replay.Scenario, Replay: rf.Replay.Schedule})
		jobs, names = []string{string(jb)}, []string{rf.Replay.Scenario}
		c.Set("replayed", c.ReplayFile)
	}
	for _, s := range c11Scenarios() {
		if c.ReplayFile != "" {
			break
		}
		if only := os.Getenv("VERIF_C11_ONLY"); only != "" && !strings.HasPrefix(s.name, only) {
			continue // debugging aid; registered commands never set it
		}
		b := bound
		if strings.HasPrefix(s.name, "S4") {
			b = bound - 1 // label operations have hundreds of scheduling points per request
		}
		jb, _ := json.Marshal(c11Job{Scenario: s.name, Bound: b, MaxExec: maxExec})
		jobs = append(jobs, string(jb))
		names = append(names, s.name)
	}
	vlib.JobTimeout = 40 * time.Minute
	results := vlib.Pool("c11", nil, 16, jobs)
	var states, transitions int64
	for i, r := range results {
		if r.Died {
			if r.TimedOut {
				c.Cap("watchdog on scenario " + names[i])
			} else {
				c.Violate("worker-death:"+names[i], fmt.Sprintf("scenario %s: worker died: %s", names[i], tail(r.Stderr, 1500)), nil)
			}
			continue
		}
		var res c11Result
		if err := json.Unmarshal([]byte(r.Out), &res); err != nil {
			c.Violate("harness:result", trunc(r.Out, 300), nil)
			continue
		}
		if res.Err != "" {
			c.Violate("harness:"+names[i], res.Err, nil)
			continue
		}
		n := 0
		for _, k := range res.Executions {
			n += k
		}
		states += int64(n)
		transitions += int64(n * res.Points)
		c.Eval(int64(n))
		c.Set("scenario:"+names[i], map[string]interface{}{"executions_per_bound": res.Executions, "completed_preemption_bound": res.Completed, "capped": res.Capped, "max_scheduling_points": res.Points, "outcomes": res.Outcomes, "threads_blocked_outside_model": res.ExtBlocks, "nondeterminism": res.Nondet})
		if res.Capped {
			c.Cap(fmt.Sprintf("%s: execution cap reached; preemption bound %d completed", names[i], res.Completed))
		}
		for o := range res.Outcomes {
			c.Outcome(names[i] + ":" + o)
		}
		for k := 0; k < n; k++ {
			c.NontrivialDistinct(1)
		}
		for _, v := range res.Viol {
			if v.Repro < 3 {
				c.Add("unstable_violations_not_reported", 1)
				c.Cap(fmt.Sprintf("%s: violation %s reproduced only %d/3 times under the same schedule", names[i], v.Class, v.Repro))
				continue
			}
			c.Violate(names[i]+":"+v.Class, fmt.Sprintf("%s under schedule %v: %s | trace: %s", names[i], v.Schedule, v.What, trunc(strings.Join(v.Trace, " > "), 1500)), map[string]interface{}{"scenario": names[i], "schedule": v.Schedule, "trace": v.Trace})
		}
	}
	c.Set("states", states)
	c.Set("transitions", transitions)
	c.Set("traces_validated_against_impl", states)
	c.Sample(map[string]interface{}{"scenario": "S2a: POST newversion || POST newversion on one committed parent", "schedule": "[0 0 1 ...] = thread chosen at each scheduling point", "oracle": "at most one child on the parent's branch; acknowledged == existing; C07 invariants"})
	c.Set("rule", "execution = one complete interleaving of a scenario's request goroutines (plus the goroutines they spawn) under the cooperative scheduler; all schedules with at most b preemptions are enumerated for b = 0..bound; non-trivial = every execution (threads are forced to collide on one key / parent / block / body)")
	c.Assume("operations between two scheduling points run atomically; Badger calls are atomic steps (serialisable transactions); channel operations are not scheduling points - a thread found parked on a channel is treated as blocked outside the model and runs free when released (counted per scenario)")
	c.Assume("a violation is reported only if its schedule reproduces it 3 times out of 3")
}
