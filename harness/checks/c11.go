//go:build vsched

package checks

// C11 Concurrent acknowledged mutations are never lost or half applied.
// Stateless model checking of the implementation: 2-3 request goroutines per scenario run under the cooperative
// scheduler of verif/vsync (scheduling points: every sync.Mutex/RWMutex/WaitGroup operation and goroutine spawn in the
// instrumented DVID packages, and every store operation); all interleavings up to a preemption bound are enumerated
// depth-first (iterative bounding 0,1,2); every complete execution is checked at quiescence.

import (
	"encoding/json"
	"fmt"
	"os"
	"sort"
	"strings"
	"time"

	"github.com/janelia-flyem/dvid/datastore"
	"github.com/janelia-flyem/dvid/dvid"

	"verif/vlib"
	"verif/vsrv"
	"verif/vsync"
)

func init() {
	vlib.Register("C11", "model_checking", runC11)
	vlib.Workers["c11"] = c11Worker
}

// c11LastRoot: the repo of the previous execution. It is deleted before the next world is built: the repo manager persists
// its uuid / version maps in full on every change, so thousands of abandoned repos per worker made every save larger
// (gigabytes of value log per worker on tmpfs). A world abandoned in a deadlock keeps its locks and is left alone.
var c11LastRoot string

// c11NoCleanup: set by the first execution that ends in a deadlock. Its repos keep their locks for ever; from then on nothing
// is deleted in this worker (deleting a locked repo would hang the harness).
var c11NoCleanup bool

func c11RunOnce(sc c11Scenario, prefix []int) (*vsync.Execution, []string, string, error) {
	if c11LastRoot != "" && !c11NoCleanup {
		// every repo of the previous execution: its world and the repos its requests created (S6c / S6d)
		for _, r := range datastore.VerifDump().Repos {
			datastore.DeleteRepo(dvid.UUID(r.Root), "")
		}
		c11LastRoot = ""
		vsrv.Quiesce()
	}
	w, err := sc.setup()
	if err != nil {
		return nil, nil, "", err
	}
	vsrv.Quiesce()
	if sc.quietGate {
		vsync.Quiet = func() bool { return vsrv.RunnableGoroutines() == 0 }
	} else {
		vsync.Quiet = nil
	}
	ex := vsync.Run(sc.bodies(w), prefix)
	vsync.Quiet = nil
	var bad []string
	if ex.Deadlock != "" {
		bad = append(bad, "deadlock\t"+ex.Deadlock)
		c11NoCleanup = true
		return ex, bad, "deadlock", nil
	}
	vsrv.Quiesce()
	bad = sc.verdict(w)
	if sc.observe != nil {
		bad = append(bad, "OBS\t"+sc.observe(w))
	}
	if w.root != "" && (strings.HasPrefix(sc.name, "S2") || strings.HasPrefix(sc.name, "S6b") || strings.HasPrefix(sc.name, "S6d")) && !strings.HasPrefix(sc.name, "S2h") && !strings.HasPrefix(sc.name, "S2i") {
		// repo-level scenarios: at quiescence every acknowledged change must also be in the metadata store - what the
		// start-up loader reads back (into a second, read-only manager) equals the live manager, as it does after every
		// sequential request (C03's reload differential). S2h / S2i delete the repo and have a store observation of their own.
		world := &c07World{roots: []string{w.root}}
		if re, err := world.reloaded(); err != nil {
			bad = append(bad, "stored-metadata-unreadable\t"+trunc(err.Error(), 300))
		} else if class, what := c07ReloadDiff(world, world.snapshot(), re); class != "" {
			bad = append(bad, "stored-differs-from-live:"+class+"\t"+trunc(what, 1500))
		}
	}
	codes := make([]string, 0, len(w.resp))
	for _, r := range w.resp {
		if r.Code != 0 {
			codes = append(codes, fmt.Sprint(r.Code))
		}
	}
	c11LastRoot = w.root
	return ex, bad, strings.Join(codes, ","), nil
}

func c11Worker(args []string) int {
	dir, err := mkTemp("c11")
	if err != nil {
		return 1
	}
	defer rmAll(dir)
	if err := vsrv.Boot(dir, vsrv.Options{KVEngine: "vkv", LogEngine: "vlog"}); err != nil {
		return 1
	}
	vsrv.SingleThreaded = true
	vsrv.SchedPoint = func(kind string) { vsync.StorePoint(kind) }
	scs := map[string]c11Scenario{}
	for _, s := range c11Scenarios() {
		scs[s.name] = s
	}
	return vlib.ServeJobs(func(job string) string {
		var j c11Job
		json.Unmarshal([]byte(job), &j)
		vsync.NewestFirst = j.Newest
		sc, ok := scs[j.Scenario]
		res := c11Result{Scenario: j.Scenario, Executions: map[string]int{}, Outcomes: map[string]int{}, Observed: map[string]int{}, Completed: -1}
		if !ok {
			res.Err = "unknown scenario"
			b, _ := json.Marshal(res)
			return string(b)
		}
		// determinism: the default schedule twice must give the same trace
		ex1, _, o1, err := c11RunOnce(sc, nil)
		if err != nil {
			res.Err = err.Error()
			b, _ := json.Marshal(res)
			return string(b)
		}
		ex2, _, o2, _ := c11RunOnce(sc, nil)
		if fmt.Sprint(traceOf(ex1)) != fmt.Sprint(traceOf(ex2)) || o1 != o2 {
			res.Nondet = fmt.Sprintf("default schedule replayed differently: %d vs %d points, outcomes %s / %s", len(ex1.Points), len(ex2.Points), o1, o2)
		}
		// sequential reference outcomes: every permutation of the requests run one after the other (uncontrolled)
		allowed := map[string]bool{}
		if sc.observe != nil {
			n := len(sc.bodies(&c11World{resp: make([]vsrv.Resp, 4), nodes: map[string]string{}}))
			perm := make([]int, n)
			for i := range perm {
				perm[i] = i
			}
			var gen func(k int)
			gen = func(k int) {
				if k == n {
					w, err := sc.setup()
					if err != nil {
						return
					}
					bodies := sc.bodies(w)
					for _, i := range perm {
						bodies[i]()
						vsrv.Quiesce()
					}
					allowed[sc.observe(w)] = true
					return
				}
				for i := k; i < n; i++ {
					perm[k], perm[i] = perm[i], perm[k]
					gen(k + 1)
					perm[k], perm[i] = perm[i], perm[k]
				}
			}
			gen(0)
			for a := range allowed {
				res.Sequential = append(res.Sequential, trunc(a, 300))
			}
			sort.Strings(res.Sequential)
		}
		if j.Replay != nil {
			// replay mode: the recorded schedule is executed 3 times without exploration
			count := map[string]int{}
			what := map[string]string{}
			var lastEx *vsync.Execution
			for k := 0; k < 3; k++ {
				ex, bad, outcome, err := c11RunOnce(sc, j.Replay)
				if err != nil {
					res.Err = err.Error()
					break
				}
				lastEx = ex
				if ex.Diverged != "" {
					res.Nondet = "replay diverged: " + ex.Diverged
				}
				res.Outcomes[outcome]++
				seen := map[string]bool{}
				for _, b := range bad {
					if strings.HasPrefix(b, "OBS\t") {
						obs := strings.TrimPrefix(b, "OBS\t")
						if allowed[obs] {
							continue
						}
						b = "not-serializable\toutcome [" + obs + "] is produced by no sequential order of the requests"
					}
					p := strings.SplitN(b, "\t", 2)
					if !seen[p[0]] {
						seen[p[0]] = true
						count[p[0]]++
						what[p[0]] = p[1]
					}
				}
			}
			res.Executions["replay"] = 3
			for cl, n := range count {
				v := c11Viol{Class: cl, What: what[cl], Schedule: j.Replay, Newest: j.Newest, Repro: n}
				if lastEx != nil {
					v.Trace = traceOf(lastEx)
				}
				res.Viol = append(res.Viol, v)
			}
			b, _ := json.Marshal(res)
			return string(b)
		}
		seenViol := map[string]bool{}
		total := 0
		deadline := time.Now().Add(20 * time.Minute)
		maxBound := j.Bound
		if sc.quietGate {
			maxBound = 1 // deviation bound (see below), both tiers: an execution takes ~0.15 s
		}
		for bound := 0; bound <= maxBound; bound++ {
			n := 0
			capped := false
			rootChild := 0
			var rec func(prefix []int)
			rec = func(prefix []int) {
				if capped {
					return
				}
				if total >= j.MaxExec || time.Now().After(deadline) {
					capped = true
					return
				}
				ex, bad, outcome, err := c11RunOnce(sc, prefix)
				if err != nil {
					res.Err = err.Error()
					capped = true
					return
				}
				if len(prefix) == 0 && j.Parts > 1 && j.Part != 0 {
					n-- // the root execution is counted by part 0 only
					total--
				}
				n++
				total++
				if ex.Diverged != "" {
					res.Nondet = "replay diverged: " + ex.Diverged
					return
				}
				res.Outcomes[outcome]++
				for _, b := range bad {
					if strings.HasPrefix(b, "OBS\t") && len(res.Observed) < 64 {
						res.Observed[trunc(strings.TrimPrefix(b, "OBS\t"), 300)]++
					}
				}
				res.ExtBlocks += ex.ExtBlocks
				if len(ex.Points) > res.Points {
					res.Points = len(ex.Points)
				}
				choices := make([]int, len(ex.Points))
				for i, p := range ex.Points {
					choices[i] = p.Choice
				}
				for bi, b := range bad {
					if strings.HasPrefix(b, "OBS\t") {
						obs := strings.TrimPrefix(b, "OBS\t")
						if allowed[obs] {
							bad[bi] = ""
							continue
						}
						var al []string
						for a := range allowed {
							al = append(al, a)
						}
						sort.Strings(al)
						b = "not-serializable\toutcome [" + obs + "] is produced by no sequential order of the requests; sequential outcomes: " + strings.Join(al, " || ")
						bad[bi] = b
					}
				}
				for _, b := range bad {
					if b == "" {
						continue
					}
					p := strings.SplitN(b, "\t", 2)
					if seenViol[p[0]] {
						continue
					}
					seenViol[p[0]] = true
					// re-execute the schedule: it must fail every time before it is believed
					repro := 0
					for k := 0; k < 3; k++ {
						_, bad2, _, _ := c11RunOnce(sc, choices)
						for _, b2 := range bad2 {
							if strings.HasPrefix(b2, p[0]+"\t") || p[0] == "not-serializable" && strings.HasPrefix(b2, "OBS\t") && !allowed[strings.TrimPrefix(b2, "OBS\t")] {
								repro++
								break
							}
						}
					}
					total += 3
					res.Viol = append(res.Viol, c11Viol{Class: p[0], What: p[1], Schedule: choices, Newest: j.Newest, Trace: traceOf(ex), Repro: repro})
				}
				// only schedules with exactly `bound` preemptions are new at this level; children are generated from every point
				pre := 0
				for i := 0; i < len(ex.Points); i++ {
					p := ex.Points[i]
					if i >= len(prefix) {
						for alt := 1; alt < len(p.Enabled); alt++ {
							cost := pre
							if p.RunningStillEnabled || sc.quietGate || sc.devBound {
								cost++ // these scenarios bound deviations: every departure from the default choice counts
							}
							if cost > bound {
								continue
							}
							if len(prefix) == 0 && j.Parts > 1 {
								rootChild++
								if rootChild%j.Parts != j.Part {
									continue
								}
							}
							// schedules with fewer preemptions than `bound` were explored at an earlier level unless this branch adds one
							rec(append(append([]int{}, choices[:i]...), alt))
						}
					}
					if p.Choice != 0 && (p.RunningStillEnabled || sc.quietGate || sc.devBound) {
						pre++
					}
				}
			}
			rec(nil)
			res.Executions[fmt.Sprint(bound)] = n
			if capped {
				res.Capped = true
				break
			}
			res.Completed = bound
		}
		b, _ := json.Marshal(res)
		return string(b)
	})
}

func traceOf(ex *vsync.Execution) []string {
	out := make([]string, len(ex.Points))
	for i, p := range ex.Points {
		out[i] = p.Op
	}
	return out
}

func runC11(c *vlib.Ctx) {
	bound, maxExec := 2, 4000
	if c.Thorough() {
		bound, maxExec = 3, 60000
	}
	var jobs []string
	var names []string
	if c.ReplayFile != "" {
		// vcheck C11 --replay <file>: run the recorded schedule of the recorded scenario, nothing else
		var rf struct {
			Key    string
			Replay struct {
				Scenario string
				Schedule []int
				Newest   bool `json:"newest_first"`
			}
		}
		b, err := os.ReadFile(c.ReplayFile)
		if err == nil {
			err = json.Unmarshal(b, &rf)
		}
		if err != nil || rf.Replay.Scenario == "" {
			c.Violate("harness:replay-file", fmt.Sprintf("%s is not a C11 replay file: %v", c.ReplayFile, err), nil)
			return
		}
		if rf.Replay.Schedule == nil {
			rf.Replay.Schedule = []int{}
		}
		jb, _ := json.Marshal(c11Job{Scenario: rf.Replay.Scenario, Replay: rf.Replay.Schedule, Newest: rf.Replay.Newest})
		jobs, names = []string{string(jb)}, []string{rf.Replay.Scenario}
		c.Set("replayed", c.ReplayFile)
	}
	if os.Getenv("VERIF_C11_RACEONLY") != "" { // debugging aid; registered commands never set it
		c11RacePass(c, 3)
		return
	}
	var states, transitions int64
	if c.ReplayFile != "" {
		states, transitions = c11Collect(c, "", names, vlib.Pool("c11", nil, 16, jobs))
	} else {
		states, transitions = c11Explore(c, func(name string) bool {
			only := os.Getenv("VERIF_C11_ONLY") // debugging aid; registered commands never set it
			return only == "" || strings.HasPrefix(name, only)
		}, "", bound, maxExec)
	}
	if c.ReplayFile == "" && os.Getenv("VERIF_C11_ONLY") == "" {
		rounds := 20
		if c.Thorough() {
			rounds = 200
		}
		c11FreePass(c, rounds)
		if c.Thorough() {
			c11RacePass(c, 3)
		}
	}
	c.Set("states", states)
	c.Set("transitions", transitions)
	c.Set("traces_validated_against_impl", states)
	c.Sample(map[string]interface{}{"scenario": "S2a: POST newversion || POST newversion on one committed parent", "schedule": "[0 0 1 ...] = thread chosen at each scheduling point", "oracle": "at most one child on the parent's branch; acknowledged == existing; C07 invariants"})
	c.Set("rule", "execution = one complete interleaving of a scenario's request goroutines (plus the goroutines they spawn) under the cooperative scheduler; all schedules with at most b preemptions are enumerated for b = 0..bound; non-trivial = every execution (threads are forced to collide on one key / parent / block / body)")
	c.Assume("operations between two scheduling points run atomically; Badger calls are atomic steps (serialisable transactions); channel operations are not scheduling points - a thread found parked on a channel is treated as blocked outside the model and runs free when released (counted per scenario)")
	c.Assume("a violation is reported only if its schedule reproduces it 3 times out of 3")
}
