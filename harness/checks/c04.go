package checks

// C04 A crash at any write point is recoverable and loses no acknowledged work.
// The process running a workload is terminated (exit at the vkv/vlog wrapper) immediately before / after its N-th write
// unit, for all N; a new process then runs the real start-up on what is left. Thorough: a second termination at every
// write of that recovery start-up. Log files are additionally truncated at every byte length and read back.

import (
	"encoding/json"
	"fmt"
	"os"
	"path/filepath"
	"strings"
	"sync/atomic"

	"github.com/janelia-flyem/dvid/datastore"
	"github.com/janelia-flyem/dvid/dvid"
	"github.com/janelia-flyem/dvid/storage"

	"verif/vlib"
	"verif/vsrv"
)

func init() {
	vlib.Register("C04", "fault_enumeration", runC04)
	vlib.Workers["wlrecover"] = wlRecoverWorker
}

// wlRecoverWorker: wlrecover <dir> <workload> <prefix>: real start-up on dir, metadata invariants, snapshot, a probe
// request, clean shutdown. Prints BOOTED / BOOTFAIL, META ..., SNAP written, PROBE code, writes=<n>.
func wlRecoverWorker(args []string) int {
	dir, name, prefix := args[0], args[1], args[2]
	w := wlWorkloads()[name]
	vsrv.SingleThreaded = true
	if err := vsrv.Boot(dir, vsrv.Options{KVEngine: "vkv", LogEngine: "vlog"}); err != nil {
		fmt.Printf("BOOTFAIL %s\n", strings.ReplaceAll(err.Error(), "\n", " "))
		return 3
	}
	fmt.Printf("BOOTED writes=%d\n", vsrv.WriteCount)
	vsrv.Quiesce()
	if prefix == "bootonly" {
		// used for the second crash: only the start-up itself is subject to the armed fault
		os.Stdout.Sync()
		os.Exit(0)
	}
	// metadata well-formedness: the C07 invariants over every repo the manager knows
	d := datastore.VerifDump()
	world := &c07World{}
	for _, r := range d.Repos {
		world.roots = append(world.roots, r.Root)
	}
	snap := world.snapshot()
	var bad []string
	for _, iv := range c07Invariants(snap, world) {
		bad = append(bad, iv[0]+": "+iv[1])
	}
	if len(bad) == 0 {
		fmt.Println("META ok")
	} else {
		fmt.Printf("META %s\n", strings.ReplaceAll(strings.Join(bad, " ; "), "\n", " "))
	}
	st := &wlState{Dir: dir}
	b, _ := json.Marshal(wlSnapshot(w, st))
	os.WriteFile(fmt.Sprintf("%s/%s.json", dir, prefix), b, 0644)
	// the server must still accept work: create a repo with a fresh uuid
	r := vsrv.PostS("repos", fmt.Sprintf(`{"alias":"probe","description":"p","root":%q}`, wlUUID(900+int(vsrv.WriteCount%50))))
	fmt.Printf("PROBE %d %s\n", r.Code, strings.ReplaceAll(trunc(string(r.Body), 150), "\n", " "))
	vsrv.Quiesce()
	fmt.Printf("DONE writes=%d\n", vsrv.WriteCount)
	vsrv.Shutdown()
	return 0
}

type c04Ref struct {
	dir    string
	snaps  []map[string]string
	ackAt  []int64 // write count at each ack
	total  int64
	bootWr int64
}

func c04Reference(c *vlib.Ctx, name string) *c04Ref {
	d, _ := mkTemp("c04ref")
	res := vlib.RunWorker("wlrun", []string{d, name, "0", "9999", "clean", "L"}, nil)
	ref := &c04Ref{dir: d}
	for _, l := range res.Lines {
		var i, code int
		var wr int64
		if n, _ := fmt.Sscanf(l, "ACK %d %d %d", &i, &code, &wr); n == 3 {
			ref.ackAt = append(ref.ackAt, wr)
		}
		if strings.HasPrefix(l, "BOOTED") {
			fmt.Sscanf(l, "BOOTED writes=%d", &ref.bootWr)
		}
		if strings.HasPrefix(l, "DONE") {
			fmt.Sscanf(l, "DONE writes=%d", &ref.total)
		}
	}
	if ref.total == 0 {
		c.Violate("harness:reference-run:"+name, fmt.Sprintf("reference run failed: %s", tail(res.Stderr, 600)), nil)
		return nil
	}
	for i := 0; i <= len(ref.ackAt); i++ {
		ref.snaps = append(ref.snaps, wlReadSnap(d, "L", i))
	}
	return ref
}

// c04Compare checks the recovered snapshot R against the live snapshots around the crash.
func c04Compare(R, before, after map[string]string, atomicOp bool, rewrites string) (bad []string) {
	// an interrupted multi-write operation on an instance with unversioned properties (ROI / image extents) may leave those
	// properties and every version's reads of that instance in an intermediate state: take them out of the comparison
	dropInst := func(s string) string {
		if atomicOp || rewrites == "" {
			return s
		}
		var m map[string]interface{}
		if json.Unmarshal([]byte(s), &m) != nil {
			return s
		}
		if di, ok := m["DataInstances"].(map[string]interface{}); ok {
			if e, ok := di[rewrites].(map[string]interface{}); ok {
				delete(e, "Extended")
				delete(e, "Extents")
			}
		}
		b, _ := json.Marshal(m)
		return string(b)
	}
	keys := map[string]bool{}
	for k := range before {
		keys[k] = true
	}
	for k := range after {
		keys[k] = true
	}
	for k := range R {
		keys[k] = true
	}
	// a multi-write data operation rewrites one instance at one version: every read of that (instance, version) group
	// may show an intermediate state if the operation was cut short
	group := func(k string) string {
		if strings.HasPrefix(k, "data:") {
			return strings.Join(strings.SplitN(k, ":", 3)[:2], ":")
		}
		return k
	}
	touched := map[string]bool{}
	for k := range keys {
		if before[k] != after[k] {
			touched[group(k)] = true
		}
	}
	sideB, sideA := true, true
	for k := range keys {
		r, b, a := R[k], before[k], after[k]
		if strings.HasPrefix(k, "repo:node-v") && strings.Contains(k, "probe") {
			continue
		}
		if !atomicOp && rewrites != "" {
			if strings.HasPrefix(k, "data:"+rewrites+"@") {
				continue
			}
			if strings.HasPrefix(k, "repo:") {
				r, b, a = dropInst(r), dropInst(b), dropInst(a)
			}
		}
		if r != b {
			sideB = false
		}
		if r != a {
			sideA = false
		}
		switch {
		case !atomicOp && touched[group(k)]:
			// the statement promises nothing about the data an interrupted multi-write operation was rewriting
		case b == a:
			// not touched by the interrupted operation: acknowledged work must be fully visible, untouched data unchanged
			if r != b {
				bad = append(bad, k)
			}
		case atomicOp:
			if r != b && r != a {
				bad = append(bad, k)
			}
		default:
			// a multi-write data operation was cut short: the statement promises nothing about the data it was rewriting
		}
	}
	if atomicOp && !sideB && !sideA && len(bad) == 0 {
		bad = append(bad, "atomicity: part of the operation is visible and part is not")
	}
	return bad
}

func runC04(c *vlib.Ctx) {
	names := []string{"repo", "kv", "labelmap", "annotation", "neuronjson", "delete", "ids", "roi", "imageblk", "sync", "tworepos"}
	ws := wlWorkloads()
	refs := make([]*c04Ref, len(names))
	vlib.Par(len(names), 8, func(i int) { refs[i] = c04Reference(c, names[i]) })
	defer func() {
		for _, r := range refs {
			if r != nil {
				rmAll(r.dir)
			}
		}
	}()
	type job struct {
		wi       int
		n        int64
		when     string
		second   int64 // crash the recovery start-up at this write (0 = no second crash)
		emptyMem bool  // the death also left the store's next memtable file created but not yet sized (zero length)
		txn      bool  // n counts writing engine transactions inside storage/badger (instrumented binary), not write units
	}
	var jobs []job
	// Kill points between the engine transactions of one store operation: the workload runs in the scheduler-instrumented
	// binary (storage/badger carries a hook before every Update / Flush / Commit) and dies before its n-th writing
	// transaction. On a tree where every versioned Put / Delete is one transaction these states coincide with the
	// write-unit kill points; a store operation split into several transactions adds states between them.
	if sched := filepath.Join(os.Getenv("VERIF_DIR"), ".build", "vsched"); fileExists(sched) {
		vlib.WorkerExe["wlruntxn"] = sched
		txnWorkloads := []string{"kv"}
		if c.Thorough() {
			txnWorkloads = []string{"kv", "repo", "neuronjson", "annotation"}
		}
		for wi, ref := range refs {
			use := false
			for _, n := range txnWorkloads {
				use = use || names[wi] == n
			}
			if ref == nil || !use {
				continue
			}
			d, _ := mkTemp("c04txn")
			res := vlib.RunWorker("wlruntxn", []string{d, names[wi], "0", "9999", "clean", "nosnap"}, nil)
			rmAll(d)
			var total int64
			fmt.Sscanf(res.LastLineWith("TXNS "), "TXNS %d", &total)
			if total == 0 {
				c.Cap("engine-transaction kill points of workload " + names[wi] + " not enumerated: the instrumented worker reported no transactions (" + tail(res.Stderr, 200) + ")")
				continue
			}
			c.Add("engine_transaction_kill_points", total)
			for n := int64(1); n <= total; n++ {
				jobs = append(jobs, job{wi: wi, n: n, when: "before", txn: true})
			}
		}
	} else {
		c.Cap("engine-transaction kill points skipped: the scheduler-instrumented binary is missing")
	}
	for wi, ref := range refs {
		if ref == nil {
			continue
		}
		for n := int64(1); n <= ref.total; n++ {
			if names[wi] == "ids" && !c.Thorough() && n > ref.bootWr+40 && n%3 != 0 {
				continue
			}
			jobs = append(jobs, job{wi, n, "before", 0, false, false})
			if c.Thorough() || n%4 == 0 {
				jobs = append(jobs, job{wi, n, "after", 0, false, false})
			}
			if c.Thorough() || n%9 == 0 {
				for m := int64(1); m <= 8; m++ {
					jobs = append(jobs, job{wi, n, "before", m, false, false})
				}
			}
			if n%7 == 0 || c.Thorough() && n%2 == 0 {
				jobs = append(jobs, job{wi, n, "before", 0, true, false})
			}
		}
	}
	var crashStates, recoveries int64
	vlib.Par(len(jobs), 16, func(ji int) {
		j := jobs[ji]
		name, ref, w := names[j.wi], refs[j.wi], ws[names[j.wi]]
		dir, err := mkTemp("c04")
		if err != nil {
			return
		}
		defer rmAll(dir)
		env := []string{fmt.Sprintf("VERIF_CRASH_AT=%d", j.n), "VERIF_CRASH_WHEN=" + j.when}
		worker := "wlrun"
		if j.txn {
			env = []string{fmt.Sprintf("VERIF_CRASH_AT_TXN=%d", j.n)}
			worker = "wlruntxn"
		}
		res := vlib.RunWorker(worker, []string{dir, name, "0", "9999", "abrupt", "nosnap"}, nil, env...)
		acked := 0
		for _, l := range res.Lines {
			if strings.HasPrefix(l, "ACK ") {
				acked++
			}
		}
		if res.ExitCode != 137 {
			// the run did not reach write n (background write order differs between runs): nothing to check here
			c.Outcome("crash-point-not-reached")
			return
		}
		atomic.AddInt64(&crashStates, 1)
		inflight := "start-up"
		atomicOp := true
		if acked < len(w.Ops) && res.LastLineWith("BOOTED") != "" {
			inflight = w.Ops[acked].Name
			atomicOp = w.Ops[acked].Atomic
		}
		rep := map[string]interface{}{"workload": name, "crash_at_write": j.n, "when": j.when, "ops_acknowledged": acked, "op_in_flight": inflight, "second_crash_at_recovery_write": j.second}
		cls := fmt.Sprintf("%s:during-%s", name, inflight)
		if j.txn {
			cls += ":before-engine-transaction"
			rep["crash_at_engine_transaction"] = j.n
		}
		if j.second > 0 {
			// first recovery attempt is itself killed at its m-th write
			env2 := []string{fmt.Sprintf("VERIF_CRASH_AT=%d", j.second), "VERIF_CRASH_WHEN=before"}
			r1 := vlib.RunWorker("wlrecover", []string{dir, name, "bootonly"}, nil, env2...)
			if r1.ExitCode != 137 {
				c.Outcome("second-crash-point-not-reached")
				return // recovery issues fewer writes than m
			}
			cls += ":second-crash"
		}
		if j.emptyMem {
			// Badger creates a memtable file and then sizes it; dying in between leaves NNNNN.mem with zero length.
			// The kill points above sit at DVID's write units, so this torn state of the engine is injected explicitly.
			c04InjectEmptyMemtable(dir)
			cls += ":empty-memtable-file"
			rep["injected"] = "zero-length next memtable file in every badger directory"
		}
		rec := vlib.RunWorker("wlrecover", []string{dir, name, "R"}, nil)
		atomic.AddInt64(&recoveries, 1)
		c.Eval(1)
		c.Nontrivial(fmt.Sprintf("%s|%d|%s|%d", name, j.n, j.when, j.second))
		if rec.LastLineWith("BOOTED") == "" {
			c.Violate("crash:"+cls+":restart-fails", fmt.Sprintf("workload %s killed %s write #%d (%d ops acknowledged, %s in flight): the next start fails: %s %s", name, j.when, j.n, acked, inflight, rec.LastLineWith("BOOTFAIL"), tail(rec.Stderr, 600)), rep)
			return
		}
		if rec.LastLineWith("DONE") == "" {
			c.Violate("crash:"+cls+":recovered-server-dies", fmt.Sprintf("workload %s killed %s write #%d: the restarted server died: %s", name, j.when, j.n, tail(rec.Stderr, 800)), rep)
			return
		}
		if m := rec.LastLineWith("META "); m != "META ok" {
			c.Violate("crash:"+cls+":metadata-malformed", fmt.Sprintf("workload %s killed %s write #%d (%s in flight): repository metadata after restart: %s", name, j.when, j.n, inflight, m), rep)
		}
		if p := rec.LastLineWith("PROBE "); !strings.HasPrefix(p, "PROBE 200") {
			c.Violate("crash:"+cls+":probe-refused", fmt.Sprintf("workload %s killed %s write #%d: the restarted server refuses a new repo: %s", name, j.when, j.n, p), rep)
		}
		R := wlReadSnap(dir, "R", -1)
		if b, err := os.ReadFile(dir + "/R.json"); err == nil {
			R = map[string]string{}
			json.Unmarshal(b, &R)
		}
		if R == nil || acked >= len(ref.snaps) {
			return
		}
		before := ref.snaps[acked]
		after := before
		if acked+1 < len(ref.snaps) {
			after = ref.snaps[acked+1]
		}
		for _, comp := range c04Compare(R, before, after, atomicOp, w.Rewrites) {
			c.Violate("crash:"+cls+":"+wlCompClass(comp), fmt.Sprintf("workload %s killed %s write #%d with %d ops acknowledged and %s in flight: after restart %s is neither the acknowledged state nor the completed operation's: recovered %s | acknowledged %s | completed %s",
				name, j.when, j.n, acked, inflight, comp, trunc(R[comp], 300), trunc(before[comp], 300), trunc(after[comp], 300)), rep)
		}
		c.Outcome("recovered")
	})
	c.Set("crash_states", crashStates)
	c.Set("recoveries", recoveries)
	c04TornLogs(c, refs[2])
	c.Sample(map[string]interface{}{"workload": "repo", "crash": "exit immediately before write #21 (newversion in flight, 7 ops acknowledged)", "checked": "restart succeeds; C07 invariants on the reloaded manager; snapshot component-wise in {acknowledged, completed}; atomic ops all-or-nothing; probe request served"})
	c.Set("rule", "fault point = (workload, write unit N, before/after[, recovery write M]) over 7 workloads; every N; non-trivial = fault point actually reached. Plus every truncation length of every mutation-log file of the labelmap workload through ReadAll/StreamAll")
	c.Assume("crash model: process death (completed writes survive in the page cache); power loss is out of scope")
	c.Assume("background write order may differ between runs, so a numbered write can fall into a neighbouring operation; the acknowledged-operation count is taken from the killed process's own output")
}

// c04TornLogs truncates every log file of the labelmap reference run at every length and reads it back through the real
// filelog reader: the result must be exactly the records that are completely contained in the prefix.
func c04TornLogs(c *vlib.Ctx, ref *c04Ref) {
	if ref == nil {
		return
	}
	files, _ := filepath.Glob(ref.dir + "/log/*")
	eng := storage.GetEngine("filelog")
	if eng == nil {
		c.Violate("harness:filelog", "filelog engine missing", nil)
		return
	}
	for _, f := range files {
		full, err := os.ReadFile(f)
		if err != nil || len(full) == 0 {
			continue
		}
		base := filepath.Base(f)
		i := strings.Index(base, "-")
		if i != 32 {
			continue
		}
		dataID, version := dvid.UUID(base[:32]), dvid.UUID(base[33:])
		// complete records
		type rec struct {
			typ  uint16
			data string
			end  int
		}
		var recs []rec
		for pos := 0; pos+6 <= len(full); {
			sz := int(uint32(full[pos+2]) | uint32(full[pos+3])<<8 | uint32(full[pos+4])<<16 | uint32(full[pos+5])<<24)
			if pos+6+sz > len(full) {
				break
			}
			recs = append(recs, rec{uint16(full[pos]) | uint16(full[pos+1])<<8, string(full[pos+6 : pos+6+sz]), pos + 6 + sz})
			pos += 6 + sz
		}
		tmp, _ := mkTemp("c04log")
		var cfg dvid.Config
		cfg.SetAll(map[string]interface{}{"path": tmp})
		st, _, err := eng.NewStore(dvid.StoreConfig{Config: cfg, Engine: "filelog"})
		if err != nil {
			c.Violate("harness:filelog", err.Error(), nil)
			rmAll(tmp)
			continue
		}
		rl := st.(storage.ReadLog)
		for cut := 0; cut <= len(full); cut++ {
			os.WriteFile(filepath.Join(tmp, base), full[:cut], 0644)
			var want []rec
			for _, r := range recs {
				if r.end <= cut {
					want = append(want, r)
				}
			}
			check := func(api string, got []storage.LogMessage, err error, pn interface{}) {
				c.Eval(1)
				rep := map[string]interface{}{"log_file_bytes": len(full), "truncated_to": cut, "complete_records": len(want)}
				if pn != nil {
					c.Violate("tornlog:"+api+":panic", fmt.Sprintf("%s panicked on a log of %d bytes truncated to %d: %v", api, len(full), cut, pn), rep)
					return
				}
				ok := len(got) == len(want)
				if ok {
					for i := range got {
						if got[i].EntryType != want[i].typ || string(got[i].Data) != want[i].data {
							ok = false
						}
					}
				}
				if !ok {
					kind := "extra-or-missing"
					if len(got) > len(want) {
						kind = "invented-record"
					}
					c.Violate("tornlog:"+api+":"+kind, fmt.Sprintf("%s on a log truncated to %d of %d bytes returned %d records (err %v), %d are completely written; last returned record has %d bytes", api, cut, len(full), len(got), err, len(want), lastLen(got)), rep)
				}
				c.Outcome(fmt.Sprintf("torn:%d-records", len(want)))
			}
			var msgs []storage.LogMessage
			var rerr error
			pn := vlib.Safely(func() { msgs, rerr = rl.ReadAll(dataID, version) })
			check("ReadAll", msgs, rerr, pn)
			var smsgs []storage.LogMessage
			pn = vlib.Safely(func() {
				ch := make(chan storage.LogMessage, 1000)
				done := make(chan struct{})
				go func() {
					for m := range ch {
						smsgs = append(smsgs, m)
					}
					close(done)
				}()
				rerr = rl.StreamAll(dataID, version, ch)
				<-done
			})
			check("StreamAll", smsgs, rerr, pn)
			c.Nontrivial(fmt.Sprintf("torn|%s|%d", base[:6], cut))
		}
		st.Close()
		rmAll(tmp)
	}
}

func lastLen(m []storage.LogMessage) int {
	if len(m) == 0 {
		return 0
	}
	return len(m[len(m)-1].Data)
}

// c04InjectEmptyMemtable creates, in every Badger directory below dir, an empty memtable file with the next file id.
func c04InjectEmptyMemtable(dir string) {
	filepath.Walk(dir, func(p string, fi os.FileInfo, err error) error {
		if err != nil || !fi.IsDir() {
			return nil
		}
		mems, _ := filepath.Glob(filepath.Join(p, "*.mem"))
		if _, e := os.Stat(filepath.Join(p, "MANIFEST")); e != nil {
			return nil
		}
		next := 1
		for _, m := range mems {
			var id int
			if _, e := fmt.Sscanf(filepath.Base(m), "%05d.mem", &id); e == nil && id >= next {
				next = id + 1
			}
		}
		os.WriteFile(filepath.Join(p, fmt.Sprintf("%05d.mem", next)), nil, 0644)
		return nil
	})
}

func fileExists(p string) bool {
	_, err := os.Stat(p)
	return err == nil
}
