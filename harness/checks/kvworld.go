package checks

// kvworld: builds key-value histories over a version DAG through the HTTP API. Shared by C05 and C19.

import (
	"fmt"
	"net/url"

	"github.com/janelia-flyem/dvid/datastore"
	"github.com/janelia-flyem/dvid/dvid"
	"github.com/janelia-flyem/dvid/server"
	"github.com/janelia-flyem/dvid/storage"

	"verif/vsrv"
)

// per-node op codes for one key
const (
	opNone = iota
	opPut
	opDel
	opPutDel
	opDelPut
)

// kvPattern is a per-node op vector for one key.
type kvPattern []int

// kvInst is one key-value instance with its keys and their patterns.
type kvInst struct {
	name     string
	keys     []string
	patterns []kvPattern
}

// kvRepo is a realised DAG with instances.
type kvRepo struct {
	spec  dagSpec
	uuids []string
	vids  []dvid.VersionID
	insts []*kvInst
	nreq  int64
}

func kvVal(inst, key string, node int) string {
	return fmt.Sprintf("\"%s/%s@%d\"", inst, key, node) // valid JSON so that json=true outputs parse
}

func kvURLKey(k string) string { return url.PathEscape(k) }

// buildKVRepo creates the repo, the instances, and replays the per-node writes while growing the DAG.
// Every node is committed after its writes.
func buildKVRepo(spec dagSpec, insts []*kvInst) (*kvRepo, error) {
	r := &kvRepo{spec: spec, insts: insts}
	root, err := vsrv.NewRepo()
	if err != nil {
		return nil, err
	}
	r.uuids = []string{root}
	for _, in := range insts {
		if err := vsrv.NewInstance(root, "keyvalue", in.name, nil); err != nil {
			return r, err
		}
	}
	write := func(node int) error {
		for _, in := range insts {
			for ki, key := range in.keys {
				u := "node/" + r.uuids[node] + "/" + in.name + "/key/" + kvURLKey(key)
				val := []byte(kvVal(in.name, key, node))
				var rs []vsrv.Resp
				switch in.patterns[ki][node] {
				case opPut:
					rs = append(rs, vsrv.Post(u, val))
				case opDel:
					rs = append(rs, vsrv.Delete(u))
				case opPutDel:
					rs = append(rs, vsrv.PostS(u, `"early"`), vsrv.Delete(u))
				case opDelPut:
					rs = append(rs, vsrv.Delete(u), vsrv.Post(u, val))
				}
				for _, x := range rs {
					r.nreq++
					if !x.OK() {
						return fmt.Errorf("write %s: %s", u, x)
					}
				}
			}
		}
		return nil
	}
	if err := write(0); err != nil {
		return r, err
	}
	if err := vsrv.Commit(root); err != nil {
		return r, err
	}
	for i := 1; i < len(spec); i++ {
		var u string
		if len(spec[i]) == 1 {
			u, err = vsrv.Branch(r.uuids[spec[i][0]], fmt.Sprintf("br%d", i))
		} else {
			ps := make([]string, len(spec[i]))
			for k, p := range spec[i] {
				ps[k] = r.uuids[p]
			}
			u, err = vsrv.Merge(ps...)
		}
		if err != nil {
			return r, err
		}
		r.uuids = append(r.uuids, u)
		r.nreq += 2
		if err := write(i); err != nil {
			return r, err
		}
		if err := vsrv.Commit(u); err != nil {
			return r, err
		}
	}
	for _, u := range r.uuids {
		v, err := datastore.VersionFromUUID(dvid.UUID(u))
		if err != nil {
			return r, err
		}
		r.vids = append(r.vids, v)
	}
	return r, nil
}

func (r *kvRepo) drop() {
	if len(r.uuids) > 0 {
		datastore.DeleteRepo(dvid.UUID(r.uuids[0]), "")
		server.VerifCloseJSONLogs(r.uuids)
	}
}

// point is the point-read oracle: GET key at a version.
type pointRead struct {
	found    bool
	conflict bool // the read did not succeed (neither 200 nor 404)
	val      string
}

func kvPoint(uuid, inst, key string) pointRead {
	x := vsrv.Get("node/" + uuid + "/" + inst + "/key/" + kvURLKey(key))
	switch x.Code {
	case 200:
		return pointRead{found: true, val: string(x.Body)}
	case 404:
		return pointRead{}
	default:
		return pointRead{conflict: true, val: x.String()}
	}
}

func kvData(root, inst string) (datastore.DataService, storage.OrderedKeyValueDB, error) {
	d, err := datastore.GetDataByUUIDName(dvid.UUID(root), dvid.InstanceName(inst))
	if err != nil {
		return nil, nil, err
	}
	db, err := datastore.GetOrderedKeyValueDB(d)
	return d, db, err
}
