package checks

import (
	"fmt"
	"sync/atomic"

	pb "google.golang.org/protobuf/proto"

	"github.com/janelia-flyem/dvid/datastore"
	"github.com/janelia-flyem/dvid/datatype/common/proto"
	"github.com/janelia-flyem/dvid/dvid"
	"github.com/janelia-flyem/dvid/storage"

	"verif/vlib"
	"verif/vsrv"
)

// c01E2E: entries are produced by real POST/DELETE key requests interleaved with the DAG-building requests.
// Per-node placements: 0 nothing, 1 put, 2 delete, 3 put then delete, 4 delete then put (same version).
// All placement vectors of one DAG share one repo and use one key each, so the per-key history is exactly the
// enumerated one while the DAG is built once.
func c01E2E(c *vlib.Ctx, states, transitions, traces *int64) {
	type cfg struct {
		n      int
		places int // number of per-node placement kinds used
	}
	cfgs := []cfg{{2, 5}, {3, 5}, {4, 3}}
	if c.Thorough() {
		cfgs = []cfg{{2, 5}, {3, 5}, {4, 5}, {5, 3}}
	}
	c.Set("e2e_max_nodes", cfgs[len(cfgs)-1].n)
	net := []int{0, 1, 2, 2, 1}
	for _, cf := range cfgs {
		var specs []dagSpec
		enumDAGs(cf.n, func(d dagSpec) { specs = append(specs, d) })
		// every DAG is built twice: writes as single-key requests, and with all puts of a node sent as ONE batch request
		// (POST keyvalues) after the node's deletes - the batch path clears same-version tombstones inside one write batch
		// ... and a third time with single-key requests that all carry the SAME bytes for a key, whichever node writes it:
		// a descendant then re-posts exactly what it inherits, which must still count as that version's own write
		vlib.Par(3*len(specs), 16, func(sj int) {
			spec := specs[sj/3]
			batchMode := sj%3 == 1
			sameValue := sj%3 == 2
			valueOf := func(code, node int) string {
				if sameValue {
					return fmt.Sprintf("v%d", code)
				}
				return fmt.Sprintf("v%d@%d", code, node)
			}
			n := cf.n
			total := 1
			for i := 0; i < n; i++ {
				total *= cf.places
			}
			placeOf := func(code, node int) int {
				for i := 0; i < node; i++ {
					code /= cf.places
				}
				return code % cf.places
			}
			fail := func(stage string, r vsrv.Resp) {
				c.Violate("e2e:harness:"+stage, fmt.Sprintf("DAG [%s]: %s failed: %s", spec, stage, r), map[string]interface{}{"dag": spec})
			}
			// build: root repo, kv instance, a second unversioned instance, and a second repo writing the same keys
			root, err := vsrv.NewRepo()
			if err != nil {
				c.Violate("e2e:harness:repo", err.Error(), nil)
				return
			}
			defer datastore.DeleteRepo(dvid.UUID(root), "")
			if err := vsrv.NewInstance(root, "keyvalue", "kv", nil); err != nil {
				c.Violate("e2e:harness:instance", err.Error(), nil)
				return
			}
			uuids := []string{root}
			var ntrans int64
			writeNode := func(i int) bool {
				var batch []*proto.KeyValue
				for code := 0; code < total; code++ {
					key := fmt.Sprintf("k%d", code)
					val := valueOf(code, i)
					url := "node/" + uuids[i] + "/kv/key/" + key
					var rs []vsrv.Resp
					put := func() {
						if batchMode {
							batch = append(batch, &proto.KeyValue{Key: key, Value: []byte(val)})
						} else {
							rs = append(rs, vsrv.PostS(url, val))
						}
					}
					switch placeOf(code, i) {
					case 1:
						put()
					case 2:
						rs = append(rs, vsrv.Delete(url))
					case 3:
						rs = append(rs, vsrv.PostS(url, val+"-early"), vsrv.Delete(url))
					case 4:
						rs = append(rs, vsrv.Delete(url))
						put()
					}
					for _, r := range rs {
						ntrans++
						if !r.OK() {
							fail("write", r)
							return false
						}
					}
				}
				if len(batch) > 0 {
					// odd nodes: the HTTP batch request (POST keyvalues); even nodes: one storage write batch through the
					// versioned context (PutRange), the path block / index / span writers use
					ntrans++
					if i%2 == 1 {
						body, _ := pb.Marshal(&proto.KeyValues{Kvs: batch})
						if r := vsrv.Post("node/"+uuids[i]+"/kv/keyvalues", body); !r.OK() {
							fail("batch-write", r)
							return false
						}
					} else {
						data, err := datastore.GetDataByUUIDName(dvid.UUID(root), "kv")
						var db storage.OrderedKeyValueDB
						if err == nil {
							db, err = datastore.GetOrderedKeyValueDB(data)
						}
						vid, err2 := datastore.VersionFromUUID(dvid.UUID(uuids[i]))
						if err != nil || err2 != nil {
							fail("batch-write", vsrv.Resp{Code: 500, Body: []byte(fmt.Sprint(err, err2))})
							return false
						}
						var tkvs []storage.TKeyValue
						for _, kv := range batch {
							tk, _ := kvTKey(kv.Key)
							cc := data.(interface {
								Compression() dvid.Compression
								Checksum() dvid.Checksum
							})
							ser, _ := dvid.SerializeData(kv.Value, cc.Compression(), cc.Checksum())
							tkvs = append(tkvs, storage.TKeyValue{K: tk, V: ser})
						}
						if err := db.PutRange(datastore.NewVersionedCtx(data, vid), tkvs); err != nil {
							fail("batch-write", vsrv.Resp{Code: 500, Body: []byte(err.Error())})
							return false
						}
					}
				}
				return true
			}
			if !writeNode(0) {
				return
			}
			if err := vsrv.Commit(root); err != nil {
				c.Violate("e2e:harness:commit", err.Error(), nil)
				return
			}
			for i := 1; i < n; i++ {
				var u string
				var err error
				if len(spec[i]) == 1 {
					u, err = vsrv.Branch(uuids[spec[i][0]], fmt.Sprintf("br%d", i))
				} else {
					ps := make([]string, len(spec[i]))
					for k, p := range spec[i] {
						ps[k] = uuids[p]
					}
					u, err = vsrv.Merge(ps...)
				}
				if err != nil {
					c.Violate("e2e:harness:dag", fmt.Sprintf("DAG [%s]: %v", spec, err), nil)
					return
				}
				uuids = append(uuids, u)
				ntrans += 2
				if !writeNode(i) {
					return
				}
				if err := vsrv.Commit(u); err != nil {
					c.Violate("e2e:harness:commit", err.Error(), nil)
					return
				}
			}
			atomic.AddInt64(transitions, ntrans)
			atomic.AddInt64(traces, 1)
			// reads
			anc := spec.ancMasks()
			data, err := datastore.GetDataByUUIDName(dvid.UUID(root), "kv")
			if err != nil {
				c.Violate("e2e:harness:data", err.Error(), nil)
				return
			}
			db, err := datastore.GetOrderedKeyValueDB(data)
			if err != nil {
				c.Violate("e2e:harness:db", err.Error(), nil)
				return
			}
			place := make([]int, n)
			for code := 0; code < total; code++ {
				raw := make([]int, n)
				for i := 0; i < n; i++ {
					raw[i] = placeOf(code, i)
					place[i] = net[raw[i]]
				}
				key := fmt.Sprintf("k%d", code)
				for v := 0; v < n; v++ {
					atomic.AddInt64(states, 1)
					c.Eval(2)
					live := c01Expect(anc, place, v)
					r := vsrv.Get("node/" + uuids[v] + "/kv/key/" + key)
					// package-level read through a versioned context
					vid, _ := datastore.VersionFromUUID(dvid.UUID(uuids[v]))
					vctx := datastore.NewVersionedCtx(data, vid)
					tk, _ := kvTKey(key)
					dbv, dberr := db.Get(vctx, tk)
					rep := map[string]interface{}{"dag": spec, "puts_sent_as_one_batch_per_node": batchMode, "every_put_of_the_key_carries_the_same_bytes": sameValue, "placement_per_node(0 none,1 put,2 delete,3 put+delete,4 delete+put)": raw, "query": v, "expected_live_nodes": live}
					cls := c01Class(spec, place, v, live)
					if nontrivialE2E(anc, place, v) {
						c.NontrivialDistinct(1)
					}
					switch len(live) {
					case 1:
						want := valueOf(code, live[0])
						if r.Code != 200 || string(r.Body) != want {
							c.Violate("e2e:GET:"+cls, fmt.Sprintf("DAG [%s] per-node ops %v: GET key at node %d expected %q, got %s", spec, raw, v, want, r), rep)
						}
						if dberr != nil || dbv == nil {
							c.Violate("e2e:dbGet:"+cls, fmt.Sprintf("DAG [%s] per-node ops %v: db.Get at node %d expected a value, got nil (err %v)", spec, raw, v, dberr), rep)
						}
						c.Outcome("e2e-value")
					case 0:
						if r.Code != 404 {
							c.Violate("e2e:GET:"+cls, fmt.Sprintf("DAG [%s] per-node ops %v: GET key at node %d expected 404, got %s", spec, raw, v, r), rep)
						}
						if dbv != nil || dberr != nil {
							c.Violate("e2e:dbGet:"+cls, fmt.Sprintf("DAG [%s] per-node ops %v: db.Get at node %d expected nil, got %d bytes err %v", spec, raw, v, len(dbv), dberr), rep)
						}
						c.Outcome("e2e-404")
					default:
						if r.Code == 200 {
							c.Violate("e2e:GET:"+cls, fmt.Sprintf("DAG [%s] per-node ops %v: GET key at node %d succeeded (%s) although live values at nodes %v conflict", spec, raw, v, r, live), rep)
						}
						if dbv != nil && dberr == nil {
							c.Violate("e2e:dbGet:"+cls, fmt.Sprintf("DAG [%s] per-node ops %v: db.Get at node %d succeeded although live values at nodes %v conflict", spec, raw, v, live), rep)
						}
						c.Outcome(fmt.Sprintf("e2e-conflict-%d", r.Code))
					}
				}
			}
		})
	}
	c.Sample(map[string]interface{}{"e2e": "DAG 1<-[0] 2<-[0] 3<-[1 2]; per-node ops root=put, node1=delete, node2=nothing, node3=nothing; GET key at node 3 -> 404"})
	c01Isolation(c, transitions)
}

func nontrivialE2E(anc []uint32, place []int, v int) bool {
	k := 0
	for a := range place {
		if (anc[v]|1<<uint(v))&(1<<uint(a)) != 0 && place[a] != 0 {
			k++
		}
	}
	return k >= 2
}

// kvTKey mirrors keyvalue.NewTKey without importing the package's internals.
func kvTKey(key string) (storage.TKey, error) {
	return storage.NewTKey(storage.TKeyClass(kvKeyClass), append([]byte(key), 0)), nil
}

// c01Isolation: writes in another repo, in a descendant/sibling, and unversioned instances pinned to the root.
func c01Isolation(c *vlib.Ctx, transitions *int64) {
	rootA, err := vsrv.NewRepo()
	if err != nil {
		c.Violate("e2e:harness:repo", err.Error(), nil)
		return
	}
	rootB, _ := vsrv.NewRepo()
	defer datastore.DeleteRepo(dvid.UUID(rootA), "")
	defer datastore.DeleteRepo(dvid.UUID(rootB), "")
	vsrv.NewInstance(rootA, "keyvalue", "kv", nil)
	vsrv.NewInstance(rootB, "keyvalue", "kv", nil)
	vsrv.NewInstance(rootA, "keyvalue", "unv", map[string]string{"versioned": "false"})
	vsrv.PostS("node/"+rootA+"/kv/key/x", "A-root")
	vsrv.PostS("node/"+rootB+"/kv/key/x", "B-root")
	vsrv.PostS("node/"+rootB+"/kv/key/onlyB", "B-only")
	vsrv.PostS("node/"+rootA+"/unv/key/u", "u-root")
	vsrv.Commit(rootA)
	vsrv.Commit(rootB)
	c1, _ := vsrv.Branch(rootA, "one")
	c2, _ := vsrv.Branch(rootA, "two")
	vsrv.PostS("node/"+c1+"/kv/key/x", "A-c1")
	vsrv.PostS("node/"+c1+"/kv/key/y", "A-c1-y")
	vsrv.Delete("node/" + c2 + "/kv/key/x")
	vsrv.PostS("node/"+c1+"/unv/key/u", "u-c1")
	*transitions += 14
	exp := []struct{ url, want string }{
		{"node/" + rootA + "/kv/key/x", "A-root"},
		{"node/" + c1 + "/kv/key/x", "A-c1"},
		{"node/" + c2 + "/kv/key/x", ""},
		{"node/" + rootA + "/kv/key/y", ""},
		{"node/" + c2 + "/kv/key/y", ""},
		{"node/" + rootA + "/kv/key/onlyB", ""},
		{"node/" + rootB + "/kv/key/x", "B-root"},
		{"node/" + rootA + "/unv/key/u", "u-c1"},
		{"node/" + c2 + "/unv/key/u", "u-c1"},
		{"node/" + c1 + "/unv/key/u", "u-c1"},
	}
	for _, e := range exp {
		c.Eval(1)
		r := vsrv.Get(e.url)
		if e.want == "" && r.Code != 404 || e.want != "" && (r.Code != 200 || string(r.Body) != e.want) {
			c.Violate("e2e:isolation:"+e.url[len("node/")+32:], fmt.Sprintf("GET %s expected %q (\"\" = 404), got %s", e.url, e.want, r), map[string]interface{}{"url": e.url})
		}
	}
}

// kvKeyClass is keyvalue's (unexported) standard key class; kvTKeyMatches verifies it against the exported constructor.
const kvKeyClass = 177
