package checks

// C18, ROI part: "ROI span sets answer point-membership and mask queries consistently with their spans."
// Every subset of a menu of 8 block spans (overlapping, adjacent, negative z / y / x, unsorted) is POSTed to a real roi
// instance (8^3 blocks) in two orders; then GET roi, POST ptquery (both extreme voxels of every block of the universe) and
// GET mask (whole universe, an unaligned box across the origin, a positive box, and a grid of 108 boxes beginning at every
// block start of the universe in X, aligned and unaligned, over six first rows) must agree with the set of blocks the
// spans name. The reference is a map[block]bool and floor division.

import (
	"encoding/json"
	"fmt"
	"sort"

	"verif/vlib"
	"verif/vsrv"
)

const c18B = 8 // roi block edge

var c18SpanMenu = [][4]int{
	{0, 0, 0, 1},    // z, y, x0, x1
	{0, 0, 1, 2},    // overlaps the first
	{0, 0, 3, 3},    // adjacent to the second
	{0, 1, -1, 0},   // crosses x = 0
	{-1, 0, 0, 0},   // negative z
	{0, -1, -2, -1}, // negative y and x
	{1, 0, 0, 0},
	{0, 0, -3, -2}, // same row as the first, left of the origin
}

func fdiv(a, b int) int {
	q := a / b
	if a%b != 0 && (a < 0) != (b < 0) {
		q--
	}
	return q
}

func c18ROI(c *vlib.Ctx) {
	cleanup, ok := bootTemp(c, vsrv.Options{})
	if !ok {
		return
	}
	defer cleanup()
	root, err := vsrv.NewRepo()
	if err != nil {
		c.Violate("harness:roi:repo", err.Error(), nil)
		return
	}
	if err := vsrv.NewInstance(root, "roi", "r", map[string]string{"BlockSize": fmt.Sprintf("%d,%d,%d", c18B, c18B, c18B)}); err != nil {
		c.Violate("harness:roi:instance", err.Error(), nil)
		return
	}
	base := "node/" + root + "/r/"
	type blk = [3]int // x,y,z
	// universe of blocks queried
	var uni []blk
	for z := -2; z <= 2; z++ {
		for y := -2; y <= 2; y++ {
			for x := -4; x <= 4; x++ {
				uni = append(uni, blk{x, y, z})
			}
		}
	}
	var pts [][3]int
	for _, b := range uni {
		pts = append(pts, [3]int{b[0] * c18B, b[1] * c18B, b[2] * c18B}, [3]int{b[0]*c18B + c18B - 1, b[1]*c18B + c18B - 1, b[2]*c18B + c18B - 1})
	}
	ptsJSON, _ := json.Marshal(pts)
	type box struct {
		name     string
		size, of [3]int
	}
	boxes := []box{
		{"universe", [3]int{9 * c18B, 5 * c18B, 5 * c18B}, [3]int{-4 * c18B, -2 * c18B, -2 * c18B}},
		{"unaligned-across-origin", [3]int{13, 7, 11}, [3]int{-5, -3, -9}},
		{"positive", [3]int{30, 9, 8}, [3]int{3, 2, 1}},
	}
	// grid of boxes: every block start of the universe in X, aligned and unaligned, over a menu of first (y, z) rows - a
	// mask must not depend on where the box begins relative to the spans of its first block row
	for bx0 := -4; bx0 <= 4; bx0++ {
		for _, dx := range []int{0, 3} {
			for _, yz := range [][2]int{{-2 * c18B, -2 * c18B}, {-c18B + 1, 0}, {0, 0}, {0, -c18B}, {c18B, 0}, {0, c18B + 1}} {
				boxes = append(boxes, box{"grid", [3]int{2*c18B + 1, c18B + 1, c18B + 1}, [3]int{bx0*c18B + dx, yz[0], yz[1]}})
			}
		}
	}
	var requests int64
	// verify compares every view of the ROI at one version (GET roi, ptquery, masks) with the block set the spans name
	verify := func(base string, set map[blk]bool, class string, body []byte, rep map[string]interface{}, boxes []box) {
		// GET roi
		g := vsrv.Get(base + "roi")
		requests++
		var back [][4]int
		if err := json.Unmarshal(g.Body, &back); err != nil && len(set) > 0 {
			c.Violate("roi:get:"+class+":unparsable", fmt.Sprintf("GET roi after POST %s: %s", body, g), rep)
		} else {
			got := map[blk]bool{}
			for _, s := range back {
				for x := s[2]; x <= s[3]; x++ {
					got[blk{x, s[1], s[0]}] = true
				}
			}
			c.Eval(int64(len(set) + 1))
			if d := blkDiff(set, got); d != "" {
				c.Violate("roi:get:"+class+":block-set", fmt.Sprintf("POST roi %s then GET roi returns %s: %s", body, trunc(string(g.Body), 200), d), rep)
			}
		}
		// ptquery
		q := vsrv.Post(base+"ptquery", ptsJSON)
		requests++
		var ans []bool
		if err := json.Unmarshal(q.Body, &ans); err != nil || len(ans) != len(pts) {
			c.Violate("roi:ptquery:"+class+":bad-answer", fmt.Sprintf("ptquery after POST roi %s: %s", body, q), rep)
		} else {
			for i, p := range pts {
				want := set[blk{fdiv(p[0], c18B), fdiv(p[1], c18B), fdiv(p[2], c18B)}]
				c.Eval(1)
				if ans[i] != want {
					pc := "nonneg-point"
					if p[0] < 0 || p[1] < 0 || p[2] < 0 {
						pc = "negative-point"
					}
					c.Violate("roi:ptquery:"+class+":"+pc, fmt.Sprintf("spans %s: ptquery(%v) = %v, the spans say %v", body, p, ans[i], want), rep)
					break
				}
			}
			c.Outcome(fmt.Sprintf("roi-pt-%d", len(set)))
		}
		// mask
		for _, bx := range boxes {
			m := vsrv.Get(fmt.Sprintf("%smask/0_1_2/%d_%d_%d/%d_%d_%d", base, bx.size[0], bx.size[1], bx.size[2], bx.of[0], bx.of[1], bx.of[2]))
			requests++
			nvox := bx.size[0] * bx.size[1] * bx.size[2]
			if !m.OK() || len(m.Body) != nvox {
				c.Violate("roi:mask:"+class+":"+bx.name+":bad-answer", fmt.Sprintf("spans %s: mask %v+%v: code %d, %d bytes (want %d): %s", body, bx.of, bx.size, m.Code, len(m.Body), nvox, trunc(string(m.Body), 120)), rep)
				continue
			}
			i := 0
		scan:
			for z := 0; z < bx.size[2]; z++ {
				for y := 0; y < bx.size[1]; y++ {
					for x := 0; x < bx.size[0]; x++ {
						vx, vy, vz := x+bx.of[0], y+bx.of[1], z+bx.of[2]
						want := set[blk{fdiv(vx, c18B), fdiv(vy, c18B), fdiv(vz, c18B)}]
						if (m.Body[i] != 0) != want {
							c.Violate("roi:mask:"+class+":"+bx.name, fmt.Sprintf("spans %s: mask %v+%v voxel (%d,%d,%d) = %d, the spans say %v", body, bx.of, bx.size, vx, vy, vz, m.Body[i], want), rep)
							break scan
						}
						i++
					}
				}
			}
			c.Eval(int64(nvox))
		}
	}
	n := len(c18SpanMenu)
	for mask := 0; mask < 1<<n; mask++ {
		for order := 0; order < 2; order++ {
			var spans [][4]int
			for i := 0; i < n; i++ {
				if mask>>i&1 == 1 {
					spans = append(spans, c18SpanMenu[i])
				}
			}
			if order == 1 {
				if len(spans) < 2 {
					continue
				}
				for i, j := 0, len(spans)-1; i < j; i, j = i+1, j-1 {
					spans[i], spans[j] = spans[j], spans[i]
				}
			}
			set := map[blk]bool{}
			neg, overlap := false, false
			for _, s := range spans {
				for x := s[2]; x <= s[3]; x++ {
					if set[blk{x, s[1], s[0]}] {
						overlap = true
					}
					set[blk{x, s[1], s[0]}] = true
				}
				if s[0] < 0 || s[1] < 0 || s[2] < 0 {
					neg = true
				}
			}
			class := "nonneg-spans"
			if neg {
				class = "negative-spans"
			}
			if overlap {
				class += ":overlapping"
			}
			body, _ := json.Marshal(spans)
			if len(spans) == 0 {
				body = []byte("[]")
			}
			rep := map[string]interface{}{"spans_zyx0x1": spans, "block_size": c18B}
			r := vsrv.Post(base+"roi", body)
			requests++
			if !r.OK() {
				c.Violate("roi:post:"+class+":refused", fmt.Sprintf("POST roi %s refused: %s", body, r), rep)
				continue
			}
			c.Nontrivial(fmt.Sprintf("roi|%d|%d", mask, order))
			verify(base, set, class, body, rep, boxes)
		}
	}
	// Two versions: span set A at the root, then - in a child of the committed root - span set B (other Z slabs, the same
	// slabs, nothing) or DELETE roi. Each version must keep answering from its own spans (the instance keeps one pair of
	// Z extents for all versions, which every write resets).
	zmenu := [][4]int{{-1, 0, 0, 1}, {0, 0, -1, 0}, {1, 1, 0, 2}, {2, 0, 1, 1}}
	setOf := func(m int) (spans [][4]int, set map[blk]bool) {
		set = map[blk]bool{}
		for i, sp := range zmenu {
			if m>>i&1 == 1 {
				spans = append(spans, sp)
				for x := sp[2]; x <= sp[3]; x++ {
					set[blk{x, sp[1], sp[0]}] = true
				}
			}
		}
		return
	}
	var pairs int64
	for ma := 1; ma < 1<<len(zmenu); ma++ {
		for mb := 0; mb <= 1<<len(zmenu); mb++ { // mb == 16: DELETE roi in the child
			r2, err := vsrv.NewRepo()
			if err != nil {
				c.Violate("harness:roi:repo", err.Error(), nil)
				return
			}
			if err := vsrv.NewInstance(r2, "roi", "r", map[string]string{"BlockSize": fmt.Sprintf("%d,%d,%d", c18B, c18B, c18B)}); err != nil {
				c.Violate("harness:roi:instance", err.Error(), nil)
				return
			}
			sa, setA := setOf(ma)
			bodyA, _ := json.Marshal(sa)
			if r := vsrv.Post("node/"+r2+"/r/roi", bodyA); !r.OK() {
				c.Violate("roi:post:two-versions:refused", fmt.Sprintf("POST roi %s refused: %s", bodyA, r), nil)
				continue
			}
			vsrv.Commit(r2)
			child, err := vsrv.NewVersion(r2)
			if err != nil {
				c.Violate("harness:roi:newversion", err.Error(), nil)
				return
			}
			var setB map[blk]bool
			var bodyB []byte
			if mb == 1<<len(zmenu) {
				setB, bodyB = map[blk]bool{}, []byte("DELETE")
				if r := vsrv.Delete("node/" + child + "/r/roi"); !r.OK() {
					c.Violate("roi:delete:two-versions:refused", fmt.Sprintf("DELETE roi in the child refused: %s", r), nil)
					continue
				}
			} else {
				var sb [][4]int
				sb, setB = setOf(mb)
				bodyB, _ = json.Marshal(sb)
				if len(sb) == 0 {
					bodyB = []byte("[]")
				}
				if r := vsrv.Post("node/"+child+"/r/roi", bodyB); !r.OK() {
					c.Violate("roi:post:two-versions:refused", fmt.Sprintf("POST roi %s in the child refused: %s", bodyB, r), nil)
					continue
				}
			}
			requests += 2
			pairs++
			rep := map[string]interface{}{"root_spans_zyx0x1": sa, "then_in_child": string(bodyB), "block_size": c18B}
			c.Nontrivial(fmt.Sprintf("roi2|%d|%d", ma, mb))
			verify("node/"+r2+"/r/", setA, "two-versions:parent-after-child-write", []byte(fmt.Sprintf("%s (root; child then wrote %s)", bodyA, bodyB)), rep, boxes[:3])
			verify("node/"+child+"/r/", setB, "two-versions:child", []byte(fmt.Sprintf("%s (child of a root holding %s)", bodyB, bodyA)), rep, boxes[:3])
		}
	}
	// Large span lists: the instance stores spans in write batches of 10 000; counts around that size and its multiples
	// (one span per block row, rows spread over negative and positive y / z) must read back complete.
	for _, n := range []int{9999, 10000, 10001, 20000, 20001} {
		r3, err := vsrv.NewRepo()
		if err != nil {
			c.Violate("harness:roi:repo", err.Error(), nil)
			return
		}
		if err := vsrv.NewInstance(r3, "roi", "r", map[string]string{"BlockSize": fmt.Sprintf("%d,%d,%d", c18B, c18B, c18B)}); err != nil {
			c.Violate("harness:roi:instance", err.Error(), nil)
			return
		}
		spans := make([][4]int, 0, n)
		for i := 0; i < n; i++ {
			z, y := i/200-50, i%200-100
			spans = append(spans, [4]int{z, y, i % 7, i%7 + i%3})
		}
		body, _ := json.Marshal(spans)
		rep := map[string]interface{}{"span_count": n, "layout": "span i = [i/200-50, i%200-100, i%7, i%7+i%3]"}
		if r := vsrv.Post("node/"+r3+"/r/roi", body); !r.OK() {
			c.Violate("roi:post:large:refused", fmt.Sprintf("POST roi with %d spans refused: %s", n, trunc(r.String(), 200)), rep)
			continue
		}
		requests++
		g := vsrv.Get("node/" + r3 + "/r/roi")
		var back [][4]int
		json.Unmarshal(g.Body, &back)
		c.Eval(int64(n))
		c.Nontrivial(fmt.Sprintf("roi-large|%d", n))
		if len(back) != n {
			c.Violate("roi:get:large:span-count", fmt.Sprintf("POST roi with %d spans (accepted), GET roi returns %d spans", n, len(back)), rep)
			continue
		}
		for i := range back {
			if back[i] != spans[i] {
				c.Violate("roi:get:large:span-differs", fmt.Sprintf("POST roi with %d spans: span #%d reads back as %v, posted %v", n, i, back[i], spans[i]), rep)
				break
			}
		}
		// membership of the first and last rows
		var qp [][3]int
		for _, i := range []int{0, 1, n / 2, n - 2, n - 1} {
			sp := spans[i]
			qp = append(qp, [3]int{sp[2] * c18B, sp[1] * c18B, sp[0] * c18B}, [3]int{(sp[3]+1)*c18B - 1, sp[1]*c18B + c18B - 1, sp[0]*c18B + c18B - 1})
		}
		qb, _ := json.Marshal(qp)
		q := vsrv.Post("node/"+r3+"/r/ptquery", qb)
		var ans []bool
		json.Unmarshal(q.Body, &ans)
		for i := range qp {
			if i >= len(ans) || !ans[i] {
				c.Violate("roi:ptquery:large", fmt.Sprintf("POST roi with %d spans: ptquery(%v) inside a posted span answers false (%s)", n, qp[i], trunc(q.String(), 120)), rep)
				break
			}
		}
		c.Outcome(fmt.Sprintf("roi-large-%d", n))
	}
	c.Set("roi_two_version_pairs", pairs)
	c.Set("roi_requests", requests)
	c.Set("roi_span_sets", 2*(1<<n)-n-1)
}

func blkDiff(want, got map[[3]int]bool) string {
	var miss, extra []string
	for b := range want {
		if !got[b] {
			miss = append(miss, fmt.Sprint(b))
		}
	}
	for b := range got {
		if !want[b] {
			extra = append(extra, fmt.Sprint(b))
		}
	}
	if len(miss)+len(extra) == 0 {
		return ""
	}
	sort.Strings(miss)
	sort.Strings(extra)
	return fmt.Sprintf("missing blocks (x,y,z) %v, extra %v", miss, extra)
}
