package checks

import "verif/vlib"

// c18ROI is filled in once the in-process server driver exists.
func c18ROI(c *vlib.Ctx) {}
