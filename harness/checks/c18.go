package checks

// C18 Spatial keys, packed block indices and run-length volumes preserve geometry.
// Bounded-exhaustive enumeration (DESIGN.md section 6, C18). The ROI part lives in c18roi.go.

import (
	"bytes"
	"encoding/binary"
	"fmt"
	"math"
	"sort"
	"sync/atomic"

	"github.com/janelia-flyem/dvid/datatype/common/labels"
	"github.com/janelia-flyem/dvid/datatype/roi"
	"github.com/janelia-flyem/dvid/dvid"

	"verif/vlib"
)

func init() { vlib.Register("C18", "exploration", runC18) }

func runC18(c *vlib.Ctx) {
	c18Keys(c)
	c18Packed(c)
	c18RLE(c)
	c18ROI(c)
	c18BoundsInside(c)
	c.Set("rule", "key codec: per-coordinate sweep (quick: |v|<2^22 plus 2^12-neighbourhoods of every power of two and of the int32 limits; thorough: all 2^32) with round trip and strict byte monotonicity, plus all ordered pairs of an 11^3 boundary cube for (z,y,x) significance; packed index: every value in (-2^20,2^20) per field x 25 boundary combinations; RLE: every ordered set of <=3 non-overlapping runs in a 12x3-row universe through Normalize/Partition/Split/FitToBounds/(un)marshal; ROI: span sets through the HTTP API. Non-trivial = distinct run set with >=2 runs, or distinct coordinate with a negative or boundary component")
}

func c18KeyVals(thorough bool, visit func(lo, hi int64)) {
	if thorough {
		// all int32 values in 256 chunks
		step := int64(1) << 24
		for lo := int64(math.MinInt32); lo <= math.MaxInt32; lo += step {
			visit(lo, lo+step-1)
		}
		return
	}
	visit(-(1 << 22), (1<<22)-1)
	visit(math.MinInt32, math.MinInt32+4096)
	visit(math.MaxInt32-4096, math.MaxInt32)
	for k := uint(23); k <= 30; k++ {
		p := int64(1) << k
		visit(p-4096, p+4096)
		visit(-p-4096, -p+4096)
	}
}

func c18Keys(c *vlib.Ctx) {
	type rng struct{ lo, hi int64 }
	var ranges []rng
	c18KeyVals(c.Thorough(), func(lo, hi int64) { ranges = append(ranges, rng{lo, hi}) })
	others := [][2]int32{{0, 0}, {-1, 7}, {math.MinInt32, math.MaxInt32}}
	type job struct {
		pos int
		r   rng
	}
	var jobs []job
	for pos := 0; pos < 3; pos++ {
		for _, r := range ranges {
			jobs = append(jobs, job{pos, r})
		}
	}
	vlib.Par(len(jobs), 16, func(i int) {
		j := jobs[i]
		var n int64
		for oi, o := range others {
			if oi > 0 && !(j.r.lo == -(1<<22) || c.Thorough() && j.r.lo%(1<<28) == 0) {
				// the other two coordinates cannot influence this one (bytes are written independently);
				// the alternative fillers are exercised on a subset of ranges only.
				continue
			}
			var prev []byte
			for v := j.r.lo; v <= j.r.hi; v++ {
				var p dvid.Point3d
				switch j.pos {
				case 0:
					p = dvid.Point3d{int32(v), o[0], o[1]}
				case 1:
					p = dvid.Point3d{o[0], int32(v), o[1]}
				case 2:
					p = dvid.Point3d{o[0], o[1], int32(v)}
				}
				b := p.ToZYXBytes()
				var q dvid.Point3d
				if err := q.FromZYXBytes(b); err != nil || q != p {
					c.Violate(fmt.Sprintf("key:roundtrip:pos%d", j.pos), fmt.Sprintf("FromZYXBytes(ToZYXBytes(%v)) = %v, err %v", p, q, err), map[string]interface{}{"point": p})
					return
				}
				if prev != nil && bytes.Compare(prev, b) >= 0 {
					c.Violate(fmt.Sprintf("key:monotone:pos%d", j.pos), fmt.Sprintf("bytes(%d) >= bytes(%d) in coordinate %d", v-1, v, j.pos), map[string]interface{}{"point": p})
					return
				}
				prev = b
				n++
			}
		}
		c.Eval(n)
	})
	c.Set("key_codec_values_per_coordinate", func() int64 {
		var t int64
		for _, r := range ranges {
			t += r.hi - r.lo + 1
		}
		return t
	}())

	// IndexZYX / IZYXString forms and the (z,y,x) significance order on the boundary cube.
	bv := []int32{math.MinInt32, math.MinInt32 + 1, -(1 << 20), -1, 0, 1, (1 << 20) - 1, 1 << 20, math.MaxInt32 - 1, math.MaxInt32, 255}
	var pts []dvid.Point3d
	for _, z := range bv {
		for _, y := range bv {
			for _, x := range bv {
				pts = append(pts, dvid.Point3d{x, y, z})
			}
		}
	}
	keys := make([][]byte, len(pts))
	for i, p := range pts {
		idx := dvid.IndexZYX{p[0], p[1], p[2]}
		b := idx.Bytes()
		keys[i] = b
		var back dvid.IndexZYX
		if err := back.IndexFromBytes(b); err != nil || back != idx {
			c.Violate("key:indexzyx-roundtrip", fmt.Sprintf("IndexFromBytes(Bytes(%v)) = %v err %v", idx, back, err), map[string]interface{}{"point": p})
		}
		s := idx.ToIZYXString()
		if string(s) != string(b) {
			c.Violate("key:izyxstring-differs", fmt.Sprintf("ToIZYXString(%v) differs from Bytes()", idx), map[string]interface{}{"point": p})
		}
		x, y, z, err := s.Unpack()
		i2, err2 := s.IndexZYX()
		cp, err3 := s.ToChunkPoint3d()
		if err != nil || err2 != nil || err3 != nil || x != p[0] || y != p[1] || z != p[2] || i2 != idx || cp != (dvid.ChunkPoint3d{p[0], p[1], p[2]}) {
			c.Violate("key:izyxstring-roundtrip", fmt.Sprintf("IZYXString decode of %v gave %d,%d,%d / %v / %v", p, x, y, z, i2, cp), map[string]interface{}{"point": p})
		}
		if p[0] < 0 || p[1] < 0 || p[2] < 0 {
			c.Nontrivial(fmt.Sprintf("key:%v", p))
		}
		c.Eval(4)
	}
	cmpPt := func(a, b dvid.Point3d) int {
		for _, d := range []int{2, 1, 0} {
			if a[d] < b[d] {
				return -1
			}
			if a[d] > b[d] {
				return 1
			}
		}
		return 0
	}
	vlib.Par(len(pts), 16, func(i int) {
		for j := range pts {
			if got, want := bytes.Compare(keys[i], keys[j]), cmpPt(pts[i], pts[j]); got != want {
				c.Violate("key:order", fmt.Sprintf("byte order of keys(%v,%v)=%d but (z,y,x) order=%d", pts[i], pts[j], got, want), map[string]interface{}{"a": pts[i], "b": pts[j]})
				return
			}
		}
		c.Eval(int64(len(pts)))
	})
	c.Outcome("key-order-agrees")
	c.Sample(map[string]interface{}{"key": "Point3d{-1,7,MinInt32}.ToZYXBytes() round trip and < bytes of x+1; all 1331^2 boundary pairs ordered by (z,y,x)"})
}

func c18Packed(c *vlib.Ctx) {
	const lim = 1 << 20
	bnd := []int32{-(lim - 1), -1, 0, 1, lim - 1}
	vlib.Par(3*16, 16, func(k int) {
		pos, shard := k/16, k%16
		var n int64
		for v := int32(-(lim - 1)) + int32(shard); v < lim; v += 16 {
			for _, a := range bnd {
				for _, b := range bnd {
					var x, y, z int32
					switch pos {
					case 0:
						x, y, z = v, a, b
					case 1:
						x, y, z = a, v, b
					case 2:
						x, y, z = a, b, v
					}
					code := labels.EncodeBlockIndex(x, y, z)
					dx, dy, dz := labels.DecodeBlockIndex(code)
					n++
					if dx != x || dy != y || dz != z {
						c.Violate(fmt.Sprintf("packed:roundtrip:pos%d", pos), fmt.Sprintf("DecodeBlockIndex(EncodeBlockIndex(%d,%d,%d)) = %d,%d,%d", x, y, z, dx, dy, dz), map[string]interface{}{"x": x, "y": y, "z": z})
						return
					}
					if code>>63 != 0 {
						c.Violate("packed:msb", fmt.Sprintf("EncodeBlockIndex(%d,%d,%d) sets the MSB", x, y, z), nil)
						return
					}
				}
			}
			if v%4099 == 0 || v == lim-1 || v == -(lim-1) {
				// cross-check with the string form on a sub-lattice and at the ends
				var x, y, z int32
				switch pos {
				case 0:
					x, y, z = v, -1, 1
				case 1:
					x, y, z = -1, v, 1
				case 2:
					x, y, z = -1, 1, v
				}
				s := labels.BlockIndexToIZYXString(labels.EncodeBlockIndex(x, y, z))
				want := dvid.IndexZYX{x, y, z}
				if s != want.ToIZYXString() {
					c.Violate("packed:izyxstring", fmt.Sprintf("BlockIndexToIZYXString(Encode(%d,%d,%d)) wrong", x, y, z), nil)
					return
				}
				back, err := labels.IZYXStringToBlockIndex(s)
				if err != nil || back != labels.EncodeBlockIndex(x, y, z) {
					c.Violate("packed:izyxstring-back", fmt.Sprintf("IZYXStringToBlockIndex round trip (%d,%d,%d) wrong", x, y, z), nil)
					return
				}
				n += 2
			}
		}
		c.Eval(n)
	})
	// distinct coordinates -> distinct codes on the boundary cube
	cube := []int32{-(lim - 1), -(lim - 2), -2, -1, 0, 1, 2, lim - 2, lim - 1}
	seen := map[uint64][3]int32{}
	for _, z := range cube {
		for _, y := range cube {
			for _, x := range cube {
				code := labels.EncodeBlockIndex(x, y, z)
				if o, dup := seen[code]; dup {
					c.Violate("packed:collision", fmt.Sprintf("EncodeBlockIndex(%d,%d,%d) == EncodeBlockIndex(%v)", x, y, z, o), nil)
				}
				seen[code] = [3]int32{x, y, z}
				c.Nontrivial(fmt.Sprintf("packed:%d,%d,%d", x, y, z))
				c.Eval(1)
			}
		}
	}
	c.Outcome("packed-roundtrip")
	c.Sample(map[string]interface{}{"packed": "EncodeBlockIndex(-1048575,-1,1048575) -> DecodeBlockIndex identical; all 9^3 cube codes distinct"})
}

// ---- RLE algebra ----

type c18run struct{ x, y, z, n int32 }

type voxset map[[3]int32]struct{}

func c18Voxels(rs dvid.RLEs) (voxset, bool) {
	s := voxset{}
	dup := false
	for _, r := range rs {
		p := r.StartPt()
		for i := int32(0); i < r.Length(); i++ {
			k := [3]int32{p[0] + i, p[1], p[2]}
			if _, ok := s[k]; ok {
				dup = true
			}
			s[k] = struct{}{}
		}
	}
	return s, dup
}

func c18SameSet(a, b voxset) bool {
	if len(a) != len(b) {
		return false
	}
	for k := range a {
		if _, ok := b[k]; !ok {
			return false
		}
	}
	return true
}

func c18RLE(c *vlib.Ctx) {
	const xlo, xhi = -5, 6
	rows := [][2]int32{{-1, 0}, {0, 0}, {0, 1}}
	var runs []c18run
	for _, row := range rows {
		for x := int32(xlo); x <= xhi; x++ {
			for n := int32(1); x+n-1 <= xhi; n++ {
				runs = append(runs, c18run{x, row[0], row[1], n})
			}
		}
	}
	mk := func(r c18run) dvid.RLE { return dvid.NewRLE(dvid.Point3d{r.x, r.y, r.z}, r.n) }
	overlap := func(a, b c18run) bool {
		return a.y == b.y && a.z == b.z && a.x <= b.x+b.n-1 && b.x <= a.x+a.n-1
	}
	// pairwise Excise / Intersects / Within against interval arithmetic
	for _, a := range runs {
		for _, b := range runs {
			c.Eval(1)
			ra, rb := mk(a), mk(b)
			if ra.Intersects(rb) != overlap(a, b) {
				c.Violate("rle:intersects", fmt.Sprintf("Intersects(%v,%v)=%v", a, b, ra.Intersects(rb)), map[string]interface{}{"a": a, "b": b})
			}
			fr := ra.Excise(rb)
			if !overlap(a, b) {
				if fr != nil {
					c.Violate("rle:excise-disjoint", fmt.Sprintf("Excise of disjoint runs %v,%v returned %v", a, b, fr), nil)
				}
				continue
			}
			got, dup := c18Voxels(fr)
			want, _ := c18Voxels(dvid.RLEs{ra})
			sub, _ := c18Voxels(dvid.RLEs{rb})
			for k := range sub {
				delete(want, k)
			}
			if dup || !c18SameSet(got, want) {
				c.Violate("rle:excise", fmt.Sprintf("Excise(%v,%v) = %v", a, b, fr), map[string]interface{}{"a": a, "b": b})
			}
		}
		ra := mk(a)
		for x := int32(xlo - 1); x <= xhi+1; x++ {
			for _, row := range rows {
				in := row[0] == a.y && row[1] == a.z && x >= a.x && x < a.x+a.n
				if ra.Within(dvid.Point3d{x, row[0], row[1]}) != in {
					c.Violate("rle:within", fmt.Sprintf("Within(%v, x=%d row=%v) wrong", a, x, row), nil)
				}
				c.Eval(1)
			}
		}
	}

	blockSizes := []dvid.Point3d{{2, 2, 2}, {4, 4, 4}, {8, 8, 8}, {4, 2, 8}, {3, 5, 2}}
	bvals := []*int32{nil, i32p(-2), i32p(0), i32p(3)}
	type box struct{ b [6]*int32 }
	var allBoxes, someBoxes, fewBoxes []box
	for _, a := range bvals {
		for _, b := range bvals {
			for _, cc := range bvals {
				for _, d := range bvals {
					for _, e := range bvals {
						for _, f := range bvals {
							allBoxes = append(allBoxes, box{[6]*int32{a, b, cc, d, e, f}})
						}
					}
				}
			}
		}
	}
	for i := 0; i < len(allBoxes); i += 257 {
		fewBoxes = append(fewBoxes, allBoxes[i])
	}
	for i := 0; i < len(allBoxes); i += 13 {
		someBoxes = append(someBoxes, allBoxes[i])
	}
	mkBounds := func(b box) *dvid.OptionalBounds {
		ob := new(dvid.OptionalBounds)
		if b.b[0] != nil {
			ob.SetMinX(*b.b[0])
		}
		if b.b[1] != nil {
			ob.SetMaxX(*b.b[1])
		}
		if b.b[2] != nil {
			ob.SetMinY(*b.b[2])
		}
		if b.b[3] != nil {
			ob.SetMaxY(*b.b[3])
		}
		if b.b[4] != nil {
			ob.SetMinZ(*b.b[4])
		}
		if b.b[5] != nil {
			ob.SetMaxZ(*b.b[5])
		}
		return ob
	}
	inBox := func(k [3]int32, b box) bool {
		for d := 0; d < 3; d++ {
			if lo := b.b[2*d]; lo != nil && k[d] < *lo {
				return false
			}
			if hi := b.b[2*d+1]; hi != nil && k[d] > *hi {
				return false
			}
		}
		return true
	}

	checkSet := func(rs []c18run) {
		rles := make(dvid.RLEs, len(rs))
		for i, r := range rs {
			rles[i] = mk(r)
		}
		orig := append(dvid.RLEs{}, rles...)
		want, _ := c18Voxels(rles)
		rep := map[string]interface{}{"runs": rs}
		sig := fmt.Sprint(rs)
		if len(rs) >= 2 {
			c.Nontrivial(sig)
		}
		// Normalize
		c.Eval(1)
		norm := rles.Normalize()
		got, dup := c18Voxels(norm)
		if dup || !c18SameSet(got, want) {
			c.Violate("rle:normalize:set", fmt.Sprintf("Normalize(%v) = %v changes the voxel set", rs, norm), rep)
		}
		for i := 1; i < len(norm); i++ {
			a, b := norm[i-1], norm[i]
			if !a.Less(b) {
				c.Violate("rle:normalize:sorted", fmt.Sprintf("Normalize(%v) = %v not sorted", rs, norm), rep)
			}
			pa, pb := a.StartPt(), b.StartPt()
			if pa[1] == pb[1] && pa[2] == pb[2] && pa[0]+a.Length() == pb[0] {
				c.Violate("rle:normalize:adjacent", fmt.Sprintf("Normalize(%v) = %v keeps adjacent runs", rs, norm), rep)
			}
		}
		if !c18EqualRLEs(rles, orig) {
			c.Violate("rle:normalize:mutates-input", fmt.Sprintf("Normalize mutated its receiver %v", rs), rep)
		}
		c.Outcome(fmt.Sprintf("norm:%d->%d", len(rs), len(norm)))
		// Partition
		for _, bs := range blockSizes {
			c.Eval(1)
			br, err := rles.Partition(bs)
			if err != nil {
				c.Violate("rle:partition:error", fmt.Sprintf("Partition(%v,%v) error %v", rs, bs, err), rep)
				continue
			}
			all := voxset{}
			bad := false
			for izyx, part := range br {
				bc, err := izyx.ToChunkPoint3d()
				if err != nil {
					bad = true
					continue
				}
				pv, d := c18Voxels(part)
				if d {
					bad = true
				}
				for k := range pv {
					for dd := 0; dd < 3; dd++ {
						if floorDiv(k[dd], bs[dd]) != bc[dd] {
							bad = true
						}
					}
					if _, ok := all[k]; ok {
						bad = true
					}
					all[k] = struct{}{}
				}
			}
			if bad || !c18SameSet(all, want) {
				c.Violate(fmt.Sprintf("rle:partition:%v", bs), fmt.Sprintf("Partition(%v, block %v) = %v: pieces outside their block, duplicated, or union differs", rs, bs, br), rep)
			}
			c.Outcome(fmt.Sprintf("part:%d", len(br)))
		}
		// binary round trips
		c.Eval(3)
		mb, err := rles.MarshalBinary()
		var back dvid.RLEs
		if err == nil {
			err = back.UnmarshalBinary(mb)
		}
		if err != nil || !c18EqualRLEs(back, rles) {
			c.Violate("rle:marshal", fmt.Sprintf("MarshalBinary/UnmarshalBinary(%v) = %v err %v", rs, back, err), rep)
		}
		var wbuf bytes.Buffer
		for _, r := range rles {
			r.WriteTo(&wbuf)
		}
		if !bytes.Equal(wbuf.Bytes(), mb) {
			c.Violate("rle:writeto", fmt.Sprintf("RLE.WriteTo bytes differ from MarshalBinary for %v", rs), rep)
		}
		hdr := make([]byte, 12)
		hdr[0] = dvid.EncodingBinary
		hdr[1] = 3
		binary.LittleEndian.PutUint32(hdr[8:], uint32(len(rles)))
		rr, err := dvid.ReadRLEs(bytes.NewReader(append(hdr, mb...)))
		if err != nil || !c18EqualRLEs(rr, rles) {
			c.Violate("rle:readrles", fmt.Sprintf("ReadRLEs(header+MarshalBinary(%v)) = %v err %v", rs, rr, err), rep)
		}
		// FitToBounds
		c.Eval(1)
		if fit := rles.FitToBounds(nil); !c18EqualRLEs(fit, rles) {
			c.Violate("rle:fittobounds:nil", fmt.Sprintf("FitToBounds(nil) of %v = %v, want an identical copy", rs, fit), rep)
		}
		boxes := fewBoxes
		if len(rs) <= 1 || len(rs) == 2 && c.Thorough() {
			boxes = allBoxes
		} else if len(rs) == 2 {
			boxes = someBoxes
		}
		for _, b := range boxes {
			c.Eval(1)
			fit := rles.FitToBounds(mkBounds(b))
			got, dup := c18Voxels(fit)
			exp := voxset{}
			for k := range want {
				if inBox(k, b) {
					exp[k] = struct{}{}
				}
			}
			if dup || !c18SameSet(got, exp) {
				c.Violate("rle:fittobounds", fmt.Sprintf("FitToBounds(%v, %s) = %v", rs, mkBounds(b), fit), rep)
				break
			}
		}
		if !c18EqualRLEs(rles, orig) {
			c.Violate("rle:fittobounds:mutates-input", fmt.Sprintf("FitToBounds mutated its receiver %v", rs), rep)
		}
		// Split by sub-selections (<= 2 sub-runs contained in the set)
		if len(rs) <= 2 || c.Thorough() {
			var subs []c18run
			for _, r := range norm {
				p := r.StartPt()
				for x := p[0]; x < p[0]+r.Length(); x++ {
					for n := int32(1); x+n <= p[0]+r.Length(); n++ {
						subs = append(subs, c18run{x, p[1], p[2], n})
					}
				}
			}
			try := func(sel []c18run) {
				c.Eval(1)
				sp := make(dvid.RLEs, len(sel))
				for i, s := range sel {
					sp[i] = mk(s)
				}
				rem, err := rles.Split(sp)
				if err != nil {
					c.Violate("rle:split:error", fmt.Sprintf("Split(%v, subset %v) error: %v", rs, sel, err), map[string]interface{}{"runs": rs, "split": sel})
					return
				}
				got, dup := c18Voxels(rem)
				exp := voxset{}
				for k := range want {
					exp[k] = struct{}{}
				}
				sv, _ := c18Voxels(sp)
				for k := range sv {
					delete(exp, k)
				}
				if dup || !c18SameSet(got, exp) {
					c.Violate("rle:split:set", fmt.Sprintf("Split(%v, subset %v) = %v", rs, sel, rem), map[string]interface{}{"runs": rs, "split": sel})
				}
			}
			try(nil)
			for i, a := range subs {
				try([]c18run{a})
				if len(rs) <= 2 {
					for _, b := range subs[i+1:] {
						if !overlap(a, b) {
							try([]c18run{a, b})
							try([]c18run{b, a})
						}
					}
				}
			}
		}
	}

	// enumerate ordered sets of <= 3 pairwise non-overlapping runs
	checkSet(nil)
	nr := len(runs)
	vlib.Par(nr, 16, func(i int) {
		a := runs[i]
		checkSet([]c18run{a})
		for j := 0; j < nr; j++ {
			b := runs[j]
			if overlap(a, b) {
				continue
			}
			checkSet([]c18run{a, b})
			if !c.Thorough() && (i%6 != 0) {
				// quick: triples for one third of the first runs; thorough: all
				continue
			}
			for k := 0; k < nr; k++ {
				cc := runs[k]
				if overlap(a, cc) || overlap(b, cc) {
					continue
				}
				if !c.Thorough() && k%4 != 1 {
					continue
				}
				checkSet([]c18run{a, b, cc})
			}
		}
	})
	c.Sample(map[string]interface{}{"rle_set": []c18run{{2, 0, 0, 3}, {-5, 0, 0, 7}, {5, 0, 0, 2}}, "ops": "Normalize, Partition x5 block sizes, Split by every sub-run pair, FitToBounds x 4096 boxes, marshal round trips"})
	if !c.Thorough() {
		c.Set("rle_triples", "quick: triples with first run index = 0 mod 6 and third run index = 1 mod 4, pairs x every 13th bounds box; singles and pairs of runs complete; thorough: everything")
	}
}

func c18EqualRLEs(a, b dvid.RLEs) bool {
	if len(a) != len(b) {
		return false
	}
	for i := range a {
		if a[i] != b[i] {
			return false
		}
	}
	return true
}

func i32p(v int32) *int32 { return &v }

func floorDiv(a, b int32) int32 {
	q := a / b
	if a%b != 0 && (a < 0) != (b < 0) {
		q--
	}
	return q
}

var _ = sort.Ints

// c18BoundsInside: roi.VoxelBoundsInside (does a voxel box touch the ROI?) over a complete small universe: every sorted
// set of <= 3 spans in 3 z-layers x 3 rows x 6 x-spans (block size 4, shifted to negative coordinates as well) x every
// box whose corners fall on any voxel position of a 3-point menu per block. Reference: some block of some span lies in
// the box's block range.
func c18BoundsInside(c *vlib.Ctx) {
	bs := dvid.Point3d{4, 4, 4}
	var universe []dvid.Span
	for z := int32(0); z < 3; z++ {
		for y := int32(0); y < 3; y++ {
			for x0 := int32(0); x0 < 3; x0++ {
				for x1 := x0; x1 < 3; x1++ {
					universe = append(universe, dvid.Span{z, y, x0, x1})
				}
			}
		}
	}
	// boxes: block range [lo, hi] per axis over {0,1,2}, voxel corners at the first / last voxel of those blocks, plus one
	// unaligned variant (min at the last voxel of block lo, max at the first voxel of block hi)
	type box struct{ lo, hi [3]int32 }
	var boxes []box
	for lz := int32(0); lz < 3; lz++ {
		for hz := lz; hz < 3; hz++ {
			for ly := int32(0); ly < 3; ly++ {
				for hy := ly; hy < 3; hy++ {
					for lx := int32(0); lx < 3; lx++ {
						for hx := lx; hx < 3; hx++ {
							boxes = append(boxes, box{[3]int32{lx, ly, lz}, [3]int32{hx, hy, hz}})
						}
					}
				}
			}
		}
	}
	maxSpans := 2
	if c.Thorough() {
		maxSpans = 3
	}
	var sets [][]int
	var gen func(start int, cur []int)
	gen = func(start int, cur []int) {
		if len(cur) > 0 {
			sets = append(sets, append([]int{}, cur...))
		}
		if len(cur) == maxSpans {
			return
		}
		for i := start; i < len(universe); i++ {
			gen(i+1, append(cur, i))
		}
	}
	gen(0, nil)
	var evals int64
	vlib.Par(len(sets), 16, func(si int) {
		var n int64
		for _, shift := range []int32{0, -2} { // -2: the universe straddles zero in every axis
			spans := make([]dvid.Span, len(sets[si]))
			for k, ui := range sets[si] {
				u := universe[ui]
				spans[k] = dvid.Span{u[0] + shift, u[1] + shift, u[2] + shift, u[3] + shift}
			}
			for _, b := range boxes {
				for _, unaligned := range []bool{false, true} {
					var e dvid.Extents3d
					for d := 0; d < 3; d++ {
						lo, hi := (b.lo[d]+shift)*4, (b.hi[d]+shift)*4+3
						if unaligned {
							lo, hi = lo+3, hi-3
							if hi < lo {
								hi = lo
							}
						}
						e.MinPoint[d], e.MaxPoint[d] = lo, hi
					}
					want := false
					for _, sp := range spans {
						if sp[0] < b.lo[2]+shift || sp[0] > b.hi[2]+shift || sp[1] < b.lo[1]+shift || sp[1] > b.hi[1]+shift {
							continue
						}
						if sp[3] >= b.lo[0]+shift && sp[2] <= b.hi[0]+shift {
							want = true
						}
					}
					n++
					got, err := roi.VoxelBoundsInside(e, bs, spans)
					if err != nil || got != want {
						layers := "one-z-layer"
						if b.lo[2] != b.hi[2] {
							layers = "several-z-layers"
						}
						c.Violate("roi:voxelboundsinside:"+layers, fmt.Sprintf("VoxelBoundsInside(box %v..%v, block size 4, spans %v) = %v (err %v), membership says %v", e.MinPoint, e.MaxPoint, spans, got, err, want), map[string]interface{}{"spans": spans, "min": e.MinPoint, "max": e.MaxPoint})
					}
				}
			}
		}
		atomic.AddInt64(&evals, n)
	})
	c.Eval(evals)
	c.Set("voxelboundsinside_span_sets", len(sets))
	c.Set("voxelboundsinside_evaluations", evals)
}
