package checks

// C10 Operations on compressed label blocks equal the voxel-wise reference.
//
// Bounded-exhaustive enumeration on the real code (DESIGN.md section 6, C10). A menu of compressed blocks (every order of
// the label table for small tables) is closed under the real table-level edits (MergeLabels, ReplaceLabel, ReplaceLabels)
// to depth 1 (quick) or 2 (thorough) - which is what produces duplicate and unreferenced label-table slots - and on every
// block of the closure every operation is applied over complete small parameter sets and compared, voxel for voxel and
// count for count, with the same operation on the []uint64 array:
//
//	MergeLabels, ReplaceLabel (+ replaced count), ReplaceLabels (+ replaced flag),
//	Split / splitSlow / splitFast (+ kept and split counts), SplitSupervoxel (+ counts), SplitSupervoxels,
//	SplitStats, DoSplitWithStats (+ per-supervoxel counts),
//	Downres / DownresSlow / DownresFast / DownresLabels over all 3^8 octant patterns {nil, solid, mixed} x 4 label fillings and
//	over every 2x2x2 cell content of a small alphabet (all tie cases).
//
// Alternative paths (splitFast vs splitSlow, DownresFast vs DownresSlow, DownresLabels vs block-domain) are compared with
// the same reference. The unexported paths are reached through an overlay-added wrapper file
// (overlay/datatype__common__labels_export_c10.go.txt); DownresFast prints to stdout, so it runs in a worker process.

import (
	"bytes"
	"encoding/json"
	"fmt"
	"os"
	"sort"
	"strings"
	"sync"
	"sync/atomic"
	"time"

	"github.com/janelia-flyem/dvid/datatype/common/labels"
	"github.com/janelia-flyem/dvid/dvid"

	"verif/vlib"
)

func init() {
	vlib.Register("C10", "model_checking", runC10)
	vlib.Workers["c10fast"] = c10FastWorker
}

const (
	c10A = uint64(5)
	c10B = uint64(1) << 40
	c10C = ^uint64(0)
	c10D = uint64(77)        // fresh label 1 (never in a base block)
	c10E = uint64(1)<<63 | 3 // fresh / absent label 2
	c10F = uint64(900)       // fresh label 3
	c10G = uint64(12)        // fifth label of the 5-label base
	c10H = uint64(1)<<32 - 1 // remain label
)

type c10State struct {
	blk   *labels.Block
	ser   []byte // snapshot of the serialisation (operations must not modify their receiver)
	arr   []uint64
	size  dvid.Point3d
	hist  []string
	depth int
}

func (s *c10State) suffix() string {
	if s.depth > 0 {
		return ":aliased-input"
	}
	return ""
}

type c10Run struct {
	c      *vlib.Ctx
	seenMu sync.Mutex
	seen   map[uint64]struct{}
	ntMu   sync.Mutex
	nt     map[uint64]struct{}
	ops    sync.Map // op family -> *int64
}

func (x *c10Run) count(fam string, n int64) {
	v, _ := x.ops.LoadOrStore(fam, new(int64))
	atomic.AddInt64(v.(*int64), n)
	x.c.Eval(n)
}

func c10HashBytes(b []byte) uint64 {
	h := uint64(14695981039346656037)
	for _, v := range b {
		h ^= uint64(v)
		h *= 1099511628211
	}
	return h
}

func c10Decode(b *labels.Block) []uint64 {
	out, _ := b.MakeLabelVolume()
	v, _ := c09U64(out)
	return v
}

func (x *c10Run) newState(blk *labels.Block, arr []uint64, size dvid.Point3d, hist []string, depth int) *c10State {
	ser, _ := blk.MarshalBinary()
	return &c10State{blk: blk, ser: append([]byte{}, ser...), arr: arr, size: size, hist: hist, depth: depth}
}

func (x *c10Run) replay(st *c10State, op string, params interface{}) map[string]interface{} {
	return map[string]interface{}{"history_from_base": st.hist, "label_table": fmt.Sprint(st.blk.Labels), "block_size": st.size,
		"operation": op, "params": params, "input_array_runs_x_fastest": c09RunsOf(st.arr)}
}

// same checks the receiver was not modified by an operation.
func (x *c10Run) same(st *c10State, fam, op string, params interface{}) {
	ser, _ := st.blk.MarshalBinary()
	if !bytes.Equal(ser, st.ser) {
		x.c.Violate(fam+":input-modified", fmt.Sprintf("%s modified the block it was called on (history %v)", op, st.hist), x.replay(st, op, params))
		copy(ser, st.ser) // restore so that the enumeration can continue
	}
}

// cmpVoxels compares an operation's result block with the expected array.
func (x *c10Run) cmpVoxels(st *c10State, key, op string, params interface{}, res *labels.Block, want []uint64) bool {
	if res == nil {
		x.c.Violate(key+":nil", fmt.Sprintf("%s returned no block (history %v, table %v)", op, st.hist, st.blk.Labels), x.replay(st, op, params))
		return false
	}
	var got []uint64
	if p := vlib.Safely(func() { got = c10Decode(res) }); p != nil {
		x.c.Violate(key+":undecodable", fmt.Sprintf("result of %s cannot be decoded: panic %v (history %v, table %v)", op, p, st.hist, st.blk.Labels), x.replay(st, op, params))
		return false
	}
	if !res.Size.Equals(st.size) || len(got) != len(want) {
		x.c.Violate(key+":voxels", fmt.Sprintf("%s returned a block of size %v, expected %v", op, res.Size, st.size), x.replay(st, op, params))
		return false
	}
	if d := c09FirstDiff(got, want); d >= 0 {
		x.c.Violate(key+":voxels", fmt.Sprintf("%s on block with table %v (history %v): voxel %v was %d, is %d after the operation, the array operation gives %d",
			op, st.blk.Labels, st.hist, c09Pt(d, st.size), st.arr[d], got[d], want[d]), x.replay(st, op, params))
		return false
	}
	return true
}

func c10Has(arr []uint64, l uint64) bool {
	for _, v := range arr {
		if v == l {
			return true
		}
	}
	return false
}

func c10Count(arr []uint64, l uint64) uint64 {
	var n uint64
	for _, v := range arr {
		if v == l {
			n++
		}
	}
	return n
}

// ---------------------------------------------------------------------------------------------------------------------
// base menu

type c10Base struct {
	name string
	size dvid.Point3d
	arr  []uint64
}

func c10Bases(thorough bool) []c10Base {
	s16 := dvid.Point3d{16, 16, 16}
	mk := func(name string, size dvid.Point3d, f func(sb, q, x, y, z int) uint64) c10Base {
		nx, ny := int(size[0]), int(size[1])
		gx, gy := nx/8, ny/8
		arr := make([]uint64, size.Prod())
		for i := range arr {
			x, y, z := i%nx, (i/nx)%ny, i/(nx*ny)
			sb := (z/8)*gx*gy + (y/8)*gx + x/8
			q := (z%8)*64 + (y%8)*8 + x%8
			arr[i] = f(sb, q, x, y, z)
		}
		return c10Base{name, size, arr}
	}
	pick := func(set []uint64, q int) uint64 { return set[q%len(set)] }
	subsets := [][]uint64{{c10A, c10B}, {c10B, c10C}, {c10A, c10C}, {c10A, c10B, c10C}, {c10A}, {0, c10A}, {0, c10B, c10C}, {0}}
	out := []c10Base{
		mk("solid-a", s16, func(sb, q, x, y, z int) uint64 { return c10A }),
		mk("solid-0", s16, func(sb, q, x, y, z int) uint64 { return 0 }),
		mk("solid-max", s16, func(sb, q, x, y, z int) uint64 { return c10C }),
		mk("a+one-b", s16, func(sb, q, x, y, z int) uint64 {
			if sb == 3 && q == 0 {
				return c10B
			}
			return c10A
		}),
		mk("a+run-b", s16, func(sb, q, x, y, z int) uint64 {
			if y == 3 && z == 9 && x >= 6 && x <= 9 {
				return c10B
			}
			return c10A
		}),
		mk("solid-subblocks", s16, func(sb, q, x, y, z int) uint64 { // every sub-block solid: no packed values at all
			if x < 8 {
				return c10A
			}
			return c10B
		}),
		mk("half-subblocks", s16, func(sb, q, x, y, z int) uint64 {
			if x%8 < 4 {
				return c10A
			}
			return c10B
		}),
		mk("two-subblocks-mixed", s16, func(sb, q, x, y, z int) uint64 {
			if sb >= 6 {
				return pick([]uint64{c10A, c10B}, x+y+z)
			}
			return c10C
		}),
		mk("three-in-one", s16, func(sb, q, x, y, z int) uint64 {
			if sb == 2 {
				return pick([]uint64{c10A, c10B, c10C}, q)
			}
			return c10A
		}),
		mk("subsets", s16, func(sb, q, x, y, z int) uint64 { return pick(subsets[sb], q+q/8+q/64) }),
		mk("subsets-reversed", s16, func(sb, q, x, y, z int) uint64 { return pick(subsets[7-sb], q/3) }),
		mk("zero+blob", s16, func(sb, q, x, y, z int) uint64 {
			if x >= 5 && x <= 10 && y >= 6 && y <= 9 && z >= 7 && z <= 8 {
				return c10A
			}
			return 0
		}),
		mk("five", s16, func(sb, q, x, y, z int) uint64 { return pick([]uint64{c10A, c10B, c10C, 0, c10G}, q+sb) }),
		mk("noncubic", dvid.Point3d{16, 24, 32}, func(sb, q, x, y, z int) uint64 { return pick([]uint64{c10A, c10B, c10C}, x/5+y/7+z/9) }),
		mk("b-first-voxel-of-every-subblock", s16, func(sb, q, x, y, z int) uint64 {
			if q == 0 {
				return c10B
			}
			return c10A
		}),
		mk("0-max-checker", s16, func(sb, q, x, y, z int) uint64 { return pick([]uint64{0, c10C}, x+y+z) }),
		mk("three-slabs", s16, func(sb, q, x, y, z int) uint64 {
			switch {
			case z < 5:
				return c10A
			case z < 11:
				return c10B
			}
			return c10C
		}),
		mk("a-in-last-subblock-only", s16, func(sb, q, x, y, z int) uint64 { // multi-label sub-blocks without a precede the one with a
			if sb == 7 {
				return pick([]uint64{c10A, c10B}, q/5)
			}
			return pick([]uint64{c10B, c10C}, q/3+sb)
		}),
		mk("solid-then-mixed", s16, func(sb, q, x, y, z int) uint64 {
			switch {
			case sb < 3:
				return []uint64{c10A, c10B, 0}[sb]
			case sb == 5:
				return c10C
			}
			return pick([]uint64{c10A, 0, c10B, c10C}, q*7/13+sb)
		}),
		mk("noncubic-24", dvid.Point3d{24, 16, 16}, func(sb, q, x, y, z int) uint64 { return pick([]uint64{c10C, c10A}, (x+1)*(y+2)/9+z) }),
	}
	if thorough {
		out = append(out,
			mk("512-in-one", s16, func(sb, q, x, y, z int) uint64 {
				if sb == 1 {
					if q < 3 {
						return []uint64{c10A, c10B, c10C}[q]
					}
					return 1000 + uint64(q)
				}
				return pick([]uint64{c10A, c10B}, q/7)
			}),
			mk("noncubic-zero", dvid.Point3d{32, 16, 24}, func(sb, q, x, y, z int) uint64 { return pick([]uint64{0, c10B, c10C, c10A}, (x*y+z)/11) }),
		)
	}
	return out
}

// c10TablePerms: the label-table orders enumerated for a table of n labels (all of them up to 3 labels, and for 4 labels
// in the thorough tier; four of the 24 orders for 4 labels in the quick tier; ascending order beyond).
func c10TablePerms(n int, thorough bool) [][]int {
	switch {
	case n <= 1:
		return [][]int{nil}
	case n <= 3 || n == 4 && thorough:
		return c09Perms(n)
	case n == 4:
		return [][]int{{0, 1, 2, 3}, {3, 2, 1, 0}, {1, 2, 3, 0}, {2, 0, 3, 1}}
	}
	return [][]int{nil}
}

// ---------------------------------------------------------------------------------------------------------------------
// table-level edits (also the closure generators)

type c10Edit struct {
	name string
	// apply runs the real operation; want is the array result. Returns the result block (nil if the op failed and was reported).
	apply func(x *c10Run, st *c10State) (*labels.Block, []uint64)
}

func c10MergeEdit(target uint64, merged []uint64) c10Edit {
	name := fmt.Sprintf("MergeLabels(target=%d, merged=%v)", target, merged)
	return c10Edit{name, func(x *c10Run, st *c10State) (*labels.Block, []uint64) {
		params := map[string]interface{}{"target": fmt.Sprint(target), "merged": fmt.Sprint(merged)}
		cls := "merge:target-absent"
		if c10Has(st.arr, target) {
			cls = "merge:target-present"
		}
		key := cls + st.suffix()
		want := append([]uint64{}, st.arr...)
		for i, v := range want {
			for _, m := range merged {
				if v == m {
					want[i] = target
				}
			}
		}
		var res *labels.Block
		var err error
		p := vlib.Safely(func() {
			res, err = st.blk.MergeLabels(labels.MergeOp{Target: target, Merged: labels.NewSet(merged...)})
		})
		x.count("MergeLabels", 1)
		if p != nil {
			x.c.Violate(key+":panic", fmt.Sprintf("%s panicked on table %v (history %v): %v", name, st.blk.Labels, st.hist, p), x.replay(st, name, params))
			return nil, nil
		}
		if err != nil {
			x.c.Violate(key+":error", fmt.Sprintf("%s failed on table %v (history %v): %v", name, st.blk.Labels, st.hist, err), x.replay(st, name, params))
			return nil, nil
		}
		x.same(st, "merge", name, params)
		if !x.cmpVoxels(st, key, name, params, res, want) {
			return nil, nil
		}
		x.c.Outcome(fmt.Sprintf("%s changed=%v merged-labels=%d table=%d", key, c09FirstDiff(want, st.arr) != -1, len(merged), len(res.Labels)))
		return res, want
	}}
}

// c10CountFlags classifies a (block, label) pair for the replaced-count oracle, per label-table slot holding the label:
// does a multi-label sub-block that lacks the slot precede a multi-label sub-block that references it (skip), and does a
// sub-block reference the slot more than once (dup).
func c10CountFlags(b *labels.Block, label uint64) (skip, dup bool) {
	if len(b.Labels) < 2 {
		return
	}
	for slot, l := range b.Labels {
		if l != label {
			continue
		}
		pos := 0
		lackSeen := false
		for _, n := range b.NumSBLabels {
			refs := 0
			for i := 0; i < int(n); i++ {
				if int(b.SBIndices[pos+i]) == slot {
					refs++
				}
			}
			pos += int(n)
			if n >= 2 {
				if refs == 0 {
					lackSeen = true
				} else if lackSeen {
					skip = true
				}
			}
			if refs >= 2 {
				dup = true
			}
		}
	}
	return
}

func c10ReplaceEdit(from, to uint64) c10Edit {
	name := fmt.Sprintf("ReplaceLabel(%d -> %d)", from, to)
	return c10Edit{name, func(x *c10Run, st *c10State) (*labels.Block, []uint64) {
		params := map[string]interface{}{"target": fmt.Sprint(from), "new": fmt.Sprint(to)}
		key := "replacelabel" + st.suffix()
		want := append([]uint64{}, st.arr...)
		var n uint64
		for i, v := range want {
			if v == from {
				want[i] = to
				n++
			}
		}
		var res *labels.Block
		var size uint64
		var err error
		p := vlib.Safely(func() { res, size, err = st.blk.ReplaceLabel(from, to) })
		x.count("ReplaceLabel", 1)
		if p != nil {
			x.c.Violate(key+":panic", fmt.Sprintf("%s panicked on table %v (history %v): %v", name, st.blk.Labels, st.hist, p), x.replay(st, name, params))
			return nil, nil
		}
		if err != nil {
			x.c.Violate(key+":error", fmt.Sprintf("%s failed on table %v (history %v): %v", name, st.blk.Labels, st.hist, err), x.replay(st, name, params))
			return nil, nil
		}
		x.same(st, "replacelabel", name, params)
		ok := x.cmpVoxels(st, key, name, params, res, want)
		if size != n {
			skip, dup := c10CountFlags(st.blk, from)
			k := "replacelabel:count"
			if skip {
				k += ":after-subblock-without-label"
			}
			if dup {
				k += ":duplicate-subblock-index"
			}
			x.c.Violate(k, fmt.Sprintf("%s on table %v (history %v) reported %d replaced voxels, the array has %d voxels of label %d", name, st.blk.Labels, st.hist, size, n, from), x.replay(st, name, params))
		}
		if !ok {
			return nil, nil
		}
		x.c.Outcome(fmt.Sprintf("%s replaced-some=%v new-already-present=%v", key, n > 0, c10Has(st.arr, to)))
		return res, want
	}}
}

func c10MapStr(m map[uint64]uint64) string {
	var ks []uint64
	for k := range m {
		ks = append(ks, k)
	}
	sort.Slice(ks, func(i, j int) bool { return ks[i] < ks[j] })
	var parts []string
	for _, k := range ks {
		parts = append(parts, fmt.Sprintf("%d->%d", k, m[k]))
	}
	return "{" + strings.Join(parts, ", ") + "}"
}

func c10MappingEdit(m map[uint64]uint64) c10Edit {
	name := "ReplaceLabels(" + c10MapStr(m) + ")"
	return c10Edit{name, func(x *c10Run, st *c10State) (*labels.Block, []uint64) {
		params := map[string]interface{}{"mapping": c10MapStr(m)}
		key := "replacelabels" + st.suffix()
		want := append([]uint64{}, st.arr...)
		present := false
		for i, v := range want {
			if t, ok := m[v]; ok {
				want[i] = t
				present = true
			}
		}
		cp := map[uint64]uint64{}
		for k, v := range m {
			cp[k] = v
		}
		var res *labels.Block
		var replaced bool
		var err error
		p := vlib.Safely(func() { res, replaced, err = st.blk.ReplaceLabels(cp) })
		x.count("ReplaceLabels", 1)
		if p != nil {
			x.c.Violate(key+":panic", fmt.Sprintf("%s panicked on table %v (history %v): %v", name, st.blk.Labels, st.hist, p), x.replay(st, name, params))
			return nil, nil
		}
		if err != nil {
			x.c.Violate(key+":error", fmt.Sprintf("%s failed on table %v (history %v): %v", name, st.blk.Labels, st.hist, err), x.replay(st, name, params))
			return nil, nil
		}
		x.same(st, "replacelabels", name, params)
		// the flag must be set when a voxel changed owner; on a block fresh from MakeBlock (every table label is present) it
		// must also be clear when no voxel carries a mapped label. Unreferenced slots of edited blocks may set it.
		if present && !replaced || st.depth == 0 && replaced && !present {
			x.c.Violate("replacelabels:flag", fmt.Sprintf("%s on table %v (history %v) reported replaced=%v, but voxels with a mapped label present=%v", name, st.blk.Labels, st.hist, replaced, present), x.replay(st, name, params))
		}
		if !x.cmpVoxels(st, key, name, params, res, want) {
			return nil, nil
		}
		return res, want
	}}
}

func c10Subsets(set []uint64) [][]uint64 {
	var out [][]uint64
	for m := 1; m < 1<<uint(len(set)); m++ {
		var s []uint64
		for i, v := range set {
			if m&(1<<uint(i)) != 0 {
				s = append(s, v)
			}
		}
		out = append(out, s)
	}
	sort.SliceStable(out, func(i, j int) bool { return len(out[i]) < len(out[j]) })
	return out
}

// c10Edits is the complete table-edit alphabet. closure=true returns the subset whose results are fed back.
func c10Edits() (all []c10Edit, closure []c10Edit) {
	for _, t := range []uint64{c10A, c10B, c10C, c10D} {
		var pool []uint64
		for _, l := range []uint64{c10A, c10B, c10C, c10E} {
			if l != t {
				pool = append(pool, l)
			}
		}
		for _, m := range c10Subsets(pool) {
			e := c10MergeEdit(t, m)
			all = append(all, e)
			closure = append(closure, e)
		}
	}
	for _, f := range []uint64{0, c10A, c10B, c10C, c10E} {
		for _, t := range []uint64{0, c10A, c10B, c10C, c10D} {
			e := c10ReplaceEdit(f, t)
			all = append(all, e)
			if f != t && f != c10E {
				closure = append(closure, e)
			}
		}
	}
	froms := []uint64{0, c10A, c10B, c10C, c10E}
	tos := []uint64{0, c10A, c10B, c10C, c10D}
	for _, f := range froms {
		for _, t := range tos {
			all = append(all, c10MappingEdit(map[uint64]uint64{f: t}))
		}
	}
	for i := 0; i < len(froms); i++ {
		for j := i + 1; j < len(froms); j++ {
			for _, t1 := range tos {
				for _, t2 := range tos {
					e := c10MappingEdit(map[uint64]uint64{froms[i]: t1, froms[j]: t2})
					all = append(all, e)
					// swaps and chains feed the closure
					if froms[i] == c10A && froms[j] == c10B && (t1 == c10B && t2 == c10A || t1 == c10B && t2 == c10C) {
						closure = append(closure, e)
					}
				}
			}
		}
	}
	return
}

// ---------------------------------------------------------------------------------------------------------------------
// run-length sets for the splits (block-local coordinates)

type c10Runs struct {
	name string
	runs [][4]int32 // x, y, z, length
}

func c10RunSets(size dvid.Point3d) []c10Runs {
	nx, ny, nz := size[0], size[1], size[2]
	var whole, slab [][4]int32
	for z := int32(0); z < nz; z++ {
		for y := int32(0); y < ny; y++ {
			whole = append(whole, [4]int32{0, y, z, nx})
			if z == 7 || z == 8 {
				slab = append(slab, [4]int32{2, y, z, nx - 3})
			}
		}
	}
	return []c10Runs{
		{"empty", nil},
		{"whole-block", whole},
		{"first-voxel", [][4]int32{{0, 0, 0, 1}}},
		{"last-voxel", [][4]int32{{nx - 1, ny - 1, nz - 1, 1}}},
		{"centre-voxel", [][4]int32{{nx / 2, ny / 2, nz / 2, 1}}},
		{"across-subblock-face", [][4]int32{{5, 3, 9, 6}}},
		{"subblock-corner-pair", [][4]int32{{7, 7, 7, 2}}},
		{"full-row", [][4]int32{{0, 8, 8, nx}}},
		{"two-disjoint-runs", [][4]int32{{1, 1, 1, 3}, {nx - 5, ny - 1, nz - 1, 4}}},
		{"slab-z7-z8", slab},
		{"first-subblock-rows", [][4]int32{{0, 0, 0, 8}, {0, 1, 0, 8}, {0, 0, 1, 3}, {4, 0, 1, 4}}},
	}
}

func c10RLEs(rs c10Runs, size dvid.Point3d, co dvid.ChunkPoint3d) dvid.RLEs {
	out := dvid.RLEs{}
	for _, r := range rs.runs {
		out = append(out, dvid.NewRLE(dvid.Point3d{r[0] + co[0]*size[0], r[1] + co[1]*size[1], r[2] + co[2]*size[2]}, r[3]))
	}
	return out
}

func c10Mask(rs c10Runs, size dvid.Point3d) []bool {
	m := make([]bool, size.Prod())
	for _, r := range rs.runs {
		base := r[2]*size[1]*size[0] + r[1]*size[0] + r[0]
		for k := int32(0); k < r[3]; k++ {
			m[base+k] = true
		}
	}
	return m
}

// ---------------------------------------------------------------------------------------------------------------------
// voxel-level splits

func (x *c10Run) splits(st *c10State, lvl int) { // lvl 2: complete parameter sets, 1: every run set at one block coordinate and one new label, 0: four run sets
	full := lvl == 2
	c := x.c
	sets := c10RunSets(st.size)
	coords := []dvid.ChunkPoint3d{{0, 0, 0}, {2, 1, 3}}
	targets := []uint64{c10A, c10B, c10C, c10E}
	news := []uint64{c10D, c10B}
	if lvl < 2 {
		coords = coords[1:]
		news = news[:1]
	}
	if lvl == 0 {
		sets = []c10Runs{sets[0], sets[1], sets[5], sets[8]}
	}
	for _, rs := range sets {
		mask := c10Mask(rs, st.size)
		for ci, co := range coords {
			rles := c10RLEs(rs, st.size, co)
			pb := labels.PositionedBlock{Block: *st.blk, BCoord: c09BCoord(co[0], co[1], co[2])}
			for _, target := range targets {
				for _, nl := range news {
					if nl == target {
						continue
					}
					params := map[string]interface{}{"runs": rs.name, "block_coord": co, "target": fmt.Sprint(target), "new_label": fmt.Sprint(nl)}
					want := append([]uint64{}, st.arr...)
					var kept, split uint64
					for i, v := range want {
						if v == target {
							if mask[i] {
								want[i] = nl
								split++
							} else {
								kept++
							}
						}
					}
					present := kept+split > 0
					op := labels.SplitOp{Target: target, NewLabel: nl, RLEs: rles}
					type path struct {
						name string
						f    func() (*labels.Block, uint64, uint64, error)
					}
					paths := []path{
						{"Split", func() (*labels.Block, uint64, uint64, error) { return pb.Split(op) }},
						{"splitFast", func() (*labels.Block, uint64, uint64, error) { return labels.VerifSplitFast(pb, op) }},
					}
					if full && ci == 0 {
						paths = append(paths, path{"splitSlow", func() (*labels.Block, uint64, uint64, error) { return labels.VerifSplitSlow(pb, op) }})
					}
					for _, pa := range paths {
						name := fmt.Sprintf("%s(target=%d, new=%d, runs=%s, block %v)", pa.name, target, nl, rs.name, co)
						var res *labels.Block
						var gk, gs uint64
						var err error
						p := vlib.Safely(func() { res, gk, gs, err = pa.f() })
						x.count(pa.name, 1)
						if pa.name == "splitFast" {
							// the alternative path: one key per way of disagreeing with the reference (and hence with splitSlow)
							bad := ""
							switch {
							case p != nil:
								c.Violate("splitfast:panic", fmt.Sprintf("%s panicked on table %v (history %v): %v", name, st.blk.Labels, st.hist, p), x.replay(st, name, params))
								continue
							case err != nil:
								bad = fmt.Sprintf("returned error %v", err)
							case !present:
								if res != nil {
									if got := c10Decode(res); c09FirstDiff(got, st.arr) != -1 {
										bad = "target absent but the returned block differs from the input"
									}
								}
							case res == nil:
								bad = "returned no block although the target is present"
							default:
								var got []uint64
								if pp := vlib.Safely(func() { got = c10Decode(res) }); pp != nil {
									bad = fmt.Sprintf("returned an undecodable block (panic %v)", pp)
								} else if d := c09FirstDiff(got, want); d != -1 {
									bad = fmt.Sprintf("voxel %v is %d, splitSlow / the array give %d", c09Pt(d, st.size), got[d], want[d])
								} else if gk != kept || gs != split {
									bad = fmt.Sprintf("reported kept=%d split=%d, true counts kept=%d split=%d", gk, gs, kept, split)
								}
							}
							if bad != "" {
								c.Violate("splitfast:disagrees-with-slow", fmt.Sprintf("%s on table %v (history %v): %s", name, st.blk.Labels, st.hist, bad), x.replay(st, name, params))
							}
							x.same(st, "splitfast", name, params)
							continue
						}
						key := "split" + st.suffix()
						if p != nil {
							c.Violate(key+":panic", fmt.Sprintf("%s panicked on table %v (history %v): %v", name, st.blk.Labels, st.hist, p), x.replay(st, name, params))
							continue
						}
						if err != nil {
							c.Violate(key+":error", fmt.Sprintf("%s failed on table %v (history %v): %v", name, st.blk.Labels, st.hist, err), x.replay(st, name, params))
							continue
						}
						x.same(st, "split", name, params)
						if !present {
							// documented: a nil block is returned if the target is not in the block; an unchanged block is accepted too
							if res != nil && c09FirstDiff(c10Decode(res), st.arr) != -1 {
								c.Violate(key+":absent-target-changed", fmt.Sprintf("%s: target absent but the returned block differs from the input (table %v, history %v)", name, st.blk.Labels, st.hist), x.replay(st, name, params))
							}
							if gk != 0 || gs != 0 {
								c.Violate("split:counts", fmt.Sprintf("%s: target absent but kept=%d split=%d reported", name, gk, gs), x.replay(st, name, params))
							}
							continue
						}
						if !x.cmpVoxels(st, key, name, params, res, want) {
							continue
						}
						if gk != kept || gs != split {
							c.Violate("split:counts", fmt.Sprintf("%s on table %v (history %v) reported kept=%d split=%d, true counts kept=%d split=%d", name, st.blk.Labels, st.hist, gk, gs, kept, split), x.replay(st, name, params))
						}
						c.Outcome(fmt.Sprintf("%s runs=%s kept-some=%v split-some=%v", key, rs.name, kept > 0, split > 0))
					}
				}
			}

			// SplitSupervoxel: with and without an entry for this block in the BlockRLEs map
			for _, sv := range targets {
				for _, inMap := range []bool{true, false} {
					if !inMap && rs.name != "empty" && rs.name != "whole-block" {
						continue
					}
					brles := dvid.BlockRLEs{}
					if inMap {
						brles[pb.BCoord] = rles
					} else {
						brles[c09BCoord(co[0]+1, co[1], co[2])] = rles
					}
					op := labels.SplitSupervoxelOp{Supervoxel: sv, SplitSupervoxel: c10D, RemainSupervoxel: c10H, Split: brles}
					name := fmt.Sprintf("SplitSupervoxel(sv=%d, split=%d, remain=%d, runs=%s, block %v, block in map=%v)", sv, c10D, c10H, rs.name, co, inMap)
					params := map[string]interface{}{"runs": rs.name, "block_coord": co, "supervoxel": fmt.Sprint(sv), "block_in_map": inMap}
					want := append([]uint64{}, st.arr...)
					var kept, split uint64
					for i, v := range want {
						if v == sv {
							if inMap && mask[i] {
								want[i] = c10D
								split++
							} else {
								want[i] = c10H
								kept++
							}
						}
					}
					var res *labels.Block
					var gk, gs uint64
					var err error
					p := vlib.Safely(func() { res, gk, gs, err = pb.SplitSupervoxel(op) })
					x.count("SplitSupervoxel", 1)
					key := "splitsupervoxel" + st.suffix()
					if p != nil {
						c.Violate(key+":panic", fmt.Sprintf("%s panicked on table %v (history %v): %v", name, st.blk.Labels, st.hist, p), x.replay(st, name, params))
						continue
					}
					if err != nil {
						c.Violate(key+":error", fmt.Sprintf("%s failed on table %v (history %v): %v", name, st.blk.Labels, st.hist, err), x.replay(st, name, params))
						continue
					}
					x.same(st, "splitsupervoxel", name, params)
					if x.cmpVoxels(st, key, name, params, res, want) && (gk != kept || gs != split) {
						c.Violate("splitsupervoxel:counts", fmt.Sprintf("%s on table %v (history %v) reported kept=%d split=%d, true counts kept=%d split=%d", name, st.blk.Labels, st.hist, gk, gs, kept, split), x.replay(st, name, params))
					}
				}
			}

			// SplitSupervoxels over every non-empty subset of {a,b,c} (+ an absent supervoxel), fresh split / remain labels
			if ci == len(coords)-1 {
				for _, sub := range c10Subsets([]uint64{c10A, c10B, c10C}) {
					svs := map[uint64]labels.SVSplit{c10E: {Split: 5000, Remain: 5001}}
					for i, l := range sub {
						svs[l] = labels.SVSplit{Split: 6000 + uint64(i)*2, Remain: 6001 + uint64(i)*2}
					}
					name := fmt.Sprintf("SplitSupervoxels(supervoxels=%v, runs=%s, block %v)", sub, rs.name, co)
					params := map[string]interface{}{"runs": rs.name, "block_coord": co, "supervoxels": fmt.Sprint(sub)}
					want := append([]uint64{}, st.arr...)
					for i, v := range want {
						if s, ok := svs[v]; ok {
							if mask[i] {
								want[i] = s.Split
							} else {
								want[i] = s.Remain
							}
						}
					}
					var res *labels.Block
					var err error
					p := vlib.Safely(func() { res, err = pb.SplitSupervoxels(rles, svs) })
					x.count("SplitSupervoxels", 1)
					key := "splitsupervoxels" + st.suffix()
					if p != nil {
						c.Violate(key+":panic", fmt.Sprintf("%s panicked on table %v (history %v): %v", name, st.blk.Labels, st.hist, p), x.replay(st, name, params))
						continue
					}
					if err != nil {
						c.Violate(key+":error", fmt.Sprintf("%s failed on table %v (history %v): %v", name, st.blk.Labels, st.hist, err), x.replay(st, name, params))
						continue
					}
					x.same(st, "splitsupervoxels", name, params)
					x.cmpVoxels(st, key, name, params, res, want)
				}
			}

			// SplitStats and DoSplitWithStats: empty split map and a map that already knows label a
			for _, pre := range []bool{false, true} {
				for _, do := range []bool{false, true} {
					m := &labels.SVSplitMap{}
					if pre {
						m.Splits = map[uint64]labels.SVSplit{c10A: {Split: 7000, Remain: 7001}}
					}
					next := uint64(8000)
					newLabel := func() (uint64, error) { next++; return next, nil }
					fn := "SplitStats"
					if do {
						fn = "DoSplitWithStats"
					}
					name := fmt.Sprintf("%s(runs=%s, block %v, split map pre-populated=%v)", fn, rs.name, co, pre)
					params := map[string]interface{}{"runs": rs.name, "block_coord": co, "prepopulated": pre}
					hit := map[uint64]uint32{}
					for i, v := range st.arr {
						if mask[i] && v != 0 {
							hit[v]++
						}
					}
					var counts map[uint64]labels.SVSplitCount
					var res *labels.Block
					var err error
					p := vlib.Safely(func() {
						if do {
							res, counts, err = pb.DoSplitWithStats(labels.SplitOp{Target: c10A, NewLabel: c10D, RLEs: rles}, m, newLabel)
						} else {
							counts, err = pb.SplitStats(rles, m, newLabel)
						}
					})
					x.count(fn, 1)
					key := strings.ToLower(fn) + st.suffix()
					if p != nil {
						c.Violate(key+":panic", fmt.Sprintf("%s panicked on table %v (history %v): %v", name, st.blk.Labels, st.hist, p), x.replay(st, name, params))
						continue
					}
					if err != nil {
						c.Violate(key+":error", fmt.Sprintf("%s failed on table %v (history %v): %v", name, st.blk.Labels, st.hist, err), x.replay(st, name, params))
						continue
					}
					x.same(st, strings.ToLower(fn), name, params)
					bad := ""
					for l, n := range hit {
						sc, ok := counts[l]
						switch {
						case !ok || sc.Voxels != n:
							bad = fmt.Sprintf("supervoxel %d: reported %d split voxels, the array has %d under the runs", l, sc.Voxels, n)
						case sc.SVSplit != m.Splits[l]:
							bad = fmt.Sprintf("supervoxel %d: reported relabelling %v differs from the split map's %v", l, sc.SVSplit, m.Splits[l])
						case pre && l == c10A && sc.SVSplit != (labels.SVSplit{Split: 7000, Remain: 7001}):
							bad = fmt.Sprintf("supervoxel %d: the relabelling already in the split map was replaced by %v", l, sc.SVSplit)
						}
					}
					for l, sc := range counts {
						if _, ok := hit[l]; !ok && sc.Voxels != 0 {
							bad = fmt.Sprintf("supervoxel %d: reported %d split voxels, the array has none under the runs", l, sc.Voxels)
						}
					}
					if bad != "" {
						c.Violate(strings.ToLower(fn)+":counts", fmt.Sprintf("%s on table %v (history %v): %s", name, st.blk.Labels, st.hist, bad), x.replay(st, name, params))
						continue
					}
					if do {
						want := append([]uint64{}, st.arr...)
						for i, v := range want {
							if _, ok := hit[v]; ok {
								if mask[i] {
									want[i] = m.Splits[v].Split
								} else {
									want[i] = m.Splits[v].Remain
								}
							}
						}
						x.cmpVoxels(st, key, name, params, res, want)
					}
				}
			}
		}
	}
}

// ---------------------------------------------------------------------------------------------------------------------
// down-sampling

// c10RefCell is the documented rule: most frequent non-zero label of the 8 voxels, ties to the smallest label, 0 if none.
func c10RefCell(v *[8]uint64) uint64 {
	var best uint64
	bestN := 0
	for i := 0; i < 8; i++ {
		l := v[i]
		if l == 0 {
			continue
		}
		n := 0
		for j := 0; j < 8; j++ {
			if v[j] == l {
				n++
			}
		}
		if n > bestN || n == bestN && l < best {
			best, bestN = l, n
		}
	}
	return best
}

// c10RefDownresInto writes the 2x down-sampled octant oct (size) into octant position o of dst (same size).
func c10RefDownresInto(dst, oct []uint64, size dvid.Point3d, o int) {
	nx, ny, nz := int(size[0]), int(size[1]), int(size[2])
	ox, oy, oz := (o&1)*nx/2, ((o>>1)&1)*ny/2, (o>>2)*nz/2
	var cell [8]uint64
	for z := 0; z < nz; z += 2 {
		for y := 0; y < ny; y += 2 {
			for x := 0; x < nx; x += 2 {
				for i := 0; i < 8; i++ {
					cell[i] = oct[(z+(i>>2))*ny*nx+(y+((i>>1)&1))*nx+x+(i&1)]
				}
				dst[(oz+z/2)*ny*nx+(oy+y/2)*nx+ox+x/2] = c10RefCell(&cell)
			}
		}
	}
}

type c10Oct struct {
	name string
	blk  *labels.Block
	arr  []uint64
}

// c10DownresCase is one Downres problem: eight octants (nil allowed) and the prior content of the receiving block.
type c10DownresCase struct {
	desc  string
	size  dvid.Point3d
	octs  [8]*c10Oct
	prior *c10Oct // nil: receiving block is solid zero (alternating MakeSolidBlock(0) / empty Block)
	empty bool    // receiving block is &Block{Size: size} rather than MakeSolidBlock(0)
}

func (cs *c10DownresCase) replay() map[string]interface{} {
	var names [8]string
	for i, o := range cs.octs {
		if o == nil {
			names[i] = "nil"
		} else {
			names[i] = o.name
		}
	}
	pr := "solid 0"
	if cs.empty {
		pr = "empty Block{Size}"
	}
	if cs.prior != nil {
		pr = cs.prior.name
	}
	return map[string]interface{}{"case": cs.desc, "octants": names, "receiving_block": pr, "block_size": cs.size}
}

func (cs *c10DownresCase) receiver() *labels.Block {
	switch {
	case cs.prior != nil:
		b := new(labels.Block)
		ser, _ := cs.prior.blk.MarshalBinary()
		if err := b.UnmarshalBinary(append([]byte{}, ser...)); err != nil {
			panic(err)
		}
		return b
	case cs.empty:
		return &labels.Block{Size: cs.size}
	}
	return labels.MakeSolidBlock(0, cs.size)
}

// expected returns the expected array and, per voxel, an alternative accepted value (for nil octants over prior content,
// where "not modified" and "treated as label 0" are both documented).
func (cs *c10DownresCase) expected() (want []uint64, nilOct [8]bool) {
	n := int(cs.size.Prod())
	want = make([]uint64, n)
	if cs.prior != nil {
		copy(want, cs.prior.arr)
	}
	for i, o := range cs.octs {
		if o == nil {
			nilOct[i] = true
			continue
		}
		c10RefDownresInto(want, o.arr, cs.size, i)
	}
	return
}

// c10CmpDownres compares got with the expectation; nil octants over prior content may be kept or zeroed (per octant).
func c10CmpDownres(cs *c10DownresCase, got []uint64) (string, bool) {
	want, nilOct := cs.expected()
	if len(got) != len(want) {
		return fmt.Sprintf("result has %d voxels, expected %d", len(got), len(want)), false
	}
	nx, ny, nz := int(cs.size[0]), int(cs.size[1]), int(cs.size[2])
	for o := 0; o < 8; o++ {
		ox, oy, oz := (o&1)*nx/2, ((o>>1)&1)*ny/2, (o>>2)*nz/2
		keepOK, zeroOK := true, true
		first := ""
		for z := oz; z < oz+nz/2; z++ {
			for y := oy; y < oy+ny/2; y++ {
				for x := ox; x < ox+nx/2; x++ {
					i := z*ny*nx + y*nx + x
					if got[i] != want[i] {
						keepOK = false
						if first == "" {
							first = fmt.Sprintf("low-res voxel (%d,%d,%d) (octant %d) is %d, the array rule gives %d", x, y, z, o, got[i], want[i])
						}
					}
					if got[i] != 0 {
						zeroOK = false
					}
				}
			}
		}
		if keepOK || nilOct[o] && zeroOK {
			continue
		}
		if nilOct[o] {
			first += " (a nil octant: expected the receiving block's voxels, or label 0)"
		}
		return first, nilOct[o]
	}
	return "", false
}

func (x *c10Run) mkOct(name string, size dvid.Point3d, arr []uint64) *c10Oct {
	blk, err := labels.MakeBlock(dvid.AliasUint64ToByte(append([]uint64{}, arr...)), size)
	if err != nil {
		panic(fmt.Sprintf("MakeBlock(%s): %v", name, err))
	}
	c09Canon(blk, nil)
	return &c10Oct{name, blk, arr}
}

var c10SolidMu sync.Mutex
var c10SolidCache = map[string]*c10Oct{}

// c10SolidOct returns the (shared, read-only) solid octant of a label.
func c10SolidOct(l uint64, size dvid.Point3d) *c10Oct {
	k := fmt.Sprintf("%d/%v", l, size)
	c10SolidMu.Lock()
	defer c10SolidMu.Unlock()
	if o := c10SolidCache[k]; o != nil {
		return o
	}
	arr := make([]uint64, size.Prod())
	for i := range arr {
		arr[i] = l
	}
	o := &c10Oct{fmt.Sprintf("solid %d", l), labels.MakeSolidBlock(l, size), arr}
	c10SolidCache[k] = o
	return o
}

// c10MixedPool builds the mixed octant contents (16^3).
func (x *c10Run) mixedPool() (plain, zeroHeavy, aliased []*c10Oct) {
	size := dvid.Point3d{16, 16, 16}
	gen := func(name string, f func(x, y, z int) uint64) *c10Oct {
		arr := make([]uint64, 4096)
		for i := range arr {
			arr[i] = f(i%16, (i/16)%16, i/256)
		}
		return x.mkOct(name, size, arr)
	}
	plain = []*c10Oct{
		gen("stripes", func(x, y, z int) uint64 { return 1 + uint64(x%3+3*(y%5)+15*(z%7)) }),
		gen("ties-4-4", func(x, y, z int) uint64 { // every cell has four voxels of each of two labels; the larger label comes first
			if z%2 == 0 {
				return c10C - uint64(x/2%2)
			}
			return c10A + uint64(y/2%3)
		}),
		gen("ties-2-2-2-2", func(x, y, z int) uint64 { return []uint64{c10B, c10A, c10C, c10G}[(y%2)*2+z%2] }),
		gen("checker4", func(x, y, z int) uint64 { return []uint64{c10A, c10B, c10C, c10G}[(x+2*y+3*z)%4] }),
		gen("solid-subblocks", func(x, y, z int) uint64 { return 10 + uint64(x/8+2*(y/8)+4*(z/8)) }),
		gen("a-with-b-plane", func(x, y, z int) uint64 {
			if x == 7 || x == 8 {
				return c10B
			}
			return c10A
		}),
	}
	zeroHeavy = []*c10Oct{
		gen("one-nonzero-per-cell", func(x, y, z int) uint64 {
			if x%2 == 1 && y%2 == 0 && z%2 == 1 {
				return c10B + uint64(x/2%2)
			}
			return 0
		}),
		gen("zero-with-blob", func(x, y, z int) uint64 {
			if x >= 3 && x <= 11 && y >= 4 && y <= 5 && z >= 6 && z <= 9 {
				return c10C
			}
			return 0
		}),
		gen("zero-majority-vs-one", func(x, y, z int) uint64 { // 7 zeros and 1 label, 5 zeros and 3 labels (2+1)
			switch {
			case x%2 == 0 && y%2 == 0 && z%2 == 0:
				return c10A
			case x%4 == 1 && y%2 == 1:
				return c10G
			}
			return 0
		}),
		gen("half-zero", func(x, y, z int) uint64 {
			if z < 8 {
				return 0
			}
			return []uint64{c10A, c10B}[(x/2+y/2)%2]
		}),
	}
	// aliased tables: real edits of plain blocks
	for _, o := range []*c10Oct{plain[3], plain[0], zeroHeavy[0]} {
		if res, _, err := o.blk.ReplaceLabel(c10B, c10A); err == nil {
			arr := append([]uint64{}, o.arr...)
			for i := range arr {
				if arr[i] == c10B {
					arr[i] = c10A
				}
			}
			aliased = append(aliased, &c10Oct{o.name + " after ReplaceLabel(b->a)", res, arr})
		}
		if res, err := o.blk.MergeLabels(labels.MergeOp{Target: c10D, Merged: labels.NewSet(c10C, c10G, 3)}); err == nil {
			arr := append([]uint64{}, o.arr...)
			for i := range arr {
				if arr[i] == c10C || arr[i] == c10G || arr[i] == 3 {
					arr[i] = c10D
				}
			}
			aliased = append(aliased, &c10Oct{o.name + " after MergeLabels({max,12,3}->77)", res, arr})
		}
	}
	// the aliased blocks must decode to their arrays (C10's own merge/replace oracle); drop any that do not
	var ok []*c10Oct
	for _, o := range aliased {
		if c09FirstDiff(c10Decode(o.blk), o.arr) == -1 {
			ok = append(ok, o)
		}
	}
	aliased = ok
	return
}

// c10PatternCases enumerates all 3^8 octant patterns x 4 fillings.
func (x *c10Run) patternCases() []*c10DownresCase {
	size := dvid.Point3d{16, 16, 16}
	plain, zh, al := x.mixedPool()
	prior := x.mkOct("prior: checker of 21 and 2^64-2", size, func() []uint64 {
		arr := make([]uint64, 4096)
		for i := range arr {
			arr[i] = []uint64{21, c10C - 1}[(i%16+(i/16)%16+i/256)%2]
		}
		return arr
	}())
	solidLabs := [][8]uint64{
		{c10A, c10A, c10A, c10A, c10A, c10A, c10A, c10A},
		{c10A, c10B, c10C, 0, c10D, c10A, c10C, c10B},
		{0, 0, 0, 0, 0, 0, 0, 0},
		{c10C, 1, c10C, 1, c10C, 1, c10C, 1},
	}
	var out []*c10DownresCase
	for f := 0; f < 4; f++ {
		for pat := 0; pat < 6561; pat++ {
			cs := &c10DownresCase{desc: fmt.Sprintf("pattern %d (base 3, octant 0 least significant: 0=nil 1=solid 2=mixed), filling %d", pat, f), size: size, empty: pat%2 == 1}
			v := pat
			hasNil := false
			for o := 0; o < 8; o++ {
				switch v % 3 {
				case 0:
					hasNil = true
				case 1:
					cs.octs[o] = c10SolidOct(solidLabs[f][o], size)
				case 2:
					switch f {
					case 0:
						cs.octs[o] = plain[o%len(plain)]
					case 1:
						cs.octs[o] = plain[(o*3+1)%len(plain)]
					case 2:
						cs.octs[o] = zh[o%len(zh)]
					case 3:
						if len(al) > 0 {
							cs.octs[o] = al[o%len(al)]
						} else {
							cs.octs[o] = plain[o%len(plain)]
						}
					}
				}
				v /= 3
			}
			out = append(out, cs)
			if f <= 2 && hasNil { // fillings 1 and 2 put solid label-0 octants next to nil octants over prior content
				cp := *cs
				cp.prior = prior
				cp.empty = false
				cp.desc += ", receiving block has prior content"
				out = append(out, &cp)
			}
		}
	}
	return out
}

// c10CellCases packs every 2x2x2 cell content over the alphabet into 16^3 octants (512 cells each), 8 octants per case.
func (x *c10Run) cellCases(alpha []uint64) []*c10DownresCase {
	size := dvid.Point3d{16, 16, 16}
	total := 1
	for i := 0; i < 8; i++ {
		total *= len(alpha)
	}
	var octs []*c10Oct
	for lo := 0; lo < total; lo += 512 {
		arr := make([]uint64, 4096)
		for j := 0; j < 512; j++ {
			ci := lo + j
			if ci >= total {
				ci = total - 1
			}
			cx, cy, cz := j%8, (j/8)%8, j/64
			v := ci
			for i := 0; i < 8; i++ {
				arr[(2*cz+(i>>2))*256+(2*cy+((i>>1)&1))*16+2*cx+(i&1)] = alpha[v%len(alpha)]
				v /= len(alpha)
			}
		}
		octs = append(octs, x.mkOct(fmt.Sprintf("cells %d..%d of %v^8 (cell j at (j%%8, j/8%%8, j/64), voxel i of a cell = digit i base %d)", lo, lo+511, alpha, len(alpha)), size, arr))
	}
	var out []*c10DownresCase
	for i := 0; i < len(octs); i += 8 {
		cs := &c10DownresCase{desc: fmt.Sprintf("all cell contents over %v, octant blocks %d..%d", alpha, i, i+7), size: size}
		for o := 0; o < 8 && i+o < len(octs); o++ {
			cs.octs[o] = octs[i+o]
		}
		out = append(out, cs)
	}
	return out
}

func (cs *c10DownresCase) blocks() (o [8]*labels.Block) {
	for i, oc := range cs.octs {
		if oc != nil {
			o[i] = oc.blk
		}
	}
	return
}

func (x *c10Run) downres(cs *c10DownresCase, slowToo, arrayToo bool) {
	c := x.c
	run := func(fn string, f func(b *labels.Block, o [8]*labels.Block) error) {
		b := cs.receiver()
		var err error
		p := vlib.Safely(func() { err = f(b, cs.blocks()) })
		x.count(fn, 1)
		key := "downres" // Downres is setBlank + DownresSlow: one key family for both entry points
		if p != nil {
			c.Violate(key+":panic", fmt.Sprintf("%s panicked: %v (%s)", fn, p, cs.desc), cs.replay())
			return
		}
		if err != nil {
			c.Violate(key+":error", fmt.Sprintf("%s failed: %v (%s)", fn, err, cs.desc), cs.replay())
			return
		}
		var got []uint64
		if p := vlib.Safely(func() { got = c10Decode(b) }); p != nil || !b.Size.Equals(cs.size) {
			c.Violate(key+":undecodable", fmt.Sprintf("%s left a block that cannot be decoded (size %v, panic %v) (%s)", fn, b.Size, p, cs.desc), cs.replay())
			return
		}
		c.Outcome(fmt.Sprintf("downres result-table=%d", len(b.Labels)))
		if d, inNil := c10CmpDownres(cs, got); d != "" {
			if inNil {
				key += ":nil-octant"
			}
			c.Violate(key+":voxels", fmt.Sprintf("%s: %s (%s)", fn, d, cs.desc), cs.replay())
		}
	}
	run("Downres", func(b *labels.Block, o [8]*labels.Block) error { return b.Downres(o) })
	if slowToo {
		run("DownresSlow", func(b *labels.Block, o [8]*labels.Block) error { return b.DownresSlow(o) })
	}
	// octant blocks must not be modified
	for i, o := range cs.octs {
		if o != nil && c09FirstDiff(c10Decode(o.blk), o.arr) != -1 {
			c.Violate("downres:input-modified", fmt.Sprintf("Downres modified octant %d (%s)", i, cs.desc), cs.replay())
		}
	}
	if arrayToo && cs.prior == nil {
		// array-domain path: assemble the hi-res volume (nil octant = zeros) and down-sample it in one go
		nx, ny, nz := int(cs.size[0]), int(cs.size[1]), int(cs.size[2])
		hi := make([]uint64, 8*nx*ny*nz)
		for o, oc := range cs.octs {
			if oc == nil {
				continue
			}
			ox, oy, oz := (o&1)*nx, ((o>>1)&1)*ny, (o>>2)*nz
			for z := 0; z < nz; z++ {
				for y := 0; y < ny; y++ {
					copy(hi[(oz+z)*4*ny*nx+(oy+y)*2*nx+ox:], oc.arr[z*ny*nx+y*nx:z*ny*nx+y*nx+nx])
				}
			}
		}
		var lo []byte
		var err error
		p := vlib.Safely(func() {
			lo, err = labels.DownresLabels(dvid.AliasUint64ToByte(hi), dvid.Point3d{int32(2 * nx), int32(2 * ny), int32(2 * nz)})
		})
		x.count("DownresLabels", 1)
		switch {
		case p != nil:
			c.Violate("downreslabels:panic", fmt.Sprintf("DownresLabels panicked: %v (%s)", p, cs.desc), cs.replay())
		case err != nil:
			c.Violate("downreslabels:error", fmt.Sprintf("DownresLabels failed: %v (%s)", err, cs.desc), cs.replay())
		default:
			got, ok := c09U64(lo)
			if !ok || len(got) != nx*ny*nz {
				c.Violate("downreslabels:voxels", fmt.Sprintf("DownresLabels returned %d bytes, expected %d (%s)", len(lo), 8*nx*ny*nz, cs.desc), cs.replay())
			} else if d, _ := c10CmpDownres(cs, got); d != "" {
				c.Violate("downreslabels:voxels", fmt.Sprintf("DownresLabels (array domain): %s (%s)", d, cs.desc), cs.replay())
			}
		}
	}
}

// ---------------------------------------------------------------------------------------------------------------------
// DownresFast in a worker process (it prints to stdout and is documented as unfinished)

type c10FastMsg struct {
	Key    string                 `json:"key"`
	What   string                 `json:"what"`
	Replay map[string]interface{} `json:"replay"`
	Evals  int64                  `json:"evals"`
}

func c10FastWorker(args []string) int {
	out := os.Stdout
	if dn, err := os.OpenFile(os.DevNull, os.O_WRONLY, 0); err == nil {
		os.Stdout = dn // DownresFast's own Printf output
	}
	thorough := len(args) > 0 && args[0] == "thorough"
	x := &c10Run{c: vlib.NewCtx("C10-worker", "quick", "exploration"), seen: map[uint64]struct{}{}, nt: map[uint64]struct{}{}}
	var cases []*c10DownresCase
	alpha := []uint64{0, c10E, 9, c10C}
	cases = append(cases, x.cellCases(alpha[:3])...)
	all := x.patternCases()
	for i, cs := range all {
		if cs.prior == nil && (thorough || i%4 == 0 || i < 800) {
			cases = append(cases, cs)
		}
	}
	seen := map[string]bool{}
	var evals int64
	emit := func(key, what string, cs *c10DownresCase) {
		if seen[key] {
			return
		}
		seen[key] = true
		b, _ := json.Marshal(c10FastMsg{Key: key, What: what, Replay: cs.replay()})
		fmt.Fprintf(out, "MSG %s\n", b)
	}
	for _, cs := range cases {
		// tie-free? (then the result does not depend on Go map order inside downresSubBlock)
		b := cs.receiver()
		var err error
		p := vlib.Safely(func() { err = b.DownresFast(cs.blocks()) })
		evals++
		if p != nil {
			emit("downresfast:panic", fmt.Sprintf("DownresFast panicked: %v (%s)", p, cs.desc), cs)
			continue
		}
		if err != nil {
			emit("downresfast:disagrees-with-slow", fmt.Sprintf("DownresFast failed where DownresSlow succeeds: %v (%s)", err, cs.desc), cs)
			continue
		}
		var got []uint64
		if p := vlib.Safely(func() { got = c10Decode(b) }); p != nil {
			emit("downresfast:disagrees-with-slow", fmt.Sprintf("DownresFast left an undecodable block: %v (%s)", p, cs.desc), cs)
			continue
		}
		if d, _ := c10CmpDownres(cs, got); d != "" {
			emit("downresfast:disagrees-with-slow", fmt.Sprintf("DownresFast: %s (%s)", d, cs.desc), cs)
		}
	}
	b, _ := json.Marshal(c10FastMsg{Key: "done", Evals: evals})
	fmt.Fprintf(out, "MSG %s\n", b)
	return 0
}

// ---------------------------------------------------------------------------------------------------------------------

func runC10(c *vlib.Ctx) {
	x := &c10Run{c: c, seen: map[uint64]struct{}{}, nt: map[uint64]struct{}{}}
	cost := map[string]string{}
	timed := func(name string, f func()) {
		t0, w0 := c09CPU(), time.Now()
		f()
		cost[name] = fmt.Sprintf("cpu %.1fs wall %.1fs", c09CPU()-t0, time.Since(w0).Seconds())
	}
	maxDepth := 1
	if c.Thorough() {
		maxDepth = 2
	}

	// DownresFast worker runs alongside
	var fastRes vlib.WorkerResult
	var wg sync.WaitGroup
	wg.Add(1)
	go func() {
		defer wg.Done()
		fastRes = vlib.RunWorker("c10fast", []string{c.Tier}, nil)
	}()

	// ---- closure of the block menu under the table edits, every operation on every state
	allEdits, closureEdits := c10Edits()
	inClosure := map[string]bool{}
	for _, e := range closureEdits {
		inClosure[e.name] = true
	}
	var level []*c10State
	bases := c10Bases(c.Thorough())
	for _, b := range bases {
		probe, err := labels.MakeBlock(dvid.AliasUint64ToByte(append([]uint64{}, b.arr...)), b.size)
		if err != nil {
			c.Violate("harness:base", fmt.Sprintf("MakeBlock refused base %s: %v", b.name, err), nil)
			continue
		}
		for _, perm := range c10TablePerms(len(probe.Labels), c.Thorough()) {
			blk, _ := labels.MakeBlock(dvid.AliasUint64ToByte(append([]uint64{}, b.arr...)), b.size)
			c09Canon(blk, perm)
			if c09FirstDiff(c10Decode(blk), b.arr) != -1 {
				c.Violate("harness:canon", "label-table reordering changed the block content (harness fault)", nil)
				continue
			}
			st := x.newState(blk, b.arr, b.size, []string{fmt.Sprintf("base %q, label table %v", b.name, blk.Labels)}, 0)
			h := c10HashBytes(st.ser)
			if _, dup := x.seen[h]; !dup {
				x.seen[h] = struct{}{}
				level = append(level, st)
			}
		}
	}
	c.Set("base_blocks", len(bases))
	c.Set("closure_depth", maxDepth)
	statesPerDepth := []int{}
	timed("closure+ops", func() {
		for depth := 0; depth <= maxDepth; depth++ {
			statesPerDepth = append(statesPerDepth, len(level))
			var next []*c10State
			var nmu sync.Mutex
			cur := level
			vlib.Par(len(cur), 16, func(i int) {
				st := cur[i]
				for _, e := range allEdits {
					res, want := e.apply(x, st)
					if res == nil || depth == maxDepth || !inClosure[e.name] {
						continue
					}
					ser, _ := res.MarshalBinary()
					h := c10HashBytes(ser)
					x.seenMu.Lock()
					_, dup := x.seen[h]
					if !dup {
						x.seen[h] = struct{}{}
					}
					x.seenMu.Unlock()
					if dup {
						continue
					}
					ns := x.newState(res, want, st.size, append(append([]string{}, st.hist...), e.name), depth+1)
					nmu.Lock()
					next = append(next, ns)
					nmu.Unlock()
				}
				// voxel-level operations: complete parameter sets on the base blocks and depth-1 blocks of the quick tier's
				// closure; a reduced set on the deepest level
				// quick: complete split parameter sets on the base blocks, reduced on depth 1;
				// thorough: complete on depths 0 and 1, every run set at one coordinate on depth 2
				lvl := 2
				switch {
				case c.Thorough() && depth == 2:
					lvl = 1
				case !c.Thorough() && depth == 1:
					lvl = 1 - i%2
				}
				x.splits(st, lvl)
				// non-trivial: the block has >= 2 labels in some sub-block or an aliased table
				nt := st.depth > 0
				for _, n := range st.blk.NumSBLabels {
					if n >= 2 {
						nt = true
					}
				}
				if nt {
					x.ntMu.Lock()
					x.nt[c10HashBytes(st.ser)] = struct{}{}
					x.ntMu.Unlock()
				}
			})
			// deterministic order of the next level (simplest history first)
			sort.SliceStable(next, func(i, j int) bool { return strings.Join(next[i].hist, "|") < strings.Join(next[j].hist, "|") })
			level = next
		}
	})
	c.Set("states_per_depth", statesPerDepth)
	c.Sample(map[string]interface{}{"closure": "base \"subsets\" (sub-blocks holding {a,b},{b,c},{a,c},{a,b,c},{a},{0,a},{0,b,c},{0}), table order [0 5 2^40 2^64-1] -> ReplaceLabel(2^40 -> 5) leaves two slots with label 5 -> ReplaceLabel(5 -> 77): voxels and replaced count compared with the array"})
	c.Sample(map[string]interface{}{"split": "Split(target=5, new=77, runs=across-subblock-face = voxels x 5..10 of row (y 3, z 9), block (2,1,3)): result voxels, kept and split counts compared with the array; splitFast compared with the same reference"})

	// ---- down-sampling
	timed("downres-patterns", func() {
		cases := x.patternCases()
		c.Set("downres_pattern_cases", len(cases))
		vlib.Par(len(cases), 16, func(i int) {
			cs := cases[i]
			solidOnly := true
			for _, o := range cs.octs {
				if o != nil && len(o.blk.Labels) > 1 {
					solidOnly = false
				}
			}
			x.downres(cs, solidOnly || c.Thorough() || i%16 == 0, c.Thorough() || i%8 == 0 || i < 400)
		})
	})
	timed("downres-cells", func() {
		alpha := []uint64{0, c10E, 9, c10C, c10B}
		if c.Thorough() {
			alpha = []uint64{0, c10E, 9, c10C, c10B, 3}
		}
		cases := x.cellCases(alpha)
		total := 1
		for i := 0; i < 8; i++ {
			total *= len(alpha)
		}
		c.Set("downres_cells", fmt.Sprintf("all %d^8 = %d contents of a 2x2x2 cell over labels %v (every vote split and every tie, larger label values placed first)", len(alpha), total, alpha))
		vlib.Par(len(cases), 16, func(i int) { x.downres(cases[i], true, true) })
		x.c.NontrivialDistinct(int64(total))
	})
	c.Sample(map[string]interface{}{"downres": "octants [nil, solid 5, mixed 'ties-4-4', nil, solid 5, mixed 'stripes', solid 5, nil] into an empty block: every low-res voxel equals the most frequent non-zero label of its 2x2x2 cell (ties to the smaller label), nil octants stay 0"})

	wg.Wait()
	done := false
	for _, line := range fastRes.Lines {
		if !strings.HasPrefix(line, "MSG ") {
			continue
		}
		var m c10FastMsg
		if json.Unmarshal([]byte(line[4:]), &m) != nil {
			continue
		}
		if m.Key == "done" {
			done = true
			x.count("DownresFast", m.Evals)
			continue
		}
		c.Violate(m.Key, m.What, m.Replay)
	}
	if !done {
		c.Violate("downresfast:worker-death", fmt.Sprintf("the DownresFast worker did not finish (exit %d): %s", fastRes.ExitCode, tail(fastRes.Stderr, 600)), nil)
	}

	ops := map[string]int64{}
	x.ops.Range(func(k, v interface{}) bool { ops[k.(string)] = atomic.LoadInt64(v.(*int64)); return true })
	c.Set("operations_applied", ops)
	c.Set("cost_by_section", cost)
	c.NontrivialDistinct(int64(len(x.nt)))
	for fam, n := range ops {
		c.Outcome(fmt.Sprintf("%s applied=%v", fam, n > 0))
	}
	c.Set("rule", "non-trivial = distinct compressed block (by serialisation) that has >= 2 labels in some sub-block or an edited (aliased) label table, plus every distinct 2x2x2 cell content of the down-sampling alphabet; evaluations = operation applications (each compared voxel for voxel with the array operation); labels: a=5 b=2^40 c=2^64-1, fresh 77 / 2^63+3 / 900, and 0")
	c.Assume("merges never list label 0 or the target among the merged labels (MergeTuple.Op refuses 0); split run-lengths lie inside the block and do not overlap (callers partition runs per block); split/remain labels handed to the supervoxel splits are fresh")
	c.Assume("a nil octant over a receiving block with prior content may either keep the prior voxels or become 0 (Downres documents the first, setBlank the second); with a zero/empty receiving block both readings coincide")
	c.Assume("ReplaceLabels applies its mapping simultaneously (a->b, b->c maps old b to c only)")
}
