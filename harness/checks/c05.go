package checks

// C05 Range and listing queries agree with point reads (and DeleteRange deletes exactly its range).
// Enumerated: DAG shapes x three adjacent (prefix-related) keys x per-key placements x every interval over the
// endpoint menu x every consumer (package-level range methods and HTTP endpoints in every format).

import (
	"archive/tar"
	"bytes"
	"encoding/json"
	"fmt"
	"io"
	"sort"
	"strings"
	"sync/atomic"

	pb "google.golang.org/protobuf/proto"

	"github.com/janelia-flyem/dvid/datastore"
	"github.com/janelia-flyem/dvid/datatype/common/proto"
	"github.com/janelia-flyem/dvid/datatype/keyvalue"
	"github.com/janelia-flyem/dvid/dvid"
	"github.com/janelia-flyem/dvid/storage"

	"verif/vlib"
	"verif/vsrv"
)

func init() { vlib.Register("C05", "exploration", runC05) }

type c05Shape struct {
	name     string
	spec     dagSpec
	patterns []kvPattern
}

func c05Shapes(thorough bool) []c05Shape {
	diamond := c05Shape{"diamond", dagSpec{nil, {0}, {0}, {1, 2}}, []kvPattern{
		{0, 0, 0, 0}, // absent
		{1, 0, 0, 0}, // live at root
		{1, 2, 0, 0}, // tombstone over live (branch A)
		{0, 1, 1, 0}, // live on both branches: conflict at the merge
		{0, 0, 1, 0}, // only on branch B (the later-created sibling)
		{0, 1, 0, 0}, // only on branch A (the earlier-created sibling: its single entry has a smaller version id than B)
		{1, 4, 0, 0}, // re-put after delete in A
		{1, 1, 0, 0}, // overwritten in A
		{0, 2, 0, 0}, // tombstone only
		{1, 0, 0, 2}, // deleted at the merge node
		{0, 0, 0, 1}, // written at the merge node
		{0, 3, 0, 0}, // put+delete in A
	}}
	chain := c05Shape{"chain", dagSpec{nil, {0}, {1}, {2}}, []kvPattern{
		{0, 0, 0, 0},
		{1, 0, 0, 0},
		{1, 2, 0, 0},
		{1, 2, 1, 0}, // re-put in grandchild
		{0, 0, 1, 0},
		{1, 1, 0, 0},
		{0, 2, 0, 0},
		{0, 0, 0, 1},
		{1, 0, 0, 2},
	}}
	if !thorough {
		diamond.patterns = diamond.patterns[:7]
		chain.patterns = chain.patterns[:5]
	}
	return []c05Shape{diamond, chain}
}

var c05Triples = [][3]string{
	{"a", "a0", "aa"}, // prefix-related, adjacent in byte order
	{"aa", "ab", "b"},
	{"b", "b ", "~"}, // space inside a key; '~' near the top of the class
	{"a", "b", "c"},
	{"0", "00", "000"},
}

func c05Endpoints(t [3]string) []string {
	e := []string{"!", t[0], t[0] + "\x01", t[1], t[1] + "\x01", t[2], "~~"}
	for i := 1; i < len(e); i++ {
		if !(e[i-1] < e[i]) {
			panic(fmt.Sprintf("endpoint menu not ascending: %q", e))
		}
	}
	return e
}

func runC05(c *vlib.Ctx) {
	cleanup, ok := bootTemp(c, vsrv.Options{})
	if !ok {
		return
	}
	defer cleanup()

	triples := c05Triples
	if !c.Thorough() {
		triples = triples[:3]
	}
	// One repo per (shape, keys, pattern of key 1, pattern of key 2) holding one instance per pattern of key 3: every
	// instance creation re-saves the whole repo blob, so repos are kept small (a repo with np^2 instances made the
	// thorough tier write tens of GiB of value log).
	type job struct {
		sh     c05Shape
		t      [3]string
		p1, p2 int
	}
	var jobs []job
	for _, sh := range c05Shapes(c.Thorough()) {
		for _, t := range triples {
			for p1 := range sh.patterns {
				for p2 := range sh.patterns {
					jobs = append(jobs, job{sh, t, p1, p2})
				}
			}
		}
	}
	var worlds int64
	vlib.Par(len(jobs), 16, func(ji int) {
		j := jobs[ji]
		np := len(j.sh.patterns)
		var insts []*kvInst
		for p3 := 0; p3 < np; p3++ {
			insts = append(insts, &kvInst{name: fmt.Sprintf("w%d_%d", j.p2, p3), keys: j.t[:],
				patterns: []kvPattern{j.sh.patterns[j.p1], j.sh.patterns[j.p2], j.sh.patterns[p3]}})
		}
		r, err := buildKVRepo(j.sh.spec, insts)
		if r != nil {
			defer r.drop()
		}
		if err != nil {
			c.Violate("harness:build", fmt.Sprintf("%s %v: %v", j.sh.name, j.t, err), nil)
			return
		}
		for ii, in := range insts {
			atomic.AddInt64(&worlds, 1)
			c05World(c, j.sh, r, in, ii%np == j.p1 || c.Thorough())
		}
	})
	c.Set("worlds", worlds)
	c.Sample(map[string]interface{}{"shape": "diamond 1<-[0] 2<-[0] 3<-[1 2]", "keys": []string{"a", "a0", "aa"},
		"per_key_ops_per_node": [][]int{{1, 2, 0, 0}, {0, 1, 1, 0}, {1, 0, 0, 0}}, "interval": []string{"a", "a0!"}, "version": 1,
		"consumers": "GetRange KeysInRange SendKeysInRange ProcessRange keys keyrange keyrangevalues(pb/json/tar) keyvalues(pb/json/tar)"})
	c.Set("rule", "world = (DAG shape, 3 adjacent keys, per-key op vector over the nodes); for every world, version and interval [lo,hi] over 7 endpoints (below, each key, between keys, above; lo>hi included) every range consumer is compared with the three point reads; DeleteRange over every interval at a fresh child version. Non-trivial = world with >= 2 keys holding entries")
	c.Assume("a failed range request is tolerated only when a key inside the interval is in merge conflict at that version (its point read does not succeed)")
}

type c05Want struct {
	keys []string
	vals []string
	// conflict: some key in the interval has a non-succeeding point read
	conflict bool
}

func c05World(c *vlib.Ctx, sh c05Shape, r *kvRepo, in *kvInst, doDelete bool) {
	nonTrivial := 0
	for _, p := range in.patterns {
		for _, o := range p {
			if o != 0 {
				nonTrivial++
				break
			}
		}
	}
	wsig := fmt.Sprintf("%s|%v|%v", sh.name, in.keys, in.patterns)
	if nonTrivial >= 2 {
		c.Nontrivial(wsig)
	}
	data, db, err := kvData(r.uuids[0], in.name)
	if err != nil {
		c.Violate("harness:data", err.Error(), nil)
		return
	}
	kvd := data.(*keyvalue.Data)
	_ = kvd
	ends := c05Endpoints([3]string{in.keys[0], in.keys[1], in.keys[2]})
	anc := sh.spec.ancMasks()
	for v := range r.uuids {
		uuid := r.uuids[v]
		vctx := datastore.NewVersionedCtx(data, r.vids[v])
		pts := make([]pointRead, 3)
		for k := range in.keys {
			pts[k] = kvPoint(uuid, in.name, in.keys[k])
			c.Eval(1)
			// A key whose history leaves two unsuperseded live values at this version is in merge conflict: its point
			// read does not succeed with a value (DVID answers 404), and a range touching it is allowed to fail.
			net := make([]int, len(in.patterns[k]))
			for i, o := range in.patterns[k] {
				net[i] = []int{0, 1, 2, 2, 1}[o]
			}
			if len(c01Expect(anc, net, v)) >= 2 {
				if pts[k].found {
					c.Violate("point:conflict-succeeds", fmt.Sprintf("GET key %q succeeded at version %d although two unsuperseded live values exist (ops %v)", in.keys[k], v, in.patterns[k]), nil)
				}
				pts[k].conflict = true
			}
		}
		for _, lo := range ends {
			for _, hi := range ends {
				var w c05Want
				for k, key := range in.keys {
					if key >= lo && key <= hi {
						if pts[k].conflict {
							w.conflict = true
						}
						if pts[k].found {
							w.keys = append(w.keys, key)
							w.vals = append(w.vals, pts[k].val)
						}
					}
				}
				rep := map[string]interface{}{"shape": sh.name, "dag": sh.spec, "keys": in.keys, "per_key_ops_per_node": in.patterns, "version": v, "lo": lo, "hi": hi, "point_reads": fmt.Sprint(pts)}
				c05Consumers(c, sh, uuid, in, db, vctx, lo, hi, w, rep, lo == ends[0] && hi == ends[len(ends)-1])
			}
		}
		// keyvalues (multi point read) in its three formats
		c05KeyValues(c, uuid, in, pts)
	}
	if doDelete && !c.Thorough() {
		c05DeleteRange(c, sh, r, in, db, data, ends)
	}
	if doDelete && c.Thorough() {
		// thorough deletes in every world, and every child version re-saves the repo blob (bytes written grow with the
		// square of the node count), so the ~65 child versions of one world get a repo of their own
		r1, err := buildKVRepo(sh.spec, []*kvInst{in})
		if r1 != nil {
			defer r1.drop()
		}
		if err != nil {
			c.Violate("harness:build", fmt.Sprintf("%s %v: %v", sh.name, in.keys, err), nil)
			return
		}
		data1, db1, err := kvData(r1.uuids[0], in.name)
		if err != nil {
			c.Violate("harness:data", err.Error(), nil)
			return
		}
		c05DeleteRange(c, sh, r1, in, db1, data1, ends)
	}
}

func c05Fail(c *vlib.Ctx, consumer string, w c05Want, gotK, gotV []string, err error, rep map[string]interface{}) {
	cls := "mismatch"
	if err != nil {
		cls = "error"
	}
	key := fmt.Sprintf("range:%s:%s:lo%s-hi%s", consumer, cls, c05Pos(rep["lo"].(string), rep["keys"].([]string)), c05Pos(rep["hi"].(string), rep["keys"].([]string)))
	c.Violate(key, fmt.Sprintf("%s over [%q,%q] at version %d of %s world keys=%v ops=%v: got keys=%q vals=%q err=%v; point reads give keys=%q vals=%q",
		consumer, rep["lo"], rep["hi"], rep["version"], rep["shape"], rep["keys"], rep["per_key_ops_per_node"], gotK, gotV, err, w.keys, w.vals), rep)
}

// c05Pos classifies an endpoint relative to the world's keys (keeps violation keys structural).
func c05Pos(e string, keys []string) string {
	for i, k := range keys {
		if e == k {
			return fmt.Sprintf("=k%d", i)
		}
		if e < k {
			return fmt.Sprintf("<k%d", i)
		}
	}
	return ">k2"
}

func eqStrs(a, b []string) bool {
	if len(a) != len(b) {
		return false
	}
	for i := range a {
		if a[i] != b[i] {
			return false
		}
	}
	return true
}

func c05Consumers(c *vlib.Ctx, sh c05Shape, uuid string, in *kvInst, db storage.OrderedKeyValueDB, vctx *datastore.VersionedCtx, lo, hi string, w c05Want, rep map[string]interface{}, whole bool) {
	tlo, _ := keyvalue.NewTKey(lo)
	thi, _ := keyvalue.NewTKey(hi)
	check := func(consumer string, gotK, gotV []string, withVals bool, err error) {
		c.Eval(1)
		if err != nil {
			if w.conflict {
				c.Outcome(consumer + ":conflict-error")
				return
			}
			c05Fail(c, consumer, w, gotK, gotV, err, rep)
			return
		}
		if !eqStrs(gotK, w.keys) || withVals && !eqStrs(gotV, w.vals) {
			c05Fail(c, consumer, w, gotK, gotV, nil, rep)
			return
		}
		c.Outcome(fmt.Sprintf("%s:%d", consumer, len(gotK)))
	}
	decode := func(tk storage.TKey) string {
		s, err := keyvalue.DecodeTKey(tk)
		if err != nil {
			return "<bad tkey>"
		}
		return s
	}
	// --- package level ---
	{
		kvs, err := db.GetRange(vctx, tlo, thi)
		var ks, vs []string
		for _, kv := range kvs {
			ks = append(ks, decode(kv.K))
			val, _, derr := dvid.DeserializeData(kv.V, true)
			if derr != nil {
				err = derr
			}
			vs = append(vs, string(val))
		}
		check("GetRange", ks, vs, true, err)
	}
	{
		tks, err := db.KeysInRange(vctx, tlo, thi)
		var ks []string
		for _, tk := range tks {
			ks = append(ks, decode(tk))
		}
		check("KeysInRange", ks, nil, false, err)
	}
	{
		ch := make(storage.KeyChan, 16)
		var ks []string
		done := make(chan struct{})
		go func() {
			for k := range ch {
				if k == nil {
					break
				}
				tk, err := storage.TKeyFromKey(k)
				if err != nil {
					ks = append(ks, "<bad key>")
					continue
				}
				ks = append(ks, decode(tk))
			}
			close(done)
		}()
		err := db.SendKeysInRange(vctx, tlo, thi, ch)
		close(ch)
		<-done
		check("SendKeysInRange", ks, nil, false, err)
	}
	{
		var ks, vs []string
		err := db.ProcessRange(vctx, tlo, thi, &storage.ChunkOp{}, func(ch *storage.Chunk) error {
			if ch == nil || ch.TKeyValue == nil {
				return nil
			}
			ks = append(ks, decode(ch.K))
			val, _, derr := dvid.DeserializeData(ch.V, true)
			if derr != nil {
				return derr
			}
			vs = append(vs, string(val))
			return nil
		})
		check("ProcessRange", ks, vs, true, err)
	}
	// --- HTTP ---
	base := "node/" + uuid + "/" + in.name + "/"
	rng := kvURLKey(lo) + "/" + kvURLKey(hi)
	httpErr := func(x vsrv.Resp) error {
		if x.Code != 200 {
			return fmt.Errorf("HTTP %s", x)
		}
		return nil
	}
	{
		x := vsrv.Get(base + "keyrange/" + rng)
		var ks []string
		err := httpErr(x)
		if err == nil {
			if e := json.Unmarshal(x.Body, &ks); e != nil {
				err = fmt.Errorf("bad JSON %q", x.Body)
			}
		}
		check("keyrange", ks, nil, false, err)
	}
	if whole {
		x := vsrv.Get(base + "keys")
		var ks []string
		err := httpErr(x)
		if err == nil {
			if e := json.Unmarshal(x.Body, &ks); e != nil {
				err = fmt.Errorf("bad JSON %q", x.Body)
			}
		}
		check("keys", ks, nil, false, err)
	}
	{
		x := vsrv.Get(base + "keyrangevalues/" + rng)
		var ks, vs []string
		err := httpErr(x)
		if err == nil {
			var kvs proto.KeyValues
			if e := pb.Unmarshal(x.Body, &kvs); e != nil {
				err = e
			}
			for _, kv := range kvs.Kvs {
				ks = append(ks, kv.Key)
				vs = append(vs, string(kv.Value))
			}
		}
		check("keyrangevalues:protobuf", ks, vs, true, err)
	}
	{
		x := vsrv.Get(base + "keyrangevalues/" + rng + "?json=true")
		ks, vs, err := c05ParseJSONObj(x.Body)
		if e := httpErr(x); e != nil {
			err = e
		}
		check("keyrangevalues:json", ks, vs, true, err)
	}
	{
		x := vsrv.Get(base + "keyrangevalues/" + rng + "?tar=true")
		ks, vs, err := c05ParseTar(x.Body)
		if e := httpErr(x); e != nil {
			err = e
		}
		check("keyrangevalues:tar", ks, vs, true, err)
	}
}

// c05ParseJSONObj parses {"k":v,...} preserving order and duplicates.
func c05ParseJSONObj(b []byte) (ks, vs []string, err error) {
	dec := json.NewDecoder(bytes.NewReader(b))
	tok, err := dec.Token()
	if err != nil {
		return nil, nil, err
	}
	if d, ok := tok.(json.Delim); !ok || d != '{' {
		return nil, nil, fmt.Errorf("not an object: %q", b)
	}
	for dec.More() {
		kt, err := dec.Token()
		if err != nil {
			return ks, vs, err
		}
		var raw json.RawMessage
		if err := dec.Decode(&raw); err != nil {
			return ks, vs, err
		}
		ks = append(ks, kt.(string))
		vs = append(vs, string(raw))
	}
	return ks, vs, nil
}

func c05ParseTar(b []byte) (ks, vs []string, err error) {
	if len(b) == 0 {
		return nil, nil, nil
	}
	// A complete archive ends with two zero blocks; a stream cut short by a mid-scan failure (the 200 status has
	// already been sent by then) does not, and counts as a failed response.
	if len(b) < 1024 || !bytes.Equal(b[len(b)-1024:], make([]byte, 1024)) {
		return nil, nil, fmt.Errorf("tar stream has no end-of-archive marker (truncated response)")
	}
	tr := tar.NewReader(bytes.NewReader(b))
	for {
		h, err := tr.Next()
		if err == io.EOF {
			return ks, vs, nil
		}
		if err != nil {
			return ks, vs, err
		}
		v, _ := io.ReadAll(tr)
		ks = append(ks, h.Name)
		vs = append(vs, string(v))
	}
}

func c05KeyValues(c *vlib.Ctx, uuid string, in *kvInst, pts []pointRead) {
	for _, p := range pts {
		if p.conflict {
			return // a multi-get touching a conflicted key may fail as a whole
		}
	}
	req := []string{in.keys[2], "zz-absent", in.keys[0], in.keys[1]}
	wantV := func(k string, empty string) string {
		for i, kk := range in.keys {
			if kk == k && pts[i].found {
				return pts[i].val
			}
		}
		return empty
	}
	base := "node/" + uuid + "/" + in.name + "/keyvalues"
	fail := func(format, what string) {
		c.Violate("keyvalues:"+format, fmt.Sprintf("GET keyvalues (%s) for keys %q of world %v/%v: %s", format, req, in.keys, in.patterns, what), map[string]interface{}{"keys": in.keys, "per_key_ops_per_node": in.patterns})
	}
	body, _ := json.Marshal(req)
	c.Eval(3)
	x := vsrv.Do("GET", base+"?json=true", body)
	ks, vs, err := c05ParseJSONObj(x.Body)
	if x.Code != 200 || err != nil || !eqStrs(ks, req) {
		fail("json", fmt.Sprintf("%s parsed keys %q err %v", x, ks, err))
	} else {
		for i, k := range ks {
			if vs[i] != wantV(k, "{}") {
				fail("json", fmt.Sprintf("key %q value %q, point read says %q", k, vs[i], wantV(k, "{}")))
			}
		}
	}
	x = vsrv.Do("GET", base+"?tar=true", body)
	ks, vs, err = c05ParseTar(x.Body)
	if x.Code != 200 || err != nil || !eqStrs(ks, req) {
		fail("tar", fmt.Sprintf("code %d parsed keys %q err %v", x.Code, ks, err))
	} else {
		for i, k := range ks {
			if vs[i] != wantV(k, "") {
				fail("tar", fmt.Sprintf("key %q value %q, point read says %q", k, vs[i], wantV(k, "")))
			}
		}
	}
	pk, _ := pb.Marshal(&proto.Keys{Keys: req})
	x = vsrv.Do("GET", base, pk)
	var kvs proto.KeyValues
	if x.Code != 200 || pb.Unmarshal(x.Body, &kvs) != nil || len(kvs.Kvs) != len(req) {
		fail("protobuf", fmt.Sprintf("code %d, %d kvs", x.Code, len(kvs.Kvs)))
	} else {
		for i, kv := range kvs.Kvs {
			if kv.Key != req[i] || string(kv.Value) != wantV(kv.Key, "") {
				fail("protobuf", fmt.Sprintf("entry %d = %q:%q, point read says %q", i, kv.Key, kv.Value, wantV(req[i], "")))
			}
		}
	}
}

// c05DeleteRange: DeleteRange over every interval at a fresh open child of the last node; keys in range must become
// absent there and in a grandchild, others unchanged; ancestors and a sibling child untouched.
func c05DeleteRange(c *vlib.Ctx, sh c05Shape, r *kvRepo, in *kvInst, db storage.OrderedKeyValueDB, data datastore.DataService, ends []string) {
	parent := len(r.uuids) - 1
	snapshot := func(uuid string) []pointRead {
		out := make([]pointRead, 3)
		for k := range in.keys {
			out[k] = kvPoint(uuid, in.name, in.keys[k])
		}
		return out
	}
	parentSnap := snapshot(r.uuids[parent])
	anc := sh.spec.ancMasks()
	conflicted := make([]bool, len(in.keys))
	for k := range in.keys {
		net := make([]int, len(in.patterns[k]))
		for i, o := range in.patterns[k] {
			net[i] = []int{0, 1, 2, 2, 1}[o]
		}
		conflicted[k] = len(c01Expect(anc, net, parent)) >= 2
	}
	beforeAnc := make([][]pointRead, len(r.uuids))
	for v := range r.uuids {
		beforeAnc[v] = snapshot(r.uuids[v])
	}
	sib, err := vsrv.Branch(r.uuids[parent], "sib-"+in.name)
	if err != nil {
		c.Violate("harness:branch", err.Error(), nil)
		return
	}
	pairs := [][2]string{}
	for i, lo := range ends {
		for j, hi := range ends {
			if c.Thorough() || (i+j)%2 == 0 || lo == hi {
				pairs = append(pairs, [2]string{lo, hi})
			}
		}
	}
	for pi, iv := range pairs {
		lo, hi := iv[0], iv[1]
		child, err := vsrv.Branch(r.uuids[parent], fmt.Sprintf("dr-%s-%d", in.name, pi))
		if err != nil {
			c.Violate("harness:branch", err.Error(), nil)
			return
		}
		vid, _ := datastore.VersionFromUUID(dvid.UUID(child))
		tlo, _ := keyvalue.NewTKey(lo)
		thi, _ := keyvalue.NewTKey(hi)
		// every third interval: the child first writes entries of its own over what it inherits (overwrite of key 0,
		// delete of key 1, a first write of key 2 if absent), so the range holds same-version entries and tombstones
		before := parentSnap
		own := pi%3 == 1
		if own {
			vsrv.PostS("node/"+child+"/"+in.name+"/key/"+kvURLKey(in.keys[0]), "own0")
			vsrv.Delete("node/" + child + "/" + in.name + "/key/" + kvURLKey(in.keys[1]))
			vsrv.PostS("node/"+child+"/"+in.name+"/key/"+kvURLKey(in.keys[2]), "own2")
			before = snapshot(child)
		}
		c.Eval(1)
		derr := db.DeleteRange(datastore.NewVersionedCtx(data, vid), tlo, thi)
		rep := map[string]interface{}{"shape": sh.name, "keys": in.keys, "per_key_ops_per_node": in.patterns, "lo": lo, "hi": hi, "child_wrote_own_entries_first": own}
		key := fmt.Sprintf("deleterange:lo%s-hi%s", c05Pos(lo, in.keys), c05Pos(hi, in.keys))
		if own {
			key = "deleterange-after-own-writes:" + strings.TrimPrefix(key, "deleterange:")
		}
		confl := false
		for k, kk := range in.keys {
			if kk >= lo && kk <= hi && conflicted[k] && !own { // own entries at the child supersede every inherited conflict
				confl = true
			}
		}
		if derr != nil {
			if !confl {
				c.Violate(key+":error", fmt.Sprintf("DeleteRange[%q,%q] error %v", lo, hi, derr), rep)
			} else {
				c.Outcome("deleterange-conflict-error")
			}
			continue
		}
		if confl {
			// a conflicted datum inside the interval: the weakest reading allows the request to fail; if it succeeds the
			// keys must still all be absent afterwards, which is checked below.
			c.Outcome("deleterange-over-conflict-succeeded")
		}
		checkAt := func(where, uuid string) {
			got := snapshot(uuid)
			for k, kk := range in.keys {
				want := before[k]
				if kk >= lo && kk <= hi {
					want = pointRead{}
				}
				if got[k] != want {
					c.Violate(key+":"+where, fmt.Sprintf("after DeleteRange[%q,%q] in a child of node %d (%s world keys=%v ops=%v): key %q reads %+v at the %s, want %+v", lo, hi, parent, sh.name, in.keys, in.patterns, kk, got[k], where, want), rep)
				}
			}
		}
		checkAt("version", child)
		if pi%5 == 0 || lo == ends[0] && hi == ends[len(ends)-1] {
			vsrv.Commit(child)
			gc, err := vsrv.NewVersion(child)
			if err == nil {
				checkAt("descendant", gc)
			}
		}
		// ancestors and sibling untouched
		if s := snapshot(sib); fmt.Sprint(s) != fmt.Sprint(parentSnap) {
			c.Violate(key+":sibling", fmt.Sprintf("DeleteRange[%q,%q] in one child changed its sibling: %v -> %v", lo, hi, parentSnap, s), rep)
		}
		for v := range r.uuids {
			if s := snapshot(r.uuids[v]); fmt.Sprint(s) != fmt.Sprint(beforeAnc[v]) {
				c.Violate(key+":ancestor", fmt.Sprintf("DeleteRange[%q,%q] in a child changed node %d: %v -> %v", lo, hi, v, beforeAnc[v], s), rep)
			}
		}
		c.Outcome("deleterange-ok")
	}
}

var _ = sort.Strings
var _ = strings.Join
