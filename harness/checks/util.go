package checks

import "os"

func getenv(k string) string { return os.Getenv(k) }

// mkTemp makes a scratch directory on tmpfs when available.
func mkTemp(prefix string) (string, error) {
	d, err := os.MkdirTemp("/dev/shm", "verif-"+prefix+"-")
	if err != nil {
		d, err = os.MkdirTemp("", "verif-"+prefix+"-")
	}
	return d, err
}

func rmAll(d string) { os.RemoveAll(d) }
