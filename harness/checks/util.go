package checks

import (
	"os"

	"verif/vlib"
)

func getenv(k string) string { return os.Getenv(k) }

// mkTemp makes a scratch directory (see vlib.ScratchBase).
func mkTemp(prefix string) (string, error) {
	return vlib.MkScratch(prefix)
}

func rmAll(d string) { os.RemoveAll(d) }
