package checks

// C16 Neuron annotations: the in-memory head equals the store; updates merge fields.
//
// Explicit-state BFS over neuronjson request histories, driven through the in-process HTTP API. A state is the request
// list that reaches it; a successor is built by replaying that list plus one request on a fresh repo + instance.
// After every step three oracles are evaluated:
//   (A) path differential: the harness commits the open node and creates a new version, so that the committed parent is
//       answered from the persistent store and the new head from the in-memory copy while both hold identical data; every
//       read endpoint must give the same answer for the two uuids (as multisets: the two paths document different orders);
//   (B) reference model map[id]map[field]value updated by the documented rules (unmentioned fields kept unless replace,
//       null removes the value, _user/_time unchanged when the value is unchanged); every read endpoint of every
//       snapshotted version is compared with the answer computed from the model;
//   (C) restart: the same histories are built by one process, which exits; a fresh process opens the same directory and
//       must give the same answers (same order too) for the head; it then performs the next request and (A)+(B) again.
//
// The code of the oracles and reference model is in c16model.go (model, expected answers) and c16snap.go (requests, parsing,
// comparison); this file holds the alphabet, the world driver, the workers and the BFS.

import (
	"encoding/json"
	"fmt"
	"os"
	"path/filepath"
	"sort"
	"strings"

	pb "google.golang.org/protobuf/proto"

	"github.com/janelia-flyem/dvid/datastore"
	"github.com/janelia-flyem/dvid/datatype/common/proto"
	"github.com/janelia-flyem/dvid/dvid"

	"verif/vlib"
	"verif/vsrv"
)

func init() {
	vlib.Register("C16", "model_checking", runC16)
	vlib.Workers["c16"] = c16Worker
	vlib.Workers["c16ra"] = c16RestartA
	vlib.Workers["c16rb"] = c16RestartB
}

const c16Inst = "nj"

// c16Schema is the validation schema of the "jschema" request: field b must be an integer (DVID converts numeric strings).
const c16Schema = `{"type":"object","properties":{"b":{"type":"integer"}}}`

// c16Op is one symbolic request of a history.
type c16Op struct {
	K  string `json:"k"`            // post | del | kvs | jschema | cnv | branch
	ID uint64 `json:"id,omitempty"` // body id (post, del)
	B  string `json:"b,omitempty"`  // post: the posted fields without bodyid, e.g. "a":"x" ; kvs: name of the batch
	Q  string `json:"q,omitempty"`  // "", "replace", "cond:a"
}

func (o c16Op) String() string {
	switch o.K {
	case "post":
		s := fmt.Sprintf("POST key/%d {%s}", o.ID, o.B)
		if o.Q != "" {
			s += " ?" + o.Q
		}
		return s
	case "del":
		return fmt.Sprintf("DELETE key/%d", o.ID)
	case "kvs":
		s := "POST keyvalues " + o.B
		if o.Q != "" {
			s += " ?" + o.Q
		}
		return s
	case "jschema":
		return "POST json_schema"
	case "cnv":
		return "commit+newversion"
	case "branch":
		return "commit+branch"
	case "RESTART":
		return "RESTART"
	}
	return o.K
}

func c16PathString(p []c16Op) string {
	s := make([]string, len(p))
	for i, o := range p {
		s[i] = o.String()
	}
	return strings.Join(s, " ; ")
}

// c16KV is one element of a keyvalues batch.
type c16KV struct {
	ID uint64
	B  string
}

var c16Batches = map[string][]c16KV{
	"kvA": {{2, `"a":"x"`}, {10, `"b":8`}},
	"kvB": {{10, `"a":"y"`}, {2, `"a":null`}, {10, `"a":"y"`}},
}

type c16Bounds struct {
	Thorough bool
	IDs      []uint64
	Depth    int
	MaxCNV   int
	Branch   bool
	// RestartContinueDepth: after a restart every request of the alphabet is issued from the states reached by at most this
	// many requests; deeper states are rebuilt, restarted and re-read only.
	RestartContinueDepth int
}

func c16GetBounds(thorough bool) c16Bounds {
	if thorough {
		return c16Bounds{Thorough: true, IDs: []uint64{2, 10, 1}, Depth: 4, MaxCNV: 2, Branch: true, RestartContinueDepth: 2}
	}
	return c16Bounds{IDs: []uint64{2, 10}, Depth: 4, MaxCNV: 1, RestartContinueDepth: 3}
}

// c16Alphabet lists the requests tried from the state reached by path, simplest first.
func c16Alphabet(path []c16Op, b c16Bounds) []c16Op {
	type bq struct{ B, Q string }
	bodies := []bq{
		{`"a":"x"`, ""},
		{`"a":"y"`, ""},
		{`"a":null`, ""},
		{`"b":"7"`, ""},
		{`"b":8`, "replace"},
		{`"a":"y","b":8`, "cond:a"},
		{`"a":"x","a_user":"zed"`, ""},
		{`"b":7.0`, ""}, // an integral number in float notation: the request parse keeps a float, the store returns an integer
	}
	if b.Thorough {
		bodies = append(bodies,
			bq{`"a":[1,2]`, ""},
			bq{`"a":{"k":"v"}`, ""},
			bq{`"a":"x","b":null`, ""},
			bq{`"a":"x"`, "replace"},
			bq{`"a":2.0`, ""},
		)
	}
	var ops []c16Op
	for _, body := range bodies {
		for _, id := range b.IDs {
			ops = append(ops, c16Op{K: "post", ID: id, B: body.B, Q: body.Q})
		}
	}
	for _, id := range b.IDs {
		ops = append(ops, c16Op{K: "del", ID: id})
	}
	ops = append(ops, c16Op{K: "kvs", B: "kvA"})
	if b.Thorough {
		ops = append(ops, c16Op{K: "kvs", B: "kvB", Q: "replace"})
	}
	ncnv, nbranch, nschema := 0, 0, 0
	for _, o := range path {
		switch o.K {
		case "cnv":
			ncnv++
		case "branch":
			nbranch++
		case "jschema":
			nschema++
		}
	}
	if nschema == 0 {
		ops = append(ops, c16Op{K: "jschema"})
	}
	if ncnv < b.MaxCNV {
		ops = append(ops, c16Op{K: "cnv"})
	}
	if b.Branch && nbranch == 0 {
		ops = append(ops, c16Op{K: "branch"})
	}
	return ops
}

// ---- world ----

type c16Node struct {
	UUID   string    `json:"uuid"`
	Parent int       `json:"parent"`
	Branch string    `json:"branch"`
	Locked bool      `json:"locked"`
	M      *c16Model `json:"m"`
}

// c16World is the harness's mirror of one history: the versions it created, the model of each, the open node.
type c16World struct {
	Root  string    `json:"root"`
	Nodes []c16Node `json:"nodes"`
	Cur   int       `json:"cur"`
	Step  int       `json:"step"` // index of the next mutating request; request i is made by user "u<i>"
	IDs   []uint64  `json:"ids"`
}

func c16NewWorld(ids []uint64) (*c16World, error) {
	root, err := vsrv.NewRepo()
	if err != nil {
		return nil, err
	}
	if err := vsrv.NewInstance(root, "neuronjson", c16Inst, nil); err != nil {
		return nil, err
	}
	return &c16World{Root: root, Nodes: []c16Node{{UUID: root, Parent: -1, M: c16NewModel()}}, IDs: ids}, nil
}

func (w *c16World) drop() {
	if w != nil && w.Root != "" {
		datastore.DeleteRepo(dvid.UUID(w.Root), "")
	}
}

func (w *c16World) cur() *c16Node { return &w.Nodes[w.Cur] }

func (w *c16World) url(node int, rest string) string {
	return "node/" + w.Nodes[node].UUID + "/" + c16Inst + "/" + rest
}

// c16Step is what one request did.
type c16Step struct {
	Code     int
	Body     string
	Expected bool                         // the model expected the request to be accepted
	Reasons  map[uint64]map[string]string // per touched record: why the model holds each slot's value
	Err      string                       // harness-level problem (commit / newversion failed)
}

func c16PostBody(id uint64, b string) string {
	if b == "" {
		return fmt.Sprintf(`{"bodyid":%d}`, id)
	}
	return fmt.Sprintf(`{"bodyid":%d,%s}`, id, b)
}

func c16Query(user, q string) string {
	s := "?u=" + user
	switch {
	case q == "replace":
		s += "&replace=true"
	case strings.HasPrefix(q, "cond:"):
		s += "&conditionals=" + strings.TrimPrefix(q, "cond:")
	}
	return s
}

// advance commits the open node and opens a child (same branch, or a new branch).
func (w *c16World) advance(branch string) error {
	c := w.cur()
	if err := vsrv.Commit(c.UUID); err != nil {
		return err
	}
	c.Locked = true
	var child string
	var err error
	br := c.Branch
	if branch != "" {
		child, err = vsrv.Branch(c.UUID, branch)
		br = branch
	} else {
		child, err = vsrv.NewVersion(c.UUID)
	}
	if err != nil {
		return err
	}
	w.Nodes = append(w.Nodes, c16Node{UUID: child, Parent: w.Cur, Branch: br, M: c.M.clone()})
	w.Cur = len(w.Nodes) - 1
	return nil
}

// exec performs one request of the alphabet on the open node and applies it to the model of that node.
func (w *c16World) exec(op c16Op) c16Step {
	st := c16Step{Expected: true, Reasons: map[uint64]map[string]string{}}
	m := w.cur().M
	user := fmt.Sprintf("u%d", w.Step)
	switch op.K {
	case "post":
		w.Step++
		r := vsrv.PostS(w.url(w.Cur, fmt.Sprintf("key/%d", op.ID))+c16Query(user, op.Q), c16PostBody(op.ID, op.B))
		st.Code, st.Body = r.Code, string(r.Body)
		ok, reasons := m.post(op.ID, op.B, op.Q, user, true)
		st.Expected = ok
		if r.OK() && ok {
			m.post(op.ID, op.B, op.Q, user, false)
			st.Reasons[op.ID] = reasons
		}
	case "del":
		w.Step++
		r := vsrv.Delete(w.url(w.Cur, fmt.Sprintf("key/%d", op.ID)) + "?u=" + user)
		st.Code, st.Body = r.Code, string(r.Body)
		if r.OK() {
			delete(m.Recs, op.ID)
			st.Reasons[op.ID] = map[string]string{"*": "deleted"}
		}
	case "kvs":
		w.Step++
		var kvs proto.KeyValues
		for _, kv := range c16Batches[op.B] {
			kvs.Kvs = append(kvs.Kvs, &proto.KeyValue{Key: fmt.Sprint(kv.ID), Value: []byte(c16PostBody(kv.ID, kv.B))})
		}
		ser, _ := pb.Marshal(&kvs)
		r := vsrv.Post(w.url(w.Cur, "keyvalues")+c16Query(user, op.Q), ser)
		st.Code, st.Body = r.Code, string(r.Body)
		// the batch is applied element by element; the first element the model refuses stops it
		trial := m.clone()
		for _, kv := range c16Batches[op.B] {
			ok, reasons := trial.post(kv.ID, kv.B, op.Q, user, false)
			if !ok {
				st.Expected = false
				break
			}
			if prev, seen := st.Reasons[kv.ID]; seen {
				for slot, why := range prev {
					if _, again := reasons[slot]; !again {
						reasons[slot] = why
					}
				}
			}
			st.Reasons[kv.ID] = reasons
		}
		if r.OK() && st.Expected {
			*m = *trial
		} else {
			st.Reasons = map[uint64]map[string]string{}
		}
	case "jschema":
		w.Step++
		r := vsrv.PostS(w.url(w.Cur, "json_schema")+"?u="+user, c16Schema)
		st.Code, st.Body = r.Code, string(r.Body)
		if r.OK() {
			m.Schema = true
		}
	case "cnv":
		if err := w.advance(""); err != nil {
			st.Err = err.Error()
		}
		st.Code = 200
	case "branch":
		if err := w.advance("b1"); err != nil {
			st.Err = err.Error()
		}
		st.Code = 200
	default:
		st.Err = "unknown op " + op.K
	}
	return st
}

// c16Viol is one oracle failure.
type c16Viol struct {
	Key  string `json:"key"`
	What string `json:"what"`
}

// c16Report collects what the oracles saw on one transition.
type c16Report struct {
	Viol     []c16Viol
	Notes    []c16Viol // both paths agree with each other but not with the reference model: recorded, not a violation
	Evals    int64
	Outcomes map[string]bool
	Canon    string // canonical state after the step (for dedupe)
	Records  int    // number of annotations at the head
	Rules    map[string]int
	Sample   map[string]interface{}
}

func (r *c16Report) note(key, what string) {
	for _, v := range r.Notes {
		if v.Key == key {
			return
		}
	}
	r.Notes = append(r.Notes, c16Viol{key, what})
}

func (r *c16Report) violate(key, what string) {
	for _, v := range r.Viol {
		if v.Key == key {
			return
		}
	}
	r.Viol = append(r.Viol, c16Viol{key, what})
}

// check evaluates the oracles after a step: expectation on the response, hand-over (commit + newversion) on this copy of
// the history, snapshots of the committed parent and the new head, comparison with the model and with each other.
// suffix is appended to every violation key (":after-restart" in the restart phase).
func (w *c16World) check(op c16Op, st c16Step, rep *c16Report, suffix string) {
	if rep.Outcomes == nil {
		rep.Outcomes = map[string]bool{}
	}
	rep.Outcomes[fmt.Sprintf("%s:%d", op.K, st.Code)] = true
	if st.Err != "" {
		rep.violate("harness:dag-op"+suffix, fmt.Sprintf("%s failed: %s", op, st.Err))
		return
	}
	if st.Code >= 500 {
		rep.violate("B:server-error:"+op.K+suffix, fmt.Sprintf("%s answered %d %q", op, st.Code, c16Trunc(st.Body, 300)))
		return
	}
	if st.Expected && st.Code >= 400 {
		rep.violate("B:refused:"+op.K+c16OpClass(op)+suffix, fmt.Sprintf("well-formed %s was refused: %d %q", op, st.Code, c16Trunc(st.Body, 300)))
		return
	}
	if !st.Expected && st.Code < 400 {
		rep.violate("B:accepted-invalid:"+op.K+c16OpClass(op)+suffix, fmt.Sprintf("%s violates the posted JSON schema but was accepted (%d)", op, st.Code))
		return
	}
	// hand-over on this copy of the history
	parent := w.Cur
	if err := w.advance(""); err != nil {
		rep.violate("harness:dag-op"+suffix, fmt.Sprintf("hand-over after %s failed: %v", op, err))
		return
	}
	head := w.Cur
	model := w.Nodes[head].M
	reqs := c16Requests(w.IDs)
	ps := c16Snapshot(w, parent, reqs)
	hs := c16Snapshot(w, head, reqs)
	rep.Evals += int64(2 * len(reqs))

	// adopt what the statement leaves open (time strings of changed fields, stamps left behind by a null) from the store path
	obs := c16ObservedRecords(ps, reqs, w.IDs)
	for _, v := range model.adopt(obs, st.Reasons) {
		rep.violate(v.Key+suffix, v.What)
	}
	w.Nodes[parent].M = model.clone()

	// (B) record-level rules on both paths
	for _, side := range []struct {
		name string
		snap c16Snap
	}{{"store", ps}, {"mem", hs}} {
		got := c16ObservedRecords(side.snap, reqs, w.IDs)
		var baseline map[uint64]c16Rec
		if side.name == "mem" {
			baseline = obs
		}
		for _, v := range model.compareRecords(got, st.Reasons, side.name, baseline) {
			rep.violate(v.Key+suffix, v.What)
		}
	}
	// which update rules this step exercised (evidence of non-vacuity)
	if rep.Rules == nil {
		rep.Rules = map[string]int{}
	}
	used := map[string]bool{}
	for _, why := range st.Reasons {
		for _, r := range why {
			used[r] = true
		}
	}
	var rules []string
	for r := range used {
		rep.Rules[r]++
		rules = append(rules, r)
	}
	sort.Strings(rules)
	if len(rules) > 0 {
		rep.Outcomes[op.K+":rules:"+strings.Join(rules, "+")] = true
	}
	// (A) + (B) endpoint by endpoint
	onMaster := w.Nodes[head].Branch == ""
	for i, rq := range reqs {
		exp := rq.expect(model, false)
		expStore := rq.expect(model, true)
		c16Compare(rep, rq, hs[i], ps[i], exp, expStore, onMaster, suffix)
	}
	// other versions must still answer what their own model says (a write must not leak into another version's copy)
	lite := c16LiteRequests(w.IDs)
	for n := range w.Nodes {
		if n == parent || n == head {
			continue
		}
		s := c16Snapshot(w, n, lite)
		rep.Evals += int64(len(lite))
		for i, rq := range lite {
			exp := rq.expect(w.Nodes[n].M, false)
			if exp != nil && s[i].canon() != exp.canon() {
				rep.violate("B:other-version:"+rq.Class+suffix, fmt.Sprintf("after %s on the open node, version #%d (%s) answers %s differently from its own history: got %s, reference %s",
					op, n, c16NodeKind(w, n), rq.Label, s[i].raw(), exp.raw()))
			}
		}
	}
	sample := map[string]interface{}{"request": op.String(), "status": st.Code, "reference_records": func() map[string]string {
		m := map[string]string{}
		for id, r := range model.Recs {
			m[fmt.Sprint(id)] = c16RecString(r)
		}
		return m
	}()}
	for i, rq := range reqs {
		switch rq.Label {
		case "keys", "all?show=all", "fields?counts=true", "keyrange/2/10", "query?onlyid=true " + c16Queries()[3].JSON:
			sample[rq.Label] = map[string]string{"store_path_parent": ps[i].raw(), "memory_path_head": hs[i].raw()}
		}
	}
	rep.Sample = sample
	rep.Canon = c16CanonState(w, hs, ps, reqs)
	rep.Records = len(model.Recs)
}

func c16NodeKind(w *c16World, n int) string {
	k := "committed"
	if !w.Nodes[n].Locked {
		k = "open"
	}
	if w.Nodes[n].Branch != "" {
		return k + ", branch " + w.Nodes[n].Branch
	}
	return k + ", master"
}

func c16OpClass(op c16Op) string {
	if op.Q != "" {
		return ":" + strings.SplitN(op.Q, ":", 2)[0]
	}
	return ""
}

func c16Trunc(s string, n int) string {
	if len(s) > n {
		return s[:n] + "..."
	}
	return s
}

// c16Build replays a path on a fresh world without evaluating oracles, adopting open slots from the open node's own answers.
func c16Build(path []c16Op, ids []uint64) (*c16World, error) {
	w, err := c16NewWorld(ids)
	if err != nil {
		return nil, err
	}
	for _, op := range path {
		st := w.exec(op)
		if st.Err != "" {
			return w, fmt.Errorf("%s: %s", op, st.Err)
		}
		if op.K == "post" || op.K == "kvs" {
			obs := map[uint64]c16Rec{}
			for _, id := range w.IDs {
				r := vsrv.Get(w.url(w.Cur, fmt.Sprintf("key/%d?show=all", id)))
				if r.Code == 200 {
					if rec, err := c16ParseObj(r.Body); err == nil {
						obs[id] = rec
					}
				}
			}
			w.cur().M.adopt(obs, st.Reasons)
		}
	}
	return w, nil
}

// ---- BFS worker ----

type c16Job struct {
	Path     []c16Op `json:"path"`
	Thorough bool    `json:"thorough"`
	Only     *c16Op  `json:"only,omitempty"` // replay: explore this request only
}

type c16Succ struct {
	Op      c16Op  `json:"op"`
	Canon   string `json:"canon"`
	Records int    `json:"records"`
}

type c16Result struct {
	Transitions int                    `json:"transitions"`
	Evals       int64                  `json:"evals"`
	Viol        []c16RViol             `json:"viol,omitempty"`
	Notes       []c16RViol             `json:"notes,omitempty"`
	Succ        []c16Succ              `json:"succ,omitempty"`
	Outcomes    []string               `json:"outcomes,omitempty"`
	Rules       map[string]int         `json:"rules,omitempty"`
	Sample      map[string]interface{} `json:"sample,omitempty"`
	Err         string                 `json:"err,omitempty"`
}

type c16RViol struct {
	Key  string  `json:"key"`
	What string  `json:"what"`
	Path []c16Op `json:"path"`
}

func c16Worker(args []string) int {
	dir, err := mkTemp("c16w")
	if err != nil {
		fmt.Println(`{"err":"tmpdir"}`)
		return 1
	}
	defer rmAll(dir)
	if err := vsrv.Boot(dir, vsrv.Options{}); err != nil {
		fmt.Printf("{\"err\":%q}\n", err.Error())
		return 1
	}
	return vlib.ServeJobs(func(job string) string {
		var j c16Job
		var res c16Result
		if err := json.Unmarshal([]byte(job), &j); err != nil {
			res.Err = err.Error()
			b, _ := json.Marshal(res)
			return string(b)
		}
		b := c16GetBounds(j.Thorough)
		outcomes := map[string]bool{}
		alphabet := c16Alphabet(j.Path, b)
		if j.Only != nil {
			alphabet = []c16Op{*j.Only}
		}
		for _, op := range alphabet {
			w, err := c16Build(j.Path, b.IDs)
			if err != nil {
				res.Err = err.Error()
				w.drop()
				break
			}
			st := w.exec(op)
			var rep c16Report
			w.check(op, st, &rep, "")
			w.drop()
			res.Transitions++
			res.Evals += rep.Evals
			full := append(append([]c16Op{}, j.Path...), op)
			for _, v := range rep.Viol {
				res.Viol = append(res.Viol, c16RViol{v.Key, v.What, full})
			}
			for _, v := range rep.Notes {
				res.Notes = append(res.Notes, c16RViol{v.Key, v.What, full})
			}
			for o := range rep.Outcomes {
				outcomes[o] = true
			}
			for r, n := range rep.Rules {
				if res.Rules == nil {
					res.Rules = map[string]int{}
				}
				res.Rules[r] += n
			}
			if len(full) == 3 && res.Sample == nil && rep.Sample != nil && op.K == "post" && full[0].K == "post" && full[1].K == "post" {
				rep.Sample["history"] = c16PathString(full)
				res.Sample = rep.Sample
			}
			if rep.Canon != "" {
				res.Succ = append(res.Succ, c16Succ{Op: op, Canon: rep.Canon, Records: rep.Records})
			}
		}
		for o := range outcomes {
			res.Outcomes = append(res.Outcomes, o)
		}
		sort.Strings(res.Outcomes)
		out, _ := json.Marshal(res)
		return string(out)
	})
}

// ---- restart phase ----

// c16RItem is one history of the restart phase: Path is built before the restart, Next (if any) is issued after it.
type c16RItem struct {
	Path []c16Op `json:"path"`
	Next *c16Op  `json:"next,omitempty"`
}

type c16RState struct {
	Item  c16RItem          `json:"item"`
	World *c16World         `json:"world"`
	Head  map[string]string `json:"head"` // label -> ordered rendering of the open node's answers before the restart
	Err   string            `json:"err,omitempty"`
}

// c16RestartA builds every history of the batch in one store and writes the answers of each open node to the state file.
func c16RestartA(args []string) int {
	dir, thorough := args[0], args[1] == "thorough"
	b := c16GetBounds(thorough)
	raw, err := os.ReadFile(filepath.Join(dir, "items.json"))
	if err != nil {
		fmt.Println("ERR", err)
		return 1
	}
	var items []c16RItem
	if err := json.Unmarshal(raw, &items); err != nil {
		fmt.Println("ERR", err)
		return 1
	}
	if err := vsrv.Boot(dir, vsrv.Options{}); err != nil {
		fmt.Println("ERR boot:", err)
		return 1
	}
	states := make([]c16RState, len(items))
	reqs := c16Requests(b.IDs)
	for i, it := range items {
		states[i].Item = it
		w, err := c16Build(it.Path, b.IDs)
		if err != nil {
			states[i].Err = err.Error()
			continue
		}
		states[i].World = w
		if i > 0 && it.Next != nil && c16PathString(items[i-1].Path) == c16PathString(it.Path) && states[i-1].Head != nil {
			continue // another copy of the state that the previous item re-reads
		}
		s := c16Snapshot(w, w.Cur, reqs)
		states[i].Head = map[string]string{}
		for k, rq := range reqs {
			states[i].Head[rq.Label] = s[k].raw()
		}
	}
	out, _ := json.Marshal(states)
	if err := os.WriteFile(filepath.Join(dir, "states.json"), out, 0644); err != nil {
		fmt.Println("ERR", err)
		return 1
	}
	fmt.Println("DONE-A")
	return 0 // the process ends without closing the stores: an idle server that is stopped
}

// c16RestartB is the restarted server: same directory, fresh process.
func c16RestartB(args []string) int {
	dir, thorough := args[0], args[1] == "thorough"
	b := c16GetBounds(thorough)
	raw, err := os.ReadFile(filepath.Join(dir, "states.json"))
	if err != nil {
		fmt.Println("ERR", err)
		return 1
	}
	var states []c16RState
	if err := json.Unmarshal(raw, &states); err != nil {
		fmt.Println("ERR", err)
		return 1
	}
	if err := vsrv.Boot(dir, vsrv.Options{}); err != nil {
		fmt.Printf("RESULT %s\n", c16JSON(c16Result{Viol: []c16RViol{{"C:restart:boot-failed", "the restarted server could not open the stores: " + err.Error(), nil}}}))
		fmt.Println("DONE-B")
		return 0
	}
	reqs := c16Requests(b.IDs)
	var res c16Result
	outcomes := map[string]bool{}
	for _, s := range states {
		if s.Err != "" || s.World == nil {
			res.Err = s.Err
			continue
		}
		w := s.World
		full := append(append([]c16Op{}, s.Item.Path...), c16Op{K: "RESTART"})
		hist := c16PathString(full)
		var after c16Snap
		if s.Head != nil {
			after = c16Snapshot(w, w.Cur, reqs)
			res.Evals += int64(len(reqs))
			res.Transitions++
		}
		model := w.cur().M
		onMaster := w.cur().Branch == ""
		for k, rq := range reqs {
			if s.Head == nil {
				break
			}
			got, want := after[k].raw(), s.Head[rq.Label]
			if got == want {
				continue
			}
			kind := "order"
			if c16SortedRaw(got) != c16SortedRaw(want) {
				kind = "content"
			} else if !c16Ordered(rq.Class) {
				continue // all, fields, counts are produced from Go maps: their order carries no information
			}
			path := "mem"
			if !onMaster {
				path = "store"
			}
			side := ""
			if exp := rq.expect(model, !onMaster); exp != nil && kind == "content" {
				switch {
				case exp.canon() == after[k].canon():
					side = ":before-restart-deviates"
				case c16SortedRaw(exp.raw()) == c16SortedRaw(want):
					side = ":after-restart-deviates"
				}
			}
			res.Viol = append(res.Viol, c16RViol{"C:restart:" + rq.Class + ":" + kind + side,
				fmt.Sprintf("the open node (%s path) answers %s differently after a restart: before %s, after %s | history: %s", path, rq.Label, want, got, hist), full})
		}
		if s.Item.Next != nil {
			op := *s.Item.Next
			st := w.exec(op)
			var rep c16Report
			w.check(op, st, &rep, ":after-restart")
			res.Evals += rep.Evals
			res.Transitions++
			full = append(full, op)
			for _, v := range rep.Viol {
				res.Viol = append(res.Viol, c16RViol{v.Key, v.What + " | history: " + c16PathString(full), full})
			}
			for _, v := range rep.Notes {
				res.Notes = append(res.Notes, c16RViol{v.Key, v.What + " | history: " + c16PathString(full), full})
			}
			for o := range rep.Outcomes {
				outcomes["after-restart:"+o] = true
			}
		}
	}
	for o := range outcomes {
		res.Outcomes = append(res.Outcomes, o)
	}
	sort.Strings(res.Outcomes)
	// keep the first violation of each key only
	seen := map[string]bool{}
	var vs []c16RViol
	for _, v := range res.Viol {
		if !seen[v.Key] {
			seen[v.Key] = true
			vs = append(vs, v)
		}
	}
	res.Viol = vs
	var ns []c16RViol
	for _, v := range res.Notes {
		if !seen["note:"+v.Key] {
			seen["note:"+v.Key] = true
			ns = append(ns, v)
		}
	}
	res.Notes = ns
	fmt.Printf("RESULT %s\n", c16JSON(res))
	fmt.Println("DONE-B")
	return 0
}

func c16JSON(v interface{}) string {
	b, _ := json.Marshal(v)
	return string(b)
}

func c16SortedRaw(s string) string {
	parts := strings.Split(s, " ")
	sort.Strings(parts)
	return strings.Join(parts, " ")
}

// c16Ordered reports whether the order of an answer of this class is meaningful on the in-memory path.
func c16Ordered(class string) bool {
	switch class {
	case "all", "fields", "counts":
		return false
	}
	return true
}

type c16BatchResult struct {
	res  c16Result
	fail string
}

// c16RestartBatch builds the histories of items in one process, lets it end, and re-reads / continues them in a second
// process on the same directory.
func c16RestartBatch(items []c16RItem, tier string) (out c16BatchResult) {
	dir, err := mkTemp("c16r")
	if err != nil {
		out.fail = "tmpdir: " + err.Error()
		return
	}
	defer rmAll(dir)
	os.WriteFile(filepath.Join(dir, "items.json"), []byte(c16JSON(items)), 0644)
	a := vlib.RunWorker("c16ra", []string{dir, tier}, nil)
	if a.LastLineWith("DONE-A") == "" {
		out.fail = "phase A (building the histories) died: " + tail(strings.Join(a.Lines, " ")+" "+a.Stderr, 1200)
		return
	}
	bb := vlib.RunWorker("c16rb", []string{dir, tier}, nil)
	line := bb.LastLineWith("RESULT ")
	if bb.LastLineWith("DONE-B") == "" || line == "" {
		out.res.Viol = append(out.res.Viol, c16RViol{"C:restart:server-died", "the restarted server died while re-reading / continuing the histories: " + tail(strings.Join(bb.Lines, " ")+" "+bb.Stderr, 1500), items[0].Path})
		return
	}
	if err := json.Unmarshal([]byte(strings.TrimPrefix(line, "RESULT ")), &out.res); err != nil {
		out.fail = "phase B result: " + err.Error()
	}
	return
}

// c16Replay re-executes one recorded history (the replay file of a violation) without the explorer.
func c16Replay(c *vlib.Ctx) {
	raw, err := os.ReadFile(c.ReplayFile)
	if err != nil {
		c.Violate("harness:replay-file", err.Error(), nil)
		return
	}
	var f struct {
		Replay struct {
			History []c16Op `json:"history"`
		} `json:"replay"`
	}
	if err := json.Unmarshal(raw, &f); err != nil || len(f.Replay.History) == 0 {
		c.Violate("harness:replay-file", fmt.Sprintf("no history in %s: %v", c.ReplayFile, err), nil)
		return
	}
	h := f.Replay.History
	report := func(vs []c16RViol) {
		for _, v := range vs {
			what := v.What
			if !strings.Contains(what, "| history:") {
				what += " | history: " + c16PathString(v.Path)
			}
			c.Violate(v.Key, what, map[string]interface{}{"history": v.Path, "history_text": c16PathString(v.Path)})
		}
	}
	c.Set("replayed_history", c16PathString(h))
	for i, op := range h {
		if op.K != "RESTART" {
			continue
		}
		item := c16RItem{Path: h[:i]}
		if i+1 < len(h) {
			next := h[i+1]
			item.Next = &next
		}
		r := c16RestartBatch([]c16RItem{item}, c.Tier)
		if r.fail != "" {
			c.Violate("harness:restart-phase", r.fail, nil)
		}
		c.Eval(r.res.Evals)
		report(r.res.Viol)
		return
	}
	last := h[len(h)-1]
	res := vlib.Pool("c16", nil, 1, []string{c16JSON(c16Job{Path: h[:len(h)-1], Thorough: c.Thorough(), Only: &last})})
	var r c16Result
	if res[0].Died || json.Unmarshal([]byte(res[0].Out), &r) != nil {
		c.Violate("worker-death", "replay worker died: "+tail(res[0].Stderr, 1500), nil)
		return
	}
	c.Eval(r.Evals)
	report(r.Viol)
}

// ---- the check ----

func runC16(c *vlib.Ctx) {
	if c.ReplayFile != "" {
		c16Replay(c)
		return
	}
	b := c16GetBounds(c.Thorough())
	type st struct {
		path []c16Op
	}
	seen := map[string]bool{}
	frontier := []st{{path: nil}}
	var expanded []st // every state whose successors were explored (restart phase revisits them)
	var states, transitions int64 = 1, 0
	notes := map[string]string{}
	ruleCounts := map[string]int64{}
	nSamples := 0
	var nNotes int64
	note := func(vs []c16RViol) {
		for _, v := range vs {
			nNotes++
			if _, ok := notes[v.Key]; !ok && len(notes) < 40 {
				what := v.What
				if !strings.Contains(what, "| history:") {
					what += " | history: " + c16PathString(v.Path)
				}
				notes[v.Key] = c16Trunc(what, 600)
			}
		}
	}
	bfsKeys := map[string]map[string]bool{} // history -> violation keys seen without a restart
	report := func(v c16RViol) {
		hist := c16PathString(v.Path)
		if strings.HasSuffix(v.Key, ":after-restart") {
			// the same request sequence without the restart is part of the BFS: a violation that it shows too is not
			// specific to the restart and keeps its plain key
			var twin []c16Op
			for _, o := range v.Path {
				if o.K != "RESTART" {
					twin = append(twin, o)
				}
			}
			plain := strings.TrimSuffix(v.Key, ":after-restart")
			if bfsKeys[c16PathString(twin)][plain] {
				v.Key = plain
			}
		} else if !strings.HasPrefix(v.Key, "C:") {
			if bfsKeys[hist] == nil {
				bfsKeys[hist] = map[string]bool{}
			}
			bfsKeys[hist][v.Key] = true
		}
		what := v.What
		if !strings.Contains(what, "| history:") {
			what += " | history: " + hist
		}
		c.Violate(v.Key, what, map[string]interface{}{"history": v.Path, "history_text": hist})
	}
	for d := 1; d <= b.Depth && len(frontier) > 0; d++ {
		jobs := make([]string, len(frontier))
		for i, f := range frontier {
			jobs[i] = c16JSON(c16Job{Path: f.path, Thorough: b.Thorough})
		}
		results := vlib.Pool("c16", nil, 16, jobs)
		var next []st
		for i, r := range results {
			if r.Died && r.TimedOut {
				c.Cap(fmt.Sprintf("watchdog: exploring from [%s] exceeded %v", c16PathString(frontier[i].path), vlib.JobTimeout))
				continue
			}
			if r.Died {
				c.Violate("worker-death", fmt.Sprintf("worker died while exploring from [%s]: %s", c16PathString(frontier[i].path), tail(r.Stderr, 1500)),
					map[string]interface{}{"history": frontier[i].path})
				continue
			}
			var res c16Result
			if err := json.Unmarshal([]byte(r.Out), &res); err != nil || res.Err != "" {
				c.Violate("harness:result", fmt.Sprintf("bad worker answer %q %v %s", c16Trunc(r.Out, 200), err, res.Err), nil)
				continue
			}
			expanded = append(expanded, frontier[i])
			transitions += int64(res.Transitions)
			c.Eval(res.Evals)
			for _, v := range res.Viol {
				report(v)
			}
			note(res.Notes)
			for _, o := range res.Outcomes {
				c.Outcome(o)
			}
			for r, n := range res.Rules {
				ruleCounts[r] += int64(n)
			}
			if res.Sample != nil && nSamples < 3 {
				nSamples++
				c.Sample(res.Sample)
			}
			for _, su := range res.Succ {
				if seen[su.Canon] {
					continue
				}
				seen[su.Canon] = true
				states++
				if su.Records > 0 {
					c.Nontrivial(su.Canon)
				}
				next = append(next, st{path: append(append([]c16Op{}, frontier[i].path...), su.Op)})
			}
		}
		c.Set(fmt.Sprintf("frontier_depth_%d", d), len(frontier))
		frontier = next
	}
	c.Set("unexpanded_states_at_depth_bound", len(frontier))

	// restart phase: every expanded state is rebuilt, the server restarted, the open node re-read, then each request of the
	// alphabet is issued after the restart (one copy of the history per request); the states first reached at the depth bound are
	// rebuilt and re-read only.
	var items []c16RItem
	for _, e := range expanded {
		if len(e.path) > b.RestartContinueDepth {
			items = append(items, c16RItem{Path: e.path})
			continue
		}
		for _, op := range c16Alphabet(e.path, b) {
			op := op
			items = append(items, c16RItem{Path: e.path, Next: &op})
		}
	}
	for _, f := range frontier {
		items = append(items, c16RItem{Path: f.path})
	}
	const batch = 150
	nb := (len(items) + batch - 1) / batch
	var restartTransitions, restarts int64
	out := make([]c16BatchResult, nb)
	vlib.Par(nb, 16, func(k int) {
		lo, hi := k*batch, (k+1)*batch
		if hi > len(items) {
			hi = len(items)
		}
		out[k] = c16RestartBatch(items[lo:hi], c.Tier)
	})
	for k := range out {
		if out[k].fail != "" {
			c.Violate("harness:restart-phase", out[k].fail, nil)
			continue
		}
		restarts++
		restartTransitions += int64(out[k].res.Transitions)
		c.Eval(out[k].res.Evals)
		for _, v := range out[k].res.Viol {
			report(v)
		}
		note(out[k].res.Notes)
		for _, o := range out[k].res.Outcomes {
			c.Outcome(o)
		}
	}
	transitions += restartTransitions
	c.Set("reference_disagreements_where_both_paths_agree", nNotes)
	if len(notes) > 0 {
		c.Set("reference_disagreement_examples", notes)
	}
	c.Set("update_rules_exercised_transitions", ruleCounts)
	c.Set("states", states)
	c.Set("transitions", transitions)
	c.Set("traces_validated_against_impl", transitions)
	c.Set("restart_histories", len(items))
	c.Set("restarted_processes", restarts)
	c.Set("bound", fmt.Sprintf("BFS depth %d over body ids %v, at most %d commit+newversion per history, branch=%v; every reached state is checked, states first reached at the depth bound are not expanded; restart placed after every explored state, followed by every request of the alphabet for states of depth <= %d",
		b.Depth, b.IDs, b.MaxCNV, b.Branch, b.RestartContinueDepth))
	c.Set("alphabet", func() []string {
		var s []string
		for _, o := range c16Alphabet(nil, b) {
			s = append(s, o.String())
		}
		return s
	}())
	var labels []string
	for _, rq := range c16Requests(b.IDs) {
		labels = append(labels, rq.Label)
	}
	c.Set("read_endpoints_per_version", labels)
	c.Set("rule", "state = canonical answers of the open head and its committed parent (records with stamp values erased, key list, field counts, schema flag, number of versions, branch); a state is non-trivial when the instance holds at least one annotation; transition = one real request followed by commit+newversion on a copy of the history and "+fmt.Sprint(len(labels))+" read requests on each of the two uuids")
	c.Sample(map[string]interface{}{"history": "POST key/2 {a:x} (user u0) ; POST key/2 {a:x} (user u1) -> a_user must stay u0, a_time unchanged; then commit+newversion: parent (store) and head (memory) must agree on key, keys, all, fields, counts, keyrange, keyrangevalues, keyvalues, 14 queries"})
	c.Sample(map[string]interface{}{"history": "POST key/2 {a:x} ; POST key/10 {b:\"7\"} ; RESTART ; DELETE key/2 -> head answers before == after restart (same order), then store/memory/model agree"})
	c.Assume("request i of a history is made by user u<i>, so a stamp that is rewritten although the value did not change is visible in _user even when both requests fall into the same second; _time is compared as an opaque string (must not change when the value is unchanged)")
	c.Assume("states that differ only in the values of _user/_time stamps are merged by the BFS (their futures are isomorphic: stamps are carried, never interpreted)")
	c.Assume("order of keys/all/query results is not compared between the store path and the in-memory path (the code documents lexicographic vs numeric order); it is compared for the same uuid before and after a restart")
	c.Assume("regular-expression queries use patterns for which anchored and unanchored matching coincide; _time/_user values posted explicitly are strings")
}
