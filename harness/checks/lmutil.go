package checks

// lmutil: helpers for driving labelmap instances through the HTTP API (shared by C02, C03, C08, C12, C13, C20).

import (
	"bytes"
	"encoding/binary"
	"encoding/json"
	"fmt"
	"sort"
	"hash"
	"hash/fnv"
	"strconv"
	"strings"

	pbuf "google.golang.org/protobuf/proto"

	lmproto "github.com/janelia-flyem/dvid/datatype/common/proto"

	"verif/vsrv"
)

func fnv64() hash.Hash64 { return fnv.New64a() }

func pbUnmarshal(b []byte, m pbuf.Message) error { return pbuf.Unmarshal(b, m) }

// lmVol is a dense label volume with an origin.
type lmVol struct {
	off  [3]int
	size [3]int
	v    []uint64
}

func newLMVol(off, size [3]int) *lmVol {
	return &lmVol{off: off, size: size, v: make([]uint64, size[0]*size[1]*size[2])}
}

func (l *lmVol) idx(x, y, z int) int {
	return ((z-l.off[2])*l.size[1]+(y-l.off[1]))*l.size[0] + (x - l.off[0])
}
func (l *lmVol) at(x, y, z int) uint64     { return l.v[l.idx(x, y, z)] }
func (l *lmVol) set(x, y, z int, v uint64) { l.v[l.idx(x, y, z)] = v }
func (l *lmVol) fill(lo, hi [3]int, v uint64) {
	for z := lo[2]; z < hi[2]; z++ {
		for y := lo[1]; y < hi[1]; y++ {
			for x := lo[0]; x < hi[0]; x++ {
				l.set(x, y, z, v)
			}
		}
	}
}
func (l *lmVol) clone() *lmVol {
	c := &lmVol{off: l.off, size: l.size, v: make([]uint64, len(l.v))}
	copy(c.v, l.v)
	return c
}
func (l *lmVol) bytes() []byte {
	b := make([]byte, 8*len(l.v))
	for i, v := range l.v {
		binary.LittleEndian.PutUint64(b[8*i:], v)
	}
	return b
}

func lmDims(size, off [3]int) string {
	return fmt.Sprintf("%d_%d_%d/%d_%d_%d", size[0], size[1], size[2], off[0], off[1], off[2])
}

// lmPostRaw writes the volume (block aligned) with POST raw.
func lmPostRaw(uuid, name string, vol *lmVol, mutate bool) vsrv.Resp {
	u := "node/" + uuid + "/" + name + "/raw/0_1_2/" + lmDims(vol.size, vol.off)
	if mutate {
		u += "?mutate=true"
	}
	return vsrv.Post(u, vol.bytes())
}

// lmGetRaw reads a volume; supervoxels selects unmapped ids; scale the resolution level.
func lmGetRaw(uuid, name string, off, size [3]int, supervoxels bool, scale int) (*lmVol, vsrv.Resp) {
	u := "node/" + uuid + "/" + name + "/raw/0_1_2/" + lmDims(size, off)
	var q []string
	if supervoxels {
		q = append(q, "supervoxels=true")
	}
	if scale > 0 {
		q = append(q, "scale="+strconv.Itoa(scale))
	}
	if len(q) > 0 {
		u += "?" + strings.Join(q, "&")
	}
	r := vsrv.Get(u)
	if r.Code != 200 || len(r.Body) != 8*size[0]*size[1]*size[2] {
		return nil, r
	}
	vol := newLMVol(off, size)
	for i := range vol.v {
		vol.v[i] = binary.LittleEndian.Uint64(r.Body[8*i:])
	}
	return vol, r
}

func lmJSONList(v []uint64) []byte {
	b, _ := json.Marshal(v)
	return b
}

func lmMerge(uuid, name string, target uint64, merged ...uint64) vsrv.Resp {
	return vsrv.Post("node/"+uuid+"/"+name+"/merge", lmJSONList(append([]uint64{target}, merged...)))
}

func lmCleave(uuid, name string, body uint64, svs ...uint64) (uint64, vsrv.Resp) {
	r := vsrv.Post(fmt.Sprintf("node/%s/%s/cleave/%d", uuid, name, body), lmJSONList(svs))
	var m struct{ CleavedLabel uint64 }
	json.Unmarshal(r.Body, &m)
	return m.CleavedLabel, r
}

func lmRenumber(uuid, name string, pairs ...uint64) vsrv.Resp {
	return vsrv.Post("node/"+uuid+"/"+name+"/renumber", lmJSONList(pairs))
}

// lmRun is one run of voxels along X.
type lmRun struct{ x, y, z, n int }

// lmSparse encodes runs in DVID's binary sparse-volume format.
func lmSparse(runs []lmRun) []byte {
	var b bytes.Buffer
	b.Write([]byte{0, 3, 0, 0})
	binary.Write(&b, binary.LittleEndian, uint32(0))
	binary.Write(&b, binary.LittleEndian, uint32(len(runs)))
	for _, r := range runs {
		binary.Write(&b, binary.LittleEndian, int32(r.x))
		binary.Write(&b, binary.LittleEndian, int32(r.y))
		binary.Write(&b, binary.LittleEndian, int32(r.z))
		binary.Write(&b, binary.LittleEndian, int32(r.n))
	}
	return b.Bytes()
}

// lmParseSparse decodes a binary sparse volume (as returned by GET sparsevol) into a voxel set.
func lmParseSparse(b []byte) (map[[3]int]bool, error) {
	if len(b) < 12 {
		return nil, fmt.Errorf("sparse volume too short (%d bytes)", len(b))
	}
	n := int(binary.LittleEndian.Uint32(b[8:12]))
	if len(b) != 12+16*n {
		return nil, fmt.Errorf("sparse volume: %d spans but %d bytes", n, len(b))
	}
	out := map[[3]int]bool{}
	for i := 0; i < n; i++ {
		o := 12 + 16*i
		x := int(int32(binary.LittleEndian.Uint32(b[o:])))
		y := int(int32(binary.LittleEndian.Uint32(b[o+4:])))
		z := int(int32(binary.LittleEndian.Uint32(b[o+8:])))
		l := int(int32(binary.LittleEndian.Uint32(b[o+12:])))
		for k := 0; k < l; k++ {
			p := [3]int{x + k, y, z}
			if out[p] {
				return nil, fmt.Errorf("sparse volume lists voxel %v twice", p)
			}
			out[p] = true
		}
	}
	return out, nil
}

func lmSplitSV(uuid, name string, sv uint64, runs []lmRun) (split, remain uint64, r vsrv.Resp) {
	r = vsrv.Post(fmt.Sprintf("node/%s/%s/split-supervoxel/%d", uuid, name, sv), lmSparse(runs))
	var m struct{ SplitSupervoxel, RemainSupervoxel uint64 }
	json.Unmarshal(r.Body, &m)
	return m.SplitSupervoxel, m.RemainSupervoxel, r
}

// lmMapping returns the body of each supervoxel (GET mapping).
func lmMapping(uuid, name string, svs []uint64) ([]uint64, vsrv.Resp) {
	r := vsrv.Do("GET", "node/"+uuid+"/"+name+"/mapping", lmJSONList(svs))
	var out []uint64
	json.Unmarshal(r.Body, &out)
	return out, r
}

func sortedU64(m map[uint64]bool) []uint64 {
	out := make([]uint64, 0, len(m))
	for k := range m {
		out = append(out, k)
	}
	sort.Slice(out, func(i, j int) bool { return out[i] < out[j] })
	return out
}

// lmNormalize canonicalises responses whose element order is not fixed even on an idle server (sparse-volume run
// order, supervoxel list order, protobuf map order of label indices) so that snapshots can be compared as strings.
func lmNormalize(read string, code int, body []byte) string {
	if code != 200 {
		return fmt.Sprintf("%d", code)
	}
	ep := strings.SplitN(strings.SplitN(read, "?", 2)[0], "/", 2)[0]
	switch ep {
	case "fields":
		// neuronjson: the set of field names; the list order is Go map iteration order
		var names []string
		if json.Unmarshal(body, &names) == nil {
			sort.Strings(names)
			b, _ := json.Marshal(names)
			return "200:" + string(b)
		}
		return fmt.Sprintf("200:%x", body)
	case "sparsevol", "sparsevol-coarse":
		vox, err := lmParseSparse(body)
		if err != nil {
			return fmt.Sprintf("200:unparsable(%v):%x", err, body)
		}
		pts := make([][3]int, 0, len(vox))
		for p := range vox {
			pts = append(pts, p)
		}
		sort.Slice(pts, func(i, j int) bool {
			a, b := pts[i], pts[j]
			if a[2] != b[2] {
				return a[2] < b[2]
			}
			if a[1] != b[1] {
				return a[1] < b[1]
			}
			return a[0] < b[0]
		})
		h := fnv64()
		for _, p := range pts {
			fmt.Fprintf(h, "%d,%d,%d;", p[0], p[1], p[2])
		}
		return fmt.Sprintf("200:voxels=%d:%x", len(pts), h.Sum64())
	case "supervoxels":
		var l []uint64
		if json.Unmarshal(body, &l) == nil {
			sort.Slice(l, func(i, j int) bool { return l[i] < l[j] })
			return fmt.Sprintf("200:%v", l)
		}
	case "index":
		var idx lmproto.LabelIndex
		if pbUnmarshal(body, &idx) == nil {
			var bl []string
			for zyx, svc := range idx.Blocks {
				var cs []string
				for sv, n := range svc.Counts {
					cs = append(cs, fmt.Sprintf("%d:%d", sv, n))
				}
				sort.Strings(cs)
				bl = append(bl, fmt.Sprintf("%x{%s}", zyx, strings.Join(cs, ",")))
			}
			sort.Strings(bl)
			return fmt.Sprintf("200:label=%d:%s", idx.Label, strings.Join(bl, " "))
		}
	}
	return fmt.Sprintf("200:%x", body)
}
