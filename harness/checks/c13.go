package checks

// C13 Annotation indexes are views of one element set, synced with labels.
//
// Explicit-state BFS over histories of annotation requests (POST elements, DELETE element, move, POST blocks + reload)
// and of label operations on the synced labelmap (merge, cleave, split-supervoxel, body split, renumber, mutating and
// ingesting raw writes), plus commit+newversion. World: labelmap "lm" (16^3 blocks, 4 blocks along X from x=-32 to x=31,
// the left-most one never written at the start), annotation "ann" synced to lm, labelsz "lsz" synced to ann.
// Reference model (this file): map[position]element per version + supervoxel array + supervoxel->body mapping per version.
// After every operation, at runtime-level quiescence, for every version every view is compared with the model (c13run.go).

import (
	"encoding/json"
	"fmt"
	"sort"
	"strings"

	"verif/vsrv"
)

const c13X0, c13NX, c13NY, c13NZ, c13BS = -32, 64, 16, 16, 16

// c13Pos is the position menu: interior points, both sides of a block border, one point per body, negative coordinates,
// a background voxel, a point in a label block that does not exist yet and a point far outside the label volume.
var c13Pos = [][3]int{
	{2, 3, 4},     // 0 block (0,0,0)  supervoxel 1 (body 1)
	{15, 8, 8},    // 1 block (0,0,0)  last voxel in X, supervoxel 4 (body 1 after the initial merge)
	{16, 8, 8},    // 2 block (1,0,0)  first voxel in X, supervoxel 2
	{26, 5, 5},    // 3 block (1,0,0)  supervoxel 3
	{-3, 7, 7},    // 4 block (-1,0,0) supervoxel 5
	{-20, 3, 3},   // 5 block (-2,0,0) label block never written at the start
	{5, 1, 1},     // 6 block (0,0,0)  background voxel
	{-40, -5, 70}, // 7 block (-3,-1,4) outside the label volume
	{6, 9, 4},     // 8 block (0,0,0)  supervoxel 1 (body 1), second interior point
}

var c13Tags = []string{"t1", "t2", "t3"}

func c13FloorDiv(a, b int) int {
	q := a / b
	if a%b != 0 && (a < 0) != (b < 0) {
		q--
	}
	return q
}

func c13Block(p [3]int) [3]int {
	return [3]int{c13FloorDiv(p[0], c13BS), c13FloorDiv(p[1], c13BS), c13FloorDiv(p[2], c13BS)}
}

func c13BlockKey(b [3]int) string { return fmt.Sprintf("%d,%d,%d", b[0], b[1], b[2]) }

func c13InVol(p [3]int) bool {
	return p[0] >= c13X0 && p[0] < c13X0+c13NX && p[1] >= 0 && p[1] < c13NY && p[2] >= 0 && p[2] < c13NZ
}

func c13Idx(x, y, z int) int { return (z*c13NY+y)*c13NX + (x - c13X0) }

type c13Op struct {
	K string   `json:"k"`
	V string   `json:"v,omitempty"` // variant
	P int      `json:"p"`           // position menu index (element / from)
	Q int      `json:"q"`           // position menu index (partner / to)
	A uint64   `json:"a,omitempty"` // label argument
	B []uint64 `json:"b,omitempty"` // label arguments
}

func (o c13Op) String() string {
	s := o.K
	if o.V != "" {
		s += ":" + o.V
	}
	switch o.K {
	case "post", "del":
		s += fmt.Sprintf("(@%d)", o.P)
	case "post2", "link", "move":
		s += fmt.Sprintf("(@%d,@%d)", o.P, o.Q)
	case "merge", "cleave", "splitsv", "renumber", "split":
		s += fmt.Sprintf("(%d%v)", o.A, o.B)
	}
	return s
}

// c13Ver is the reference model of one version.
type c13Ver struct {
	elems    map[[3]int]annElem
	sv       []uint64
	mapping  map[uint64]uint64 // non-identity entries only
	parent   int
	mWritten bool // label block (-2,0,0) has been written
}

func (v *c13Ver) body(sv uint64) uint64 {
	if sv == 0 {
		return 0
	}
	if b, ok := v.mapping[sv]; ok {
		return b
	}
	return sv
}

func (v *c13Ver) svAt(p [3]int) uint64 {
	if !c13InVol(p) {
		return 0
	}
	return v.sv[c13Idx(p[0], p[1], p[2])]
}

func (v *c13Ver) bodyAt(p [3]int) uint64 { return v.body(v.svAt(p)) }

func (v *c13Ver) bodies() map[uint64]map[uint64]int {
	out := map[uint64]map[uint64]int{}
	for _, s := range v.sv {
		if s == 0 {
			continue
		}
		b := v.body(s)
		if out[b] == nil {
			out[b] = map[uint64]int{}
		}
		out[b][s]++
	}
	return out
}

func c13CloneElem(e annElem) annElem {
	n := annElem{Pos: e.Pos, Kind: e.Kind}
	n.Tags = append([]string(nil), e.Tags...)
	n.Rels = append([]annRel(nil), e.Rels...)
	if e.Prop != nil {
		n.Prop = map[string]string{}
		for k, x := range e.Prop {
			n.Prop[k] = x
		}
	}
	return n
}

func (v *c13Ver) clone(parent int) *c13Ver {
	c := &c13Ver{elems: map[[3]int]annElem{}, sv: append([]uint64{}, v.sv...), mapping: map[uint64]uint64{}, parent: parent, mWritten: v.mWritten}
	for p, e := range v.elems {
		c.elems[p] = c13CloneElem(e)
	}
	for k, b := range v.mapping {
		c.mapping[k] = b
	}
	return c
}

// sortedPos returns the element positions in a fixed order.
func (v *c13Ver) sortedPos() [][3]int {
	var ps [][3]int
	for p := range v.elems {
		ps = append(ps, p)
	}
	sort.Slice(ps, func(i, j int) bool {
		a, b := ps[i], ps[j]
		if a[2] != b[2] {
			return a[2] < b[2]
		}
		if a[1] != b[1] {
			return a[1] < b[1]
		}
		return a[0] < b[0]
	})
	return ps
}

// ---- element-set operations of the reference model ----

func (v *c13Ver) mPost(list ...annElem) {
	for _, e := range list {
		v.elems[e.Pos] = c13CloneElem(e)
	}
}

// mDelete removes the element and every reference to it.
func (v *c13Ver) mDelete(p [3]int) {
	delete(v.elems, p)
	for q, e := range v.elems {
		var keep []annRel
		for _, r := range e.Rels {
			if r.To != p {
				keep = append(keep, r)
			}
		}
		e.Rels = keep
		v.elems[q] = e
	}
}

// mMove moves the element and redirects every reference to it. An element already sitting at the target is replaced.
func (v *c13Ver) mMove(from, to [3]int) {
	e := v.elems[from]
	delete(v.elems, from)
	e.Pos = to
	v.elems[to] = e
	for q, x := range v.elems {
		for i, r := range x.Rels {
			if r.To == from {
				x.Rels[i].To = to
			}
		}
		v.elems[q] = x
	}
}

// mutual reports whether every relationship in the version is mutual (the precondition under which the property fixes
// what a move or delete must do to partners); the alphabet never breaks it.
func (v *c13Ver) mutual() bool {
	for p, e := range v.elems {
		for _, r := range e.Rels {
			o, ok := v.elems[r.To]
			if !ok {
				return false
			}
			back := false
			for _, r2 := range o.Rels {
				if r2.To == p {
					back = true
				}
			}
			if !back {
				return false
			}
		}
	}
	return true
}

func c13HasTag(e annElem, t string) bool {
	for _, x := range e.Tags {
		if x == t {
			return true
		}
	}
	return false
}

func c13WithoutTag(tags []string, t string) []string {
	var out []string
	for _, x := range tags {
		if x != t {
			out = append(out, x)
		}
	}
	return out
}

func c13NextKind(k string) string {
	switch k {
	case "PreSyn":
		return "PostSyn"
	case "PostSyn":
		return "Gap"
	case "Gap":
		return "Note"
	}
	return "PreSyn"
}

// c13Overwrite is the element re-posted at an occupied position; relationships are kept as they are, so that
// relationships stay mutual.
func c13Overwrite(e annElem, variant string) annElem {
	n := c13CloneElem(e)
	switch variant {
	case "kind":
		n.Kind = c13NextKind(e.Kind)
	case "tags":
		if c13HasTag(e, "t1") {
			n.Tags = append(c13WithoutTag(e.Tags, "t1"), "t3")
			if c13HasTag(e, "t3") {
				n.Tags = c13WithoutTag(e.Tags, "t1")
			}
		} else {
			n.Tags = append(append([]string{}, e.Tags...), "t1")
		}
	case "notags":
		n.Tags = nil
		n.Prop = map[string]string{"n": "x"}
	}
	return n
}

func c13NewElem(pi int, variant string) annElem {
	e := annElem{Pos: c13Pos[pi], Kind: "PostSyn", Tags: []string{"t2"}, Prop: map[string]string{"n": fmt.Sprintf("p%d", pi)}}
	if variant == "note" {
		e.Kind, e.Tags, e.Prop = "Note", nil, nil
	}
	return e
}

// c13BlocksContent is the element list a POST blocks request installs for one block: elements of the block that carry
// relationships stay as they are (their partners keep pointing at them); everything else is replaced by a fixed list.
func c13BlocksContent(v *c13Ver, which string) (bc [3]int, list []annElem) {
	var fresh []annElem
	if which == "b0" {
		bc = [3]int{0, 0, 0}
		fresh = []annElem{
			{Pos: c13Pos[8], Kind: "PostSyn", Tags: []string{"t1"}},
			{Pos: c13Pos[6], Kind: "PreSyn", Tags: []string{"t3"}, Prop: map[string]string{"n": "y"}},
		}
	} else {
		bc = [3]int{-1, 0, 0}
		fresh = []annElem{{Pos: c13Pos[4], Kind: "Gap", Tags: []string{"t2"}}}
	}
	kept := map[[3]int]bool{}
	for _, p := range v.sortedPos() {
		e := v.elems[p]
		if c13Block(p) == bc && len(e.Rels) > 0 {
			list = append(list, c13CloneElem(e))
			kept[p] = true
		}
	}
	for _, e := range fresh {
		if !kept[e.Pos] {
			list = append(list, e)
		}
	}
	return
}

// c13BulkContent is the content of the bulk ingestion: the three label blocks (-1,0,0), (0,0,0), (1,0,0), 520 elements
// each (two full z planes and eight more), every element tagged t1 and every second one t2, kinds cycling; no relationships.
// The menu positions 0 (2,3,4) and 5 (-20,3,3) stay free of bulk elements only by accident of the grid: (2,3,4) has z=4.
func c13BulkContent() map[[3]int][]annElem {
	kinds := []string{"PreSyn", "PostSyn", "Gap", "Note"}
	out := map[[3]int][]annElem{}
	for bx := -1; bx <= 1; bx++ {
		var list []annElem
		for i := 0; i < 520; i++ {
			e := annElem{Pos: [3]int{bx*c13BS + i%16, (i / 16) % 16, i / 256}, Kind: kinds[i%4], Tags: []string{"t1"}}
			if i%2 == 1 {
				e.Tags = []string{"t1", "t2"}
			}
			list = append(list, e)
		}
		out[[3]int{bx, 0, 0}] = list
	}
	return out
}

// ---- label volume ----

func c13InitialVolume() []uint64 {
	vol := make([]uint64, c13NX*c13NY*c13NZ)
	for z := 0; z < c13NZ; z++ {
		for y := 0; y < c13NY; y++ {
			for x := c13X0; x < c13X0+c13NX; x++ {
				var l uint64
				switch {
				case x < -16:
					l = 0 // block (-2,0,0): not written
				case x < 0:
					l = 5
				case x < 16:
					l = 1
					if x >= 8 {
						l = 4
					}
					if y < 2 {
						l = 0
					}
				case x < 24:
					l = 2
				default:
					l = 3
				}
				vol[c13Idx(x, y, z)] = l
			}
		}
	}
	return vol
}

func c13Region(name string) (lo, hi [3]int) {
	switch name {
	case "sub0":
		return [3]int{0, 0, 0}, [3]int{8, 8, 8}
	case "blk1":
		return [3]int{16, 0, 0}, [3]int{32, 16, 16}
	case "border":
		return [3]int{8, 8, 8}, [3]int{24, 16, 16}
	case "blkm2":
		return [3]int{-32, 0, 0}, [3]int{-16, 16, 16}
	}
	return
}

// c13Runs returns the X runs of a named voxel selection of supervoxel sv (or body, for body splits).
func c13Runs(v *c13Ver, label uint64, byBody bool, shape string) []lmRun {
	is := func(x, y, z int) bool {
		if !c13InVol([3]int{x, y, z}) {
			return false
		}
		s := v.sv[c13Idx(x, y, z)]
		if byBody {
			return s != 0 && v.body(s) == label
		}
		return s == label
	}
	var sel [][3]int
	switch shape {
	case "elem":
		// three voxels along X around the first element sitting on the label
		for _, p := range v.sortedPos() {
			if is(p[0], p[1], p[2]) {
				for dx := -1; dx <= 1; dx++ {
					if is(p[0]+dx, p[1], p[2]) {
						sel = append(sel, [3]int{p[0] + dx, p[1], p[2]})
					}
				}
				break
			}
		}
	case "half":
		for z := 0; z < c13NZ; z += 2 {
			for y := 0; y < c13NY; y++ {
				for x := c13X0; x < c13X0+c13NX; x++ {
					if is(x, y, z) {
						sel = append(sel, [3]int{x, y, z})
					}
				}
			}
		}
	}
	var runs []lmRun
	for _, p := range sel {
		if n := len(runs); n > 0 && runs[n-1].y == p[1] && runs[n-1].z == p[2] && runs[n-1].x+runs[n-1].n == p[0] {
			runs[n-1].n++
		} else {
			runs = append(runs, lmRun{p[0], p[1], p[2], 1})
		}
	}
	return runs
}

func lmSplitBody(uuid, name string, body uint64, runs []lmRun) (uint64, vsrv.Resp) {
	r := vsrv.Post(fmt.Sprintf("node/%s/%s/split/%d", uuid, name, body), lmSparse(runs))
	var m struct{ Label uint64 }
	json.Unmarshal(r.Body, &m)
	return m.Label, r
}

// ---- alphabet ----

func c13Alphabet(v *c13Ver, nVers int, thorough bool) []c13Op {
	var ops []c13Op
	var occ, free []int
	for i, p := range c13Pos {
		if _, ok := v.elems[p]; ok {
			occ = append(occ, i)
		} else {
			free = append(free, i)
		}
	}
	// POST elements: new
	for k, i := range free {
		ops = append(ops, c13Op{K: "post", V: "new", P: i})
		if k == 0 {
			ops = append(ops, c13Op{K: "post", V: "note", P: i})
		}
	}
	// POST elements: overwrite
	for _, i := range occ {
		for _, va := range []string{"kind", "tags", "notags"} {
			ops = append(ops, c13Op{K: "post", V: va, P: i})
		}
	}
	// POST elements: two elements that reference each other
	for a := 0; a < len(occ); a++ {
		for b := a + 1; b < len(occ); b++ {
			linked := false
			for _, r := range v.elems[c13Pos[occ[a]]].Rels {
				if r.To == c13Pos[occ[b]] {
					linked = true
				}
			}
			if !linked {
				ops = append(ops, c13Op{K: "link", P: occ[a], Q: occ[b]})
			}
		}
	}
	// POST elements: two elements in one request
	func() { // an existing element drops a tag that a new element of the same block adds
		for _, i := range occ {
			e := v.elems[c13Pos[i]]
			if len(e.Tags) == 0 {
				continue
			}
			for _, f := range free {
				if c13Block(c13Pos[f]) == c13Block(e.Pos) {
					ops = append(ops, c13Op{K: "post2", V: "drop-add", P: i, Q: f})
					return
				}
			}
		}
	}()
	func() { // two existing elements of one block exchange their tags
		for a := 0; a < len(occ); a++ {
			for b := a + 1; b < len(occ); b++ {
				ea, eb := v.elems[c13Pos[occ[a]]], v.elems[c13Pos[occ[b]]]
				if c13Block(ea.Pos) == c13Block(eb.Pos) && fmt.Sprint(c13SortedTags(ea.Tags)) != fmt.Sprint(c13SortedTags(eb.Tags)) {
					ops = append(ops, c13Op{K: "post2", V: "swap", P: occ[a], Q: occ[b]})
					return
				}
			}
		}
	}()
	func() { // two new elements in different blocks sharing a tag
		for a := 0; a < len(free); a++ {
			for b := a + 1; b < len(free); b++ {
				if c13Block(c13Pos[free[a]]) != c13Block(c13Pos[free[b]]) {
					ops = append(ops, c13Op{K: "post2", V: "two-new", P: free[a], Q: free[b]})
					return
				}
			}
		}
	}()
	// DELETE element
	for _, i := range occ {
		ops = append(ops, c13Op{K: "del", P: i})
	}
	if len(free) > 0 {
		ops = append(ops, c13Op{K: "del", V: "missing", P: free[0]})
	}
	// move
	for _, i := range occ {
		for j := range c13Pos {
			if j != i {
				ops = append(ops, c13Op{K: "move", P: i, Q: j})
			}
		}
	}
	if len(free) >= 2 {
		ops = append(ops, c13Op{K: "move", V: "missing", P: free[0], Q: free[1]})
	}
	// POST blocks + reload
	for _, b := range []string{"b0", "bneg"} {
		for _, m := range []string{"mem", "low", "check"} {
			ops = append(ops, c13Op{K: "blocks", V: b + "-" + m})
		}
	}
	for _, m := range []string{"mem", "low", "check"} {
		ops = append(ops, c13Op{K: "reload", V: m})
	}
	// label operations
	bodies := v.bodies()
	var bl []uint64
	for b := range bodies {
		bl = append(bl, b)
	}
	sort.Slice(bl, func(i, j int) bool { return bl[i] < bl[j] })
	for _, t := range bl {
		for _, s := range bl {
			if s != t {
				ops = append(ops, c13Op{K: "merge", A: t, B: []uint64{s}})
			}
		}
	}
	if len(bl) >= 3 {
		ops = append(ops, c13Op{K: "merge", A: bl[0], B: []uint64{bl[1], bl[2]}})
	}
	onBody := map[uint64]bool{}
	onSV := map[uint64]bool{}
	for p := range v.elems {
		onBody[v.bodyAt(p)] = true
		onSV[v.svAt(p)] = true
	}
	for _, b := range bl {
		var svs []uint64
		for s := range bodies[b] {
			svs = append(svs, s)
		}
		sort.Slice(svs, func(i, j int) bool { return svs[i] < svs[j] })
		if len(svs) >= 2 {
			max := 1 << uint(len(svs))
			for mask := 1; mask < max-1; mask++ {
				var sub []uint64
				for i, s := range svs {
					if mask&(1<<uint(i)) != 0 {
						sub = append(sub, s)
					}
				}
				if len(sub) <= 2 {
					ops = append(ops, c13Op{K: "cleave", A: b, B: sub})
				}
			}
		}
		for _, s := range svs {
			if onSV[s] {
				ops = append(ops, c13Op{K: "splitsv", A: s, V: "elem"})
			}
			if onBody[b] && len(c13Runs(v, s, false, "half")) > 0 {
				ops = append(ops, c13Op{K: "splitsv", A: s, V: "half"})
			}
		}
		ops = append(ops, c13Op{K: "renumber", A: b})
		if onBody[b] {
			ops = append(ops, c13Op{K: "split", A: b, V: "elem"})
			if thorough {
				ops = append(ops, c13Op{K: "split", A: b, V: "half"})
			}
		}
	}
	for _, reg := range []string{"sub0", "blk1", "border"} {
		for _, f := range []string{"zero", "other", "mapped", "fresh"} {
			if f == "mapped" && len(v.mapping) == 0 {
				continue
			}
			ops = append(ops, c13Op{K: "raw", V: reg + "-" + f})
		}
	}
	if !v.mWritten {
		ops = append(ops, c13Op{K: "rawingest", V: "fresh"}, c13Op{K: "rawingest", V: "other"})
	}
	if nVers < 2 {
		ops = append(ops, c13Op{K: "newversion"})
	}
	return ops
}

func c13SortedTags(t []string) []string {
	s := append([]string{}, t...)
	sort.Strings(s)
	return s
}

// ---- world: the real repo plus the model ----

type c13World struct {
	vers     []*c13Ver
	uuids    []string
	leaf     int
	terminal bool // the last operation left a state the model does not extend (server error, move onto an occupied position)
	reads    int
	ever     map[uint64]bool // every body label seen at some point
}

type c13Viol struct {
	Key  string  `json:"key"`
	What string  `json:"what"`
	Path []c13Op `json:"path,omitempty"`
}

func (w *c13World) remember() {
	if w.ever == nil {
		w.ever = map[uint64]bool{}
	}
	for _, v := range w.vers {
		for _, s := range v.sv {
			if s != 0 {
				w.ever[s] = true
				w.ever[v.body(s)] = true
			}
		}
	}
}

func c13NewWorld() (*c13World, error) {
	root, err := vsrv.NewRepo()
	if err != nil {
		return nil, err
	}
	if err := vsrv.NewInstance(root, "labelmap", "lm", map[string]string{"BlockSize": "16,16,16"}); err != nil {
		return nil, err
	}
	vol := c13InitialVolume()
	lv := newLMVol([3]int{-16, 0, 0}, [3]int{48, c13NY, c13NZ}) // blocks -1, 0, 1; block -2 stays unwritten
	for z := 0; z < c13NZ; z++ {
		for y := 0; y < c13NY; y++ {
			for x := -16; x < 32; x++ {
				lv.set(x, y, z, vol[c13Idx(x, y, z)])
			}
		}
	}
	if r := lmPostRaw(root, "lm", lv, false); !r.OK() {
		return nil, fmt.Errorf("initial label ingest: %s", r)
	}
	vsrv.Quiesce()
	if r := lmMerge(root, "lm", 1, 4); !r.OK() {
		return nil, fmt.Errorf("initial merge: %s", r)
	}
	vsrv.Quiesce()
	if err := vsrv.NewInstance(root, "annotation", "ann", nil); err != nil {
		return nil, err
	}
	if err := vsrv.NewInstance(root, "labelsz", "lsz", nil); err != nil {
		return nil, err
	}
	if r := vsrv.PostS("node/"+root+"/ann/sync", `{"sync":"lm"}`); !r.OK() {
		return nil, fmt.Errorf("sync ann->lm: %s", r)
	}
	if r := vsrv.PostS("node/"+root+"/lsz/sync", `{"sync":"ann"}`); !r.OK() {
		return nil, fmt.Errorf("sync lsz->ann: %s", r)
	}
	v := &c13Ver{elems: map[[3]int]annElem{}, sv: vol, mapping: map[uint64]uint64{4: 1}, parent: -1}
	w := &c13World{vers: []*c13Ver{v}, uuids: []string{root}}
	init := []annElem{
		{Pos: c13Pos[0], Kind: "PreSyn", Tags: []string{"t1"}, Prop: map[string]string{"n": "a"}, Rels: []annRel{{Rel: "PreSynTo", To: c13Pos[2]}}},
		{Pos: c13Pos[2], Kind: "PostSyn", Tags: []string{"t1", "t2"}, Rels: []annRel{{Rel: "PostSynTo", To: c13Pos[0]}}},
		{Pos: c13Pos[1], Kind: "Gap", Tags: []string{"t2"}},
	}
	b, _ := json.Marshal(init)
	if r := vsrv.Post("node/"+root+"/ann/elements", b); !r.OK() {
		return nil, fmt.Errorf("initial elements: %s", r)
	}
	v.mPost(init...)
	vsrv.Quiesce()
	w.remember()
	return w, nil
}

// apply executes op on the server and on the model. class is the structural name of the operation (used in keys).
func (w *c13World) apply(op c13Op) (code int, desc, class string, viols []c13Viol) {
	v := w.vers[w.leaf]
	u := w.uuids[w.leaf]
	ann := "node/" + u + "/ann/"
	bad := func(key, f string, a ...interface{}) {
		viols = append(viols, c13Viol{Key: key, What: fmt.Sprintf(f, a...)})
	}
	postElems := func(list ...annElem) vsrv.Resp {
		b, _ := json.Marshal(list)
		return vsrv.Post(ann+"elements", b)
	}
	// expectOK handles the response of an annotation request the model considers valid.
	expectOK := func(r vsrv.Resp) bool {
		code, desc = r.Code, r.String()
		if r.OK() {
			return true
		}
		w.terminal = true
		if r.Code >= 500 {
			bad(class+"/server-error", "well-formed request answered %s", r)
		} else {
			bad(class+"/refused", "valid request refused: %s", r)
		}
		return false
	}
	class = op.K
	switch op.K {
	case "post":
		var e annElem
		if op.V == "new" || op.V == "note" {
			e = c13NewElem(op.P, op.V)
			class = "post:new"
		} else {
			e = c13Overwrite(v.elems[c13Pos[op.P]], op.V)
			class = "post:overwrite"
		}
		if expectOK(postElems(e)) {
			v.mPost(e)
		}
	case "link":
		a, b := c13CloneElem(v.elems[c13Pos[op.P]]), c13CloneElem(v.elems[c13Pos[op.Q]])
		a.Rels = append(a.Rels, annRel{Rel: "GroupedWith", To: b.Pos})
		b.Rels = append(b.Rels, annRel{Rel: "GroupedWith", To: a.Pos})
		class = "post:link"
		if expectOK(postElems(a, b)) {
			v.mPost(a, b)
		}
	case "post2":
		class = "post:pair"
		var a, b annElem
		switch op.V {
		case "drop-add":
			a = c13CloneElem(v.elems[c13Pos[op.P]])
			t := a.Tags[0]
			a.Tags = c13WithoutTag(a.Tags, t)
			b = annElem{Pos: c13Pos[op.Q], Kind: "PostSyn", Tags: []string{t}}
		case "swap":
			a, b = c13CloneElem(v.elems[c13Pos[op.P]]), c13CloneElem(v.elems[c13Pos[op.Q]])
			a.Tags, b.Tags = b.Tags, a.Tags
		case "two-new":
			a = annElem{Pos: c13Pos[op.P], Kind: "PreSyn", Tags: []string{"t3"}}
			b = annElem{Pos: c13Pos[op.Q], Kind: "Note", Tags: []string{"t3", "t1"}}
		}
		if expectOK(postElems(a, b)) {
			v.mPost(a, b)
		}
	case "del":
		p := c13Pos[op.P]
		e, exists := v.elems[p]
		r := vsrv.Delete(ann + fmt.Sprintf("element/%d_%d_%d", p[0], p[1], p[2]))
		if !exists {
			class = "delete:missing"
			code, desc = r.Code, r.String()
			if r.Code >= 500 {
				w.terminal = true
				bad(class+"/server-error", "DELETE of an absent element answered %s", r)
			}
			break // accepted or refused: nothing may change
		}
		class = "delete"
		if len(e.Rels) > 0 {
			class = "delete:linked"
		}
		if expectOK(r) {
			v.mDelete(p)
		}
	case "move":
		from, to := c13Pos[op.P], c13Pos[op.Q]
		e, exists := v.elems[from]
		_, occupied := v.elems[to]
		r := vsrv.PostS(ann+fmt.Sprintf("move/%d_%d_%d/%d_%d_%d", from[0], from[1], from[2], to[0], to[1], to[2]), "")
		if !exists {
			class = "move:missing"
			code, desc = r.Code, r.String()
			if r.Code >= 500 {
				w.terminal = true
				bad(class+"/server-error", "move of an absent element answered %s", r)
			}
			break
		}
		// the class names what decides which indexes a move has to touch: the body relation, partners, an occupant
		// (within / across blocks is part of the description, not of the class)
		class = "move"
		switch bf, bt := v.bodyAt(from), v.bodyAt(to); {
		case bf == bt && bf != 0:
			class += ":same-body"
		case bf == 0 && bt == 0:
			class += ":off-body"
		default:
			class += ":other-body"
		}
		if len(e.Rels) > 0 {
			class += ":linked"
		}
		if occupied {
			// Elements are addressed by position, so two elements cannot share one. The property is satisfied by a refusal
			// that changes nothing or by the moved element replacing the occupant; the model does not extend such states.
			class += ":onto-occupied"
			code, desc = r.Code, r.String()
			w.terminal = true
			if r.Code >= 500 {
				bad(class+"/server-error", "move answered %s", r)
			} else if r.OK() {
				v.mMove(from, to)
			}
			break
		}
		if expectOK(r) {
			v.mMove(from, to)
		}
	case "blocks":
		parts := strings.SplitN(op.V, "-", 2)
		class = "blocks+reload:" + parts[1]
		bc, list := c13BlocksContent(v, parts[0])
		if list == nil {
			list = []annElem{}
		}
		b, _ := json.Marshal(map[string][]annElem{c13BlockKey(bc): list})
		if !expectOK(vsrv.Post(ann+"blocks", b)) {
			break
		}
		for _, p := range v.sortedPos() {
			if c13Block(p) == bc {
				delete(v.elems, p)
			}
		}
		v.mPost(list...)
		vsrv.Quiesce()
		w.reload(u, parts[1], expectOK)
	case "bulkblocks":
		class = "bulkblocks+reload:" + op.V
		content := c13BulkContent()
		body := map[string][]annElem{}
		for bc, list := range content {
			body[c13BlockKey(bc)] = list
		}
		b, _ := json.Marshal(body)
		if !expectOK(vsrv.Post(ann+"blocks", b)) {
			break
		}
		for _, p := range v.sortedPos() {
			if _, replaced := content[c13Block(p)]; replaced {
				delete(v.elems, p)
			}
		}
		for _, list := range content {
			v.mPost(list...)
		}
		vsrv.Quiesce()
		w.reload(u, op.V, expectOK)
	case "reload":
		class = "reload:" + op.V
		w.reload(u, op.V, expectOK)
	case "merge":
		r := lmMerge(u, "lm", op.A, op.B...)
		code, desc = r.Code, r.String()
		if r.OK() {
			bodies := v.bodies()
			for _, s := range op.B {
				for sv := range bodies[s] {
					v.mapping[sv] = op.A
				}
			}
			for sv := range bodies[op.A] {
				if sv != op.A {
					v.mapping[sv] = op.A
				}
			}
		}
	case "cleave":
		newLabel, r := lmCleave(u, "lm", op.A, op.B...)
		code, desc = r.Code, r.String()
		if r.OK() {
			for _, sv := range op.B {
				v.mapping[sv] = newLabel
			}
		}
	case "splitsv":
		class = "splitsv"
		runs := c13Runs(v, op.A, false, op.V)
		sp, rem, r := lmSplitSV(u, "lm", op.A, runs)
		code, desc = r.Code, r.String()
		if r.OK() {
			body := v.body(op.A)
			in := map[int]bool{}
			for _, rn := range runs {
				for k := 0; k < rn.n; k++ {
					in[c13Idx(rn.x+k, rn.y, rn.z)] = true
				}
			}
			for i, s := range v.sv {
				if s == op.A {
					if in[i] {
						v.sv[i] = sp
					} else {
						v.sv[i] = rem
					}
				}
			}
			delete(v.mapping, op.A)
			if sp != body {
				v.mapping[sp] = body
			}
			if rem != body {
				v.mapping[rem] = body
			}
		}
	case "split":
		class = "split"
		runs := c13Runs(v, op.A, true, op.V)
		newLabel, r := lmSplitBody(u, "lm", op.A, runs)
		code, desc = r.Code, r.String()
		if r.OK() {
			vsrv.Quiesce()
			// The split renames supervoxels; the model takes the stored supervoxels and their mapping from the labelmap and
			// requires the body-level result: exactly the selected voxels belong to the new body, everything else is unchanged.
			in := map[int]bool{}
			for _, rn := range runs {
				for k := 0; k < rn.n; k++ {
					in[c13Idx(rn.x+k, rn.y, rn.z)] = true
				}
			}
			S, rr := lmGetRaw(u, "lm", [3]int{c13X0, 0, 0}, [3]int{c13NX, c13NY, c13NZ}, true, 0)
			if S == nil {
				bad("harness:split-readback", "GET raw?supervoxels=true after split: %s", rr)
				w.terminal = true
				break
			}
			set := map[uint64]bool{}
			for _, s := range S.v {
				if s != 0 {
					set[s] = true
				}
			}
			svs := sortedU64(set)
			mp, mr := lmMapping(u, "lm", svs)
			if len(mp) != len(svs) {
				bad("harness:split-readback", "GET mapping after split: %s", mr)
				w.terminal = true
				break
			}
			nm := map[uint64]uint64{}
			for i, s := range svs {
				if mp[i] != s {
					nm[s] = mp[i]
				}
			}
			wrong := 0
			for i := range S.v {
				want := v.body(v.sv[i])
				if in[i] {
					want = newLabel
				}
				got := S.v[i]
				if b, ok := nm[got]; ok {
					got = b
				}
				if got != want {
					wrong++
				}
			}
			if wrong > 0 {
				bad("harness:split-body-model", "after split of body %d into %d, %d voxels have a body other than the model expects", op.A, newLabel, wrong)
				w.terminal = true
			}
			v.sv, v.mapping = S.v, nm
		}
	case "renumber":
		nl := 60 + op.A%7
		for w.ever[nl] {
			nl += 7
		}
		r := lmRenumber(u, "lm", nl, op.A)
		code, desc = r.Code, r.String()
		if r.OK() {
			for sv := range v.bodies()[op.A] {
				v.mapping[sv] = nl
			}
		}
	case "raw", "rawingest":
		reg, fillName := "blkm2", op.V
		if op.K == "raw" {
			parts := strings.SplitN(op.V, "-", 2)
			reg, fillName = parts[0], parts[1]
		}
		class = op.K
		lo, hi := c13Region(reg)
		var fill uint64
		switch fillName {
		case "other":
			fill = v.svAt(c13Pos[4])
		case "mapped":
			var ks []uint64
			for k := range v.mapping {
				if v.mapping[k] != k {
					ks = append(ks, k)
				}
			}
			sort.Slice(ks, func(i, j int) bool { return ks[i] < ks[j] })
			if len(ks) > 0 {
				fill = ks[0]
			}
		case "fresh":
			fill = 70 + uint64(len(w.uuids))*3 + uint64(len(reg))
			for w.ever[fill] {
				fill += 11
			}
		}
		fl := func(a int) int { return c13FloorDiv(a, c13BS) * c13BS }
		blo := [3]int{fl(lo[0]), fl(lo[1]), fl(lo[2])}
		bhi := [3]int{fl(hi[0] + c13BS - 1), fl(hi[1] + c13BS - 1), fl(hi[2] + c13BS - 1)}
		vol := newLMVol(blo, [3]int{bhi[0] - blo[0], bhi[1] - blo[1], bhi[2] - blo[2]})
		for z := blo[2]; z < bhi[2]; z++ {
			for y := blo[1]; y < bhi[1]; y++ {
				for x := blo[0]; x < bhi[0]; x++ {
					val := v.sv[c13Idx(x, y, z)]
					if x >= lo[0] && x < hi[0] && y >= lo[1] && y < hi[1] && z >= lo[2] && z < hi[2] {
						val = fill
					}
					vol.set(x, y, z, val)
				}
			}
		}
		r := lmPostRaw(u, "lm", vol, op.K == "raw")
		code, desc = r.Code, r.String()
		if r.OK() {
			for z := blo[2]; z < bhi[2]; z++ {
				for y := blo[1]; y < bhi[1]; y++ {
					for x := blo[0]; x < bhi[0]; x++ {
						v.sv[c13Idx(x, y, z)] = vol.at(x, y, z)
					}
				}
			}
			if op.K == "rawingest" {
				v.mWritten = true
			}
		}
	case "newversion":
		vsrv.Quiesce()
		if err := vsrv.Commit(u); err != nil {
			w.terminal = true
			return 500, err.Error(), class, viols
		}
		child, err := vsrv.NewVersion(u)
		if err != nil {
			w.terminal = true
			return 500, err.Error(), class, viols
		}
		w.vers = append(w.vers, v.clone(w.leaf))
		w.uuids = append(w.uuids, child)
		w.leaf = len(w.vers) - 1
		code, desc = 200, "child version"
	}
	if !vsrv.Quiesce() {
		w.terminal = true
		viols = append(viols, c13Viol{Key: "harness:quiesce-timeout", What: "no runtime-level quiescence within the time limit after " + op.String()})
	}
	switch op.K {
	case "merge", "cleave", "splitsv", "split", "renumber", "raw", "rawingest":
		if code >= 500 {
			w.terminal = true
			bad(class+"/server-error", "label operation answered %s", desc)
		}
	}
	if !w.terminal && !w.vers[w.leaf].mutual() {
		w.terminal = true
		bad("harness:non-mutual-relationship", "the alphabet produced a one-sided relationship after %s", op)
	}
	w.remember()
	return
}

// reload runs POST reload on the annotation instance and, once that has settled, on the labelsz instance (POST blocks
// and the annotation reload do not notify subscribers, so the documented way to bring labelsz up to date is its own reload).
func (w *c13World) reload(u, mode string, expectOK func(vsrv.Resp) bool) {
	q := ""
	switch mode {
	case "low":
		q = "?inmemory=false"
	case "check":
		q = "?check=true"
	}
	if !expectOK(vsrv.PostS("node/"+u+"/ann/reload"+q, "")) {
		return
	}
	vsrv.Quiesce()
	if !expectOK(vsrv.PostS("node/"+u+"/lsz/reload", "")) {
		return
	}
	vsrv.Quiesce()
}

// canon renders the model state.
func (w *c13World) canon() string {
	h := fnv64()
	for i, v := range w.vers {
		fmt.Fprintf(h, "v%d<-%d:%v:", i, v.parent, v.mWritten)
		for _, p := range v.sortedPos() {
			fmt.Fprintf(h, "%s;", v.elems[p].canon())
		}
		for _, s := range v.sv {
			fmt.Fprintf(h, "%d,", s)
		}
		var ks []uint64
		for k := range v.mapping {
			ks = append(ks, k)
		}
		sort.Slice(ks, func(a, b int) bool { return ks[a] < ks[b] })
		for _, k := range ks {
			if v.body(k) != k {
				fmt.Fprintf(h, "%d>%d;", k, v.mapping[k])
			}
		}
	}
	return fmt.Sprintf("%x/%d", h.Sum64(), len(w.vers))
}
