package checks

// c14probe: a storage engine that is the real Badger engine plus one observation point. DVID's down-sampling stores the
// blocks of each lower level with one write batch (labelmap.StoreDownres); the wrapper calls c14CommitHook just before such
// a batch (one that contains labelmap block keys of scale >= 1) is committed, on the goroutine of the running mutation.
// At that moment the level is provably not stored yet, so the check can ask DVID's idle predicate - deterministically,
// without any timing - whether the volume would report itself idle.

import (
	"fmt"
	"sync"

	"github.com/janelia-flyem/dvid/datatype/labelmap"
	"github.com/janelia-flyem/dvid/dvid"
	"github.com/janelia-flyem/dvid/storage"
	"github.com/janelia-flyem/dvid/storage/badger"
)

const c14EngineName = "c14probe"

type c14Engine struct{ storage.Engine }

func (e c14Engine) GetName() string { return c14EngineName }
func (e c14Engine) String() string {
	return c14EngineName + " (badger + batch-commit observation point)"
}
func (e c14Engine) NewStore(cfg dvid.StoreConfig) (dvid.Store, bool, error) {
	st, initMeta, err := e.Engine.NewStore(cfg)
	if err != nil {
		return nil, false, err
	}
	db, ok := st.(*badger.BadgerDB)
	if !ok {
		return nil, false, fmt.Errorf("c14probe: badger engine returned %T", st)
	}
	return &c14Store{db}, initMeta, nil
}

type c14Store struct{ *badger.BadgerDB }

func (s *c14Store) NewBatch(ctx storage.Context) storage.Batch {
	return &c14Batch{Batch: s.BadgerDB.NewBatch(ctx)}
}

type c14Batch struct {
	storage.Batch
	scales []uint8 // scales >= 1 of the labelmap block keys put into this batch
	mu     sync.Mutex
}

func (b *c14Batch) Put(k storage.TKey, v []byte) {
	if scale, _, err := labelmap.DecodeBlockTKey(k); err == nil && scale >= 1 {
		b.mu.Lock()
		seen := false
		for _, s := range b.scales {
			seen = seen || s == scale
		}
		if !seen {
			b.scales = append(b.scales, scale)
		}
		b.mu.Unlock()
	}
	b.Batch.Put(k, v)
}

func (b *c14Batch) Commit() error {
	c14HookMu.Lock()
	h := c14CommitHook
	c14HookMu.Unlock()
	if h != nil {
		for _, s := range b.scales {
			h(s)
		}
	}
	return b.Batch.Commit()
}

// c14CommitHook is called with the scale whose blocks are about to be stored.
var (
	c14CommitHook func(scale uint8)
	c14HookMu     sync.Mutex
)

func c14SetHook(h func(scale uint8)) {
	c14HookMu.Lock()
	c14CommitHook = h
	c14HookMu.Unlock()
}

func c14RegisterEngine() error {
	be := storage.GetEngine("badger")
	if be == nil {
		return fmt.Errorf("badger engine not registered")
	}
	storage.RegisterEngine(c14Engine{be})
	return nil
}
