package checks

// C20 worlds: for each datatype a small repo with target data (what the seed requests address), sentinel data (stored under
// keys / blocks / labels that no request of the grammar can name) in the same instance and in a neighbouring instance, the
// reads that must keep answering as before, and one valid write that must keep being accepted.

import (
	"crypto/sha1"
	"fmt"
	"strings"
	"sync"

	"verif/vsrv"
)

type c20Read struct {
	Method, Path string
	Body         []byte
	Norm         func(code int, body []byte) string
	Neighbour    bool
}

type c20Case struct {
	Method, Path string
	Body         []byte
	Desc         string
}

type c20World struct {
	Name     string
	Build    func(uuid string) error
	Sentinel []c20Read
	Target   []c20Read
	Probe    c20Case
}

// c20Suite is one (endpoint, mutation class): the unit of violation keys and of evidence counts.
type c20Suite struct {
	World, DT, Endpoint, Class string
	WellFormed                 bool // the requests conform to the documented format
	MustSucceed                bool // seed suites: every case must be accepted (harness self-test)
	Fresh                      bool // every case starts from a newly built world
	gen                        func() []c20Case
	once                       sync.Once
	cached                     []c20Case
}

func (s *c20Suite) Name() string { return s.DT + ":" + s.Endpoint + ":" + s.Class }

func (s *c20Suite) cases() []c20Case {
	s.once.Do(func() { s.cached = s.gen() })
	return s.cached
}

type c20Catalogue struct {
	worlds map[string]*c20World
	eps    []*c20EP
	epBy   map[string]*c20EP // "<datatype>:<endpoint>"
	wf     []*c20Suite
	mu     sync.Mutex
	byName map[string]*c20Suite // filled as endpoints are expanded
}

var (
	c20CatMu  sync.Mutex
	c20CatMap = map[bool]*c20Catalogue{}
)

// c20GetCatalogue returns the catalogue of the tier. Endpoints are expanded into their suites (all mutations of the seed)
// on demand: a worker only expands the endpoints of the jobs it is given, the driver expands all of them.
func c20GetCatalogue(thorough bool) *c20Catalogue {
	c20CatMu.Lock()
	defer c20CatMu.Unlock()
	if c, ok := c20CatMap[thorough]; ok {
		return c
	}
	c20Reduced = !thorough
	c := &c20Catalogue{worlds: map[string]*c20World{}, byName: map[string]*c20Suite{}, epBy: map[string]*c20EP{}}
	for _, w := range []*c20World{c20LabelmapWorld(), c20AnnotationWorld(), c20KeyvalueWorld(), c20NeuronjsonWorld(), c20ROIWorld(), c20ImageblkWorld(), c20EmptyWorld()} {
		c.worlds[w.Name] = w
	}
	c.eps = append(c.eps, c20LabelmapEPs(thorough)...)
	c.eps = append(c.eps, c20AnnotationEPs(thorough)...)
	c.eps = append(c.eps, c20KeyvalueEPs(thorough)...)
	c.eps = append(c.eps, c20NeuronjsonEPs(thorough)...)
	c.eps = append(c.eps, c20ROIEPs(thorough)...)
	c.eps = append(c.eps, c20ImageblkEPs(thorough)...)
	for _, ep := range c.eps {
		k := ep.DT + ":" + ep.Name
		if _, dup := c.epBy[k]; dup {
			panic("c20: duplicate endpoint " + k)
		}
		c.epBy[k] = ep
	}
	c.wf = c20WellFormedSuites(thorough)
	for _, s := range c.wf {
		c.byName[s.Name()] = s
	}
	c20CatMap[thorough] = c
	return c
}

func (c *c20Catalogue) expand(ep *c20EP) []*c20Suite {
	ep.once.Do(func() {
		ep.cached = ep.suites()
		c.mu.Lock()
		for _, s := range ep.cached {
			if _, dup := c.byName[s.Name()]; dup {
				panic("c20: duplicate suite " + s.Name())
			}
			c.byName[s.Name()] = s
		}
		c.mu.Unlock()
	})
	return ep.cached
}

// suite finds a suite by name, expanding its endpoint if needed.
func (c *c20Catalogue) suite(name string) *c20Suite {
	c.mu.Lock()
	s := c.byName[name]
	c.mu.Unlock()
	if s != nil {
		return s
	}
	p := strings.SplitN(name, ":", 3)
	if len(p) < 3 {
		return nil
	}
	ep := c.epBy[p[0]+":"+p[1]]
	if ep == nil {
		return nil
	}
	c.expand(ep)
	c.mu.Lock()
	defer c.mu.Unlock()
	return c.byName[name]
}

// all expands everything (driver side).
func (c *c20Catalogue) all() []*c20Suite {
	var out []*c20Suite
	for _, ep := range c.eps {
		out = append(out, c.expand(ep)...)
	}
	return append(out, c.wf...)
}

// c20EP describes one endpoint with a valid seed request and what to mutate.
type c20EP struct {
	World, DT, Name string
	Method, Path    string     // the valid request (Path relative to node/<uuid>/)
	Body            []byte     // its body
	Layers          []c20Layer // binary grammar layers (the outer one has Wrap == nil and Data == Body)
	JSON            string     // JSON grammar seed (== string(Body)) when the body is JSON
	URL             string     // URL template ({name:seed} parameters) for the hostile-URL grammar; "" = none
	Fresh           bool
	NoSeedCheck     bool // the seed request is a query whose 2xx is not required (e.g. documented 404)
	once            sync.Once
	cached          []*c20Suite
}

const c20JSONDepth = 10000 // encoding/json refuses documents nested deeper than this

func (ep *c20EP) suites() []*c20Suite {
	var out []*c20Suite
	mk := func(class string, wf bool, gen func() []c20Case) *c20Suite {
		return &c20Suite{World: ep.World, DT: ep.DT, Endpoint: ep.Name, Class: class, WellFormed: wf, Fresh: ep.Fresh, gen: gen}
	}
	seed := mk("seed", true, func() []c20Case { return []c20Case{{ep.Method, ep.Path, ep.Body, "the valid seed request"}} })
	seed.MustSucceed = !ep.NoSeedCheck
	out = append(out, seed)
	group := func(ms []c20Mut, mkCase func(m c20Mut) c20Case) {
		var order []string
		by := map[string][]c20Mut{}
		for _, m := range ms {
			if _, ok := by[m.Class]; !ok {
				order = append(order, m.Class)
			}
			by[m.Class] = append(by[m.Class], m)
		}
		for _, cl := range order {
			cl := cl
			out = append(out, mk(cl, false, func() []c20Case {
				var cs []c20Case
				for _, m := range by[cl] {
					cs = append(cs, mkCase(m))
				}
				return cs
			}))
		}
	}
	var ms []c20Mut
	for _, l := range ep.Layers {
		ms = append(ms, c20BinMutations(l)...)
	}
	if ep.JSON != "" {
		ms = append(ms, c20JSONMutations(ep.JSON, c20JSONDepth)...)
	}
	group(ms, func(m c20Mut) c20Case { return c20Case{ep.Method, ep.Path, m.Body, m.Desc} })
	// every endpoint also gets its seed request under each other HTTP method (handlers switch on the method)
	var mm []c20Mut
	for _, m := range []string{"GET", "POST", "PUT", "DELETE", "HEAD", "PATCH", "OPTIONS"} {
		if m != ep.Method {
			mm = append(mm, c20Mut{Class: "method", Desc: "method := " + m, Body: []byte(m)})
		}
	}
	group(mm, func(m c20Mut) c20Case { return c20Case{string(m.Body), ep.Path, ep.Body, m.Desc} })
	if ep.URL != "" {
		_, um := c20URLMutations(ep.URL)
		group(um, func(m c20Mut) c20Case { return c20Case{ep.Method, string(m.Body), ep.Body, m.Desc} })
	}
	return out
}

// c20Digest is the default normalisation of a response: status and body (hashed when long).
func c20Digest(code int, body []byte) string {
	if len(body) > 160 {
		return fmt.Sprintf("%d sha1:%x (%d bytes) %q...", code, sha1.Sum(body), len(body), body[:64])
	}
	return fmt.Sprintf("%d %q", code, body)
}

func c20LMNorm(read string) func(int, []byte) string {
	return func(code int, body []byte) string {
		s := lmNormalize(read, code, body)
		if len(s) > 200 {
			return fmt.Sprintf("%d sha1:%x", code, sha1.Sum([]byte(s)))
		}
		return s
	}
}

func c20MustOK(r vsrv.Resp, what string) error {
	if !r.OK() {
		return fmt.Errorf("%s: %s", what, r)
	}
	return nil
}

// sentinel coordinates: block (37,41,43); none of its coordinates, and none of the sentinel labels, is reachable from a seed
// value by one bit flip, by a byte fill or by a value of the count / index / hostile-value lists.
const (
	c20SentSV   = 0x5A5A5A // sentinel supervoxel and body
	c20SentSV2  = 0x5A5A5B // second supervoxel of the sentinel body
	c20ProbeLbl = 0x3C3C3C
)

var c20SentBlock = [3]int{37, 41, 43}
