package checks

import (
	"encoding/json"
	"fmt"
	"sort"
)

// annElem mirrors the JSON of an annotation element.
type annElem struct {
	Pos  [3]int
	Kind string
	Tags []string
	Prop map[string]string
	Rels []annRel
}

type annRel struct {
	Rel string
	To  [3]int
}

func (e annElem) canon() string {
	tags := append([]string{}, e.Tags...)
	sort.Strings(tags)
	rels := make([]string, len(e.Rels))
	for i, r := range e.Rels {
		rels[i] = fmt.Sprintf("%s>%v", r.Rel, r.To)
	}
	sort.Strings(rels)
	var props []string
	for k, v := range e.Prop {
		props = append(props, k+"="+v)
	}
	sort.Strings(props)
	return fmt.Sprintf("%v|%s|%v|%v|%v", e.Pos, e.Kind, tags, props, rels)
}

// annNormalize canonicalises annotation responses: element lists are sets (their order, and the order of tags and
// relationships inside an element, is not an observable), block maps are keyed sets.
func annNormalize(code int, body []byte) string {
	if code != 200 {
		return fmt.Sprintf("%d", code)
	}
	var list []annElem
	if json.Unmarshal(body, &list) == nil {
		c := make([]string, len(list))
		for i, e := range list {
			c[i] = e.canon()
		}
		sort.Strings(c)
		return fmt.Sprintf("200:%v", c)
	}
	var blocks map[string][]annElem
	if json.Unmarshal(body, &blocks) == nil {
		var keys []string
		for k := range blocks {
			keys = append(keys, k)
		}
		sort.Strings(keys)
		out := "200:"
		for _, k := range keys {
			if len(blocks[k]) == 0 {
				continue
			}
			c := make([]string, len(blocks[k]))
			for i, e := range blocks[k] {
				c[i] = e.canon()
			}
			sort.Strings(c)
			out += fmt.Sprintf("%s=%v;", k, c)
		}
		return out
	}
	return fmt.Sprintf("200:%s", body)
}
