package checks

import (
	"encoding/json"
	"fmt"
	"sort"
	"strings"
)

// njNormalize canonicalises neuronjson responses: field lists and annotation lists are sets; *_time values are replaced.
func njNormalize(code int, body []byte) string {
	if code != 200 {
		return fmt.Sprintf("%d", code)
	}
	var v interface{}
	d := json.NewDecoder(strings.NewReader(string(body)))
	d.UseNumber()
	if d.Decode(&v) != nil {
		return fmt.Sprintf("200:%s", body)
	}
	var scrub func(x interface{}) interface{}
	scrub = func(x interface{}) interface{} {
		switch t := x.(type) {
		case map[string]interface{}:
			for k, e := range t {
				if strings.HasSuffix(k, "_time") {
					t[k] = "<time>"
				} else {
					t[k] = scrub(e)
				}
			}
			return t
		case []interface{}:
			for i := range t {
				t[i] = scrub(t[i])
			}
		}
		return x
	}
	v = scrub(v)
	if arr, ok := v.([]interface{}); ok {
		strs := make([]string, len(arr))
		for i, e := range arr {
			b, _ := json.Marshal(e)
			strs[i] = string(b)
		}
		sort.Strings(strs)
		return "200:[" + strings.Join(strs, ",") + "]"
	}
	b, _ := json.Marshal(v)
	return "200:" + string(b)
}
